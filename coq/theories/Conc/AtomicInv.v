(* Invariants of the interleaving model (AtomicLTS.v) and their consequences,
   for every number of threads, every program and every schedule.

   Structure
     ale            the monotone order on the shared allocator state: gens, alive,
                    cache fixed; clen only decreases, max_id only increases,
                    raised / killed only grow.  Every step is ale (tstep_ale).
     TI a t         per-thread invariant relative to the shared state, stable
                    under ale (TI_stable), preserved by the thread's own steps
                    (TI_step); GI = ale from the start + TI for every thread.
     claims         tstep_tids: a step leaves the indices a thread holds
                    unchanged, or adds one index nobody holds (the position
                    [clen] of the initial free list while decrementing it, or
                    the fresh index [max_id] while incrementing it); ids_step:
                    all indices held are pairwise distinct.
     LI             linearisation: the sequential replay of the history
                    variable [lin] on AllocModel (a_alloc_atomic / a_kill_atomic)
                    equals the shared state except that its [raised] is ahead
                    by the indices claimed and not yet raised (tstep_lin).
     RI             the results the replay returns to a thread are the results
                    the thread received (+ the handle of a creation in flight).
     QI             the queue is an interleaving of the pushes executed so far.
   Consequences (stated from R in section Final, used by Props/C10.v):
     (a) conc_handles_distinct   (b) conc_alive_from_return
     (c) conc_delete_check_passes, conc_delete_of_live_ok, conc_delete_recorded
     (d) conc_final_state_sequential (exact, up to set representation),
         conc_results_linearisable, conc_final_state_refines (R to Life)
     (e) conc_queue_interleaving       + conc_never_stuck, conc_programs_in_order

   Hypothesis on the handles a program may name ([hinit_okb], AtomicLTS.v):
   issued by this allocator.  Without it (d) is false: a forged handle
   carrying the next generation of a free index is reported dead before and
   alive after another thread's raised.add_atomic, which no sequential order of
   whole operations explains (see the comment at alive_transfer).

   Not proved here as one statement: "after the next maintain the alive set is
   initial + created - requested".  conc_final_state_refines hands the final
   state to the sequential development (R, valid choices, same outputs), where
   AllocRefine.merge_ref / entities_ref and the C02 theorems apply; the set
   equation itself is evaluated on every explored case by c10_ok. *)
From SV Require Import Base.ListX Alloc.LifeProps Alloc.AllocRefine Conc.AtomicLTS.
From SV Require World.World World.WorldSpec World.Simulation.
From Coq Require Import Permutation.

Ltac norm := cbn [fst snd gens alive raised killed cache clen max_id a_stuck
                  sh queue inits threads lin prog tpc mine done outs].

Ltac unf := unfold set_clen, set_max, add_raised, add_killed, set_stuck, set_pc, finish, finish_create; norm.

(* ------------------------------------------------------------------ *)
(* lists of threads *)

Lemma set_nth_app {A} (l1 : list A) t t' l2 : set_nth (length l1) t' (l1 ++ t :: l2) = l1 ++ t' :: l2.
Proof. induction l1 as [|x l1 IH]; cbn [length app set_nth]; [reflexivity|]. rewrite IH. reflexivity. Qed.

Lemma step_thread_cases c n :
  (step_thread c n = c /\ nth_error (threads c) n = None) \/
  exists l1 t l2 a' q' t' ev,
    threads c = l1 ++ t :: l2 /\ length l1 = n /\
    tstep (inits c) (sh c) (queue c) t = (a', q', t', ev) /\
    step_thread c n = {| sh := a'; queue := q'; inits := inits c; threads := l1 ++ t' :: l2;
                         lin := match ev with Some o => lin c ++ [(n, o)] | None => lin c end |}.
Proof.
  unfold step_thread. destruct (nth_error (threads c) n) as [t|] eqn:E; [right | left; auto].
  destruct (nth_error_split _ _ E) as [l1 [l2 [Hl Hn]]].
  destruct (tstep (inits c) (sh c) (queue c) t) as [[[a' q'] t'] ev] eqn:Et.
  exists l1, t, l2, a', q', t', ev. repeat split; auto.
  rewrite Hl at 1. rewrite <- Hn, set_nth_app. reflexivity.
Qed.

Lemma run_inv (P : config -> Prop) :
  (forall c n, P c -> P (step_thread c n)) -> forall s c, P c -> P (run c s).
Proof. intros H s. induction s as [|n s IH]; intros c Hc; cbn [run]; auto. Qed.

Lemma run_app s1 : forall c s2, run c (s1 ++ s2) = run (run c s1) s2.
Proof. induction s1 as [|n s1 IH]; intros c s2; cbn [run app]; auto. Qed.

Lemma inits_step c n : inits (step_thread c n) = inits c.
Proof.
  destruct (step_thread_cases c n) as [[-> _]|[l1 [t [l2 [a' [q' [t' [ev [_ [_ [_ ->]]]]]]]]]]]; reflexivity.
Qed.

Lemma inits_run s : forall c, inits (run c s) = inits c.
Proof. induction s as [|n s IH]; intros c; cbn [run]; [reflexivity|]. rewrite IH. apply inits_step. Qed.

(* the case analysis of one step: 18 cases *)
Ltac tstep_cases H :=
  match type of H with
  | tstep ?I ?a ?q ?t = _ =>
      unfold tstep in H;
      let Epc := fresh "Epc" in let Epr := fresh "Epr" in
      destruct (tpc t) as [|p|x| |p|id|id|h e] eqn:Epc;
      [ destruct (prog t) as [|[|h|h|x] r] eqn:Epr;
        [ | | destruct (resolve I t h) as [e|] eqn:Eres; [destruct (a_is_alive a e) eqn:Eal|]
          | destruct (resolve I t h) as [e|] eqn:Eres | ]
      | destruct (N.eqb_spec (clen a) p) as [Eq|Eq]
      | destruct (pv_get (cache a) (x - 1)) as [id|] eqn:Eget
      |
      | destruct (N.eqb_spec (max_id a) p) as [Eq|Eq]
      | | | ];
      inversion H; subst; clear H
  end.

(* ------------------------------------------------------------------ *)
(* what a step can do to the shared allocator: a monotone order *)

Record ale (a a' : astate) : Prop := {
  le_gens : gens a' = gens a;
  le_alive : alive a' = alive a;
  le_cache : cache a' = cache a;
  le_clen : clen a' <= clen a;
  le_max : max_id a <= max_id a';
  le_raised : forall i, NS.mem i (raised a) = true -> NS.mem i (raised a') = true;
  le_killed : forall i, NS.mem i (killed a) = true -> NS.mem i (killed a') = true }.

Lemma ale_refl a : ale a a.
Proof. split; auto; lia. Qed.

Lemma ale_trans a b c : ale a b -> ale b c -> ale a c.
Proof.
  intros [A1 A2 A3 A4 A5 A6 A7] [B1 B2 B3 B4 B5 B6 B7]. split; try congruence; try lia; auto.
Qed.

Lemma tstep_ale I a q t a' q' t' ev : tstep I a q t = (a', q', t', ev) -> ale a a'.
Proof.
  intros H. tstep_cases H; try apply ale_refl; split; unf; auto; try lia;
    try (intros i Hi; rewrite mem_add; destruct (N.eq_dec _ i); auto).
Qed.

Lemma step_ale c n : ale (sh c) (sh (step_thread c n)).
Proof.
  destruct (step_thread_cases c n) as [[-> _]|[l1 [t [l2 [a' [q' [t' [ev [_ [_ [Ht ->]]]]]]]]]]]; norm.
  - apply ale_refl.
  - apply (tstep_ale _ _ _ _ _ _ _ _ Ht).
Qed.

Lemma run_ale s : forall c, ale (sh c) (sh (run c s)).
Proof.
  induction s as [|n s IH]; intros c; cbn [run]; [apply ale_refl|].
  eapply ale_trans; [apply step_ale | apply IH].
Qed.

Lemma ale_gen_at a a' i : ale a a' -> gen_at a' i = gen_at a i.
Proof. intros H. unfold gen_at. rewrite (le_gens _ _ H). reflexivity. Qed.

Lemma ale_join_gen a a' i : ale a a' -> join_gen a' i = join_gen a i.
Proof. intros H. unfold join_gen. rewrite (ale_gen_at _ _ _ H). reflexivity. Qed.

Lemma ale_err_gen a a' i : ale a a' -> err_gen a' i = err_gen a i.
Proof. intros H. unfold err_gen. rewrite (ale_gen_at _ _ _ H). reflexivity. Qed.

(* ------------------------------------------------------------------ *)
(* aliveness *)

Lemma join_gen_pos a i : (1 <= join_gen a i)%Z.
Proof. unfold join_gen. destruct (Z.ltb_spec 0 (gen_at a i)); lia. Qed.

(* a handle carrying the generation allocate_atomic computes is alive as soon
   as (and as long as) its index is in [raised] *)
Lemma raised_alive a i : NS.mem i (raised a) = true -> a_is_alive a (i, join_gen a i) = true.
Proof.
  intros H. unfold a_is_alive, cur_gen, join_gen. cbn [fst snd]. rewrite H.
  destruct (Z.leb_spec (gen_at a i) 0); destruct (Z.ltb_spec 0 (gen_at a i)); try lia; cbn [andb].
  - apply Z.eqb_refl.
  - destruct (Z.eqb_spec (gen_at a i) 0); [lia|]. apply Z.eqb_refl.
Qed.

(* aliveness of a handle with a positive generation is never lost during the phase *)
Lemma alive_mono a a' e : ale a a' -> (1 <= snd e)%Z -> a_is_alive a e = true -> a_is_alive a' e = true.
Proof.
  intros H Hp. unfold a_is_alive, cur_gen. rewrite (ale_gen_at _ _ _ H).
  destruct (Z.leb_spec (gen_at a (fst e)) 0); cbn [andb]; [|auto].
  destruct (NS.mem (fst e) (raised a)) eqn:Er.
  - rewrite (le_raised _ _ H _ Er). auto.
  - destruct (Z.eqb_spec (gen_at a (fst e)) 0) as [E0|E0].
    + intros Hs. destruct (NS.mem (fst e) (raised a')); [|assumption]. rewrite E0. assumption.
    + intros Hs. apply Z.eqb_eq in Hs. lia.
Qed.

Lemma stable_alive a a' e : ale a a' -> (1 <= snd e)%Z -> h_stable a e = true -> a_is_alive a' e = a_is_alive a e.
Proof.
  intros H Hp. unfold h_stable, a_is_alive, cur_gen. rewrite (ale_gen_at _ _ _ H).
  destruct (NS.mem (fst e) (raised a)) eqn:Er.
  - rewrite (le_raised _ _ H _ Er). reflexivity.
  - destruct (NS.mem (fst e) (raised a')); [|reflexivity].
    rewrite andb_true_r, andb_false_r.
    destruct (Z.leb_spec (gen_at a (fst e)) 0); destruct (Z.ltb_spec (gen_at a (fst e)) 0); try lia; cbn [andb negb].
    + intros Hs. apply negb_true_iff in Hs. rewrite Hs.
      destruct (Z.eqb_spec (gen_at a (fst e)) 0); [lia|].
      symmetry. apply Z.eqb_neq. lia.
    + intros _. assert (gen_at a (fst e) = 0%Z) as -> by lia. reflexivity.
    + reflexivity.
Qed.

Lemma in_snoc {A} (x y : A) l : In x (l ++ [y]) <-> In x l \/ x = y.
Proof. rewrite in_app_iff. cbn [In]. intuition. Qed.

(* ------------------------------------------------------------------ *)
(* one phase: [a0] the allocator at the start, [I] the handles every thread
   may refer to *)

Section Phase.
Variable a0 : astate.
Variable I : list entity.

(* what the proofs need to know about the free list at the start: the part
   of the cache vector below [clen] is readable, holds pairwise distinct
   indices, all below [max_id] *)
Record Init0 : Prop := {
  i0_stuck : a_stuck a0 = false;
  i0_get : forall x, 0 < x <= clen a0 -> exists id, pv_get (cache a0) (x - 1) = Some id /\ id < max_id a0;
  i0_inj : forall x y id, 0 < x <= clen a0 -> 0 < y <= clen a0 ->
           pv_get (cache a0) (x - 1) = Some id -> pv_get (cache a0) (y - 1) = Some id -> x = y }.

(* an initial handle was issued by this allocator: index below the counter,
   positive generation, not a generation of the future *)
Definition hinit_ok (e : entity) : Prop :=
  fst e < max_id a0 /\ (1 <= snd e)%Z /\ h_stable a0 e = true.

Hypothesis H0 : Init0.
Hypothesis HI : Forall hinit_ok I.

(* an index won by a successful CAS: a position of the initial free list
   that is no longer below [clen], or a fresh index *)
Definition claimed (a : astate) (id : N) : Prop :=
  (exists x, clen a < x <= clen a0 /\ pv_get (cache a0) (x - 1) = Some id) \/ (max_id a0 <= id < max_id a).

Definition hgood (a : astate) (e : entity) : Prop :=
  fst e < max_id a /\ (1 <= snd e)%Z /\
  (h_stable a0 e = true \/ (NS.mem (fst e) (raised a) = true /\ snd e = join_gen a0 (fst e))).

Definition creating (p : pc) : bool :=
  match p with PDecCas _ | PRead _ | PIncLoad | PIncCas _ | PRaise _ | PGen _ => true | _ => false end.

(* the per-thread invariant, relative to the shared allocator state *)
Record TI (a : astate) (t : thread) : Prop := {
  ti_c : creating (tpc t) = true -> exists r, prog t = CCreate :: r;
  ti_k : forall h e, tpc t = PKillAdd h e ->
         (exists r, prog t = CDelete h :: r) /\ hgood a e /\ a_is_alive a e = true;
  ti_dec : forall p, tpc t = PDecCas p -> 0 < p <= clen a0;
  ti_read : forall x, tpc t = PRead x -> clen a < x <= clen a0;
  ti_incl : tpc t = PIncLoad -> clen a = 0;
  ti_incc : forall p, tpc t = PIncCas p -> clen a = 0;
  ti_raise : forall id, tpc t = PRaise id -> claimed a id;
  ti_gen : forall id, tpc t = PGen id -> claimed a id /\ NS.mem id (raised a) = true;
  ti_mine : forall e, In e (mine t) ->
            claimed a (fst e) /\ NS.mem (fst e) (raised a) = true /\ snd e = join_gen a0 (fst e);
  ti_kok : forall e, In (OKill e None) (outs t) -> NS.mem (fst e) (killed a) = true;
  ti_kerr : forall e g, In (OKill e (Some g)) (outs t) ->
            (1 <= snd e)%Z /\ h_stable a0 e = true /\ a_is_alive a0 e = false;
  ti_nopanic : ~ In OPanic (outs t) }.

Definition G (a : astate) : Prop := ale a0 a /\ a_stuck a = false.

Lemma claimed_stable a a' id : ale a a' -> claimed a id -> claimed a' id.
Proof.
  intros H [[x [Hx Hg]]|Hf]; [left | right].
  - exists x. split; [|assumption]. pose proof (le_clen _ _ H). lia.
  - pose proof (le_max _ _ H). lia.
Qed.

Lemma claimed_lt a id : ale a0 a -> claimed a id -> id < max_id a.
Proof.
  intros H [[x [Hx Hg]]|Hf]; [|lia].
  destruct (i0_get H0 x) as [id' [Hg' Hlt]]; [lia|].
  rewrite Hg in Hg'. inversion Hg'; subst. pose proof (le_max _ _ H). lia.
Qed.

Lemma hgood_stable a a' e : ale a a' -> hgood a e -> hgood a' e.
Proof.
  intros H [H1 [H2 H3]]. split; [pose proof (le_max _ _ H); lia|]. split; [assumption|].
  destruct H3 as [H3|[H3 H4]]; [left; assumption|right]. split; [apply (le_raised _ _ H); assumption | assumption].
Qed.

Lemma TI_stable a a' t : ale a a' -> TI a t -> TI a' t.
Proof.
  intros H [c k dec read incl incc raise gen mine kok kerr np]. split; auto.
  - intros h e Hp. destruct (k h e Hp) as [K1 [K2 K3]]. split; [assumption|]. split.
    + apply (hgood_stable a); assumption.
    + apply (alive_mono a); [assumption | apply K2 | assumption].
  - intros x Hp. specialize (read x Hp). pose proof (le_clen _ _ H). lia.
  - intros Hp. specialize (incl Hp). pose proof (le_clen _ _ H). lia.
  - intros p Hp. specialize (incc p Hp). pose proof (le_clen _ _ H). lia.
  - intros id Hp. apply (claimed_stable a); auto.
  - intros id Hp. destruct (gen id Hp). split; [apply (claimed_stable a) | apply (le_raised _ _ H)]; auto.
  - intros e He. destruct (mine e He) as [M1 [M2 M3]]. split; [apply (claimed_stable a); auto|].
    split; [apply (le_raised _ _ H); auto | assumption].
  - intros e He. apply (le_killed _ _ H). auto.
Qed.

(* the handle a reference resolves to is one the thread may legitimately use *)
Lemma resolve_good a t h e : ale a0 a -> TI a t -> resolve I t h = Some e -> hgood a e.
Proof.
  intros Ha Ht Hr. destruct h as [k|k]; cbn [resolve] in Hr; apply nth_error_In in Hr.
  - rewrite Forall_forall in HI. destruct (HI e Hr) as [H1 [H2 H3]].
    split; [pose proof (le_max _ _ Ha); lia|]. split; [assumption | left; assumption].
  - destruct (ti_mine _ _ Ht e Hr) as [M1 [M2 M3]]. split; [apply claimed_lt; assumption|].
    split; [rewrite M3; apply join_gen_pos | right; auto].
Qed.

(* a handle the thread created itself is alive *)
Lemma own_alive a e : ale a0 a -> NS.mem (fst e) (raised a) = true -> snd e = join_gen a0 (fst e) ->
  a_is_alive a e = true.
Proof.
  intros Ha Hm Hs. destruct e as [i g]; cbn [fst snd] in *. subst g.
  rewrite <- (ale_join_gen a0 a i Ha). apply raised_alive. assumption.
Qed.

Lemma after_len_TI a t : ale a0 a -> TI a t -> (exists r, prog t = CCreate :: r) ->
  (tpc t = PIdle \/ exists p, tpc t = PDecCas p) -> TI a (set_pc t (after_len (clen a))).
Proof.
  intros Ha [c k dec read incl incc raise gen mine kok kerr np] Hprog Hpc.
  unfold after_len. destruct (N.eqb_spec (clen a) 0) as [E|E]; split; unf; auto; try discriminate.
  - intros p Hp. inversion Hp; subst. pose proof (le_clen _ _ Ha). lia.
Qed.

Ltac ti_old := match goal with
  | Ht : TI _ _ |- _ => destruct Ht as [c k dec read incl incc raise gen mine kok kerr np] end.

(* fields of the invariant that speak about the outputs, after one more output *)
Ltac outs_snoc :=
  intros; match goal with
  | H : In _ (_ ++ [_]) |- _ => apply in_snoc in H; destruct H as [H|H]; [eauto | try discriminate H] end.

Ltac ti_fin :=
  auto; try discriminate; try solve [outs_snoc];
  try solve [intros _; match goal with c : creating _ = true -> _, E : tpc _ = _ |- _ => apply c; rewrite E; reflexivity end].

Lemma TI_step a q t a' q' t' ev : G a -> TI a t -> tstep I a q t = (a', q', t', ev) ->
  TI a' t' /\ a_stuck a' = false.
Proof.
  intros [Ha Hst] Ht H.
  pose proof (tstep_ale _ _ _ _ _ _ _ _ H) as Hle.
  pose proof (TI_stable _ _ _ Hle Ht) as Ht'.
  pose proof (ale_trans _ _ _ Ha Hle) as Ha'.
  tstep_cases H.
  - (* nothing to run *) auto.
  - (* create: load len *)
    split; [|assumption]. apply after_len_TI; eauto.
  - (* delete: is_alive holds *)
    split; [|assumption]. pose proof (resolve_good _ _ _ _ Ha Ht Eres) as Hg.
    ti_old. split; unf; ti_fin.
    intros h' e' Hp. inversion Hp; subst. eauto.
  - (* delete: not alive, Err *)
    split; [|assumption]. pose proof (resolve_good _ _ _ _ Ha Ht Eres) as [G1 [G2 G3]].
    ti_old. split; unf; ti_fin.
    + intros e' g Hin. apply in_snoc in Hin. destruct Hin as [Hin|Hin]; [eauto|]. inversion Hin; subst.
      destruct G3 as [G3|[G3 G4]].
      * split; [assumption|]. split; [assumption|]. rewrite <- (stable_alive a0 a' e) by assumption. assumption.
      * rewrite (own_alive a' e Ha G3 G4) in Eal. discriminate.
    + intros Hin. apply in_snoc in Hin. destruct Hin as [Hin|Hin]; [auto|discriminate].
  - (* delete: unresolved reference *)
    split; [|assumption]. ti_old. split; unf; ti_fin.
    intros Hin. apply in_snoc in Hin. destruct Hin as [Hin|Hin]; [auto|discriminate].
  - (* is_alive *)
    split; [|assumption]. ti_old. split; unf; ti_fin.
    intros Hin. apply in_snoc in Hin. destruct Hin as [Hin|Hin]; [auto|discriminate].
  - split; [|assumption]. ti_old. split; unf; ti_fin.
    intros Hin. apply in_snoc in Hin. destruct Hin as [Hin|Hin]; [auto|discriminate].
  - (* push *)
    split; [|assumption]. ti_old. split; unf; ti_fin.
    intros Hin. apply in_snoc in Hin. destruct Hin as [Hin|Hin]; [auto|discriminate].
  - (* CAS on len succeeds *)
    split; [|assumption]. pose proof (ti_dec _ _ Ht _ Epc) as Hp.
    ti_old. split; unf; ti_fin.
    intros x Hx. inversion Hx; subst. lia.
  - (* CAS on len fails *)
    split; [|assumption]. apply after_len_TI; eauto. apply (ti_c _ _ Ht). rewrite Epc. reflexivity.
  - (* cache read *)
    split; [|assumption]. pose proof (ti_read _ _ Ht _ Epc) as Hx.
    ti_old. split; unf; ti_fin.
    intros id' Hp. inversion Hp; subst. left. exists x. split; [assumption|].
    rewrite <- (le_cache _ _ Ha). assumption.
  - (* cache read out of bounds: impossible *)
    exfalso. pose proof (ti_read _ _ Ht _ Epc) as Hx. destruct (i0_get H0 x) as [id [Hg _]]; [lia|].
    rewrite (le_cache _ _ Ha) in Eget. congruence.
  - (* load max_id *)
    split; [|assumption]. pose proof (ti_incl _ _ Ht Epc) as Hz.
    ti_old. split; unf; ti_fin.
  - (* CAS on max_id succeeds *)
    split; [|assumption]. ti_old. split; unf; ti_fin.
    intros id' Hp. inversion Hp; subst. right. pose proof (le_max _ _ Ha). unf. lia.
  - (* CAS on max_id fails *)
    split; [|assumption]. pose proof (ti_incc _ _ Ht _ Epc) as Hz.
    ti_old. split; unf; ti_fin.
  - (* raised.add_atomic *)
    split; [|assumption]. pose proof (ti_raise _ _ Ht' _ Epc) as Hc.
    ti_old. split; unf; ti_fin.
    intros id' Hp. inversion Hp; subst. split; [assumption|]. rewrite mem_add. destruct (N.eq_dec id' id'); congruence.
  - (* generation read, return *)
    split; [|assumption]. destruct (ti_gen _ _ Ht _ Epc) as [Hc Hr].
    ti_old. split; unf; ti_fin.
    + intros e He. apply in_snoc in He. destruct He as [He|He]; [auto|]. subst e. cbn [fst snd].
      split; [assumption|]. split; [assumption|]. apply ale_join_gen. assumption.
    + intros Hin. apply in_snoc in Hin. destruct Hin as [Hin|Hin]; [auto|discriminate].
  - (* killed.add_atomic *)
    split; [|assumption]. ti_old. split; unf; ti_fin.
    + intros e' Hin. apply in_snoc in Hin. destruct Hin as [Hin|Hin]; [auto|]. inversion Hin; subst.
      rewrite mem_add. destruct (N.eq_dec (fst e) (fst e)); congruence.
    + intros Hin. apply in_snoc in Hin. destruct Hin as [Hin|Hin]; [auto|discriminate].
Qed.

(* ------------------------------------------------------------------ *)
(* the invariant of configurations *)

Record GI (c : config) : Prop := {
  gi_g : G (sh c);
  gi_t : Forall (TI (sh c)) (threads c);
  gi_i : inits c = I }.

Lemma TI_new a p : TI a (t_new p).
Proof. split; cbn; try discriminate; try contradiction; auto. Qed.

Lemma GI_new progs : GI (c_new a0 I progs).
Proof.
  split; cbn [c_new sh threads inits]; [split; [apply ale_refl | apply (i0_stuck H0)] | | reflexivity].
  apply Forall_forall. intros t Ht. apply in_map_iff in Ht. destruct Ht as [p [<- _]]. apply TI_new.
Qed.

Lemma GI_step c n : GI c -> GI (step_thread c n).
Proof.
  intros [Hg Ht Hi].
  destruct (step_thread_cases c n) as [[-> _]|[l1 [t [l2 [a' [q' [t' [ev [Hl [Hn [Hs ->]]]]]]]]]]]; [split; assumption|].
  rewrite Hi in Hs. rewrite Hl in Ht. apply Forall_app in Ht. destruct Ht as [F1 F2]. inversion F2 as [|? ? Tt F3]; subst.
  pose proof (tstep_ale _ _ _ _ _ _ _ _ Hs) as Hle.
  destruct (TI_step _ _ _ _ _ _ _ Hg Tt Hs) as [Tt' Hst].
  split; norm.
  - split; [apply (ale_trans _ (sh c)); [apply Hg | assumption] | assumption].
  - apply Forall_app. split; [|constructor; [assumption|]];
      (eapply Forall_impl; [|eassumption]); intros x Hx; apply (TI_stable (sh c)); assumption.
  - assumption.
Qed.

Lemma GI_run s c : GI c -> GI (run c s).
Proof. revert c. apply run_inv. apply GI_step. Qed.

(* handles and outputs are only ever appended *)
Lemma tstep_mono J a q t a' q' t' ev : tstep J a q t = (a', q', t', ev) ->
  (exists m, mine t' = mine t ++ m) /\ (exists o, outs t' = outs t ++ o) /\ (exists d, done t' = done t ++ d).
Proof.
  intros H. tstep_cases H; unf;
    repeat split; try (exists []; rewrite app_nil_r; reflexivity); eexists; reflexivity.
Qed.

Lemma step_thread_nth c n k t : nth_error (threads c) k = Some t ->
  exists t', nth_error (threads (step_thread c n)) k = Some t' /\ (exists m, mine t' = mine t ++ m) /\ (exists o, outs t' = outs t ++ o) /\ (exists d, done t' = done t ++ d).
Proof.
  intros Hk.
  assert (forall t0 : thread, (exists m, mine t0 = mine t0 ++ m) /\ (exists o, outs t0 = outs t0 ++ o) /\ (exists d, done t0 = done t0 ++ d)) as Hrefl.
  { intros t0. repeat split; exists []; rewrite app_nil_r; reflexivity. }
  destruct (step_thread_cases c n) as [[-> _]|[l1 [t0 [l2 [a' [q' [t' [ev [Hl [Hn [Hs ->]]]]]]]]]]]; [exists t; auto|].
  norm. rewrite Hl in Hk. destruct (Nat.lt_total k (length l1)) as [Hlt|[Heq|Hgt]].
  - rewrite nth_error_app1 in * by assumption. exists t. auto.
  - subst k. rewrite nth_error_app2 in * by lia. rewrite Nat.sub_diag in *. cbn [nth_error] in *.
    inversion Hk; subst. exists t'. split; [reflexivity|]. apply (tstep_mono _ _ _ _ _ _ _ _ Hs).
  - rewrite nth_error_app2 in * by lia. destruct (k - length l1)%nat as [|j] eqn:Ej; [lia|].
    cbn [nth_error] in *. exists t. auto.
Qed.

Lemma run_nth s : forall c k t, nth_error (threads c) k = Some t ->
  exists t', nth_error (threads (run c s)) k = Some t' /\ (exists m, mine t' = mine t ++ m) /\ (exists o, outs t' = outs t ++ o) /\ (exists d, done t' = done t ++ d).
Proof.
  induction s as [|n s IH]; intros c k t Hk; cbn [run].
  - exists t. split; [assumption|]. repeat split; exists []; rewrite app_nil_r; reflexivity.
  - destruct (step_thread_nth c n k t Hk) as [t1 [H1 [[m1 M1] [[o1 O1] [d1 D1]]]]].
    destruct (IH _ _ _ H1) as [t2 [H2 [[m2 M2] [[o2 O2] [d2 D2]]]]].
    exists t2. split; [assumption|]. rewrite M2, M1, O2, O1, D2, D1, <- !app_assoc. repeat split; eexists; reflexivity.
Qed.

(* (b) a returned handle is alive in every later state of the phase *)
Theorem created_alive_later c k t e s : GI c -> nth_error (threads c) k = Some t -> In e (mine t) ->
  a_is_alive (sh (run c s)) e = true.
Proof.
  intros Hc Hk He. pose proof (GI_run s c Hc) as [[Ha _] Ht _].
  destruct (run_nth s c k t Hk) as [t' [Hk' [[m M] _]]].
  rewrite Forall_forall in Ht. specialize (Ht t' (nth_error_In _ _ Hk')).
  destruct (ti_mine _ _ Ht e) as [_ [M2 M3]]; [rewrite M; apply in_or_app; left; assumption|].
  apply own_alive; assumption.
Qed.

(* (c) a deletion request for a handle that was alive at the start or that
   the thread created itself succeeds ... *)
Theorem kill_of_live_ok c k t e r : GI c -> nth_error (threads c) k = Some t -> In (OKill e r) (outs t) ->
  (a_is_alive a0 e = true \/ In e (mine t)) -> r = None.
Proof.
  intros [[Ha _] Ht _] Hk Hin Hl. destruct r as [g|]; [exfalso|reflexivity].
  rewrite Forall_forall in Ht. specialize (Ht t (nth_error_In _ _ Hk)).
  destruct (ti_kerr _ _ Ht e g Hin) as [K1 [K2 K3]]. destruct Hl as [Hl|Hl]; [congruence|].
  destruct (ti_mine _ _ Ht e Hl) as [_ [M2 M3]].
  pose proof (own_alive _ _ Ha M2 M3) as Hal. rewrite (stable_alive a0 (sh c) e Ha K1 K2) in Hal. congruence.
Qed.

(* ... at the moment of the check already ... *)
Theorem kill_check_passes c k t h r e : GI c -> nth_error (threads c) k = Some t ->
  tpc t = PIdle -> prog t = CDelete h :: r -> resolve I t h = Some e ->
  ((a_is_alive a0 e = true /\ (1 <= snd e)%Z) \/ In e (mine t)) ->
  a_is_alive (sh c) e = true.
Proof.
  intros [[Ha _] Ht _] Hk _ _ _ Hl. rewrite Forall_forall in Ht. specialize (Ht t (nth_error_In _ _ Hk)).
  destruct Hl as [[Hl Hp]|Hl].
  - apply (alive_mono a0); assumption.
  - destruct (ti_mine _ _ Ht e Hl) as [_ [M2 M3]]. apply own_alive; assumption.
Qed.

(* ... and its index is in [killed] in every later state *)
Theorem kill_ok_recorded c k t e s : GI c -> nth_error (threads c) k = Some t -> In (OKill e None) (outs t) ->
  NS.mem (fst e) (killed (sh (run c s))) = true.
Proof.
  intros [_ Ht _] Hk Hin. rewrite Forall_forall in Ht. specialize (Ht t (nth_error_In _ _ Hk)).
  apply (le_killed _ _ (run_ale s c)). apply (ti_kok _ _ Ht). assumption.
Qed.

(* no reachable state is stuck, no operation panics *)
Theorem never_stuck c : GI c -> a_stuck (sh c) = false /\ forall t, In t (threads c) -> ~ In OPanic (outs t).
Proof.
  intros [[_ Hs] Ht _]. split; [assumption|]. intros t Hin. rewrite Forall_forall in Ht. apply (ti_nopanic _ _ (Ht t Hin)).
Qed.

(* ------------------------------------------------------------------ *)
(* (a) distinct claims: every index a thread holds -- through a returned
   handle or through the creation in progress -- was won by one successful
   CAS, and no two CAS win the same index *)

Definition pcids_of (p : pc) : list N :=
  match p with
  | PRead x => match pv_get (cache a0) (x - 1) with Some id => [id] | None => [] end
  | PRaise id | PGen id => [id]
  | _ => []
  end.
Definition pcids (t : thread) : list N := pcids_of (tpc t).

Definition tids (t : thread) : list N := map fst (mine t) ++ pcids t.
Definition ids (c : config) : list N := flat_map tids (threads c).

Lemma tids_claimed a t id : ale a0 a -> TI a t -> In id (tids t) -> claimed a id.
Proof.
  intros Ha Ht Hin. unfold tids in Hin. apply in_app_or in Hin. destruct Hin as [Hin|Hin].
  - apply in_map_iff in Hin. destruct Hin as [e [<- He]]. apply (ti_mine _ _ Ht e He).
  - unfold pcids, pcids_of in Hin. destruct (tpc t) as [|p|x| |p|id'|id'|h e] eqn:Epc; try contradiction.
    + destruct (pv_get (cache a0) (x - 1)) as [id'|] eqn:Eg; [|contradiction].
      destruct Hin as [<-|[]]. left. exists x. split; [apply (ti_read _ _ Ht _ Epc) | assumption].
    + destruct Hin as [<-|[]]. apply (ti_raise _ _ Ht _ Epc).
    + destruct Hin as [<-|[]]. apply (ti_gen _ _ Ht _ Epc).
Qed.

Lemma pcids_after_len p : pcids_of (after_len p) = [].
Proof. unfold after_len. destruct (N.eqb p 0); reflexivity. Qed.

(* the claims lemma: a step leaves the claims of the thread unchanged, or
   adds one index that nobody holds *)
Lemma tstep_tids a q t a' q' t' ev : G a -> TI a t -> tstep I a q t = (a', q', t', ev) ->
  tids t' = tids t \/ exists id, tids t' = tids t ++ [id] /\ forall id', claimed a id' -> id' <> id.
Proof.
  intros [Ha Hst] Ht H. unfold tids. tstep_cases H; unf;
    try (left; unfold pcids; norm; rewrite ?Epc; reflexivity).
  - left. unfold pcids. norm. rewrite pcids_after_len, Epc. reflexivity.
  - (* CAS on len succeeds: position [clen a] *)
    right. pose proof (ti_dec _ _ Ht _ Epc) as Hp. destruct (i0_get H0 (clen a) Hp) as [id [Hg Hlt]].
    exists id. unfold pcids. norm. rewrite Epc. cbn [pcids_of]. rewrite Hg, app_nil_r. split; [reflexivity|].
    intros id' [[x [Hx Hgx]]|Hf] ->; [|lia].
    assert (x = clen a) by (apply (i0_inj H0 x (clen a) id); auto; lia). lia.
  - left. unfold pcids. norm. rewrite pcids_after_len, Epc. reflexivity.
  - (* cache read *)
    left. unfold pcids. norm. rewrite Epc. cbn [pcids_of]. rewrite <- (le_cache _ _ Ha), Eget. reflexivity.
  - (* out of bounds: impossible *)
    exfalso. pose proof (ti_read _ _ Ht _ Epc) as Hx. destruct (i0_get H0 x) as [id [Hg _]]; [lia|].
    rewrite (le_cache _ _ Ha) in Eget. congruence.
  - (* CAS on max_id succeeds: index [max_id a] *)
    right. exists (max_id a). unfold pcids. norm. rewrite Epc. cbn [pcids_of]. rewrite app_nil_r. split; [reflexivity|].
    intros id' [[x [Hx Hgx]]|Hf] ->; [|lia].
    destruct (i0_get H0 x) as [id [Hg Hlt]]; [lia|]. rewrite Hgx in Hg. inversion Hg; subst.
    pose proof (le_max _ _ Ha). lia.
  - (* return: the index moves from the program counter to the handle list *)
    left. unfold pcids. norm. rewrite Epc. cbn [pcids_of]. rewrite map_app, app_nil_r. reflexivity.
Qed.

Lemma NoDup_insert {A} (F1 T F2 : list A) x :
  NoDup (F1 ++ T ++ F2) -> ~ In x (F1 ++ T ++ F2) -> NoDup (F1 ++ (T ++ [x]) ++ F2).
Proof.
  intros Hnd Hx. rewrite <- app_assoc. cbn [app]. rewrite app_assoc.
  apply (Permutation_NoDup (l := x :: (F1 ++ T) ++ F2)); [apply Permutation_middle|].
  rewrite <- app_assoc. constructor; assumption.
Qed.

Lemma ids_step c n : GI c -> NoDup (ids c) -> NoDup (ids (step_thread c n)).
Proof.
  intros [Hg Ht Hi] Hnd.
  destruct (step_thread_cases c n) as [[-> _]|[l1 [t [l2 [a' [q' [t' [ev [Hl [Hn [Hs ->]]]]]]]]]]]; [assumption|].
  unfold ids in *. norm. rewrite Hl in *. rewrite Hi in Hs. clear Hi.
  rewrite flat_map_app in *. cbn [flat_map] in *.
  pose proof Ht as Ht0. apply Forall_app in Ht. destruct Ht as [F1 F2]. inversion F2 as [|? ? Tt F3]; subst.
  destruct (tstep_tids _ _ _ _ _ _ _ Hg Tt Hs) as [->|[id [-> Hfresh]]]; [assumption|].
  apply NoDup_insert; [assumption|]. intros Hin.
  assert (claimed (sh c) id) as Hc.
  { rewrite <- flat_map_app with (l2 := t :: l2) in Hin. cbn [flat_map] in Hin.
    change (In id (flat_map tids (l1 ++ t :: l2))) in Hin.
    apply in_flat_map in Hin. destruct Hin as [t0 [Hin0 Hid]]. rewrite Forall_forall in Ht0.
    apply (tids_claimed (sh c) t0); [apply Hg | apply Ht0; assumption | assumption]. }
  apply (Hfresh id Hc). reflexivity.
Qed.

Lemma ids_run s : forall c, GI c -> NoDup (ids c) -> NoDup (ids (run c s)).
Proof.
  induction s as [|n s IH]; intros c Hc Hnd; cbn [run]; [assumption|].
  apply IH; [apply GI_step | apply ids_step]; assumption.
Qed.

Lemma ids_new progs : ids (c_new a0 I progs) = [].
Proof. unfold ids, c_new. norm. induction progs as [|p ps IH]; cbn; auto. Qed.

Lemma NoDup_app_inv {A} (l1 l2 : list A) :
  NoDup (l1 ++ l2) -> NoDup l1 /\ NoDup l2 /\ forall x, In x l1 -> In x l2 -> False.
Proof.
  induction l1 as [|y l1 IH]; cbn [app]; intros H.
  - split; [constructor|]. split; [assumption|]. intros x [].
  - inversion H as [|? ? Hy Hnd]; subst. destruct (IH Hnd) as [N1 [N2 N3]]. split.
    + constructor; [|assumption]. intros Hin. apply Hy. apply in_or_app. left. assumption.
    + split; [assumption|]. intros x [->|Hx] Hx2; [apply Hy; apply in_or_app; right; assumption | eauto].
Qed.

Lemma NoDup_flat_map_l {A B} (f g : A -> list B) l :
  NoDup (flat_map (fun x => f x ++ g x) l) -> NoDup (flat_map f l).
Proof.
  induction l as [|x l IH]; cbn [flat_map]; intros H; [constructor|].
  rewrite <- app_assoc in H. destruct (NoDup_app_inv _ _ H) as [N1 [N2 N3]].
  destruct (NoDup_app_inv _ _ N2) as [_ [N4 _]].
  apply NoDup_app_intro; [assumption | apply IH; assumption|].
  intros y H1 H2. apply (N3 y H1). apply in_or_app. right.
  apply in_flat_map in H2. destruct H2 as [z [Hz Hy]].
  apply in_flat_map. exists z. split; [assumption|]. apply in_or_app. left. assumption.
Qed.

Lemma map_flat_map' {A B C} (f : B -> C) (g : A -> list B) l :
  map f (flat_map g l) = flat_map (fun x => map f (g x)) l.
Proof. induction l as [|x l IH]; cbn [flat_map map]; [reflexivity|]. rewrite map_app, IH. reflexivity. Qed.

(* (a) the handles returned to all threads have pairwise distinct indices
   (hence are pairwise distinct), each claimed from the initial free list
   or fresh *)
Theorem returned_distinct progs s :
  let c := run (c_new a0 I progs) s in
  NoDup (map fst (all_mine c)) /\ NoDup (all_mine c) /\
  forall e, In e (all_mine c) -> claimed (sh c) (fst e) /\ snd e = join_gen a0 (fst e).
Proof.
  intros c.
  assert (GI c) as Hc by (apply GI_run, GI_new).
  assert (NoDup (ids c)) as Hnd by (apply ids_run; [apply GI_new | rewrite ids_new; constructor]).
  assert (NoDup (map fst (all_mine c))) as Hm.
  { unfold all_mine. rewrite map_flat_map'. unfold ids, tids in Hnd. apply NoDup_flat_map_l in Hnd. assumption. }
  split; [assumption|]. split; [apply (NoDup_map_inv fst); assumption|].
  intros e He. unfold all_mine in He. apply in_flat_map in He. destruct He as [t [Ht He]].
  destruct Hc as [_ HT _]. rewrite Forall_forall in HT. destruct (ti_mine _ _ (HT t Ht) e He) as [M1 [_ M3]]. auto.
Qed.

(* ------------------------------------------------------------------ *)
(* programs are executed in order, operation by operation *)

Lemma tstep_done a q t a' q' t' ev : TI a t -> tstep I a q t = (a', q', t', ev) ->
  done t' ++ prog t' = done t ++ prog t.
Proof.
  intros Ht H.
  assert (forall r, prog t = CCreate :: r -> (done t ++ [CCreate]) ++ tl (prog t) = done t ++ prog t) as Hc.
  { intros r ->. rewrite <- app_assoc. reflexivity. }
  tstep_cases H; unf; try rewrite Epr; try reflexivity; try (cbn [tl]; rewrite <- app_assoc; reflexivity).
  - destruct (ti_c _ _ Ht) as [r Hr]; [rewrite Epc; reflexivity|]. eauto.
  - destruct (ti_c _ _ Ht) as [r Hr]; [rewrite Epc; reflexivity|]. eauto.
  - destruct (ti_k _ _ Ht _ _ Epc) as [[r Hr] _]. rewrite Hr, <- app_assoc. reflexivity.
Qed.

Lemma progs_step c n progs : GI c -> map (fun t => done t ++ prog t) (threads c) = progs ->
  map (fun t => done t ++ prog t) (threads (step_thread c n)) = progs.
Proof.
  intros [Hg Ht Hi] Hp.
  destruct (step_thread_cases c n) as [[-> _]|[l1 [t [l2 [a' [q' [t' [ev [Hl [Hn [Hs ->]]]]]]]]]]]; [assumption|].
  norm. rewrite Hl in *. rewrite Hi in Hs. clear Hi.
  apply Forall_app in Ht. destruct Ht as [F1 F2]. inversion F2 as [|? ? Tt F3]; subst.
  rewrite !map_app. cbn [map]. rewrite (tstep_done _ _ _ _ _ _ _ Tt Hs). reflexivity.
Qed.

Lemma progs_run s : forall c progs, GI c -> map (fun t => done t ++ prog t) (threads c) = progs ->
  map (fun t => done t ++ prog t) (threads (run c s)) = progs.
Proof.
  induction s as [|n s IH]; intros c progs Hc Hp; cbn [run]; [assumption|].
  apply IH; [apply GI_step | apply progs_step]; assumption.
Qed.

(* ------------------------------------------------------------------ *)
(* (d) linearisation: the sequential replay of the history variable [lin] on
   the faithful allocator model.  In an intermediate state the replay is
   ahead of the shared state by the indices claimed but not yet raised. *)

Lemma arun_snoc f os : forall a o,
  fst (arun f a (os ++ [o])) = fst (astep f (fst (arun f a os)) o).
Proof.
  induction os as [|o' os IH]; intros a o.
  - cbn [app]. rewrite arun_cons. cbn [arun fst]. reflexivity.
  - cbn [app]. rewrite !arun_cons. cbn [fst]. apply IH.
Qed.

Lemma alloc_atomic_pop b id : clen b <> 0 -> pv_get (cache b) (clen b - 1) = Some id ->
  a_alloc_atomic b = (add_raised (set_clen b (clen b - 1)) id, (id, join_gen b id)).
Proof.
  intros Hz Hg. unfold a_alloc_atomic. destruct (N.eqb_spec (clen b) 0); [contradiction|]. rewrite Hg. reflexivity.
Qed.

Lemma alloc_atomic_fresh b : clen b = 0 ->
  a_alloc_atomic b = (add_raised (set_max b (max_id b + 1)) (max_id b), (max_id b, join_gen b (max_id b))).
Proof.
  intros Hz. unfold a_alloc_atomic. destruct (N.eqb_spec (clen b) 0); [|contradiction]. reflexivity.
Qed.

Lemma inl_app i l1 l2 : inl i (l1 ++ l2) = inl i l1 || inl i l2.
Proof.
  induction l1 as [|x l1 IH]; cbn [app]; [reflexivity|]. rewrite !inl_cons, IH.
  destruct (N.eq_dec x i); reflexivity.
Qed.

Definition infl_of (p : pc) : list N :=
  match p with
  | PRead x => match pv_get (cache a0) (x - 1) with Some id => [id] | None => [] end
  | PRaise id => [id]
  | _ => []
  end.
Definition infl (t : thread) : list N := infl_of (tpc t).
Definition inflight (c : config) : list N := flat_map infl (threads c).

Definition replay (c : config) : astate := fst (arun true a0 (lin_ops c)).

(* [a]: shared state, [b]: replay, [F]: indices in flight *)
Record LIr (a b : astate) (F : list N) : Prop := {
  li_gens : gens b = gens a0;
  li_alive : alive b = alive a0;
  li_cache : cache b = cache a0;
  li_stuck : a_stuck b = false;
  li_clen : clen b = clen a;
  li_max : max_id b = max_id a;
  li_killed : forall i, NS.mem i (killed b) = NS.mem i (killed a);
  li_raised : forall i, NS.mem i (raised b) = NS.mem i (raised a) || inl i F }.

Definition LI (c : config) : Prop := LIr (sh c) (replay c) (inflight c).

Lemma LIr_ale a b F : ale a0 a -> LIr a b F -> ale a0 b.
Proof.
  intros Ha [L1 L2 L3 L4 L5 L6 L7 L8]. split; auto.
  - rewrite L5. apply Ha.
  - rewrite L6. apply Ha.
  - intros i Hi. rewrite L8, (le_raised _ _ Ha i Hi). reflexivity.
  - intros i Hi. rewrite L7. apply (le_killed _ _ Ha i Hi).
Qed.

(* the replay and the shared state agree on the aliveness of every handle a
   thread may use.  (For an arbitrary handle this is false: with index i free at
   generation -g, not raised, and i claimed by another thread but not raised
   yet, the handle (i, g+1) is dead in the shared state and alive in the
   replay.  Thread A pops i; B pops j; B raises j; C sees (j,.) alive, then
   (i,.) dead; A raises i: A's creation must precede B's (free-list order),
   C's first query follows B's, C's second precedes A's -- a cycle.) *)
Lemma alive_transfer a b F e : ale a0 a -> LIr a b F -> hgood a e -> a_is_alive b e = a_is_alive a e.
Proof.
  intros Ha HL [G1 [G2 G3]]. pose proof (LIr_ale _ _ _ Ha HL) as Hb.
  destruct G3 as [G3|[G3 G4]].
  - rewrite (stable_alive a0 b e Hb G2 G3), (stable_alive a0 a e Ha G2 G3). reflexivity.
  - rewrite (own_alive a e Ha G3 G4). apply own_alive; [assumption| |assumption].
    rewrite (li_raised _ _ _ HL). apply orb_true_intro. left. exact G3.
Qed.

Lemma infl_after_len p : infl_of (after_len p) = [].
Proof. unfold after_len. destruct (N.eqb p 0); reflexivity. Qed.

Lemma LIr_same_infl a b F1 F2 p p' : infl_of p' = infl_of p ->
  LIr a b (F1 ++ infl_of p ++ F2) -> LIr a b (F1 ++ infl_of p' ++ F2).
Proof. intros ->. auto. Qed.

Lemma tstep_lin a q t a' q' t' ev b F1 F2 : G a -> TI a t -> tstep I a q t = (a', q', t', ev) ->
  LIr a b (F1 ++ infl t ++ F2) ->
  LIr a' (match ev with Some o => fst (astep true b o) | None => b end) (F1 ++ infl t' ++ F2).
Proof.
  intros [Ha Hst] Ht H HL. unfold infl in *.
  tstep_cases H; unf;
    try (eapply LIr_same_infl; [|exact HL]; rewrite ?infl_after_len; rewrite ?Epc; reflexivity).
  - (* delete, Err: the replay finds the handle dead as well *)
    pose proof (resolve_good _ _ _ _ Ha Ht Eres) as Hg.
    cbn [astep]. unfold a_kill_atomic. rewrite (alive_transfer _ _ _ _ Ha HL Hg), Eal. cbn [fst]. exact HL.
  - (* CAS on len succeeds *)
    pose proof (ti_dec _ _ Ht _ Epc) as Hp. destruct (i0_get H0 (clen a) Hp) as [id [Hg Hlt]].
    cbn [astep infl_of]. rewrite Hg.
    rewrite (alloc_atomic_pop b id); [| rewrite (li_clen _ _ _ HL); lia
                                       | rewrite (li_clen _ _ _ HL), (li_cache _ _ _ HL); assumption].
    cbn [fst]. destruct HL as [L1 L2 L3 L4 L5 L6 L7 L8]. split; unf; auto; try congruence.
    intros i. rewrite mem_add, L8, !inl_app, inl_cons. cbn [infl_of app]. unfold inl at 2. cbn.
    destruct (N.eq_dec id i); rewrite ?orb_true_r, ?orb_false_r; reflexivity.
  - (* cache read: the index in flight is the one at the claimed position *)
    cbn [infl_of] in *. rewrite <- (le_cache _ _ Ha), Eget in HL. assumption.
  - (* out of bounds: impossible *)
    exfalso. pose proof (ti_read _ _ Ht _ Epc) as Hx. destruct (i0_get H0 x) as [id [Hg _]]; [lia|].
    rewrite (le_cache _ _ Ha) in Eget. congruence.
  - (* CAS on max_id succeeds *)
    pose proof (ti_incc _ _ Ht _ Epc) as Hz.
    cbn [astep infl_of]. rewrite (alloc_atomic_fresh b) by (rewrite (li_clen _ _ _ HL); assumption).
    cbn [fst]. destruct HL as [L1 L2 L3 L4 L5 L6 L7 L8]. split; unf; auto; try congruence.
    intros i. rewrite mem_add, L8, !inl_app, inl_cons, L6. cbn [infl_of app]. unfold inl at 2. cbn.
    destruct (N.eq_dec (max_id a) i); rewrite ?orb_true_r, ?orb_false_r; reflexivity.
  - (* raised.add_atomic: the index is no longer in flight *)
    cbn [infl_of] in *. destruct HL as [L1 L2 L3 L4 L5 L6 L7 L8]. split; unf; auto.
    intros i. rewrite mem_add, L8, !inl_app, inl_cons. cbn [app]. unfold inl at 2. cbn.
    destruct (N.eq_dec id i); rewrite ?orb_true_r, ?orb_false_r; reflexivity.
  - (* killed.add_atomic: the replay finds the handle alive as well *)
    destruct (ti_k _ _ Ht _ _ Epc) as [_ [Hg Hal]].
    cbn [astep]. unfold a_kill_atomic. rewrite (alive_transfer _ _ _ _ Ha HL Hg), Hal. cbn [fst infl_of] in *.
    destruct HL as [L1 L2 L3 L4 L5 L6 L7 L8]. split; unf; auto.
    intros i. rewrite !mem_add, L7. reflexivity.
Qed.

Lemma LI_step c n : GI c -> LI c -> LI (step_thread c n).
Proof.
  intros [Hg Ht Hi] HL.
  destruct (step_thread_cases c n) as [[-> _]|[l1 [t [l2 [a' [q' [t' [ev [Hl [Hn [Hs ->]]]]]]]]]]]; [assumption|].
  unfold LI, replay, inflight, lin_ops in *. norm. rewrite Hl in *. rewrite Hi in Hs. clear Hi.
  rewrite flat_map_app in *. cbn [flat_map] in *.
  apply Forall_app in Ht. destruct Ht as [F1 F2]. inversion F2 as [|? ? Tt F3]; subst.
  pose proof (tstep_lin _ _ _ _ _ _ _ _ _ _ Hg Tt Hs HL) as X.
  destruct ev as [o|]; [|assumption].
  rewrite map_app. cbn [map snd]. rewrite arun_snoc. assumption.
Qed.

Lemma LI_new progs : LI (c_new a0 I progs).
Proof.
  unfold LI, replay, inflight, lin_ops, c_new. norm. cbn [map arun fst].
  assert (flat_map infl (map t_new progs) = []) as ->.
  { induction progs as [|p ps IH]; cbn; auto. }
  split; auto. - apply (i0_stuck H0). - intros i. rewrite orb_false_r. reflexivity.
Qed.

Lemma LI_run s : forall c, GI c -> LI c -> LI (run c s).
Proof.
  induction s as [|n s IH]; intros c Hc HL; cbn [run]; [assumption|].
  apply IH; [apply GI_step | apply LI_step]; assumption.
Qed.

(* equality of allocator states up to the representation of the two sets
   written during the phase *)
Record aeq (a b : astate) : Prop := {
  eq_gens : gens a = gens b;
  eq_alive : alive a = alive b;
  eq_raised : forall i, NS.mem i (raised a) = NS.mem i (raised b);
  eq_killed : forall i, NS.mem i (killed a) = NS.mem i (killed b);
  eq_cache : cache a = cache b;
  eq_clen : clen a = clen b;
  eq_max : max_id a = max_id b;
  eq_stuck : a_stuck a = a_stuck b }.

Lemma finished_no_infl c : all_finished c = true -> inflight c = [].
Proof.
  unfold all_finished, inflight. intros H. rewrite forallb_forall in H.
  induction (threads c) as [|t ts IH]; [reflexivity|]. cbn [flat_map].
  rewrite IH by (intros x Hx; apply H; right; assumption).
  assert (finished t = true) as Hf by (apply H; left; reflexivity).
  unfold finished in Hf. unfold infl. destruct (tpc t); try discriminate. reflexivity.
Qed.

(* (d) when every thread has finished, the shared allocator state is the
   state the faithful sequential model reaches by running the creations,
   deletion requests (and is_alive queries) in the order in which they
   linearised *)
Theorem final_state_sequential progs s :
  let c := run (c_new a0 I progs) s in
  all_finished c = true -> aeq (sh c) (fst (arun true a0 (lin_ops c))).
Proof.
  intros c Hfin.
  assert (GI c) as [[Ha Hst] _ _] by (apply GI_run, GI_new).
  assert (LI c) as HL by (apply LI_run; [apply GI_new | apply LI_new]).
  unfold LI in HL. rewrite (finished_no_infl c Hfin) in HL. fold (replay c).
  destruct HL as [L1 L2 L3 L4 L5 L6 L7 L8]. split; try congruence.
  - rewrite L1. apply Ha.
  - rewrite L2. apply Ha.
  - intros i. rewrite L8. unfold inl. cbn. rewrite orb_false_r. reflexivity.
  - rewrite L3. apply Ha.
Qed.

(* the handles in the linearisation history are well-formed for the
   sequential machine (index below the counter, positive generation) *)

Lemma awf_run_snoc os : forall a o,
  awf_run a (os ++ [o]) = awf_run a os && aop_wfb (fst (arun true a os)) o.
Proof.
  induction os as [|o' os IH]; intros a o; cbn [app awf_run].
  - cbn [arun fst]. rewrite andb_true_r. reflexivity.
  - rewrite IH, arun_cons. cbn [fst]. rewrite andb_assoc. reflexivity.
Qed.

Lemma tstep_wf a q t a' q' t' o : G a -> TI a t -> tstep I a q t = (a', q', t', Some o) ->
  forall e0, In e0 (handles_in o) -> fst e0 < max_id a /\ (1 <= snd e0)%Z.
Proof.
  intros [Ha Hst] Ht H e0 He. tstep_cases H; cbn [handles_in In] in He; try contradiction;
    destruct He as [<-|[]].
  - destruct (resolve_good _ _ _ _ Ha Ht Eres) as [G1 [G2 _]]. auto.
  - destruct (resolve_good _ _ _ _ Ha Ht Eres) as [G1 [G2 _]]. auto.
  - destruct (ti_k _ _ Ht _ _ Epc) as [_ [[G1 [G2 _]] _]]. auto.
Qed.

Definition WI (c : config) : Prop := awf_run a0 (lin_ops c) = true.

Lemma WI_step c n : GI c -> LI c -> WI c -> WI (step_thread c n).
Proof.
  intros [Hg Ht Hi] HL HW.
  destruct (step_thread_cases c n) as [[-> _]|[l1 [t [l2 [a' [q' [t' [ev [Hl [Hn [Hs ->]]]]]]]]]]]; [assumption|].
  unfold WI, lin_ops in *. norm. destruct ev as [o|]; [|assumption].
  rewrite map_app. cbn [map snd]. rewrite awf_run_snoc, HW. cbn [andb].
  rewrite Hl in Ht. rewrite Hi in Hs. clear Hi.
  apply Forall_app in Ht. destruct Ht as [F1 F2]. inversion F2 as [|? ? Tt F3]; subst.
  unfold aop_wfb. apply forallb_forall. intros e He.
  destruct (tstep_wf _ _ _ _ _ _ _ Hg Tt Hs e He) as [W1 W2].
  unfold LI, replay, lin_ops in HL. rewrite (li_max _ _ _ HL).
  apply andb_true_iff. split; [apply N.ltb_lt | apply Z.leb_le]; assumption.
Qed.

Lemma WI_run s : forall c, GI c -> LI c -> WI c -> WI (run c s).
Proof.
  induction s as [|n s IH]; intros c Hc HL HW; cbn [run]; [assumption|].
  apply IH; [apply GI_step | apply LI_step | apply WI_step]; assumption.
Qed.

Theorem lin_well_formed progs s : awf_run a0 (lin_ops (run (c_new a0 I progs) s)) = true.
Proof. apply WI_run; [apply GI_new | apply LI_new | reflexivity]. Qed.

(* (d), results: every thread received exactly the results the sequential
   replay returns for its operations *)

Fixpoint trun (a : astate) (l : list (nat * aop)) : astate * list (nat * aout) :=
  match l with
  | [] => (a, [])
  | (n, o) :: l' =>
      let '(a1, out) := astep true a o in
      let '(a2, outs) := trun a1 l' in (a2, (n, out) :: outs)
  end.

Lemma trun_cons a n o l :
  trun a ((n, o) :: l) =
  (fst (trun (fst (astep true a o)) l), (n, snd (astep true a o)) :: snd (trun (fst (astep true a o)) l)).
Proof. cbn [trun]. destruct (astep true a o) as [a1 out]. cbn [fst snd]. destruct (trun a1 l). reflexivity. Qed.

Lemma trun_arun l : forall a,
  fst (trun a l) = fst (arun true a (map snd l)) /\ map snd (snd (trun a l)) = snd (arun true a (map snd l)).
Proof.
  induction l as [|[n o] l IH]; intros a; [split; reflexivity|].
  cbn [map snd]. rewrite trun_cons, arun_cons. cbn [fst snd map].
  destruct (IH (fst (astep true a o))) as [E1 E2]. rewrite E1, E2. auto.
Qed.

Lemma trun_snoc l : forall a n o,
  snd (trun a (l ++ [(n, o)])) = snd (trun a l) ++ [(n, snd (astep true (fst (trun a l)) o))].
Proof.
  induction l as [|[m o'] l IH]; intros a n o.
  - cbn [app]. rewrite trun_cons. cbn [trun fst snd app]. reflexivity.
  - cbn [app]. rewrite !trun_cons. cbn [fst snd app]. rewrite IH. reflexivity.
Qed.

(* the results the replay returns to thread [k] *)
Definition thread_results (k : nat) (l : list (nat * aop)) : list aout :=
  map snd (filter (fun p => Nat.eqb (fst p) k) (snd (trun a0 l))).

Lemma thread_results_snoc k l n o :
  thread_results k (l ++ [(n, o)]) =
  thread_results k l ++ (if Nat.eqb n k then [snd (astep true (fst (trun a0 l)) o)] else []).
Proof.
  unfold thread_results. rewrite trun_snoc, filter_app, map_app. cbn [filter fst].
  destruct (Nat.eqb n k); reflexivity.
Qed.

(* the part of a thread's outputs that comes from the allocator *)
Definition lin_out (o : cout) : list aout :=
  match o with
  | OHandle e => [AHandle e]
  | OKill e r => [AKillDefRes r]
  | OAlive e b => [ABool b]
  | _ => []
  end.

(* the result of a creation that has linearised but not returned yet *)
Definition pending_of (p : pc) : list aout :=
  match p with
  | PRead x => match pv_get (cache a0) (x - 1) with Some id => [AHandle (id, join_gen a0 id)] | None => [] end
  | PRaise id | PGen id => [AHandle (id, join_gen a0 id)]
  | _ => []
  end.

Definition tres (t : thread) : list aout := flat_map lin_out (outs t) ++ pending_of (tpc t).

Lemma pending_after_len p : pending_of (after_len p) = [].
Proof. unfold after_len. destruct (N.eqb p 0); reflexivity. Qed.

Lemma flat_map_snoc {A B} (f : A -> list B) l x : flat_map f (l ++ [x]) = flat_map f l ++ f x.
Proof. rewrite flat_map_app. cbn [flat_map]. rewrite app_nil_r. reflexivity. Qed.

Lemma LIr_join_gen a b F i : LIr a b F -> join_gen b i = join_gen a0 i.
Proof. intros HL. unfold join_gen, gen_at. rewrite (li_gens _ _ _ HL). reflexivity. Qed.

Lemma LIr_err_gen a b F i : LIr a b F -> err_gen b i = err_gen a0 i.
Proof. intros HL. unfold err_gen, gen_at. rewrite (li_gens _ _ _ HL). reflexivity. Qed.

Lemma tstep_res a q t a' q' t' ev b F : G a -> TI a t -> tstep I a q t = (a', q', t', ev) -> LIr a b F ->
  tres t' = tres t ++ match ev with Some o => [snd (astep true b o)] | None => [] end.
Proof.
  intros [Ha Hst] Ht H HL. unfold tres.
  tstep_cases H; unf; rewrite ?flat_map_snoc, ?pending_after_len; cbn [lin_out pending_of];
    rewrite ?app_nil_r; try reflexivity.
  - (* nothing to run *) rewrite Epc. cbn [pending_of]. rewrite app_nil_r. reflexivity.
  - (* delete, Err *)
    pose proof (resolve_good _ _ _ _ Ha Ht Eres) as Hg.
    cbn [astep]. unfold a_kill_atomic. rewrite (alive_transfer _ _ _ _ Ha HL Hg), Eal. cbn [snd].
    rewrite (LIr_err_gen _ _ _ _ HL), (ale_err_gen _ _ _ Ha). reflexivity.
  - (* is_alive *)
    pose proof (resolve_good _ _ _ _ Ha Ht Eres) as Hg.
    cbn [astep snd]. rewrite (alive_transfer _ _ _ _ Ha HL Hg). reflexivity.
  - (* CAS on len succeeds *)
    pose proof (ti_dec _ _ Ht _ Epc) as Hp. destruct (i0_get H0 (clen a) Hp) as [id [Hg Hlt]].
    cbn [astep]. rewrite Hg.
    rewrite (alloc_atomic_pop b id); [| rewrite (li_clen _ _ _ HL); lia
                                       | rewrite (li_clen _ _ _ HL), (li_cache _ _ _ HL); assumption].
    cbn [snd]. rewrite (LIr_join_gen _ _ _ _ HL). reflexivity.
  - (* cache read *)
    rewrite <- (le_cache _ _ Ha), Eget. reflexivity.
  - (* out of bounds: impossible *)
    exfalso. pose proof (ti_read _ _ Ht _ Epc) as Hx. destruct (i0_get H0 x) as [id [Hg _]]; [lia|].
    rewrite (le_cache _ _ Ha) in Eget. congruence.
  - (* CAS on max_id succeeds *)
    pose proof (ti_incc _ _ Ht _ Epc) as Hz.
    cbn [astep]. rewrite (alloc_atomic_fresh b) by (rewrite (li_clen _ _ _ HL); assumption).
    cbn [snd]. rewrite (LIr_join_gen _ _ _ _ HL), (li_max _ _ _ HL). reflexivity.
  - (* return *)
    rewrite (ale_join_gen _ _ _ Ha). reflexivity.
  - (* killed.add_atomic *)
    destruct (ti_k _ _ Ht _ _ Epc) as [_ [Hg Hal]].
    cbn [astep]. unfold a_kill_atomic. rewrite (alive_transfer _ _ _ _ Ha HL Hg), Hal. reflexivity.
Qed.

Definition RI (c : config) : Prop :=
  forall k t, nth_error (threads c) k = Some t -> thread_results k (lin c) = tres t.

Lemma RI_step c n : GI c -> LI c -> RI c -> RI (step_thread c n).
Proof.
  intros [Hg Ht Hi] HL HRI.
  destruct (step_thread_cases c n) as [[-> _]|[l1 [t [l2 [a' [q' [t' [ev [Hl [Hn [Hs ->]]]]]]]]]]]; [assumption|].
  unfold RI in *. norm. rewrite Hl in *. rewrite Hi in Hs. clear Hi.
  apply Forall_app in Ht. destruct Ht as [F1 F2]. inversion F2 as [|? ? Tt F3]; subst.
  unfold LI, replay, lin_ops in HL.
  pose proof (tstep_res _ _ _ _ _ _ _ _ _ Hg Tt Hs HL) as Hres.
  destruct (trun_arun (lin c) a0) as [Efst _]. rewrite <- Efst in Hres.
  intros k tk Hk.
  assert (thread_results k (match ev with Some o => lin c ++ [(length l1, o)] | None => lin c end) =
          thread_results k (lin c) ++
          (if Nat.eqb (length l1) k then match ev with Some o => [snd (astep true (fst (trun a0 (lin c))) o)] | None => [] end
           else [])) as E.
  { destruct ev as [o|]; [apply thread_results_snoc|]. destruct (Nat.eqb (length l1) k); rewrite app_nil_r; reflexivity. }
  rewrite E. clear E.
  destruct (Nat.lt_total k (length l1)) as [Hlt|[Heq|Hgt]].
  - rewrite nth_error_app1 in Hk by assumption.
    rewrite (HRI k tk) by (rewrite nth_error_app1 by assumption; assumption).
    destruct (Nat.eqb_spec (length l1) k); [lia|]. apply app_nil_r.
  - subst k. rewrite nth_error_app2 in Hk by lia. rewrite Nat.sub_diag in Hk. cbn [nth_error] in Hk.
    inversion Hk; subst tk. rewrite Nat.eqb_refl.
    rewrite (HRI (length l1) t) by (rewrite nth_error_app2 by lia; rewrite Nat.sub_diag; reflexivity).
    symmetry. exact Hres.
  - rewrite nth_error_app2 in Hk by lia.
    rewrite (HRI k tk).
    + destruct (Nat.eqb_spec (length l1) k); [lia|]. apply app_nil_r.
    + rewrite nth_error_app2 by lia. destruct (k - length l1)%nat as [|j] eqn:Ej; [lia|]. exact Hk.
Qed.

Lemma RI_new progs : RI (c_new a0 I progs).
Proof.
  unfold RI, c_new. norm. intros k t Hk. apply nth_error_In in Hk. apply in_map_iff in Hk.
  destruct Hk as [p [<- _]]. reflexivity.
Qed.

Lemma RI_run s : forall c, GI c -> LI c -> RI c -> RI (run c s).
Proof.
  induction s as [|n s IH]; intros c Hc HL HRI; cbn [run]; [assumption|].
  apply IH; [apply GI_step | apply LI_step | apply RI_step]; assumption.
Qed.

(* in every reachable state: the results the sequential replay returns to
   thread k are the allocator results thread k has received, followed by the
   handle of its creation that has linearised but not returned yet (if any);
   in particular, when the thread has finished, exactly its results *)
Theorem results_linearisable progs s k t :
  nth_error (threads (run (c_new a0 I progs) s)) k = Some t ->
  thread_results k (lin (run (c_new a0 I progs) s)) = flat_map lin_out (outs t) ++ pending_of (tpc t).
Proof.
  intros Hk. apply (RI_run s (c_new a0 I progs)); [apply GI_new | apply LI_new | apply RI_new | assumption].
Qed.

End Phase.

(* ------------------------------------------------------------------ *)
(* (e) the lazy queue *)

Definition pushes (l : list cop) : list N :=
  flat_map (fun o => match o with CPush q => [q] | _ => [] end) l.

(* [interleaving ls q]: q is a merge of the lists ls -- every element of
   every list exactly once, each list in its own order *)
Inductive interleaving {A} : list (list A) -> list A -> Prop :=
| il_nil ls : Forall (fun l => l = []) ls -> interleaving ls []
| il_snoc ls1 l x ls2 q :
    interleaving (ls1 ++ l :: ls2) q -> interleaving (ls1 ++ (l ++ [x]) :: ls2) (q ++ [x]).

Lemma interleaving_perm {A} (ls : list (list A)) q : interleaving ls q -> Permutation (concat ls) q.
Proof.
  induction 1 as [ls Hall|ls1 l x ls2 q _ IH].
  - induction Hall as [|l ls -> _ IHl]; cbn [concat app]; [constructor | assumption].
  - rewrite concat_app in *. cbn [concat] in *.
    rewrite <- app_assoc. cbn [app]. rewrite app_assoc.
    eapply Permutation_trans; [apply Permutation_sym, Permutation_middle|].
    eapply Permutation_trans; [|apply Permutation_cons_append].
    constructor. rewrite <- app_assoc. assumption.
Qed.

Lemma pushes_snoc l o : pushes (l ++ [o]) = pushes l ++ match o with CPush q => [q] | _ => [] end.
Proof. unfold pushes. rewrite flat_map_app. cbn [flat_map]. rewrite app_nil_r. reflexivity. Qed.

Lemma tstep_queue J a q t a' q' t' ev : tstep J a q t = (a', q', t', ev) ->
  (q' = q /\ pushes (done t') = pushes (done t)) \/
  (exists x, q' = q ++ [x] /\ pushes (done t') = pushes (done t) ++ [x]).
Proof.
  intros H. tstep_cases H; unf; try (left; split; [reflexivity|]; rewrite ?pushes_snoc, ?app_nil_r; reflexivity).
  right. exists x. rewrite pushes_snoc. auto.
Qed.

Definition QI (c : config) : Prop := interleaving (map (fun t => pushes (done t)) (threads c)) (queue c).

Lemma QI_step c n : QI c -> QI (step_thread c n).
Proof.
  unfold QI. intros H.
  destruct (step_thread_cases c n) as [[-> _]|[l1 [t [l2 [a' [q' [t' [ev [Hl [Hn [Hs ->]]]]]]]]]]]; [assumption|].
  norm. rewrite Hl in H. rewrite map_app in *. cbn [map] in *.
  destruct (tstep_queue _ _ _ _ _ _ _ _ Hs) as [[-> ->]|[x [-> ->]]]; [assumption|].
  apply il_snoc. assumption.
Qed.

Lemma QI_new a J progs : QI (c_new a J progs).
Proof.
  unfold QI, c_new. norm. apply il_nil. apply Forall_forall. intros l Hl.
  apply in_map_iff in Hl. destruct Hl as [t [<- Ht]]. apply in_map_iff in Ht. destruct Ht as [p [<- _]]. reflexivity.
Qed.

Lemma finished_prog t : finished t = true -> prog t = [] /\ tpc t = PIdle.
Proof. unfold finished. destruct (tpc t); try discriminate. destruct (prog t); [auto|discriminate]. Qed.

(* (e) when every thread has finished, the queue is an interleaving of the
   threads' pushes: nothing lost, nothing duplicated, each thread's order kept *)
Theorem queue_is_interleaving a0 J progs s : Init0 a0 -> Forall (hinit_ok a0) J ->
  let c := run (c_new a0 J progs) s in
  all_finished c = true ->
  interleaving (map pushes progs) (queue c) /\ Permutation (concat (map pushes progs)) (queue c).
Proof.
  intros H0 HJ c Hfin.
  assert (QI c) as Hq by (apply run_inv; [apply QI_step | apply QI_new]).
  assert (map (fun t => done t ++ prog t) (threads c) = progs) as Hp.
  { apply (progs_run a0 J H0 HJ); [apply GI_new; assumption|].
    unfold c_new. norm. rewrite map_map. cbn. apply map_id. }
  assert (map (fun t => pushes (done t)) (threads c) = map pushes progs) as E.
  { rewrite <- Hp, map_map. apply map_ext_in. intros t Ht.
    unfold all_finished in Hfin. rewrite forallb_forall in Hfin.
    destruct (finished_prog t (Hfin t Ht)) as [-> _]. rewrite app_nil_r. reflexivity. }
  unfold QI in Hq. rewrite E in Hq. split; [assumption | apply interleaving_perm; assumption].
Qed.

(* ------------------------------------------------------------------ *)
(* from the refinement relation R of AllocRefine.v *)

Lemma stack_get L : forall c n, stack_is c n L -> forall x, 0 < x <= n ->
  exists id, pv_get c (x - 1) = Some id /\ nth_error L (N.to_nat (n - x)) = Some id.
Proof.
  induction L as [|y L IH]; intros c n Hs x Hx; cbn [stack_is] in Hs; [lia|].
  destruct Hs as [Hn [Hg Hs]]. destruct (N.eq_dec x n) as [->|Hne].
  - exists y. replace (n - n) with 0 by lia. auto.
  - destruct (IH c (n - 1) Hs x) as [id [G1 G2]]; [lia|]. exists id. split; [assumption|].
    replace (N.to_nat (n - x)) with (S (N.to_nat (n - 1 - x))) by lia. assumption.
Qed.

Lemma R_Init0 a0 s0 : R a0 s0 -> LInv s0 -> Init0 a0.
Proof.
  intros [Hst Hu Hcl Hcell [L [Hs [Hnd HL]]]] HI. rewrite app_nil_r in *. split; [assumption| |].
  - intros x Hx. destruct (stack_get L _ _ Hs x Hx) as [id [G1 G2]]. exists id. split; [assumption|].
    rewrite <- Hu. apply free_below_used; [assumption|]. apply HL. apply (nth_error_In _ _ G2).
  - intros x y id Hx Hy Gx Gy.
    destruct (stack_get L _ _ Hs x Hx) as [idx [G1 G2]]. destruct (stack_get L _ _ Hs y Hy) as [idy [G3 G4]].
    assert (idx = id) by congruence. assert (idy = id) by congruence. subst idx idy.
    assert (N.to_nat (clen a0 - x) = N.to_nat (clen a0 - y)) as E.
    { apply (proj1 (NoDup_nth_error L) Hnd); [|congruence]. apply nth_error_Some. congruence. }
    lia.
Qed.

(* a handle the lifecycle specification has issued is a legitimate initial handle *)
Lemma issued_hinit_ok a0 s0 e : R a0 s0 -> LInv s0 ->
  fst e < used s0 -> (1 <= snd e <= top (cell s0 (fst e)))%Z -> hinit_ok a0 e.
Proof.
  intros HR HI Hu Hg. split; [rewrite <- (R_used _ _ _ HR); assumption|]. split; [lia|].
  destruct (R_cell _ _ _ HR (fst e)) as [Hgen [_ [Hr _]]]. unfold h_stable. rewrite Hgen, Hr.
  pose proof (J_pos _ HI (fst e)) as Hp.
  destruct (cell s0 (fst e)) as [|g|g kp|g kp]; cbn [exp_gen exp_raised top negb andb] in *;
    rewrite ?andb_false_r; try reflexivity.
  - assert (1 <= g)%Z by (apply Hp; discriminate).
    destruct (Z.eqb_spec (snd e) (1 - - g)); [lia|]. rewrite andb_false_r. reflexivity.
  - assert (1 <= g)%Z by (apply Hp; discriminate). destruct (Z.ltb_spec g 0); [lia|]. reflexivity.
Qed.

(* a handle alive in the specification is alive in the model *)
Lemma l_alive_a_alive a0 s0 e : R a0 s0 -> LInv s0 -> l_is_alive s0 e = true ->
  a_is_alive a0 e = true /\ (1 <= snd e)%Z.
Proof.
  intros HR HI Hal. destruct (alive_top _ _ Hal) as [Ht Ho].
  assert (cell s0 (fst e) <> Never) as Hn by (intros E; rewrite E in Ho; discriminate).
  assert (1 <= snd e)%Z as Hp by (rewrite Ht; apply (J_pos _ HI); assumption).
  split; [|assumption]. rewrite (is_alive_ref a0 s0 [] HR HI e Hn Hp). assumption.
Qed.

(* R does not depend on the representation of the sets *)
Lemma R_aeq a b s : R b s -> aeq a b -> R a s.
Proof.
  intros [Hst Hu Hcl Hcell HL] [E1 E2 E3 E4 E5 E6 E7 E8]. split.
  - congruence.
  - congruence.
  - rewrite E5, E6. assumption.
  - intros i. destruct (Hcell i) as [C1 [C2 [C3 C4]]]. unfold cell_rel, gen_at. rewrite E1, E2, E3, E4. auto.
  - rewrite E5, E6. assumption.
Qed.

Section Refine.
Variables (a0 : astate) (s0 : lstate) (I : list entity).
Hypothesis HR : R a0 s0.
Hypothesis HL : LInv s0.
Hypothesis HI : Forall (hinit_ok a0) I.

Let H0 : Init0 a0 := R_Init0 a0 s0 HR HL.

Lemma claimed_not_occupied a id : claimed a0 a id -> occupied (cell s0 id) = false.
Proof.
  intros [[x [Hx Hg]]|Hf].
  - destruct (R_stack _ _ _ HR) as [L [Hs [Hnd HLL]]]. rewrite app_nil_r in HLL.
    destruct (stack_get L _ _ Hs x) as [id' [G1 G2]]; [lia|].
    assert (id' = id) by congruence. subst id'.
    assert (is_free (cell s0 id) = true) as Hfree by (apply HLL; apply (nth_error_In _ _ G2)).
    destruct (cell s0 id); try discriminate. reflexivity.
  - rewrite (J_beyond _ HL); [reflexivity|]. rewrite (R_used _ _ _ HR). lia.
Qed.

(* (a) with respect to the handles alive at the start *)
Theorem returned_fresh progs s e e0 :
  In e (all_mine (run (c_new a0 I progs) s)) -> l_is_alive s0 e0 = true -> fst e <> fst e0.
Proof.
  intros He Hal Heq.
  destruct (returned_distinct a0 I H0 HI progs s) as [_ [_ Hc]]. destruct (Hc e He) as [Hcl _].
  apply claimed_not_occupied in Hcl. destruct (alive_top _ _ Hal) as [_ Ho]. congruence.
Qed.

(* (d), refinement form: the final shared state is R-related to the
   lifecycle state reached by the same creations (with the indices chosen)
   and deferred deletions, in linearisation order; every choice was valid *)
Theorem final_state_refines progs s :
  let c := run (c_new a0 I progs) s in
  all_finished c = true ->
  let ops := lin_ops c in
  let outs := snd (arun true a0 ops) in
  lvalid s0 (with_choices ops outs) = true /\
  snd (lrun s0 (with_choices ops outs)) = outs /\
  R (sh c) (fst (lrun s0 (with_choices ops outs))) /\
  LInv (fst (lrun s0 (with_choices ops outs))).
Proof.
  intros c Hfin ops outs.
  pose proof (lin_well_formed a0 I H0 HI progs s) as Hwf. fold c in Hwf. fold ops in Hwf.
  destruct (arun_refines ops a0 s0 HR HL Hwf) as [R1 [R2 [R3 R4]]].
  split; [assumption|]. split; [assumption|]. split; [|assumption].
  apply (R_aeq _ (fst (arun true a0 ops))); [assumption|].
  apply (final_state_sequential a0 I H0 HI progs s Hfin).
Qed.

End Refine.

(* ------------------------------------------------------------------ *)
(* the statements of property C10, from R *)

Lemma hinit_okb_spec a e : hinit_okb a e = true <-> hinit_ok a e.
Proof.
  unfold hinit_okb, hinit_ok. rewrite !andb_true_iff, N.ltb_lt, Z.leb_le. tauto.
Qed.

Section Final.
Variables (a0 : astate) (s0 : lstate) (I : list entity) (progs : list (list cop)).
Hypothesis HR : R a0 s0.
Hypothesis HL : LInv s0.
Hypothesis HI : forallb (hinit_okb a0) I = true.

Let c0 := c_new a0 I progs.
Let H0 : Init0 a0 := R_Init0 a0 s0 HR HL.

Lemma HI' : Forall (hinit_ok a0) I.
Proof. apply Forall_forall. intros e He. apply hinit_okb_spec. rewrite forallb_forall in HI. auto. Qed.

Lemma reach_GI s : GI a0 I (run c0 s).
Proof. apply (GI_run a0 I H0 HI'). apply (GI_new a0 I H0). Qed.

(* (a) *)
Theorem conc_handles_distinct s :
  let c := run c0 s in
  NoDup (all_mine c) /\ NoDup (map fst (all_mine c)) /\
  forall e e0, In e (all_mine c) -> l_is_alive s0 e0 = true -> fst e <> fst e0.
Proof.
  intros c. destruct (returned_distinct a0 I H0 HI' progs s) as [N1 [N2 _]].
  split; [exact N2|]. split; [exact N1|]. intros e e0. apply (returned_fresh a0 s0 I HR HL HI').
Qed.

(* (b) *)
Theorem conc_alive_from_return s1 s2 k t e :
  nth_error (threads (run c0 s1)) k = Some t -> In e (mine t) ->
  a_is_alive (sh (run c0 (s1 ++ s2))) e = true.
Proof.
  intros Hk He. rewrite run_app. apply (created_alive_later a0 I H0 HI' _ k t e s2 (reach_GI s1) Hk He).
Qed.

(* (c) *)
Theorem conc_delete_of_live_ok s k t e r :
  nth_error (threads (run c0 s)) k = Some t -> In (OKill e r) (outs t) ->
  (l_is_alive s0 e = true \/ In e (mine t)) -> r = None.
Proof.
  intros Hk Hin Hl. apply (kill_of_live_ok a0 I _ k t e r (reach_GI s) Hk Hin).
  destruct Hl as [Hl|Hl]; [left | right; assumption]. apply (l_alive_a_alive a0 s0 e HR HL Hl).
Qed.

Theorem conc_delete_recorded s1 s2 k t e :
  nth_error (threads (run c0 s1)) k = Some t -> In (OKill e None) (outs t) ->
  NS.mem (fst e) (killed (sh (run c0 (s1 ++ s2)))) = true.
Proof.
  intros Hk Hin. rewrite run_app. apply (kill_ok_recorded a0 I _ k t e s2 (reach_GI s1) Hk Hin).
Qed.

Theorem conc_delete_check_passes s k t h r e :
  nth_error (threads (run c0 s)) k = Some t ->
  tpc t = PIdle -> prog t = CDelete h :: r -> resolve I t h = Some e ->
  (l_is_alive s0 e = true \/ In e (mine t)) ->
  a_is_alive (sh (run c0 s)) e = true.
Proof.
  intros Hk Hp Hpr Hres Hl. apply (kill_check_passes a0 I _ k t h r e (reach_GI s) Hk Hp Hpr Hres).
  destruct Hl as [Hl|Hl]; [left | right; assumption]. apply (l_alive_a_alive a0 s0 e HR HL Hl).
Qed.

(* (d) *)
Theorem conc_final_state_sequential s :
  all_finished (run c0 s) = true ->
  aeq (sh (run c0 s)) (fst (arun true a0 (lin_ops (run c0 s)))).
Proof. apply (final_state_sequential a0 I H0 HI' progs s). Qed.

Theorem conc_final_state_refines s :
  all_finished (run c0 s) = true ->
  let ops := lin_ops (run c0 s) in
  let outs := snd (arun true a0 ops) in
  lvalid s0 (with_choices ops outs) = true /\
  snd (lrun s0 (with_choices ops outs)) = outs /\
  R (sh (run c0 s)) (fst (lrun s0 (with_choices ops outs))) /\
  LInv (fst (lrun s0 (with_choices ops outs))).
Proof. apply (final_state_refines a0 s0 I HR HL HI' progs s). Qed.

(* (d), results: linearisability *)
Theorem conc_results_linearisable s k t :
  nth_error (threads (run c0 s)) k = Some t ->
  thread_results a0 k (lin (run c0 s)) = flat_map lin_out (outs t) ++ pending_of a0 (tpc t) /\
  (finished t = true -> thread_results a0 k (lin (run c0 s)) = flat_map lin_out (outs t)).
Proof.
  intros Hk. pose proof (results_linearisable a0 I H0 HI' progs s k t Hk) as E. split; [exact E|].
  intros Hf. unfold c0. rewrite E. destruct (finished_prog t Hf) as [_ ->]. apply app_nil_r.
Qed.

(* (e) *)
Theorem conc_queue_interleaving s :
  all_finished (run c0 s) = true ->
  interleaving (map pushes progs) (queue (run c0 s)) /\
  Permutation (concat (map pushes progs)) (queue (run c0 s)).
Proof. apply (queue_is_interleaving a0 I progs s H0 HI'). Qed.

(* no reachable state is stuck (no panic), every program is executed in order *)
Theorem conc_never_stuck s :
  a_stuck (sh (run c0 s)) = false /\ forall t, In t (threads (run c0 s)) -> ~ In OPanic (outs t).
Proof. apply (never_stuck a0 I). apply reach_GI. Qed.

Theorem conc_programs_in_order s :
  map (fun t => done t ++ prog t) (threads (run c0 s)) = progs.
Proof.
  apply (progs_run a0 I H0 HI'); [apply (GI_new a0 I H0)|].
  unfold c0, c_new. norm. rewrite map_map. cbn. apply map_id.
Qed.

End Final.

(* every sequential prefix on the faithful world machine ends in a state
   related by R to a lifecycle state: the phase may start after any history *)
Theorem after_any_history os :
  exists s0, R (World.w_alloc (fst (World.wrun true World.w_init os))) s0 /\ LInv s0.
Proof.
  destruct (Simulation.wrun_accepted os World.w_init WorldSpec.s_init 0%nat Simulation.RW_init) as [_ [sw H]].
  exists (WorldSpec.s_life sw). split; [apply (Simulation.RW_alloc _ _ H) | apply (Simulation.RW_inv _ _ H)].
Qed.
