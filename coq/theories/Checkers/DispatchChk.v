(* The `dispatch` domain: integer encoding of system graphs, the model
   transcript (stage/group tree, declared reads/writes, borrow probes) and the
   computable check of an observed enter/exit log.  Definitions only.

   history ops (code n x1..xn):
     1  system:   time nh h1..hnh d1..dnd      (dependencies = the rest)
     2  barrier
     3  run:      threads rounds               (implementation only: real dispatch)
     4  probe:    h                            (fetch handle h alone, probe every resource)
   handle codes: 0 Entities, 1 Read<LazyUpdate>, 10+t ReadStorage<C_t>, 20+t WriteStorage<C_t>
   resource codes: 0 EntitiesRes, 1 LazyUpdate, 10+t MaskedStorage<C_t>

   outputs:
     1 nstages (ngroups (nsys id..)..)..       the stage/group tree
     2 id nr r.. nw w..                        accessor reads()/writes() of system id (each sorted)
     6 h nr r.. nw w.. (res state)..           declaration of h and the flags seen after fetch
     4 threads round n e..                     log: +(id+1) start, -(id+1) end   (implementation only)
     5 dispatches counter_violations panics    (implementation only)
     9                                         panic / builder stuck *)
From SV Require Export Dispatch.Stage Dispatch.Borrow Dispatch.Exec.

Inductive xop :=
| XSys (hs : list handle) (deps : list N) (time : Z)
| XBarrier
| XRun
| XProbe (h : handle)
| XBad.

Definition dec_handle (c : Z) : option handle :=
  if Z.eqb c 0 then Some HEntities
  else if Z.eqb c 1 then Some HLazy
  else if Z.leb 10 c && Z.ltb c 20 then Some (HRead (Z.to_N (c - 10)))
  else if Z.leb 20 c && Z.ltb c 30 then Some (HWrite (Z.to_N (c - 20)))
  else None.

Definition enc_handle (h : handle) : Z :=
  match h with
  | HEntities => 0%Z
  | HLazy => 1%Z
  | HRead t => (10 + Z.of_N t)%Z
  | HWrite t => (20 + Z.of_N t)%Z
  end.

Fixpoint dec_handles (l : list Z) : option (list handle) :=
  match l with
  | [] => Some []
  | c :: l' => match dec_handle c, dec_handles l' with
               | Some h, Some hs => Some (h :: hs)
               | _, _ => None
               end
  end.

Fixpoint dtake {A} (n : nat) (l : list A) : option (list A * list A) :=
  match n with
  | O => Some ([], l)
  | S n' => match l with
            | [] => None
            | x :: l' => match dtake n' l' with Some (a, b) => Some (x :: a, b) | None => None end
            end
  end.

Definition dec_xop (code : Z) (p : list Z) : xop :=
  match code, p with
  | 1%Z, t :: nh :: r =>
      match dtake (Z.to_nat nh) r with
      | Some (hs, deps) =>
          match dec_handles hs with
          | Some hl => XSys hl (map Z.to_N deps) t
          | None => XBad
          end
      | None => XBad
      end
  | 2%Z, [] => XBarrier
  | 3%Z, _ => XRun
  | 4%Z, [h] => match dec_handle h with Some x => XProbe x | None => XBad end
  | _, _ => XBad
  end.

Fixpoint dec_xops (fuel : nat) (l : list Z) : list xop :=
  match fuel with
  | O => []
  | S fuel' =>
      match l with
      | code :: n :: l' =>
          match dtake (Z.to_nat n) l' with
          | Some (p, rest) => dec_xop code p :: dec_xops fuel' rest
          | None => [XBad]
          end
      | [] => []
      | _ => [XBad]
      end
  end.

Definition decode_graph (l : list Z) : list xop := dec_xops (length l) l.

Definition dops_of (xs : list xop) : list dop :=
  flat_map (fun x => match x with
                     | XSys hs deps t => [dsys_of hs deps t]
                     | XBarrier => [DBarrier]
                     | _ => []
                     end) xs.

(* reads()/writes() are compared as sorted lists: their order means nothing *)
Fixpoint zinsert (x : Z) (l : list Z) : list Z :=
  match l with
  | [] => [x]
  | y :: l' => if Z.leb x y then x :: l else y :: zinsert x l'
  end.
Definition zsort (l : list Z) : list Z := fold_right zinsert [] l.
Definition zs (l : list N) : list Z := zsort (map Z.of_N l).

Definition enc_tree (sts : list stage) : list Z :=
  1%Z :: Z.of_nat (length sts) ::
  flat_map (fun st => Z.of_nat (length st) ::
              flat_map (fun g : group => Z.of_nat (length g) :: zs (g_ids g)) st) sts.

Definition enc_decl (s : sys) : list Z :=
  2%Z :: Z.of_N (s_id s) :: (Z.of_nat (length (s_reads s)) :: zs (s_reads s))
      ++ (Z.of_nat (length (s_writes s)) :: zs (s_writes s)).

(* the resources a probe looks at *)
Definition universe : list N := [R_ENT; R_LAZY; R_STORE 0; R_STORE 1; R_STORE 2; R_STORE 3; R_STORE 4; R_STORE 5; R_STORE 6; R_STORE 7].

Definition enc_probe (h : handle) : list Z :=
  let '(r, w) := decl h in
  match acquire_all bs_init (fetch_borrows h) with
  | Some b =>
      6%Z :: enc_handle h :: (Z.of_nat (length r) :: zs r) ++ (Z.of_nat (length w) :: zs w)
          ++ flat_map (fun x => [Z.of_N x; probe b x]) universe
  | None => [9%Z]
  end.

Definition model_graph (xs : list xop) : list (list Z) :=
  let probes := flat_map (fun x => match x with XProbe h => [enc_probe h] | _ => [] end) xs in
  let os := dops_of xs in
  if existsb (fun x => match x with XBad => true | _ => false end) xs then [[9%Z]]
  else match os with
       | [] => probes
       | _ =>
           let d := d_build os in
           if d_stuck d then probes ++ [[9%Z]]
           else probes ++ enc_tree (b_stages (d_sb d)) :: map enc_decl (d_systems 0 os)
       end.

(* ------------------------------------------------------------------ the log check *)

Fixpoint find_sys (i : N) (l : list sys) : option sys :=
  match l with
  | [] => None
  | s :: l' => if N.eqb (s_id s) i then Some s else find_sys i l'
  end.

(* 0 ok; 1 unknown system; 2 started twice; 3 a dependency had not ended;
   4 starts while a conflicting system is running; 5 ends without running;
   6 some system did not run or did not end; 7 the borrow flags refuse *)
Fixpoint log_check (systems : list sys) (started : list N) (m : mstate) (log : list Z) : Z :=
  match log with
  | [] =>
      if negb (is_nil (m_running m)) then 6%Z
      else if forallb (fun s => existsb (N.eqb (s_id s)) started) systems then 0%Z else 6%Z
  | e :: log' =>
      let i := Z.to_N (Z.abs e - 1) in
      match find_sys i systems with
      | None => 1%Z
      | Some s =>
          if Z.ltb 0 e then
            if existsb (N.eqb i) started then 2%Z
            else if negb (forallb (fun d => existsb (N.eqb d) (m_done m)) (s_deps s)) then 3%Z
            else if existsb (fun s' => sys_conflict s s') (m_running m) then 4%Z
            else let m1 := m_step m (EStart s) in
                 if m_stuck m1 then 7%Z else log_check systems (i :: started) m1 log'
          else
            if negb (existsb (fun s' => N.eqb (s_id s') i) (m_running m)) then 5%Z
            else let m1 := m_step m (EEnd s) in
                 if m_stuck m1 then 7%Z else log_check systems started m1 log'
      end
  end.

Definition log_ok (systems : list sys) (log : list Z) : Z := log_check systems [] m_init log.

(* ------------------------------------------------------------------ a probe output, on its own:
   the flags seen while the handle is alive are exclusive exactly on its
   declared writes, shared exactly on its declared reads that are not writes,
   free elsewhere.   6 h nr r.. nw w.. (res state).. *)
Fixpoint pairs_ok (r w : list Z) (l : list Z) : bool :=
  match l with
  | res :: st :: l' =>
      let want := if existsb (Z.eqb res) w then 2%Z else if existsb (Z.eqb res) r then 1%Z else 0%Z in
      Z.eqb st want && pairs_ok r w l'
  | [] => true
  | _ => false
  end.

Definition probe_consistent (o : list Z) : bool :=
  match o with
  | 6%Z :: _ :: nr :: rest =>
      match dtake (Z.to_nat nr) rest with
      | Some (r, nw :: rest2) =>
          match dtake (Z.to_nat nw) rest2 with
          | Some (w, pairs) => negb (is_nil pairs) && pairs_ok r w pairs
          | None => false
          end
      | _ => false
      end
  | _ => false
  end.
