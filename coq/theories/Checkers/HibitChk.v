(* Executable comparison of the hierarchical-bit-set model with the crate the
   implementation is built on: layers after a sequence of add / remove,
   membership, sequential iteration of a (combined) set, and the leaves of a
   tree of BitProducer splits.  Definitions only. *)
From Coq Require Import List NArith ZArith Bool.
From SV Require Import Base.Ids Bits.Hibit.
Import ListNotations.

Definition hb_apply (s : bitset) (ops : list Z) : bitset :=
  fold_left (fun s z => if (0 <? z)%Z then bs_add s (Z.to_N (z - 1))
                        else if (z <? 0)%Z then bs_remove s (Z.to_N (- z - 1)) else bs_empty) ops s.

Definition dump_layer (tag : Z) (m : NM.t word) : list (list Z) :=
  flat_map (fun p => match snd p with [] => [] | _ => [tag :: Z.of_N (fst p) :: map Z.of_N (snd p)] end) (NM.elements m).

Definition dump (base : Z) (s : bitset) : list (list Z) :=
  [(base + 3)%Z :: map Z.of_N (b3 s)] ++ dump_layer (base + 2)%Z (b2 s) ++ dump_layer (base + 1)%Z (b1 s) ++ dump_layer base (b0 s).

Fixpoint dec_tree (fuel : nat) (l : list Z) : stree * list Z :=
  match fuel with
  | O => (SLeaf, l)
  | S f =>
      match l with
      | [] => (SLeaf, [])
      | x :: r =>
          if (x =? 1)%Z then
            let '(a, r1) := dec_tree f r in let '(b, r2) := dec_tree f r1 in (SNode a b, r2)
          else (SLeaf, r)
      end
  end.

Definition g_contains (g : getter) (i : N) : bool := w_mem (row i 0) (g 0%nat (offset i 6)).

Definition combo_getter (c : Z) (a b : bitset) : getter :=
  if (c =? 1)%Z then g_and (bs_get a) (bs_get b)
  else if (c =? 2)%Z then g_or (bs_get a) (bs_get b)
  else if (c =? 3)%Z then g_xor (bs_get a) (bs_get b)
  else if (c =? 4)%Z then g_and (bs_get a) (g_not (bs_get b))
  else if (c =? 6)%Z then g_or (bs_get b) (bs_get a)
  else bs_get a.

Definition op_index (z : Z) : N := if (0 <? z)%Z then Z.to_N (z - 1) else Z.to_N (- z - 1).

Definition out_items (tag : Z) (o : option (list N)) : list Z :=
  match o with Some l => tag :: map Z.of_N l | None => [(-1)%Z] end.

Definition take_n (l : list Z) : list Z * list Z :=
  match l with
  | [] => ([], [])
  | n :: r => (firstn (Z.to_nat n) r, skipn (Z.to_nat n) r)
  end.

(* case: [combo; na; a-ops...; nb; b-ops...; nt; tree (preorder, 1 = split, 0 = leaf)] *)
Definition hibit_transcript (h : list Z) : list (list Z) :=
  match h with
  | [] => []
  | c :: r0 =>
      let '(aops, r1) := take_n r0 in
      let '(bops, r2) := take_n r1 in
      let '(tr, _) := take_n r2 in
      let a := hb_apply bs_empty aops in
      let b := hb_apply bs_empty bops in
      let g := combo_getter c a b in
      let fuel := (8 * (length aops + length bops) + 16)%nat in
      let t := fst (dec_tree (S (length tr)) tr) in
      dump 20 a ++ dump 30 b
      ++ [12%Z :: map (fun z => if g_contains g (op_index z) then 1%Z else 0%Z) (filter (fun z => negb (z =? 0)%Z) (aops ++ bops))]
      ++ [out_items 10 (drain_iter g fuel (fresh g))]
      ++ map (fun it => out_items 11 (drain_iter g fuel it)) (leaves g average_ones (fresh g) t)
  end.
