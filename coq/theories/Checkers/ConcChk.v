(* The `conc` domain: case decoding, transcript encoding, the schedule
   enumerator and the computable predicate c10_ok.  Definitions only.

   A case (one line of integers):
       nc nd nm  T  n_1 (code arg)*n_1 ... n_T (code arg)*n_T  S s_1 .. s_S
   setup: create nc entities (World::create_iter), request deletion of the
   first nd of them (Entities::delete), run nm maintains; then T threads run
   their programs under the schedule s_1 .. s_S (thread indices), after which
   the unfinished threads are run to completion, lowest index first.
   op codes: 1 _ Create | 2 k Delete(initial k) | 3 k Delete(own k)
             4 k IsAlive(initial k) | 5 k IsAlive(own k) | 6 q Push q       *)
From SV Require Export World.World Conc.AtomicLTS.

Record ccase := {
  cs_nc : nat; cs_nd : nat; cs_nm : nat;
  cs_progs : list (list cop);
  cs_sched : list nat }.

Definition dec_cop (code arg : Z) : option cop :=
  match code with
  | 1 => Some CCreate
  | 2 => Some (CDelete (HInit (Z.to_nat arg)))
  | 3 => Some (CDelete (HOwn (Z.to_nat arg)))
  | 4 => Some (CIsAlive (HInit (Z.to_nat arg)))
  | 5 => Some (CIsAlive (HOwn (Z.to_nat arg)))
  | 6 => Some (CPush (Z.to_N arg))
  | _ => None
  end%Z.

Fixpoint dec_prog (n : nat) (l : list Z) : option (list cop * list Z) :=
  match n with
  | O => Some ([], l)
  | S n' =>
      match l with
      | c :: a :: l' =>
          match dec_cop c a, dec_prog n' l' with
          | Some o, Some (p, r) => Some (o :: p, r)
          | _, _ => None
          end
      | _ => None
      end
  end.

Fixpoint dec_progs (t : nat) (l : list Z) : option (list (list cop) * list Z) :=
  match t with
  | O => Some ([], l)
  | S t' =>
      match l with
      | n :: l' =>
          match dec_prog (Z.to_nat n) l' with
          | Some (p, r) =>
              match dec_progs t' r with Some (ps, r') => Some (p :: ps, r') | None => None end
          | None => None
          end
      | [] => None
      end
  end.

Definition dec_case (l : list Z) : option ccase :=
  match l with
  | nc :: nd :: nm :: t :: l1 =>
      match dec_progs (Z.to_nat t) l1 with
      | Some (ps, s :: r) =>
          if Nat.eqb (Z.to_nat s) (length r) then
            Some {| cs_nc := Z.to_nat nc; cs_nd := Z.to_nat nd; cs_nm := Z.to_nat nm;
                    cs_progs := ps; cs_sched := map Z.to_nat r |}
          else None
      | _ => None
      end
  | _ => None
  end.

(* the sequential prefix, on the faithful world machine *)
Definition setup_ops (nc nd nm : nat) : list op :=
  OCreateIter nc :: map OEDelete (seq 0 nd) ++ repeat OMaintain nm.

Definition setup_world (cs : ccase) : world :=
  fst (wrun true w_init (setup_ops (cs_nc cs) (cs_nd cs) (cs_nm cs))).

Definition setup_config (cs : ccase) : config :=
  let w := setup_world cs in c_new (w_alloc w) (rev (w_hl w)) (cs_progs cs).

(* run the unfinished threads to completion, lowest index first *)
Fixpoint first_unfinished (ts : list thread) (k : nat) : option nat :=
  match ts with
  | [] => None
  | t :: ts' => if finished t then first_unfinished ts' (S k) else Some k
  end.

Fixpoint drain (fuel : nat) (c : config) : config :=
  match fuel with
  | O => c
  | S f => match first_unfinished (threads c) 0 with
           | None => c
           | Some n => drain f (step_thread c n)
           end
  end.

Definition total_ops (c : config) : nat := fold_right (fun t n => (length (prog t) + n)%nat) 0%nat (threads c).

(* an operation takes at most 5 steps plus one per CAS lost to another creation *)
Definition drain_fuel (c : config) : nat := (S (total_ops c) * (total_ops c + 6))%nat.

Definition conc_final (cs : ccase) : config :=
  let c := run (setup_config cs) (cs_sched cs) in drain (drain_fuel c) c.

(* ------------------------------------------------------------------ *)
(* transcript *)

Definition enc_cout (o : cout) : list Z :=
  match o with
  | OHandle e => 1%Z :: enc_ent e
  | OKill e None => 2%Z :: enc_ent e ++ [0%Z]
  | OKill e (Some g) => 2%Z :: enc_ent e ++ [1%Z; g]
  | OAlive e b => 3%Z :: enc_ent e ++ [enc_bool b]
  | OPush q => [4%Z; Z.of_N q]
  | OSkip => [8%Z]
  | OPanic => [9%Z]
  end.

Fixpoint enc_threads (k : nat) (ts : list thread) : list (list Z) :=
  match ts with
  | [] => []
  | t :: ts' => (20%Z :: Z.of_nat k :: flat_map enc_cout (outs t)) :: enc_threads (S k) ts'
  end.

Fixpoint strip_zeros_rev (l : list Z) : list Z :=
  match l with
  | 0%Z :: l' => strip_zeros_rev l'
  | _ => l
  end.
Definition strip_trailing_zeros (l : list Z) : list Z := rev (strip_zeros_rev (rev l)).

Fixpoint gens_list (a : astate) (k : N) (n : nat) : list Z :=
  match n with O => [] | S n' => gen_at a k :: gens_list a (k + 1) n' end.

Definition enc_opt (x : option N) : Z := match x with Some i => Z.of_N i | None => (-1)%Z end.

(* the allocator dump (hook verif_dump), tags base .. base+5 *)
Definition enc_dump (base : Z) (a : astate) : list (list Z) :=
  [ base :: strip_trailing_zeros (gens_list a 0 (N.to_nat (max_id a) + 2));
    (base + 1)%Z :: map Z.of_N (NS.elements (alive a));
    (base + 2)%Z :: map Z.of_N (NS.elements (raised a));
    (base + 3)%Z :: map Z.of_N (NS.elements (killed a));
    (base + 4)%Z :: map enc_opt (pv_to_list (cache a));
    [(base + 5)%Z; Z.of_N (clen a); Z.of_N (max_id a)] ].

Definition conc_transcript_of (c : config) : list (list Z) :=
  let a := sh c in
  let '(a', _) := a_merge a in
  let hs := inits c ++ all_mine c in
  enc_threads 0 (threads c)
  ++ [[21%Z; enc_bool (all_finished c); enc_bool (a_stuck a)]]
  ++ enc_dump 30 a
  ++ enc_dump 40 a'
  ++ [ 46%Z :: flat_map enc_ent (a_entities a');
       47%Z :: map Z.of_N (queue c);
       48%Z :: map (fun e => enc_bool (a_is_alive a' e)) hs;
       [49%Z; enc_bool (a_stuck a')] ].

Definition conc_transcript (l : list Z) : list (list Z) :=
  match dec_case l with
  | Some cs => conc_transcript_of (conc_final cs)
  | None => [[99%Z]]
  end.

(* ------------------------------------------------------------------ *)
(* schedule enumeration: every maximal schedule of a configuration, depth
   first.  With [por = true] a step that touches only data that is immutable
   during the phase (the cache read, the generation read) is taken
   immediately after the step that enabled it: such a step commutes with every
   step of every other thread, so each schedule left out differs from an
   enumerated one only in the position of such steps. *)

Definition invisible_next (t : thread) : bool :=
  match tpc t with PRead _ | PGen _ => true | _ => false end.

Fixpoint burst (fuel : nat) (c : config) (n : nat) : config * list nat :=
  match fuel with
  | O => (c, [])
  | S f =>
      match nth_error (threads c) n with
      | Some t => if invisible_next t then
                    let '(c', s) := burst f (step_thread c n) n in (c', n :: s)
                  else (c, [])
      | None => (c, [])
      end
  end.

Fixpoint enum_scheds (fuel : nat) (por : bool) (c : config) : list (list nat) :=
  match fuel with
  | O => [[]]
  | S f =>
      if all_finished c then [[]]
      else
        flat_map (fun n =>
          match nth_error (threads c) n with
          | Some t =>
              if finished t then []
              else
                let c1 := step_thread c n in
                let '(c2, s) := if por then burst 4 c1 n else (c1, []) in
                map (fun r => n :: s ++ r) (enum_scheds f por c2)
          | None => []
          end) (seq 0 (length (threads c)))
  end.

(* input: a case whose schedule part is  1 por ; output: the schedules *)
Definition conc_enum (l : list Z) : list (list Z) :=
  match dec_case l with
  | Some cs =>
      let c := setup_config cs in
      let por := match cs_sched cs with O :: _ => false | _ => true end in
      map (map Z.of_nat) (enum_scheds (drain_fuel c) por c)
  | None => [[99%Z]]
  end.

(* ------------------------------------------------------------------ *)
(* the property predicate, evaluated on an observed transcript *)

(* outputs of one thread, from the flattened encoding *)
Fixpoint dec_couts (fuel : nat) (l : list Z) : option (list cout) :=
  match fuel with
  | O => None
  | S f =>
      match l with
      | [] => Some []
      | 1 :: i :: g :: r =>
          match dec_couts f r with Some o => Some (OHandle (Z.to_N i, g) :: o) | None => None end
      | 2 :: i :: g :: 0 :: r =>
          match dec_couts f r with Some o => Some (OKill (Z.to_N i, g) None :: o) | None => None end
      | 2 :: i :: g :: 1 :: a :: r =>
          match dec_couts f r with Some o => Some (OKill (Z.to_N i, g) (Some a) :: o) | None => None end
      | 3 :: i :: g :: b :: r =>
          match dec_couts f r with Some o => Some (OAlive (Z.to_N i, g) (negb (Z.eqb b 0)) :: o) | None => None end
      | 4 :: q :: r =>
          match dec_couts f r with Some o => Some (OPush (Z.to_N q) :: o) | None => None end
      | 8 :: r =>
          match dec_couts f r with Some o => Some (OSkip :: o) | None => None end
      | _ => None
      end
  end%Z.

Definition find_line (tag : Z) (t : list (list Z)) : option (list Z) :=
  match find (fun l => match l with x :: _ => Z.eqb x tag | [] => false end) t with
  | Some (_ :: r) => Some r
  | _ => None
  end.

Fixpoint thread_lines (t : list (list Z)) : list (list Z) :=
  match t with
  | (20%Z :: _ :: r) :: t' => r :: thread_lines t'
  | _ => []
  end.

Fixpoint dec_all_couts (ls : list (list Z)) : option (list (list cout)) :=
  match ls with
  | [] => Some []
  | l :: ls' =>
      match dec_couts (S (length l)) l, dec_all_couts ls' with
      | Some o, Some r => Some (o :: r)
      | _, _ => None
      end
  end.

Fixpoint dec_ent_list (fuel : nat) (l : list Z) : option (list entity) :=
  match fuel with
  | O => None
  | S f =>
      match l with
      | [] => Some []
      | i :: g :: r => match dec_ent_list f r with Some es => Some ((Z.to_N i, g) :: es) | None => None end
      | _ => None
      end
  end.

Definition handles_of_outs (o : list cout) : list entity :=
  flat_map (fun x => match x with OHandle e => [e] | _ => [] end) o.
Definition killed_of_outs (o : list cout) : list entity :=
  flat_map (fun x => match x with OKill e None => [e] | _ => [] end) o.
Definition pushes_of_outs (o : list cout) : list N :=
  flat_map (fun x => match x with OPush q => [q] | _ => [] end) o.
Definition pushes_of_prog (p : list cop) : list N :=
  flat_map (fun x => match x with CPush q => [q] | _ => [] end) p.

Definition mem_ent (e : entity) (l : list entity) : bool := existsb (entity_eqb e) l.

Fixpoint nodup_ents (l : list entity) : bool :=
  match l with [] => true | e :: l' => negb (mem_ent e l') && nodup_ents l' end.
Fixpoint nodup_N (l : list N) : bool :=
  match l with [] => true | x :: l' => negb (existsb (N.eqb x) l') && nodup_N l' end.
Fixpoint list_N_eqb (a b : list N) : bool :=
  match a, b with
  | [], [] => true
  | x :: a', y :: b' => N.eqb x y && list_N_eqb a' b'
  | _, _ => false
  end.

(* per-thread clauses: a handle the thread created, or one that was alive at
   the start, is reported alive and its deletion request succeeds *)
Definition thread_ok (alive0 : list entity) (o : list cout) : bool :=
  let own := handles_of_outs o in
  forallb (fun x =>
    match x with
    | OAlive e b => if mem_ent e alive0 || mem_ent e own then b else true
    | OKill e r => if mem_ent e alive0 || mem_ent e own then match r with None => true | Some _ => false end else true
    | OPanic => false
    | _ => true
    end) o.

(* [alive0]: the handles alive at the start of the phase (from the sequential
   prefix), [pending0]: those of them whose deletion was already requested;
   [after]: the entities join after the next maintain; [ran]: the
   queued actions in the order in which maintain ran them *)
Definition c10_ok (alive0 pending0 : list entity) (progs : list (list cop)) (os : list (list cout))
                  (after : list entity) (ran : list N) : bool :=
  let created := flat_map handles_of_outs os in
  let requested := pending0 ++ flat_map killed_of_outs os in
  let pushes := map pushes_of_prog progs in
  (* every operation of every program produced a result *)
  Nat.eqb (length os) (length progs)
  && forallb (fun po => Nat.eqb (length (fst po)) (length (snd po))) (combine progs os)
  (* handles pairwise distinct, and distinct from those alive at the start *)
  && nodup_ents created && negb (existsb (fun e => mem_ent e alive0) created)
  && forallb (thread_ok alive0) os
  (* after maintain: alive = initial + created - requested *)
  && forallb (fun e => (mem_ent e alive0 || mem_ent e created) && negb (mem_ent e requested)) after
  && forallb (fun e => mem_ent e requested || mem_ent e after) (alive0 ++ created)
  && nodup_ents after
  (* every queued action ran exactly once, in each thread's order *)
  && nodup_N (concat pushes)
  && Nat.eqb (length ran) (length (concat pushes))
  && forallb (fun p => list_N_eqb (filter (fun q => existsb (N.eqb q) p) ran) p) pushes.

(* verdict on an observed transcript: [decoded; equal to the model's; c10_ok;
   the initial handles satisfy the hypothesis of the theorems (hinit_okb)] *)
Definition conc_verdict (l : list Z) (t : list (list Z)) (eq : bool) : list Z :=
  match dec_case l with
  | None => [0; 0; 0; 0]%Z
  | Some cs =>
      let w := setup_world cs in
      let alive0 := a_entities (w_alloc w) in
      let pending0 := filter (fun e => NS.mem (fst e) (killed (w_alloc w))) alive0 in
      let hyp := enc_bool (forallb (hinit_okb (w_alloc w)) (rev (w_hl w))) in
      match dec_all_couts (thread_lines t), find_line 46 t, find_line 47 t with
      | Some os, Some ents, Some ran =>
          match dec_ent_list (S (length ents)) ents with
          | Some after =>
              [1%Z; enc_bool eq; enc_bool (c10_ok alive0 pending0 (cs_progs cs) os after (map Z.to_N ran)); hyp]
          | None => [0%Z; enc_bool eq; 0%Z; hyp]
          end
      | _, _, _ => [0%Z; enc_bool eq; 0%Z; hyp]
      end
  end.
