(* C19: computable checkers for the `unwind` domain.  The oracle of every
   operation (hash iteration order, resource destruction order) is read off
   the implementation's transcript; the model is then run with it and the two
   transcripts are compared.  (The direct checks on the implementation's
   transcript - ledger without repetition, no destroyed uid observed - are made
   by lib/svlib/unwind_check.py without any use of the model.)
   Definitions only. *)
From SV Require Export Unwind.UWorld Unwind.ChangeSet.

Fixpoint unl_eqb (a b : list N) : bool :=
  match a, b with
  | [], [] => true
  | x :: a', y :: b' => N.eqb x y && unl_eqb a' b'
  | _, _ => false
  end.

Fixpoint is_prefix (a b : list N) : bool :=
  match a, b with
  | [], _ => true
  | x :: a', y :: b' => N.eqb x y && is_prefix a' b'
  | _, _ => false
  end.

Fixpoint remove_sid (s : N) (l : list (N * mstore)) : list (N * mstore) :=
  match l with
  | [] => []
  | x :: l' => if N.eqb (fst x) s then l' else x :: remove_sid s l'
  end.

(* an order of the resources that explains the observed destruction [d] of a dropped world *)
Fixpoint dw_search (fuel : nat) (rest : list (N * mstore)) (arm : nat) (d : list N) : option (list N) :=
  match fuel with
  | O => None
  | S fuel' =>
      match rest with
      | [] => match d with [] => Some [] | _ => None end
      | _ =>
          (fix try (cands : list (N * mstore)) : option (list N) :=
             match cands with
             | [] => None
             | (sid, ms) :: cands' =>
                 let '(_, f1) := m_clear_f (hord_of sid {| o_uids := d; o_sids := [] |}) ms (f_of cx0 arm) in
                 let out := rev (cx_drops (fx f1)) in
                 let r :=
                   if f_pan f1 then (if unl_eqb out d then Some [sid] else None)
                   else if is_prefix out d then
                     match dw_search fuel' (remove_sid sid rest) (f_arm f1) (skipn (length out) d) with
                     | Some l => Some (sid :: l)
                     | None => None
                     end
                   else None in
                 match r with Some l => Some l | None => try cands' end
             end) rest
      end
  end.

Definition dec_udrops (eff : list Z) : list N :=
  match eff with
  | _ :: _ :: _ :: d => map Z.to_N d
  | _ => []
  end.

(* the oracles of a run, read off the observed transcript [t] (two entries per operation) *)
Fixpoint oracles_of (t : list (list Z)) (w : uworld) (os : list uop) : list oracle :=
  match os with
  | [] => []
  | o :: os' =>
      let d := match t with _ :: eff :: _ => dec_udrops eff | _ => [] end in
      let sids := match o with
                  | UDropWorld =>
                      let l := NM.elements (uw_stores w) in
                      match dw_search (S (length l)) l (uw_arm w) d with Some s => s | None => [] end
                  | _ => []
                  end in
      let orc := {| o_uids := d; o_sids := sids |} in
      let '(w1, _, _) := ustep orc w o in
      orc :: (if uw_stuck w1 then [] else match o with UDropWorld => [] | _ => oracles_of (tl (tl t)) w1 os' end)
  end.

(* the model's transcript along the observed one *)
Definition utr_guided (h : list Z) (t : list (list Z)) : list (list Z) :=
  if is_cs_history h then cs_transcript h
  else
    let os := decode_uhistory h in
    utr (oracles_of t uw_init os) uw_init os.
