(* Computable checkers evaluated on transcripts (of the model and of the
   implementation).  Definitions only. *)
From SV Require Export World.Ops World.World World.WorldSpec.

(* C01 direct: no handle is returned twice (per index: the set of generations seen) *)
Fixpoint nodup_handles (seen : NM.t (list Z)) (l : list entity) : bool :=
  match l with
  | [] => true
  | (i, g) :: l' =>
      let gs := match NM.find i seen with Some gs => gs | None => [] end in
      if existsb (Z.eqb g) gs then false else nodup_handles (NM.add i (g :: gs) seen) l'
  end.

(* C01 direct: among the handles a probe reports alive, indices are pairwise distinct.
   [hs] : handles returned so far, oldest first *)
Fixpoint alive_indices_distinct (seen : NS.t) (hs : list entity) (bs : list bool) : bool :=
  match hs, bs with
  | e :: hs', b :: bs' =>
      if b then (if NS.mem (fst e) seen then false else alive_indices_distinct (NS.add (fst e) seen) hs' bs')
      else alive_indices_distinct seen hs' bs'
  | _, _ => true
  end.

(* C02 direct: a handle once probed dead is never probed alive again.
   [dead] : per handle position, already seen dead *)
Fixpoint no_resurrection (dead : list bool) (bs : list bool) : bool * list bool :=
  match bs with
  | [] => (true, [])
  | b :: bs' =>
      let d := match dead with d :: _ => d | [] => false end in
      let '(ok, dead') := no_resurrection (tl dead) bs' in
      (negb (d && b) && ok, (d || negb b) :: dead')
  end.

(* walk a transcript applying the direct checks at every probe; [rhs]: the handles returned so far, most
   recent first (reversed only when a probe needs them: linear in the length of the transcript) *)
Fixpoint probes_ok (rhs : list entity) (dead : list bool) (tr : list (op * wout)) : bool * bool :=
  match tr with
  | [] => (true, true)
  | (o, out) :: tr' =>
      let rhs' := rev_append (returned o out) rhs in
      match o, out with
      | OProbeAll, WBools bs =>
          let d1 := alive_indices_distinct NS.empty (rev rhs) bs in
          let '(d2, dead') := no_resurrection dead bs in
          let '(r1, r2) := probes_ok rhs' dead' tr' in
          (d1 && r1, d2 && r2)
      | _, _ => probes_ok rhs' dead tr'
      end
  end.

Definition c01_direct (tr : list (op * wout)) : bool :=
  nodup_handles (NM.empty _) (all_returned tr) && fst (probes_ok [] [] tr).
Definition c02_direct (tr : list (op * wout)) : bool := snd (probes_ok [] [] tr).
