(* Entry points used by the extracted OCaml driver (and by generated cases.v
   files evaluated with vm_compute). *)
From SV Require Export Checkers.AllocChk Checkers.ConcChk World.Lazy.
From SV Require SaveLoad.SLOps.

(* sorting of uid lists (canonical order where the real order is unspecified) *)
Fixpoint ins_sorted (x : N) (l : list N) : list N :=
  match l with
  | [] => [x]
  | y :: l' => if N.leb x y then x :: l else y :: ins_sorted x l'
  end.
Definition sort_n (l : list N) : list N := fold_right ins_sorted [] l.

Definition is_hash_sid (sid : N) : bool :=
  match kind_of sid with Some (KHash, _) => true | _ => false end.

(* drops in chronological order; sorted where the real order is unspecified:
   HashMap::clear, and the order in which a dropped World destroys its resources *)
Definition canon_drops (o : op) (c : ctx) : list N :=
  let d := rev (cx_drops c) in
  match o with
  | ODropWorld => sort_n d
  | OStore (SClear sid) => if is_hash_sid sid then sort_n d else d
  | _ => d
  end.

Definition enc_effects (o : op) (c : ctx) : list Z :=
  let d := canon_drops o c in
  10%Z :: Z.of_N (cx_mints c) :: Z.of_nat (length d) :: map Z.of_N d.

(* model transcript: per performed operation the output and the effects; a quiet
   operation (the storage access made by a lazy insert / remove) has no entry of
   its own, what it destroys is reported with the entry before it; ends with [9]
   at the first stuck state; nothing after the world was dropped *)
Definition flush (pend : option (op * wout)) (w : world) : list (list Z) :=
  match pend with
  | Some (o, out) => [enc_out out; enc_effects o (se_cx (w_env w))]
  | None => []
  end.

Fixpoint enc_run (fixed : bool) (w : world) (pend : option (op * wout)) (os : list op) : list (list Z) :=
  match os with
  | [] => flush pend w
  | OQuiet so :: os' =>
      let '(w1, _) := wstep_core fixed w (OQuiet so) in
      if w_is_stuck w1 then flush pend w ++ [[9%Z]] else enc_run fixed w1 pend os'
  | o :: os' =>
      flush pend w ++
      (let '(w1, out) := wstep fixed w o in
       if w_is_stuck w1 then [[9%Z]]
       else match o with
            | ODropWorld => flush (Some (o, out)) w1
            | _ => enc_run fixed w1 (Some (o, out)) os'
            end)
  end.

(* the operations in the order in which the world performs them *)
Definition performed (h : list Z) : list op := flatten (decode_history h).

Definition model_transcript (fixed : bool) (h : list Z) : list (list Z) :=
  enc_run fixed w_init None (performed h).

(* pair the ops with the decoded outputs (and raw effect entries) of an observed
   transcript; stops at the first undecodable output (e.g. the panic marker) *)
Fixpoint pair_tr (os : list op) (t : list (list Z)) : list (op * wout * list Z) :=
  match os, t with
  | OQuiet so :: os', _ => (OQuiet so, WUnit, []) :: pair_tr os' t
  | o :: os', x :: eff :: t' =>
      match dec_out x with
      | Some out => (o, out, eff) :: match o with ODropWorld => [] | _ => pair_tr os' t' end
      | None => []
      end
  | _, _ => []
  end.

Fixpoint ops_until_drop (os : list op) : list op :=
  match os with
  | [] => []
  | ODropWorld :: _ => [ODropWorld]
  | o :: os' => o :: ops_until_drop os'
  end.

Fixpoint zlists_eqb (a b : list (list Z)) : bool :=
  match a, b with
  | [], [] => true
  | x :: a', y :: b' => zlist_eqb x y && zlists_eqb a' b'
  | _, _ => false
  end.

Fixpoint has_dup (l : list N) : bool :=
  match l with [] => false | x :: l' => existsb (N.eqb x) l' || has_dup l' end.

(* classify an invalid choice: 2 = the index belongs to an entity that is not
   dead (or is taken twice by one operation); 3 = a never-used index although a
   dead entity's index is free (or not the next unused index) *)
Definition reject_code (w : sworld) (out : wout) : Z :=
  let cs := choices_of out in
  if existsb (fun i => occupied (cell (s_life w) i)) cs || has_dup cs then 2%Z else 3%Z.

(* specification-level comparison of outputs: slice views are representation
   specific and are not compared *)
Definition wout_eqb_spec (x y : wout) : bool :=
  match x, y with
  | WSlice _, WSlice _ => true
  | _, _ => wout_eqb x y
  end.

(* specification-level view of the effects: the destroyed values as a multiset,
   default-made values excluded (how many defaults a storage keeps is its own business) *)
Definition spec_drops (l : list N) : list N := sort_n (filter (fun u => negb (N.eqb u default_uid)) l).

Definition dec_effect_drops (eff : list Z) : list N :=
  match eff with
  | _ :: _ :: _ :: d => map Z.to_N d
  | _ => []
  end.

Fixpoint nlist_eqb (a b : list N) : bool :=
  match a, b with
  | [], [] => true
  | x :: a', y :: b' => N.eqb x y && nlist_eqb a' b'
  | _, _ => false
  end.

(* is the handle of a storage operation dead in the specification state?  (for a join: the entity of a lending
   lookup, or an entity looked up through a restricted item) *)
Fixpoint member_handles (m : member) : list href :=
  match m with
  | MRestrict _ _ _ _ _ others => others
  | MMaybe m' => member_handles m'
  | _ => []
  end.

Definition handle_dead (w : sworld) (o : op) : bool :=
  let dead h := match hget (s_hs w) h with Some e => negb (l_is_alive (s_life w) e) | None => false end in
  match o with
  | OStore so =>
      match sop_handle so with
      | Some h => dead h
      | None => false
      end
  | OJoin k ms =>
      existsb dead (flat_map member_handles ms ++ match k with JLendGet h => [h] | _ => [] end)
  | _ => false
  end.

(* the code of an operation in the history format (quiet operations: 100 + the code) *)
Definition sop_code (so : sop) : Z :=
  match so with
  | SInsert _ _ _ => 30 | SGet _ _ => 31 | SGetMut _ _ _ _ => 32 | SRemove _ _ => 33 | SContains _ _ => 34
  | SCount _ => 35 | SIsEmpty _ => 36 | SMask _ => 37 | SSlice _ => 38 | SClear _ => 39 | SDrain _ _ => 40
  | SEntry _ _ _ => 41 | SGetMutOrDefault _ _ => 42 | SRegister _ => 50 | SRegReader _ => 70
  | SReadEvents _ _ => 71 | SSetEmission _ _ => 72
  end%Z.
Definition op_code (o : op) : Z :=
  match o with
  | OCreate _ => 1 | OCreateDropped _ => 2 | OCreateIter _ => 3 | OECreate => 4 | OECreateIter _ => 5
  | OEBuild _ _ => 6 | OLazyCreate _ => 7 | ODelete _ => 10 | ODeleteMany _ => 11 | OEDelete _ => 12
  | ODeleteAll => 13 | OMaintain => 14 | OIsAlive _ => 20 | OWIsAlive _ => 21 | OJoinEntities => 22
  | OEntityAt _ => 23 | OProbeAll => 24 | OStore so => sop_code so | ODropWorld => 99
  | OLazyInsert _ _ _ => 60 | OLazyInsertAll _ _ => 61 | OLazyRemove _ _ => 62 | OLazyExec _ => 63
  | OQuiet so => 100 + sop_code so | OBad => 0
  | OJoin _ _ => 80
  | OCs (CsNew _) => 81 | OCs (CsAdd _ _ _) => 82 | OCs (CsCollect _ _) => 83 | OCs (CsExtend _ _) => 84
  | OCs (CsClear _) => 85 | OCs (CsDump _) => 86
  end%Z.

(* acceptance by the specification (lifecycle allocator + plain-map storages) of the performed
   operations with the observed outputs; what a quiet operation destroys is accounted to the entry
   before it.  Result (position, code, stale, opcode): code 0 accepted, 1 output differs, 2/3 invalid
   choice, 4 destroyed values differ; stale = the rejected operation went through a dead handle;
   opcode = the code of the rejected operation *)
Definition quiet_dead (w : sworld) (so : sop) : bool :=
  match sop_handle so with
  | Some h => match hget (s_hs w) h with Some e => negb (l_is_alive (s_life w) e) | None => false end
  | None => false
  end.

(* [pst]: one of the quiet (deferred) operations accounted to the previous entry went through a dead handle *)
Fixpoint saccept_z (w : sworld) (tr : list (op * wout * list Z)) (pos : Z)
                   (pimpl pspec : list N) (ppos pcode : Z) (pst : bool) : Z * Z * Z * Z :=
  let prev_ok := nlist_eqb (spec_drops pimpl) (spec_drops pspec) in
  match tr with
  | [] => if prev_ok then ((-1)%Z, 0%Z, 0%Z, 0%Z) else (ppos, 4%Z, enc_bool pst, pcode)
  | (o, out, eff) :: tr' =>
      let '(w1, out1) := sstep w o (choices_of out) in
      let d1 := rev (cx_drops (se_cx (s_env w1))) in
      match o with
      | OQuiet so => saccept_z w1 tr' (pos + 1)%Z pimpl (pspec ++ d1) ppos pcode (pst || quiet_dead w so)
      | _ =>
          let stale := enc_bool (handle_dead w o) in
          if negb prev_ok then (ppos, 4%Z, enc_bool pst, pcode)
          else if negb (s_ok w1) then (pos, reject_code w out, stale, op_code o)
          else if negb (wout_eqb_spec out out1) then (pos, 1%Z, stale, op_code o)
          else saccept_z w1 tr' (pos + 1)%Z (dec_effect_drops eff) d1 pos (op_code o) false
      end
  end.

(* verdict on an observed transcript:
   [ complete; acc_pos; acc_code; c01_direct; c02_direct; stale; opcode ] *)
Definition verdict (h : list Z) (t : list (list Z)) : list Z :=
  let os := ops_until_drop (performed h) in
  let tr3 := pair_tr os t in
  let tr := map (fun x => (fst (fst x), snd (fst x))) tr3 in
  let complete := Nat.eqb (length tr) (length os) in
  let '(p, c, st, oc) := saccept_z (s_init_env true) tr3 0%Z [] [] 0%Z 0%Z false in
  [enc_bool complete; p; c; enc_bool (c01_direct tr); enc_bool (c02_direct tr); st; oc].

(* ------------------------------------------------------------------ *)
(* the `derive` domain (C18): one line = one case; first integer 0 = a
   save/load conversion case, 1 = a #[derive(Component)] storage case *)
From SV Require Export SaveLoad.DeriveCodec.

Definition derive_line (l : list Z) : list (list Z) :=
  match l with
  | 0 :: r => derive_case r
  | 1 :: r => [storage_case r]
  | _ => [[3]]
  end%Z.

(* ------------------------------------------------------------------ dispatch domain (C11) *)
From SV Require Export Checkers.DispatchChk.

Definition dispatch_model (h : list Z) : list (list Z) := model_graph (decode_graph h).

Definition tag_is (k : Z) (o : list Z) : bool := match o with t :: _ => Z.eqb t k | [] => false end.

(* verdict on an implementation transcript:
   [ tree_eq; decl_eq; probe_eq; nopanic; nlogs; nbad; first_bad_code; counter_violations; panics;
     probes_inconsistent ]
   the model's outputs with tags 1 / 2 / 6 must equal the implementation's;
   every log (tag 4) is checked with [log_ok] against the model's systems *)
Definition dispatch_verdict (h : list Z) (t : list (list Z)) : list Z :=
  let xs := decode_graph h in
  let m := model_graph xs in
  let sel k l := filter (tag_is k) l in
  let systems := d_systems 0 (dops_of xs) in
  let logs := sel 4%Z t in
  let codes := map (fun l => match l with _ :: _ :: _ :: _ :: ev => log_ok systems ev | _ => 1%Z end) logs in
  let bad := filter (fun c => negb (Z.eqb c 0)) codes in
  let summ := match sel 5%Z t with [_ :: _ :: v :: p :: _] => (v, p) | [] => (0%Z, 0%Z) | _ => (1%Z, 1%Z) end in
  [ enc_bool (zlists_eqb (sel 1%Z m) (sel 1%Z t));
    enc_bool (zlists_eqb (sel 2%Z m) (sel 2%Z t));
    enc_bool (zlists_eqb (sel 6%Z m) (sel 6%Z t));
    enc_bool (zlists_eqb (sel 9%Z m) (sel 9%Z t));
    Z.of_nat (length logs); Z.of_nat (length bad);
    match bad with c :: _ => c | [] => 0%Z end;
    fst summ; snd summ;
    Z.of_nat (length (filter (fun o => negb (probe_consistent o)) (sel 6%Z t))) ].

(* the [saveload] domain (C14/C15): transcript of the extracted model *)
Definition saveload_transcript (uuid : bool) (h : list Z) : list (list Z) :=
  SaveLoad.SLOps.sl_transcript uuid h.

(* ------------------------------------------------------------------ unwind domain (C19) *)
From SV Require Export Checkers.UnwindChk.

(* the model's transcript with the default oracle (ascending hash order, resources by storage id) *)
Definition unwind_transcript (h : list Z) : list (list Z) :=
  if is_cs_history h then cs_transcript h else utr [] uw_init (decode_uhistory h).

(* verdict on an implementation transcript [t]: the model's transcript run
   with the oracle read off [t], preceded by one entry
   [ equal; length of the model transcript; position of the first differing entry (-1: none) ] *)
Fixpoint first_diff (a b : list (list Z)) (pos : Z) : Z :=
  match a, b with
  | [], [] => (-1)%Z
  | x :: a', y :: b' => if zlist_eqb x y then first_diff a' b' (pos + 1)%Z else pos
  | _, _ => pos
  end.

Definition unwind_verdict (h : list Z) (t : list (list Z)) : list (list Z) :=
  let m := utr_guided h t in
  [enc_bool (zlists_eqb m t); Z.of_nat (length m); first_diff m t 0%Z] :: m.
