(* Entry points used by the extracted OCaml driver (and by generated cases.v
   files evaluated with vm_compute). *)
From SV Require Export Checkers.AllocChk.
From SV Require SaveLoad.SLOps.

(* model transcript; ends with [9] at the first stuck state *)
Fixpoint enc_run (fixed : bool) (w : world) (os : list op) : list (list Z) :=
  match os with
  | [] => []
  | o :: os' =>
      let '(w1, out) := wstep fixed w o in
      if w_is_stuck w1 then [[9%Z]] else enc_out out :: enc_run fixed w1 os'
  end.

Definition model_transcript (fixed : bool) (h : list Z) : list (list Z) :=
  enc_run fixed w_init (decode_history h).

(* pair the ops with the decoded outputs of an observed transcript; stops at
   the first undecodable output (e.g. the panic marker) *)
Fixpoint pair_tr (os : list op) (t : list (list Z)) : list (op * wout) :=
  match os, t with
  | o :: os', x :: t' => match dec_out x with Some out => (o, out) :: pair_tr os' t' | None => [] end
  | _, _ => []
  end.

Fixpoint zlists_eqb (a b : list (list Z)) : bool :=
  match a, b with
  | [], [] => true
  | x :: a', y :: b' =>
      (fix eq (x y : list Z) := match x, y with
         | [], [] => true
         | u :: x', v :: y' => Z.eqb u v && eq x' y'
         | _, _ => false end) x y && zlists_eqb a' b'
  | _, _ => false
  end.

(* verdict on an observed transcript:
   [ complete; acc_pos; acc_code; c01_direct; c02_direct ]
   complete = every output decoded (no panic, lengths agree);
   acc_code = 0 accepted, 1 output differs from the specification's,
              2 invalid choice (occupied cell), 3 invalid choice (fresh index
              while a free one exists or not the next index) *)
Fixpoint has_dup (l : list N) : bool :=
  match l with [] => false | x :: l' => existsb (N.eqb x) l' || has_dup l' end.

(* classify an invalid choice: 2 = the index belongs to an entity that is not
   dead (or is taken twice by one operation); 3 = a never-used index although a
   dead entity's index is free (or not the next unused index) *)
Definition reject_code (w : sworld) (out : wout) : Z :=
  let cs := choices_of out in
  if existsb (fun i => occupied (cell (s_life w) i)) cs || has_dup cs then 2%Z else 3%Z.

Fixpoint saccept_z (w : sworld) (tr : list (op * wout)) (pos : Z) : Z * Z :=
  match tr with
  | [] => ((-1)%Z, 0%Z)
  | (o, out) :: tr' =>
      let '(w1, out1) := sstep w o (choices_of out) in
      if negb (s_ok w1) then (pos, reject_code w out)
      else if wout_eqb out out1 then saccept_z w1 tr' (pos + 1)%Z else (pos, 1%Z)
  end.

Definition verdict (h : list Z) (t : list (list Z)) : list Z :=
  let os := decode_history h in
  let tr := pair_tr os t in
  let complete := Nat.eqb (length tr) (length os) in
  let '(p, c) := saccept_z s_init tr 0%Z in
  [enc_bool complete; p; c; enc_bool (c01_direct tr); enc_bool (c02_direct tr)].

(* the [saveload] domain (C14/C15): transcript of the extracted model *)
Definition saveload_transcript (uuid : bool) (h : list Z) : list (list Z) :=
  SaveLoad.SLOps.sl_transcript uuid h.
