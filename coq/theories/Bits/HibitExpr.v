(* Masks as joins build them: BitSets combined by and / or / not / xor.  The
   layers of such a combination are well formed, an index is reached by the
   iterator exactly when it satisfies the combination of the members'
   membership, and so the iteration - sequential, or cut up by any tree of
   splits - yields exactly those indices, ascending, each once. *)
From Coq Require Import List NArith Bool Lia Sorting.Sorted.
From SV Require Import Base.Ids Bits.Hibit Bits.HibitIter Bits.HibitOrder Bits.HibitSet.
Import ListNotations.
Local Open Scope N_scope.

(* ------------------------------------------------------------------ *)
(* word operations *)

Lemma small_In w x : small w -> In x w -> x < 64.
Proof. unfold small. rewrite Forall_forall. auto. Qed.

Lemma w_and_In a b x : sorted b -> (In x (w_and a b) <-> In x a /\ In x b).
Proof. intros Hb. unfold w_and. rewrite filter_In, (w_mem_In x b Hb). reflexivity. Qed.

Lemma wf_and a b : wf_word a -> wf_word (w_and a b).
Proof.
  intros [Hs Hw]. split; [apply sorted_filter; exact Hs|]. apply Forall_forall. intros x Hx. apply filter_In in Hx.
  apply (small_In a); [exact Hw|exact (proj1 Hx)].
Qed.

Lemma w_or_In a : forall b x, In x (w_or a b) <-> In x a \/ In x b.
Proof.
  induction b as [|y r IH]; intros x; [unfold w_or; cbn [fold_right In]; intuition|].
  change (w_or a (y :: r)) with (w_add y (w_or a r)). rewrite w_add_In, IH. cbn [In]. intuition congruence.
Qed.

Lemma wf_or a : forall b, wf_word a -> small b -> wf_word (w_or a b).
Proof.
  induction b as [|y r IH]; intros Ha Hb; [exact Ha|]. change (w_or a (y :: r)) with (w_add y (w_or a r)).
  inversion Hb; subst. apply wf_add; [assumption|apply IH; assumption].
Qed.

Lemma seq_sorted n : forall a, StronglySorted N.lt (map N.of_nat (seq a n)).
Proof.
  induction n as [|n IH]; intros a; cbn [seq map]; [constructor|]. constructor; [apply IH|].
  apply Forall_forall. intros y Hy. apply in_map_iff in Hy. destruct Hy as [k [<- Hk]]. apply in_seq in Hk. lia.
Qed.

Lemma w_full_In x : In x w_full <-> x < 64.
Proof.
  unfold w_full. rewrite in_map_iff. split.
  - intros [k [<- Hk]]. apply in_seq in Hk. lia.
  - intros H. exists (N.to_nat x). split; [apply N2Nat.id|]. apply in_seq. lia.
Qed.

Lemma wf_full : wf_word w_full.
Proof. split; [apply seq_sorted|]. apply Forall_forall. intros x Hx. apply w_full_In. exact Hx. Qed.

Lemma w_not_unfold a : w_not a = filter (fun x => negb (w_mem x a)) w_full. Proof. reflexivity. Qed.

Lemma w_not_In a x : sorted a -> (In x (w_not a) <-> x < 64 /\ ~ In x a).
Proof.
  intros Ha. rewrite w_not_unfold. generalize w_full_In. generalize w_full. intros wf Hwf.
  rewrite filter_In, Hwf. rewrite negb_true_iff. rewrite <- (w_mem_In x a Ha).
  destruct (w_mem x a); intuition congruence.
Qed.

Lemma wf_not a : wf_word (w_not a).
Proof.
  rewrite w_not_unfold. pose proof wf_full as [Fs Fw]. generalize dependent w_full. intros wf Fs Fw.
  split; [apply sorted_filter; exact Fs|]. apply Forall_forall. intros x Hx. apply filter_In in Hx.
  apply (small_In wf); [exact Fw|exact (proj1 Hx)].
Qed.

Lemma wf_g_and a b : wf_g a -> wf_g (g_and a b). Proof. intros Ha l i. apply wf_and. apply Ha. Qed.
Lemma wf_g_or a b : wf_g a -> wf_g b -> wf_g (g_or a b). Proof. intros Ha Hb l i. apply wf_or; [apply Ha|apply Hb]. Qed.
Lemma wf_g_not a : wf_g (g_not a). Proof. intros l i. destruct l; cbn [g_not]; [apply wf_not|apply wf_full]. Qed.
Lemma wf_g_xor a b : wf_g a -> wf_g b -> wf_g (g_xor a b).
Proof. intros Ha Hb. unfold g_xor. apply wf_g_and. apply wf_g_or; assumption. Qed.

(* a strictly ascending word of bits below 64 has at most 64 bits: the iterator's fuel bound applies *)
Lemma sorted_length_bound n : forall (w : word) lo, StronglySorted N.lt w -> Forall (fun y => lo <= y < n) w -> N.of_nat (length w) <= n - lo.
Proof.
  induction w as [|x r IH]; intros lo Hs Hb; cbn [length]; [lia|].
  apply StronglySorted_inv in Hs. destruct Hs as [Hs Hx]. inversion Hb as [|? ? Hx0 Hr]; subst.
  assert (Forall (fun y => x + 1 <= y < n) r) as Hr'.
  { rewrite Forall_forall in *. intros y Hy. specialize (Hx y Hy). specialize (Hr y Hy). lia. }
  specialize (IH (x + 1) Hs Hr'). lia.
Qed.

Lemma wf_word_length w : wf_word w -> (length w <= 64)%nat.
Proof.
  intros [Hs Hw]. assert (Forall (fun y => 0 <= y < 64) w) as H. { eapply Forall_impl; [|exact Hw]. cbn. intros; lia. }
  pose proof (sorted_length_bound 64 w 0 Hs H). lia.
Qed.

(* ------------------------------------------------------------------ *)
(* what a getter stands for *)

Definition reach (g : getter) (x : N) : Prop := under g 3 (g 3%nat 0) 0 x.
Definition bit0 (g : getter) (x : N) : Prop := In (x mod 64) (g 0%nat (x / 64)).
Definition top : N := 16777216.

(* [g] stands for the set [P]: its words are well formed; the iterator reaches exactly the indices of P; they are below
   2^24; and the bottom layer alone already tells membership *)
Record exact (g : getter) (P : N -> Prop) : Prop := {
  X_wf : wf_g g;
  X_reach : forall x, reach g x <-> P x;
  X_top : forall x, P x -> x < top;
  X_bit : forall x, x < top -> (bit0 g x <-> P x) }.

Lemma reach_unfold g x : reach g x <->
  In (x / 262144) (g 3%nat 0) /\ In ((x / 4096) mod 64) (g 2%nat (x / 262144)) /\
  In ((x / 64) mod 64) (g 1%nat (x / 4096)) /\ In (x mod 64) (g 0%nat (x / 64)).
Proof.
  unfold reach. cbn [under p64]. change (64 * (64 * (64 * 1))) with 262144. change (64 * (64 * 1)) with 4096. change (64 * 1) with 64.
  pose proof (dm64_sub x) as S0. pose proof (dm64_sub (x / 64)) as S1. pose proof (dm64_sub (x / 4096)) as S2.
  pose proof (dm64_le x) as T0. pose proof (dm64_le (x / 64)) as T1. pose proof (dm64_le (x / 4096)) as T2.
  rewrite <- div4096 in S1, T1. rewrite <- div262144 in S2, T2. rewrite S0, S1, S2, N.sub_0_r.
  pose proof (N.le_0_l (x / 262144)). tauto.
Qed.

Lemma top_digits x : x < top -> x / 262144 < 64.
Proof. intros H. apply N.div_lt_upper_bound; [lia|exact H]. Qed.

Theorem exact_bitset s : bs_inv s -> exact (bs_get s) (mem s).
Proof.
  intros I. split.
  - apply inv_wf_g. exact I.
  - intros x. apply bitset_path. exact I.
  - intros x Hm. pose proof (proj2 (bitset_path s x I) Hm) as R. apply reach_unfold in R. destruct R as [R3 _].
    cbn [bs_get N.eqb] in R3. pose proof (small_In _ _ (proj2 (V3 s I)) R3) as Hlt. unfold top.
    pose proof (N.div_mod' x 262144). pose proof (N.mod_lt x 262144 ltac:(lia)).
    generalize dependent (x / 262144). generalize dependent (x mod 262144). intros. lia.
  - intros x _. reflexivity.
Qed.

Theorem exact_and a b P Q : exact a P -> exact b Q -> exact (g_and a b) (fun x => P x /\ Q x).
Proof.
  intros A B. pose proof (X_wf _ _ B) as Wb. split.
  - apply wf_g_and. exact (X_wf _ _ A).
  - intros x. rewrite <- (X_reach _ _ A), <- (X_reach _ _ B), !reach_unfold. unfold g_and.
    rewrite !w_and_In by (apply (proj1 (Wb _ _))). tauto.
  - intros x [Hp _]. exact (X_top _ _ A x Hp).
  - intros x Hx. unfold bit0, g_and. rewrite w_and_In by (apply (proj1 (Wb _ _))).
    rewrite <- (X_bit _ _ A x Hx), <- (X_bit _ _ B x Hx). reflexivity.
Qed.

Theorem exact_or a b P Q : exact a P -> exact b Q -> exact (g_or a b) (fun x => P x \/ Q x).
Proof.
  intros A B. split.
  - apply wf_g_or; [exact (X_wf _ _ A)|exact (X_wf _ _ B)].
  - intros x. split.
    + intros R. apply reach_unfold in R. destruct R as [R3 [_ [_ R0]]]. unfold g_or in R3, R0. apply w_or_In in R3. apply w_or_In in R0.
      assert (x < top) as Hx.
      { assert (x / 262144 < 64) as D.
        { destruct R3 as [R3|R3]; [apply (small_In _ _ (proj2 (X_wf _ _ A 3%nat 0)) R3)|apply (small_In _ _ (proj2 (X_wf _ _ B 3%nat 0)) R3)]. }
        unfold top. pose proof (N.div_mod' x 262144). pose proof (N.mod_lt x 262144 ltac:(lia)).
        generalize dependent (x / 262144). generalize dependent (x mod 262144). intros. lia. }
      destruct R0 as [R0|R0]; [left; apply (X_bit _ _ A x Hx); exact R0|right; apply (X_bit _ _ B x Hx); exact R0].
    + intros H. apply reach_unfold. unfold g_or. rewrite !w_or_In.
      destruct H as [H|H]; [apply (X_reach _ _ A) in H|apply (X_reach _ _ B) in H]; apply reach_unfold in H; tauto.
  - intros x [H|H]; [exact (X_top _ _ A x H)|exact (X_top _ _ B x H)].
  - intros x Hx. unfold bit0, g_or. rewrite w_or_In. rewrite <- (X_bit _ _ A x Hx), <- (X_bit _ _ B x Hx). reflexivity.
Qed.

Theorem exact_not a P : exact a P -> exact (g_not a) (fun x => x < top /\ ~ P x).
Proof.
  intros A. pose proof (X_wf _ _ A) as Wa. split.
  - apply wf_g_not.
  - intros x. rewrite reach_unfold. cbn [g_not]. rewrite !w_full_In, (w_not_In _ _ (proj1 (Wa 0%nat (x / 64)))).
    split.
    + intros [D3 [_ [_ [_ Hn]]]].
      assert (x < top) as Hx.
      { unfold top. pose proof (N.div_mod' x 262144). pose proof (N.mod_lt x 262144 ltac:(lia)).
        generalize dependent (x / 262144). generalize dependent (x mod 262144). intros. lia. }
      split; [exact Hx|]. intros Hp. apply Hn. apply (X_bit _ _ A x Hx). exact Hp.
    + intros [Hx Hn]. split; [apply top_digits; exact Hx|]. split; [apply N.mod_lt; lia|]. split; [apply N.mod_lt; lia|].
      split; [apply N.mod_lt; lia|]. intros Hb. apply Hn. apply (X_bit _ _ A x Hx). exact Hb.
  - intros x [Hx _]. exact Hx.
  - intros x Hx. unfold bit0. cbn [g_not]. rewrite (w_not_In _ _ (proj1 (Wa 0%nat (x / 64)))).
    pose proof (N.mod_lt x 64 ltac:(lia)). change (In (x mod 64) (a 0%nat (x / 64))) with (bit0 a x). rewrite (X_bit _ _ A x Hx). tauto.
Qed.

Theorem exact_xor a b P Q : exact a P -> exact b Q -> exact (g_xor a b) (fun x => (P x \/ Q x) /\ (x < top /\ ~ (P x /\ Q x))).
Proof. intros A B. unfold g_xor. apply exact_and; [apply exact_or; assumption|apply exact_not; apply exact_and; assumption]. Qed.

(* ------------------------------------------------------------------ *)
(* iterating such a mask *)

Section Iterate.
  Variables (g : getter) (P : N -> Prop).
  Hypothesis X : exact g P.

  Let W := X_wf g P X.
  Let Wlen : forall l i, (length (g l i) <= 64)%nat := fun l i => wf_word_length _ (W l i).
  Let Wsorted : forall l i, sorted (g l i) := fun l i => proj1 (W l i).

  (* sequentially: the loop ends and has yielded exactly the members, ascending, each once *)
  Theorem iteration_exact :
    exists out, drain_iter g (S (weight (fresh g))) (fresh g) = Some out /\
                StronglySorted N.lt out /\ forall x, In x out <-> P x.
  Proof.
    exists (den g (fresh g)). split; [apply iteration_is_the_denotation; exact Wlen|].
    split; [apply fresh_sorted; exact W|]. intros x. rewrite (fresh_in g W). apply (X_reach g P X).
  Qed.

  (* whoever enumerates the same members in ascending order has the iterator's output *)
  Theorem iteration_is_any_sorted_enumeration keys : StronglySorted N.lt keys -> (forall x, In x keys <-> P x) ->
    drain_iter g (S (weight (fresh g))) (fresh g) = Some keys.
  Proof.
    intros Hs Hk. destruct iteration_exact as [out [E [So Io]]]. rewrite E. apply (f_equal (@Some (list N))).
    apply sorted_ext; [exact So|exact Hs|]. intros x. rewrite Io, Hk. reflexivity.
  Qed.

  (* cut up by any tree of BitProducer::split: every leaf's loop ends, and the leaves' outputs, one after the other, are
     the sequential output: every member is yielded by exactly one leaf, exactly once *)
  Theorem split_tree_exact t :
    exists outs, Forall2 (fun it o => drain_iter g (S (weight it)) it = Some o) (leaves g average_ones (fresh g) t) outs /\
                 concat outs = den g (fresh g) /\
                 StronglySorted N.lt (concat outs) /\ forall x, In x (concat outs) <-> P x.
  Proof.
    destruct (leaves_partition g average_ones average_ones_none Wsorted t (fresh g) (fresh_top_only g Wsorted)) as [D _].
    exists (map (den g) (leaves g average_ones (fresh g) t)). split; [|split; [|split]].
    - clear D. induction (leaves g average_ones (fresh g) t) as [|it r IH]; cbn [map]; [constructor|].
      constructor; [apply iteration_is_the_denotation; exact Wlen|exact IH].
    - rewrite <- flat_map_concat_map. exact D.
    - rewrite <- flat_map_concat_map, D. apply fresh_sorted. exact W.
    - intros x. rewrite <- flat_map_concat_map, D, (fresh_in g W). apply (X_reach g P X).
  Qed.
End Iterate.
