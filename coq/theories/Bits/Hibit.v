(* The hierarchical bit set the masks of all storages and joins are made of
   (crate hibitset 0.6.4: BitSet, BitSetLike, BitIter, BitProducer), as far as
   specs relies on it: four layers of 64-bit words, the sequential iterator
   that descends through them, and the splitting of an iterator that par_join
   hands to rayon.  A word is modelled by the ascending list of its set bit
   positions (trailing_zeros = head, clearing the lowest bit = tail, masking
   below / from a bit = filter); `prefix | bit` and `idx << BITS` are written
   `prefix + bit` and `idx * 64` (prefixes are multiples of 64).
   Definitions only. *)
From Coq Require Import List NArith Bool.
From SV Require Import Base.Ids.
Import ListNotations.
Local Open Scope N_scope.

Definition word := list N.

(* BitSetLike::get_from_layer *)
Definition getter := nat -> N -> word.

(* BitIter: masks[0..3], prefix[0..2] *)
Record biter := { k0 : word; k1 : word; k2 : word; k3 : word; q0 : N; q1 : N; q2 : N }.

Definition mask (it : biter) (l : nat) : word :=
  match l with 0%nat => k0 it | 1%nat => k1 it | 2%nat => k2 it | _ => k3 it end.
Definition set_mask (it : biter) (l : nat) (w : word) : biter :=
  match l with
  | 0%nat => {| k0 := w; k1 := k1 it; k2 := k2 it; k3 := k3 it; q0 := q0 it; q1 := q1 it; q2 := q2 it |}
  | 1%nat => {| k0 := k0 it; k1 := w; k2 := k2 it; k3 := k3 it; q0 := q0 it; q1 := q1 it; q2 := q2 it |}
  | 2%nat => {| k0 := k0 it; k1 := k1 it; k2 := w; k3 := k3 it; q0 := q0 it; q1 := q1 it; q2 := q2 it |}
  | _ => {| k0 := k0 it; k1 := k1 it; k2 := k2 it; k3 := w; q0 := q0 it; q1 := q1 it; q2 := q2 it |}
  end.
(* self.prefix.get(level).cloned().unwrap_or(0) *)
Definition pref (it : biter) (l : nat) : N :=
  match l with 0%nat => q0 it | 1%nat => q1 it | 2%nat => q2 it | _ => 0 end.
Definition set_pref (it : biter) (l : nat) (p : N) : biter :=
  match l with
  | 0%nat => {| k0 := k0 it; k1 := k1 it; k2 := k2 it; k3 := k3 it; q0 := p; q1 := q1 it; q2 := q2 it |}
  | 1%nat => {| k0 := k0 it; k1 := k1 it; k2 := k2 it; k3 := k3 it; q0 := q0 it; q1 := p; q2 := q2 it |}
  | 2%nat => {| k0 := k0 it; k1 := k1 it; k2 := k2 it; k3 := k3 it; q0 := q0 it; q1 := q1 it; q2 := p |}
  | _ => it
  end.

(* BitSetLike::iter *)
Definition fresh (g : getter) : biter :=
  {| k0 := []; k1 := []; k2 := []; k3 := g 3%nat 0; q0 := 0; q1 := 0; q2 := 0 |}.

Inductive hstate := HEmpty | HContinue | HValue (i : N).

(* BitIter::handle_level *)
Definition handle_level (g : getter) (it : biter) (l : nat) : hstate * biter :=
  match mask it l with
  | [] => (HEmpty, it)
  | b :: rest =>
      let it1 := set_mask it l rest in
      let idx := pref it l + b in
      match l with
      | 0%nat => (HValue idx, it1)
      | S l' => (HContinue, set_pref (set_mask it1 l' (g l' idx)) l' (idx * 64))
      end
  end.

(* one round of the `for level in 0..LAYERS` loop of BitIter::next *)
Fixpoint scan_levels (g : getter) (it : biter) (ls : list nat) : hstate * biter :=
  match ls with
  | [] => (HEmpty, it)
  | l :: r => match handle_level g it l with (HEmpty, _) => scan_levels g it r | x => x end
  end.
Definition scan (g : getter) (it : biter) : hstate * biter := scan_levels g it [0; 1; 2; 3]%nat.

(* BitIter::next: the 'find loop, on fuel; None = out of fuel *)
Fixpoint next (g : getter) (fuel : nat) (it : biter) : option (option N * biter) :=
  match fuel with
  | O => None
  | S f =>
      match scan g it with
      | (HValue v, it') => Some (Some v, it')
      | (HContinue, it') => next g f it'
      | (HEmpty, it') => Some (None, it')
      end
  end.

(* everything the iterator yields, to the end *)
Fixpoint drain_iter (g : getter) (fuel : nat) (it : biter) : option (list N) :=
  match fuel with
  | O => None
  | S f =>
      match scan g it with
      | (HValue v, it') => match drain_iter g f it' with Some r => Some (v :: r) | None => None end
      | (HContinue, it') => drain_iter g f it'
      | (HEmpty, _) => Some []
      end
  end.

(* enough fuel for any iterator whose words have at most 64 bits *)
Definition weight (it : biter) : nat :=
  (length (k0 it) + 65 * (length (k1 it) + 65 * (length (k2 it) + 65 * length (k3 it))))%nat.

(* ------------------------------------------------------------------ *)
(* what an iterator state stands for *)

Fixpoint sub (g : getter) (l : nat) (w : word) (pre : N) : list N :=
  match l with
  | O => map (N.add pre) w
  | S l' => flat_map (fun b => sub g l' (g l' (pre + b)) ((pre + b) * 64)) w
  end.

Definition den (g : getter) (it : biter) : list N :=
  sub g 0 (k0 it) (q0 it) ++ sub g 1 (k1 it) (q1 it) ++ sub g 2 (k2 it) (q2 it) ++ sub g 3 (k3 it) 0.

(* ------------------------------------------------------------------ *)
(* BitProducer::split (rayon's UnindexedProducer), with `splits` = 3 as par_join sets it *)

(* util::average_ones: the bit position that leaves the upper half (rounded down) of the set bits at or above it *)
Definition average_ones (w : word) : option N :=
  match w with
  | [] | [_] => None
  | _ => Some (nth (length w - length w / 2) w 0)
  end.

Definition empty_iter : biter := {| k0 := []; k1 := []; k2 := []; k3 := []; q0 := 0; q1 := 0; q2 := 0 |}.

(* the closure handle_level of split, for level = S l' (levels 3, 2, 1) *)
Definition split_level (g : getter) (avg : word -> option N) (it : biter) (l' : nat) : biter * option biter :=
  let l := S l' in
  match mask it l with
  | [] => (it, None)
  | b :: _ =>
      let w := mask it l in
      let level_prefix := pref it l in
      match avg w with
      | Some a =>
          let other0 := set_mask empty_iter l (filter (fun x => a <=? x) w) in
          let other1 := set_pref other0 l' ((level_prefix + a) * 64) in
          (* other.prefix[level..] = self.prefix[level..] *)
          let other2 := set_pref (set_pref (set_pref other1 2 (if Nat.leb l 2 then q2 it else q2 other1))
                                           1 (if Nat.leb l 1 then q1 it else q1 other1)) 0 (q0 other1) in
          let self1 := set_mask it l (filter (fun x => x <? a) w) in
          (set_pref self1 l' ((level_prefix + b) * 64), Some other2)
      | None =>
          let idx := level_prefix + b in
          let self1 := set_pref it l' (idx * 64) in
          (set_mask (set_mask self1 l []) l' (g l' idx), None)
      end
  end.

Definition split (g : getter) (avg : word -> option N) (it : biter) : biter * option biter :=
  match split_level g avg it 2 with
  | (it3, Some o) => (it3, Some o)
  | (it3, None) =>
      match split_level g avg it3 1 with
      | (it2, Some o) => (it2, Some o)
      | (it2, None) => split_level g avg it2 0
      end
  end.

(* any way rayon may split: a binary tree of split decisions (a node whose producer refuses to split is a leaf) *)
Inductive stree := SLeaf | SNode (l r : stree).

Fixpoint leaves (g : getter) (avg : word -> option N) (it : biter) (t : stree) : list biter :=
  match t with
  | SLeaf => [it]
  | SNode l r =>
      match split g avg it with
      | (a, Some b) => leaves g avg a l ++ leaves g avg b r
      | (a, None) => [a]
      end
  end.

(* ------------------------------------------------------------------ *)
(* BitSet: the four layers, add / remove / contains *)

Record bitset := { b0 : NM.t word; b1 : NM.t word; b2 : NM.t word; b3 : word }.
Definition bs_empty : bitset := {| b0 := NM.empty word; b1 := NM.empty word; b2 := NM.empty word; b3 := [] |}.

Definition wget (m : NM.t word) (i : N) : word := match NM.find i m with Some w => w | None => [] end.

Definition bs_get (s : bitset) : getter := fun l idx =>
  match l with
  | 0%nat => wget (b0 s) idx
  | 1%nat => wget (b1 s) idx
  | 2%nat => wget (b2 s) idx
  | _ => if N.eqb idx 0 then b3 s else []
  end.

Fixpoint w_mem (b : N) (w : word) : bool :=
  match w with [] => false | x :: r => if b =? x then true else if b <? x then false else w_mem b r end.
Fixpoint w_add (b : N) (w : word) : word :=
  match w with
  | [] => [b]
  | x :: r => if b =? x then w else if b <? x then b :: w else x :: w_add b r
  end.
Fixpoint w_rem (b : N) (w : word) : word :=
  match w with
  | [] => []
  | x :: r => if b =? x then r else if b <? x then w else x :: w_rem b r
  end.

(* util::Row *)
Definition row (i : N) (shift : N) : N := N.modulo (N.shiftr i shift) 64.
Definition offset (i : N) (shift : N) : N := N.shiftr i shift.

Definition bs_contains (s : bitset) (i : N) : bool := w_mem (row i 0) (wget (b0 s) (offset i 6)).

Definition bs_add (s : bitset) (i : N) : bitset :=
  let p0 := offset i 6 in
  let old := wget (b0 s) p0 in
  if w_mem (row i 0) old then s
  else
    let l0 := NM.add p0 (w_add (row i 0) old) (b0 s) in
    match old with
    | _ :: _ => {| b0 := l0; b1 := b1 s; b2 := b2 s; b3 := b3 s |}
    | [] =>   (* add_slow *)
        {| b0 := l0;
           b1 := NM.add (offset i 12) (w_add (row i 6) (wget (b1 s) (offset i 12))) (b1 s);
           b2 := NM.add (offset i 18) (w_add (row i 12) (wget (b2 s) (offset i 18))) (b2 s);
           b3 := w_add (row i 18) (b3 s) |}
    end.

Definition bs_remove (s : bitset) (i : N) : bitset :=
  let p0 := offset i 6 in let p1 := offset i 12 in let p2 := offset i 18 in
  if negb (w_mem (row i 0) (wget (b0 s) p0)) then s
  else
    let w0 := w_rem (row i 0) (wget (b0 s) p0) in
    let l0 := NM.add p0 w0 (b0 s) in
    match w0 with
    | _ :: _ => {| b0 := l0; b1 := b1 s; b2 := b2 s; b3 := b3 s |}
    | [] =>
        let w1 := w_rem (row i 6) (wget (b1 s) p1) in
        let l1 := NM.add p1 w1 (b1 s) in
        match w1 with
        | _ :: _ => {| b0 := l0; b1 := l1; b2 := b2 s; b3 := b3 s |}
        | [] =>
            let w2 := w_rem (row i 12) (wget (b2 s) p2) in
            let l2 := NM.add p2 w2 (b2 s) in
            match w2 with
            | _ :: _ => {| b0 := l0; b1 := l1; b2 := l2; b3 := b3 s |}
            | [] => {| b0 := l0; b1 := l1; b2 := l2; b3 := w_rem (row i 18) (b3 s) |}
            end
        end
    end.

(* the combinators joins build their masks from (ops.rs): the layers of `a & b`, `a | b`, `a ^ b`, `!a` *)
Definition w_and (a b : word) : word := filter (fun x => w_mem x b) a.
Definition w_or (a b : word) : word := fold_right w_add a b.
Definition w_full : word := map N.of_nat (seq 0 64).
Definition w_not (a : word) : word := filter (fun x => negb (w_mem x a)) w_full.

Definition g_and (a b : getter) : getter := fun l i => w_and (a l i) (b l i).
Definition g_or (a b : getter) : getter := fun l i => w_or (a l i) (b l i).
(* BitSetNot: every upper layer is all ones, layer 0 is the complement *)
Definition g_not (a : getter) : getter := fun l i => match l with 0%nat => w_not (a 0%nat i) | _ => w_full end.
(* BitSetXor: literally BitSetAnd(BitSetOr(a, b), BitSetNot(BitSetAnd(a, b))) *)
Definition g_xor (a b : getter) : getter := g_and (g_or a b) (g_not (g_and a b)).
