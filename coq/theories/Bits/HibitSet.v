(* BitSet: add and remove keep the four layers consistent (a bit of an upper
   layer is set exactly when the word below it is not empty), so iterating a
   BitSet yields exactly its members, in ascending order. *)
From Coq Require Import List NArith Bool Lia Sorting.Sorted.
From SV Require Import Base.Ids Bits.Hibit Bits.HibitIter Bits.HibitOrder.
Import ListNotations.
Local Open Scope N_scope.

(* ------------------------------------------------------------------ *)
(* words *)

Lemma w_mem_In b : forall w, sorted w -> (w_mem b w = true <-> In b w).
Proof.
  induction w as [|x r IH]; intros Hs; cbn [w_mem In]; [split; [discriminate|intros []]|].
  apply StronglySorted_inv in Hs. destruct Hs as [Hs Hx]. rewrite Forall_forall in Hx.
  destruct (N.eqb_spec b x) as [->|Hne]; [split; [left; reflexivity|reflexivity]|].
  destruct (N.ltb_spec b x) as [Hlt|Hge].
  - split; [discriminate|]. intros [E|Hin]; [congruence|]. specialize (Hx _ Hin). lia.
  - rewrite (IH Hs). split; [right; assumption|]. intros [E|Hin]; [congruence|exact Hin].
Qed.

Lemma w_add_In b x : forall w, In x (w_add b w) <-> x = b \/ In x w.
Proof.
  induction w as [|y r IH]; cbn [w_add In]; [intuition congruence|].
  destruct (N.eqb_spec b y) as [->|Hne]; [cbn [In]; intuition congruence|].
  destruct (N.ltb_spec b y); cbn [In]; [intuition congruence|]. rewrite IH. intuition congruence.
Qed.

Lemma w_add_sorted b : forall w, sorted w -> sorted (w_add b w).
Proof.
  induction w as [|y r IH]; intros Hs; cbn [w_add]; [constructor; constructor|].
  destruct (N.eqb_spec b y) as [->|Hne]; [exact Hs|].
  destruct (N.ltb_spec b y) as [Hlt|Hge].
  - constructor; [exact Hs|]. apply StronglySorted_inv in Hs. destruct Hs as [_ Hy]. constructor; [exact Hlt|].
    eapply Forall_impl; [|exact Hy]. cbn. intros z Hz. lia.
  - apply StronglySorted_inv in Hs. destruct Hs as [Hs Hy]. constructor; [apply IH; exact Hs|].
    apply Forall_forall. intros z Hz. apply w_add_In in Hz. rewrite Forall_forall in Hy. destruct Hz as [->|Hz]; [lia|apply Hy; exact Hz].
Qed.

Lemma w_add_nonempty b w : w_add b w <> [].
Proof. destruct w as [|y r]; cbn [w_add]; [discriminate|]. destruct (b =? y); [discriminate|]. destruct (b <? y); discriminate. Qed.

Lemma w_rem_In b x : forall w, sorted w -> (In x (w_rem b w) <-> x <> b /\ In x w).
Proof.
  induction w as [|y r IH]; intros Hs; cbn [w_rem In]; [intuition|].
  apply StronglySorted_inv in Hs. destruct Hs as [Hs Hy]. rewrite Forall_forall in Hy.
  destruct (N.eqb_spec b y) as [->|Hne].
  - split; [intros H; split; [specialize (Hy _ H); lia|right; exact H]|intros [Hn [E|H]]; [congruence|exact H]].
  - destruct (N.ltb_spec b y) as [Hlt|Hge]; cbn [In].
    + split; [|intros [_ H]; exact H]. intros [E|H]; (split; [|auto]); [lia|specialize (Hy _ H); lia].
    + rewrite (IH Hs). intuition congruence.
Qed.

Lemma w_rem_sorted b : forall w, sorted w -> sorted (w_rem b w).
Proof.
  induction w as [|y r IH]; intros Hs; cbn [w_rem]; [constructor|].
  pose proof Hs as Hs0. apply StronglySorted_inv in Hs. destruct Hs as [Hs Hy].
  destruct (b =? y); [exact Hs|]. destruct (b <? y); [exact Hs0|].
  constructor; [apply IH; exact Hs|]. apply Forall_forall. intros z Hz. apply (w_rem_In b z r Hs) in Hz. rewrite Forall_forall in Hy. apply Hy. exact (proj2 Hz).
Qed.

Lemma wf_add b w : b < 64 -> wf_word w -> wf_word (w_add b w).
Proof.
  intros Hb [Hs Hw]. split; [apply w_add_sorted; exact Hs|]. apply Forall_forall. intros x Hx. apply w_add_In in Hx.
  unfold small in Hw. rewrite Forall_forall in Hw. destruct Hx as [->|Hx]; [exact Hb|apply Hw; exact Hx].
Qed.

Lemma wf_rem b w : wf_word w -> wf_word (w_rem b w).
Proof.
  intros [Hs Hw]. split; [apply w_rem_sorted; exact Hs|]. apply Forall_forall. intros x Hx. apply (w_rem_In b x w Hs) in Hx.
  unfold small in Hw. rewrite Forall_forall in Hw. apply Hw. exact (proj2 Hx).
Qed.

Lemma wf_nil : wf_word []. Proof. split; constructor. Qed.

(* ------------------------------------------------------------------ *)
(* the position of an index in the layers *)

Lemma off6 i : offset i 6 = i / 64. Proof. unfold offset. rewrite N.shiftr_div_pow2. reflexivity. Qed.
Lemma off12 i : offset i 12 = i / 4096. Proof. unfold offset. rewrite N.shiftr_div_pow2. reflexivity. Qed.
Lemma off18 i : offset i 18 = i / 262144. Proof. unfold offset. rewrite N.shiftr_div_pow2. reflexivity. Qed.
Lemma row0 i : row i 0 = i mod 64. Proof. unfold row. rewrite N.shiftr_0_r. reflexivity. Qed.
Lemma row6 i : row i 6 = (i / 64) mod 64. Proof. unfold row. rewrite N.shiftr_div_pow2. reflexivity. Qed.
Lemma row12 i : row i 12 = (i / 4096) mod 64. Proof. unfold row. rewrite N.shiftr_div_pow2. reflexivity. Qed.
Lemma row18 i : row i 18 = (i / 262144) mod 64. Proof. unfold row. rewrite N.shiftr_div_pow2. reflexivity. Qed.

Lemma row_lt i sh : row i sh < 64. Proof. unfold row. apply N.mod_lt. discriminate. Qed.

Lemma dm64 a : a = (a / 64) * 64 + a mod 64. Proof. rewrite N.mul_comm. apply N.div_mod. discriminate. Qed.
Lemma dm64_sub a : a - a / 64 * 64 = a mod 64.
Proof. pose proof (dm64 a) as D. generalize dependent (a / 64). generalize dependent (a mod 64). intros. lia. Qed.
Lemma dm64_le a : a / 64 * 64 <= a.
Proof. pose proof (dm64 a) as D. generalize dependent (a / 64). generalize dependent (a mod 64). intros. lia. Qed.
Lemma div4096 i : i / 4096 = i / 64 / 64. Proof. rewrite N.div_div by discriminate. reflexivity. Qed.
Lemma div262144 i : i / 262144 = i / 4096 / 64. Proof. rewrite N.div_div by discriminate. reflexivity. Qed.

Lemma pos64_unique q r q' r' : r < 64 -> r' < 64 -> q * 64 + r = q' * 64 + r' -> q = q' /\ r = r'.
Proof. intros. split; nia. Qed.

(* ------------------------------------------------------------------ *)
(* the link between two neighbouring layers *)

Definition lfun := N -> word.
Definition upd (f : lfun) (k : N) (w : word) : lfun := fun j => if N.eq_dec k j then w else f j.
Definition link (up down : lfun) : Prop := forall idx b, b < 64 -> (In b (up idx) <-> down (idx * 64 + b) <> []).
Definition feq (f h : lfun) : Prop := forall j, f j = h j.

Lemma link_ext up down up' down' : feq up' up -> feq down' down -> link up down -> link up' down'.
Proof. intros E1 E2 L idx b Hb. rewrite E1, E2. apply L. exact Hb. Qed.

Lemma link_set_nonempty up down q r wu wd : link up down -> r < 64 -> wd <> [] ->
  (forall x, In x wu <-> x = r \/ In x (up q)) -> link (upd up q wu) (upd down (q * 64 + r) wd).
Proof.
  intros L Hr Hwd Hwu idx b Hb. unfold upd.
  destruct (N.eq_dec q idx) as [<-|Hq].
  - rewrite Hwu. destruct (N.eq_dec (q * 64 + r) (q * 64 + b)) as [E|Hne].
    + assert (b = r) by lia. subst b. split; [intros _; exact Hwd|intros _; left; reflexivity].
    + rewrite <- (L q b Hb). split; [intros [E|H]; [subst b; contradiction|exact H]|intros H; right; exact H].
  - destruct (N.eq_dec (q * 64 + r) (idx * 64 + b)) as [E|Hne]; [destruct (pos64_unique _ _ _ _ Hr Hb E); contradiction|]. apply L. exact Hb.
Qed.

Lemma link_set_empty up down q r wu : link up down -> r < 64 ->
  (forall x, In x wu <-> x <> r /\ In x (up q)) -> link (upd up q wu) (upd down (q * 64 + r) []).
Proof.
  intros L Hr Hwu idx b Hb. unfold upd.
  destruct (N.eq_dec q idx) as [<-|Hq].
  - rewrite Hwu. destruct (N.eq_dec (q * 64 + r) (q * 64 + b)) as [E|Hne].
    + assert (b = r) by lia. subst b. split; [intros [Hn _]; contradiction|intros H; contradiction].
    + rewrite <- (L q b Hb). split; [intros [_ H]; exact H|intros H; split; [intros ->; apply Hne; reflexivity|exact H]].
  - destruct (N.eq_dec (q * 64 + r) (idx * 64 + b)) as [E|Hne]; [destruct (pos64_unique _ _ _ _ Hr Hb E); contradiction|]. apply L. exact Hb.
Qed.

Lemma link_keep_nonempty up down p wd : link up down -> down p <> [] -> wd <> [] -> link up (upd down p wd).
Proof.
  intros L Hd Hwd idx b Hb. unfold upd. destruct (N.eq_dec p (idx * 64 + b)) as [E|Hne]; [|apply L; exact Hb].
  rewrite (L idx b Hb), <- E. split; intros _; assumption.
Qed.

(* ------------------------------------------------------------------ *)
(* the invariant of BitSet *)

Definition f0 (s : bitset) : lfun := wget (b0 s).
Definition f1 (s : bitset) : lfun := wget (b1 s).
Definition f2 (s : bitset) : lfun := wget (b2 s).
Definition f3 (s : bitset) : lfun := fun idx => if N.eqb idx 0 then b3 s else [].

Record bs_inv (s : bitset) : Prop := {
  V0 : forall i, wf_word (f0 s i);
  V1 : forall i, wf_word (f1 s i);
  V2 : forall i, wf_word (f2 s i);
  V3 : wf_word (b3 s);
  K01 : link (f1 s) (f0 s);
  K12 : link (f2 s) (f1 s);
  K23 : link (f3 s) (f2 s) }.

Lemma wget_add m k w : feq (wget (NM.add k w m)) (upd (wget m) k w).
Proof. intros j. unfold wget, upd. rewrite find_add. destruct (N.eq_dec k j); reflexivity. Qed.

Lemma wget_empty j : wget (NM.empty word) j = []. Proof. unfold wget. rewrite find_empty. reflexivity. Qed.

Lemma inv_empty : bs_inv bs_empty.
Proof.
  assert (forall up, (forall j, up j = []) -> link up (wget (NM.empty word))) as L.
  { intros up Hu idx b Hb. rewrite Hu, wget_empty. split; [intros []|intros H; exfalso; apply H; reflexivity]. }
  split.
  - intros i. unfold f0. cbn [bs_empty b0]. rewrite wget_empty. apply wf_nil.
  - intros i. unfold f1. cbn [bs_empty b1]. rewrite wget_empty. apply wf_nil.
  - intros i. unfold f2. cbn [bs_empty b2]. rewrite wget_empty. apply wf_nil.
  - apply wf_nil.
  - apply L. intros j. apply wget_empty.
  - apply L. intros j. apply wget_empty.
  - apply L. intros j. unfold f3. cbn [bs_empty b3]. destruct (j =? 0); reflexivity.
Qed.

Lemma inv_wf_g s : bs_inv s -> wf_g (bs_get s).
Proof.
  intros I l i. destruct l as [|[|[|l]]]; cbn [bs_get]; [apply (V0 s I)|apply (V1 s I)|apply (V2 s I)|].
  destruct (i =? 0); [apply (V3 s I)|apply wf_nil].
Qed.

(* the second layer has 64 words *)
Lemma inv_range s idx : bs_inv s -> 64 <= idx -> f2 s idx = [].
Proof.
  intros I Hi. destruct (f2 s idx) as [|x r] eqn:E; [reflexivity|]. exfalso.
  pose proof (K23 s I (idx / 64) (idx mod 64) (N.mod_lt idx 64 ltac:(lia))) as L. rewrite <- dm64 in L.
  assert (In (idx mod 64) (f3 s (idx / 64))) as Hin by (apply L; rewrite E; discriminate).
  unfold f3 in Hin. assert (idx / 64 <> 0) as Hn. { intros E0. pose proof (dm64 idx). pose proof (N.mod_lt idx 64 ltac:(lia)). lia. }
  apply N.eqb_neq in Hn. rewrite Hn in Hin. destruct Hin.
Qed.

Definition mem (s : bitset) (i : N) : Prop := In (i mod 64) (f0 s (i / 64)).

Lemma contains_mem s i : bs_inv s -> (bs_contains s i = true <-> mem s i).
Proof. intros I. unfold bs_contains, mem. rewrite row0, off6. apply w_mem_In. exact (proj1 (V0 s I _)). Qed.

(* ------------------------------------------------------------------ *)
(* add *)

Section Add.
  Variables (s : bitset) (i : N).
  Hypothesis I : bs_inv s.
  Hypothesis Hi : i < 16777216.
  Let p0 := i / 64.
  Let p1 := i / 4096.
  Let p2 := i / 262144.
  Let r0 := i mod 64.
  Let r1 := (i / 64) mod 64.
  Let r2 := (i / 4096) mod 64.

  Lemma p0_split : p0 = p1 * 64 + r1. Proof. unfold p0, p1, r1. rewrite div4096. apply dm64. Qed.
  Lemma p1_split : p1 = p2 * 64 + r2. Proof. unfold p1, p2, r2. rewrite div262144. apply dm64. Qed.
  Lemma p2_small : p2 < 64. Proof. unfold p2. apply N.div_lt_upper_bound; [discriminate|exact Hi]. Qed.
  Lemma r3_p2 : (i / 262144) mod 64 = p2. Proof. apply N.mod_small. exact p2_small. Qed.

  Lemma add_shape :
    (mem s i /\ bs_add s i = s) \/
    (~ mem s i /\ f0 s p0 <> [] /\ feq (f0 (bs_add s i)) (upd (f0 s) p0 (w_add r0 (f0 s p0))) /\
       b1 (bs_add s i) = b1 s /\ b2 (bs_add s i) = b2 s /\ b3 (bs_add s i) = b3 s) \/
    (~ mem s i /\ f0 s p0 = [] /\ feq (f0 (bs_add s i)) (upd (f0 s) p0 [r0]) /\
       feq (f1 (bs_add s i)) (upd (f1 s) p1 (w_add r1 (f1 s p1))) /\
       feq (f2 (bs_add s i)) (upd (f2 s) p2 (w_add r2 (f2 s p2))) /\
       b3 (bs_add s i) = w_add p2 (b3 s)).
  Proof.
    unfold bs_add. rewrite row0, row6, row12, row18, off6, off12, off18, r3_p2. fold p0 p1 p2 r0 r1 r2.
    pose proof (contains_mem s i I) as Hc. unfold bs_contains in Hc. rewrite row0, off6 in Hc. fold p0 r0 in Hc.
    destruct (w_mem r0 (wget (b0 s) p0)) eqn:Em.
    - left. split; [apply Hc; reflexivity|reflexivity].
    - right. assert (~ mem s i) as Hn by (intros H; apply Hc in H; congruence).
      destruct (wget (b0 s) p0) as [|x r] eqn:Eo.
      + right. split; [exact Hn|]. split; [exact Eo|]. unfold f0, f1, f2. cbn [b0 b1 b2 b3].
        split; [apply wget_add|]. split; [apply wget_add|]. split; [apply wget_add|reflexivity].
      + left. split; [exact Hn|]. unfold f0. rewrite Eo. split; [discriminate|]. cbn [b0 b1 b2 b3].
        split; [apply wget_add|]. repeat split; reflexivity.
  Qed.

  Lemma f3_add w : feq (fun idx => if idx =? 0 then w_add p2 w else []) (upd (fun idx => if idx =? 0 then w else []) 0 (w_add p2 w)).
  Proof. intros j. unfold upd. destruct (N.eq_dec 0 j) as [<-|Hn]; [reflexivity|]. destruct (N.eqb_spec j 0); [congruence|reflexivity]. Qed.

  Theorem add_inv : bs_inv (bs_add s i).
  Proof.
    pose proof p0_split as E0. pose proof p1_split as E1. pose proof p2_small as H2.
    assert (r0 < 64) as Hr0 by (apply N.mod_lt; discriminate).
    assert (r1 < 64) as Hr1 by (apply N.mod_lt; discriminate).
    assert (r2 < 64) as Hr2 by (apply N.mod_lt; discriminate).
    destruct add_shape as [[_ ->]|[[Hn [Hne [F0 [B1 [B2 B3]]]]]|[Hn [He [F0 [F1 [F2 B3]]]]]]]; [exact I| |].
    - (* the word was not empty: only the bottom layer changes *)
      assert (feq (f1 (bs_add s i)) (f1 s)) as F1 by (intros j; unfold f1; rewrite B1; reflexivity).
      assert (feq (f2 (bs_add s i)) (f2 s)) as F2 by (intros j; unfold f2; rewrite B2; reflexivity).
      assert (feq (f3 (bs_add s i)) (f3 s)) as F3 by (intros j; unfold f3; rewrite B3; reflexivity).
      split.
      + intros j. rewrite F0. unfold upd. destruct (N.eq_dec p0 j); [apply wf_add; [exact Hr0|apply (V0 s I)]|apply (V0 s I)].
      + intros j. rewrite F1. apply (V1 s I).
      + intros j. rewrite F2. apply (V2 s I).
      + rewrite B3. apply (V3 s I).
      + eapply link_ext; [exact F1|exact F0|]. apply link_keep_nonempty; [apply (K01 s I)|exact Hne|apply w_add_nonempty].
      + eapply link_ext; [exact F2|exact F1|]. apply (K12 s I).
      + eapply link_ext; [exact F3|exact F2|]. apply (K23 s I).
    - (* the word was empty: a bit is set in every layer above *)
      assert (feq (f3 (bs_add s i)) (upd (f3 s) 0 (w_add p2 (f3 s 0)))) as F3.
      { intros j. unfold f3. rewrite B3. cbn [N.eqb]. apply (f3_add (b3 s)). }
      split.
      + intros j. rewrite F0. unfold upd. destruct (N.eq_dec p0 j); [|apply (V0 s I)]. split; [repeat constructor|repeat constructor; exact Hr0].
      + intros j. rewrite F1. unfold upd. destruct (N.eq_dec p1 j); [apply wf_add; [exact Hr1|apply (V1 s I)]|apply (V1 s I)].
      + intros j. rewrite F2. unfold upd. destruct (N.eq_dec p2 j); [apply wf_add; [exact Hr2|apply (V2 s I)]|apply (V2 s I)].
      + rewrite B3. apply wf_add; [exact H2|apply (V3 s I)].
      + eapply link_ext; [exact F1|exact F0|]. rewrite E0. apply link_set_nonempty; [apply (K01 s I)|exact Hr1|discriminate|]. intros x. apply w_add_In.
      + eapply link_ext; [exact F2|exact F1|]. rewrite E1. apply link_set_nonempty; [apply (K12 s I)|exact Hr2|apply w_add_nonempty|]. intros x. apply w_add_In.
      + eapply link_ext; [exact F3|exact F2|]. replace p2 with (0 * 64 + p2) at 2 by lia.
        apply link_set_nonempty; [apply (K23 s I)|exact H2|apply w_add_nonempty|]. intros x. apply w_add_In.
  Qed.

  Theorem add_mem j : mem (bs_add s i) j <-> j = i \/ mem s j.
  Proof.
    assert (forall w, In (j mod 64) (upd (f0 s) p0 w (j / 64)) <-> (j / 64 = p0 /\ In (j mod 64) w) \/ (j / 64 <> p0 /\ mem s j)) as U.
    { intros w. unfold upd, mem. destruct (N.eq_dec p0 (j / 64)) as [E|Hne]; [split; [intros H; left; split; [congruence|exact H]|intros [[_ H]|[Hn _]]; [exact H|congruence]]|].
      split; [intros H; right; split; [congruence|exact H]|intros [[E _]|[_ H]]; [congruence|exact H]]. }
    assert (j = i <-> j / 64 = p0 /\ j mod 64 = r0) as Ji.
    { unfold p0, r0. split; [intros ->; split; reflexivity|intros [A B]; rewrite (dm64 j), (dm64 i), A, B; reflexivity]. }
    destruct add_shape as [[Hm ->]|[[Hn [Hne [F0 _]]]|[Hn [He [F0 _]]]]].
    - split; [intros H; right; exact H|intros [->|H]; assumption].
    - unfold mem at 1. rewrite F0, U, w_add_In. unfold mem at 1. rewrite Ji. fold p0 r0.
      split; [intros [[A [B|B]]|[A B]]; [left; split; assumption|right; unfold mem; rewrite A; exact B|right; exact B]|].
      intros [[A B]|H]; [left; split; [exact A|left; exact B]|].
      destruct (N.eq_dec (j / 64) p0) as [A|A]; [left; split; [exact A|right; unfold mem in H; rewrite A in H; exact H]|right; split; assumption].
    - unfold mem at 1. rewrite F0, U. cbn [In]. rewrite Ji.
      split; [intros [[A [B|[]]]|[A B]]; [left; split; [exact A|symmetry; exact B]|right; exact B]|].
      intros [[A B]|H]; [left; split; [exact A|left; symmetry; exact B]|].
      destruct (N.eq_dec (j / 64) p0) as [A|A]; [exfalso; unfold mem in H; rewrite A, He in H; destruct H|right; split; assumption].
  Qed.
End Add.

(* ------------------------------------------------------------------ *)
(* remove *)

Section Remove.
  Variables (s : bitset) (i : N).
  Hypothesis I : bs_inv s.
  Hypothesis Hi : i < 16777216.
  Let p0 := i / 64.
  Let p1 := i / 4096.
  Let p2 := i / 262144.
  Let r0 := i mod 64.
  Let r1 := (i / 64) mod 64.
  Let r2 := (i / 4096) mod 64.

  Lemma f3_rem w : feq (fun idx => if idx =? 0 then w_rem p2 w else []) (upd (fun idx => if idx =? 0 then w else []) 0 (w_rem p2 w)).
  Proof. intros j. unfold upd. destruct (N.eq_dec 0 j) as [<-|Hn]; [reflexivity|]. destruct (N.eqb_spec j 0); [congruence|reflexivity]. Qed.

  Theorem remove_inv : bs_inv (bs_remove s i).
  Proof.
    assert (p0 = p1 * 64 + r1) as E0 by exact (p0_split i). assert (p1 = p2 * 64 + r2) as E1 by exact (p1_split i).
    assert (p2 < 64) as H2 by exact (p2_small i Hi).
    assert (r0 < 64) as Hr0 by (apply N.mod_lt; discriminate).
    assert (r1 < 64) as Hr1 by (apply N.mod_lt; discriminate).
    assert (r2 < 64) as Hr2 by (apply N.mod_lt; discriminate).
    unfold bs_remove. rewrite row0, row6, row12, row18, off6, off12, off18, (r3_p2 i Hi). fold r0 r1 r2. fold p0 p1 p2.
    pose proof (contains_mem s i I) as Hc. unfold bs_contains in Hc. rewrite row0, off6 in Hc. fold p0 r0 in Hc.
    destruct (w_mem r0 (wget (b0 s) p0)) eqn:Em; cbn [negb]; [|exact I].
    assert (mem s i) as Hm by (apply Hc; reflexivity). unfold mem in Hm. fold p0 r0 in Hm.
    assert (f0 s p0 <> []) as Hne0 by (intros E; rewrite E in Hm; destruct Hm).
    change (wget (b0 s) p0) with (f0 s p0). change (wget (b1 s) p1) with (f1 s p1). change (wget (b2 s) p2) with (f2 s p2).
    assert (In r1 (f1 s p1)) as Hin1. { apply (K01 s I p1 r1 Hr1). rewrite <- E0. exact Hne0. }
    assert (f1 s p1 <> []) as Hne1 by (intros E; rewrite E in Hin1; destruct Hin1).
    assert (In r2 (f2 s p2)) as Hin2. { apply (K12 s I p2 r2 Hr2). rewrite <- E1. exact Hne1. }
    assert (f2 s p2 <> []) as Hne2 by (intros E; rewrite E in Hin2; destruct Hin2).
    set (w0 := w_rem r0 (f0 s p0)). set (w1 := w_rem r1 (f1 s p1)). set (w2 := w_rem r2 (f2 s p2)).
    assert (wf_word w0) as W0 by (apply wf_rem; apply (V0 s I)).
    assert (wf_word w1) as W1 by (apply wf_rem; apply (V1 s I)).
    assert (wf_word w2) as W2 by (apply wf_rem; apply (V2 s I)).
    assert (forall f k w, (forall j, wf_word (f j)) -> wf_word w -> forall j, wf_word (upd f k w j)) as WU.
    { intros f k w Hf Hw j. unfold upd. destruct (N.eq_dec k j); [exact Hw|apply Hf]. }
    assert (forall (s' : bitset), feq (f0 s') (upd (f0 s) p0 w0) -> (forall j, wf_word (f0 s' j))) as A0.
    { intros s' F j. rewrite F. apply WU; [apply (V0 s I)|exact W0]. }
    destruct w0 as [|x0 t0] eqn:Ew0.
    2:{ (* the word is still not empty *)
      split; cbn [b0 b1 b2 b3]; try apply I.
      - apply A0. unfold f0. cbn [b0]. apply wget_add.
      - eapply link_ext; [intros j; reflexivity|unfold f0; cbn [b0]; apply wget_add|].
        apply link_keep_nonempty; [apply (K01 s I)|exact Hne0|discriminate]. }
    assert (link (upd (f1 s) p1 w1) (upd (f0 s) p0 [])) as L01.
    { rewrite E0. apply link_set_empty; [apply (K01 s I)|exact Hr1|]. intros x. apply w_rem_In. exact (proj1 (V1 s I p1)). }
    destruct w1 as [|x1 t1] eqn:Ew1.
    2:{ split; cbn [b0 b1 b2 b3]; try apply I.
      - apply A0. unfold f0. cbn [b0]. apply wget_add.
      - intros j. unfold f1. cbn [b1]. rewrite wget_add. apply WU; [apply (V1 s I)|exact W1].
      - eapply link_ext; [unfold f1; cbn [b1]; apply wget_add|unfold f0; cbn [b0]; apply wget_add|exact L01].
      - eapply link_ext; [intros j; reflexivity|unfold f1; cbn [b1]; apply wget_add|].
        apply link_keep_nonempty; [apply (K12 s I)|exact Hne1|discriminate]. }
    assert (link (upd (f2 s) p2 w2) (upd (f1 s) p1 [])) as L12.
    { rewrite E1. apply link_set_empty; [apply (K12 s I)|exact Hr2|]. intros x. apply w_rem_In. exact (proj1 (V2 s I p2)). }
    destruct w2 as [|x2 t2] eqn:Ew2.
    2:{ split; cbn [b0 b1 b2 b3]; try apply I.
      - apply A0. unfold f0. cbn [b0]. apply wget_add.
      - intros j. unfold f1. cbn [b1]. rewrite wget_add. apply WU; [apply (V1 s I)|exact W1].
      - intros j. unfold f2. cbn [b2]. rewrite wget_add. apply WU; [apply (V2 s I)|exact W2].
      - eapply link_ext; [unfold f1; cbn [b1]; apply wget_add|unfold f0; cbn [b0]; apply wget_add|exact L01].
      - eapply link_ext; [unfold f2; cbn [b2]; apply wget_add|unfold f1; cbn [b1]; apply wget_add|exact L12].
      - eapply link_ext; [intros j; reflexivity|unfold f2; cbn [b2]; apply wget_add|].
        apply link_keep_nonempty; [apply (K23 s I)|exact Hne2|discriminate]. }
    split; cbn [b0 b1 b2 b3].
    - apply A0. unfold f0. cbn [b0]. apply wget_add.
    - intros j. unfold f1. cbn [b1]. rewrite wget_add. apply WU; [apply (V1 s I)|exact W1].
    - intros j. unfold f2. cbn [b2]. rewrite wget_add. apply WU; [apply (V2 s I)|exact W2].
    - apply wf_rem. apply (V3 s I).
    - eapply link_ext; [unfold f1; cbn [b1]; apply wget_add|unfold f0; cbn [b0]; apply wget_add|exact L01].
    - eapply link_ext; [unfold f2; cbn [b2]; apply wget_add|unfold f1; cbn [b1]; apply wget_add|exact L12].
    - eapply link_ext; [unfold f3; cbn [b3]; apply (f3_rem (b3 s))|unfold f2; cbn [b2]; apply wget_add|].
      replace p2 with (0 * 64 + p2) at 2 by lia.
      apply link_set_empty; [apply (K23 s I)|exact H2|]. intros x. change ((fun idx => if idx =? 0 then b3 s else []) 0) with (b3 s).
      apply w_rem_In. exact (proj1 (V3 s I)).
  Qed.

  Theorem remove_mem j : mem (bs_remove s i) j <-> j <> i /\ mem s j.
  Proof.
    assert (j = i <-> j / 64 = p0 /\ j mod 64 = r0) as Ji.
    { unfold p0, r0. split; [intros ->; split; reflexivity|intros [A B]; rewrite (dm64 j), (dm64 i), A, B; reflexivity]. }
    unfold bs_remove. rewrite row0, row6, row12, row18, off6, off12, off18. fold r0 r1 r2. fold p0 p1 p2.
    pose proof (contains_mem s i I) as Hc. unfold bs_contains in Hc. rewrite row0, off6 in Hc. fold p0 r0 in Hc.
    destruct (w_mem r0 (wget (b0 s) p0)) eqn:Em; cbn [negb].
    2:{ split; [intros H; split; [intros ->; apply Hc in H; congruence|exact H]|intros [_ H]; exact H]. }
    assert (forall s', feq (f0 s') (upd (f0 s) p0 (w_rem r0 (f0 s p0))) -> (mem s' j <-> j <> i /\ mem s j)) as K.
    { intros s' F. unfold mem. rewrite F. unfold upd. destruct (N.eq_dec p0 (j / 64)) as [E|Hne].
      - rewrite (w_rem_In r0 (j mod 64) _ (proj1 (V0 s I p0))), <- E. rewrite Ji.
        split; [intros [A B]; split; [intros [_ C]; contradiction|exact B]|intros [A B]; split; [intros C; apply A; split; [symmetry; exact E|exact C]|exact B]].
      - split; [intros H; split; [rewrite Ji; intros [A _]; congruence|exact H]|intros [_ H]; exact H]. }
    change (wget (b0 s) p0) with (f0 s p0).
    destruct (w_rem r0 (f0 s p0)) as [|x0 t0] eqn:E0; [|apply K; unfold f0; cbn [b0]; rewrite <- E0; apply wget_add].
    destruct (w_rem r1 (wget (b1 s) p1)) as [|x1 t1]; [|apply K; unfold f0; cbn [b0]; rewrite <- E0; apply wget_add].
    destruct (w_rem r2 (wget (b2 s) p2)) as [|x2 t2]; apply K; unfold f0; cbn [b0]; rewrite <- E0; apply wget_add.
  Qed.
End Remove.

(* ------------------------------------------------------------------ *)
(* iterating a BitSet: exactly its members, ascending *)

Theorem bitset_path s x : bs_inv s -> (under (bs_get s) 3 (bs_get s 3%nat 0) 0 x <-> mem s x).
Proof.
  intros I. cbn [under bs_get N.eqb p64]. change (64 * (64 * (64 * 1))) with 262144. change (64 * (64 * 1)) with 4096. change (64 * 1) with 64.
  unfold mem. fold (f0 s) (f1 s) (f2 s).
  pose proof (dm64_sub x) as S0. pose proof (dm64_sub (x / 64)) as S1. pose proof (dm64_sub (x / 4096)) as S2.
  pose proof (dm64_le x) as T0. pose proof (dm64_le (x / 64)) as T1. pose proof (dm64_le (x / 4096)) as T2.
  pose proof (dm64 (x / 64)) as D1. pose proof (dm64 (x / 4096)) as D2.
  rewrite <- div4096 in S1, T1, D1. rewrite <- div262144 in S2, T2, D2.
  assert (x mod 64 < 64) as B0 by (apply N.mod_lt; lia). assert ((x / 64) mod 64 < 64) as B1 by (apply N.mod_lt; lia).
  assert ((x / 4096) mod 64 < 64) as B2 by (apply N.mod_lt; lia).
  rewrite S0, S1, S2.
  split.
  - intros [_ [_ [_ [_ [_ [_ [_ Hx0]]]]]]]. exact Hx0.
  - intros Hm.
    assert (f0 s (x / 64) <> []) as N0 by (intros E; rewrite E in Hm; destruct Hm).
    assert (In ((x / 64) mod 64) (f1 s (x / 4096))) as M1. { apply (K01 s I); [assumption|]. rewrite <- D1. exact N0. }
    assert (f1 s (x / 4096) <> []) as N1 by (intros E; rewrite E in M1; destruct M1).
    assert (In ((x / 4096) mod 64) (f2 s (x / 262144))) as M2. { apply (K12 s I); [assumption|]. rewrite <- D2. exact N1. }
    assert (f2 s (x / 262144) <> []) as N2 by (intros E; rewrite E in M2; destruct M2).
    assert (x / 262144 < 64) as R. { destruct (N.lt_ge_cases (x / 262144) 64) as [A|A]; [exact A|]. exfalso. apply N2. apply inv_range; assumption. }
    assert (In (x / 262144) (b3 s)) as M3. { pose proof (K23 s I 0 (x / 262144) R) as L. unfold f3 in L. cbn [N.eqb] in L. apply L. exact N2. }
    split; [apply N.le_0_l|]. split; [rewrite N.sub_0_r; exact M3|].
    split; [exact T2|]. split; [exact M2|]. split; [exact T1|]. split; [exact M1|]. split; [exact T0|exact Hm].
Qed.

Theorem bitset_iteration s : bs_inv s ->
  sorted (den (bs_get s) (fresh (bs_get s))) /\ forall x, In x (den (bs_get s) (fresh (bs_get s))) <-> bs_contains s x = true.
Proof.
  intros I. pose proof (inv_wf_g s I) as G. split; [apply fresh_sorted; exact G|].
  intros x. rewrite (fresh_in _ G), (bitset_path s x I). symmetry. apply contains_mem. exact I.
Qed.

(* any sequence of add / remove from the empty set keeps the invariant *)
Definition op_ok (z : Z) : Prop := (0 < z <= 16777216)%Z \/ (-16777216 <= z < 0)%Z.
