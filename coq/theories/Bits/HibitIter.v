(* The iterator of the hierarchical bit set yields exactly what its state stands
   for, and terminates; splitting an iterator (BitProducer::split, as par_join
   uses it) partitions what it stands for, for every tree of splits. *)
From Coq Require Import List NArith Bool Lia Sorting.Sorted.
From SV Require Import Base.Ids Bits.Hibit.
Import ListNotations.
Local Open Scope N_scope.

Section Iter.
  Variable g : getter.

  (* one round of the loop of BitIter::next *)
  Lemma scan_spec it :
    match scan g it with
    | (HValue v, it') => den g it = v :: den g it' /\ (weight it' < weight it)%nat
    | (HContinue, it') => den g it = den g it' /\ ((forall l i, (length (g l i) <= 64)%nat) -> (weight it' < weight it)%nat)
    | (HEmpty, it') => den g it = [] /\ it' = it
    end.
  Proof.
    destruct it as [m0 m1 m2 m3 p0 p1 p2]. unfold scan, scan_levels, handle_level, den, weight.
    cbn [mask pref set_mask set_pref k0 k1 k2 k3 q0 q1 q2].
    destruct m0 as [|b r]; cbn [mask pref set_mask set_pref k0 k1 k2 k3 q0 q1 q2 sub map flat_map app length].
    2:{ split; [reflexivity|lia]. }
    destruct m1 as [|b r]; cbn [mask pref set_mask set_pref k0 k1 k2 k3 q0 q1 q2 sub map flat_map app length].
    2:{ split; [rewrite <- ?app_assoc; reflexivity|]. intros H. specialize (H 0%nat (p1 + b)). lia. }
    destruct m2 as [|b r]; cbn [mask pref set_mask set_pref k0 k1 k2 k3 q0 q1 q2 sub map flat_map app length].
    2:{ split; [rewrite <- ?app_assoc; reflexivity|]. intros H. specialize (H 1%nat (p2 + b)). lia. }
    destruct m3 as [|b r]; cbn [mask pref set_mask set_pref k0 k1 k2 k3 q0 q1 q2 sub map flat_map app length].
    2:{ split; [rewrite <- ?app_assoc; reflexivity|]. intros H. specialize (H 2%nat (0 + b)). lia. }
    split; reflexivity.
  Qed.

  (* BitIter::next *)
  Theorem next_spec fuel : forall it,
    match next g fuel it with
    | Some (Some v, it') => den g it = v :: den g it'
    | Some (None, it') => den g it = []
    | None => True
    end.
  Proof.
    induction fuel as [|f IH]; intros it; cbn [next]; [exact I|].
    pose proof (scan_spec it) as S. destruct (scan g it) as [[| |v] it'].
    - exact (proj1 S).
    - specialize (IH it'). destruct (next g f it') as [[[v|] it'']|]; [| |exact I]; rewrite (proj1 S); exact IH.
    - exact (proj1 S).
  Qed.

  Theorem drain_den fuel : forall it l, drain_iter g fuel it = Some l -> l = den g it.
  Proof.
    induction fuel as [|f IH]; intros it l; cbn [drain_iter]; [discriminate|].
    pose proof (scan_spec it) as S. destruct (scan g it) as [[| |v] it'].
    - intros E. injection E as <-. symmetry. exact (proj1 S).
    - intros E. rewrite (proj1 S). apply IH. exact E.
    - destruct (drain_iter g f it') as [r|] eqn:Er; [|discriminate]. intros E. injection E as <-.
      rewrite (proj1 S). f_equal. apply IH. exact Er.
  Qed.

  (* it always comes to an end: the loop runs at most weight + 1 rounds *)
  Theorem drain_terminates : (forall l i, (length (g l i) <= 64)%nat) ->
    forall fuel it, (weight it < fuel)%nat -> drain_iter g fuel it <> None.
  Proof.
    intros W. induction fuel as [|f IH]; intros it Hw; [lia|]. cbn [drain_iter].
    pose proof (scan_spec it) as S. destruct (scan g it) as [[| |v] it'].
    - discriminate.
    - apply IH. pose proof (proj2 S W). lia.
    - assert (drain_iter g f it' <> None) as X by (apply IH; destruct S; lia).
      destruct (drain_iter g f it'); [discriminate|contradiction].
  Qed.

  Corollary iteration_is_the_denotation : (forall l i, (length (g l i) <= 64)%nat) ->
    forall it, drain_iter g (S (weight it)) it = Some (den g it).
  Proof.
    intros W it. pose proof (drain_terminates W (S (weight it)) it (Nat.lt_succ_diag_r _)) as X.
    destruct (drain_iter g (S (weight it)) it) as [l|] eqn:E; [|contradiction]. f_equal. eapply drain_den. exact E.
  Qed.

  (* ------------------------------------------------------------------ *)
  (* splitting *)

  Definition sorted (w : word) : Prop := StronglySorted N.lt w.
  Definition lvl_only (it : biter) (L : nat) : Prop := forall j, (j <= 3)%nat -> j <> L -> mask it j = [].
  Definition top_only (it : biter) : Prop := exists L, (L <= 3)%nat /\ lvl_only it L /\ sorted (mask it L).

  Lemma sub_app l : forall w1 w2 pre, sub g l (w1 ++ w2) pre = sub g l w1 pre ++ sub g l w2 pre.
  Proof. destruct l; intros; cbn [sub]; [apply map_app | apply flat_map_app]. Qed.

  Lemma den_only it L : (L <= 3)%nat -> lvl_only it L -> den g it = sub g L (mask it L) (pref it L).
  Proof.
    intros HL H. destruct it as [m0 m1 m2 m3 p0 p1 p2]. unfold den.
    pose proof (H 0%nat) as E0. pose proof (H 1%nat) as E1. pose proof (H 2%nat) as E2. pose proof (H 3%nat) as E3.
    cbn [mask pref k0 k1 k2 k3 q0 q1 q2] in *.
    destruct L as [|[|[|[|]]]]; [| | | |lia]; cbn [mask pref k0 k1 k2 k3 q0 q1 q2].
    - rewrite E1, E2, E3 by (lia || discriminate). cbn [sub flat_map]. rewrite !app_nil_r. reflexivity.
    - rewrite E0, E2, E3 by (lia || discriminate). cbn [sub flat_map map app]. rewrite !app_nil_r. reflexivity.
    - rewrite E0, E1, E3 by (lia || discriminate). cbn [sub flat_map map app]. rewrite !app_nil_r. reflexivity.
    - rewrite E0, E1, E2 by (lia || discriminate). cbn [sub flat_map map app]. reflexivity.
  Qed.

  Lemma filter_all_ge a : forall w, Forall (fun y => a <= y) w -> filter (fun x => x <? a) w = [] /\ filter (fun x => a <=? x) w = w.
  Proof.
    induction w as [|x r IH]; intros H; [split; reflexivity|]. inversion H as [|? ? Hx Hr]; subst. destruct (IH Hr) as [E1 E2].
    cbn [filter]. destruct (N.ltb_spec x a); [lia|]. destruct (N.leb_spec a x); [|lia]. rewrite E1, E2. split; reflexivity.
  Qed.

  Lemma filter_split_sorted a : forall w, sorted w -> filter (fun x => x <? a) w ++ filter (fun x => a <=? x) w = w.
  Proof.
    induction w as [|x r IH]; intros H; [reflexivity|]. apply StronglySorted_inv in H. destruct H as [Hr Hx]. cbn [filter].
    destruct (N.ltb_spec x a) as [Hlt|Hge].
    - destruct (N.leb_spec a x); [lia|]. cbn [app]. f_equal. apply IH. exact Hr.
    - destruct (N.leb_spec a x); [|lia].
      assert (Forall (fun y => a <= y) r) as F. { eapply Forall_impl; [|exact Hx]. cbn. intros y Hy. lia. }
      destruct (filter_all_ge a r F) as [E1 E2]. rewrite E1, E2. reflexivity.
  Qed.

  Lemma sorted_filter f w : sorted w -> sorted (filter f w).
  Proof.
    induction w as [|x r IH]; intros H; [constructor|]. apply StronglySorted_inv in H. destruct H as [Hr Hx]. cbn [filter].
    destruct (f x); [|apply IH; exact Hr]. constructor; [apply IH; exact Hr|].
    apply Forall_forall. intros y Hy. apply filter_In in Hy. rewrite Forall_forall in Hx. apply Hx. exact (proj1 Hy).
  Qed.

  Variable avg : word -> option N.
  (* all that matters of average_ones: it declines only words with at most one bit *)
  Hypothesis avg_none : forall w, avg w = None -> (length w <= 1)%nat.
  Hypothesis g_sorted : forall l i, sorted (g l i).

  (* the level that holds everything is not the one asked: nothing happens *)
  Lemma split_level_other it l' L : lvl_only it L -> (S l' <= 3)%nat -> L <> S l' -> split_level g avg it l' = (it, None).
  Proof. intros H Hl Hn. unfold split_level. rewrite (H (S l') Hl (fun E => Hn (eq_sym E))). reflexivity. Qed.

  Lemma split_level_here it l' : (S l' <= 3)%nat -> lvl_only it (S l') -> sorted (mask it (S l')) ->
    match split_level g avg it l' with
    | (a, Some b) => den g a ++ den g b = den g it /\ lvl_only a (S l') /\ lvl_only b (S l') /\ sorted (mask a (S l')) /\ sorted (mask b (S l'))
    | (a, None) => den g a = den g it /\ ((a = it /\ mask it (S l') = []) \/ (lvl_only a l' /\ sorted (mask a l')))
    end.
  Proof.
    intros Hl Ho Hs. unfold split_level.
    destruct (mask it (S l')) as [|b r] eqn:Em.
    { split; [reflexivity|]. left. split; reflexivity. }
    rewrite <- Em. rewrite <- Em in Hs. destruct (avg (mask it (S l'))) as [a|] eqn:Ea.
    - (* split here *)
      set (w := mask it (S l')) in *.
      assert (lvl_only (set_pref (set_mask it (S l') (filter (fun x => x <? a) w)) l' ((pref it (S l') + b) * 64)) (S l')) as Oa.
      { intros j Hj Hn. specialize (Ho j Hj Hn). destruct it as [m0 m1 m2 m3 p0 p1 p2].
        destruct l' as [|[|[|]]]; [| | |lia]; destruct j as [|[|[|[|]]]]; try lia; try contradiction; cbn in *; exact Ho. }
      set (ob := set_pref (set_pref (set_pref (set_pref (set_mask empty_iter (S l') (filter (fun x => a <=? x) w)) l' ((pref it (S l') + a) * 64)) 2 _) 1 _) 0 _).
      assert (lvl_only ob (S l')) as Ob.
      { intros j Hj Hn. subst ob. destruct l' as [|[|[|]]]; [| | |lia]; destruct j as [|[|[|[|]]]]; try lia; try contradiction; reflexivity. }
      assert (mask ob (S l') = filter (fun x => a <=? x) w /\ pref ob (S l') = pref it (S l')) as [Mb Pb].
      { subst ob. destruct it as [m0 m1 m2 m3 p0 p1 p2]. destruct l' as [|[|[|]]]; [| | |lia]; split; reflexivity. }
      assert (mask (set_pref (set_mask it (S l') (filter (fun x => x <? a) w)) l' ((pref it (S l') + b) * 64)) (S l') = filter (fun x => x <? a) w
              /\ pref (set_pref (set_mask it (S l') (filter (fun x => x <? a) w)) l' ((pref it (S l') + b) * 64)) (S l') = pref it (S l')) as [Ma Pa].
      { destruct it as [m0 m1 m2 m3 p0 p1 p2]. destruct l' as [|[|[|]]]; [| | |lia]; split; reflexivity. }
      split; [|split; [exact Oa|split; [exact Ob|split]]].
      + rewrite (den_only _ (S l') Hl Oa), (den_only _ (S l') Hl Ob), (den_only _ (S l') Hl Ho), Ma, Pa, Mb, Pb.
        rewrite <- sub_app. rewrite filter_split_sorted by exact Hs. reflexivity.
      + rewrite Ma. apply sorted_filter. exact Hs.
      + rewrite Mb. apply sorted_filter. exact Hs.
    - (* one bit: descend to it *)
      pose proof (avg_none _ Ea) as Hlen. rewrite Em in Hlen. destruct r as [|b2 r]; [|cbn in Hlen; lia].
      set (idx := pref it (S l') + b).
      assert (lvl_only (set_mask (set_mask (set_pref it l' (idx * 64)) (S l') []) l' (g l' idx)) l') as Oa.
      { intros j Hj Hn. pose proof (Ho j Hj) as Hoj. destruct it as [m0 m1 m2 m3 p0 p1 p2].
        destruct l' as [|[|[|]]]; [| | |lia]; destruct j as [|[|[|[|]]]]; try lia; try contradiction; cbn in *; try reflexivity; apply Hoj; discriminate. }
      assert (mask (set_mask (set_mask (set_pref it l' (idx * 64)) (S l') []) l' (g l' idx)) l' = g l' idx
              /\ pref (set_mask (set_mask (set_pref it l' (idx * 64)) (S l') []) l' (g l' idx)) l' = idx * 64) as [Ma Pa].
      { destruct it as [m0 m1 m2 m3 p0 p1 p2]. destruct l' as [|[|[|]]]; [| | |lia]; split; reflexivity. }
      split.
      + rewrite (den_only _ l' (ltac:(lia)) Oa), (den_only _ (S l') Hl Ho), Ma, Pa, Em. cbn [sub flat_map]. rewrite app_nil_r. reflexivity.
      + right. split; [exact Oa|]. rewrite Ma. apply g_sorted.
  Qed.

  (* BitProducer::split *)
  Theorem split_spec it : top_only it ->
    match split g avg it with
    | (a, Some b) => den g a ++ den g b = den g it /\ top_only a /\ top_only b
    | (a, None) => den g a = den g it /\ top_only a
    end.
  Proof.
    intros [L [HL [Ho Hs]]]. unfold split.
    assert (forall it0 l' , (S l' <= 3)%nat -> lvl_only it0 (S l') -> sorted (mask it0 (S l')) ->
              match split_level g avg it0 l' with
              | (a, Some b) => den g a ++ den g b = den g it0 /\ top_only a /\ top_only b
              | (a, None) => den g a = den g it0 /\ ((a = it0 /\ mask it0 (S l') = []) \/ (lvl_only a l' /\ sorted (mask a l')))
              end) as Here.
    { intros it0 l' Hl' Ho' Hs'. pose proof (split_level_here it0 l' Hl' Ho' Hs') as X.
      destruct (split_level g avg it0 l') as [a [b|]]; [|exact X].
      destruct X as [D [Oa [Ob [Sa Sb]]]]. split; [exact D|]. split; [exists (S l')|exists (S l')]; repeat split; assumption. }
    destruct L as [|[|[|[|]]]]; [| | | |lia].
    - (* everything at level 0: no split *)
      rewrite (split_level_other it 2 0 Ho) by (lia || discriminate).
      rewrite (split_level_other it 1 0 Ho) by (lia || discriminate).
      rewrite (split_level_other it 0 0 Ho) by (lia || discriminate).
      split; [reflexivity|]. exists 0%nat. repeat split; assumption.
    - rewrite (split_level_other it 2 1 Ho) by (lia || discriminate).
      rewrite (split_level_other it 1 1 Ho) by (lia || discriminate).
      pose proof (Here it 0%nat ltac:(lia) Ho Hs) as X. destruct (split_level g avg it 0) as [a [b|]]; [exact X|].
      destruct X as [D [[-> _]|[Oa Sa]]]; (split; [exact D|]); [exists 1%nat|exists 0%nat]; repeat split; (assumption || lia).
    - rewrite (split_level_other it 2 2 Ho) by (lia || discriminate).
      pose proof (Here it 1%nat ltac:(lia) Ho Hs) as X. destruct (split_level g avg it 1) as [a [b|]]; [exact X|].
      destruct X as [D [[-> Em]|[Oa Sa]]].
      + rewrite (split_level_other it 0 2 Ho) by (lia || discriminate). split; [reflexivity|]. exists 2%nat. repeat split; (assumption || lia).
      + pose proof (Here a 0%nat ltac:(lia) Oa Sa) as Y. destruct (split_level g avg a 0) as [a' [b'|]].
        * rewrite <- D. exact Y.
        * destruct Y as [D' [[-> _]|[Oa' Sa']]]; (split; [congruence|]); [exists 1%nat|exists 0%nat]; repeat split; (assumption || lia).
    - pose proof (Here it 2%nat ltac:(lia) Ho Hs) as X. destruct (split_level g avg it 2) as [a [b|]]; [exact X|].
      destruct X as [D [[-> Em]|[Oa Sa]]].
      + rewrite (split_level_other it 1 3 Ho) by (lia || discriminate).
        rewrite (split_level_other it 0 3 Ho) by (lia || discriminate). split; [reflexivity|]. exists 3%nat. repeat split; (assumption || lia).
      + pose proof (Here a 1%nat ltac:(lia) Oa Sa) as Y. destruct (split_level g avg a 1) as [a' [b'|]].
        * rewrite <- D. exact Y.
        * destruct Y as [D' [[-> Em']|[Oa' Sa']]].
          -- rewrite (split_level_other a 0 2 Oa) by (lia || discriminate). split; [exact D|]. exists 2%nat. repeat split; (assumption || lia).
          -- pose proof (Here a' 0%nat ltac:(lia) Oa' Sa') as Z. destruct (split_level g avg a' 0) as [a'' [b''|]].
             ++ rewrite <- D, <- D'. exact Z.
             ++ destruct Z as [D'' [[-> _]|[Oa'' Sa'']]]; (split; [congruence|]); [exists 1%nat|exists 0%nat]; repeat split; (assumption || lia).
  Qed.

  (* every tree of splits: the leaves, in order, stand for exactly what the iterator stood for *)
  Theorem leaves_partition t : forall it, top_only it ->
    flat_map (den g) (leaves g avg it t) = den g it /\ Forall top_only (leaves g avg it t).
  Proof.
    induction t as [|l IHl r IHr]; intros it Ht; cbn [leaves].
    - cbn [flat_map]. rewrite app_nil_r. split; [reflexivity|]. constructor; [exact Ht|constructor].
    - pose proof (split_spec it Ht) as X. destruct (split g avg it) as [a [b|]].
      + destruct X as [D [Ta Tb]]. destruct (IHl a Ta) as [Da Fa]. destruct (IHr b Tb) as [Db Fb].
        split; [rewrite flat_map_app, Da, Db; exact D | apply Forall_app; split; assumption].
      + destruct X as [D Ta]. cbn [flat_map]. rewrite app_nil_r. split; [exact D|]. constructor; [exact Ta|constructor].
  Qed.

  Lemma fresh_top_only : top_only (fresh g).
  Proof. exists 3%nat. split; [lia|]. split; [|apply g_sorted]. intros j Hj Hn. destruct j as [|[|[|[|]]]]; try reflexivity; try lia; contradiction. Qed.
End Iter.

(* the modelled average_ones declines only words with at most one bit *)
Lemma average_ones_none w : average_ones w = None -> (length w <= 1)%nat.
Proof. destruct w as [|x [|y r]]; cbn; intros H; [lia|lia|discriminate]. Qed.
