(* Any sequence of add / remove keeps a BitSet consistent and in step with the
   plain finite set the storage models use for masks; iterating it yields that
   set's elements, in the order the join model enumerates them. *)
From Coq Require Import List NArith Bool Lia Sorting.Sorted SetoidList.
From SV Require Import Base.Ids Bits.Hibit Bits.HibitIter Bits.HibitOrder Bits.HibitSet Bits.HibitExpr.
Import ListNotations.
Local Open Scope N_scope.

Inductive bop := BAdd (i : N) | BRemove (i : N) | BClear.
Definition bop_index (o : bop) : N := match o with BAdd i | BRemove i => i | BClear => 0 end.
Definition bs_do (s : bitset) (o : bop) : bitset := match o with BAdd i => bs_add s i | BRemove i => bs_remove s i | BClear => bs_empty end.
Definition ns_do (m : NS.t) (o : bop) : NS.t := match o with BAdd i => NS.add i m | BRemove i => NS.remove i m | BClear => NS.empty end.

Definition represents (s : bitset) (m : NS.t) : Prop := bs_inv s /\ forall x, mem s x <-> NS.In x m.

Lemma represents_empty : represents bs_empty NS.empty.
Proof.
  split; [apply inv_empty|]. intros x. unfold mem, f0. cbn [bs_empty b0]. rewrite wget_empty.
  split; [intros []|intros H; exfalso; revert H; apply NSF.empty_iff].
Qed.

Lemma represents_do s m o : represents s m -> bop_index o < top -> represents (bs_do s o) (ns_do m o).
Proof.
  intros [I R] Ho. destruct o as [i|i|]; cbn [bs_do ns_do bop_index] in *; [| |apply represents_empty].
  - split; [apply add_inv; assumption|]. intros x. rewrite (add_mem s i I Ho x), NS.add_spec, R. reflexivity.
  - split; [apply remove_inv; assumption|]. intros x. rewrite (remove_mem s i I x), NS.remove_spec, R. tauto.
Qed.

Theorem represents_ops ops : forall s m, represents s m -> Forall (fun o => bop_index o < top) ops ->
  represents (fold_left bs_do ops s) (fold_left ns_do ops m).
Proof.
  induction ops as [|o r IH]; intros s m H F; cbn [fold_left]; [exact H|]. inversion F; subst.
  apply IH; [apply represents_do; assumption|assumption].
Qed.

Lemma elements_sorted m : StronglySorted N.lt (NS.elements m).
Proof. apply Sorted_StronglySorted; [intros x y z; apply N.lt_trans|]. apply NS.elements_spec2. Qed.

Lemma elements_In m x : In x (NS.elements m) <-> NS.In x m.
Proof.
  rewrite <- NS.elements_spec1. rewrite InA_alt. split; [intros H; exists x; split; [reflexivity|exact H]|intros [y [-> H]]; exact H].
Qed.

(* the iterator of a BitSet that represents the finite set m yields NS.elements m *)
Theorem bitset_iteration_is_elements s m : represents s m ->
  drain_iter (bs_get s) (S (weight (fresh (bs_get s)))) (fresh (bs_get s)) = Some (NS.elements m).
Proof.
  intros [I R]. pose proof (exact_bitset s I) as X.
  destruct (iteration_exact (bs_get s) (mem s) X) as [out [E [So Io]]]. rewrite E. apply (f_equal (@Some (list N))).
  apply sorted_ext; [exact So|apply elements_sorted|]. intros x. rewrite Io, R, elements_In. reflexivity.
Qed.
