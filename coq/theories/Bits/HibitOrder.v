(* What the iterator of a hierarchical bit set yields is strictly ascending, and
   an index is among it exactly when its bit is set along the whole path from
   the top layer down. *)
From Coq Require Import List NArith Bool Lia Sorting.Sorted.
From SV Require Import Base.Ids Bits.Hibit Bits.HibitIter.
Import ListNotations.
Local Open Scope N_scope.

Fixpoint p64 (l : nat) : N := match l with O => 1 | S l' => 64 * p64 l' end.

Lemma p64_pos l : 0 < p64 l. Proof. induction l; cbn [p64]; lia. Qed.

Definition small (w : word) : Prop := Forall (fun b => b < 64) w.
Definition wf_word (w : word) : Prop := sorted w /\ small w.
Definition wf_g (g : getter) : Prop := forall l i, wf_word (g l i).

Lemma div_between q B x : 0 < B -> q * B <= x -> x < (q + 1) * B -> x / B = q.
Proof.
  intros HB H1 H2. symmetry. apply (N.div_unique x B q (x - q * B)); lia.
Qed.

Lemma StronglySorted_app (l1 l2 : list N) :
  StronglySorted N.lt l1 -> StronglySorted N.lt l2 -> (forall x y, In x l1 -> In y l2 -> x < y) -> StronglySorted N.lt (l1 ++ l2).
Proof.
  induction l1 as [|a l1 IH]; intros H1 H2 H; cbn [app]; [exact H2|].
  apply StronglySorted_inv in H1. destruct H1 as [H1 Ha]. constructor.
  - apply IH; [exact H1|exact H2|]. intros x y Hx Hy. apply H; [right; exact Hx|exact Hy].
  - apply Forall_app. split; [exact Ha|]. apply Forall_forall. intros y Hy. apply H; [left; reflexivity|exact Hy].
Qed.

Section Order.
  Variable g : getter.
  Hypothesis Hg : wf_g g.

  (* everything under bit b of a word at level l lies in the block of that bit *)
  Lemma sub_bounds l : forall w pre x, small w -> In x (sub g l w pre) ->
    exists b, In b w /\ (pre + b) * p64 l <= x < (pre + b + 1) * p64 l.
  Proof.
    induction l as [|l IH]; intros w pre x Hw Hx; cbn [sub] in Hx.
    - apply in_map_iff in Hx. destruct Hx as [b [<- Hb]]. exists b. split; [exact Hb|]. cbn [p64]. lia.
    - apply in_flat_map in Hx. destruct Hx as [b [Hb Hx]]. exists b. split; [exact Hb|].
      destruct (IH _ _ _ (proj2 (Hg l (pre + b))) Hx) as [b' [Hb' Hr]].
      assert (b' < 64) as Hlt. { pose proof (proj2 (Hg l (pre + b))) as S. unfold small in S. rewrite Forall_forall in S. apply S. exact Hb'. }
      cbn [p64]. pose proof (p64_pos l). nia.
  Qed.

  Lemma sub_sorted l : forall w pre, wf_word w -> sorted (sub g l w pre).
  Proof.
    induction l as [|l IH]; intros w pre [Hs Hw]; cbn [sub].
    - induction w as [|b r IHr]; cbn [map]; [constructor|].
      apply StronglySorted_inv in Hs. destruct Hs as [Hs Hb]. inversion Hw; subst. constructor; [apply IHr; assumption|].
      apply Forall_forall. intros y Hy. apply in_map_iff in Hy. destruct Hy as [c [<- Hc]]. rewrite Forall_forall in Hb. specialize (Hb c Hc). lia.
    - induction w as [|b r IHr]; cbn [flat_map]; [constructor|].
      apply StronglySorted_inv in Hs. destruct Hs as [Hs Hb]. inversion Hw as [|? ? Hb64 Hr]; subst.
      apply StronglySorted_app; [apply IH; apply Hg | apply IHr; assumption|].
      intros x y Hx Hy.
      destruct (sub_bounds l _ _ _ (proj2 (Hg l (pre + b))) Hx) as [b1 [Hb1 Hr1]].
      assert (b1 < 64) as Hlt. { pose proof (proj2 (Hg l (pre + b))) as S. unfold small in S. rewrite Forall_forall in S. apply S. exact Hb1. }
      assert (In y (sub g (S l) r pre)) as Hy' by exact Hy.
      destruct (sub_bounds (S l) r pre y Hr Hy') as [c [Hc Hrc]].
      rewrite Forall_forall in Hb. specialize (Hb c Hc). cbn [p64] in Hrc. pose proof (p64_pos l). nia.
  Qed.

  (* the path of an index through the layers *)
  Fixpoint under (l : nat) (w : word) (pre x : N) : Prop :=
    match l with
    | O => pre <= x /\ In (x - pre) w
    | S l' => let idx := x / p64 (S l') in pre <= idx /\ In (idx - pre) w /\ under l' (g l' idx) (idx * 64) x
    end.

  Lemma sub_in l : forall w pre x, small w -> In x (sub g l w pre) <-> under l w pre x.
  Proof.
    induction l as [|l IH]; intros w pre x Hw; cbn [sub under].
    - split.
      + intros Hx. apply in_map_iff in Hx. destruct Hx as [b [<- Hb]]. split; [lia|]. replace (pre + b - pre) with b by lia. exact Hb.
      + intros [Hle Hin]. apply in_map_iff. exists (x - pre). split; [lia|exact Hin].
    - split.
      + intros Hx. pose proof Hx as Hx0. apply in_flat_map in Hx. destruct Hx as [b [Hb Hx]].
        destruct (sub_bounds l _ _ _ (proj2 (Hg l (pre + b))) Hx) as [b' [Hb' Hr]].
        assert (b' < 64) as Hlt. { pose proof (proj2 (Hg l (pre + b))) as S. unfold small in S. rewrite Forall_forall in S. apply S. exact Hb'. }
        assert (x / p64 (S l) = pre + b) as E.
        { apply div_between; [apply p64_pos| |]; cbn [p64]; pose proof (p64_pos l); nia. }
        cbv zeta. rewrite E. split; [lia|]. split; [replace (pre + b - pre) with b by lia; exact Hb|].
        apply IH; [exact (proj2 (Hg l (pre + b)))|exact Hx].
      + cbv zeta. intros [Hle [Hin Hu]]. apply in_flat_map. exists (x / p64 (S l) - pre). split; [exact Hin|].
        replace (pre + (x / p64 (S l) - pre)) with (x / p64 (S l)) by lia.
        apply IH; [exact (proj2 (Hg l _))|exact Hu].
  Qed.

  (* the whole set, from a fresh iterator *)
  Theorem fresh_sorted : sorted (den g (fresh g)).
  Proof.
    change (den g (fresh g)) with (sub g 3 (g 3%nat 0) 0). apply sub_sorted. apply Hg.
  Qed.

  Theorem fresh_in x : In x (den g (fresh g)) <-> under 3 (g 3%nat 0) 0 x.
  Proof.
    change (den g (fresh g)) with (sub g 3 (g 3%nat 0) 0). apply (sub_in 3). exact (proj2 (Hg 3%nat 0)).
  Qed.
End Order.

(* two strictly ascending lists with the same members are the same list *)
Lemma sorted_ext (l1 : list N) : forall l2, StronglySorted N.lt l1 -> StronglySorted N.lt l2 ->
  (forall x, In x l1 <-> In x l2) -> l1 = l2.
Proof.
  induction l1 as [|a l1 IH]; intros l2 H1 H2 H.
  - destruct l2 as [|b l2]; [reflexivity|]. exfalso. apply (proj2 (H b)). left; reflexivity.
  - destruct l2 as [|b l2]; [exfalso; apply (proj1 (H a)); left; reflexivity|].
    apply StronglySorted_inv in H1. destruct H1 as [H1 Ha]. apply StronglySorted_inv in H2. destruct H2 as [H2 Hb].
    rewrite Forall_forall in Ha, Hb.
    assert (a = b) as ->.
    { destruct (proj1 (H a) (or_introl eq_refl)) as [E|Hin]; [symmetry; exact E|].
      destruct (proj2 (H b) (or_introl eq_refl)) as [E|Hin']; [exact E|].
      specialize (Ha _ Hin'). specialize (Hb _ Hin). lia. }
    f_equal. apply IH; [exact H1|exact H2|]. intros x. split; intros Hx.
    + destruct (proj1 (H x) (or_intror Hx)) as [E|Hin]; [|exact Hin]. subst x. specialize (Ha _ Hx). lia.
    + destruct (proj2 (H x) (or_intror Hx)) as [E|Hin]; [|exact Hin]. subst x. specialize (Hb _ Hx). lia.
Qed.
