(* The history alphabet of the [saveload] domain.
   Two layers:
   - [sop]/[sl_step]: one world, operations carry entity handles and data
     (the alphabet the C14/C15 theorems quantify over);
   - [dop]/[d_step]: what the correspondence executes: two worlds (so that
     data saved by one can be loaded into the other), handles referred to by
     position, saved data referred to by position; integer decoding/encoding.
   Definitions only. *)
From SV Require Export SaveLoad.SerDe.

(* ------------------------------------------------------------------ *)
(* theorem-level alphabet *)

Inductive sop :=
| SCreate (pend : bool)               (* world.create_entity().build() / entities.create() *)
| SInsert (e : entity) (k : N) (c : cdata)   (* WriteStorage::insert *)
| SRemove (e : entity) (k : N)        (* WriteStorage::remove *)
| SMark (e : entity)                  (* allocator.mark(e, &mut markers) *)
| SMarkId (e : entity) (id : N)       (* allocator.allocate(e, Some(id)) + markers.insert *)
| SDelete (e : entity)                (* world.delete_entity *)
| SEDelete (e : entity)               (* entities.delete *)
| SDeleteMany (es : list entity)      (* world.delete_entities *)
| SMaintain                           (* world.maintain *)
| SAllocMaintain                      (* allocator.maintain(&entities, &markers) *)
| SSerialize                          (* SerializeComponents::serialize *)
| SSerializeRec                       (* SerializeComponents::serialize_recursive *)
| SDeserialize (d : data).            (* DeserializeComponents::deserialize *)

Inductive sout :=
| OEnt (e : entity)
| OBool (b : bool)
| OMark (r : option (N * bool))
| OUnit
| OData (d : data)
| OPanic.

Definition sl_step (nc : nat) (w : slw) (o : sop) : slw * sout :=
  match o with
  | SCreate pend => let '(w', e) := sl_create pend w in (w', OEnt e)
  | SInsert e k c => (st_insert w k e c, OBool (w_alive w e))
  | SRemove e k => (st_remove w k e, OBool (w_alive w e))
  | SMark e => let '(w', r) := ma_mark w e in (w', OMark r)
  | SMarkId e id => let '(w', r) := ma_mark_id w e id in (w', OMark r)
  | SDelete e => let '(w', ok) := sl_delete w e in (w', OBool ok)
  | SEDelete e => let '(w', ok) := sl_edelete w e in (w', OBool ok)
  | SDeleteMany es => let '(w', ok) := sl_delete_many w es in (w', OBool ok)
  | SMaintain => (sl_maintain w, OUnit)
  | SAllocMaintain => (ma_maintain w, OUnit)
  | SSerialize => (w, match serialize w nc with Some d => OData d | None => OPanic end)
  | SSerializeRec => let '(w', r) := serialize_recursive w nc in
                     (w', match r with Some d => OData d | None => OPanic end)
  | SDeserialize d => (deserialize w d, OUnit)
  end.

Fixpoint sl_run (nc : nat) (w : slw) (os : list sop) : slw :=
  match os with [] => w | o :: os' => sl_run nc (fst (sl_step nc w o)) os' end.

(* ------------------------------------------------------------------ *)
(* driver-level alphabet *)

Definition NCOMP : nat := 3.

Inductive cref := CPlain (z : Z) | CRef (h : nat).

Inductive dop :=
| DCreate (pend : bool)
| DInsert (h : nat) (k : N) (c : cref)
| DRemove (h : nat) (k : N)
| DMark (h : nat)
| DMarkId (h : nat) (id : N)
| DDelete (h : nat)
| DEDelete (h : nat)
| DDeleteMany (hs : list nat)
| DMaintain
| DAllocMaintain
| DSerialize (fmt : Z)                (* fmt: 0 serde_json, 1 RON; the model ignores it *)
| DSerializeRec (fmt : Z)
| DDeser (fmt : Z) (d : data)         (* literal data *)
| DLoad (fmt : Z) (k : nat)           (* the k-th data saved by a serialisation (of either world) *)
| DSwap                               (* make the other world current *)
| DBad.

Record dstate := {
  d_cur : slw; d_hs : list entity;    (* current world; every handle seen in it, in order of appearance *)
  d_oth : slw; d_ohs : list entity;
  d_saved : list data }.

Definition d_init : dstate :=
  {| d_cur := sl_empty; d_hs := []; d_oth := sl_empty; d_ohs := []; d_saved := [] |}.

Inductive dout := DOut (o : sout) | DSkip.

(* a handle position is taken modulo the number of handles seen *)
Definition sl_hget (hs : list entity) (h : nat) : option entity :=
  match hs with [] => None | _ => nth_error hs (Nat.modulo h (length hs)) end.

Definition in_ents (e : entity) (l : list entity) : bool := existsb (entity_eqb e) l.

(* after every operation: the entities of the join not seen before are
   appended in join (ascending index) order *)
Definition hs_update (hs : list entity) (w : slw) : list entity :=
  hs ++ filter (fun e => negb (in_ents e hs)) (l_entities (sl_life w)).

(* every position of a batch resolved, or nothing *)
Fixpoint sl_hgets (hs : list entity) (l : list nat) : option (list entity) :=
  match l with
  | [] => Some []
  | h :: r => match sl_hget hs h, sl_hgets hs r with
              | Some e, Some es => Some (e :: es)
              | _, _ => None
              end
  end.

Definition resolve (hs : list entity) (c : cref) : option cdata :=
  match c with
  | CPlain z => Some (Plain z)
  | CRef h => match sl_hget hs h with Some e => Some (Ref e) | None => None end
  end.

Definition d_apply (uuid : bool) (s : dstate) (o : option sop) : dstate * dout :=
  match o with
  | None => (s, DSkip)
  | Some op =>
      let '(w', out) := sl_step NCOMP (d_cur s) op in
      ({| d_cur := w'; d_hs := hs_update (d_hs s) w'; d_oth := d_oth s; d_ohs := d_ohs s;
          d_saved := match out with OData d => d_saved s ++ [d] | _ => d_saved s end |}, DOut out)
  end.

(* [uuid]: the UuidMarker variant has no deterministic allocate(None): Mark
   and SerializeRec are skipped there (by both sides) *)
Definition d_step (uuid : bool) (s : dstate) (o : dop) : dstate * dout :=
  match o with
  | DCreate pend => d_apply uuid s (Some (SCreate pend))
  | DInsert h k c =>
      d_apply uuid s (match sl_hget (d_hs s) h, resolve (d_hs s) c with
                      | Some e, Some v => Some (SInsert e k v) | _, _ => None end)
  | DRemove h k => d_apply uuid s (option_map (fun e => SRemove e k) (sl_hget (d_hs s) h))
  | DMark h => if uuid then (s, DSkip) else d_apply uuid s (option_map SMark (sl_hget (d_hs s) h))
  | DMarkId h id => d_apply uuid s (option_map (fun e => SMarkId e id) (sl_hget (d_hs s) h))
  | DDelete h => d_apply uuid s (option_map SDelete (sl_hget (d_hs s) h))
  | DEDelete h => d_apply uuid s (option_map SEDelete (sl_hget (d_hs s) h))
  | DDeleteMany l => d_apply uuid s (option_map SDeleteMany (sl_hgets (d_hs s) l))
  | DMaintain => d_apply uuid s (Some SMaintain)
  | DAllocMaintain => d_apply uuid s (Some SAllocMaintain)
  | DSerialize _ => d_apply uuid s (Some SSerialize)
  | DSerializeRec _ => if uuid then (s, DSkip) else d_apply uuid s (Some SSerializeRec)
  | DDeser _ d => d_apply uuid s (Some (SDeserialize d))
  | DLoad _ k =>
      d_apply uuid s (match d_saved s with
                      | [] => None
                      | _ => option_map SDeserialize (nth_error (d_saved s) (Nat.modulo k (length (d_saved s))))
                      end)
  | DSwap => ({| d_cur := d_oth s; d_hs := d_ohs s; d_oth := d_cur s; d_ohs := d_hs s; d_saved := d_saved s |},
              DOut OUnit)
  | DBad => (s, DSkip)
  end.

(* ------------------------------------------------------------------ *)
(* decoding: each op is  code, n, x1 .. xn *)

Fixpoint sl_take_n {A} (n : nat) (l : list A) : option (list A * list A) :=
  match n with
  | O => Some ([], l)
  | S n' => match l with
            | [] => None
            | x :: l' => match sl_take_n n' l' with Some (a, b) => Some (x :: a, b) | None => None end
            end
  end.

(* one component slot: 0 | 1 z | 2 m *)
Definition dec_slot (l : list Z) : option (option ddata * list Z) :=
  match l with
  | 0 :: r => Some (None, r)
  | 1 :: z :: r => Some (Some (DPlain z), r)
  | 2 :: m :: r => Some (Some (DRef (Z.to_N m)), r)
  | _ => None
  end%Z.

Fixpoint dec_slots (n : nat) (l : list Z) : option (list (option ddata) * list Z) :=
  match n with
  | O => Some ([], l)
  | S n' => match dec_slot l with
            | Some (o, r) => match dec_slots n' r with Some (os, r') => Some (o :: os, r') | None => None end
            | None => None
            end
  end.

(* records: id slot slot slot, until the payload ends *)
Fixpoint dec_records (fuel : nat) (l : list Z) : option data :=
  match l with
  | [] => Some []
  | m :: r =>
      match fuel with
      | O => None
      | S fuel' =>
          match dec_slots NCOMP r with
          | Some (cs, r') => match dec_records fuel' r' with Some d => Some ((Z.to_N m, cs) :: d) | None => None end
          | None => None
          end
      end
  end.

Definition dec_data (l : list Z) : option data := dec_records (length l) l.

Definition dec_op (code : Z) (p : list Z) : dop :=
  match code, p with
  | 1, [b] => DCreate (negb (Z.eqb b 0))
  | 2, [h; k; 1; z] => DInsert (Z.to_nat h) (Z.to_N k) (CPlain z)
  | 2, [h; k; 2; r] => DInsert (Z.to_nat h) (Z.to_N k) (CRef (Z.to_nat r))
  | 3, [h; k] => DRemove (Z.to_nat h) (Z.to_N k)
  | 4, [h] => DMark (Z.to_nat h)
  | 5, [h; id] => DMarkId (Z.to_nat h) (Z.to_N id)
  | 6, [h] => DDelete (Z.to_nat h)
  | 7, [h] => DEDelete (Z.to_nat h)
  | 8, [] => DMaintain
  | 9, [] => DAllocMaintain
  | 10, [f] => DSerialize f
  | 11, [f] => DSerializeRec f
  | 12, f :: r => match dec_data r with Some d => DDeser f d | None => DBad end
  | 13, [f; k] => DLoad f (Z.to_nat k)
  | 14, [] => DSwap
  | 15, l => DDeleteMany (map Z.to_nat l)
  | _, _ => DBad
  end%Z.

Fixpoint dec_ops (fuel : nat) (l : list Z) : list dop :=
  match fuel with
  | O => []
  | S fuel' =>
      match l with
      | code :: n :: l' =>
          match sl_take_n (Z.to_nat n) l' with
          | Some (p, rest) => dec_op code p :: dec_ops fuel' rest
          | None => [DBad]
          end
      | [] => []
      | _ => [DBad]
      end
  end.

Definition decode_history (l : list Z) : list dop := dec_ops (length l) l.

(* ------------------------------------------------------------------ *)
(* encoding: per operation, the output then a dump of the current world *)

Definition sl_enc_bool (b : bool) : Z := if b then 1%Z else 0%Z.

Definition enc_slot (o : option ddata) : list Z :=
  match o with
  | None => [0%Z]
  | Some (DPlain z) => [1%Z; z]
  | Some (DRef m) => [2%Z; Z.of_N m]
  end.

(* exactly NCOMP slots (absent ones as None) *)
Fixpoint enc_slots (n : nat) (l : list (option ddata)) : list Z :=
  match n with
  | O => []
  | S n' => match l with
            | [] => 0%Z :: enc_slots n' []
            | o :: l' => enc_slot o ++ enc_slots n' l'
            end
  end.

Definition enc_record (r : record) : list Z := Z.of_N (fst r) :: enc_slots NCOMP (snd r).

Definition enc_data (d : data) : list Z := Z.of_nat (length d) :: flat_map enc_record d.

Definition enc_sout (o : sout) : list Z :=
  match o with
  | OEnt e => [1%Z; Z.of_N (fst e); snd e]
  | OBool b => [2%Z; sl_enc_bool b]
  | OMark None => [3%Z; 0%Z]
  | OMark (Some (m, added)) => [3%Z; 1%Z; Z.of_N m; sl_enc_bool added]
  | OUnit => [4%Z]
  | OData d => 5%Z :: enc_data d
  | OPanic => [9%Z]
  end.

Definition enc_cdata (o : option cdata) : list Z :=
  match o with
  | None => [0%Z]
  | Some (Plain z) => [1%Z; z]
  | Some (Ref e) => [2%Z; Z.of_N (fst e); snd e]
  end.

Fixpoint enc_comps (w : slw) (i : N) (k : N) (n : nat) : list Z :=
  match n with
  | O => []
  | S n' => enc_cdata (cfind w k i) ++ enc_comps w i (k + 1) n'
  end.

(* index, mapping (ascending id), then every entity of the entities join:
   index generation marker(-1 if none) slot slot slot *)
Definition enc_dump (uuid : bool) (w : slw) : list Z :=
  let mp := NM.elements (sl_mapping w) in
  let es := l_entities (sl_life w) in
  (if uuid then (-1)%Z else Z.of_N (sl_index w)) :: Z.of_nat (length mp)
  :: flat_map (fun p : N * entity => [Z.of_N (fst p); Z.of_N (fst (snd p)); snd (snd p)]) mp
  ++ Z.of_nat (length es)
  :: flat_map (fun e : entity =>
                 Z.of_N (fst e) :: snd e
                 :: (match NM.find (fst e) (sl_markers w) with Some m => Z.of_N m | None => (-1)%Z end)
                 :: enc_comps w (fst e) 0 NCOMP) es.

Definition is_panic (o : dout) : bool := match o with DOut OPanic => true | _ => false end.

(* transcript; ends after a panic *)
Fixpoint d_run (uuid : bool) (s : dstate) (os : list dop) : list (list Z) :=
  match os with
  | [] => []
  | o :: os' =>
      let '(s', out) := d_step uuid s o in
      match out with
      | DSkip => [8%Z] :: d_run uuid s' os'
      | DOut x => if is_panic out then [[9%Z]]
                  else (enc_sout x ++ enc_dump uuid (d_cur s')) :: d_run uuid s' os'
      end
  end.

Definition sl_transcript (uuid : bool) (h : list Z) : list (list Z) :=
  d_run uuid d_init (decode_history h).
