(* The `derive` domain of the correspondence check: integer encoding of
   shapes, values and id mappings (decoders), a model of what serde's derive
   writes for the generated Data definitions (externally tagged enums, newtype
   unwrapping, renamed keys), its integer encoding, and the two entry points
   used by the extracted driver.  Definitions only.

   serde is NOT part of the property; [ser_*] is the trusted description of
   serde's default representation needed to compare the model's data with the
   JSON text the real program prints (DESIGN.md section 8). *)
From SV Require Export SaveLoad.Derive.

(* ------------------------------------------------------------------ *)
(* JSON as far as needed *)

Definition key := (Z * N)%type.
(* (0, n) the field identifier number n      (the generator writes it `f<n>`)
   (1, n) the variant identifier number n    (`V<n>`)
   (2, a) the string of the forwarded attribute a = serde(rename = "r<a>") *)

Inductive json : Type :=
| JPrim (z : Z)                        (* a plain leaf: rendered from its code by the glue *)
| JMark (m : Z)                        (* a marker, as the marker type serialises itself *)
| JStr (k : key)
| JArr (l : list json)
| JObj (l : list (key * json)).

Section OptZip.
  Context {A B C : Type}.
  Variable f : A -> B -> option C.
  Fixpoint zipO (la : list A) (lb : list B) : option (list C) :=
    match la, lb with
    | [], [] => Some []
    | a :: la', b :: lb' => match f a b, zipO la' lb' with Some c, Some cs => Some (c :: cs) | _, _ => None end
    | _, _ => None
    end.
End OptZip.

(* a plain value serialises as itself: leaves, and sequences as arrays *)
Fixpoint ser_plain (x : tree) : option json :=
  match x with
  | Prim z => Some (JPrim z)
  | Seq l => option_map JArr (mapO ser_plain l)
  | _ => None
  end.

(* the serde name of a field / variant of the generated definition: a
   forwarded rename wins, else the identifier *)
Fixpoint first_other (l : list attr) : option N :=
  match l with
  | [] => None
  | AOther a :: _ => Some a
  | _ :: l' => first_other l'
  end.

Definition field_key (f : field) : key :=
  match first_other (fattrs f) with Some a => (2%Z, a) | None => (0%Z, fname f) end.
Definition variant_key (v : variant) : key :=
  match first_other (vattrs v) with Some a => (2%Z, a) | None => (1%Z, vname v) end.

Section Ser.
  (* serialisation of the Data of the k-th definition, given that of its type argument's Data *)
  Variable rec : nat -> (tree -> option json) -> tree -> option json.

  (* a value of type <t as ConvertSaveload<MA>>::Data *)
  Fixpoint ser_data_of (pser : tree -> option json) (t : ty) (x : tree) {struct t} : option json :=
    match t with
    | TPrim | TTuple _ | TArray _ _ => ser_plain x             (* blanket impl: Data = Self *)
    | TEntity => match x with Mark m => Some (JMark m) | _ => None end   (* Entity impl: Data = MA *)
    | TNamed k a => rec k (match a with Some ta => ser_data_of pser ta | None => fun _ => None end) x
    | TParam => pser x
    | TOther | TDataOf _ => None
    end.

  (* a field of a generated definition *)
  Fixpoint ser_ty (pser : tree -> option json) (t : ty) (x : tree) {struct t} : option json :=
    match t with
    | TDataOf t' => ser_data_of pser t' x
    | TPrim => ser_plain x
    | TTuple ts => match x with Seq l => option_map JArr (zipO (ser_ty pser) ts l) | _ => None end
    | TArray t' _ => match x with Seq l => option_map JArr (mapO (ser_ty pser t') l) | _ => None end
    | _ => None
    end.

  Definition ser_tuple (pser : tree -> option json) (fs : list field) (xs : list tree) : option (list json) :=
    zipO (fun f x => ser_ty pser (fty f) x) fs xs.

  Definition ser_named (pser : tree -> option json) (fs : list field) (xs : list (N * tree)) : option (list (key * json)) :=
    zipO (fun f nx => if N.eqb (fst nx) (fname f)
                      then option_map (fun j => (field_key f, j)) (ser_ty pser (fty f) (snd nx))
                      else None) fs xs.

  (* struct body / variant payload; a single unnamed field is a serde newtype: the field alone *)
  Definition ser_fields (pser : tree -> option json) (fs : fields) (x : tree) : option (option json) :=
    match fs, x with
    | FUnit, Unit => Some None
    | FTuple l, Tup xs =>
        match ser_tuple pser l xs with
        | Some [j] => Some (Some j)
        | Some js => Some (Some (JArr js))
        | None => None
        end
    | FNamed l, Rec xs => option_map (fun kv => Some (JObj kv)) (ser_named pser l xs)
    | _, _ => None
    end.

  (* externally tagged: "V" for a unit variant, {"V": payload} otherwise *)
  Fixpoint ser_variants (pser : tree -> option json) (vs : list variant) (vn : N) (body : tree) : option json :=
    match vs with
    | [] => None
    | v :: vs' =>
        if N.eqb (vname v) vn then
          match ser_fields pser (vfields v) body with
          | Some None => Some (JStr (variant_key v))
          | Some (Some j) => Some (JObj [(variant_key v, j)])
          | None => None
          end
        else ser_variants pser vs' vn body
    end.

  Definition ser_def (pser : tree -> option json) (dd : def) (x : tree) : option json :=
    match dd with
    | DStruct _ fs => match ser_fields pser fs x with Some (Some j) => Some j | _ => None end
    | DEnum _ vs => match x with Var vn body => ser_variants pser vs vn body | _ => None end
    end.
End Ser.

Fixpoint ser_env (E : env) (k : nat) (pser : tree -> option json) (x : tree) : option json :=
  match E with
  | [] => None
  | d :: E' => if Nat.eqb k (length E')
               then match data_def d with Some dd => ser_def (ser_env E') pser dd x | None => None end
               else ser_env E' k pser x
  end.

(* the JSON of the data of a value of the closed type [t] *)
Definition ser_top (E : env) (t : ty) (x : tree) : option json :=
  ser_data_of (ser_env E) (fun _ => None) t x.

(* ------------------------------------------------------------------ *)
(* integer encoding of json *)

Fixpoint enc_json (j : json) : list Z :=
  match j with
  | JPrim z => [0; z]
  | JMark m => [1; m]
  | JStr (a, n) => [2; a; Z.of_N n]
  | JArr l => 3 :: Z.of_nat (length l) :: flat_map enc_json l
  | JObj l => 4 :: Z.of_nat (length l) :: flat_map (fun kv => fst (fst kv) :: Z.of_N (snd (fst kv)) :: enc_json (snd kv)) l
  end%Z.

(* ------------------------------------------------------------------ *)
(* decoders: prefix codes, see gen/derive_gen.py *)

Definition parser (A : Type) := list Z -> option (A * list Z).

Section DecList.
  Context {A : Type}.
  Variable p : parser A.
  Fixpoint dec_list (n : nat) (l : list Z) : option (list A * list Z) :=
    match n with
    | O => Some ([], l)
    | S n' => match p l with
              | Some (a, r) => match dec_list n' r with Some (xs, r') => Some (a :: xs, r') | None => None end
              | None => None
              end
    end.
End DecList.

Fixpoint dec_ty (fuel : nat) (l : list Z) : option (ty * list Z) :=
  match fuel with
  | O => None
  | S fuel' =>
      match l with
      | 0 :: r => Some (TPrim, r)
      | 1 :: r => Some (TEntity, r)
      | 2 :: k :: 0 :: r => Some (TNamed (Z.to_nat k) None, r)
      | 2 :: k :: 1 :: r => match dec_ty fuel' r with
                            | Some (t, r') => Some (TNamed (Z.to_nat k) (Some t), r')
                            | None => None
                            end
      | 3 :: n :: r => match dec_list (dec_ty fuel') (Z.to_nat n) r with
                       | Some (ts, r') => Some (TTuple ts, r')
                       | None => None
                       end
      | 4 :: n :: r => match dec_ty fuel' r with
                       | Some (t, r') => Some (TArray t (Z.to_N n), r')
                       | None => None
                       end
      | 5 :: r => Some (TParam, r)
      | 6 :: r => Some (TOther, r)
      | _ => None
      end
  end%Z.

Definition dec_attr : parser attr := fun l =>
  match l with
  | 0 :: r => Some (ASkip, r)
  | 1 :: a :: r => Some (AFwd (Z.to_N a), r)
  | 2 :: a :: r => Some (AOther (Z.to_N a), r)
  | _ => None
  end%Z.

Definition dec_attrs : parser (list attr) := fun l =>
  match l with
  | n :: r => dec_list dec_attr (Z.to_nat n) r
  | [] => None
  end.

(* field: name, attributes, type *)
Definition dec_field (fuel : nat) : parser field := fun l =>
  match l with
  | nm :: r =>
      match dec_attrs r with
      | Some (ats, r1) => match dec_ty fuel r1 with
                          | Some (t, r2) => Some (mkField (Z.to_N nm) ats t, r2)
                          | None => None
                          end
      | None => None
      end
  | [] => None
  end.

Definition dec_fields (fuel : nat) : parser fields := fun l =>
  match l with
  | 0 :: r => Some (FUnit, r)
  | 1 :: n :: r => match dec_list (dec_field fuel) (Z.to_nat n) r with
                   | Some (fs, r') => Some (FTuple fs, r') | None => None end
  | 2 :: n :: r => match dec_list (dec_field fuel) (Z.to_nat n) r with
                   | Some (fs, r') => Some (FNamed fs, r') | None => None end
  | _ => None
  end%Z.

Definition dec_variant (fuel : nat) : parser variant := fun l =>
  match l with
  | nm :: r =>
      match dec_attrs r with
      | Some (ats, r1) => match dec_fields fuel r1 with
                          | Some (fs, r2) => Some (mkVariant (Z.to_N nm) ats fs, r2)
                          | None => None
                          end
      | None => None
      end
  | [] => None
  end.

Definition dec_def (fuel : nat) : parser def := fun l =>
  match l with
  | 0 :: g :: r => match dec_fields fuel r with
                   | Some (fs, r') => Some (DStruct (negb (Z.eqb g 0)) fs, r') | None => None end
  | 1 :: g :: n :: r => match dec_list (dec_variant fuel) (Z.to_nat n) r with
                        | Some (vs, r') => Some (DEnum (negb (Z.eqb g 0)) vs, r') | None => None end
  | _ => None
  end%Z.

(* definitions are written in the order they are made; the environment is latest first *)
Definition dec_env (fuel : nat) : parser env := fun l =>
  match l with
  | n :: r => match dec_list (dec_def fuel) (Z.to_nat n) r with
              | Some (ds, r') => Some (rev ds, r') | None => None end
  | [] => None
  end.

Fixpoint dec_tree (fuel : nat) (l : list Z) : option (tree * list Z) :=
  match fuel with
  | O => None
  | S fuel' =>
      match l with
      | 0 :: z :: r => Some (Prim z, r)
      | 1 :: i :: g :: r => Some (Ent (Z.to_N i, g), r)
      | 2 :: m :: r => Some (Mark m, r)
      | 3 :: n :: r => match dec_list (dec_tree fuel') (Z.to_nat n) r with
                       | Some (xs, r') => Some (Seq xs, r') | None => None end
      | 4 :: r => Some (Unit, r)
      | 5 :: n :: r => match dec_list (dec_tree fuel') (Z.to_nat n) r with
                       | Some (xs, r') => Some (Tup xs, r') | None => None end
      | 6 :: n :: r =>
          match dec_list (fun l => match l with
                                   | nm :: r0 => match dec_tree fuel' r0 with
                                                 | Some (x, r1) => Some ((Z.to_N nm, x), r1)
                                                 | None => None end
                                   | [] => None end) (Z.to_nat n) r with
          | Some (xs, r') => Some (Rec xs, r') | None => None end
      | 7 :: vn :: r => match dec_tree fuel' r with
                        | Some (b, r') => Some (Var (Z.to_N vn) b, r') | None => None end
      | _ => None
      end
  end%Z.

(* the id mapping: (index, generation, marker id) triples *)
Definition dec_ids : parser (list (entity * Z)) := fun l =>
  match l with
  | n :: r => dec_list (fun l => match l with
                                 | i :: g :: m :: r' => Some (((Z.to_N i, g), m), r')
                                 | _ => None end) (Z.to_nat n) r
  | [] => None
  end.

Definition ids_of (tbl : list (entity * Z)) (e : entity) : option Z :=
  option_map snd (find (fun p => entity_eqb (fst p) e) tbl).
Definition ids_inv_of (tbl : list (entity * Z)) (m : Z) : option entity :=
  option_map fst (find (fun p => Z.eqb (snd p) m) tbl).

(* ------------------------------------------------------------------ *)
(* structural equality of trees (for the round-trip flag) *)

Fixpoint tree_eqb (a b : tree) {struct a} : bool :=
  match a, b with
  | Prim x, Prim y => Z.eqb x y
  | Ent x, Ent y => entity_eqb x y
  | Mark x, Mark y => Z.eqb x y
  | Seq l, Seq m => forall2b tree_eqb l m
  | Unit, Unit => true
  | Tup l, Tup m => forall2b tree_eqb l m
  | Rec l, Rec m => forall2b (fun p q => N.eqb (fst p) (fst q) && tree_eqb (snd p) (snd q)) l m
  | Var v x, Var w y => N.eqb v w && tree_eqb x y
  | _, _ => false
  end.

(* ------------------------------------------------------------------ *)
(* entry points *)

Definition enc_flag (b : bool) : Z := if b then 1%Z else 0%Z.

(* one case:  env  type  value  ids
   output parts:
     [tag]            0 Ok, 1 Panic, 2 Bad, 3 input undecodable
     json tokens      of the data ([9] when the data has no serialisation)      (tag 0 only)
     [rt]             1 iff convert_from on the data returns the value again    (tag 0 only)
     [sup; typed]     the environment is supported; the value is a value of the type *)
Definition derive_case (l : list Z) : list (list Z) :=
  let fuel := length l in
  match dec_env fuel l with
  | Some (E, r1) =>
      match dec_ty fuel r1 with
      | Some (t, r2) =>
          match dec_tree fuel r2 with
          | Some (v, r3) =>
              match dec_ids r3 with
              | Some (tbl, _) =>
                  let flags := [enc_flag (sup_env E && sup_ty E false t); enc_flag (value_of E t v)] in
                  match convert_into E t v (ids_of tbl) with
                  | Ok x =>
                      [[0%Z];
                       match ser_top E t x with Some j => enc_json j | None => [9%Z] end;
                       [match convert_from E t x (ids_inv_of tbl) with
                        | Ok v' => enc_flag (tree_eqb v' v)
                        | _ => 0%Z
                        end];
                       flags]
                  | Panic => [[1%Z]; flags]
                  | Bad => [[2%Z]; flags]
                  end
              | None => [[3%Z]]
              end
          | None => [[3%Z]]
          end
      | None => [[3%Z]]
      end
  | None => [[3%Z]]
  end.

(* #[derive(Component)]: attributes in, storage type out.
   attribute: first identifier, then its path: number of segments, each
   identifier + arguments (0 none | 1 n a1..an | 2 parenthesised) *)
Definition dec_seg : parser seg := fun l =>
  match l with
  | nm :: 0 :: r => Some ((Z.to_N nm, PNone), r)
  | nm :: 1 :: n :: r => match dec_list (fun l => match l with a :: r' => Some (Z.to_N a, r') | [] => None end)
                                 (Z.to_nat n) r with
                         | Some (args, r') => Some ((Z.to_N nm, PAngle args), r') | None => None end
  | nm :: 2 :: r => Some ((Z.to_N nm, PParen), r)
  | _ => None
  end%Z.

Definition dec_cattr : parser cattr := fun l =>
  match l with
  | nm :: n :: r => match dec_list dec_seg (Z.to_nat n) r with
                    | Some (p, r') => Some (mkCattr (Z.to_N nm) p, r') | None => None end
  | _ => None
  end.

Definition enc_seg (s : seg) : list Z :=
  match s with
  | (n, PNone) => [Z.of_N n; 0]
  | (n, PAngle args) => Z.of_N n :: 1 :: Z.of_nat (length args) :: map Z.of_N args
  | (n, PParen) => [Z.of_N n; 2]
  end%Z.

(* output: 0 (no type) | 1, number of segments, segments *)
Definition storage_case (l : list Z) : list Z :=
  match l with
  | n :: r =>
      match dec_list dec_cattr (Z.to_nat n) r with
      | Some (attrs, _) =>
          match storage_type attrs with
          | Some p => 1%Z :: Z.of_nat (length p) :: flat_map enc_seg p
          | None => [0%Z]
          end
      | None => [3%Z]
      end
  | [] => [3%Z]
  end.
