(* Model of the two derive macros of specs-derive, as functions of the shape
   of the type definition they are applied to.  Definitions only.

   /repo/specs-derive/src/impl_saveload.rs   #[derive(ConvertSaveload)]
   /repo/specs-derive/src/lib.rs             #[derive(Component)]
   /repo/src/saveload/mod.rs                 the two hand-written impls the
                                             derived code bottoms out in

   What is modelled is the macro's OUTPUT AS A FUNCTION OF THE SHAPE: for a
   definition [d] the functions [derive_into]/[derive_from] below are what the
   emitted `convert_into`/`convert_from` compute, and [data_def d] is the
   emitted `<Name>SaveloadData` definition.  rustc's expansion and type checking
   of the emitted tokens and serde's own derive are not modelled (they are
   tied by running generated crates, see gen/derive_gen.py).

   Three outcomes are kept apart (never a defaulted value):
     Ok x    the generated code returns Ok(x)
     Panic   the generated code panics: `Option::unwrap` on `None` in the
             `Entity` impl (an entity without a marker / an unknown marker)
     Bad     there is no such Rust program: the macro panics at expansion
             (unit struct, slice/reference/pointer/fn/never field type), the
             emitted code does not type-check (a tuple or array containing a
             non-plain type, a skipped field of a non-plain type, a definition
             without any converted field), or the value given is not a value of
             the shape. *)
From SV Require Export Base.Ids.

(* ------------------------------------------------------------------ *)
(* outcomes *)

Inductive res (A : Type) : Type := Ok (a : A) | Panic | Bad.
Arguments Ok {A} a. Arguments Panic {A}. Arguments Bad {A}.

Definition bind {A B} (r : res A) (f : A -> res B) : res B :=
  match r with Ok a => f a | Panic => Panic | Bad => Bad end.

Definition rmap {A B} (f : A -> B) (r : res A) : res B := bind r (fun a => Ok (f a)).

(* ------------------------------------------------------------------ *)
(* shapes *)

(* field types, as far as `replace_entity_type` distinguishes them *)
Inductive ty : Type :=
| TPrim                                (* a path type that is Clone + Serialize + DeserializeOwned:
                                          u32, String, Vec<u8>, Option<i64>, a serde struct ... *)
| TEntity                              (* specs::Entity *)
| TNamed (k : nat) (arg : option ty)   (* an earlier definition deriving ConvertSaveload, by its number;
                                          [arg] = the type argument when that definition is generic *)
| TTuple (l : list ty)                 (* (A, B, ..) *)
| TArray (t : ty) (n : N)              (* [A; n] *)
| TParam                               (* the type parameter of the enclosing definition *)
| TOther                               (* slice, reference, raw pointer, fn, never: the macro panics *)
| TDataOf (t : ty).                    (* <t as ConvertSaveload<MA>>::Data; only in generated definitions *)

(* field / variant attributes, as far as `replace_attributes` distinguishes them *)
Inductive attr : Type :=
| ASkip                                (* #[convert_save_load_skip_convert] *)
| AFwd (a : N)                         (* #[convert_save_load_attr(<a>)] : forwards <a> to the Data definition *)
| AOther (a : N).                      (* any other attribute <a>: cloned *)

Record field : Type := mkField { fname : N; fattrs : list attr; fty : ty }.
(* [fname] is the identifier of a named field; for tuple fields it is unused *)

Inductive fields : Type :=
| FUnit
| FTuple (l : list field)
| FNamed (l : list field).

Record variant : Type := mkVariant { vname : N; vattrs : list attr; vfields : fields }.

Inductive def : Type :=
| DStruct (generic : bool) (fs : fields)
| DEnum (generic : bool) (vs : list variant).

(* an environment: the definitions made so far, LATEST FIRST; the definition
   at the head has number [length tail] and may mention only smaller numbers *)
Definition env := list def.

(* ------------------------------------------------------------------ *)
(* values and data share one tree type: a value has no [Mark] leaf, the data
   of a supported shape has no [Ent] leaf *)

Inductive tree : Type :=
| Prim (z : Z)                         (* a plain leaf value, abstracted to an integer code *)
| Ent (e : entity)                     (* an entity *)
| Mark (m : Z)                         (* a marker (its id) *)
| Seq (l : list tree)                  (* tuple or array value *)
| Unit                                 (* no fields *)
| Tup (l : list tree)                  (* unnamed fields, in declaration order *)
| Rec (l : list (N * tree))            (* named fields, in declaration order *)
| Var (vn : N) (body : tree).          (* enum value: variant name and its fields *)

(* ------------------------------------------------------------------ *)
(* helpers *)

Section Zip.
  Context {A B C : Type}.
  Variable f : A -> B -> res C.
  (* left to right, stops at the first failure, lengths must agree *)
  Fixpoint zipM (la : list A) (lb : list B) : res (list C) :=
    match la, lb with
    | [], [] => Ok []
    | a :: la', b :: lb' => bind (f a b) (fun c => bind (zipM la' lb') (fun cs => Ok (c :: cs)))
    | _, _ => Bad
    end.
End Zip.

Section Forall2b.
  Context {A B : Type}.
  Variable f : A -> B -> bool.
  Fixpoint forall2b (la : list A) (lb : list B) : bool :=
    match la, lb with
    | [], [] => true
    | a :: la', b :: lb' => f a b && forall2b la' lb'
    | _, _ => false
    end.
End Forall2b.

Section OptList.
  Context {A B : Type}.
  Variable f : A -> option B.
  Fixpoint mapO (l : list A) : option (list B) :=
    match l with
    | [] => Some []
    | a :: l' => match f a, mapO l' with Some b, Some bs => Some (b :: bs) | _, _ => None end
    end.
End OptList.

Definition is_some {A} (o : option A) : bool := match o with Some _ => true | None => false end.

Definition is_skip (a : attr) : bool := match a with ASkip => true | _ => false end.

(* field_should_skip *)
Definition fskip (f : field) : bool := existsb is_skip (fattrs f).

Definition fields_list (fs : fields) : list field :=
  match fs with FUnit => [] | FTuple l | FNamed l => l end.

(* ------------------------------------------------------------------ *)
(* plain types: those covered by the blanket impl
     impl<C: Clone + Serialize + DeserializeOwned, M> ConvertSaveload<M> for C  { type Data = Self; clone / identity }
   tuples and arrays of plain types are plain (serde and std implement the three traits for
   tuples up to 16 elements and arrays up to 32; longer ones are outside the model) *)

Fixpoint plain_ty (t : ty) : bool :=
  match t with
  | TPrim => true
  | TTuple l => forallb plain_ty l
  | TArray t' _ => plain_ty t'
  | _ => false
  end.

(* [v] is a value of the plain type [t] *)
Fixpoint has_plain (t : ty) (v : tree) {struct t} : bool :=
  match t, v with
  | TPrim, Prim _ => true
  | TTuple ts, Seq l => forall2b has_plain ts l
  | TArray t' n, Seq l => N.eqb (N.of_nat (length l)) n && forallb (has_plain t') l
  | _, _ => false
  end.

(* the blanket impl: convert_into = Ok(self.clone()), convert_from = Ok(data) *)
Definition clone_plain (t : ty) (v : tree) : res tree :=
  if plain_ty t && has_plain t v then Ok v else Bad.

(* ------------------------------------------------------------------ *)
(* the generated Data definition *)

(* replace_entity_type; None = the macro panics *)
Fixpoint replace_ty (t : ty) : option ty :=
  match t with
  | TPrim | TEntity | TNamed _ _ | TParam | TDataOf _ => Some (TDataOf t)     (* Type::Path *)
  | TTuple l => option_map TTuple (mapO replace_ty l)
  | TArray t' n => option_map (fun u => TArray u n) (replace_ty t')
  | TOther => None
  end.

(* replace_attributes *)
Definition replace_attrs (l : list attr) : list attr :=
  flat_map (fun a => match a with ASkip => [] | AFwd x => [AOther x] | AOther x => [AOther x] end) l.

(* replace_field *)
Definition replace_field (f : field) : option field :=
  if fskip f then Some (mkField (fname f) (replace_attrs (fattrs f)) (fty f))
  else option_map (mkField (fname f) (replace_attrs (fattrs f))) (replace_ty (fty f)).

Fixpoint replace_field_list (l : list field) : option (list field) :=
  match l with
  | [] => Some []
  | f :: l' => match replace_field f, replace_field_list l' with
               | Some g, Some gs => Some (g :: gs)
               | _, _ => None
               end
  end.

Definition replace_fields (fs : fields) : option fields :=
  match fs with
  | FUnit => Some FUnit
  | FTuple l => option_map FTuple (replace_field_list l)
  | FNamed l => option_map FNamed (replace_field_list l)
  end.

Fixpoint replace_variants (vs : list variant) : option (list variant) :=
  match vs with
  | [] => Some []
  | v :: vs' => match replace_fields (vfields v), replace_variants vs' with
                | Some fs, Some ws => Some (mkVariant (vname v) (replace_attrs (vattrs v)) fs :: ws)
                | _, _ => None
                end
  end.

(* `<Name>SaveloadData<.., MA>`; None = the macro panics *)
Definition data_def (d : def) : option def :=
  match d with
  | DStruct _ FUnit => None
  | DStruct g fs => option_map (DStruct g) (replace_fields fs)
  | DEnum g vs => option_map (DEnum g) (replace_variants vs)
  end.

(* The emitted `<Name>SaveloadData<.., MA>` mentions its parameter `MA` only in
   the types of converted fields (`<T as ConvertSaveload<MA>>::Data`); when no
   field at all is converted (only unit variants, or every field skipped) rustc
   rejects it: "type parameter `MA` is never used" (the macro's documentation
   says as much: such types should derive Serialize/Deserialize instead). *)
Definition has_converted (d : def) : bool :=
  match d with
  | DStruct _ fs => existsb (fun f => negb (fskip f)) (fields_list fs)
  | DEnum _ vs => existsb (fun v => existsb (fun f => negb (fskip f)) (fields_list (vfields v))) vs
  end.

(* ------------------------------------------------------------------ *)
(* the conversions.  `convert_into` and `convert_from` are generated by two
   copies of the same traversal that differ only in the direction of the
   `Entity` impl at the leaves; [leaf] is that impl.  *)

Section Conv.
  Variable leaf : tree -> res tree.
  (* conversion derived for the k-th definition, given the conversion of its type argument *)
  Variable rec : nat -> (tree -> res tree) -> tree -> res tree.

  (* `ConvertSaveload::convert_{into,from}(field, &mut ids)?` at a field of type [t];
     [parg] is the conversion of the enclosing definition's type parameter *)
  Fixpoint conv_ty (parg : tree -> res tree) (t : ty) (v : tree) {struct t} : res tree :=
    match t with
    | TPrim | TTuple _ | TArray _ _ => clone_plain t v
    | TEntity => leaf v
    | TNamed k a => rec k (match a with Some ta => conv_ty parg ta | None => fun _ => Bad end) v
    | TParam => parg v
    | TOther | TDataOf _ => Bad
    end.

  (* one field: `self.f.clone()` / `data.f` when marked skip, its own conversion otherwise *)
  Definition conv_field (parg : tree -> res tree) (f : field) (v : tree) : res tree :=
    if fskip f then clone_plain (fty f) v else conv_ty parg (fty f) v.

  (* `Name ( conv(self.0), conv(self.1), .. )` : declaration order *)
  Definition conv_tuple (parg : tree -> res tree) (fs : list field) (vs : list tree) : res (list tree) :=
    zipM (conv_field parg) fs vs.

  (* `Name { a: conv(self.a), b: conv(self.b), .. }` : declaration order, by name *)
  Definition conv_named (parg : tree -> res tree) (fs : list field) (vs : list (N * tree)) : res (list (N * tree)) :=
    zipM (fun f nv => if N.eqb (fst nv) (fname f)
                      then bind (conv_field parg f (snd nv)) (fun d => Ok (fname f, d))
                      else Bad) fs vs.

  Definition conv_fields (parg : tree -> res tree) (fs : fields) (v : tree) : res tree :=
    match fs, v with
    | FUnit, Unit => Ok Unit
    | FTuple l, Tup vs => rmap Tup (conv_tuple parg l vs)
    | FNamed l, Rec vs => rmap Rec (conv_named parg l vs)
    | _, _ => Bad
    end.

  (* the big match of saveload_enum: first arm whose variant name matches *)
  Fixpoint conv_variants (parg : tree -> res tree) (vs : list variant) (vn : N) (body : tree) : res tree :=
    match vs with
    | [] => Bad
    | v :: vs' => if N.eqb (vname v) vn then rmap (Var vn) (conv_fields parg (vfields v) body)
                  else conv_variants parg vs' vn body
    end.

  Definition conv_def (parg : tree -> res tree) (d : def) (v : tree) : res tree :=
    if is_some (data_def d) && has_converted d then   (* else: the macro panics / rustc rejects its output *)
      match d with
      | DStruct _ FUnit => Bad          (* saveload_struct panics on unit structs *)
      | DStruct _ fs => conv_fields parg fs v
      | DEnum _ vs => match v with Var vn body => conv_variants parg vs vn body | _ => Bad end
      end
    else Bad.
End Conv.

(* tie the knot over the environment: structural on the list of definitions *)
Fixpoint conv_env (leaf : tree -> res tree) (E : env) (k : nat) (parg : tree -> res tree) (v : tree) : res tree :=
  match E with
  | [] => Bad
  | d :: E' => if Nat.eqb k (length E') then conv_def leaf (conv_env leaf E') parg d v
               else conv_env leaf E' k parg v
  end.

(* the `Entity` impl of src/saveload/mod.rs: `func(self)`.unwrap() / func(data).unwrap() *)
Definition into_leaf (ids : entity -> option Z) (v : tree) : res tree :=
  match v with
  | Ent e => match ids e with Some m => Ok (Mark m) | None => Panic end
  | _ => Bad
  end.

Definition from_leaf (ids : Z -> option entity) (v : tree) : res tree :=
  match v with
  | Mark m => match ids m with Some e => Ok (Ent e) | None => Panic end
  | _ => Bad
  end.

Definition no_param : tree -> res tree := fun _ => Bad.

(* conversions at a closed type [t] over the definitions [E] *)
Definition convert_into (E : env) (t : ty) (v : tree) (ids : entity -> option Z) : res tree :=
  conv_ty (into_leaf ids) (conv_env (into_leaf ids) E) no_param t v.
Definition convert_from (E : env) (t : ty) (d : tree) (ids : Z -> option entity) : res tree :=
  conv_ty (from_leaf ids) (conv_env (from_leaf ids) E) no_param t d.

(* the code derived for definition [d] (made after the definitions [E]),
   instantiated at type argument [targ] when generic *)
Definition param_conv (leaf : tree -> res tree) (E : env) (targ : option ty) : tree -> res tree :=
  match targ with
  | Some ta => conv_ty leaf (conv_env leaf E) no_param ta
  | None => no_param
  end.
Definition derive_into (E : env) (d : def) (targ : option ty) (v : tree) (ids : entity -> option Z) : res tree :=
  conv_def (into_leaf ids) (conv_env (into_leaf ids) E) (param_conv (into_leaf ids) E targ) d v.
Definition derive_from (E : env) (d : def) (targ : option ty) (x : tree) (ids : Z -> option entity) : res tree :=
  conv_def (from_leaf ids) (conv_env (from_leaf ids) E) (param_conv (from_leaf ids) E targ) d x.

(* ------------------------------------------------------------------ *)
(* well-typed values of a shape, and the supported shapes *)

Section Typing.
  Variable rec : nat -> (tree -> bool) -> tree -> bool.

  Fixpoint has_ty (parg : tree -> bool) (t : ty) (v : tree) {struct t} : bool :=
    match t with
    | TPrim | TTuple _ | TArray _ _ => has_plain t v
    | TEntity => match v with Ent _ => true | _ => false end
    | TNamed k a => rec k (match a with Some ta => has_ty parg ta | None => fun _ => false end) v
    | TParam => parg v
    | TOther | TDataOf _ => false
    end.

  Definition has_field (parg : tree -> bool) (f : field) (v : tree) : bool :=
    if fskip f then has_plain (fty f) v else has_ty parg (fty f) v.

  Definition has_fields (parg : tree -> bool) (fs : fields) (v : tree) : bool :=
    match fs, v with
    | FUnit, Unit => true
    | FTuple l, Tup vs => forall2b (has_field parg) l vs
    | FNamed l, Rec vs => forall2b (fun f nv => N.eqb (fst nv) (fname f) && has_field parg f (snd nv)) l vs
    | _, _ => false
    end.

  Fixpoint has_variants (parg : tree -> bool) (vs : list variant) (vn : N) (body : tree) : bool :=
    match vs with
    | [] => false
    | v :: vs' => if N.eqb (vname v) vn then has_fields parg (vfields v) body else has_variants parg vs' vn body
    end.

  Definition has_def (parg : tree -> bool) (d : def) (v : tree) : bool :=
    match d with
    | DStruct _ fs => has_fields parg fs v
    | DEnum _ vs => match v with Var vn body => has_variants parg vs vn body | _ => false end
    end.
End Typing.

Fixpoint has_env (E : env) (k : nat) (parg : tree -> bool) (v : tree) : bool :=
  match E with
  | [] => false
  | d :: E' => if Nat.eqb k (length E') then has_def (has_env E') parg d v else has_env E' k parg v
  end.

Definition value_of (E : env) (t : ty) (v : tree) : bool := has_ty (has_env E) (fun _ => false) t v.
Definition param_has (E : env) (targ : option ty) : tree -> bool :=
  match targ with Some ta => has_ty (has_env E) (fun _ => false) ta | None => fun _ => false end.
Definition value_of_def (E : env) (d : def) (targ : option ty) (v : tree) : bool :=
  has_def (has_env E) (param_has E targ) d v.

Definition def_generic (d : def) : bool := match d with DStruct g _ | DEnum g _ => g end.

(* the k-th definition and the definitions before it *)
Fixpoint lookup (E : env) (k : nat) : option (def * env) :=
  match E with
  | [] => None
  | d :: E' => if Nat.eqb k (length E') then Some (d, E') else lookup E' k
  end.

(* supported field types inside a definition whose generic flag is [g], over
   the earlier definitions [E] *)
Fixpoint sup_ty (E : env) (g : bool) (t : ty) {struct t} : bool :=
  match t with
  | TPrim => true
  | TEntity => true
  | TNamed k a =>
      match lookup E k with
      | Some (d, _) => Bool.eqb (def_generic d) (is_some a) &&
                  match a with Some ta => sup_ty E g ta | None => true end
      | None => false
      end
  | TTuple _ | TArray _ _ => plain_ty t
  | TParam => g
  | TOther | TDataOf _ => false
  end.

Definition sup_field (E : env) (g : bool) (f : field) : bool :=
  if fskip f then plain_ty (fty f) else sup_ty E g (fty f).

Definition sup_fields (E : env) (g : bool) (fs : fields) : bool :=
  match fs with
  | FUnit => true
  | FTuple l | FNamed l => forallb (sup_field E g) l
  end.

Definition sup_def (E : env) (d : def) : bool :=
  has_converted d &&
  match d with
  | DStruct _ FUnit => false
  | DStruct g fs => sup_fields E g fs
  | DEnum g vs => forallb (fun v => sup_fields E g (vfields v)) vs
  end.

Fixpoint sup_env (E : env) : bool :=
  match E with
  | [] => true
  | d :: E' => sup_def E' d && sup_env E'
  end.

(* ------------------------------------------------------------------ *)
(* data of the generated definitions: typing of data trees against [data_def] *)

Section DataTyping.
  (* data of the k-th definition, given the typing of its type argument's Data *)
  Variable rec : nat -> (tree -> bool) -> tree -> bool.

  (* [x] is a value of <t as ConvertSaveload<MA>>::Data *)
  Fixpoint has_data_of (parg : tree -> bool) (t : ty) (x : tree) {struct t} : bool :=
    match t with
    | TPrim | TTuple _ | TArray _ _ => plain_ty t && has_plain t x     (* blanket impl: Data = Self *)
    | TEntity => match x with Mark _ => true | _ => false end          (* Entity impl: Data = MA *)
    | TNamed k a => rec k (match a with Some ta => has_data_of parg ta | None => fun _ => false end) x
    | TParam => parg x
    | TOther | TDataOf _ => false
    end.

  (* [x] is a value of the field type [t] of a generated definition *)
  Fixpoint has_dty (parg : tree -> bool) (t : ty) (x : tree) {struct t} : bool :=
    match t with
    | TDataOf t' => has_data_of parg t' x
    | TPrim => match x with Prim _ => true | _ => false end
    | TTuple ts => match x with Seq l => forall2b (has_dty parg) ts l | _ => false end
    | TArray t' n => match x with Seq l => N.eqb (N.of_nat (length l)) n && forallb (has_dty parg t') l | _ => false end
    | _ => false
    end.

  Definition dhas_fields (parg : tree -> bool) (fs : fields) (x : tree) : bool :=
    match fs, x with
    | FUnit, Unit => true
    | FTuple l, Tup xs => forall2b (fun f y => has_dty parg (fty f) y) l xs
    | FNamed l, Rec xs => forall2b (fun f ny => N.eqb (fst ny) (fname f) && has_dty parg (fty f) (snd ny)) l xs
    | _, _ => false
    end.

  Fixpoint dhas_variants (parg : tree -> bool) (vs : list variant) (vn : N) (body : tree) : bool :=
    match vs with
    | [] => false
    | v :: vs' => if N.eqb (vname v) vn then dhas_fields parg (vfields v) body else dhas_variants parg vs' vn body
    end.

  Definition dhas_def (parg : tree -> bool) (dd : def) (x : tree) : bool :=
    match dd with
    | DStruct _ fs => dhas_fields parg fs x
    | DEnum _ vs => match x with Var vn body => dhas_variants parg vs vn body | _ => false end
    end.
End DataTyping.

Fixpoint dhas_env (E : env) (k : nat) (parg : tree -> bool) (x : tree) : bool :=
  match E with
  | [] => false
  | d :: E' => if Nat.eqb k (length E')
               then match data_def d with Some dd => dhas_def (dhas_env E') parg dd x | None => false end
               else dhas_env E' k parg x
  end.

Definition dparam_has (E : env) (targ : option ty) : tree -> bool :=
  match targ with Some ta => has_data_of (dhas_env E) (fun _ => false) ta | None => fun _ => false end.
(* [x] is a value of the generated definition [dd] (= data_def d), instantiated at [targ] *)
Definition data_of_def (E : env) (dd : def) (targ : option ty) (x : tree) : bool :=
  dhas_def (dhas_env E) (dparam_has E targ) dd x.

(* ------------------------------------------------------------------ *)
(* leaves *)

Fixpoint ents (v : tree) : list entity :=
  match v with
  | Ent e => [e]
  | Seq l | Tup l => flat_map ents l
  | Rec l => flat_map (fun nv => ents (snd nv)) l
  | Var _ b => ents b
  | Prim _ | Mark _ | Unit => []
  end.

Fixpoint marks (v : tree) : list Z :=
  match v with
  | Mark m => [m]
  | Seq l | Tup l => flat_map marks l
  | Rec l => flat_map (fun nv => marks (snd nv)) l
  | Var _ b => marks b
  | Prim _ | Ent _ | Unit => []
  end.

(* the value with every entity leaf that has a marker replaced by it, everything else unchanged *)
Fixpoint map_ent (ids : entity -> option Z) (v : tree) : tree :=
  match v with
  | Ent e => match ids e with Some m => Mark m | None => Ent e end
  | Seq l => Seq (map (map_ent ids) l)
  | Tup l => Tup (map (map_ent ids) l)
  | Rec l => Rec (map (fun nv => (fst nv, map_ent ids (snd nv))) l)
  | Var vn b => Var vn (map_ent ids b)
  | Prim _ | Mark _ | Unit => v
  end.

(* ------------------------------------------------------------------ *)
(* #[derive(Component)] : impl_component of specs-derive/src/lib.rs *)

Inductive pargs : Type :=
| PNone                                (* Vec *)
| PAngle (args : list N)               (* Vec<A, B> ; the arguments are opaque tokens *)
| PParen.                              (* Fn(A) -> B *)

Definition seg := (N * pargs)%type.    (* one path segment: identifier, arguments *)
Definition path := list seg.

(* an outer attribute of the type definition: first identifier of its path, and
   its argument parsed as `( path )` *)
Record cattr : Type := mkCattr { ca_name : N; ca_arg : path }.

Definition id_storage : N := 0.          (* the identifier `storage` *)
Definition id_DenseVecStorage : N := 1.  (* the identifier `DenseVecStorage` *)
Definition id_Self : N := 0.             (* the type argument `Self` *)

Definition last_has_angle (p : path) : bool :=
  match last p (0, PNone) with (_, PAngle _) => true | _ => false end.

(* replace the last segment's arguments *)
Fixpoint set_last_args (p : path) (a : pargs) : path :=
  match p with
  | [] => []
  | [(n, _)] => [(n, a)]
  | s :: p' => s :: set_last_args p' a
  end.

(* `type Storage = #storage #additional_generics;`
   the emitted tokens: the path, and whether `<Self>` is emitted after it *)
Definition storage_of (attrs : list cattr) : path * bool :=
  let storage :=
    match find (fun a => N.eqb (ca_name a) id_storage) attrs with
    | Some a => ca_arg a
    | None => [(id_DenseVecStorage, PNone)]
    end in
  (storage, negb (last_has_angle storage)).

(* the type those tokens denote when the last segment had no arguments at all
   (appending `<Self>` to `Fn(A) -> B` is not a type: None) *)
Definition storage_type (attrs : list cattr) : option path :=
  let '(p, add) := storage_of attrs in
  if add then
    match last p (0, PNone) with
    | (_, PNone) => Some (set_last_args p (PAngle [id_Self]))
    | _ => None
    end
  else Some p.
