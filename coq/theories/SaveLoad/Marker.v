(* The world seen by specs::saveload: the entity allocator (lifecycle
   specification of Alloc/Life.v, indices chosen by the free-list policy of
   EntityCache: last freed first, else the next unused index), the marker
   storage, SimpleMarkerAllocator { index, mapping }, and the component
   storages.  Functions follow src/saveload/marker.rs statement by statement.
   Definitions only; proofs are in MarkerProps.v.

   Machine bound not modelled: marker ids are unbounded N here; the code uses
   u64 (debug builds panic on [id + 1] / [index += 1] at 2^64-1, release
   builds wrap).  Every theorem is therefore about ids < 2^64-1. *)
From SV Require Export Base.Ids Alloc.Life.

(* a component value: plain data, or a field holding an entity *)
Inductive cdata := Plain (z : Z) | Ref (e : entity).

Record slw := {
  sl_life : lstate;                (* EntitiesRes *)
  sl_free : list N;                (* EntityCache as a stack, top first *)
  sl_markers : NM.t N;             (* MaskedStorage<SimpleMarker<T>> : index -> id *)
  sl_index : N;                    (* SimpleMarkerAllocator.index *)
  sl_mapping : NM.t entity;        (* SimpleMarkerAllocator.mapping *)
  sl_comps : NM.t (NM.t cdata) }.  (* component type -> index -> value *)

Definition sl_empty : slw :=
  {| sl_life := l_init; sl_free := []; sl_markers := NM.empty N; sl_index := 0;
     sl_mapping := NM.empty entity; sl_comps := NM.empty (NM.t cdata) |}.

Definition with_life (w : slw) (s : lstate) (f : list N) : slw :=
  {| sl_life := s; sl_free := f; sl_markers := sl_markers w; sl_index := sl_index w;
     sl_mapping := sl_mapping w; sl_comps := sl_comps w |}.
Definition with_markers (w : slw) (m : NM.t N) : slw :=
  {| sl_life := sl_life w; sl_free := sl_free w; sl_markers := m; sl_index := sl_index w;
     sl_mapping := sl_mapping w; sl_comps := sl_comps w |}.
Definition with_alloc (w : slw) (idx : N) (mp : NM.t entity) : slw :=
  {| sl_life := sl_life w; sl_free := sl_free w; sl_markers := sl_markers w; sl_index := idx;
     sl_mapping := mp; sl_comps := sl_comps w |}.
Definition with_comps (w : slw) (c : NM.t (NM.t cdata)) : slw :=
  {| sl_life := sl_life w; sl_free := sl_free w; sl_markers := sl_markers w; sl_index := sl_index w;
     sl_mapping := sl_mapping w; sl_comps := c |}.

(* ------------------------------------------------------------------ *)
(* component storages *)

Definition sto (w : slw) (k : N) : NM.t cdata :=
  match NM.find k (sl_comps w) with Some s => s | None => NM.empty cdata end.
Definition cfind (w : slw) (k i : N) : option cdata := NM.find i (sto w k).
Definition cset (w : slw) (k i : N) (c : cdata) : slw :=
  with_comps w (NM.add k (NM.add i c (sto w k)) (sl_comps w)).
Definition cdel (w : slw) (k i : N) : slw :=
  with_comps w (NM.add k (NM.remove i (sto w k)) (sl_comps w)).

Definition w_alive (w : slw) (e : entity) : bool := l_is_alive (sl_life w) e.

(* Storage::get / insert / remove: all guarded by entities.is_alive *)
Definition st_get (w : slw) (k : N) (e : entity) : option cdata :=
  if w_alive w e then cfind w k (fst e) else None.
Definition st_insert (w : slw) (k : N) (e : entity) (c : cdata) : slw :=
  if w_alive w e then cset w k (fst e) c else w.
Definition st_remove (w : slw) (k : N) (e : entity) : slw :=
  if w_alive w e then cdel w k (fst e) else w.
(* markers.get(entity) *)
Definition mk_get (w : slw) (e : entity) : option N :=
  if w_alive w e then NM.find (fst e) (sl_markers w) else None.

(* ------------------------------------------------------------------ *)
(* entities *)

(* the index the allocator hands out next *)
Definition sl_choose (w : slw) : N :=
  match sl_free w with i :: _ => i | [] => used (sl_life w) end.

(* world.create_entity().build() (pend = false) / entities.create() (pend = true) *)
Definition sl_create (pend : bool) (w : slw) : slw * entity :=
  let '(s', e) := l_create pend (sl_life w) (sl_choose w) in
  (with_life w s' (tl (sl_free w)), e).

(* delete_components for one index: every storage, the marker storage included *)
Definition purge (w : slw) (i : N) : slw :=
  {| sl_life := sl_life w; sl_free := sl_free w; sl_markers := NM.remove i (sl_markers w);
     sl_index := sl_index w; sl_mapping := sl_mapping w;
     sl_comps := NM.map (fun s => NM.remove i s) (sl_comps w) |}.

(* world.delete_entity(e): Allocator::kill(&[e]) then delete_components *)
Definition sl_delete (w : slw) (e : entity) : slw * bool :=
  if w_alive w e then
    (purge (with_life w (set_cell (sl_life w) (fst e) (Free (snd e))) (fst e :: sl_free w)) (fst e), true)
  else (w, false).

(* world.delete_entities(&[..]): Allocator::kill works through the slice up
   to the first handle that is not alive (a stale handle, or one repeated in
   the slice) and fails there; the components of everything killed up to that
   point are removed either way (delete_components(&delete[..failed_index])).
   Killing and purging one entity at a time gives the same world: neither the
   liveness test nor the free list looks at components. *)
Fixpoint sl_delete_many (w : slw) (es : list entity) : slw * bool :=
  match es with
  | [] => (w, true)
  | e :: r => let '(w', ok) := sl_delete w e in if ok then sl_delete_many w' r else (w', false)
  end.

(* The same in the statement order of the code: Allocator::kill over the
   slice first (each live entity dies and its index goes to the cache; the
   loop stops at the first handle that is not alive), delete_components for
   the killed prefix afterwards.  MarkerProps.delete_many_stmt_eq: equal to
   sl_delete_many on every world and every slice. *)
Definition kill_only (w : slw) (e : entity) : slw :=
  with_life w (set_cell (sl_life w) (fst e) (Free (snd e))) (fst e :: sl_free w).

Fixpoint kill_loop (w : slw) (es : list entity) : slw * list N * bool :=
  match es with
  | [] => (w, [], true)
  | e :: r => if w_alive w e
              then let '(w', ks, ok) := kill_loop (kill_only w e) r in (w', fst e :: ks, ok)
              else (w, [], false)
  end.

Definition sl_delete_many_stmt (w : slw) (es : list entity) : slw * bool :=
  let '(w', ks, ok) := kill_loop w es in (fold_left purge ks w', ok).

(* entities.delete(e): deferred *)
Definition sl_edelete (w : slw) (e : entity) : slw * bool :=
  let '(s', ok) := l_kill_def (sl_life w) e in (with_life w s' (sl_free w), ok).

(* world.maintain(): merge, purge the components of what died, recycle the
   indices (pushed in ascending order, so the largest is on top) *)
Definition sl_maintain (w : slw) : slw :=
  let '(s', dead) := l_merge (sl_life w) in
  fold_left purge (map fst dead) (with_life w s' (rev (map fst dead) ++ sl_free w)).

(* ------------------------------------------------------------------ *)
(* SimpleMarkerAllocator *)

(* allocate(entity, id) *)
Definition ma_allocate (w : slw) (e : entity) (oid : option N) : slw * N :=
  match oid with
  | Some id =>
      (with_alloc w (if N.leb (sl_index w) id then id + 1 else sl_index w) (NM.add id e (sl_mapping w)), id)
  | None =>
      (with_alloc w (sl_index w + 1) (NM.add (sl_index w) e (sl_mapping w)), sl_index w)
  end.

(* retrieve_entity_internal followed by the storage.get_mut(entity) test of
   retrieve_entity: the mapping is trusted only if the entity is still alive
   and still has a marker component *)
Definition ma_trusted (w : slw) (id : N) : option entity :=
  match NM.find id (sl_mapping w) with
  | Some e => if w_alive w e && NM.mem (fst e) (sl_markers w) then Some e else None
  | None => None
  end.

(* retrieve_entity(marker, storage, entities) *)
Definition ma_retrieve (w : slw) (id : N) : slw * entity :=
  match ma_trusted w id with
  | Some e => (with_markers w (NM.add (fst e) id (sl_markers w)), e)       (* Marker::update: *self = new *)
  | None =>
      let '(w1, e) := sl_create true w in                                   (* entities.create() *)
      let '(w2, m) := ma_allocate w1 e (Some id) in
      (with_markers w2 (NM.add (fst e) m (sl_markers w2)), e)               (* storage.insert(entity, marker).unwrap() *)
  end.

(* mark(entity, storage): Some (id, new) or None for a dead entity *)
Definition ma_mark (w : slw) (e : entity) : slw * option (N * bool) :=
  if w_alive w e then
    match NM.find (fst e) (sl_markers w) with
    | Some m => (w, Some (m, false))
    | None => let '(w1, m) := ma_allocate w e None in
              (with_markers w1 (NM.add (fst e) m (sl_markers w1)), Some (m, true))
    end
  else (w, None).

(* the deterministic-id path: allocate(entity, Some(id)) + storage.insert,
   done by the caller for an entity that is alive and not marked yet *)
Definition ma_mark_id (w : slw) (e : entity) (id : N) : slw * option (N * bool) :=
  if w_alive w e then
    match NM.find (fst e) (sl_markers w) with
    | Some m => (w, Some (m, false))
    | None => let '(w1, m) := ma_allocate w e (Some id) in
              (with_markers w1 (NM.add (fst e) m (sl_markers w1)), Some (m, true))
    end
  else (w, None).

(* (&entities, &markers).join(): ascending index, the entity handle is the
   one of the entities join *)
Definition join_marked (w : slw) : list (entity * N) :=
  flat_map (fun p : N * N =>
              if occupied (cell (sl_life w) (fst p))
              then [((fst p, top (cell (sl_life w) (fst p))), snd p)] else [])
           (NM.elements (sl_markers w)).

(* maintain(entities, storage): mapping = join.map(|(e, m)| (m.id(), e)).collect() *)
Definition ma_maintain (w : slw) : slw :=
  with_alloc w (sl_index w)
    (fold_left (fun mp (p : entity * N) => NM.add (snd p) (fst p) mp) (join_marked w) (NM.empty entity)).

(* ------------------------------------------------------------------ *)
(* The counter with u64 wrap-around (what `id + 1` / `index += 1` compute in
   a build without overflow checks).  Used only for the witness
   C15_u64_wrap_refuted: data mentioning the id 2^64-1 resets the counter. *)
Definition U64 : N := 18446744073709551616.

Definition ma_allocate_wrap (w : slw) (e : entity) (oid : option N) : slw * N :=
  match oid with
  | Some id =>
      (with_alloc w (if N.leb (sl_index w) id then N.modulo (id + 1) U64 else sl_index w)
                  (NM.add id e (sl_mapping w)), id)
  | None =>
      (with_alloc w (N.modulo (sl_index w + 1) U64) (NM.add (sl_index w) e (sl_mapping w)), sl_index w)
  end.

(* mark, and the allocate(e, Some(id)) + insert that retrieve_entity performs
   for an unknown id, over the wrapping counter *)
Definition ma_mark_wrap (w : slw) (e : entity) (oid : option N) : slw :=
  if w_alive w e then
    match NM.find (fst e) (sl_markers w) with
    | Some m => w
    | None => let '(w1, m) := ma_allocate_wrap w e oid in with_markers w1 (NM.add (fst e) m (sl_markers w1))
    end
  else w.
