(* C14 / C15 over histories of the saveload alphabet (SLOps.v). *)
From SV Require Import Base.ListX Alloc.AllocStep Alloc.LifeProps
  SaveLoad.Marker SaveLoad.SerDe SaveLoad.SLOps SaveLoad.MarkerProps SaveLoad.SerDeProps.
From Coq Require Import Sorting.Permutation.

(* the only proviso: an id passed to allocate(e, Some(id)) by the caller is
   not held by a live entity ("fresh ids are fresh"; for UuidMarker this is
   the probabilistic uniqueness of Uuid::new_v4) *)
Definition op_ok (w : slw) (o : sop) : Prop :=
  match o with SMarkId _ id => id_fresh w id | _ => True end.

Fixpoint run_ok (nc : nat) (w : slw) (os : list sop) : Prop :=
  match os with
  | [] => True
  | o :: os' => op_ok w o /\ run_ok nc (fst (sl_step nc w o)) os'
  end.

Lemma Inv_deserialize w d : Inv w -> Inv (deserialize w d).
Proof. intros HI. apply (deserialize_spec d w HI). Qed.

Lemma Inv_step nc w o : Inv w -> op_ok w o -> Inv (fst (sl_step nc w o)).
Proof.
  intros HI OK. destruct o; cbn [sl_step op_ok] in *.
  - pose proof (Inv_create pend w HI) as X. destruct (sl_create pend w). exact X.
  - apply Inv_st_insert. assumption.
  - apply Inv_st_remove. assumption.
  - pose proof (Inv_mark w e HI) as X. destruct (ma_mark w e). exact X.
  - pose proof (Inv_mark_id w e id HI OK) as X. destruct (ma_mark_id w e id). exact X.
  - pose proof (Inv_delete w e HI) as X. destruct (sl_delete w e). exact X.
  - pose proof (Inv_edelete w e HI) as X. destruct (sl_edelete w e). exact X.
  - pose proof (Inv_delete_many es w HI) as X. destruct (sl_delete_many w es). exact X.
  - apply Inv_maintain. assumption.
  - apply Inv_ma_maintain. assumption.
  - assumption.
  - pose proof (serialize_recursive_spec w nc HI) as [X _]. destruct (serialize_recursive w nc). exact X.
  - apply Inv_deserialize. assumption.
Qed.

Theorem Inv_run nc os : forall w, Inv w -> run_ok nc w os -> Inv (sl_run nc w os).
Proof.
  induction os as [|o os IH]; intros w HI OK; cbn [sl_run run_ok] in *; [assumption|].
  destruct OK as [O1 O2]. apply IH; [apply Inv_step; assumption | assumption].
Qed.

Definition reachable (nc : nat) (w : slw) : Prop := exists os, run_ok nc sl_empty os /\ w = sl_run nc sl_empty os.

Lemma reachable_Inv nc w : reachable nc w -> Inv w.
Proof. intros [os [OK ->]]. apply Inv_run; [apply Inv_empty | assumption]. Qed.

(* ------------------------------------------------------------------ *)
(* C15 *)

Theorem c15_unique nc w : reachable nc w ->
  forall e1 e2 m, mk_get w e1 = Some m -> mk_get w e2 = Some m -> e1 = e2.
Proof. intros R e1 e2 m. apply inv_unique. apply (reachable_Inv nc). assumption. Qed.

Theorem c15_mapping nc w : reachable nc w ->
  forall e m, mk_get w e = Some m -> NM.find m (sl_mapping w) = Some e.
Proof. intros R. apply (I_map _ (reachable_Inv nc w R)). Qed.

Theorem c15_counter_above nc w : reachable nc w ->
  (forall e m, mk_get w e = Some m -> m < sl_index w) /\
  (forall m e, NM.find m (sl_mapping w) = Some e -> m < sl_index w).
Proof.
  intros R. pose proof (reachable_Inv nc w R) as HI. split.
  - intros e m G. apply mk_get_iff in G. apply (I_idx_mk _ HI _ _ (proj2 G)).
  - apply (I_idx_map _ HI).
Qed.

Theorem c15_mark_existing w e m : mk_get w e = Some m -> ma_mark w e = (w, Some (m, false)).
Proof. intros G. apply mk_get_iff in G. destruct G as [A F]. unfold ma_mark. rewrite A, F. reflexivity. Qed.

Theorem c15_mark_fresh nc w e : reachable nc w -> w_alive w e = true -> mk_get w e = None ->
  snd (ma_mark w e) = Some (sl_index w, true) /\ id_fresh w (sl_index w).
Proof.
  intros R A G. unfold mk_get in G. rewrite A in G. unfold ma_mark. rewrite A, G. cbn [ma_allocate snd]. split; [reflexivity|].
  intros e' G'. destruct (c15_counter_above nc w R) as [X _]. specialize (X _ _ G'). lia.
Qed.

(* loading merges by marker *)
Theorem c15_load_merges w d : Inv w ->
  let w' := deserialize w d in
  Inv w' /\
  (* entities of the target stay, same handle, same marker (updated in place) *)
  (forall e, w_alive w e = true -> w_alive w' e = true /\ mk_get w' e = mk_get w e) /\
  (* entities are created only for ids no live entity held, and only for ids the data mentions *)
  (forall e, w_alive w' e = true -> w_alive w e = false ->
     exists m, mk_get w' e = Some m /\ id_fresh w m /\ In m (data_ids d)) /\
  (* every id of the data has a holder afterwards (exactly one: Inv w') *)
  (forall id, In id (data_ids d) -> exists e, mk_get w' e = Some id).
Proof.
  intros HI. destruct (deserialize_spec d w HI) as [HI' [[A [M Nw]] [HO _]]].
  split; [assumption|]. split; [auto|]. split; assumption.
Qed.

(* the components of an updated or created entity are those of the last
   record with its id; in particular absent types are removed *)
Theorem c15_load_components w d d1 r d2 : Inv w -> d = d1 ++ r :: d2 -> ~ In (fst r) (map fst d2) ->
  let w' := deserialize w d in
  forall e, mk_get w' e = Some (fst r) ->
  forall j, (j < length (snd r))%nat -> slot_rel w' (nth j (snd r) None) (st_get w' (N.of_nat j) e).
Proof. intros HI E Hn w' e G j Hj. apply (proj1 (proj2 (proj2 (proj2 (deserialize_spec d w HI)))) d1 r d2 E Hn e G j Hj). Qed.

Theorem c15_load_removes_absent w d d1 r d2 : Inv w -> d = d1 ++ r :: d2 -> ~ In (fst r) (map fst d2) ->
  forall e, mk_get (deserialize w d) e = Some (fst r) ->
  forall j, (j < length (snd r))%nat -> nth j (snd r) None = None -> st_get (deserialize w d) (N.of_nat j) e = None.
Proof.
  intros HI E Hn e G j Hj Hnone. pose proof (c15_load_components w d d1 r d2 HI E Hn e G j Hj) as R.
  cbv zeta in R. rewrite Hnone in R. destruct (st_get (deserialize w d) (N.of_nat j) e) as [[z|t]|]; cbn in R; [contradiction|contradiction|reflexivity].
Qed.

Theorem c15_load_untouched w d : Inv w ->
  forall e, (forall m, mk_get (deserialize w d) e = Some m -> ~ In m (map fst d)) ->
  forall k, st_get (deserialize w d) k e = st_get w k e.
Proof. intros HI. apply (proj2 (proj2 (proj2 (proj2 (deserialize_spec d w HI))))). Qed.

(* loading the same data again creates nothing *)
Theorem c15_repeated_load w d : Inv w ->
  let w1 := deserialize w d in let w2 := deserialize w1 d in
  forall e, w_alive w2 e = w_alive w1 e.
Proof.
  intros HI w1 w2 e.
  destruct (deserialize_spec d w HI) as [HI1 [_ [HO1 _]]]. fold w1 in HI1, HO1.
  destruct (deserialize_spec d w1 HI1) as [_ [[A [_ Nw]] _]]. fold w2 in A, Nw.
  destruct (w_alive w1 e) eqn:A1; [apply A; assumption|].
  destruct (w_alive w2 e) eqn:A2; [|reflexivity]. exfalso.
  destruct (Nw e A2 A1) as [m [_ [Fr Hin]]]. destruct (HO1 m Hin) as [e' G]. apply (Fr e' G).
Qed.

(* a stale mapping entry (dead entity) is never trusted *)
Theorem c15_stale_not_trusted w id e : Inv w -> NM.find id (sl_mapping w) = Some e -> w_alive w e = false ->
  let t := snd (ma_retrieve w id) in
  t <> e /\ w_alive w t = false /\ mk_get (fst (ma_retrieve w id)) t = Some id.
Proof.
  intros HI F D. assert (ma_trusted w id = None) as T by (unfold ma_trusted; rewrite F, D; reflexivity).
  destruct (retrieve_spec w id HI) as [_ [G _]]. rewrite (retrieve_miss _ _ T) in *. cbn [fst snd] in *.
  split; [|split; [apply new_ent_dead; assumption | assumption]].
  intros E. apply (I_issued _ HI) in F. rewrite <- E in F. cbn [new_ent fst snd] in F. lia.
Qed.

(* ------------------------------------------------------------------ *)
(* C14 *)

Theorem c14_bijection src nc d d' : Inv src -> ser_data_spec src nc d -> Permutation d d' ->
  let tgt := deserialize sl_empty d' in
  (forall e m, mk_get src e = Some m -> exists t, same_marker src tgt e t) /\
  (forall t, w_alive tgt t = true -> exists e, same_marker src tgt e t) /\
  (forall e t1 t2, same_marker src tgt e t1 -> same_marker src tgt e t2 -> t1 = t2) /\
  (forall e1 e2 t, same_marker src tgt e1 t -> same_marker src tgt e2 t -> e1 = e2).
Proof.
  intros HI S P. destruct (round_trip_data src nc d d' HI S P) as [HI' [H1 [H2 _]]].
  set (tgt := deserialize sl_empty d') in *.
  split; [|split; [|split]].
  - intros e m G. destruct (H1 e m G) as [t Gt]. exists t, m. auto.
  - assumption.
  - intros e t1 t2 [m1 [G1 T1]] [m2 [G2 T2]]. apply (inv_unique tgt t1 t2 m1 HI'); congruence.
  - intros e1 e2 t [m1 [G1 T1]] [m2 [G2 T2]]. apply (inv_unique src e1 e2 m1 HI); congruence.
Qed.

Theorem c14_recursive_round_trip w nc d d' : Inv w -> snd (serialize_recursive w nc) = Some d -> Permutation d d' ->
  let src := fst (serialize_recursive w nc) in
  let tgt := deserialize sl_empty d' in
  Inv tgt /\
  (forall e m, mk_get src e = Some m -> exists t, mk_get tgt t = Some m) /\
  (forall t, w_alive tgt t = true -> exists e, same_marker src tgt e t) /\
  (forall e t, same_marker src tgt e t -> forall j, (j < nc)%nat ->
     comp_rel src tgt (st_get src (N.of_nat j) e) (st_get tgt (N.of_nat j) t)).
Proof.
  intros HI H P. destruct (serialize_recursive_spec w nc HI) as [HI' [_ R]]. destruct (R d H) as [S _].
  apply (round_trip_data _ nc d d' HI' S P).
Qed.

(* what serialize writes, slot by slot *)
Theorem c14_serialize_image w nc d : Inv w -> serialize w nc = Some d ->
  NoDup (map fst d) /\
  (forall e m, mk_get w e = Some m -> exists cs, In (m, cs) d) /\
  (forall m cs, In (m, cs) d -> exists e, mk_get w e = Some m /\ length cs = nc /\
     forall j, (j < nc)%nat -> ser_slot (mk_get w) (st_get w (N.of_nat j) e) (nth j cs None)).
Proof.
  intros HI S. destruct (serialize_spec w nc d HI S) as [ND [S1 S2]]. split; [assumption|]. split.
  - intros e m G. destruct (S1 e m G) as [cs [Hin _]]. exists cs. assumption.
  - intros m cs Hin. destruct (S2 m cs Hin) as [e [G SE]]. exists e. split; [assumption|].
    destruct (ser_entity_spec _ _ _ _ _ _ SE) as [L SS]. split; [assumption|].
    intros j Hj. specialize (SS j Hj). replace (0 + N.of_nat j) with (N.of_nat j) in SS by lia. assumption.
Qed.

(* serialize panics exactly when a serialised component of a marked entity
   refers to an entity without a marker (unmarked or dead) *)
Lemma ser_entity_none w ids e : forall n k, ser_entity w ids e k n = None ->
  exists j e', (j < n)%nat /\ st_get w (k + N.of_nat j) e = Some (Ref e') /\ ids e' = None.
Proof.
  induction n as [|n IH]; intros k H; cbn [ser_entity] in H; [discriminate|].
  destruct (st_get w k e) as [[z|e']|] eqn:G; cbn [conv_into] in H.
  - destruct (ser_entity w ids e (k + 1) n) eqn:R; [discriminate|]. destruct (IH _ R) as [j [e' [Hj [G' I']]]].
    exists (S j), e'. split; [lia|]. replace (k + N.of_nat (S j)) with (k + 1 + N.of_nat j) by lia. auto.
  - destruct (ids e') as [m|] eqn:I.
    + destruct (ser_entity w ids e (k + 1) n) eqn:R; [discriminate|]. destruct (IH _ R) as [j [e'' [Hj [G' I']]]].
      exists (S j), e''. split; [lia|]. replace (k + N.of_nat (S j)) with (k + 1 + N.of_nat j) by lia. auto.
    + exists 0%nat, e'. split; [lia|]. replace (k + N.of_nat 0) with k by lia. auto.
  - destruct (ser_entity w ids e (k + 1) n) eqn:R; [discriminate|]. destruct (IH _ R) as [j [e' [Hj [G' I']]]].
    exists (S j), e'. split; [lia|]. replace (k + N.of_nat (S j)) with (k + 1 + N.of_nat j) by lia. auto.
Qed.

Theorem c14_serialize_panics_only_on_dangling w nc : Inv w -> serialize w nc = None ->
  exists e m j e', mk_get w e = Some m /\ (j < nc)%nat /\ st_get w (N.of_nat j) e = Some (Ref e') /\ mk_get w e' = None.
Proof.
  intros HI. unfold serialize.
  assert (forall l, (forall p, In p l -> In p (join_marked w)) -> ser_all w nc l = None ->
          exists e m j e', mk_get w e = Some m /\ (j < nc)%nat /\ st_get w (N.of_nat j) e = Some (Ref e') /\ mk_get w e' = None) as X.
  { induction l as [|[e m] l IH]; intros Hin H; cbn [ser_all] in H; [discriminate|].
    destruct (ser_entity w (mk_get w) e 0 nc) as [cs|] eqn:E.
    - destruct (ser_all w nc l) eqn:R; [discriminate|]. apply IH; [|reflexivity]. intros p Hp. apply Hin. right. assumption.
    - destruct (ser_entity_none _ _ _ _ _ E) as [j [e' [Hj [G I']]]]. exists e, m, j, e'.
      split; [apply in_join_marked_get; [assumption|]; apply Hin; left; reflexivity|].
      replace (0 + N.of_nat j) with (N.of_nat j) in G by lia. auto. }
  apply X. auto.
Qed.

(* the invariant, spelled out *)
Theorem Inv_meaning w : Inv w <->
  (LInv (sl_life w) /\ NoDup (sl_free w) /\ (forall i, In i (sl_free w) <-> is_free (cell (sl_life w) i) = true)) /\
  (forall i m, NM.find i (sl_markers w) = Some m -> occupied (cell (sl_life w) i) = true) /\
  (forall k i c, cfind w k i = Some c -> occupied (cell (sl_life w) i) = true) /\
  (forall e m, mk_get w e = Some m -> NM.find m (sl_mapping w) = Some e) /\
  (forall m e, NM.find m (sl_mapping w) = Some e -> w_alive w e = true -> NM.find (fst e) (sl_markers w) = Some m) /\
  (forall i m, NM.find i (sl_markers w) = Some m -> m < sl_index w) /\
  (forall m e, NM.find m (sl_mapping w) = Some e -> m < sl_index w) /\
  (forall m e, NM.find m (sl_mapping w) = Some e -> (snd e <= top (cell (sl_life w) (fst e)))%Z).
Proof.
  split.
  - intros [A B C D E F G H I J]. split; [split; [exact A | split; [exact B | exact C]]|].
    split; [exact D|]. split; [exact E|]. split; [exact F|]. split; [exact G|]. split; [exact H|]. split; [exact I | exact J].
  - intros [[A [B C]] [D [E [F [G [H [I J]]]]]]]. split; auto.
Qed.

(* the proviso of run_ok is needed: allocate(e, Some(id)) with an id a live
   entity already holds gives two live entities with one id (API misuse, not
   a defect: the allocator cannot know) *)
Lemma nonfresh_id_breaks_uniqueness :
  let w := sl_run 3 sl_empty [SCreate false; SCreate false; SMark (0, 1%Z); SMarkId (1, 1%Z) 0] in
  mk_get w (0, 1%Z) = Some 0 /\ mk_get w (1, 1%Z) = Some 0.
Proof. vm_compute. split; reflexivity. Qed.

(* outside the machine bound (ids < 2^64-1): with wrapping u64 arithmetic a
   loaded id 2^64-1 resets the counter and the next mark repeats id 0 *)
Lemma u64_wrap_breaks_uniqueness :
  let w0 := sl_run 3 sl_empty [SCreate false; SCreate false; SCreate false] in
  let w1 := ma_mark_wrap w0 (0, 1%Z) None in
  let w2 := ma_mark_wrap w1 (1, 1%Z) (Some (U64 - 1)) in
  let w3 := ma_mark_wrap w2 (2, 1%Z) None in
  mk_get w3 (0, 1%Z) = Some 0 /\ mk_get w3 (2, 1%Z) = Some 0 /\ sl_index w2 = 0 /\ sl_index w3 = 1.
Proof. vm_compute. repeat split; reflexivity. Qed.

(* exactly one target entity per record, i.e. per marked source entity *)
Theorem c14_entity_count src nc d d' : Inv src -> ser_data_spec src nc d -> Permutation d d' ->
  length (l_entities (sl_life (deserialize sl_empty d'))) = length d.
Proof.
  intros HI S P. destruct (round_trip_data src nc d d' HI S P) as [HI' [H1 [H2 _]]].
  destruct S as [ND [S1 S2]].
  set (tgt := deserialize sl_empty d') in *.
  set (f := fun t => match mk_get tgt t with Some m => m | None => 0 end).
  set (E := l_entities (sl_life tgt)).
  assert (forall t, In t E -> exists m, mk_get tgt t = Some m /\ In m (map fst d)) as HE.
  { intros t Hin. apply life_entities_alive in Hin. destruct (H2 t Hin) as [e [m [Ge Gt]]]. exists m. split; [assumption|].
    destruct (S1 _ _ Ge) as [cs [Hc _]]. apply in_map_iff. exists (m, cs). auto. }
  assert (NoDup (map f E)) as NF.
  { apply (nodup_transfer (fun t => t) f); [|rewrite map_id; apply l_entities_nodup].
    intros p q Hp Hq Efq. destruct (HE p Hp) as [m1 [G1 _]]. destruct (HE q Hq) as [m2 [G2 _]].
    unfold f in Efq. rewrite G1, G2 in Efq. subst m2. apply (inv_unique tgt p q m1 HI'); assumption. }
  assert (incl (map f E) (map fst d)) as I1.
  { intros m Hin. apply in_map_iff in Hin. destruct Hin as [t [Ef Hin]]. destruct (HE t Hin) as [m' [G Hm]].
    unfold f in Ef. rewrite G in Ef. subst m'. assumption. }
  assert (incl (map fst d) (map f E)) as I2.
  { intros m Hin. apply in_map_iff in Hin. destruct Hin as [[m' cs] [Em Hin]]. cbn [fst] in Em. subst m'.
    destruct (S2 _ _ Hin) as [e [Ge _]]. destruct (H1 _ _ Ge) as [t Gt].
    apply in_map_iff. exists t. split; [unfold f; rewrite Gt; reflexivity|].
    apply life_entities_alive. apply mk_get_iff in Gt. apply Gt. }
  pose proof (NoDup_incl_length NF I1) as L1. pose proof (NoDup_incl_length ND I2) as L2.
  rewrite !map_length in L1. rewrite !map_length in L2. change (length E = length d). apply Nat.le_antisymm; assumption.
Qed.
