(* C15: the marker invariant over every history of the saveload alphabet.
   Proofs about SaveLoad/Marker.v (and the per-record lemmas used by
   SerDeProps.v). *)
From SV Require Import Base.ListX Alloc.AllocStep Alloc.LifeProps SaveLoad.Marker.
From Coq Require Import Sorting.Sorted SetoidList.

(* ------------------------------------------------------------------ *)
(* component storages *)

Lemma cfind_cset w k i c k' i' :
  cfind (cset w k i c) k' i' = if N.eq_dec k k' then (if N.eq_dec i i' then Some c else cfind w k' i') else cfind w k' i'.
Proof.
  unfold cfind, cset, sto; cbn [sl_comps with_comps].
  destruct (N.eq_dec k k') as [->|Hk].
  - rewrite NMF.add_eq_o by reflexivity.
    destruct (N.eq_dec i i') as [->|Hi].
    + rewrite NMF.add_eq_o by reflexivity. reflexivity.
    + rewrite NMF.add_neq_o by assumption. reflexivity.
  - rewrite NMF.add_neq_o by assumption. reflexivity.
Qed.

Lemma cfind_cdel w k i k' i' :
  cfind (cdel w k i) k' i' = if N.eq_dec k k' then (if N.eq_dec i i' then None else cfind w k' i') else cfind w k' i'.
Proof.
  unfold cfind, cdel, sto; cbn [sl_comps with_comps].
  destruct (N.eq_dec k k') as [->|Hk].
  - rewrite NMF.add_eq_o by reflexivity.
    destruct (N.eq_dec i i') as [->|Hi].
    + rewrite NMF.remove_eq_o by reflexivity. reflexivity.
    + rewrite NMF.remove_neq_o by assumption. reflexivity.
  - rewrite NMF.add_neq_o by assumption. reflexivity.
Qed.

Lemma cfind_purge w i k j : cfind (purge w i) k j = if N.eq_dec i j then None else cfind w k j.
Proof.
  unfold cfind, purge, sto; cbn [sl_comps].
  rewrite NMF.map_o. destruct (NM.find k (sl_comps w)) as [s|]; cbn [option_map].
  - destruct (N.eq_dec i j) as [->|Hi].
    + rewrite NMF.remove_eq_o by reflexivity. reflexivity.
    + rewrite NMF.remove_neq_o by assumption. reflexivity.
  - rewrite NMF.empty_o. destruct (N.eq_dec i j); reflexivity.
Qed.

Lemma markers_purge w i j :
  NM.find j (sl_markers (purge w i)) = if N.eq_dec i j then None else NM.find j (sl_markers w).
Proof.
  cbn [purge sl_markers]. destruct (N.eq_dec i j) as [->|Hi].
  - apply NMF.remove_eq_o. reflexivity.
  - apply NMF.remove_neq_o. assumption.
Qed.

Definition inl (j : N) (l : list N) : bool := if in_dec N.eq_dec j l then true else false.

Lemma inl_In j l : inl j l = true <-> In j l.
Proof. unfold inl. destruct (in_dec N.eq_dec j l); split; auto; discriminate. Qed.

Lemma purge_fold_life l : forall w, sl_life (fold_left purge l w) = sl_life w /\ sl_free (fold_left purge l w) = sl_free w
  /\ sl_index (fold_left purge l w) = sl_index w /\ sl_mapping (fold_left purge l w) = sl_mapping w.
Proof. induction l as [|x l IH]; intros w; cbn [fold_left]; [auto|]. destruct (IH (purge w x)) as [A [B [C D]]]. auto. Qed.

Lemma purge_fold_markers l : forall w j,
  NM.find j (sl_markers (fold_left purge l w)) = if inl j l then None else NM.find j (sl_markers w).
Proof.
  induction l as [|x l IH]; intros w j; cbn [fold_left]; [reflexivity|].
  rewrite IH, markers_purge. unfold inl.
  destruct (in_dec N.eq_dec j l) as [H|H], (in_dec N.eq_dec j (x :: l)) as [H'|H']; try reflexivity.
  - exfalso. apply H'. right. assumption.
  - destruct (N.eq_dec x j) as [->|Hne]; [reflexivity|]. destruct H' as [->|H']; congruence.
  - destruct (N.eq_dec x j) as [->|Hne]; [|reflexivity]. exfalso. apply H'. left. reflexivity.
Qed.

Lemma purge_fold_cfind l : forall w k j,
  cfind (fold_left purge l w) k j = if inl j l then None else cfind w k j.
Proof.
  induction l as [|x l IH]; intros w k j; cbn [fold_left]; [reflexivity|].
  rewrite IH, cfind_purge. unfold inl.
  destruct (in_dec N.eq_dec j l) as [H|H], (in_dec N.eq_dec j (x :: l)) as [H'|H']; try reflexivity.
  - exfalso. apply H'. right. assumption.
  - destruct (N.eq_dec x j) as [->|Hne]; [reflexivity|]. destruct H' as [->|H']; congruence.
  - destruct (N.eq_dec x j) as [->|Hne]; [|reflexivity]. exfalso. apply H'. left. reflexivity.
Qed.

(* ------------------------------------------------------------------ *)
(* aliveness in terms of the cell *)

Definition occ (w : slw) (i : N) : bool := occupied (cell (sl_life w) i).

Lemma alive_iff s e : l_is_alive s e = true <-> occupied (cell s (fst e)) = true /\ snd e = top (cell s (fst e)).
Proof.
  unfold l_is_alive. destruct (cell s (fst e)) as [|g|g kp|g kp]; cbn [occupied top]; rewrite ?Z.eqb_eq;
    split; try (intros [? ?]); try discriminate; auto.
Qed.

Lemma w_alive_iff w e : w_alive w e = true <-> occ w (fst e) = true /\ snd e = top (cell (sl_life w) (fst e)).
Proof. apply alive_iff. Qed.

Lemma alive_same_cell s s' e : cell s' (fst e) = cell s (fst e) -> l_is_alive s' e = l_is_alive s e.
Proof. intros H. unfold l_is_alive. rewrite H. reflexivity. Qed.

(* ------------------------------------------------------------------ *)
(* the invariant *)

Record Inv (w : slw) : Prop := {
  I_life : LInv (sl_life w);
  I_free_nd : NoDup (sl_free w);
  I_free : forall i, In i (sl_free w) <-> is_free (cell (sl_life w) i) = true;
  (* storages only hold components of entities that are not dead *)
  I_mk_occ : forall i m, NM.find i (sl_markers w) = Some m -> occ w i = true;
  I_c_occ : forall k i c, cfind w k i = Some c -> occ w i = true;
  (* (1) every live marked entity is what the mapping says for its id *)
  I_map : forall e m, mk_get w e = Some m -> NM.find m (sl_mapping w) = Some e;
  (* a mapping entry that points to a live entity points to the holder of that id *)
  I_back : forall m e, NM.find m (sl_mapping w) = Some e -> w_alive w e = true ->
                       NM.find (fst e) (sl_markers w) = Some m;
  (* (2) the counter is above every id in use *)
  I_idx_mk : forall i m, NM.find i (sl_markers w) = Some m -> m < sl_index w;
  I_idx_map : forall m e, NM.find m (sl_mapping w) = Some e -> m < sl_index w;
  (* handles in the mapping were issued by the allocator *)
  I_issued : forall m e, NM.find m (sl_mapping w) = Some e -> (snd e <= top (cell (sl_life w) (fst e)))%Z }.

Lemma Inv_empty : Inv sl_empty.
Proof.
  split; cbn [sl_empty sl_life sl_free sl_markers sl_index sl_mapping].
  - apply LInv_init.
  - constructor.
  - intros i. split; [intros []|]. unfold cell, l_init; cbn [cells]. rewrite NMF.empty_o. discriminate.
  - intros i m. rewrite NMF.empty_o. discriminate.
  - intros k i c. unfold cfind, sto; cbn [sl_comps sl_empty]. rewrite !NMF.empty_o. discriminate.
  - intros e m. unfold mk_get, w_alive; cbn [sl_life sl_markers sl_empty].
    destruct (l_is_alive l_init e); [rewrite NMF.empty_o|]; discriminate.
  - intros m e. rewrite NMF.empty_o. discriminate.
  - intros i m. rewrite NMF.empty_o. discriminate.
  - intros m e. rewrite NMF.empty_o. discriminate.
  - intros m e. rewrite NMF.empty_o. discriminate.
Qed.

Lemma mk_get_iff w e m : mk_get w e = Some m <-> w_alive w e = true /\ NM.find (fst e) (sl_markers w) = Some m.
Proof. unfold mk_get. destruct (w_alive w e); split; try (intros [? ?]); try discriminate; auto. Qed.

(* (3) no two live entities share a marker id *)
Theorem inv_unique w e1 e2 m : Inv w -> mk_get w e1 = Some m -> mk_get w e2 = Some m -> e1 = e2.
Proof. intros HI H1 H2. apply (I_map _ HI) in H1. apply (I_map _ HI) in H2. congruence. Qed.

(* the trusted lookup of retrieve_entity finds exactly the live holder *)
Lemma trusted_iff w m e : Inv w -> (ma_trusted w m = Some e <-> mk_get w e = Some m).
Proof.
  intros HI. unfold ma_trusted. split.
  - destruct (NM.find m (sl_mapping w)) as [e0|] eqn:F; [|discriminate].
    destruct (w_alive w e0) eqn:A; cbn [andb]; [|discriminate].
    destruct (NM.mem (fst e0) (sl_markers w)) eqn:M; [|discriminate].
    intros H; inversion H; subst e0. apply mk_get_iff. split; [assumption|].
    apply (I_back _ HI); assumption.
  - intros H. rewrite (I_map _ HI _ _ H). apply mk_get_iff in H. destruct H as [A F].
    rewrite A. cbn [andb]. rewrite NMF.mem_find_b, F. reflexivity.
Qed.

(* ------------------------------------------------------------------ *)
(* two general preservation lemmas for changes of the entity part *)

(* entities are added or only their flags change: occupied cells keep their
   generation, newly occupied cells get a larger one *)
Lemma Inv_grow w s' f' : Inv w -> LInv s' -> NoDup f' ->
  (forall i, In i f' <-> is_free (cell s' i) = true) ->
  (forall j, occ w j = true -> occupied (cell s' j) = true /\ top (cell s' j) = top (cell (sl_life w) j)) ->
  (forall j, occ w j = false -> occupied (cell s' j) = true -> (top (cell (sl_life w) j) < top (cell s' j))%Z) ->
  (forall j, occ w j = false -> occupied (cell s' j) = false -> top (cell s' j) = top (cell (sl_life w) j)) ->
  Inv (with_life w s' f').
Proof.
  intros HI HL Hnd Hfr Hocc Hnew Hsame.
  assert (forall e, w_alive (with_life w s' f') e = true -> occ w (fst e) = true -> w_alive w e = true) as Aold.
  { intros e A O. apply w_alive_iff. apply alive_iff in A. cbn [with_life sl_life] in A. destruct A as [A1 A2].
    destruct (Hocc _ O) as [_ T]. split; [assumption|]. rewrite A2. exact T. }
  split; cbn [with_life sl_life sl_free sl_markers sl_index sl_mapping]; try assumption.
  - intros i m F. apply (I_mk_occ _ HI) in F. apply (Hocc _ F).
  - intros k i c F. change (cfind (with_life w s' f') k i) with (cfind w k i) in F.
    apply (I_c_occ _ HI) in F. apply (Hocc _ F).
  - intros e m G. apply mk_get_iff in G. destruct G as [A F]. cbn [with_life sl_markers] in F.
    apply (I_map _ HI). apply mk_get_iff. split; [|assumption].
    apply Aold; [assumption|]. apply (I_mk_occ _ HI _ _ F).
  - intros m e F A. destruct (occ w (fst e)) eqn:O.
    + apply (I_back _ HI); [assumption|]. apply Aold; assumption.
    + exfalso. apply alive_iff in A. cbn [with_life sl_life] in A. destruct A as [A1 A2].
      pose proof (Hnew _ O A1). pose proof (I_issued _ HI _ _ F). lia.
  - apply (I_idx_mk _ HI).
  - apply (I_idx_map _ HI).
  - intros m e F. pose proof (I_issued _ HI _ _ F) as X.
    destruct (occ w (fst e)) eqn:O.
    + destruct (Hocc _ O) as [_ T]. lia.
    + destruct (occupied (cell s' (fst e))) eqn:O'.
      * pose proof (Hnew _ O O'). lia.
      * rewrite (Hsame _ O O'). assumption.
Qed.

(* the entities at the indices D die (same generation) and their components
   are purged; the other cells keep occupancy and generation *)
Lemma Inv_shrink w s' f' D : Inv w -> LInv s' -> NoDup f' ->
  (forall i, In i f' <-> is_free (cell s' i) = true) ->
  (forall j, In j D -> occupied (cell s' j) = false /\ top (cell s' j) = top (cell (sl_life w) j)) ->
  (forall j, ~ In j D -> occupied (cell s' j) = occ w j /\ top (cell s' j) = top (cell (sl_life w) j)) ->
  Inv (fold_left purge D (with_life w s' f')).
Proof.
  intros HI HL Hnd Hfr HD HnD.
  set (w' := fold_left purge D (with_life w s' f')).
  destruct (purge_fold_life D (with_life w s' f')) as [E1 [E2 [E3 E4]]]. fold w' in E1, E2, E3, E4.
  cbn [with_life sl_life sl_free sl_index sl_mapping] in E1, E2, E3, E4.
  assert (forall j, NM.find j (sl_markers w') = if inl j D then None else NM.find j (sl_markers w)) as EM.
  { intros j. unfold w'. rewrite purge_fold_markers. reflexivity. }
  assert (forall k j, cfind w' k j = if inl j D then None else cfind w k j) as EC.
  { intros k j. unfold w'. rewrite purge_fold_cfind. reflexivity. }
  assert (forall j, (top (cell s' j) = top (cell (sl_life w) j))) as ET.
  { intros j. destruct (in_dec N.eq_dec j D) as [H|H]; [apply (HD _ H) | apply (HnD _ H)]. }
  assert (forall e, w_alive w' e = true -> ~ In (fst e) D /\ w_alive w e = true) as Aold.
  { intros e A. unfold w_alive in A. rewrite E1 in A. apply alive_iff in A. destruct A as [A1 A2].
    assert (~ In (fst e) D) as N. { intros H. destruct (HD _ H) as [X _]. congruence. }
    split; [assumption|]. apply w_alive_iff. destruct (HnD _ N) as [X Y]. split; [congruence|]. rewrite A2. exact Y. }
  split; rewrite ?E1, ?E2, ?E3, ?E4; try assumption.
  - intros i m F. rewrite EM in F. destruct (inl i D) eqn:X; [discriminate|].
    unfold occ. rewrite E1. assert (~ In i D) as N by (intros H; apply inl_In in H; congruence).
    destruct (HnD _ N) as [Y _]. rewrite Y. apply (I_mk_occ _ HI _ _ F).
  - intros k i c F. rewrite EC in F. destruct (inl i D) eqn:X; [discriminate|].
    unfold occ. rewrite E1. assert (~ In i D) as N by (intros H; apply inl_In in H; congruence).
    destruct (HnD _ N) as [Y _]. rewrite Y. apply (I_c_occ _ HI _ _ _ F).
  - intros e m G. apply mk_get_iff in G. destruct G as [A F]. destruct (Aold _ A) as [N A'].
    rewrite EM in F. destruct (inl (fst e) D) eqn:X; [discriminate|].
    apply (I_map _ HI). apply mk_get_iff. auto.
  - intros m e F A. destruct (Aold _ A) as [N A']. rewrite EM.
    destruct (inl (fst e) D) eqn:X; [apply inl_In in X; contradiction|].
    apply (I_back _ HI); assumption.
  - intros i m F. rewrite EM in F. destruct (inl i D); [discriminate|]. apply (I_idx_mk _ HI _ _ F).
  - apply (I_idx_map _ HI).
  - intros m e F. rewrite ET. apply (I_issued _ HI _ _ F).
Qed.

(* ------------------------------------------------------------------ *)
(* creation *)

Lemma choose_valid w : Inv w -> valid_choice (sl_life w) (sl_choose w) = true.
Proof.
  intros HI. unfold sl_choose. destruct (sl_free w) as [|i l] eqn:F.
  - assert (forall i, is_free (cell (sl_life w) i) = false) as X.
    { intros i. destruct (is_free (cell (sl_life w) i)) eqn:Y; [|reflexivity].
      apply (I_free _ HI) in Y. rewrite F in Y. destruct Y. }
    unfold valid_choice. rewrite (J_beyond _ (I_life _ HI)) by lia.
    rewrite N.eqb_refl, (no_free_has_free _ (I_life _ HI) X). reflexivity.
  - assert (is_free (cell (sl_life w) i) = true) as X by (apply (I_free _ HI); rewrite F; left; reflexivity).
    unfold valid_choice. destruct (cell (sl_life w) i); try discriminate. reflexivity.
Qed.

Lemma choose_unocc w : Inv w -> occ w (sl_choose w) = false.
Proof.
  intros HI. destruct (valid_choice_cases _ _ (choose_valid w HI)) as [[g E]|[E _]]; unfold occ; rewrite E; reflexivity.
Qed.

Definition new_ent (w : slw) : entity := (sl_choose w, (top (cell (sl_life w) (sl_choose w)) + 1)%Z).

Lemma create_eq pend w :
  sl_create pend w = (with_life w (fst (l_create pend (sl_life w) (sl_choose w))) (tl (sl_free w)), new_ent w).
Proof. reflexivity. Qed.

Lemma Inv_create pend w : Inv w -> Inv (fst (sl_create pend w)).
Proof.
  intros HI. rewrite create_eq. cbn [fst].
  pose proof (choose_valid w HI) as V. pose proof (choose_unocc w HI) as U.
  set (i := sl_choose w) in *.
  apply Inv_grow; try assumption.
  - apply create_LInv; [apply (I_life _ HI) | assumption].
  - pose proof (I_free_nd _ HI) as X. destruct (sl_free w); [constructor | inversion X; assumption].
  - intros j. rewrite cell_create. pose proof (I_free _ HI) as Fr. pose proof (I_free_nd _ HI) as Nd.
    unfold i, sl_choose in *. destruct (sl_free w) as [|i0 l] eqn:F; cbn [tl].
    + split; [intros []|]. destruct (N.eq_dec (used (sl_life w)) j); [destruct pend; discriminate|].
      intros Y. apply Fr in Y. destruct Y.
    + inversion Nd; subst. destruct (N.eq_dec i0 j) as [->|Hne].
      * split; [intros; contradiction | destruct pend; discriminate].
      * rewrite <- Fr. split; [intros; right; assumption | intros [->|]; [congruence | assumption]].
  - intros j O. rewrite cell_create. destruct (N.eq_dec i j) as [<-|Hne]; [congruence|]. auto.
  - intros j O O'. rewrite cell_create in *. destruct (N.eq_dec i j) as [<-|Hne]; [|unfold occ in O; congruence].
    destruct pend; cbn [top]; lia.
  - intros j O O'. rewrite cell_create in *. destruct (N.eq_dec i j) as [<-|Hne]; [destruct pend; discriminate|]. reflexivity.
Qed.

Lemma alive_create pend w x : Inv w ->
  w_alive (fst (sl_create pend w)) x = if entity_eq_dec x (new_ent w) then true else w_alive w x.
Proof.
  intros HI. rewrite create_eq. cbn [fst]. unfold w_alive. cbn [with_life sl_life].
  pose proof (choose_unocc w HI) as U. unfold occ in U.
  unfold l_is_alive. rewrite cell_create. unfold new_ent.
  destruct (entity_eq_dec x _) as [->|Hne]; cbn [fst snd].
  - destruct (N.eq_dec (sl_choose w) (sl_choose w)); [|congruence]. destruct pend; apply Z.eqb_refl.
  - destruct (N.eq_dec (sl_choose w) (fst x)) as [E|E]; [|reflexivity].
    rewrite <- E.
    assert ((top (cell (sl_life w) (sl_choose w)) + 1 =? snd x)%Z = false) as X.
    { apply Z.eqb_neq. intros Y. apply Hne. destruct x; cbn [fst snd] in *. subst. reflexivity. }
    destruct (cell (sl_life w) (sl_choose w)); try discriminate; destruct pend; cbn [top] in *; assumption.
Qed.

Lemma new_ent_dead w : Inv w -> w_alive w (new_ent w) = false.
Proof.
  intros HI. destruct (w_alive w (new_ent w)) eqn:A; [|reflexivity].
  apply w_alive_iff in A. destruct A as [A _]. cbn [new_ent fst] in A. rewrite (choose_unocc w HI) in A. discriminate.
Qed.

Lemma new_ent_unocc w : Inv w -> occ w (fst (new_ent w)) = false.
Proof. intros HI. apply (choose_unocc w HI). Qed.

(* ------------------------------------------------------------------ *)
(* deletion *)

Lemma Inv_delete w e : Inv w -> Inv (fst (sl_delete w e)).
Proof.
  intros HI. unfold sl_delete. destruct (w_alive w e) eqn:A; [|assumption]. cbn [fst].
  apply w_alive_iff in A. destruct A as [O T].
  assert (cell (sl_life w) (fst e) <> Never) as NN by (intros E; unfold occ in O; rewrite E in O; discriminate).
  change (purge ?x (fst e)) with (fold_left purge [fst e] x).
  apply Inv_shrink; try assumption.
  - apply set_cell_LInv; [apply (I_life _ HI) | assumption | discriminate |].
    cbn [top]. rewrite T. apply (J_pos _ (I_life _ HI)). assumption.
  - constructor; [|apply (I_free_nd _ HI)]. intros H. apply (I_free _ HI) in H.
    unfold occ in O. destruct (cell (sl_life w) (fst e)); discriminate.
  - intros j. rewrite cell_set. destruct (N.eq_dec (fst e) j) as [<-|Hne].
    + split; [reflexivity | intros; left; reflexivity].
    + rewrite <- (I_free _ HI). split; [intros [?|?]; [congruence|assumption] | intros; right; assumption].
  - intros j [<-|[]]. rewrite cell_set_eq. cbn [occupied top]. auto.
  - intros j N. rewrite cell_set_neq by (intros E; apply N; left; assumption). auto.
Qed.

Lemma Inv_delete_many es : forall w, Inv w -> Inv (fst (sl_delete_many w es)).
Proof.
  induction es as [|e r IH]; intros w HI; cbn [sl_delete_many]; [assumption|].
  pose proof (Inv_delete w e HI) as X. destruct (sl_delete w e) as [w' ok]. cbn [fst] in X.
  destruct ok; [apply IH; assumption | assumption].
Qed.

(* killing does not look at components, purging does not look at lives *)
Lemma kill_loop_purge es : forall w i,
  kill_loop (purge w i) es = let '(w', ks, ok) := kill_loop w es in (purge w' i, ks, ok).
Proof.
  induction es as [|e r IH]; intros w i; cbn [kill_loop]; [reflexivity|].
  change (w_alive (purge w i) e) with (w_alive w e). destruct (w_alive w e); [|reflexivity].
  change (kill_only (purge w i) e) with (purge (kill_only w e) i). rewrite IH.
  destruct (kill_loop (kill_only w e) r) as [[w' ks] ok]. reflexivity.
Qed.

Theorem delete_many_stmt_eq es : forall w, sl_delete_many_stmt w es = sl_delete_many w es.
Proof.
  induction es as [|e r IH]; intros w; [reflexivity|].
  cbn [sl_delete_many]. unfold sl_delete_many_stmt. cbn [kill_loop]. unfold sl_delete.
  destruct (w_alive w e); [|reflexivity].
  change (with_life w (set_cell (sl_life w) (fst e) (Free (snd e))) (fst e :: sl_free w)) with (kill_only w e).
  rewrite <- IH. unfold sl_delete_many_stmt. rewrite kill_loop_purge.
  destruct (kill_loop (kill_only w e) r) as [[w' ks] ok]. reflexivity.
Qed.

Lemma Inv_edelete w e : Inv w -> Inv (fst (sl_edelete w e)).
Proof.
  intros HI. unfold sl_edelete, l_kill_def. destruct (l_is_alive (sl_life w) e) eqn:A; cbn [fst].
  - assert (forall j, occupied (cell (set_cell (sl_life w) (fst e) (set_kp (cell (sl_life w) (fst e)))) j) = occ w j
                      /\ top (cell (set_cell (sl_life w) (fst e) (set_kp (cell (sl_life w) (fst e)))) j) = top (cell (sl_life w) j)
                      /\ is_free (cell (set_cell (sl_life w) (fst e) (set_kp (cell (sl_life w) (fst e)))) j) = is_free (cell (sl_life w) j)) as X.
    { intros j. rewrite cell_set. unfold occ. destruct (N.eq_dec (fst e) j) as [<-|Hne]; [|auto].
      destruct (cell (sl_life w) (fst e)); cbn; auto. }
    apply Inv_grow; try assumption.
    + pose proof (kill_def_LInv (sl_life w) e (I_life _ HI)) as Y. unfold l_kill_def in Y. rewrite A in Y. exact Y.
    + apply (I_free_nd _ HI).
    + intros j. destruct (X j) as [_ [_ ->]]. apply (I_free _ HI).
    + intros j O. destruct (X j) as [-> [-> _]]. auto.
    + intros j O O'. destruct (X j) as [Y _]. congruence.
    + intros j _ _. apply X.
  - destruct w; assumption.
Qed.

Lemma in_dead_iff s i : In i (map fst (snd (l_merge s))) <-> dies_at_merge (cell s i) = true.
Proof.
  unfold l_merge; cbn [snd]. rewrite map_map. cbn [fst]. rewrite in_map_iff. split.
  - intros [[j c] [E H]]. cbn [fst] in E. subst j. apply filter_In in H. destruct H as [H D]. cbn [snd] in D.
    apply in_elements_cell in H. unfold cell. rewrite H. assumption.
  - intros D. unfold cell in D. destruct (NM.find i (cells s)) as [c|] eqn:F; [|discriminate].
    exists (i, c). split; [reflexivity|]. apply filter_In. split; [apply in_elements_cell; assumption | assumption].
Qed.

Lemma dead_nodup s : NoDup (map fst (snd (l_merge s))).
Proof.
  unfold l_merge; cbn [snd]. rewrite map_map. cbn [fst].
  pose proof (NM.elements_3w (cells s)) as H.
  induction H as [|[i c] l Hn Hnd IH]; cbn [filter map]; [constructor|].
  destruct (dies_at_merge (snd (i, c))); [|assumption].
  cbn [map fst]. constructor; [|assumption].
  intros X. apply in_map_iff in X. destruct X as [[j d] [E Y]]. cbn [fst] in E. subst j.
  apply filter_In in Y. destruct Y as [Y _]. apply Hn. apply InA_alt. exists (i, d). split; [reflexivity | assumption].
Qed.

Lemma Inv_maintain w : Inv w -> Inv (sl_maintain w).
Proof.
  intros HI. unfold sl_maintain.
  pose proof (in_dead_iff (sl_life w)) as HD. pose proof (dead_nodup (sl_life w)) as ND.
  pose proof (merge_LInv _ (I_life _ HI)) as HL. pose proof (cell_merge (sl_life w)) as CM.
  destruct (l_merge (sl_life w)) as [s' dead]. cbn [fst snd] in *.
  apply Inv_shrink; try assumption.
  - apply NoDup_app_intro.
    + apply NoDup_rev. assumption.
    + apply (I_free_nd _ HI).
    + intros x H1 H2. apply in_rev in H1. apply HD in H1. apply (I_free _ HI) in H2.
      destruct (cell (sl_life w) x) as [|g|g [|]|g [|]]; discriminate.
  - intros i. rewrite in_app_iff, <- in_rev, HD, (I_free _ HI), CM.
    destruct (cell (sl_life w) i) as [|g|g [|]|g [|]]; cbn; split; auto; intros [?|?]; auto; discriminate.
  - intros j H. apply HD in H. rewrite CM. destruct (cell (sl_life w) j) as [|g|g [|]|g [|]]; try discriminate; cbn; auto.
  - intros j H. rewrite HD in H. rewrite CM. unfold occ.
    destruct (cell (sl_life w) j) as [|g|g [|]|g [|]]; cbn in *; auto; congruence.
Qed.

(* ------------------------------------------------------------------ *)
(* markers and the allocator *)

(* attaching a fresh id to a live unmarked entity: allocate + storage.insert *)
Lemma Inv_attach w e m idx' : Inv w -> w_alive w e = true -> NM.find (fst e) (sl_markers w) = None ->
  (forall e', mk_get w e' <> Some m) -> sl_index w <= idx' -> m < idx' ->
  Inv (with_markers (with_alloc w idx' (NM.add m e (sl_mapping w))) (NM.add (fst e) m (sl_markers w))).
Proof.
  intros HI A Fn Fresh Hle Hlt.
  split; cbn [with_markers with_alloc sl_life sl_free sl_markers sl_index sl_mapping];
    try apply (I_life _ HI); try apply (I_free_nd _ HI); try apply (I_free _ HI).
  - intros i m0 F. destruct (N.eq_dec (fst e) i) as [<-|Hne].
    + apply w_alive_iff in A. apply A.
    + rewrite NMF.add_neq_o in F by assumption. apply (I_mk_occ _ HI _ _ F).
  - intros k i c F. apply (I_c_occ _ HI k i c F).
  - intros x mx G. apply mk_get_iff in G. destruct G as [Ax F].
    cbn [with_markers with_alloc sl_markers] in F. change (w_alive _ x) with (w_alive w x) in Ax.
    destruct (N.eq_dec (fst e) (fst x)) as [E|Hne].
    + rewrite NMF.add_eq_o in F by assumption. inversion F; subst mx.
      rewrite NMF.add_eq_o by reflexivity. f_equal. apply (life_one_per_index (sl_life w)); assumption.
    + rewrite NMF.add_neq_o in F by assumption.
      assert (mk_get w x = Some mx) as G by (apply mk_get_iff; auto).
      rewrite NMF.add_neq_o by (intros ->; apply (Fresh x); assumption).
      apply (I_map _ HI _ _ G).
  - intros mx x F Ax. change (w_alive _ x) with (w_alive w x) in Ax.
    destruct (N.eq_dec m mx) as [<-|Hne].
    + rewrite NMF.add_eq_o in F by reflexivity. inversion F; subst x. apply NMF.add_eq_o. reflexivity.
    + rewrite NMF.add_neq_o in F by assumption. pose proof (I_back _ HI _ _ F Ax) as G.
      rewrite NMF.add_neq_o; [assumption|]. intros E. rewrite <- E in G. congruence.
  - intros i m0 F. destruct (N.eq_dec (fst e) i) as [<-|Hne].
    + rewrite NMF.add_eq_o in F by reflexivity. inversion F; subst. assumption.
    + rewrite NMF.add_neq_o in F by assumption. pose proof (I_idx_mk _ HI _ _ F). lia.
  - intros mx x F. destruct (N.eq_dec m mx) as [<-|Hne]; [assumption|].
    rewrite NMF.add_neq_o in F by assumption. pose proof (I_idx_map _ HI _ _ F). lia.
  - intros mx x F. destruct (N.eq_dec m mx) as [<-|Hne].
    + rewrite NMF.add_eq_o in F by reflexivity. inversion F; subst x. apply w_alive_iff in A. destruct A as [_ ->]. lia.
    + rewrite NMF.add_neq_o in F by assumption. apply (I_issued _ HI _ _ F).
Qed.

(* Marker::update on the holder of the id: nothing observable changes *)
Lemma update_same_find w (e : entity) m : NM.find (fst e) (sl_markers w) = Some m ->
  forall j, NM.find j (NM.add (fst e) m (sl_markers w)) = NM.find j (sl_markers w).
Proof.
  intros F j. destruct (N.eq_dec (fst e) j) as [<-|Hne].
  - rewrite NMF.add_eq_o by reflexivity. auto.
  - apply NMF.add_neq_o. assumption.
Qed.

Lemma Inv_markers_ext w mk : (forall j, NM.find j mk = NM.find j (sl_markers w)) -> Inv w -> Inv (with_markers w mk).
Proof.
  intros E HI.
  split; cbn [with_markers sl_life sl_free sl_markers sl_index sl_mapping];
    try apply (I_life _ HI); try apply (I_free_nd _ HI); try apply (I_free _ HI);
    try apply (I_idx_map _ HI); try apply (I_issued _ HI).
  - intros i m. rewrite E. apply (I_mk_occ _ HI).
  - intros k i c F. apply (I_c_occ _ HI k i c F).
  - intros e m G. apply (I_map _ HI). unfold mk_get in *. change (w_alive (with_markers w mk) e) with (w_alive w e) in G.
    cbn [with_markers sl_markers] in G. rewrite E in G. exact G.
  - intros m e F A. rewrite E. apply (I_back _ HI); assumption.
  - intros i m. rewrite E. apply (I_idx_mk _ HI).
Qed.

(* component storages *)
Lemma Inv_st_insert w k e c : Inv w -> Inv (st_insert w k e c).
Proof.
  intros HI. unfold st_insert. destruct (w_alive w e) eqn:A; [|assumption].
  split; try apply HI.
  intros k' i c' F. rewrite cfind_cset in F. change (occ (cset w k (fst e) c) i) with (occ w i).
  destruct (N.eq_dec k k'); [destruct (N.eq_dec (fst e) i) as [<-|]|].
  - apply w_alive_iff in A. apply A.
  - apply (I_c_occ _ HI _ _ _ F).
  - apply (I_c_occ _ HI _ _ _ F).
Qed.

Lemma Inv_st_remove w k e : Inv w -> Inv (st_remove w k e).
Proof.
  intros HI. unfold st_remove. destruct (w_alive w e) eqn:A; [|assumption].
  split; try apply HI.
  intros k' i c' F. rewrite cfind_cdel in F. change (occ (cdel w k (fst e)) i) with (occ w i).
  destruct (N.eq_dec k k'); [destruct (N.eq_dec (fst e) i) as [<-|]|]; try discriminate; apply (I_c_occ _ HI _ _ _ F).
Qed.

(* (&entities, &markers).join() *)
Lemma in_join_marked w e m : In (e, m) (join_marked w) <->
  occ w (fst e) = true /\ snd e = top (cell (sl_life w) (fst e)) /\ NM.find (fst e) (sl_markers w) = Some m.
Proof.
  unfold join_marked. rewrite in_flat_map. split.
  - intros [[i m0] [Hin H]]. cbn [fst snd] in H.
    destruct (occupied (cell (sl_life w) i)) eqn:O; [|destruct H].
    destruct H as [H|[]]. inversion H; subst. cbn [fst snd].
    split; [assumption|]. split; [reflexivity|].
    apply NMF.find_mapsto_iff, NMF.elements_mapsto_iff, InA_alt. exists (i, m). split; [split; reflexivity | assumption].
  - intros [O [T F]]. destruct e as [i g]. cbn [fst snd] in *. exists (i, m). split.
    + apply NMF.find_mapsto_iff, NMF.elements_mapsto_iff, InA_alt in F. destruct F as [[j m0] [[E1 E2] Hin]].
      cbn in E1, E2. subst. assumption.
    + cbn [fst snd]. unfold occ in O. rewrite O. left. subst g. reflexivity.
Qed.

Lemma in_join_marked_get w e m : Inv w -> (In (e, m) (join_marked w) <-> mk_get w e = Some m).
Proof.
  intros HI. rewrite in_join_marked, mk_get_iff, w_alive_iff. tauto.
Qed.

Lemma fold_add_in (l : list (entity * N)) : forall mp m e,
  NM.find m (fold_left (fun mp (p : entity * N) => NM.add (snd p) (fst p) mp) l mp) = Some e ->
  In (e, m) l \/ NM.find m mp = Some e.
Proof.
  induction l as [|[e0 m0] l IH]; intros mp m e F; cbn [fold_left] in F; [auto|].
  apply IH in F. destruct F as [F|F]; [left; right; assumption|]. cbn [fst snd] in F.
  destruct (N.eq_dec m0 m) as [<-|Hne].
  - rewrite NMF.add_eq_o in F by reflexivity. inversion F; subst. left; left; reflexivity.
  - rewrite NMF.add_neq_o in F by assumption. auto.
Qed.

Lemma fold_add_find (l : list (entity * N)) : forall mp m e,
  (forall e', In (e', m) l -> e' = e) -> (In (e, m) l \/ NM.find m mp = Some e) ->
  NM.find m (fold_left (fun mp (p : entity * N) => NM.add (snd p) (fst p) mp) l mp) = Some e.
Proof.
  induction l as [|[e0 m0] l IH]; intros mp m e U H; cbn [fold_left].
  - destruct H as [[]|H]; assumption.
  - apply IH; [intros e' H'; apply U; right; assumption|]. cbn [fst snd].
    destruct H as [[H|H]|H].
    + inversion H; subst. right. apply NMF.add_eq_o. reflexivity.
    + left. assumption.
    + destruct (N.eq_dec m0 m) as [<-|Hne].
      * right. rewrite NMF.add_eq_o by reflexivity. f_equal. apply U. left. reflexivity.
      * right. rewrite NMF.add_neq_o by assumption. assumption.
Qed.

(* after allocator.maintain the mapping is exactly "id -> its live holder" *)
Lemma ma_maintain_find w m e : Inv w -> (NM.find m (sl_mapping (ma_maintain w)) = Some e <-> mk_get w e = Some m).
Proof.
  intros HI. cbn [ma_maintain with_alloc sl_mapping]. split.
  - intros F. apply fold_add_in in F. destruct F as [F|F]; [apply in_join_marked_get; assumption|].
    rewrite NMF.empty_o in F. discriminate.
  - intros G. apply fold_add_find.
    + intros e' H. apply in_join_marked_get in H; [|assumption]. apply (inv_unique w e' e m HI); assumption.
    + left. apply in_join_marked_get; assumption.
Qed.

Lemma Inv_ma_maintain w : Inv w -> Inv (ma_maintain w).
Proof.
  intros HI.
  split; try apply HI.
  - intros e m G. change (mk_get (ma_maintain w) e) with (mk_get w e) in G. apply ma_maintain_find; assumption.
  - intros m e F A. apply ma_maintain_find in F; [|assumption]. apply mk_get_iff in F. apply F.
  - intros m e F. apply ma_maintain_find in F; [|assumption]. apply mk_get_iff in F. destruct F as [_ F].
    apply (I_idx_mk _ HI _ _ F).
  - intros m e F. apply ma_maintain_find in F; [|assumption]. apply mk_get_iff in F. destruct F as [A _].
    apply w_alive_iff in A. destruct A as [_ ->]. change (sl_life (ma_maintain w)) with (sl_life w). lia.
Qed.

(* mark *)
Lemma Inv_mark w e : Inv w -> Inv (fst (ma_mark w e)).
Proof.
  intros HI. unfold ma_mark. destruct (w_alive w e) eqn:A; [|assumption].
  destruct (NM.find (fst e) (sl_markers w)) as [m|] eqn:F; [assumption|].
  cbn [ma_allocate fst with_alloc sl_markers].
  apply Inv_attach; try assumption; try lia.
  intros e' G. apply mk_get_iff in G. destruct G as [_ G]. pose proof (I_idx_mk _ HI _ _ G). lia.
Qed.

(* "fresh ids are fresh": the caller of allocate(e, Some(id)) picks an id no live entity holds *)
Definition id_fresh (w : slw) (id : N) : Prop := forall e', mk_get w e' <> Some id.

Lemma Inv_mark_id w e id : Inv w -> id_fresh w id -> Inv (fst (ma_mark_id w e id)).
Proof.
  intros HI Fr. unfold ma_mark_id. destruct (w_alive w e) eqn:A; [|assumption].
  destruct (NM.find (fst e) (sl_markers w)) as [m|] eqn:F; [assumption|].
  cbn [ma_allocate fst with_alloc sl_markers].
  apply Inv_attach; try assumption; destruct (N.leb_spec (sl_index w) id); lia.
Qed.

(* retrieve_entity *)
Lemma trusted_none_fresh w id : Inv w -> ma_trusted w id = None -> id_fresh w id.
Proof. intros HI T e' G. apply (trusted_iff w id e' HI) in G. congruence. Qed.

Lemma retrieve_hit w id e : ma_trusted w id = Some e ->
  ma_retrieve w id = (with_markers w (NM.add (fst e) id (sl_markers w)), e).
Proof. intros T. unfold ma_retrieve. rewrite T. reflexivity. Qed.

Lemma retrieve_miss w id : ma_trusted w id = None ->
  ma_retrieve w id =
  (let w1 := fst (sl_create true w) in
   with_markers (with_alloc w1 (if N.leb (sl_index w) id then id + 1 else sl_index w) (NM.add id (new_ent w) (sl_mapping w)))
                (NM.add (fst (new_ent w)) id (sl_markers w)), new_ent w).
Proof. intros T. unfold ma_retrieve. rewrite T. reflexivity. Qed.

Lemma Inv_retrieve w id : Inv w -> Inv (fst (ma_retrieve w id)).
Proof.
  intros HI. destruct (ma_trusted w id) as [e|] eqn:T.
  - rewrite (retrieve_hit _ _ _ T). cbn [fst]. apply Inv_markers_ext; [|assumption].
    apply update_same_find. apply (trusted_iff w id e HI) in T. apply mk_get_iff in T. apply T.
  - rewrite (retrieve_miss _ _ T). cbn [fst].
    pose proof (Inv_create true w HI) as HI1.
    set (w1 := fst (sl_create true w)) in *.
    change (sl_index w) with (sl_index w1). change (sl_mapping w) with (sl_mapping w1).
    change (sl_markers w) with (sl_markers w1).
    apply Inv_attach; try assumption.
    + unfold w1. rewrite alive_create by assumption. destruct (entity_eq_dec (new_ent w) (new_ent w)); congruence.
    + change (sl_markers w1) with (sl_markers w).
      destruct (NM.find (fst (new_ent w)) (sl_markers w)) as [m|] eqn:F; [|reflexivity].
      apply (I_mk_occ _ HI) in F. rewrite (new_ent_unocc w HI) in F. discriminate.
    + intros e' G. apply mk_get_iff in G. destruct G as [A F]. change (sl_markers w1) with (sl_markers w) in F.
      unfold w1 in A. rewrite alive_create in A by assumption.
      destruct (entity_eq_dec e' (new_ent w)) as [->|Hne].
      * apply (I_mk_occ _ HI) in F. rewrite (new_ent_unocc w HI) in F. discriminate.
      * apply (trusted_none_fresh w id HI T e'). apply mk_get_iff. auto.
    + destruct (N.leb_spec (sl_index w1) id); lia.
    + destruct (N.leb_spec (sl_index w1) id); lia.
Qed.
