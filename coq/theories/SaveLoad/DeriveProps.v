(* Theorems about the model of the derive macros (SaveLoad/Derive.v).
   All by induction on the shape: no bound on field counts, nesting depth or
   the number of definitions. *)
From SV Require Import SaveLoad.Derive.

(* ------------------------------------------------------------------ *)
(* induction principle for the nested type of field types *)

Section TyInd.
  Variable P : ty -> Prop.
  Hypothesis HPrim : P TPrim.
  Hypothesis HEntity : P TEntity.
  Hypothesis HNamedS : forall k ta, P ta -> P (TNamed k (Some ta)).
  Hypothesis HNamedN : forall k, P (TNamed k None).
  Hypothesis HTuple : forall l, Forall P l -> P (TTuple l).
  Hypothesis HArray : forall t n, P t -> P (TArray t n).
  Hypothesis HParam : P TParam.
  Hypothesis HOther : P TOther.
  Hypothesis HData : forall t, P t -> P (TDataOf t).

  Fixpoint ty_ind' (t : ty) : P t :=
    match t with
    | TPrim => HPrim
    | TEntity => HEntity
    | TNamed k (Some ta) => HNamedS k ta (ty_ind' ta)
    | TNamed k None => HNamedN k
    | TTuple l => HTuple l ((fix go (l : list ty) : Forall P l :=
                               match l with
                               | [] => Forall_nil P
                               | x :: l' => Forall_cons x (ty_ind' x) (go l')
                               end) l)
    | TArray t' n => HArray t' n (ty_ind' t')
    | TParam => HParam
    | TOther => HOther
    | TDataOf t' => HData t' (ty_ind' t')
    end.
End TyInd.

(* ------------------------------------------------------------------ *)
(* outcomes *)

Lemma bind_ok {A B} (r : res A) (f : A -> res B) y :
  bind r f = Ok y -> exists a, r = Ok a /\ f a = Ok y.
Proof. destruct r; cbn; intros H; try discriminate. eauto. Qed.

Lemma rmap_ok {A B} (f : A -> B) (r : res A) y : rmap f r = Ok y -> exists a, r = Ok a /\ y = f a.
Proof.
  unfold rmap. intros H. apply bind_ok in H. destruct H as (a & Ha & Hy). inversion Hy. eauto.
Qed.

Lemma clone_plain_ok t v x : clone_plain t v = Ok x -> x = v /\ plain_ty t = true /\ has_plain t v = true.
Proof.
  unfold clone_plain. destruct (plain_ty t) eqn:Hp; cbn [andb]; [|discriminate].
  destruct (has_plain t v) eqn:Hh; [|discriminate]. intros H. inversion H. auto.
Qed.

Lemma clone_plain_intro t v : plain_ty t = true -> has_plain t v = true -> clone_plain t v = Ok v.
Proof. unfold clone_plain. intros -> ->. reflexivity. Qed.

Lemma clone_plain_not_panic t v : clone_plain t v <> Panic.
Proof. unfold clone_plain. destruct (plain_ty t && has_plain t v); discriminate. Qed.

Lemma lookup_conv_env leaf E k p v :
  conv_env leaf E k p v =
  match lookup E k with
  | Some (d, E') => conv_def leaf (conv_env leaf E') p d v
  | None => Bad
  end.
Proof.
  induction E as [|d E IH]; cbn [conv_env lookup]; [reflexivity|].
  destruct (Nat.eqb k (length E)); [reflexivity|apply IH].
Qed.

(* ------------------------------------------------------------------ *)
(* zipM *)

Lemma zipM_nth {A B C} (f : A -> B -> res C) : forall la lb lc,
  zipM f la lb = Ok lc ->
  length lb = length la /\ length lc = length la /\
  forall i a b, nth_error la i = Some a -> nth_error lb i = Some b ->
                exists c, nth_error lc i = Some c /\ f a b = Ok c.
Proof.
  induction la as [|a la IH]; intros [|b lb] lc H; cbn [zipM] in H; try discriminate.
  - inversion H; subst. repeat split; auto. intros [|i] ? ? Hi; discriminate.
  - apply bind_ok in H. destruct H as (c & Hc & H).
    apply bind_ok in H. destruct H as (cs & Hcs & H). inversion H; subst.
    destruct (IH _ _ Hcs) as (L1 & L2 & Hn). cbn [length]. repeat split; try congruence.
    intros [|i] a' b' Ha Hb; cbn [nth_error] in *.
    + inversion Ha; inversion Hb; subst. eauto.
    + eauto.
Qed.

Lemma zipM_inv {A B} (f g : A -> B -> res B) (Pb : B -> Prop) :
  (forall a b c, Pb b -> f a b = Ok c -> g a c = Ok b) ->
  forall la lb lc, Forall Pb lb -> zipM f la lb = Ok lc -> zipM g la lc = Ok lb.
Proof.
  intros Hfg. induction la as [|a la IH]; intros [|b lb] lc HP H; cbn [zipM] in H; try discriminate.
  - inversion H. reflexivity.
  - apply bind_ok in H. destruct H as (c & Hc & H).
    apply bind_ok in H. destruct H as (cs & Hcs & H). inversion H; subst.
    inversion HP; subst. cbn [zipM]. rewrite (Hfg _ _ _ H2 Hc). cbn [bind].
    rewrite (IH _ _ H3 Hcs). reflexivity.
Qed.

Lemma zipM_total {A B C} (f : A -> B -> res C) (h : A -> B -> bool) (Pa : A -> Prop) (Pb : B -> Prop) :
  (forall a b, Pa a -> h a b = true -> Pb b -> exists c, f a b = Ok c) ->
  forall la lb, Forall Pa la -> forall2b h la lb = true -> Forall Pb lb -> exists lc, zipM f la lb = Ok lc.
Proof.
  intros Hf. induction la as [|a la IH]; intros [|b lb] Ha Hh Hb; cbn [forall2b] in Hh; try discriminate.
  - exists []. reflexivity.
  - apply andb_true_iff in Hh. destruct Hh as [Hh1 Hh2].
    inversion Ha; inversion Hb; subst.
    destruct (Hf a b) as (c & Hc); auto.
    destruct (IH lb) as (cs & Hcs); auto.
    exists (c :: cs). cbn [zipM]. rewrite Hc. cbn [bind]. rewrite Hcs. reflexivity.
Qed.

(* ------------------------------------------------------------------ *)
(* entity leaves of composite values *)

Lemma ents_Forall (P : entity -> Prop) (l : list tree) :
  (forall e, In e (flat_map ents l) -> P e) -> Forall (fun v => forall e, In e (ents v) -> P e) l.
Proof.
  intros H. apply Forall_forall. intros v Hv e He. apply H. apply in_flat_map. eauto.
Qed.

Lemma ents_Forall_named (P : entity -> Prop) (l : list (N * tree)) :
  (forall e, In e (flat_map (fun nv => ents (snd nv)) l) -> P e) ->
  Forall (fun nv => forall e, In e (ents (snd nv)) -> P e) l.
Proof.
  intros H. apply Forall_forall. intros v Hv e He. apply H. apply in_flat_map. eauto.
Qed.

(* ================================================================== *)
(* 1. round trip *)

Section RoundTrip.
  Variable Q : entity -> Prop.          (* where the two id mappings are inverse *)

  Definition entsQ (v : tree) : Prop := forall e, In e (ents v) -> Q e.
  (* [g] undoes [f] on values all of whose entities satisfy Q *)
  Definition inv_on (f g : tree -> res tree) : Prop :=
    forall v x, entsQ v -> f v = Ok x -> g x = Ok v.

  Lemma inv_on_bad : inv_on (fun _ => Bad) (fun _ => Bad).
  Proof. intros v x _ H. discriminate. Qed.

  Section Defs.
    Variables leaf1 leaf2 : tree -> res tree.
    Hypothesis Hleaf : inv_on leaf1 leaf2.
    Variables rec1 rec2 : nat -> (tree -> res tree) -> tree -> res tree.
    Hypothesis Hrec : forall k p1 p2, inv_on p1 p2 -> inv_on (rec1 k p1) (rec2 k p2).

    Lemma clone_plain_inv t : inv_on (clone_plain t) (clone_plain t).
    Proof. intros v x _ H. destruct (clone_plain_ok _ _ _ H) as (-> & _ & _). exact H. Qed.

    Lemma conv_ty_inv : forall t p1 p2, inv_on p1 p2 ->
      inv_on (conv_ty leaf1 rec1 p1 t) (conv_ty leaf2 rec2 p2 t).
    Proof.
      induction t using ty_ind'; intros p1 p2 Hp; cbn [conv_ty];
        try (apply clone_plain_inv); try exact Hleaf; try exact Hp; try exact inv_on_bad.
      - apply Hrec. apply IHt. exact Hp.
      - apply Hrec. exact inv_on_bad.
    Qed.

    Lemma conv_field_inv p1 p2 f : inv_on p1 p2 ->
      inv_on (conv_field leaf1 rec1 p1 f) (conv_field leaf2 rec2 p2 f).
    Proof.
      intros Hp. unfold conv_field. destruct (fskip f); [apply clone_plain_inv|apply conv_ty_inv; exact Hp].
    Qed.

    Lemma conv_fields_inv p1 p2 fs : inv_on p1 p2 ->
      inv_on (conv_fields leaf1 rec1 p1 fs) (conv_fields leaf2 rec2 p2 fs).
    Proof.
      intros Hp v x HQ H. destruct fs as [|l|l], v; cbn [conv_fields] in H; try discriminate.
      - inversion H. reflexivity.
      - apply rmap_ok in H. destruct H as (ds & Hds & ->). cbn [conv_fields]. unfold conv_tuple in *.
        assert (H1 : forall a b c, entsQ b -> conv_field leaf1 rec1 p1 a b = Ok c -> conv_field leaf2 rec2 p2 a c = Ok b).
        { intros a b c Hb Hc. exact (conv_field_inv p1 p2 a Hp b c Hb Hc). }
        assert (H2 : Forall entsQ l0) by (apply ents_Forall; exact HQ).
        rewrite (zipM_inv _ _ entsQ H1 l l0 ds H2 Hds). reflexivity.
      - apply rmap_ok in H. destruct H as (ds & Hds & ->). cbn [conv_fields]. unfold conv_named in *.
        assert (H2 : Forall (fun nv : N * tree => entsQ (snd nv)) l0) by (apply ents_Forall_named; exact HQ).
        match type of Hds with zipM ?f1 _ _ = _ => match goal with |- rmap Rec (zipM ?f2 _ _) = _ =>
          assert (H1 : forall a b c, entsQ (snd b) -> f1 a b = Ok c -> f2 a c = Ok b) end end.
        { intros a [n b] c Hb Hc. cbn [fst snd] in *.
          destruct (N.eqb_spec n (fname a)) as [->|]; [|discriminate].
          apply bind_ok in Hc. destruct Hc as (d & Hd & Hc). inversion Hc; subst. cbn [fst snd].
          rewrite N.eqb_refl. rewrite (conv_field_inv p1 p2 a Hp b d Hb Hd). reflexivity. }
        rewrite (zipM_inv _ _ _ H1 l l0 ds H2 Hds). reflexivity.
    Qed.

    Lemma conv_variants_inv p1 p2 vs vn : inv_on p1 p2 ->
      forall b x, entsQ b -> conv_variants leaf1 rec1 p1 vs vn b = Ok x ->
      exists b', x = Var vn b' /\ conv_variants leaf2 rec2 p2 vs vn b' = Ok (Var vn b).
    Proof.
      intros Hp. induction vs as [|w vs IH]; intros b x HQ H; cbn [conv_variants] in *; [discriminate|].
      destruct (N.eqb (vname w) vn).
      - apply rmap_ok in H. destruct H as (b' & Hb' & ->). exists b'. split; [reflexivity|].
        rewrite (conv_fields_inv p1 p2 _ Hp b b' HQ Hb'). reflexivity.
      - apply IH; assumption.
    Qed.

    Lemma conv_def_inv p1 p2 d : inv_on p1 p2 ->
      inv_on (conv_def leaf1 rec1 p1 d) (conv_def leaf2 rec2 p2 d).
    Proof.
      intros Hp v x HQ H. unfold conv_def in *. destruct (is_some (data_def d) && has_converted d); [|discriminate].
      destruct d as [g fs|g vs].
      - destruct fs; [discriminate| |]; exact (conv_fields_inv p1 p2 _ Hp v x HQ H).
      - destruct v; try discriminate.
        destruct (conv_variants_inv p1 p2 vs vn Hp v x HQ H) as (b' & -> & Hb'). exact Hb'.
    Qed.
  End Defs.

  Lemma conv_env_inv leaf1 leaf2 : inv_on leaf1 leaf2 ->
    forall E k p1 p2, inv_on p1 p2 -> inv_on (conv_env leaf1 E k p1) (conv_env leaf2 E k p2).
  Proof.
    intros Hleaf. induction E as [|d E IH]; intros k p1 p2 Hp; cbn [conv_env].
    - exact inv_on_bad.
    - destruct (Nat.eqb k (length E)).
      + apply conv_def_inv; auto.
      + apply IH. exact Hp.
  Qed.
End RoundTrip.

Lemma leaves_inv (ids : entity -> option Z) (ids' : Z -> option entity) :
  inv_on (fun e => forall m, ids e = Some m -> ids' m = Some e) (into_leaf ids) (from_leaf ids').
Proof.
  intros v x HQ H. destruct v; cbn [into_leaf] in H; try discriminate.
  destruct (ids e) as [m|] eqn:Hm; [|discriminate]. inversion H; subst. cbn [from_leaf].
  rewrite (HQ e (or_introl eq_refl) m Hm). reflexivity.
Qed.

(* every derived conversion: if `convert_into` returns data, `convert_from` on
   that data returns the original value, provided the second mapping undoes
   the first on the entities occurring in the value *)
Theorem derive_round_trip : forall E d targ v x ids ids',
  (forall e m, In e (ents v) -> ids e = Some m -> ids' m = Some e) ->
  derive_into E d targ v ids = Ok x ->
  derive_from E d targ x ids' = Ok v.
Proof.
  intros E d targ v x ids ids' Hinv H. unfold derive_into, derive_from in *.
  set (Q := fun e => forall m, ids e = Some m -> ids' m = Some e).
  assert (Hl : inv_on Q (into_leaf ids) (from_leaf ids')) by apply leaves_inv.
  refine (conv_def_inv Q _ _ Hl _ _ (conv_env_inv Q _ _ Hl E) _ _ d _ v x _ H).
  - unfold param_conv. destruct targ as [ta|]; [|apply inv_on_bad].
    apply conv_ty_inv; [exact Hl|apply conv_env_inv; exact Hl|apply inv_on_bad].
  - intros e He m Hm. exact (Hinv e m He Hm).
Qed.

Theorem convert_round_trip : forall E t v x ids ids',
  (forall e m, In e (ents v) -> ids e = Some m -> ids' m = Some e) ->
  convert_into E t v ids = Ok x ->
  convert_from E t x ids' = Ok v.
Proof.
  intros E t v x ids ids' Hinv H. unfold convert_into, convert_from in *.
  set (Q := fun e => forall m, ids e = Some m -> ids' m = Some e).
  assert (Hl : inv_on Q (into_leaf ids) (from_leaf ids')) by apply leaves_inv.
  refine (conv_ty_inv Q _ _ Hl _ _ (conv_env_inv Q _ _ Hl E) t _ _ (inv_on_bad Q) v x _ H).
  intros e He m Hm. exact (Hinv e m He Hm).
Qed.

(* ================================================================== *)
(* 2. the data is the value with its entity leaves mapped; a panic means an
      entity without a marker *)

Lemma forall2b_Forall_map {A B} (h : A -> B -> bool) (m : B -> B) (la : list A) :
  Forall (fun a => forall b, h a b = true -> m b = b) la ->
  forall lb, forall2b h la lb = true -> map m lb = lb.
Proof.
  induction 1 as [|a la Ha _ IH]; intros [|b lb] H; cbn [forall2b] in H; try discriminate; [reflexivity|].
  apply andb_true_iff in H. destruct H as [H1 H2]. cbn [map]. rewrite (Ha b H1), (IH lb H2). reflexivity.
Qed.

Lemma forall2b_Forall_nil {A B X} (h : A -> B -> bool) (en : B -> list X) (la : list A) :
  Forall (fun a => forall b, h a b = true -> en b = []) la ->
  forall lb, forall2b h la lb = true -> flat_map en lb = [].
Proof.
  induction 1 as [|a la Ha _ IH]; intros [|b lb] H; cbn [forall2b] in H; try discriminate; [reflexivity|].
  apply andb_true_iff in H. destruct H as [H1 H2]. cbn [flat_map]. rewrite (Ha b H1), (IH lb H2). reflexivity.
Qed.

(* plain values contain no entity and no marker *)
Lemma has_plain_map_ent ids : forall t v, has_plain t v = true -> map_ent ids v = v.
Proof.
  induction t using ty_ind'; intros v Hv; destruct v; cbn [has_plain] in Hv; try discriminate; cbn [map_ent].
  - reflexivity.
  - f_equal. exact (forall2b_Forall_map has_plain (map_ent ids) l H l0 Hv).
  - apply andb_true_iff in Hv. destruct Hv as [_ Hv]. f_equal.
    induction l as [|x l IHl]; [reflexivity|]. cbn [forallb] in Hv. apply andb_true_iff in Hv.
    destruct Hv as [Hx Hl]. cbn [map]. rewrite (IHt x Hx), (IHl Hl). reflexivity.
Qed.

Lemma has_plain_ents : forall t v, has_plain t v = true -> ents v = [].
Proof.
  induction t using ty_ind'; intros v Hv; destruct v; cbn [has_plain] in Hv; try discriminate; cbn [ents].
  - reflexivity.
  - exact (forall2b_Forall_nil has_plain ents l H l0 Hv).
  - apply andb_true_iff in Hv. destruct Hv as [_ Hv].
    induction l as [|x l IHl]; [reflexivity|]. cbn [forallb] in Hv. apply andb_true_iff in Hv.
    destruct Hv as [Hx Hl]. cbn [flat_map]. rewrite (IHt x Hx), (IHl Hl). reflexivity.
Qed.

Lemma has_plain_marks : forall t v, has_plain t v = true -> marks v = [].
Proof.
  induction t using ty_ind'; intros v Hv; destruct v; cbn [has_plain] in Hv; try discriminate; cbn [marks].
  - reflexivity.
  - exact (forall2b_Forall_nil has_plain marks l H l0 Hv).
  - apply andb_true_iff in Hv. destruct Hv as [_ Hv].
    induction l as [|x l IHl]; [reflexivity|]. cbn [forallb] in Hv. apply andb_true_iff in Hv.
    destruct Hv as [Hx Hl]. cbn [flat_map]. rewrite (IHt x Hx), (IHl Hl). reflexivity.
Qed.

Section Leaves.
  Variable ids : entity -> option Z.

  (* the outcome [r] of converting [v] is as the leaf-wise description says *)
  Definition good_gen {B} (mp : B -> B) (en : B -> list entity) (b : B) (r : res B) : Prop :=
    match r with
    | Ok x => x = mp b
    | Panic => exists e, In e (en b) /\ ids e = None
    | Bad => True
    end.
  Definition good (v : tree) (r : res tree) : Prop := good_gen (map_ent ids) ents v r.

  Lemma zipM_good {A B} (f : A -> B -> res B) (mp : B -> B) (en : B -> list entity) :
    (forall a b, good_gen mp en b (f a b)) ->
    forall la lb, good_gen (map mp) (flat_map en) lb (zipM f la lb).
  Proof.
    intros Hf. induction la as [|a la IH]; intros [|b lb]; cbn [zipM]; try exact I.
    - reflexivity.
    - specialize (Hf a b). destruct (f a b) as [c| |]; cbn [bind]; [| |exact I].
      + specialize (IH lb). destruct (zipM f la lb) as [cs| |]; cbn [bind]; [| |exact I].
        * cbn in *. subst. reflexivity.
        * cbn in *. destruct IH as (e & He & Hn). exists e. split; [apply in_or_app; right; exact He|exact Hn].
      + cbn in *. destruct Hf as (e & He & Hn). exists e. split; [apply in_or_app; left; exact He|exact Hn].
  Qed.

  Lemma good_clone t v : good v (clone_plain t v).
  Proof.
    destruct (clone_plain t v) eqn:H; [| |exact I].
    - destruct (clone_plain_ok _ _ _ H) as (-> & _ & Hh). cbn. symmetry. apply has_plain_map_ent with (t := t). exact Hh.
    - exfalso. exact (clone_plain_not_panic _ _ H).
  Qed.

  Lemma good_leaf v : good v (into_leaf ids v).
  Proof.
    destruct v; cbn [into_leaf]; try exact I. destruct (ids e) as [m|] eqn:Hm; cbn.
    - rewrite Hm. reflexivity.
    - exists e. split; [left; reflexivity|exact Hm].
  Qed.

  Section Defs.
    Variable rec : nat -> (tree -> res tree) -> tree -> res tree.
    Hypothesis Hrec : forall k p, (forall v, good v (p v)) -> forall v, good v (rec k p v).
    Let leaf := into_leaf ids.

    Lemma conv_ty_good : forall t p, (forall v, good v (p v)) -> forall v, good v (conv_ty leaf rec p t v).
    Proof.
      induction t using ty_ind'; intros p Hp v; cbn [conv_ty];
        try apply good_clone; try apply good_leaf; try apply Hp; try exact I.
      - apply Hrec. apply IHt. exact Hp.
      - apply Hrec. intros v'. exact I.
    Qed.

    Lemma conv_field_good p f : (forall v, good v (p v)) -> forall v, good v (conv_field leaf rec p f v).
    Proof.
      intros Hp v. unfold conv_field. destruct (fskip f); [apply good_clone|apply conv_ty_good; exact Hp].
    Qed.

    Lemma conv_fields_good p fs : (forall v, good v (p v)) -> forall v, good v (conv_fields leaf rec p fs v).
    Proof.
      intros Hp v. destruct fs as [|l|l], v; cbn [conv_fields]; try exact I.
      - reflexivity.
      - unfold conv_tuple.
        pose proof (zipM_good (conv_field leaf rec p) (map_ent ids) ents (fun a b => conv_field_good p a Hp b) l l0) as G.
        destruct (zipM (conv_field leaf rec p) l l0) as [ds| |]; cbn in *; [subst; reflexivity|exact G|exact I].
      - unfold conv_named.
        match goal with |- good _ (rmap Rec (zipM ?f l l0)) =>
          assert (G : good_gen (map (fun nv => (fst nv, map_ent ids (snd nv)))) (flat_map (fun nv => ents (snd nv))) l0 (zipM f l l0))
        end.
        { apply zipM_good. intros a [n b]. cbn [fst snd]. destruct (N.eqb_spec n (fname a)) as [->|]; [|exact I].
          pose proof (conv_field_good p a Hp b) as G. destruct (conv_field leaf rec p a b); cbn in *; [subst; reflexivity|exact G|exact I]. }
        match goal with |- good _ (rmap Rec ?z) => destruct z as [ds| |] end; cbn in *; [subst; reflexivity|exact G|exact I].
    Qed.

    Lemma conv_variants_good p vs vn : (forall v, good v (p v)) ->
      forall b, good (Var vn b) (conv_variants leaf rec p vs vn b).
    Proof.
      intros Hp. induction vs as [|w vs IH]; intros b; cbn [conv_variants]; [exact I|].
      destruct (N.eqb (vname w) vn); [|apply IH].
      pose proof (conv_fields_good p (vfields w) Hp b) as G.
      destruct (conv_fields leaf rec p (vfields w) b); cbn in *; [subst; reflexivity|exact G|exact I].
    Qed.

    Lemma conv_def_good p d : (forall v, good v (p v)) -> forall v, good v (conv_def leaf rec p d v).
    Proof.
      intros Hp v. unfold conv_def. destruct (is_some (data_def d) && has_converted d); [|exact I]. destruct d as [g fs|g vs].
      - destruct fs; [exact I| |]; apply conv_fields_good; exact Hp.
      - destruct v; try exact I. apply conv_variants_good. exact Hp.
    Qed.
  End Defs.

  Lemma conv_env_good : forall E k p, (forall v, good v (p v)) -> forall v, good v (conv_env (into_leaf ids) E k p v).
  Proof.
    induction E as [|d E IH]; intros k p Hp v; cbn [conv_env]; [exact I|].
    destruct (Nat.eqb k (length E)); [|apply IH; exact Hp].
    apply conv_def_good; [exact IH|exact Hp].
  Qed.

  Lemma derive_into_good E d targ v : good v (derive_into E d targ v ids).
  Proof.
    unfold derive_into. apply conv_def_good; [apply conv_env_good|].
    unfold param_conv. destruct targ as [ta|]; [|intros v'; exact I].
    apply conv_ty_good; [apply conv_env_good|intros v'; exact I].
  Qed.
End Leaves.

(* the data produced is the value itself with every entity leaf replaced by
   its marker: every other leaf, the structure, the field order and the names
   are unchanged *)
Theorem derive_into_maps_leaves : forall E d targ v x ids,
  derive_into E d targ v ids = Ok x -> x = map_ent ids v.
Proof.
  intros E d targ v x ids H. pose proof (derive_into_good ids E d targ v) as G. rewrite H in G. exact G.
Qed.

(* the generated code panics only at an entity of the value that has no marker *)
Theorem derive_into_panic : forall E d targ v ids,
  derive_into E d targ v ids = Panic -> exists e, In e (ents v) /\ ids e = None.
Proof.
  intros E d targ v ids H. pose proof (derive_into_good ids E d targ v) as G. rewrite H in G. exact G.
Qed.

(* supported definitions have a generated Data definition (the macro does not panic) *)
Lemma plain_replace : forall t, plain_ty t = true -> is_some (replace_ty t) = true.
Proof.
  induction t using ty_ind'; intros Hp; cbn [plain_ty replace_ty] in *; try discriminate; try reflexivity.
  - assert (Hl : is_some (mapO replace_ty l) = true).
    { induction H as [|x l Hx _ IH]; [reflexivity|]. cbn [forallb] in Hp. apply andb_true_iff in Hp. destruct Hp as [H1 H2].
      cbn [mapO]. specialize (Hx H1). specialize (IH H2). destruct (replace_ty x); [|discriminate].
      destruct (mapO replace_ty l); [reflexivity|discriminate]. }
    destruct (mapO replace_ty l); [reflexivity|discriminate].
  - specialize (IHt Hp). destruct (replace_ty t); [reflexivity|discriminate].
Qed.

Lemma sup_ty_replace E g t : sup_ty E g t = true -> is_some (replace_ty t) = true.
Proof.
  destruct t; cbn [sup_ty]; intros H; try reflexivity; try discriminate; apply plain_replace; exact H.
Qed.

Lemma sup_field_replace E g f : sup_field E g f = true -> is_some (replace_field f) = true.
Proof.
  unfold sup_field, replace_field. destruct (fskip f); [reflexivity|]. intros H.
  apply sup_ty_replace in H. destruct (replace_ty (fty f)); [reflexivity|discriminate].
Qed.

Lemma sup_fields_replace E g fs : sup_fields E g fs = true -> is_some (replace_fields fs) = true.
Proof.
  assert (Hl : forall l, forallb (sup_field E g) l = true -> is_some (replace_field_list l) = true).
  { induction l as [|f l IH]; [reflexivity|]. cbn [forallb replace_field_list]. intros H.
    apply andb_true_iff in H. destruct H as [H1 H2]. apply sup_field_replace in H1. specialize (IH H2).
    destruct (replace_field f); [|discriminate]. destruct (replace_field_list l); [reflexivity|discriminate]. }
  destruct fs as [|l|l]; cbn [sup_fields replace_fields]; [reflexivity| |]; intros H; specialize (Hl l H);
    destruct (replace_field_list l); try reflexivity; discriminate.
Qed.

Lemma sup_def_data_def E d : sup_def E d = true -> is_some (data_def d) = true.
Proof.
  unfold sup_def. intros H. apply andb_true_iff in H. destruct H as [_ H]. destruct d as [g fs|g vs]; cbn [data_def].
  - destruct fs as [|l|l]; [discriminate| |]; apply sup_fields_replace in H;
      destruct (replace_fields _); try reflexivity; discriminate.
  - assert (Hv : is_some (replace_variants vs) = true).
    { induction vs as [|w vs IH]; [reflexivity|]. cbn [forallb replace_variants] in *.
      apply andb_true_iff in H. destruct H as [H1 H2]. apply sup_fields_replace in H1. specialize (IH H2).
      destruct (replace_fields (vfields w)); [|discriminate]. destruct (replace_variants vs); [reflexivity|discriminate]. }
    destruct (replace_variants vs); [reflexivity|discriminate].
Qed.

(* ================================================================== *)
(* 3. supported shapes: the conversion of a value of the shape whose entities
      all have markers succeeds (never Panic, never Bad) *)

Section Total.
  Variable ids : entity -> option Z.
  Definition marked (v : tree) : Prop := forall e, In e (ents v) -> ids e <> None.
  Definition total (p : tree -> res tree) (h : tree -> bool) : Prop :=
    forall v, h v = true -> marked v -> exists x, p v = Ok x.

  Lemma total_none : total (fun _ => Bad) (fun _ => false).
  Proof. intros v H. discriminate. Qed.

  Section Defs.
    Variable E : env.
    Variable rec : nat -> (tree -> res tree) -> tree -> res tree.
    Variable hrec : nat -> (tree -> bool) -> tree -> bool.
    Hypothesis Hrec : forall k p h, total p h -> total (rec k p) (hrec k h).
    Let leaf := into_leaf ids.

    Lemma conv_ty_total g : forall t p h, sup_ty E g t = true -> total p h ->
      total (conv_ty leaf rec p t) (has_ty hrec h t).
    Proof.
      induction t using ty_ind'; intros p h Hs Hp v Hv Hm; cbn [conv_ty has_ty sup_ty] in *; try discriminate.
      - exists v. apply clone_plain_intro; auto.
      - destruct v; try discriminate. unfold leaf. cbn [into_leaf].
        destruct (ids e) as [m|] eqn:He; [eauto|]. exfalso. apply (Hm e); [left; reflexivity|exact He].
      - destruct (lookup E k) as [[d0 E0]|]; [|discriminate]. apply andb_true_iff in Hs. destruct Hs as [_ Hs].
        eapply Hrec; [|exact Hv|exact Hm]. apply IHt; assumption.
      - eapply Hrec; [|exact Hv|exact Hm]. exact total_none.
      - exists v. apply clone_plain_intro; auto.
      - exists v. apply clone_plain_intro; auto.
      - exact (Hp v Hv Hm).
    Qed.

    Lemma conv_field_total g p h f : sup_field E g f = true -> total p h ->
      total (conv_field leaf rec p f) (has_field hrec h f).
    Proof.
      unfold sup_field, conv_field, has_field. intros Hs Hp v Hv Hm. destruct (fskip f).
      - exists v. apply clone_plain_intro; auto.
      - exact (conv_ty_total g _ p h Hs Hp v Hv Hm).
    Qed.

    Lemma conv_fields_total g p h fs : sup_fields E g fs = true -> total p h ->
      total (conv_fields leaf rec p fs) (has_fields hrec h fs).
    Proof.
      intros Hs Hp v Hv Hm. destruct fs as [|l|l], v; cbn [has_fields conv_fields sup_fields] in *; try discriminate.
      - eauto.
      - unfold conv_tuple.
        destruct (zipM_total (conv_field leaf rec p) (has_field hrec h) (fun f => sup_field E g f = true) marked) with (la := l) (lb := l0)
          as (ds & Hds); auto.
        + intros a b Ha Hb Hmb. exact (conv_field_total g p h a Ha Hp b Hb Hmb).
        + apply Forall_forall. rewrite forallb_forall in Hs. exact Hs.
        + apply ents_Forall. exact Hm.
        + rewrite Hds. cbn. eauto.
      - unfold conv_named.
        match goal with |- exists x, rmap Rec (zipM ?zf l l0) = Ok x =>
          destruct (zipM_total zf (fun f nv => N.eqb (fst nv) (fname f) && has_field hrec h f (snd nv))
                      (fun f => sup_field E g f = true) (fun nv => marked (snd nv))) with (la := l) (lb := l0) as (ds & Hds); auto
        end.
        + intros a [n b] Ha Hb Hmb. cbn [fst snd] in *. apply andb_true_iff in Hb. destruct Hb as [Hn Hb]. rewrite Hn.
          destruct (conv_field_total g p h a Ha Hp b Hb Hmb) as (d & Hd). rewrite Hd. cbn. eauto.
        + apply Forall_forall. rewrite forallb_forall in Hs. exact Hs.
        + apply ents_Forall_named. exact Hm.
        + rewrite Hds. cbn. eauto.
    Qed.

    Lemma conv_variants_total g p h vs vn : forallb (fun v => sup_fields E g (vfields v)) vs = true -> total p h ->
      forall b, has_variants hrec h vs vn b = true -> marked b ->
      exists x, conv_variants leaf rec p vs vn b = Ok x.
    Proof.
      intros Hs Hp. induction vs as [|w vs IH]; intros b Hb Hm; cbn [has_variants conv_variants forallb] in *; [discriminate|].
      apply andb_true_iff in Hs. destruct Hs as [Hw Hs].
      destruct (N.eqb (vname w) vn).
      - destruct (conv_fields_total g p h _ Hw Hp b Hb Hm) as (x & Hx). rewrite Hx. cbn. eauto.
      - apply IH; assumption.
    Qed.

    Lemma conv_def_total p h d : sup_def E d = true -> total p h ->
      total (conv_def leaf rec p d) (has_def hrec h d).
    Proof.
      intros Hs Hp v Hv Hm. pose proof (sup_def_data_def _ _ Hs) as Hdd. unfold sup_def, conv_def in *.
      apply andb_true_iff in Hs. destruct Hs as [Hc Hs].
      rewrite Hdd, Hc. cbn [andb]. destruct d as [g fs|g vs]; cbn [has_def] in *.
      - destruct fs; [discriminate| |]; exact (conv_fields_total g p h _ Hs Hp v Hv Hm).
      - destruct v; try discriminate. exact (conv_variants_total g p h vs vn Hs Hp v Hv Hm).
    Qed.
  End Defs.

  Lemma conv_env_total : forall E, sup_env E = true ->
    forall k p h, total p h -> total (conv_env (into_leaf ids) E k p) (has_env E k h).
  Proof.
    induction E as [|d E IH]; intros Hs k p h Hp; cbn [conv_env has_env sup_env] in *.
    - intros v H. discriminate.
    - apply andb_true_iff in Hs. destruct Hs as [Hd Hs]. destruct (Nat.eqb k (length E)).
      + apply conv_def_total with (E := E); auto.
      + apply IH; auto.
  Qed.
End Total.

Definition sup_targ (E : env) (targ : option ty) : bool :=
  match targ with Some ta => sup_ty E false ta | None => true end.

Theorem derive_into_total : forall E d targ v ids,
  sup_env E = true -> sup_def E d = true -> sup_targ E targ = true ->
  value_of_def E d targ v = true ->
  (forall e, In e (ents v) -> ids e <> None) ->
  exists x, derive_into E d targ v ids = Ok x.
Proof.
  intros E d targ v ids HE Hd Ht Hv Hm. unfold derive_into, value_of_def in *.
  refine (conv_def_total ids E _ _ (conv_env_total ids E HE) _ _ d Hd _ v Hv Hm).
  unfold param_conv, param_has. destruct targ as [ta|]; [|apply total_none].
  apply conv_ty_total with (E := E) (g := false); [apply conv_env_total; exact HE|exact Ht|apply total_none].
Qed.

(* the three together, in the form of the property: for a supported shape, a
   value of it and two mutually inverse id mappings defined on its entities,
   convert_into succeeds with the leaf-mapped value and convert_from gives the
   value back *)
Theorem derive_round_trip_total : forall E d targ v ids ids',
  sup_env E = true -> sup_def E d = true -> sup_targ E targ = true ->
  value_of_def E d targ v = true ->
  (forall e, In e (ents v) -> exists m, ids e = Some m /\ ids' m = Some e) ->
  derive_into E d targ v ids = Ok (map_ent ids v) /\
  derive_from E d targ (map_ent ids v) ids' = Ok v.
Proof.
  intros E d targ v ids ids' HE Hd Ht Hv Hm.
  destruct (derive_into_total E d targ v ids HE Hd Ht Hv) as (x & Hx).
  { intros e He. destruct (Hm e He) as (m & H1 & _). congruence. }
  pose proof (derive_into_maps_leaves _ _ _ _ _ _ Hx) as ->. split; [exact Hx|].
  apply derive_round_trip with (ids := ids); [|exact Hx].
  intros e m He H1. destruct (Hm e He) as (m' & H1' & H2). congruence.
Qed.

(* ================================================================== *)
(* 4. field-wise: each field through its own conversion, in declaration
      order; skipped fields verbatim; variants by name *)

Definition field_conv_into (E : env) (targ : option ty) (ids : entity -> option Z) : field -> tree -> res tree :=
  conv_field (into_leaf ids) (conv_env (into_leaf ids) E) (param_conv (into_leaf ids) E targ).

Theorem derive_into_tuple_struct_fieldwise : forall E g fs targ vs x ids,
  derive_into E (DStruct g (FTuple fs)) targ (Tup vs) ids = Ok x ->
  exists ds, x = Tup ds /\ length vs = length fs /\ length ds = length fs /\
    forall i f v, nth_error fs i = Some f -> nth_error vs i = Some v ->
      exists d, nth_error ds i = Some d /\ field_conv_into E targ ids f v = Ok d.
Proof.
  intros E g fs targ vs x ids H. unfold derive_into, conv_def in H.
  destruct (is_some _ && has_converted _); [|discriminate]. cbn [conv_fields] in H.
  apply rmap_ok in H. destruct H as (ds & Hds & ->). exists ds. split; [reflexivity|].
  exact (zipM_nth _ _ _ _ Hds).
Qed.

Theorem derive_into_named_struct_fieldwise : forall E g fs targ vs x ids,
  derive_into E (DStruct g (FNamed fs)) targ (Rec vs) ids = Ok x ->
  exists ds, x = Rec ds /\ length vs = length fs /\ length ds = length fs /\
    forall i f nv, nth_error fs i = Some f -> nth_error vs i = Some nv ->
      fst nv = fname f /\
      exists d, nth_error ds i = Some (fname f, d) /\ field_conv_into E targ ids f (snd nv) = Ok d.
Proof.
  intros E g fs targ vs x ids H. unfold derive_into, conv_def in H.
  destruct (is_some _ && has_converted _); [|discriminate]. cbn [conv_fields] in H.
  apply rmap_ok in H. destruct H as (ds & Hds & ->). exists ds. split; [reflexivity|].
  destruct (zipM_nth _ _ _ _ Hds) as (L1 & L2 & Hn). repeat split; auto.
  - destruct (Hn i f nv H H0) as (c & _ & Hc). destruct (N.eqb_spec (fst nv) (fname f)); [assumption|discriminate].
  - destruct (Hn i f nv H H0) as (c & Hc1 & Hc). destruct (N.eqb (fst nv) (fname f)); [|discriminate].
    apply bind_ok in Hc. destruct Hc as (d & Hd & Hc). inversion Hc; subst. eauto.
Qed.

(* a value of an enum is converted by the first variant of that name, to the same variant *)
Theorem derive_into_enum_by_name : forall E g ws targ vn body x ids,
  derive_into E (DEnum g ws) targ (Var vn body) ids = Ok x ->
  exists w body', find (fun w => N.eqb (vname w) vn) ws = Some w /\ x = Var vn body' /\
    conv_fields (into_leaf ids) (conv_env (into_leaf ids) E) (param_conv (into_leaf ids) E targ) (vfields w) body = Ok body'.
Proof.
  intros E g ws targ vn body x ids H. unfold derive_into, conv_def in H.
  destruct (is_some _ && has_converted _); [|discriminate].
  induction ws as [|w ws IH]; cbn [conv_variants find] in *; [discriminate|].
  destruct (N.eqb (vname w) vn).
  - apply rmap_ok in H. destruct H as (b' & Hb' & ->). eauto.
  - apply IH. exact H.
Qed.

(* the fields of a variant, like those of a struct *)
Theorem conv_fields_tuple_fieldwise : forall leaf rec p fs vs x,
  conv_fields leaf rec p (FTuple fs) (Tup vs) = Ok x ->
  exists ds, x = Tup ds /\ length vs = length fs /\ length ds = length fs /\
    forall i f v, nth_error fs i = Some f -> nth_error vs i = Some v ->
      exists d, nth_error ds i = Some d /\ conv_field leaf rec p f v = Ok d.
Proof.
  intros leaf rec p fs vs x H. cbn [conv_fields] in H.
  apply rmap_ok in H. destruct H as (ds & Hds & ->). exists ds. split; [reflexivity|].
  exact (zipM_nth _ _ _ _ Hds).
Qed.

Theorem conv_fields_named_fieldwise : forall leaf rec p fs vs x,
  conv_fields leaf rec p (FNamed fs) (Rec vs) = Ok x ->
  exists ds, x = Rec ds /\ length vs = length fs /\ length ds = length fs /\
    forall i f nv, nth_error fs i = Some f -> nth_error vs i = Some nv ->
      fst nv = fname f /\
      exists d, nth_error ds i = Some (fname f, d) /\ conv_field leaf rec p f (snd nv) = Ok d.
Proof.
  intros leaf rec p fs vs x H. cbn [conv_fields] in H.
  apply rmap_ok in H. destruct H as (ds & Hds & ->). exists ds. split; [reflexivity|].
  destruct (zipM_nth _ _ _ _ Hds) as (L1 & L2 & Hn). repeat split; auto.
  - destruct (Hn i f nv H H0) as (c & _ & Hc). destruct (N.eqb_spec (fst nv) (fname f)); [assumption|discriminate].
  - destruct (Hn i f nv H H0) as (c & Hc1 & Hc). destruct (N.eqb (fst nv) (fname f)); [|discriminate].
    apply bind_ok in Hc. destruct Hc as (d & Hd & Hc). inversion Hc; subst. eauto.
Qed.

(* a field marked #[convert_save_load_skip_convert] is copied verbatim, in both directions *)
Theorem skipped_field_verbatim : forall leaf rec p f v d,
  fskip f = true -> conv_field leaf rec p f v = Ok d -> d = v.
Proof.
  intros leaf rec p f v d Hs H. unfold conv_field in H. rewrite Hs in H.
  destruct (clone_plain_ok _ _ _ H) as (-> & _). reflexivity.
Qed.

(* a field not marked goes through the conversion of its own type *)
Theorem converted_field_own_conversion : forall leaf rec p f v,
  fskip f = false -> conv_field leaf rec p f v = conv_ty leaf rec p (fty f) v.
Proof. intros leaf rec p f v Hs. unfold conv_field. rewrite Hs. reflexivity. Qed.

(* ================================================================== *)
(* 5. the data is a value of the generated `<Name>SaveloadData` definition *)

Lemma mapO_some_cons {A B} (f : A -> option B) a l r :
  mapO f (a :: l) = Some r -> exists b bs, f a = Some b /\ mapO f l = Some bs /\ r = b :: bs.
Proof.
  cbn [mapO]. destruct (f a) as [b|]; [|discriminate]. destruct (mapO f l) as [bs|]; [|discriminate].
  intros H. inversion H. eauto.
Qed.

Section DataShape.
  Variable hrec : nat -> (tree -> bool) -> tree -> bool.

  (* a plain value at the replaced type of a plain type *)
  Lemma has_plain_replace parg : forall t t' v,
    plain_ty t = true -> replace_ty t = Some t' -> has_plain t v = true -> has_dty hrec parg t' v = true.
  Proof.
    induction t using ty_ind'; intros t' v Hp Hr Hv; cbn [plain_ty replace_ty] in *; try discriminate.
    - inversion Hr; subst. cbn [has_dty has_data_of plain_ty]. exact Hv.
    - destruct (mapO replace_ty l) as [l'|] eqn:Hl; [|discriminate]. inversion Hr; subst. clear Hr.
      destruct v; cbn [has_plain] in Hv; try discriminate. cbn [has_dty].
      revert l' l0 Hl Hv Hp. induction H as [|x l Hx _ IH]; intros l' vs Hl Hv Hp.
      + inversion Hl; subst. destruct vs; [reflexivity|discriminate].
      + apply mapO_some_cons in Hl. destruct Hl as (b & bs & Hb & Hbs & ->).
        destruct vs as [|y vs]; cbn [forall2b] in Hv; [discriminate|].
        apply andb_true_iff in Hv. destruct Hv as [Hv1 Hv2].
        cbn [forallb] in Hp. apply andb_true_iff in Hp. destruct Hp as [Hp1 Hp2].
        cbn [forall2b]. rewrite (Hx b y Hp1 Hb Hv1). cbn [andb]. apply IH; assumption.
    - destruct (replace_ty t) as [u|] eqn:Hu; [|discriminate]. inversion Hr; subst. clear Hr.
      destruct v; cbn [has_plain] in Hv; try discriminate. cbn [has_dty].
      apply andb_true_iff in Hv. destruct Hv as [Hn Hv]. rewrite Hn. cbn [andb]. clear Hn.
      induction l as [|y l IHl]; [reflexivity|]. cbn [forallb] in *. apply andb_true_iff in Hv. destruct Hv as [H1 H2].
      rewrite (IHt u y Hp eq_refl H1). cbn [andb]. apply IHl. exact H2.
  Qed.

  (* a plain value at a plain type left unchanged (a skipped field) *)
  Lemma has_plain_has_dty parg : forall t v,
    plain_ty t = true -> has_plain t v = true -> has_dty hrec parg t v = true.
  Proof.
    induction t using ty_ind'; intros v Hp Hv; cbn [plain_ty] in *; try discriminate;
      destruct v; cbn [has_plain] in Hv; try discriminate; cbn [has_dty].
    - reflexivity.
    - revert l0 Hv Hp. induction H as [|x l Hx _ IH]; intros vs Hv Hp.
      + destruct vs; [reflexivity|discriminate].
      + destruct vs as [|y vs]; cbn [forall2b] in Hv; [discriminate|].
        apply andb_true_iff in Hv. destruct Hv as [Hv1 Hv2].
        cbn [forallb] in Hp. apply andb_true_iff in Hp. destruct Hp as [Hp1 Hp2].
        cbn [forall2b]. rewrite (Hx y Hp1 Hv1). cbn [andb]. apply IH; assumption.
    - apply andb_true_iff in Hv. destruct Hv as [Hn Hv]. rewrite Hn. cbn [andb]. clear Hn.
      induction l as [|y l IHl]; [reflexivity|]. cbn [forallb] in *. apply andb_true_iff in Hv. destruct Hv as [H1 H2].
      rewrite (IHt y Hp H1). cbn [andb]. apply IHl. exact H2.
  Qed.

  Variable ids : entity -> option Z.
  Variable rec : nat -> (tree -> res tree) -> tree -> res tree.
  Let leaf := into_leaf ids.

  (* whatever [p] returns is typed by [h] *)
  Definition dgood (p : tree -> res tree) (h : tree -> bool) : Prop := forall v x, p v = Ok x -> h x = true.
  Lemma dgood_none : dgood (fun _ => Bad) (fun _ => false).
  Proof. intros v x H. discriminate. Qed.

  Hypothesis Hrec : forall k p h, dgood p h -> dgood (rec k p) (hrec k h).

  Lemma conv_ty_data_of : forall t p h, dgood p h -> dgood (conv_ty leaf rec p t) (has_data_of hrec h t).
  Proof.
    induction t using ty_ind'; intros p h Hp v x Hx; cbn [conv_ty has_data_of] in *; try discriminate.
    - destruct (clone_plain_ok _ _ _ Hx) as (-> & H1 & H2). rewrite H1, H2. reflexivity.
    - destruct v; cbn in Hx; try discriminate. destruct (ids e); [|discriminate]. inversion Hx. reflexivity.
    - exact (Hrec k _ _ (IHt p h Hp) v x Hx).
    - exact (Hrec k _ _ dgood_none v x Hx).
    - destruct (clone_plain_ok _ _ _ Hx) as (-> & H1 & H2). rewrite H1, H2. reflexivity.
    - destruct (clone_plain_ok _ _ _ Hx) as (-> & H1 & H2). rewrite H1, H2. reflexivity.
    - exact (Hp v x Hx).
  Qed.

  Lemma conv_field_dgood p h f f' v x : dgood p h ->
    replace_field f = Some f' -> conv_field leaf rec p f v = Ok x ->
    fname f' = fname f /\ has_dty hrec h (fty f') x = true.
  Proof.
    intros Hp Hr Hx. unfold replace_field, conv_field in *. destruct (fskip f).
    - inversion Hr; subst. cbn [fname fty]. split; [reflexivity|].
      destruct (clone_plain_ok _ _ _ Hx) as (-> & H1 & H2). apply has_plain_has_dty; assumption.
    - destruct (replace_ty (fty f)) as [t'|] eqn:Ht; [|discriminate]. inversion Hr; subst. cbn [fname fty].
      split; [reflexivity|].
      destruct (fty f) eqn:Hf; cbn [replace_ty] in Ht; try discriminate;
        try (inversion Ht; subst; cbn [has_dty]; rewrite <- Hf in *; exact (conv_ty_data_of _ p h Hp v x Hx)).
      + cbn [conv_ty] in Hx. destruct (clone_plain_ok _ _ _ Hx) as (-> & H1 & H2).
        apply has_plain_replace with (t := TTuple l); assumption.
      + cbn [conv_ty] in Hx. destruct (clone_plain_ok _ _ _ Hx) as (-> & H1 & H2).
        apply has_plain_replace with (t := TArray t n); assumption.
  Qed.

  Lemma conv_tuple_dgood p h : dgood p h -> forall fs fs' vs ds,
    replace_field_list fs = Some fs' -> zipM (conv_field leaf rec p) fs vs = Ok ds ->
    forall2b (fun f y => has_dty hrec h (fty f) y) fs' ds = true.
  Proof.
    intros Hp. induction fs as [|f fs IH]; intros fs' vs ds Hr Hz; destruct vs as [|v vs]; cbn [zipM] in Hz; try discriminate.
    - inversion Hz; inversion Hr; subst. reflexivity.
    - cbn [replace_field_list] in Hr. destruct (replace_field f) as [f'|] eqn:Hf; [|discriminate].
      destruct (replace_field_list fs) as [fs0|] eqn:Hfs; [|discriminate]. inversion Hr; subst.
      apply bind_ok in Hz. destruct Hz as (d & Hd & Hz). apply bind_ok in Hz. destruct Hz as (ds0 & Hds & Hz).
      inversion Hz; subst. cbn [forall2b].
      destruct (conv_field_dgood p h f f' v d Hp Hf Hd) as (_ & ->). cbn [andb]. exact (IH _ _ _ eq_refl Hds).
  Qed.

  Lemma conv_named_dgood p h : dgood p h -> forall fs fs' vs ds,
    replace_field_list fs = Some fs' ->
    zipM (fun f nv => if N.eqb (fst nv) (fname f)
                      then bind (conv_field leaf rec p f (snd nv)) (fun d => Ok (fname f, d)) else Bad) fs vs = Ok ds ->
    forall2b (fun f ny => N.eqb (fst ny) (fname f) && has_dty hrec h (fty f) (snd ny)) fs' ds = true.
  Proof.
    intros Hp. induction fs as [|f fs IH]; intros fs' vs ds Hr Hz; destruct vs as [|[n v] vs]; cbn [zipM] in Hz; try discriminate.
    - inversion Hz; inversion Hr; subst. reflexivity.
    - cbn [replace_field_list] in Hr. destruct (replace_field f) as [f'|] eqn:Hf; [|discriminate].
      destruct (replace_field_list fs) as [fs0|] eqn:Hfs; [|discriminate]. inversion Hr; subst.
      apply bind_ok in Hz. destruct Hz as (d & Hd & Hz). apply bind_ok in Hz. destruct Hz as (ds0 & Hds & Hz).
      inversion Hz; subst. cbn [fst snd] in Hd. destruct (N.eqb n (fname f)); [|discriminate].
      apply bind_ok in Hd. destruct Hd as (d0 & Hd0 & Hd). inversion Hd; subst. cbn [forall2b fst snd].
      destruct (conv_field_dgood p h f f' v d0 Hp Hf Hd0) as (-> & ->). rewrite N.eqb_refl. cbn [andb].
      exact (IH _ _ _ eq_refl Hds).
  Qed.

  Lemma conv_fields_dgood p h fs fs' v x : dgood p h ->
    replace_fields fs = Some fs' -> conv_fields leaf rec p fs v = Ok x -> dhas_fields hrec h fs' x = true.
  Proof.
    intros Hp Hr Hx. destruct fs as [|l|l], v; cbn [conv_fields replace_fields] in *; try discriminate.
    - inversion Hr; inversion Hx; subst. reflexivity.
    - destruct (replace_field_list l) as [l'|] eqn:Hl; [|discriminate]. inversion Hr; subst.
      apply rmap_ok in Hx. destruct Hx as (ds & Hds & ->). cbn [dhas_fields].
      exact (conv_tuple_dgood p h Hp _ _ _ _ Hl Hds).
    - destruct (replace_field_list l) as [l'|] eqn:Hl; [|discriminate]. inversion Hr; subst.
      apply rmap_ok in Hx. destruct Hx as (ds & Hds & ->). cbn [dhas_fields].
      exact (conv_named_dgood p h Hp _ _ _ _ Hl Hds).
  Qed.

  Lemma conv_variants_dgood p h : dgood p h -> forall vs vs' vn b x,
    replace_variants vs = Some vs' -> conv_variants leaf rec p vs vn b = Ok x ->
    exists b', x = Var vn b' /\ dhas_variants hrec h vs' vn b' = true.
  Proof.
    intros Hp. induction vs as [|w vs IH]; intros vs' vn b x Hr Hx; cbn [conv_variants replace_variants] in *; [discriminate|].
    destruct (replace_fields (vfields w)) as [fs'|] eqn:Hf; [|discriminate].
    destruct (replace_variants vs) as [ws|] eqn:Hw; [|discriminate]. inversion Hr; subst.
    cbn [dhas_variants vname vfields]. destruct (N.eqb (vname w) vn).
    - apply rmap_ok in Hx. destruct Hx as (b' & Hb' & ->). exists b'. split; [reflexivity|].
      exact (conv_fields_dgood p h _ _ _ _ Hp Hf Hb').
    - exact (IH _ _ _ _ eq_refl Hx).
  Qed.

  Lemma conv_def_dgood p h d v x : dgood p h -> conv_def leaf rec p d v = Ok x ->
    exists dd, data_def d = Some dd /\ dhas_def hrec h dd x = true.
  Proof.
    intros Hp Hx. unfold conv_def in Hx. destruct (data_def d) as [dd|] eqn:Hdd; [|discriminate]. exists dd. split; [reflexivity|].
    cbn [is_some andb] in Hx. destruct (has_converted d); [|discriminate].
    destruct d as [g fs|g vs]; cbn [data_def] in Hdd.
    - destruct fs as [|l|l]; [discriminate| |];
        (destruct (replace_fields _) as [fs'|] eqn:Hf; [|discriminate]); inversion Hdd; subst; cbn [dhas_def];
        exact (conv_fields_dgood p h _ _ _ _ Hp Hf Hx).
    - destruct (replace_variants vs) as [vs'|] eqn:Hv; [|discriminate]. inversion Hdd; subst.
      destruct v; try discriminate. cbn [dhas_def].
      destruct (conv_variants_dgood p h Hp _ _ _ _ _ Hv Hx) as (b' & -> & Hb'). exact Hb'.
  Qed.
End DataShape.

Lemma conv_env_dgood ids : forall E k p h, dgood p h -> dgood (conv_env (into_leaf ids) E k p) (dhas_env E k h).
Proof.
  induction E as [|d E IH]; intros k p h Hp v x Hx; cbn [conv_env dhas_env] in *; [discriminate|].
  destruct (Nat.eqb k (length E)); [|exact (IH k p h Hp v x Hx)].
  destruct (conv_def_dgood (dhas_env E) ids (conv_env (into_leaf ids) E) IH p h d v x Hp Hx) as (dd & -> & H). exact H.
Qed.

(* the data returned by the derived convert_into is a value of the generated
   Data definition: every path type replaced by its Data (plain types by
   themselves, Entity by the marker, a derived type by its own generated
   definition, the type parameter by its argument's Data), skipped fields
   unchanged, same field names, same variant names *)
Theorem derive_into_data_shape : forall E d targ v x ids,
  derive_into E d targ v ids = Ok x ->
  exists dd, data_def d = Some dd /\ data_of_def E dd targ x = true.
Proof.
  intros E d targ v x ids H. unfold derive_into, data_of_def in *.
  refine (conv_def_dgood (dhas_env E) ids _ (conv_env_dgood ids E) _ _ d v x _ H).
  unfold param_conv, dparam_has. destruct targ as [ta|]; [|apply dgood_none].
  apply conv_ty_data_of; [apply conv_env_dgood|apply dgood_none].
Qed.

(* ================================================================== *)
(* 6. #[derive(Component)] *)

Lemma set_last_args_app p n a b : set_last_args (p ++ [(n, a)]) b = p ++ [(n, b)].
Proof.
  induction p as [|s p IH]; [reflexivity|].
  change ((s :: p) ++ [(n,a)]) with (s :: (p ++ [(n,a)])).
  destruct s as [n0 a0].
  destruct (p ++ [(n, a)]) eqn:Hp; [destruct p; discriminate|].
  change (set_last_args ((n0, a0) :: p0 :: l) b) with ((n0, a0) :: set_last_args (p0 :: l) b).
  rewrite IH. reflexivity.
Qed.

(* no #[storage(..)] attribute: DenseVecStorage<Self> *)
Theorem storage_default : forall attrs,
  (forall a, In a attrs -> ca_name a <> id_storage) ->
  storage_type attrs = Some [(id_DenseVecStorage, PAngle [id_Self])].
Proof.
  intros attrs H. unfold storage_type, storage_of.
  assert (Hf : find (fun a => N.eqb (ca_name a) id_storage) attrs = None).
  { induction attrs as [|a l IH]; [reflexivity|]. cbn [find].
    destruct (N.eqb_spec (ca_name a) id_storage) as [Heq|_].
    - exfalso. apply (H a); [left; reflexivity|exact Heq].
    - apply IH. intros b Hb. apply H. right. exact Hb. }
  rewrite Hf. reflexivity.
Qed.

(* #[storage(path)] whose last segment carries type arguments: the path as written *)
Theorem storage_explicit : forall attrs a p n args,
  find (fun a => N.eqb (ca_name a) id_storage) attrs = Some a ->
  ca_arg a = p ++ [(n, PAngle args)] ->
  storage_type attrs = Some (p ++ [(n, PAngle args)]).
Proof.
  intros attrs a p n args Hf Ha. unfold storage_type, storage_of. rewrite Hf, Ha.
  unfold last_has_angle. rewrite last_last. reflexivity.
Qed.

(* #[storage(path)] whose last segment carries no arguments: <Self> is appended *)
Theorem storage_implicit : forall attrs a p n,
  find (fun a => N.eqb (ca_name a) id_storage) attrs = Some a ->
  ca_arg a = p ++ [(n, PNone)] ->
  storage_type attrs = Some (p ++ [(n, PAngle [id_Self])]).
Proof.
  intros attrs a p n Hf Ha. unfold storage_type, storage_of. rewrite Hf, Ha.
  unfold last_has_angle. rewrite last_last. cbn [negb]. cbv iota beta.
  rewrite set_last_args_app. reflexivity.
Qed.
