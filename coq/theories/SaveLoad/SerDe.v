(* src/saveload/ser.rs and de.rs over the world of Marker.v.
   Data = the sequence of EntityData { marker, components } records, the
   components being the tuple (Option<CA::Data>, Option<CB::Data>, ...) as a
   list.  Definitions only; proofs are in SerDeProps.v. *)
From SV Require Export SaveLoad.Marker.

(* ConvertSaveload::Data of a component: entity fields replaced by markers *)
Inductive ddata := DPlain (z : Z) | DRef (m : N).
Definition record := (N * list (option ddata))%type.
Definition data := list record.

(* ------------------------------------------------------------------ *)
(* SerializeComponents::serialize *)

(* convert_into with the closure [ids]; None = `ids(entity).unwrap()` panics
   (impl ConvertSaveload for Entity) *)
Definition conv_into (ids : entity -> option N) (c : cdata) : option ddata :=
  match c with
  | Plain z => Some (DPlain z)
  | Ref e => match ids e with Some m => Some (DRef m) | None => None end
  end.

(* serialize_entity: component types k, k+1, .. (n of them), in tuple order *)
Fixpoint ser_entity (w : slw) (ids : entity -> option N) (e : entity) (k : N) (n : nat)
  : option (list (option ddata)) :=
  match n with
  | O => Some []
  | S n' =>
      match (match st_get w k e with
             | None => Some None
             | Some c => match conv_into ids c with Some d => Some (Some d) | None => None end
             end) with
      | None => None
      | Some o => match ser_entity w ids e (k + 1) n' with
                  | Some l => Some (o :: l)
                  | None => None
                  end
      end
  end.

Fixpoint ser_all (w : slw) (nc : nat) (l : list (entity * N)) : option data :=
  match l with
  | [] => Some []
  | (e, m) :: l' =>
      match ser_entity w (mk_get w) e 0 nc with
      | None => None
      | Some cs => match ser_all w nc l' with Some d => Some ((m, cs) :: d) | None => None end
      end
  end.

(* ids = |entity| markers.get(entity).cloned();  None = a panic *)
Definition serialize (w : slw) (nc : nat) : option data := ser_all w nc (join_marked w).

(* ------------------------------------------------------------------ *)
(* SerializeComponents::serialize_recursive.  The closure [ids] marks; the
   state it captures (allocator, marker storage, `add`) is threaded.  A
   panic leaves the marks made so far in place, so the world is returned
   in every case. *)

Definition rst := (slw * list (entity * N))%type.

Definition rec_ids (st : rst) (e : entity) : rst * option N :=
  match ma_mark (fst st) e with
  | (w', Some (m, added)) => ((w', if added then snd st ++ [(e, m)] else snd st), Some m)
  | (w', None) => ((w', snd st), None)
  end.

Fixpoint ser_entity_rec (st : rst) (e : entity) (k : N) (n : nat) : rst * option (list (option ddata)) :=
  match n with
  | O => (st, Some [])
  | S n' =>
      let '(st1, o) :=
        match st_get (fst st) k e with
        | None => (st, Some None)
        | Some (Plain z) => (st, Some (Some (DPlain z)))
        | Some (Ref e') =>
            let '(st', r) := rec_ids st e' in
            (st', match r with Some m => Some (Some (DRef m)) | None => None end)
        end in
      match o with
      | None => (st1, None)
      | Some x =>
          let '(st2, r) := ser_entity_rec st1 e (k + 1) n' in
          (st2, match r with Some l => Some (x :: l) | None => None end)
      end
  end.

(* one pass over to_serialize *)
Fixpoint ser_round (st : rst) (nc : nat) (l : list (entity * N)) : rst * option data :=
  match l with
  | [] => (st, Some [])
  | (e, m) :: l' =>
      let '(st1, r) := ser_entity_rec st e 0 nc in
      match r with
      | None => (st1, None)
      | Some cs =>
          let '(st2, r2) := ser_round st1 nc l' in
          (st2, match r2 with Some d => Some ((m, cs) :: d) | None => None end)
      end
  end.

(* while !to_serialize.is_empty() { .. to_serialize = add }.  Fuel: every
   pass but the last marks at least one more entity (SerDeProps.fuel_enough);
   running out of fuel is reported like a panic and proved impossible. *)
Fixpoint ser_loop (fuel : nat) (w : slw) (nc : nat) (todo : list (entity * N)) : slw * option data :=
  match todo with
  | [] => (w, Some [])
  | _ :: _ =>
      match fuel with
      | O => (w, None)
      | S fuel' =>
          let '(st, r) := ser_round (w, []) nc todo in
          match r with
          | None => (fst st, None)
          | Some d =>
              let '(w2, r2) := ser_loop fuel' (fst st) nc (snd st) in
              (w2, match r2 with Some d' => Some (d ++ d') | None => None end)
          end
      end
  end.

Definition serialize_recursive (w : slw) (nc : nat) : slw * option data :=
  ser_loop (S (length (l_entities (sl_life w)))) w nc (join_marked w).

(* ------------------------------------------------------------------ *)
(* DeserializeComponents::deserialize *)

(* convert_from with ids = |marker| Some(allocator.retrieve_entity(marker, ..)) *)
Definition conv_from (w : slw) (d : ddata) : slw * cdata :=
  match d with
  | DPlain z => (w, Plain z)
  | DRef m => let '(w', e) := ma_retrieve w m in (w', Ref e)
  end.

(* deserialize_entity: per component type, insert the converted value or remove *)
Fixpoint deser_comps (w : slw) (e : entity) (k : N) (l : list (option ddata)) : slw :=
  match l with
  | [] => w
  | o :: l' =>
      let w1 := match o with
                | Some d => let '(w', c) := conv_from w d in st_insert w' k e c
                | None => st_remove w k e
                end in
      deser_comps w1 e (k + 1) l'
  end.

(* DeserializeEntity::deserialize: one record *)
Definition deser_record (w : slw) (r : record) : slw :=
  let '(w1, e) := ma_retrieve w (fst r) in deser_comps w1 e 0 (snd r).

(* VisitEntities::visit_seq *)
Definition deserialize (w : slw) (d : data) : slw := fold_left deser_record d w.
