(* C14 / C15: deserialisation merges by marker; the save/load round trip.
   Proofs about SaveLoad/SerDe.v. *)
From SV Require Import Base.ListX Alloc.AllocStep Alloc.LifeProps SaveLoad.Marker SaveLoad.SerDe SaveLoad.MarkerProps.
From Coq Require Import Sorting.Permutation.

(* ------------------------------------------------------------------ *)
(* retrieve_entity, observationally *)

Lemma st_get_markers w mk k x : st_get (with_markers w mk) k x = st_get w k x.
Proof. reflexivity. Qed.

Lemma retrieve_spec w id : Inv w ->
  let w' := fst (ma_retrieve w id) in let e := snd (ma_retrieve w id) in
  Inv w' /\ mk_get w' e = Some id /\
  (forall x, w_alive w' x = if entity_eq_dec x e then true else w_alive w x) /\
  (forall x, x <> e -> mk_get w' x = mk_get w x) /\
  (mk_get w e = Some id \/ (w_alive w e = false /\ id_fresh w id)) /\
  (forall k x, st_get w' k x = st_get w k x).
Proof.
  intros HI. pose proof (Inv_retrieve w id HI) as HI'.
  destruct (ma_trusted w id) as [e|] eqn:T.
  - rewrite (retrieve_hit _ _ _ T) in *. cbn [fst snd] in *.
    pose proof (proj1 (trusted_iff w id e HI) T) as G. pose proof G as G'. apply mk_get_iff in G'. destruct G' as [A F].
    assert (forall x, mk_get (with_markers w (NM.add (fst e) id (sl_markers w))) x = mk_get w x) as EM.
    { intros x. unfold mk_get. change (w_alive (with_markers _ _) x) with (w_alive w x). cbn [with_markers sl_markers].
      rewrite (update_same_find w e id F). reflexivity. }
    split; [assumption|]. split; [rewrite EM; assumption|]. split.
    { intros x. change (w_alive (with_markers _ _) x) with (w_alive w x).
      destruct (entity_eq_dec x e) as [->|]; [assumption | reflexivity]. }
    split; [intros x _; apply EM|]. split; [left; assumption|]. intros k x. reflexivity.
  - rewrite (retrieve_miss _ _ T) in *. cbn [fst snd] in *.
    set (n := new_ent w) in *.
    assert (forall x, w_alive (with_markers (with_alloc (fst (sl_create true w))
               (if sl_index w <=? id then id + 1 else sl_index w) (NM.add id n (sl_mapping w)))
               (NM.add (fst n) id (sl_markers w))) x = if entity_eq_dec x n then true else w_alive w x) as EA.
    { intros x. change (w_alive (with_markers _ _) x) with (w_alive (fst (sl_create true w)) x).
      apply alive_create. assumption. }
    split; [assumption|]. split.
    { apply mk_get_iff. split; [rewrite EA; destruct (entity_eq_dec n n); congruence|].
      cbn [with_markers sl_markers]. apply NMF.add_eq_o. reflexivity. }
    split; [exact EA|]. split.
    { intros x Hne. unfold mk_get at 1. rewrite EA. destruct (entity_eq_dec x n) as [|_]; [contradiction|].
      unfold mk_get. destruct (w_alive w x) eqn:A; [|reflexivity]. cbn [with_markers sl_markers].
      apply NMF.add_neq_o. intros E. apply w_alive_iff in A. destruct A as [O _]. rewrite <- E in O.
      unfold n in O. rewrite (new_ent_unocc w HI) in O. discriminate. }
    split; [right; split; [apply new_ent_dead; assumption | apply trusted_none_fresh; assumption]|].
    intros k x. unfold st_get. rewrite EA. change (cfind (with_markers _ _) k (fst x)) with (cfind w k (fst x)).
    destruct (entity_eq_dec x n) as [->|Hne]; [|reflexivity].
    pose proof (new_ent_dead w HI) as ND. fold n in ND. rewrite ND.
    destruct (cfind w k (fst n)) as [c|] eqn:F; [|reflexivity].
    apply (I_c_occ _ HI) in F. unfold n in F. rewrite (new_ent_unocc w HI) in F. discriminate.
Qed.

(* ------------------------------------------------------------------ *)
(* the extension preorder: what loading may do to the entities and markers *)

Definition ext (S : list N) (w w' : slw) : Prop :=
  (forall e, w_alive w e = true -> w_alive w' e = true) /\
  (forall e, w_alive w e = true -> mk_get w' e = mk_get w e) /\
  (forall e, w_alive w' e = true -> w_alive w e = false ->
             exists m, mk_get w' e = Some m /\ id_fresh w m /\ In m S).

Lemma ext_mk S w w' e m : ext S w w' -> mk_get w e = Some m -> mk_get w' e = Some m.
Proof. intros [_ [M _]] G. rewrite M; [assumption|]. apply mk_get_iff in G. apply G. Qed.

Lemma ext_refl S w : ext S w w.
Proof. split; [auto|]. split; [auto|]. intros e A B. congruence. Qed.

Lemma ext_trans S1 S2 w1 w2 w3 : ext S1 w1 w2 -> ext S2 w2 w3 -> ext (S1 ++ S2) w1 w3.
Proof.
  intros X1 X2.
  destruct X1 as [A1 [M1 N1]], X2 as [A2 [M2 N2]]. split; [auto|]. split.
  { intros e A. rewrite M2 by auto. auto. }
  intros e A3 D1. destruct (w_alive w2 e) eqn:A.
  - destruct (N1 e A D1) as [m [G [Fr Hin]]]. exists m. split; [rewrite M2; assumption|]. split; [assumption|]. apply in_or_app. auto.
  - destruct (N2 e A3 A) as [m [G [Fr Hin]]]. exists m. split; [assumption|]. split; [|apply in_or_app; auto].
    intros e' G'. apply (Fr e'). rewrite M1; [assumption|]. apply mk_get_iff in G'. apply G'.
Qed.

Lemma ext_incl S S' w w' : incl S S' -> ext S w w' -> ext S' w w'.
Proof.
  intros Hi [A [M Nw]]. split; [auto|]. split; [auto|]. intros e A1 A2. destruct (Nw e A1 A2) as [m [G [Fr Hin]]].
  exists m. auto.
Qed.

Lemma ext_same S w w' : (forall e, w_alive w' e = w_alive w e) -> (forall e, mk_get w' e = mk_get w e) -> ext S w w'.
Proof.
  intros EA EM. split; [intros e; rewrite EA; auto|]. split; [intros e _; apply EM|].
  intros e A B. rewrite EA in A. congruence.
Qed.

Lemma ext_retrieve w id : Inv w -> ext [id] w (fst (ma_retrieve w id)).
Proof.
  intros HI. destruct (retrieve_spec w id HI) as [_ [G [EA [EM [Old _]]]]].
  set (w' := fst (ma_retrieve w id)) in *. set (e := snd (ma_retrieve w id)) in *.
  split; [|split].
  - intros x A. rewrite EA. destruct (entity_eq_dec x e); auto.
  - intros x A. destruct (entity_eq_dec x e) as [->|Hne]; [|apply EM; assumption].
    destruct Old as [Go|[D _]]; congruence.
  - intros x A D. rewrite EA in A. destruct (entity_eq_dec x e) as [->|Hne]; [|congruence].
    exists id. split; [assumption|]. split; [|left; reflexivity].
    destruct Old as [Go|[_ Fr]]; [|assumption]. apply mk_get_iff in Go. destruct Go; congruence.
Qed.

(* ------------------------------------------------------------------ *)
(* storage insert / remove, observationally *)

Lemma st_get_insert w k e c k' x : Inv w ->
  st_get (st_insert w k e c) k' x =
  if w_alive w e then (if N.eq_dec k k' then (if entity_eq_dec x e then Some c else st_get w k' x) else st_get w k' x)
  else st_get w k' x.
Proof.
  intros HI. unfold st_insert. destruct (w_alive w e) eqn:A; [|reflexivity].
  unfold st_get. change (w_alive (cset w k (fst e) c) x) with (w_alive w x). rewrite cfind_cset.
  destruct (N.eq_dec k k') as [->|]; [|reflexivity].
  destruct (entity_eq_dec x e) as [->|Hne]; [rewrite A; destruct (N.eq_dec (fst e) (fst e)); congruence|].
  destruct (w_alive w x) eqn:Ax; [|reflexivity].
  destruct (N.eq_dec (fst e) (fst x)) as [E|]; [|reflexivity].
  exfalso. apply Hne. apply (life_one_per_index (sl_life w)); auto.
Qed.

Lemma st_get_remove w k e k' x : Inv w ->
  st_get (st_remove w k e) k' x =
  if w_alive w e then (if N.eq_dec k k' then (if entity_eq_dec x e then None else st_get w k' x) else st_get w k' x)
  else st_get w k' x.
Proof.
  intros HI. unfold st_remove. destruct (w_alive w e) eqn:A; [|reflexivity].
  unfold st_get. change (w_alive (cdel w k (fst e)) x) with (w_alive w x). rewrite cfind_cdel.
  destruct (N.eq_dec k k') as [->|]; [|reflexivity].
  destruct (entity_eq_dec x e) as [->|Hne]; [rewrite A; destruct (N.eq_dec (fst e) (fst e)); congruence|].
  destruct (w_alive w x) eqn:Ax; [|reflexivity].
  destruct (N.eq_dec (fst e) (fst x)) as [E|]; [|reflexivity].
  exfalso. apply Hne. apply (life_one_per_index (sl_life w)); auto.
Qed.

Lemma alive_st_insert w k e c x : w_alive (st_insert w k e c) x = w_alive w x.
Proof. unfold st_insert. destruct (w_alive w e); reflexivity. Qed.
Lemma alive_st_remove w k e x : w_alive (st_remove w k e) x = w_alive w x.
Proof. unfold st_remove. destruct (w_alive w e); reflexivity. Qed.
Lemma mk_get_st_insert w k e c x : mk_get (st_insert w k e c) x = mk_get w x.
Proof. unfold st_insert. destruct (w_alive w e); reflexivity. Qed.
Lemma mk_get_st_remove w k e x : mk_get (st_remove w k e) x = mk_get w x.
Proof. unfold st_remove. destruct (w_alive w e); reflexivity. Qed.

(* ------------------------------------------------------------------ *)
(* deserialize_entity *)

Definition slot_refs (o : option ddata) : list N := match o with Some (DRef m) => [m] | _ => [] end.
Definition refs_of (cs : list (option ddata)) : list N := flat_map slot_refs cs.

(* what a slot of the data looks like in the loaded world *)
Definition slot_rel (w : slw) (o : option ddata) (c : option cdata) : Prop :=
  match o, c with
  | None, None => True
  | Some (DPlain z), Some (Plain z') => z = z'
  | Some (DRef m), Some (Ref t) => mk_get w t = Some m
  | _, _ => False
  end.

Lemma slot_rel_ext S w w' o c : ext S w w' -> slot_rel w o c -> slot_rel w' o c.
Proof.
  intros X. destruct o as [[z|m]|], c as [[z'|t]|]; cbn [slot_rel]; auto. apply (ext_mk _ _ _ _ _ X).
Qed.

Definition deser_slot (w : slw) (e : entity) (k : N) (o : option ddata) : slw :=
  match o with
  | Some d => let '(w', c) := conv_from w d in st_insert w' k e c
  | None => st_remove w k e
  end.

Lemma deser_comps_cons w e k o cs : deser_comps w e k (o :: cs) = deser_comps (deser_slot w e k o) e (k + 1) cs.
Proof. reflexivity. Qed.

Lemma entity_eq_dec_refl {A} (e : entity) (a b : A) : (if entity_eq_dec e e then a else b) = a.
Proof. destruct (entity_eq_dec e e); congruence. Qed.

Lemma N_eq_dec_refl {A} (k : N) (a b : A) : (if N.eq_dec k k then a else b) = a.
Proof. destruct (N.eq_dec k k); congruence. Qed.

Lemma deser_slot_spec w e k o : Inv w -> w_alive w e = true ->
  let w1 := deser_slot w e k o in
  Inv w1 /\ ext (slot_refs o) w w1 /\ slot_rel w1 o (st_get w1 k e) /\
  (forall k' x, k' <> k \/ x <> e -> st_get w1 k' x = st_get w k' x).
Proof.
  intros HI A. destruct o as [[z|m]|]; cbn [deser_slot conv_from slot_refs].
  - split; [apply Inv_st_insert; assumption|]. split.
    { apply ext_same; intros x; [apply alive_st_insert | apply mk_get_st_insert]. }
    split.
    { rewrite st_get_insert by assumption. rewrite A, N_eq_dec_refl, entity_eq_dec_refl. reflexivity. }
    intros k' x H. rewrite st_get_insert by assumption. rewrite A.
    destruct (N.eq_dec k k') as [<-|]; [|reflexivity]. destruct (entity_eq_dec x e); [|reflexivity].
    destruct H; congruence.
  - destruct (retrieve_spec w m HI) as [HI' [G [EA [EM [Old SG]]]]]. pose proof (ext_retrieve w m HI) as EX.
    destruct (ma_retrieve w m) as [w' t]. cbn [fst snd] in *.
    assert (w_alive w' e = true) as A' by (apply EX; assumption).
    split; [apply Inv_st_insert; assumption|]. split.
    { replace [m] with ([m] ++ []) by reflexivity. apply (ext_trans _ _ _ w'); [assumption|].
      apply ext_same; intros x; [apply alive_st_insert | apply mk_get_st_insert]. }
    split.
    { rewrite st_get_insert by assumption. rewrite A', N_eq_dec_refl, entity_eq_dec_refl. cbn [slot_rel].
      rewrite mk_get_st_insert. assumption. }
    intros k' x H. rewrite st_get_insert by assumption. rewrite A', <- SG.
    destruct (N.eq_dec k k') as [<-|]; [|reflexivity]. destruct (entity_eq_dec x e); [|reflexivity].
    destruct H; congruence.
  - split; [apply Inv_st_remove; assumption|]. split.
    { apply ext_same; intros x; [apply alive_st_remove | apply mk_get_st_remove]. }
    split.
    { rewrite st_get_remove by assumption. rewrite A, N_eq_dec_refl, entity_eq_dec_refl. exact I. }
    intros k' x H. rewrite st_get_remove by assumption. rewrite A.
    destruct (N.eq_dec k k') as [<-|]; [|reflexivity]. destruct (entity_eq_dec x e); [|reflexivity].
    destruct H; congruence.
Qed.

Lemma deser_comps_spec cs : forall w e k, Inv w -> w_alive w e = true ->
  let w' := deser_comps w e k cs in
  Inv w' /\ ext (refs_of cs) w w' /\
  (forall j, (j < length cs)%nat -> slot_rel w' (nth j cs None) (st_get w' (k + N.of_nat j) e)) /\
  (forall k', k' < k \/ k + N.of_nat (length cs) <= k' -> st_get w' k' e = st_get w k' e) /\
  (forall k' x, x <> e -> st_get w' k' x = st_get w k' x).
Proof.
  induction cs as [|o cs IH]; intros w e k HI A.
  - cbn [deser_comps refs_of flat_map length]. split; [assumption|]. split; [apply ext_refl|].
    split; [intros j Hj; inversion Hj|]. split; reflexivity.
  - rewrite deser_comps_cons.
    destruct (deser_slot_spec w e k o HI A) as [HI1 [EX1 [SR1 FR1]]].
    set (w1 := deser_slot w e k o) in *.
    assert (w_alive w1 e = true) as A1 by (apply EX1; assumption).
    destruct (IH w1 e (k + 1) HI1 A1) as [HI2 [EX2 [SR2 [FR2 OT2]]]].
    set (w' := deser_comps w1 e (k + 1) cs) in *.
    split; [assumption|]. split.
    { cbn [refs_of flat_map]. apply (ext_trans _ _ _ w1); assumption. }
    split.
    { intros j Hj. destruct j as [|j].
      - cbn [nth]. replace (k + N.of_nat 0) with k by lia.
        rewrite FR2 by (left; lia). apply (slot_rel_ext _ _ _ _ _ EX2). assumption.
      - cbn [nth]. replace (k + N.of_nat (S j)) with (k + 1 + N.of_nat j) by lia.
        apply SR2. cbn [length] in Hj. lia. }
    split.
    { intros k' H. rewrite FR2 by (cbn [length] in H; lia). apply FR1. left. cbn [length] in H. lia. }
    intros k' x H. rewrite OT2 by assumption. apply FR1. right. assumption.
Qed.

(* ------------------------------------------------------------------ *)
(* one record *)

Definition rec_ids_of (r : record) : list N := fst r :: refs_of (snd r).

Lemma deser_record_spec w r : Inv w ->
  let w' := deser_record w r in
  Inv w' /\ ext (rec_ids_of r) w w' /\
  exists e, mk_get w' e = Some (fst r) /\
    (forall j, (j < length (snd r))%nat -> slot_rel w' (nth j (snd r) None) (st_get w' (N.of_nat j) e)) /\
    (forall k, N.of_nat (length (snd r)) <= k -> st_get w' k e = st_get w k e) /\
    (forall k x, x <> e -> st_get w' k x = st_get w k x).
Proof.
  intros HI. unfold deser_record.
  destruct (retrieve_spec w (fst r) HI) as [HI1 [G [EA [EM [Old SG]]]]]. pose proof (ext_retrieve w (fst r) HI) as EX.
  destruct (ma_retrieve w (fst r)) as [w1 e]. cbn [fst snd] in HI1, G, EA, EM, Old, SG, EX.
  assert (w_alive w1 e = true) as A1 by (apply mk_get_iff in G; apply G).
  destruct (deser_comps_spec (snd r) w1 e 0 HI1 A1) as [HI2 [EX2 [SR [FR OT]]]].
  set (w' := deser_comps w1 e 0 (snd r)) in *.
  split; [assumption|]. split; [apply (ext_trans [fst r] _ w w1 w'); assumption|].
  exists e. split; [apply (ext_mk _ _ _ _ _ EX2); assumption|]. split.
  { intros j Hj. specialize (SR j Hj). replace (0 + N.of_nat j) with (N.of_nat j) in SR by lia. assumption. }
  split.
  { intros k Hk. rewrite FR by (right; lia). apply SG. }
  intros k x Hne. rewrite OT by assumption. apply SG.
Qed.

(* ------------------------------------------------------------------ *)
(* the whole sequence *)

Definition data_ids (d : data) : list N := flat_map rec_ids_of d.

Lemma deserialize_cons w r d : deserialize w (r :: d) = deserialize (deser_record w r) d.
Proof. reflexivity. Qed.

Lemma refs_of_slot cs m : In m (refs_of cs) -> exists j, (j < length cs)%nat /\ nth j cs None = Some (DRef m).
Proof.
  induction cs as [|o cs IH]; cbn [refs_of flat_map]; [intros []|].
  intros H. apply in_app_or in H. destruct H as [H|H].
  - exists 0%nat. split; [cbn; lia|]. destruct o as [[z|m']|]; cbn [slot_refs] in H; try destruct H as [H|[]]; try destruct H.
    subst. reflexivity.
  - destruct (IH H) as [j [Hj E]]. exists (S j). split; [cbn; lia | assumption].
Qed.

Lemma deserialize_spec d : forall w, Inv w ->
  let w' := deserialize w d in
  Inv w' /\ ext (data_ids d) w w' /\
  (forall id, In id (data_ids d) -> exists e, mk_get w' e = Some id) /\
  (forall d1 r d2, d = d1 ++ r :: d2 -> ~ In (fst r) (map fst d2) ->
     forall e, mk_get w' e = Some (fst r) ->
     forall j, (j < length (snd r))%nat -> slot_rel w' (nth j (snd r) None) (st_get w' (N.of_nat j) e)) /\
  (forall e, (forall m, mk_get w' e = Some m -> ~ In m (map fst d)) -> forall k, st_get w' k e = st_get w k e).
Proof.
  induction d as [|r d IH]; intros w HI.
  - cbn [deserialize fold_left data_ids flat_map]. split; [assumption|]. split; [apply ext_refl|].
    split; [intros id []|]. split; [|reflexivity]. intros d1 r d2 E. destruct d1; discriminate.
  - rewrite deserialize_cons.
    destruct (deser_record_spec w r HI) as [HI1 [EX1 [e1 [G1 [SR1 [_ OT1]]]]]].
    set (w1 := deser_record w r) in *.
    destruct (IH w1 HI1) as [HI2 [EX2 [HO2 [SL2 UN2]]]].
    set (w' := deserialize w1 d) in *.
    split; [assumption|]. split; [cbn [data_ids flat_map]; apply (ext_trans _ _ _ w1); assumption|].
    split.
    { intros id H. cbn [data_ids flat_map] in H. apply in_app_or in H. destruct H as [H|H]; [|apply HO2; assumption].
      destruct H as [<-|H].
      - exists e1. apply (ext_mk _ _ _ _ _ EX2). assumption.
      - destruct (refs_of_slot _ _ H) as [j [Hj E]]. specialize (SR1 j Hj). rewrite E in SR1.
        destruct (st_get w1 (N.of_nat j) e1) as [[z|t]|]; cbn [slot_rel] in SR1; try contradiction.
        exists t. apply (ext_mk _ _ _ _ _ EX2). assumption. }
    split.
    { intros d1 r0 d2 E Hn e G j Hj. destruct d1 as [|r1 d1]; cbn [app] in E; inversion E; subst.
      - assert (e = e1) as -> by (apply (inv_unique w' e e1 (fst r0) HI2); [assumption | apply (ext_mk _ _ _ _ _ EX2); assumption]).
        rewrite UN2.
        + apply (slot_rel_ext _ _ _ _ _ EX2). apply SR1. assumption.
        + intros m Gm. rewrite G in Gm. inversion Gm; subst. assumption.
      - apply (SL2 d1 r0 d2 eq_refl Hn e G j Hj). }
    intros e H k. rewrite UN2.
    + apply OT1. intros ->. apply (H (fst r)); [apply (ext_mk _ _ _ _ _ EX2); assumption | left; reflexivity].
    + intros m Gm Hin. apply (H m Gm). right. assumption.
Qed.
