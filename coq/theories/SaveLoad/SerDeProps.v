(* C14 / C15: deserialisation merges by marker; the save/load round trip.
   Proofs about SaveLoad/SerDe.v. *)
From SV Require Import Base.ListX Alloc.AllocStep Alloc.LifeProps SaveLoad.Marker SaveLoad.SerDe SaveLoad.MarkerProps.
From Coq Require Import Sorting.Permutation.

(* ------------------------------------------------------------------ *)
(* retrieve_entity, observationally *)

Lemma st_get_markers w mk k x : st_get (with_markers w mk) k x = st_get w k x.
Proof. reflexivity. Qed.

Lemma retrieve_spec w id : Inv w ->
  let w' := fst (ma_retrieve w id) in let e := snd (ma_retrieve w id) in
  Inv w' /\ mk_get w' e = Some id /\
  (forall x, w_alive w' x = if entity_eq_dec x e then true else w_alive w x) /\
  (forall x, x <> e -> mk_get w' x = mk_get w x) /\
  (mk_get w e = Some id \/ (w_alive w e = false /\ id_fresh w id)) /\
  (forall k x, st_get w' k x = st_get w k x).
Proof.
  intros HI. pose proof (Inv_retrieve w id HI) as HI'.
  destruct (ma_trusted w id) as [e|] eqn:T.
  - rewrite (retrieve_hit _ _ _ T) in *. cbn [fst snd] in *.
    pose proof (proj1 (trusted_iff w id e HI) T) as G. pose proof G as G'. apply mk_get_iff in G'. destruct G' as [A F].
    assert (forall x, mk_get (with_markers w (NM.add (fst e) id (sl_markers w))) x = mk_get w x) as EM.
    { intros x. unfold mk_get. change (w_alive (with_markers _ _) x) with (w_alive w x). cbn [with_markers sl_markers].
      rewrite (update_same_find w e id F). reflexivity. }
    split; [assumption|]. split; [rewrite EM; assumption|]. split.
    { intros x. change (w_alive (with_markers _ _) x) with (w_alive w x).
      destruct (entity_eq_dec x e) as [->|]; [assumption | reflexivity]. }
    split; [intros x _; apply EM|]. split; [left; assumption|]. intros k x. reflexivity.
  - rewrite (retrieve_miss _ _ T) in *. cbn [fst snd] in *.
    set (n := new_ent w) in *.
    assert (forall x, w_alive (with_markers (with_alloc (fst (sl_create true w))
               (if sl_index w <=? id then id + 1 else sl_index w) (NM.add id n (sl_mapping w)))
               (NM.add (fst n) id (sl_markers w))) x = if entity_eq_dec x n then true else w_alive w x) as EA.
    { intros x. change (w_alive (with_markers _ _) x) with (w_alive (fst (sl_create true w)) x).
      apply alive_create. assumption. }
    split; [assumption|]. split.
    { apply mk_get_iff. split; [rewrite EA; destruct (entity_eq_dec n n); congruence|].
      cbn [with_markers sl_markers]. apply NMF.add_eq_o. reflexivity. }
    split; [exact EA|]. split.
    { intros x Hne. unfold mk_get at 1. rewrite EA. destruct (entity_eq_dec x n) as [|_]; [contradiction|].
      unfold mk_get. destruct (w_alive w x) eqn:A; [|reflexivity]. cbn [with_markers sl_markers].
      apply NMF.add_neq_o. intros E. apply w_alive_iff in A. destruct A as [O _]. rewrite <- E in O.
      unfold n in O. rewrite (new_ent_unocc w HI) in O. discriminate. }
    split; [right; split; [apply new_ent_dead; assumption | apply trusted_none_fresh; assumption]|].
    intros k x. unfold st_get. rewrite EA. change (cfind (with_markers _ _) k (fst x)) with (cfind w k (fst x)).
    destruct (entity_eq_dec x n) as [->|Hne]; [|reflexivity].
    pose proof (new_ent_dead w HI) as ND. fold n in ND. rewrite ND.
    destruct (cfind w k (fst n)) as [c|] eqn:F; [|reflexivity].
    apply (I_c_occ _ HI) in F. unfold n in F. rewrite (new_ent_unocc w HI) in F. discriminate.
Qed.

(* ------------------------------------------------------------------ *)
(* the extension preorder: what loading may do to the entities and markers *)

Definition ext (S : list N) (w w' : slw) : Prop :=
  (forall e, w_alive w e = true -> w_alive w' e = true) /\
  (forall e, w_alive w e = true -> mk_get w' e = mk_get w e) /\
  (forall e, w_alive w' e = true -> w_alive w e = false ->
             exists m, mk_get w' e = Some m /\ id_fresh w m /\ In m S).

Lemma ext_mk S w w' e m : ext S w w' -> mk_get w e = Some m -> mk_get w' e = Some m.
Proof. intros [_ [M _]] G. rewrite M; [assumption|]. apply mk_get_iff in G. apply G. Qed.

Lemma ext_refl S w : ext S w w.
Proof. split; [auto|]. split; [auto|]. intros e A B. congruence. Qed.

Lemma ext_trans S1 S2 w1 w2 w3 : ext S1 w1 w2 -> ext S2 w2 w3 -> ext (S1 ++ S2) w1 w3.
Proof.
  intros X1 X2.
  destruct X1 as [A1 [M1 N1]], X2 as [A2 [M2 N2]]. split; [auto|]. split.
  { intros e A. rewrite M2 by auto. auto. }
  intros e A3 D1. destruct (w_alive w2 e) eqn:A.
  - destruct (N1 e A D1) as [m [G [Fr Hin]]]. exists m. split; [rewrite M2; assumption|]. split; [assumption|]. apply in_or_app. auto.
  - destruct (N2 e A3 A) as [m [G [Fr Hin]]]. exists m. split; [assumption|]. split; [|apply in_or_app; auto].
    intros e' G'. apply (Fr e'). rewrite M1; [assumption|]. apply mk_get_iff in G'. apply G'.
Qed.

Lemma ext_incl S S' w w' : incl S S' -> ext S w w' -> ext S' w w'.
Proof.
  intros Hi [A [M Nw]]. split; [auto|]. split; [auto|]. intros e A1 A2. destruct (Nw e A1 A2) as [m [G [Fr Hin]]].
  exists m. auto.
Qed.

Lemma ext_same S w w' : (forall e, w_alive w' e = w_alive w e) -> (forall e, mk_get w' e = mk_get w e) -> ext S w w'.
Proof.
  intros EA EM. split; [intros e; rewrite EA; auto|]. split; [intros e _; apply EM|].
  intros e A B. rewrite EA in A. congruence.
Qed.

Lemma ext_retrieve w id : Inv w -> ext [id] w (fst (ma_retrieve w id)).
Proof.
  intros HI. destruct (retrieve_spec w id HI) as [_ [G [EA [EM [Old _]]]]].
  set (w' := fst (ma_retrieve w id)) in *. set (e := snd (ma_retrieve w id)) in *.
  split; [|split].
  - intros x A. rewrite EA. destruct (entity_eq_dec x e); auto.
  - intros x A. destruct (entity_eq_dec x e) as [->|Hne]; [|apply EM; assumption].
    destruct Old as [Go|[D _]]; congruence.
  - intros x A D. rewrite EA in A. destruct (entity_eq_dec x e) as [->|Hne]; [|congruence].
    exists id. split; [assumption|]. split; [|left; reflexivity].
    destruct Old as [Go|[_ Fr]]; [|assumption]. apply mk_get_iff in Go. destruct Go; congruence.
Qed.

(* ------------------------------------------------------------------ *)
(* storage insert / remove, observationally *)

Lemma st_get_insert w k e c k' x : Inv w ->
  st_get (st_insert w k e c) k' x =
  if w_alive w e then (if N.eq_dec k k' then (if entity_eq_dec x e then Some c else st_get w k' x) else st_get w k' x)
  else st_get w k' x.
Proof.
  intros HI. unfold st_insert. destruct (w_alive w e) eqn:A; [|reflexivity].
  unfold st_get. change (w_alive (cset w k (fst e) c) x) with (w_alive w x). rewrite cfind_cset.
  destruct (N.eq_dec k k') as [->|]; [|reflexivity].
  destruct (entity_eq_dec x e) as [->|Hne]; [rewrite A; destruct (N.eq_dec (fst e) (fst e)); congruence|].
  destruct (w_alive w x) eqn:Ax; [|reflexivity].
  destruct (N.eq_dec (fst e) (fst x)) as [E|]; [|reflexivity].
  exfalso. apply Hne. apply (life_one_per_index (sl_life w)); auto.
Qed.

Lemma st_get_remove w k e k' x : Inv w ->
  st_get (st_remove w k e) k' x =
  if w_alive w e then (if N.eq_dec k k' then (if entity_eq_dec x e then None else st_get w k' x) else st_get w k' x)
  else st_get w k' x.
Proof.
  intros HI. unfold st_remove. destruct (w_alive w e) eqn:A; [|reflexivity].
  unfold st_get. change (w_alive (cdel w k (fst e)) x) with (w_alive w x). rewrite cfind_cdel.
  destruct (N.eq_dec k k') as [->|]; [|reflexivity].
  destruct (entity_eq_dec x e) as [->|Hne]; [rewrite A; destruct (N.eq_dec (fst e) (fst e)); congruence|].
  destruct (w_alive w x) eqn:Ax; [|reflexivity].
  destruct (N.eq_dec (fst e) (fst x)) as [E|]; [|reflexivity].
  exfalso. apply Hne. apply (life_one_per_index (sl_life w)); auto.
Qed.

Lemma alive_st_insert w k e c x : w_alive (st_insert w k e c) x = w_alive w x.
Proof. unfold st_insert. destruct (w_alive w e); reflexivity. Qed.
Lemma alive_st_remove w k e x : w_alive (st_remove w k e) x = w_alive w x.
Proof. unfold st_remove. destruct (w_alive w e); reflexivity. Qed.
Lemma mk_get_st_insert w k e c x : mk_get (st_insert w k e c) x = mk_get w x.
Proof. unfold st_insert. destruct (w_alive w e); reflexivity. Qed.
Lemma mk_get_st_remove w k e x : mk_get (st_remove w k e) x = mk_get w x.
Proof. unfold st_remove. destruct (w_alive w e); reflexivity. Qed.

(* ------------------------------------------------------------------ *)
(* deserialize_entity *)

Definition slot_refs (o : option ddata) : list N := match o with Some (DRef m) => [m] | _ => [] end.
Definition refs_of (cs : list (option ddata)) : list N := flat_map slot_refs cs.

(* what a slot of the data looks like in the loaded world *)
Definition slot_rel (w : slw) (o : option ddata) (c : option cdata) : Prop :=
  match o, c with
  | None, None => True
  | Some (DPlain z), Some (Plain z') => z = z'
  | Some (DRef m), Some (Ref t) => mk_get w t = Some m
  | _, _ => False
  end.

Lemma slot_rel_ext S w w' o c : ext S w w' -> slot_rel w o c -> slot_rel w' o c.
Proof.
  intros X. destruct o as [[z|m]|], c as [[z'|t]|]; cbn [slot_rel]; auto. apply (ext_mk _ _ _ _ _ X).
Qed.

Definition deser_slot (w : slw) (e : entity) (k : N) (o : option ddata) : slw :=
  match o with
  | Some d => let '(w', c) := conv_from w d in st_insert w' k e c
  | None => st_remove w k e
  end.

Lemma deser_comps_cons w e k o cs : deser_comps w e k (o :: cs) = deser_comps (deser_slot w e k o) e (k + 1) cs.
Proof. reflexivity. Qed.

Lemma entity_eq_dec_refl {A} (e : entity) (a b : A) : (if entity_eq_dec e e then a else b) = a.
Proof. destruct (entity_eq_dec e e); congruence. Qed.

Lemma N_eq_dec_refl {A} (k : N) (a b : A) : (if N.eq_dec k k then a else b) = a.
Proof. destruct (N.eq_dec k k); congruence. Qed.

Lemma deser_slot_spec w e k o : Inv w -> w_alive w e = true ->
  let w1 := deser_slot w e k o in
  Inv w1 /\ ext (slot_refs o) w w1 /\ slot_rel w1 o (st_get w1 k e) /\
  (forall k' x, k' <> k \/ x <> e -> st_get w1 k' x = st_get w k' x).
Proof.
  intros HI A. destruct o as [[z|m]|]; cbn [deser_slot conv_from slot_refs].
  - split; [apply Inv_st_insert; assumption|]. split.
    { apply ext_same; intros x; [apply alive_st_insert | apply mk_get_st_insert]. }
    split.
    { rewrite st_get_insert by assumption. rewrite A, N_eq_dec_refl, entity_eq_dec_refl. reflexivity. }
    intros k' x H. rewrite st_get_insert by assumption. rewrite A.
    destruct (N.eq_dec k k') as [<-|]; [|reflexivity]. destruct (entity_eq_dec x e); [|reflexivity].
    destruct H; congruence.
  - destruct (retrieve_spec w m HI) as [HI' [G [EA [EM [Old SG]]]]]. pose proof (ext_retrieve w m HI) as EX.
    destruct (ma_retrieve w m) as [w' t]. cbn [fst snd] in *.
    assert (w_alive w' e = true) as A' by (apply EX; assumption).
    split; [apply Inv_st_insert; assumption|]. split.
    { replace [m] with ([m] ++ []) by reflexivity. apply (ext_trans _ _ _ w'); [assumption|].
      apply ext_same; intros x; [apply alive_st_insert | apply mk_get_st_insert]. }
    split.
    { rewrite st_get_insert by assumption. rewrite A', N_eq_dec_refl, entity_eq_dec_refl. cbn [slot_rel].
      rewrite mk_get_st_insert. assumption. }
    intros k' x H. rewrite st_get_insert by assumption. rewrite A', <- SG.
    destruct (N.eq_dec k k') as [<-|]; [|reflexivity]. destruct (entity_eq_dec x e); [|reflexivity].
    destruct H; congruence.
  - split; [apply Inv_st_remove; assumption|]. split.
    { apply ext_same; intros x; [apply alive_st_remove | apply mk_get_st_remove]. }
    split.
    { rewrite st_get_remove by assumption. rewrite A, N_eq_dec_refl, entity_eq_dec_refl. exact I. }
    intros k' x H. rewrite st_get_remove by assumption. rewrite A.
    destruct (N.eq_dec k k') as [<-|]; [|reflexivity]. destruct (entity_eq_dec x e); [|reflexivity].
    destruct H; congruence.
Qed.

Lemma deser_comps_spec cs : forall w e k, Inv w -> w_alive w e = true ->
  let w' := deser_comps w e k cs in
  Inv w' /\ ext (refs_of cs) w w' /\
  (forall j, (j < length cs)%nat -> slot_rel w' (nth j cs None) (st_get w' (k + N.of_nat j) e)) /\
  (forall k', k' < k \/ k + N.of_nat (length cs) <= k' -> st_get w' k' e = st_get w k' e) /\
  (forall k' x, x <> e -> st_get w' k' x = st_get w k' x).
Proof.
  induction cs as [|o cs IH]; intros w e k HI A.
  - cbn [deser_comps refs_of flat_map length]. split; [assumption|]. split; [apply ext_refl|].
    split; [intros j Hj; inversion Hj|]. split; reflexivity.
  - rewrite deser_comps_cons.
    destruct (deser_slot_spec w e k o HI A) as [HI1 [EX1 [SR1 FR1]]].
    set (w1 := deser_slot w e k o) in *.
    assert (w_alive w1 e = true) as A1 by (apply EX1; assumption).
    destruct (IH w1 e (k + 1) HI1 A1) as [HI2 [EX2 [SR2 [FR2 OT2]]]].
    set (w' := deser_comps w1 e (k + 1) cs) in *.
    split; [assumption|]. split.
    { cbn [refs_of flat_map]. apply (ext_trans _ _ _ w1); assumption. }
    split.
    { intros j Hj. destruct j as [|j].
      - cbn [nth]. replace (k + N.of_nat 0) with k by lia.
        rewrite FR2 by (left; lia). apply (slot_rel_ext _ _ _ _ _ EX2). assumption.
      - cbn [nth]. replace (k + N.of_nat (S j)) with (k + 1 + N.of_nat j) by lia.
        apply SR2. cbn [length] in Hj. lia. }
    split.
    { intros k' H. rewrite FR2 by (cbn [length] in H; lia). apply FR1. left. cbn [length] in H. lia. }
    intros k' x H. rewrite OT2 by assumption. apply FR1. right. assumption.
Qed.

(* ------------------------------------------------------------------ *)
(* one record *)

Definition rec_ids_of (r : record) : list N := fst r :: refs_of (snd r).

Lemma deser_record_spec w r : Inv w ->
  let w' := deser_record w r in
  Inv w' /\ ext (rec_ids_of r) w w' /\
  exists e, mk_get w' e = Some (fst r) /\
    (forall j, (j < length (snd r))%nat -> slot_rel w' (nth j (snd r) None) (st_get w' (N.of_nat j) e)) /\
    (forall k, N.of_nat (length (snd r)) <= k -> st_get w' k e = st_get w k e) /\
    (forall k x, x <> e -> st_get w' k x = st_get w k x).
Proof.
  intros HI. unfold deser_record.
  destruct (retrieve_spec w (fst r) HI) as [HI1 [G [EA [EM [Old SG]]]]]. pose proof (ext_retrieve w (fst r) HI) as EX.
  destruct (ma_retrieve w (fst r)) as [w1 e]. cbn [fst snd] in HI1, G, EA, EM, Old, SG, EX.
  assert (w_alive w1 e = true) as A1 by (apply mk_get_iff in G; apply G).
  destruct (deser_comps_spec (snd r) w1 e 0 HI1 A1) as [HI2 [EX2 [SR [FR OT]]]].
  set (w' := deser_comps w1 e 0 (snd r)) in *.
  split; [assumption|]. split; [apply (ext_trans [fst r] _ w w1 w'); assumption|].
  exists e. split; [apply (ext_mk _ _ _ _ _ EX2); assumption|]. split.
  { intros j Hj. specialize (SR j Hj). replace (0 + N.of_nat j) with (N.of_nat j) in SR by lia. assumption. }
  split.
  { intros k Hk. rewrite FR by (right; lia). apply SG. }
  intros k x Hne. rewrite OT by assumption. apply SG.
Qed.

(* ------------------------------------------------------------------ *)
(* the whole sequence *)

Definition data_ids (d : data) : list N := flat_map rec_ids_of d.

Lemma deserialize_cons w r d : deserialize w (r :: d) = deserialize (deser_record w r) d.
Proof. reflexivity. Qed.

Lemma refs_of_slot cs m : In m (refs_of cs) -> exists j, (j < length cs)%nat /\ nth j cs None = Some (DRef m).
Proof.
  induction cs as [|o cs IH]; cbn [refs_of flat_map]; [intros []|].
  intros H. apply in_app_or in H. destruct H as [H|H].
  - exists 0%nat. split; [cbn; lia|]. destruct o as [[z|m']|]; cbn [slot_refs] in H; try destruct H as [H|[]]; try destruct H.
    subst. reflexivity.
  - destruct (IH H) as [j [Hj E]]. exists (S j). split; [cbn; lia | assumption].
Qed.

Lemma deserialize_spec d : forall w, Inv w ->
  let w' := deserialize w d in
  Inv w' /\ ext (data_ids d) w w' /\
  (forall id, In id (data_ids d) -> exists e, mk_get w' e = Some id) /\
  (forall d1 r d2, d = d1 ++ r :: d2 -> ~ In (fst r) (map fst d2) ->
     forall e, mk_get w' e = Some (fst r) ->
     forall j, (j < length (snd r))%nat -> slot_rel w' (nth j (snd r) None) (st_get w' (N.of_nat j) e)) /\
  (forall e, (forall m, mk_get w' e = Some m -> ~ In m (map fst d)) -> forall k, st_get w' k e = st_get w k e).
Proof.
  induction d as [|r d IH]; intros w HI.
  - cbn [deserialize fold_left data_ids flat_map]. split; [assumption|]. split; [apply ext_refl|].
    split; [intros id []|]. split; [|reflexivity]. intros d1 r d2 E. destruct d1; discriminate.
  - rewrite deserialize_cons.
    destruct (deser_record_spec w r HI) as [HI1 [EX1 [e1 [G1 [SR1 [_ OT1]]]]]].
    set (w1 := deser_record w r) in *.
    destruct (IH w1 HI1) as [HI2 [EX2 [HO2 [SL2 UN2]]]].
    set (w' := deserialize w1 d) in *.
    split; [assumption|]. split; [cbn [data_ids flat_map]; apply (ext_trans _ _ _ w1); assumption|].
    split.
    { intros id H. cbn [data_ids flat_map] in H. apply in_app_or in H. destruct H as [H|H]; [|apply HO2; assumption].
      destruct H as [<-|H].
      - exists e1. apply (ext_mk _ _ _ _ _ EX2). assumption.
      - destruct (refs_of_slot _ _ H) as [j [Hj E]]. specialize (SR1 j Hj). rewrite E in SR1.
        destruct (st_get w1 (N.of_nat j) e1) as [[z|t]|]; cbn [slot_rel] in SR1; try contradiction.
        exists t. apply (ext_mk _ _ _ _ _ EX2). assumption. }
    split.
    { intros d1 r0 d2 E Hn e G j Hj. destruct d1 as [|r1 d1]; cbn [app] in E; inversion E; subst.
      - assert (e = e1) as -> by (apply (inv_unique w' e e1 (fst r0) HI2); [assumption | apply (ext_mk _ _ _ _ _ EX2); assumption]).
        rewrite UN2.
        + apply (slot_rel_ext _ _ _ _ _ EX2). apply SR1. assumption.
        + intros m Gm. rewrite G in Gm. inversion Gm; subst. assumption.
      - apply (SL2 d1 r0 d2 eq_refl Hn e G j Hj). }
    intros e H k. rewrite UN2.
    + apply OT1. intros ->. apply (H (fst r)); [apply (ext_mk _ _ _ _ _ EX2); assumption | left; reflexivity].
    + intros m Gm Hin. apply (H m Gm). right. assumption.
Qed.

(* ------------------------------------------------------------------ *)
(* serialize *)

Definition ser_slot (ids : entity -> option N) (c : option cdata) (o : option ddata) : Prop :=
  match c with
  | None => o = None
  | Some (Plain z) => o = Some (DPlain z)
  | Some (Ref e') => exists m', ids e' = Some m' /\ o = Some (DRef m')
  end.

Lemma ser_entity_spec w ids e : forall n k cs, ser_entity w ids e k n = Some cs ->
  length cs = n /\ forall j, (j < n)%nat -> ser_slot ids (st_get w (k + N.of_nat j) e) (nth j cs None).
Proof.
  induction n as [|n IH]; intros k cs H; cbn [ser_entity] in H.
  - inversion H; subst. split; [reflexivity|]. intros j Hj. inversion Hj.
  - destruct (st_get w k e) as [c|] eqn:G.
    + destruct (conv_into ids c) as [d|] eqn:C; [|discriminate].
      destruct (ser_entity w ids e (k + 1) n) as [l|] eqn:R; [|discriminate]. inversion H; subst.
      destruct (IH _ _ R) as [L SS0]. split; [cbn [length]; lia|].
      intros j Hj. destruct j as [|j].
      * replace (k + N.of_nat 0) with k by lia. rewrite G. cbn [nth].
        destruct c as [z|e']; cbn [conv_into ser_slot] in *.
        -- inversion C; reflexivity.
        -- destruct (ids e') as [m'|]; [|discriminate]. inversion C; subst. exists m'. auto.
      * replace (k + N.of_nat (S j)) with (k + 1 + N.of_nat j) by lia. cbn [nth]. apply SS0. lia.
    + destruct (ser_entity w ids e (k + 1) n) as [l|] eqn:R; [|discriminate]. inversion H; subst.
      destruct (IH _ _ R) as [L SS0]. split; [cbn [length]; lia|].
      intros j Hj. destruct j as [|j].
      * replace (k + N.of_nat 0) with k by lia. rewrite G. reflexivity.
      * replace (k + N.of_nat (S j)) with (k + 1 + N.of_nat j) by lia. cbn [nth]. apply SS0. lia.
Qed.

Lemma ser_all_spec w nc : forall l d, ser_all w nc l = Some d ->
  Forall2 (fun (p : entity * N) (r : record) => fst r = snd p /\ ser_entity w (mk_get w) (fst p) 0 nc = Some (snd r)) l d.
Proof.
  induction l as [|[e m] l IH]; intros d H; cbn [ser_all] in H.
  - inversion H. constructor.
  - destruct (ser_entity w (mk_get w) e 0 nc) as [cs|] eqn:E; [|discriminate].
    destruct (ser_all w nc l) as [d'|]; [|discriminate]. inversion H; subst.
    constructor; [cbn [fst snd]; auto | apply IH; reflexivity].
Qed.

Lemma join_marked_nodup_ids w : Inv w -> NoDup (map snd (join_marked w)).
Proof.
  intros HI.
  assert (forall l, NoDupA (@NM.eq_key N) l -> (forall p, In p l -> In p (NM.elements (sl_markers w))) ->
          NoDup (map snd (flat_map (fun p : N * N =>
              if occupied (cell (sl_life w) (fst p))
              then [((fst p, top (cell (sl_life w) (fst p))), snd p)] else []) l))) as X.
  { induction l as [|[i m] l IH]; intros Hnd Hin; cbn [flat_map map]; [constructor|].
    inversion Hnd as [|? ? Hn Hnd']; subst.
    assert (forall p, In p l -> In p (NM.elements (sl_markers w))) as Hin' by (intros p H; apply Hin; right; assumption).
    cbn [fst snd]. destruct (occupied (cell (sl_life w) i)) eqn:O; [|apply IH; assumption].
    cbn [app map snd]. constructor; [|apply IH; assumption].
    intros H. apply in_map_iff in H. destruct H as [[e' m'] [E H]]. cbn [snd] in E. subst m'.
    apply in_flat_map in H. destruct H as [[i' m''] [Hl H]]. cbn [fst snd] in H.
    destruct (occupied (cell (sl_life w) i')) eqn:O'; [|destruct H]. destruct H as [H|[]]. inversion H; subst.
    (* two live entities, indices i and i', same id m: equal, so i is a key of l *)
    assert (mk_get w (i, top (cell (sl_life w) i)) = Some m) as G1.
    { apply in_join_marked_get; [assumption|]. apply in_join_marked. cbn [fst snd]. split; [exact O|]. split; [reflexivity|].
      apply NMF.find_mapsto_iff, NMF.elements_mapsto_iff, InA_alt. exists (i, m). split; [split; reflexivity|]. apply Hin. left. reflexivity. }
    assert (mk_get w (i', top (cell (sl_life w) i')) = Some m) as G2.
    { apply in_join_marked_get; [assumption|]. apply in_join_marked. cbn [fst snd]. split; [exact O'|]. split; [reflexivity|].
      apply NMF.find_mapsto_iff, NMF.elements_mapsto_iff, InA_alt. exists (i', m). split; [split; reflexivity|]. apply Hin'. assumption. }
    pose proof (inv_unique w _ _ m HI G1 G2) as E. inversion E; subst.
    apply Hn. apply InA_alt. exists (i', m). split; [reflexivity | assumption]. }
  apply X; [apply NM.elements_3w | auto].
Qed.

Lemma Forall2_map_fst_snd (l : list (entity * N)) (d : data) (P : entity * N -> record -> Prop) :
  Forall2 (fun p r => fst r = snd p /\ P p r) l d -> map fst d = map snd l.
Proof. induction 1 as [|p r l d [E _] _ IH]; cbn [map]; [reflexivity|]. rewrite E, IH. reflexivity. Qed.

Lemma Forall2_in_l {A B} (R : A -> B -> Prop) l d x : Forall2 R l d -> In x l -> exists y, In y d /\ R x y.
Proof.
  induction 1 as [|a b l d H _ IH]; intros Hin; [destruct Hin|].
  destruct Hin as [<-|Hin]; [exists b; split; [left; reflexivity | assumption]|].
  destruct (IH Hin) as [y [Hy Ry]]. exists y. split; [right; assumption | assumption].
Qed.

Lemma Forall2_in_r {A B} (R : A -> B -> Prop) l d y : Forall2 R l d -> In y d -> exists x, In x l /\ R x y.
Proof.
  induction 1 as [|a b l d H _ IH]; intros Hin; [destruct Hin|].
  destruct Hin as [<-|Hin]; [exists a; split; [left; reflexivity | assumption]|].
  destruct (IH Hin) as [x [Hx Rx]]. exists x. split; [right; assumption | assumption].
Qed.

(* a faithful image of the marked part of [w]: one record per live marked
   entity, ids pairwise distinct, each slot the conversion of the component *)
Definition ser_data_spec (w : slw) (nc : nat) (d : data) : Prop :=
  NoDup (map fst d) /\
  (forall e m, mk_get w e = Some m -> exists cs, In (m, cs) d /\ ser_entity w (mk_get w) e 0 nc = Some cs) /\
  (forall m cs, In (m, cs) d -> exists e, mk_get w e = Some m /\ ser_entity w (mk_get w) e 0 nc = Some cs).

Lemma serialize_spec w nc d : Inv w -> serialize w nc = Some d -> ser_data_spec w nc d.
Proof.
  intros HI H. unfold serialize in H. apply ser_all_spec in H.
  split; [rewrite (Forall2_map_fst_snd _ _ _ H); apply join_marked_nodup_ids; assumption|].
  split.
  - intros e m G. apply (in_join_marked_get w e m HI) in G.
    destruct (Forall2_in_l _ _ _ _ H G) as [[m' cs] [Hin [E S]]]. cbn [fst snd] in *. subst m'. exists cs. auto.
  - intros m cs Hin. destruct (Forall2_in_r _ _ _ _ H Hin) as [[e m'] [Hl [E S]]]. cbn [fst snd] in *. subst m'.
    exists e. split; [apply in_join_marked_get; assumption | assumption].
Qed.

(* ------------------------------------------------------------------ *)
(* C14: the round trip *)

(* components correspond: plain values equal, references mapped through
   "same marker id" *)
Definition comp_rel (src tgt : slw) (c c' : option cdata) : Prop :=
  match c, c' with
  | None, None => True
  | Some (Plain z), Some (Plain z') => z = z'
  | Some (Ref e'), Some (Ref t') => exists m', mk_get src e' = Some m' /\ mk_get tgt t' = Some m'
  | _, _ => False
  end.

Definition same_marker (src tgt : slw) (e t : entity) : Prop :=
  exists m, mk_get src e = Some m /\ mk_get tgt t = Some m.

Lemma alive_empty e : w_alive sl_empty e = false.
Proof.
  unfold w_alive, l_is_alive, cell; cbn [sl_empty sl_life l_init cells]. rewrite NMF.empty_o. reflexivity.
Qed.

Theorem round_trip_data src nc d d' : Inv src -> ser_data_spec src nc d -> Permutation d d' ->
  let tgt := deserialize sl_empty d' in
  Inv tgt /\
  (* every marked source entity has a counterpart *)
  (forall e m, mk_get src e = Some m -> exists t, mk_get tgt t = Some m) /\
  (* every target entity is the counterpart of a marked source entity *)
  (forall t, w_alive tgt t = true -> exists e, same_marker src tgt e t) /\
  (* component by component *)
  (forall e t, same_marker src tgt e t -> forall j, (j < nc)%nat ->
     comp_rel src tgt (st_get src (N.of_nat j) e) (st_get tgt (N.of_nat j) t)).
Proof.
  intros HI S P. destruct S as [ND [S1 S2]].
  destruct (deserialize_spec d' sl_empty Inv_empty) as [HI' [EX [HO [SL _]]]].
  set (tgt := deserialize sl_empty d') in *.
  assert (NoDup (map fst d')) as ND' by (apply (Permutation_NoDup (Permutation_map fst P)); assumption).
  (* every id mentioned by the data is the id of a marked source entity *)
  assert (forall id, In id (data_ids d') -> exists e, mk_get src e = Some id) as IDS.
  { intros id H. unfold data_ids in H. apply in_flat_map in H. destruct H as [[m cs] [Hr H]].
    apply (Permutation_in _ (Permutation_sym P)) in Hr. destruct (S2 _ _ Hr) as [e [G SE]].
    destruct H as [<-|H]; [exists e; assumption|]. cbn [snd] in H.
    destruct (refs_of_slot _ _ H) as [j [Hj E]]. destruct (ser_entity_spec _ _ _ _ _ _ SE) as [L SS].
    rewrite L in Hj. specialize (SS j Hj). rewrite E in SS.
    destruct (st_get src (0 + N.of_nat j) e) as [[z|e']|]; cbn [ser_slot] in SS; try discriminate.
    destruct SS as [m' [G' E']]. inversion E'; subst. exists e'. assumption. }
  split; [assumption|]. split.
  { intros e m G. apply HO. destruct (S1 _ _ G) as [cs [Hin _]]. apply (Permutation_in _ P) in Hin.
    unfold data_ids. apply in_flat_map. exists (m, cs). split; [assumption | left; reflexivity]. }
  split.
  { intros t A. destruct EX as [_ [_ NW]]. destruct (NW t A (alive_empty t)) as [m [G [_ Hin]]].
    destruct (IDS _ Hin) as [e Ge]. exists e, m. auto. }
  intros e t [m [Ge Gt]] j Hj.
  destruct (S1 _ _ Ge) as [cs [Hin SE]]. apply (Permutation_in _ P) in Hin.
  destruct (in_split _ _ Hin) as [d1 [d2 E]].
  assert (~ In m (map fst d2)) as Hn.
  { rewrite E, map_app in ND'. cbn [map fst] in ND'. apply NoDup_remove_2 in ND'. intros X. apply ND'. apply in_or_app. auto. }
  destruct (ser_entity_spec _ _ _ _ _ _ SE) as [L SS].
  assert (j < length cs)%nat as Hj' by lia.
  pose proof (SL d1 (m, cs) d2 E Hn t Gt j Hj') as R. cbn [snd] in R.
  specialize (SS j Hj). replace (0 + N.of_nat j) with (N.of_nat j) in SS by lia.
  destruct (st_get src (N.of_nat j) e) as [[z|e']|]; cbn [ser_slot] in SS.
  - rewrite SS in R. destruct (st_get tgt (N.of_nat j) t) as [[z'|t']|]; cbn [slot_rel comp_rel] in *; auto.
  - destruct SS as [m' [G' E']]. rewrite E' in R.
    destruct (st_get tgt (N.of_nat j) t) as [[z'|t']|]; cbn [slot_rel comp_rel] in *; auto. exists m'. auto.
  - rewrite SS in R. destruct (st_get tgt (N.of_nat j) t) as [[z'|t']|]; cbn [slot_rel comp_rel] in *; auto.
Qed.

Theorem round_trip src nc d d' : Inv src -> serialize src nc = Some d -> Permutation d d' ->
  let tgt := deserialize sl_empty d' in
  Inv tgt /\
  (forall e m, mk_get src e = Some m -> exists t, mk_get tgt t = Some m) /\
  (forall t, w_alive tgt t = true -> exists e, same_marker src tgt e t) /\
  (forall e t, same_marker src tgt e t -> forall j, (j < nc)%nat ->
     comp_rel src tgt (st_get src (N.of_nat j) e) (st_get tgt (N.of_nat j) t)).
Proof. intros HI S P. apply (round_trip_data src nc d d' HI (serialize_spec src nc d HI S) P). Qed.

(* ------------------------------------------------------------------ *)
(* serialize_recursive *)

(* marking only: entities and components unchanged, markers only added *)
Definition mext (w w' : slw) : Prop :=
  (forall x, w_alive w' x = w_alive w x) /\
  (forall k x, st_get w' k x = st_get w k x) /\
  (forall x m, mk_get w x = Some m -> mk_get w' x = Some m).

Lemma mext_refl w : mext w w.
Proof. split; [|split]; auto. Qed.

Lemma mext_trans w1 w2 w3 : mext w1 w2 -> mext w2 w3 -> mext w1 w3.
Proof.
  intros [A1 [C1 M1]] [A2 [C2 M2]]. split; [|split].
  - intros x. rewrite A2. apply A1.
  - intros k x. rewrite C2. apply C1.
  - auto.
Qed.

Lemma mark_spec w e : Inv w ->
  let w' := fst (ma_mark w e) in
  Inv w' /\ mext w w' /\
  match snd (ma_mark w e) with
  | None => w_alive w e = false /\ w' = w
  | Some (m, false) => mk_get w e = Some m /\ w' = w
  | Some (m, true) => w_alive w e = true /\ mk_get w e = None /\ mk_get w' e = Some m /\
                      (forall x, x <> e -> mk_get w' x = mk_get w x)
  end.
Proof.
  intros HI. pose proof (Inv_mark w e HI) as HI'. unfold ma_mark in *.
  destruct (w_alive w e) eqn:A; [|cbn [fst snd]; split; [assumption|]; split; [apply mext_refl | auto]].
  destruct (NM.find (fst e) (sl_markers w)) as [m|] eqn:F.
  - cbn [fst snd]. split; [assumption|]. split; [apply mext_refl|]. split; [|reflexivity]. apply mk_get_iff. auto.
  - cbn [ma_allocate fst snd with_alloc sl_markers] in *.
    set (w' := with_markers _ _) in *.
    assert (forall x, mk_get w' x = if entity_eq_dec x e then Some (sl_index w) else mk_get w x) as EM.
    { intros x. unfold mk_get. change (w_alive w' x) with (w_alive w x). unfold w'. cbn [with_markers sl_markers].
      destruct (entity_eq_dec x e) as [->|Hne].
      - rewrite A. apply NMF.add_eq_o. reflexivity.
      - destruct (w_alive w x) eqn:Ax; [|reflexivity]. apply NMF.add_neq_o. intros E. apply Hne.
        symmetry. apply (life_one_per_index (sl_life w)); auto. }
    split; [assumption|]. split.
    { split; [reflexivity|]. split; [reflexivity|]. intros x m G. rewrite EM.
      destruct (entity_eq_dec x e) as [->|]; [|assumption]. apply mk_get_iff in G. destruct G; congruence. }
    split; [reflexivity|]. split; [unfold mk_get; rewrite A; assumption|].
    split; [rewrite EM, entity_eq_dec_refl; reflexivity|].
    intros x Hne. rewrite EM. destruct (entity_eq_dec x e); [contradiction | reflexivity].
Qed.

Lemma ser_entity_mext w1 w2 e : mext w1 w2 -> forall n k cs,
  ser_entity w1 (mk_get w1) e k n = Some cs -> ser_entity w2 (mk_get w2) e k n = Some cs.
Proof.
  intros [A [C M]]. induction n as [|n IH]; intros k cs H; cbn [ser_entity] in *; [assumption|].
  rewrite C. destruct (st_get w1 k e) as [c|].
  - destruct (conv_into (mk_get w1) c) as [d|] eqn:E; [|discriminate].
    assert (conv_into (mk_get w2) c = Some d) as ->.
    { destruct c as [z|e']; cbn [conv_into] in *; [assumption|].
      destruct (mk_get w1 e') as [m|] eqn:G; [|discriminate]. rewrite (M _ _ G). assumption. }
    destruct (ser_entity w1 (mk_get w1) e (k + 1) n) as [l|] eqn:R; [|discriminate]. rewrite (IH _ _ R). assumption.
  - destruct (ser_entity w1 (mk_get w1) e (k + 1) n) as [l|] eqn:R; [|discriminate]. rewrite (IH _ _ R). assumption.
Qed.

(* what one pass adds: [new] are the entities it marked *)
Record pass_spec (w w1 : slw) (new : list (entity * N)) (srcs : list entity) (k : N) (n : nat) : Prop := {
  p_inv : Inv w1;
  p_mext : mext w w1;
  p_new : forall x m, In (x, m) new -> mk_get w x = None /\ mk_get w1 x = Some m /\
          exists y j, In y srcs /\ (j < n)%nat /\ st_get w (k + N.of_nat j) y = Some (Ref x);
  p_nd : NoDup (map fst new);
  p_all : forall x, mk_get w x = None -> mk_get w1 x <> None -> In x (map fst new) }.

Lemma pass_refl w srcs k n : Inv w -> pass_spec w w [] srcs k n.
Proof.
  intros HI. split; [assumption | apply mext_refl | intros x m [] | constructor | intros x H1 H2; congruence].
Qed.

Lemma pass_trans w w1 w2 new1 new2 srcs k n :
  pass_spec w w1 new1 srcs k n -> pass_spec w1 w2 new2 srcs k n -> pass_spec w w2 (new1 ++ new2) srcs k n.
Proof.
  intros P1 P2. destruct P1 as [I1 X1 N1 D1 A1], P2 as [I2 X2 N2 D2 A2].
  split; [assumption | apply (mext_trans _ w1); assumption | | |].
  - intros x m H. apply in_app_or in H. destruct H as [H|H].
    + destruct (N1 _ _ H) as [G [G1 R]]. split; [assumption|]. split; [apply X2; assumption | assumption].
    + destruct (N2 _ _ H) as [G [G2 [y [j [Hy [Hj R]]]]]]. split.
      * destruct (mk_get w x) as [m'|] eqn:G'; [|reflexivity]. destruct X1 as [_ [_ M]]. rewrite (M _ _ G') in G. discriminate.
      * split; [assumption|]. exists y, j. split; [assumption|]. split; [assumption|].
        destruct X1 as [_ [C _]]. rewrite <- C. assumption.
  - rewrite map_app. apply NoDup_app_intro; try assumption.
    intros x H1 H2. apply in_map_iff in H1. destruct H1 as [[x1 m1] [E1 H1]]. cbn [fst] in E1. subst x1.
    apply in_map_iff in H2. destruct H2 as [[x2 m2] [E2 H2]]. cbn [fst] in E2. subst x2.
    destruct (N1 _ _ H1) as [_ [G1 _]]. destruct (N2 _ _ H2) as [G2 _]. congruence.
  - intros x G G2. rewrite map_app. apply in_or_app.
    destruct (mk_get w1 x) as [m|] eqn:G1; [left; apply A1; congruence | right; apply A2; assumption].
Qed.

Lemma pass_srcs w w1 new srcs srcs' k n : incl srcs srcs' -> pass_spec w w1 new srcs k n -> pass_spec w w1 new srcs' k n.
Proof.
  intros Hi [I X Nw D A]. split; try assumption. intros x m H. destruct (Nw _ _ H) as [G [G1 [y [j [Hy R]]]]].
  split; [assumption|]. split; [assumption|]. exists y, j. split; [apply Hi; assumption | assumption].
Qed.

(* one slot *)
Definition rec_slot (st : rst) (e : entity) (k : N) : rst * option (option ddata) :=
  match st_get (fst st) k e with
  | None => (st, Some None)
  | Some (Plain z) => (st, Some (Some (DPlain z)))
  | Some (Ref e') =>
      let '(st', r) := rec_ids st e' in
      (st', match r with Some m => Some (Some (DRef m)) | None => None end)
  end.

Lemma ser_entity_rec_S st e k n :
  ser_entity_rec st e k (S n) =
  let '(st1, o) := rec_slot st e k in
  match o with
  | None => (st1, None)
  | Some x => let '(st2, r) := ser_entity_rec st1 e (k + 1) n in
              (st2, match r with Some l => Some (x :: l) | None => None end)
  end.
Proof. reflexivity. Qed.

Lemma rec_slot_spec w add e k : Inv w ->
  exists w1 new1 o, rec_slot (w, add) e k = ((w1, add ++ new1), o) /\ pass_spec w w1 new1 [e] k 1 /\
    (forall x, o = Some x -> match st_get w k e with
                             | None => x = None
                             | Some c => match conv_into (mk_get w1) c with Some d => x = Some d | None => False end
                             end).
Proof.
  intros HI. unfold rec_slot. cbn [fst].
  destruct (st_get w k e) as [[z|e']|] eqn:G.
  - exists w, [], (Some (Some (DPlain z))). rewrite app_nil_r. split; [reflexivity|]. split; [apply pass_refl; assumption|].
    intros x H. inversion H. reflexivity.
  - unfold rec_ids. cbn [fst snd].
    destruct (mark_spec w e' HI) as [HI1 [MX R]]. destruct (ma_mark w e') as [w1 [[m [|]]|]]; cbn [fst snd] in *.
    + destruct R as [A [Gn [G1 OT]]].
      exists w1, [(e', m)], (Some (Some (DRef m))). split; [reflexivity|]. split.
      * split; [assumption | assumption | | |].
        -- intros x m0 [H|[]]. inversion H; subst. split; [assumption|]. split; [assumption|].
           exists e, 0%nat. split; [left; reflexivity|]. split; [lia|]. replace (k + N.of_nat 0) with k by lia. assumption.
        -- cbn. constructor; [intros []|constructor].
        -- intros x Gx Gx1. left. cbn [fst]. destruct (entity_eq_dec x e') as [->|Hne]; [reflexivity|].
           rewrite OT in Gx1 by assumption. congruence.
      * intros x H. inversion H; subst. cbn [conv_into]. rewrite G1. reflexivity.
    + destruct R as [G1 ->].
      exists w, [], (Some (Some (DRef m))). rewrite app_nil_r. split; [reflexivity|]. split; [apply pass_refl; assumption|].
      intros x H. inversion H; subst. cbn [conv_into]. rewrite G1. reflexivity.
    + destruct R as [A ->].
      exists w, [], None. rewrite app_nil_r. split; [reflexivity|]. split; [apply pass_refl; assumption|].
      intros x H. discriminate.
  - exists w, [], (Some None). rewrite app_nil_r. split; [reflexivity|]. split; [apply pass_refl; assumption|].
    intros x H. inversion H. reflexivity.
Qed.

(* one entity: types k .. k+n-1 *)
Lemma ser_entity_rec_spec e : forall n k w add,
  Inv w ->
  let st' := fst (ser_entity_rec (w, add) e k n) in
  exists new, snd st' = add ++ new /\ pass_spec w (fst st') new [e] k n /\
    forall cs, snd (ser_entity_rec (w, add) e k n) = Some cs -> ser_entity (fst st') (mk_get (fst st')) e k n = Some cs.
Proof.
  induction n as [|n IH]; intros k w add HI.
  - cbn [ser_entity_rec fst snd]. exists []. split; [rewrite app_nil_r; reflexivity|].
    split; [apply pass_refl; assumption|]. intros cs H. exact H.
  - rewrite ser_entity_rec_S.
    destruct (rec_slot_spec w add e k HI) as [w1 [new1 [o [E1 [P1 O1]]]]].
    rewrite E1. destruct o as [x|].
    + destruct (IH (k + 1) w1 (add ++ new1) (p_inv _ _ _ _ _ _ P1)) as [new2 [E2 [P2 R2]]].
      destruct (ser_entity_rec (w1, add ++ new1) e (k + 1) n) as [st2 r2]. cbn [fst snd] in *.
      exists (new1 ++ new2). split; [rewrite E2, app_assoc; reflexivity|]. split.
      * apply (pass_trans _ w1).
        -- destruct P1 as [I X Nw D A]. split; try assumption. intros y m H. destruct (Nw _ _ H) as [G [G1 [y0 [j [Hy [Hj R]]]]]].
           split; [assumption|]. split; [assumption|]. exists y0, j. split; [assumption|]. split; [lia | assumption].
        -- destruct P2 as [I X Nw D A]. split; try assumption. intros y m H. destruct (Nw _ _ H) as [G [G1 [y0 [j [Hy [Hj R]]]]]].
           split; [assumption|]. split; [assumption|]. exists y0, (S j). split; [assumption|]. split; [lia|].
           replace (k + N.of_nat (S j)) with (k + 1 + N.of_nat j) by lia. assumption.
      * intros cs H. destruct r2 as [l|]; [|discriminate]. inversion H; subst.
        cbn [ser_entity]. destruct (p_mext _ _ _ _ _ _ P1) as [_ [C1 _]]. destruct (p_mext _ _ _ _ _ _ P2) as [_ [C2 M2]].
        rewrite C2, C1. specialize (O1 x eq_refl). rewrite (R2 l eq_refl).
        destruct (st_get w k e) as [c|]; [|subst x; reflexivity].
        destruct (conv_into (mk_get w1) c) as [d|] eqn:CV; [|contradiction]. subst x.
        assert (conv_into (mk_get (fst st2)) c = Some d) as ->; [|reflexivity].
        destruct c as [z|e']; cbn [conv_into] in *; [assumption|].
        destruct (mk_get w1 e') as [m|] eqn:G; [|discriminate]. rewrite (M2 _ _ G). assumption.
    + cbn [fst snd]. exists new1. split; [reflexivity|]. split.
      * destruct P1 as [I X Nw D A]. split; try assumption. intros y m H. destruct (Nw _ _ H) as [G [G1 [y0 [j [Hy [Hj R]]]]]].
        split; [assumption|]. split; [assumption|]. exists y0, j. split; [assumption|]. split; [lia | assumption].
      * intros cs H. discriminate.
Qed.

(* one pass over to_serialize *)
Definition recs_ok (w' : slw) (nc : nat) (L : list (entity * N)) (d : data) : Prop :=
  Forall2 (fun (p : entity * N) (r : record) =>
             fst r = snd p /\ ser_entity w' (mk_get w') (fst p) 0 nc = Some (snd r)) L d.

Lemma recs_ok_mext w1 w2 nc L d : mext w1 w2 -> recs_ok w1 nc L d -> recs_ok w2 nc L d.
Proof.
  intros X H. induction H as [|p r L d [E S] _ IH]; constructor; [|assumption].
  split; [assumption|]. apply (ser_entity_mext w1 w2 _ X). assumption.
Qed.

Lemma ser_round_cons st nc e m l :
  ser_round st nc ((e, m) :: l) =
  let '(st1, r) := ser_entity_rec st e 0 nc in
  match r with
  | None => (st1, None)
  | Some cs => let '(st2, r2) := ser_round st1 nc l in
               (st2, match r2 with Some d => Some ((m, cs) :: d) | None => None end)
  end.
Proof. reflexivity. Qed.

Lemma ser_round_spec nc : forall l w add, Inv w ->
  let res := ser_round (w, add) nc l in
  exists new, snd (fst res) = add ++ new /\ pass_spec w (fst (fst res)) new (map fst l) 0 nc /\
    forall d, snd res = Some d -> recs_ok (fst (fst res)) nc l d.
Proof.
  induction l as [|[e m] l IH]; intros w add HI.
  - cbn [ser_round fst snd map]. exists []. split; [rewrite app_nil_r; reflexivity|].
    split; [apply pass_refl; assumption|]. intros d H. inversion H. constructor.
  - rewrite ser_round_cons.
    destruct (ser_entity_rec_spec e nc 0 w add HI) as [new1 [E1 [P1 R1]]].
    destruct (ser_entity_rec (w, add) e 0 nc) as [[w1 add1] r1]. cbn [fst snd] in *. subst add1.
    destruct r1 as [cs|].
    + destruct (IH w1 (add ++ new1) (p_inv _ _ _ _ _ _ P1)) as [new2 [E2 [P2 R2]]].
      destruct (ser_round (w1, add ++ new1) nc l) as [[w2 add2] r2]. cbn [fst snd] in *. subst add2.
      exists (new1 ++ new2). split; [rewrite app_assoc; reflexivity|]. split.
      * apply (pass_trans _ w1).
        -- apply (pass_srcs _ _ _ [e]); [|assumption]. intros x [<-|[]]. left. reflexivity.
        -- apply (pass_srcs _ _ _ (map fst l)); [|assumption]. intros x H. right. assumption.
      * intros d H. destruct r2 as [d2|]; [|discriminate]. inversion H; subst. constructor; [|apply R2; reflexivity].
        cbn [fst snd]. split; [reflexivity|]. apply (ser_entity_mext w1 w2 _ (p_mext _ _ _ _ _ _ P2)). apply R1. reflexivity.
    + cbn [fst snd]. exists new1. split; [reflexivity|]. split.
      * apply (pass_srcs _ _ _ [e]); [|assumption]. intros x [<-|[]]. left. reflexivity.
      * intros d H. discriminate.
Qed.

(* reachability through entity-valued fields of the serialised component types *)
Inductive reach_from (w : slw) (nc : nat) (P : entity -> Prop) : entity -> Prop :=
| rf_src x : P x -> reach_from w nc P x
| rf_ref y j x : reach_from w nc P y -> (j < nc)%nat -> st_get w (N.of_nat j) y = Some (Ref x) -> reach_from w nc P x.

Lemma reach_from_mono w w' nc (P Q : entity -> Prop) x :
  (forall k y, st_get w' k y = st_get w k y) -> (forall y, P y -> reach_from w' nc Q y) ->
  reach_from w nc P x -> reach_from w' nc Q x.
Proof.
  intros C H R. induction R as [x Hx|y j x _ IH Hj G]; [auto|].
  apply (rf_ref _ _ _ y j); [assumption | assumption | rewrite C; assumption].
Qed.

Lemma ser_loop_S fuel w nc p todo :
  ser_loop (S fuel) w nc (p :: todo) =
  let '(st, r) := ser_round (w, []) nc (p :: todo) in
  match r with
  | None => (fst st, None)
  | Some d => let '(w2, r2) := ser_loop fuel (fst st) nc (snd st) in
              (w2, match r2 with Some d' => Some (d ++ d') | None => None end)
  end.
Proof. reflexivity. Qed.

Lemma ser_loop_spec nc : forall fuel w todo, Inv w ->
  let res := ser_loop fuel w nc todo in
  Inv (fst res) /\ mext w (fst res) /\
  forall d, snd res = Some d ->
    exists L', recs_ok (fst res) nc (todo ++ L') d /\
      (forall x m, In (x, m) L' -> mk_get w x = None /\ mk_get (fst res) x = Some m /\
                                   reach_from w nc (fun y => In y (map fst todo)) x) /\
      NoDup (map fst L') /\
      (forall x, mk_get w x = None -> mk_get (fst res) x <> None -> In x (map fst L')).
Proof.
  induction fuel as [|fuel IH]; intros w todo HI.
  - destruct todo as [|p todo]; cbn [ser_loop fst snd].
    + split; [assumption|]. split; [apply mext_refl|]. intros d H. inversion H; subst. exists [].
      split; [constructor|]. split; [intros x m []|]. split; [constructor|]. intros x G1 G2. congruence.
    + split; [assumption|]. split; [apply mext_refl|]. intros d H. discriminate.
  - destruct todo as [|p todo].
    + cbn [ser_loop fst snd]. split; [assumption|]. split; [apply mext_refl|]. intros d H. inversion H; subst. exists [].
      split; [constructor|]. split; [intros x m []|]. split; [constructor|]. intros x G1 G2. congruence.
    + rewrite ser_loop_S.
      destruct (ser_round_spec nc (p :: todo) w [] HI) as [new [E1 [P1 R1]]].
      destruct (ser_round (w, []) nc (p :: todo)) as [[w1 add1] r1]. cbn [fst snd app] in *. subst add1.
      destruct r1 as [dr|]; [|cbn [fst snd]; split; [apply (p_inv _ _ _ _ _ _ P1)|]; split; [apply (p_mext _ _ _ _ _ _ P1)|]; intros d H; discriminate].
      destruct (IH w1 new (p_inv _ _ _ _ _ _ P1)) as [HI2 [MX2 R2]].
      destruct (ser_loop fuel w1 nc new) as [w2 r2]. cbn [fst snd] in *.
      pose proof (p_mext _ _ _ _ _ _ P1) as MX1.
      split; [assumption|]. split; [apply (mext_trans _ w1); assumption|].
      intros d H. destruct r2 as [d2|]; [|discriminate]. inversion H; subst.
      destruct (R2 d2 eq_refl) as [L2 [RK [EN [ND AL]]]].
      exists (new ++ L2). split.
      { change (recs_ok w2 nc ((p :: todo) ++ (new ++ L2)) (dr ++ d2)). unfold recs_ok. apply Forall2_app; [|exact RK].
        apply (recs_ok_mext w1 w2 _ _ _ MX2). apply R1. reflexivity. }
      assert (forall x m, In (x, m) new -> reach_from w nc (fun y => In y (map fst (p :: todo))) x) as RN.
      { intros x m Hin. destruct (p_new _ _ _ _ _ _ P1 _ _ Hin) as [_ [_ [y [j [Hy [Hj G]]]]]].
        apply (rf_ref _ _ _ y j); [apply rf_src; assumption | assumption|]. replace (N.of_nat j) with (0 + N.of_nat j) by lia. assumption. }
      split.
      { intros x m Hin. apply in_app_or in Hin. destruct Hin as [Hin|Hin].
        - destruct (p_new _ _ _ _ _ _ P1 _ _ Hin) as [G [G1 _]]. split; [assumption|]. split; [apply MX2; assumption|].
          apply (RN _ _ Hin).
        - destruct (EN _ _ Hin) as [G1 [G2 RF]]. split.
          + destruct (mk_get w x) as [m'|] eqn:G; [|reflexivity]. destruct MX1 as [_ [_ M]]. rewrite (M _ _ G) in G1. discriminate.
          + split; [assumption|]. apply (reach_from_mono w1 w nc (fun y => In y (map fst new)) _ x); [| |assumption].
            * intros k y. destruct MX1 as [_ [C _]]. symmetry. apply C.
            * intros y Hy. apply in_map_iff in Hy. destruct Hy as [[y' m'] [E Hy]]. cbn [fst] in E. subst y'. apply (RN _ _ Hy). }
      split.
      { rewrite map_app. apply NoDup_app_intro; [apply (p_nd _ _ _ _ _ _ P1) | assumption|].
        intros x H1 H2. apply in_map_iff in H1. destruct H1 as [[x1 m1] [E H1]]. cbn [fst] in E. subst x1.
        apply in_map_iff in H2. destruct H2 as [[x2 m2] [E H2]]. cbn [fst] in E. subst x2.
        destruct (p_new _ _ _ _ _ _ P1 _ _ H1) as [_ [G1 _]]. destruct (EN _ _ H2) as [G2 _]. congruence. }
      intros x G G2. rewrite map_app. apply in_or_app.
      destruct (mk_get w1 x) as [m|] eqn:G1; [left; apply (p_all _ _ _ _ _ _ P1); congruence | right; apply AL; assumption].
Qed.

Lemma nodup_transfer {X A B} (f : X -> A) (g : X -> B) (l : list X) :
  (forall p q, In p l -> In q l -> g p = g q -> f p = f q) -> NoDup (map f l) -> NoDup (map g l).
Proof.
  induction l as [|x l IH]; intros H Hnd; cbn [map] in *; [constructor|].
  inversion Hnd as [|? ? Hn Hnd']; subst. constructor.
  - intros Hin. apply in_map_iff in Hin. destruct Hin as [y [E Hy]]. apply Hn.
    apply in_map_iff. exists y. split; [|assumption]. symmetry. apply H; [left; reflexivity | right; assumption | congruence].
  - apply IH; [|assumption]. intros p q Hp Hq. apply H; right; assumption.
Qed.

(* the entities reachable from the marked ones through references *)
Definition reach (w : slw) (nc : nat) : entity -> Prop := reach_from w nc (fun x => mk_get w x <> None).

(* serialize_recursive: when it returns, the data is a faithful image of the
   (now larger) marked part, and the marked part is exactly the least set
   containing the initially marked entities and closed under references *)
Theorem serialize_recursive_spec w nc : Inv w ->
  let res := serialize_recursive w nc in
  Inv (fst res) /\ mext w (fst res) /\
  forall d, snd res = Some d ->
    ser_data_spec (fst res) nc d /\ (forall x, mk_get (fst res) x <> None <-> reach w nc x).
Proof.
  intros HI. unfold serialize_recursive.
  destruct (ser_loop_spec nc (S (length (l_entities (sl_life w)))) w (join_marked w) HI) as [HI' [MX R]].
  set (res := ser_loop _ w nc (join_marked w)) in *. set (w' := fst res) in *.
  split; [assumption|]. split; [assumption|]. intros d H.
  destruct (R d H) as [L' [RK [EN [ND AL]]]]. clear R.
  set (T := join_marked w) in *.
  assert (forall x m, In (x, m) T <-> mk_get w x = Some m) as HT by (intros x m; apply in_join_marked_get; assumption).
  assert (forall p, In p (T ++ L') -> mk_get w' (fst p) = Some (snd p)) as HL.
  { intros [x m] Hin. cbn [fst snd]. apply in_app_or in Hin. destruct Hin as [Hin|Hin].
    - apply MX. apply HT. assumption.
    - apply (EN _ _ Hin). }
  assert (NoDup (map fst (T ++ L'))) as NDL.
  { rewrite map_app. apply NoDup_app_intro; [|assumption|].
    - apply (nodup_transfer snd fst); [|apply join_marked_nodup_ids; assumption].
      intros [x1 m1] [x2 m2] H1 H2 E. cbn [fst snd] in *. subst x2. apply HT in H1. apply HT in H2. congruence.
    - intros x H1 H2. apply in_map_iff in H1. destruct H1 as [[x1 m1] [E H1]]. cbn [fst] in E. subst x1.
      apply in_map_iff in H2. destruct H2 as [[x2 m2] [E H2]]. cbn [fst] in E. subst x2.
      apply HT in H1. destruct (EN _ _ H2) as [G _]. congruence. }
  assert (forall x m, mk_get w' x = Some m -> In (x, m) (T ++ L')) as COV.
  { intros x m G. apply in_or_app. destruct (mk_get w x) as [m0|] eqn:G0.
    - left. apply HT. pose proof (proj2 (proj2 MX) _ _ G0) as G1. fold w' in G1. congruence.
    - right. assert (In x (map fst L')) as Hin by (apply AL; [assumption | congruence]).
      apply in_map_iff in Hin. destruct Hin as [[x' m'] [E Hin]]. cbn [fst] in E. subst x'.
      destruct (EN _ _ Hin) as [_ [G1 _]]. replace m with m' by congruence. assumption. }
  split.
  - split; [|split].
    + unfold recs_ok in RK. rewrite (Forall2_map_fst_snd _ _ _ RK).
      apply (nodup_transfer fst snd); [|assumption].
      intros p q Hp Hq E. apply (inv_unique w' (fst p) (fst q) (snd p) HI'); [apply HL; assumption|]. rewrite E. apply HL. assumption.
    + intros e m G. destruct (Forall2_in_l _ _ _ _ RK (COV _ _ G)) as [[m' cs] [Hin [E S]]]. cbn [fst snd] in *. subst m'.
      exists cs. auto.
    + intros m cs Hin. destruct (Forall2_in_r _ _ _ _ RK Hin) as [[e m'] [Hl [E S]]]. cbn [fst snd] in *. subst m'.
      exists e. split; [apply (HL _ Hl) | assumption].
  - intros x. split.
    + intros G. destruct (mk_get w' x) as [m|] eqn:G1; [|congruence]. apply COV in G1. apply in_app_or in G1.
      destruct G1 as [G1|G1].
      * apply rf_src. apply HT in G1. congruence.
      * destruct (EN _ _ G1) as [_ [_ RF]]. apply (reach_from_mono w w nc (fun y => In y (map fst T)) _ x); [reflexivity| |assumption].
        intros y Hy. apply rf_src. apply in_map_iff in Hy. destruct Hy as [[y' m'] [E Hy]]. cbn [fst] in E. subst y'.
        apply HT in Hy. congruence.
    + intros RF. induction RF as [x Hx|y j x _ IH Hj G].
      * destruct (mk_get w x) as [m|] eqn:G0; [|congruence]. pose proof (proj2 (proj2 MX) _ _ G0) as G1. fold w' in G1. congruence.
      * destruct (mk_get w' y) as [m|] eqn:Gy; [|congruence].
        destruct (Forall2_in_l _ _ _ _ RK (COV _ _ Gy)) as [[m' cs] [_ [_ S]]]. cbn [fst snd] in S.
        destruct (ser_entity_spec _ _ _ _ _ _ S) as [_ SS]. specialize (SS j Hj).
        replace (0 + N.of_nat j) with (N.of_nat j) in SS by lia.
        destruct MX as [_ [C _]]. fold w' in C. rewrite C, G in SS. cbn [ser_slot] in SS.
        destruct SS as [m'' [G'' _]]. congruence.
Qed.

(* ------------------------------------------------------------------ *)
(* the fuel of ser_loop is enough: the result does not depend on it *)

Definition unmarked (w : slw) (x : entity) : bool := match mk_get w x with None => true | Some _ => false end.

Lemma l_entities_nodup s : NoDup (l_entities s).
Proof.
  unfold l_entities. pose proof (NM.elements_3w (cells s)) as H.
  induction H as [|[i c] l Hn Hnd IH]; cbn [filter map]; [constructor|].
  cbn [snd]. destruct (occupied c); [|assumption].
  cbn [map fst snd]. constructor; [|assumption].
  intros X. apply in_map_iff in X. destruct X as [[j d] [E Y]]. cbn [fst snd] in E. inversion E; subst j.
  apply filter_In in Y. destruct Y as [Y _]. apply Hn. apply InA_alt. exists (i, d). split; [reflexivity | assumption].
Qed.

Lemma filter_len_le {A} (f : A -> bool) l : (length (filter f l) <= length l)%nat.
Proof. induction l as [|x l IH]; cbn [filter length]; [lia|]. destruct (f x); cbn [length]; lia. Qed.

Lemma count_step E w w1 new : NoDup E -> (forall x, w_alive w x = true -> In x E) -> mext w w1 ->
  (forall x m, In (x, m) new -> mk_get w x = None /\ mk_get w1 x = Some m) -> NoDup (map fst new) ->
  (length (filter (unmarked w1) E) + length new <= length (filter (unmarked w) E))%nat.
Proof.
  intros NE AE [A [_ M]] Hnew ND.
  assert (NoDup (filter (unmarked w1) E ++ map fst new)) as NA.
  { apply NoDup_app_intro; [apply NoDup_filter; assumption | assumption|].
    intros x H1 H2. apply filter_In in H1. destruct H1 as [_ U]. unfold unmarked in U.
    apply in_map_iff in H2. destruct H2 as [[x' m] [E' H2]]. cbn [fst] in E'. subst x'.
    destruct (Hnew _ _ H2) as [_ G]. rewrite G in U. discriminate. }
  assert (incl (filter (unmarked w1) E ++ map fst new) (filter (unmarked w) E)) as IA.
  { intros x H. apply in_app_or in H. apply filter_In. destruct H as [H|H].
    - apply filter_In in H. destruct H as [HE U]. split; [assumption|]. unfold unmarked in *.
      destruct (mk_get w x) as [m|] eqn:G; [|reflexivity]. rewrite (M _ _ G) in U. discriminate.
    - apply in_map_iff in H. destruct H as [[x' m] [E' H]]. cbn [fst] in E'. subst x'.
      destruct (Hnew _ _ H) as [G G1]. split; [|unfold unmarked; rewrite G; reflexivity].
      apply AE. rewrite <- A. apply mk_get_iff in G1. apply G1. }
  pose proof (NoDup_incl_length NA IA) as L. rewrite app_length, map_length in L. exact L.
Qed.

Lemma ser_loop_nil fuel w nc : ser_loop fuel w nc [] = (w, Some []).
Proof. destruct fuel; reflexivity. Qed.

Lemma fuel_enough nc E : NoDup E -> forall fuel w todo, Inv w -> (forall x, w_alive w x = true -> In x E) ->
  (length (filter (unmarked w) E) < fuel)%nat ->
  forall fuel', (fuel <= fuel')%nat -> ser_loop fuel' w nc todo = ser_loop fuel w nc todo.
Proof.
  intros NE. induction fuel as [|f IH]; intros w todo HI AE Hc fuel' Hle; [lia|].
  destruct fuel' as [|f']; [lia|].
  destruct todo as [|p todo]; [reflexivity|].
  rewrite !ser_loop_S.
  destruct (ser_round_spec nc (p :: todo) w [] HI) as [new [E1 [P1 _]]].
  destruct (ser_round (w, []) nc (p :: todo)) as [[w1 add1] r1]. cbn [fst snd app] in *. subst add1.
  destruct r1 as [dr|]; [|reflexivity].
  destruct new as [|q new].
  - rewrite !ser_loop_nil. reflexivity.
  - rewrite (IH w1 (q :: new)); [reflexivity | apply (p_inv _ _ _ _ _ _ P1) | | | lia].
    + intros x A. apply AE. destruct (p_mext _ _ _ _ _ _ P1) as [A1 _]. rewrite <- A1. assumption.
    + pose proof (count_step E w w1 (q :: new) NE AE (p_mext _ _ _ _ _ _ P1)) as C.
      assert (forall x m, In (x, m) (q :: new) -> mk_get w x = None /\ mk_get w1 x = Some m) as Hn.
      { intros x m H. destruct (p_new _ _ _ _ _ _ P1 _ _ H) as [G [G1 _]]. auto. }
      specialize (C Hn (p_nd _ _ _ _ _ _ P1)). cbn [length] in C. lia.
Qed.

(* more fuel changes nothing: a [None] of serialize_recursive is a panic of
   the code (a reference to a dead entity), never exhaustion *)
Theorem serialize_recursive_fuel w nc fuel' : Inv w -> (S (length (l_entities (sl_life w))) <= fuel')%nat ->
  ser_loop fuel' w nc (join_marked w) = serialize_recursive w nc.
Proof.
  intros HI Hle. unfold serialize_recursive.
  apply (fuel_enough nc (l_entities (sl_life w)) (l_entities_nodup _)); try assumption.
  - intros x A. apply life_entities_alive. assumption.
  - pose proof (filter_len_le (unmarked w) (l_entities (sl_life w))). lia.
Qed.

(* ------------------------------------------------------------------ *)
(* C20: the order of the serialised records is the order of the
   (&entities, &markers) join, which is ascending in the entity index and
   therefore a function of membership alone *)
Lemma flat_map_opt_fst {A B C} (f : A -> bool) (g : A -> B) (h : A -> C) (l : list A) :
  map fst (flat_map (fun p => if f p then [(g p, h p)] else []) l) = map g (filter f l).
Proof.
  induction l as [|a l IH]; [reflexivity|]. cbn [flat_map filter]. rewrite map_app, IH.
  destruct (f a); reflexivity.
Qed.

Lemma join_marked_entities w :
  map fst (join_marked w) =
  map (fun p : N * N => (fst p, top (cell (sl_life w) (fst p))))
      (filter (fun p : N * N => occupied (cell (sl_life w) (fst p))) (NM.elements (sl_markers w))).
Proof.
  unfold join_marked.
  exact (flat_map_opt_fst (fun p : N * N => occupied (cell (sl_life w) (fst p)))
           (fun p : N * N => (fst p, top (cell (sl_life w) (fst p)))) (fun p : N * N => snd p) _).
Qed.

Theorem join_marked_ascending w : Sorted (fun a b : entity => fst a < fst b) (map fst (join_marked w)).
Proof.
  rewrite join_marked_entities. apply map_filter_sorted; [reflexivity|].
  pose proof (NM.elements_3 (sl_markers w)) as H.
  induction H as [|a l Hs IH Hhd]; constructor; [assumption|].
  destruct Hhd; constructor. assumption.
Qed.

Theorem serialize_order w nc d : serialize w nc = Some d -> map fst d = map snd (join_marked w).
Proof. intros H. unfold serialize in H. apply ser_all_spec in H. exact (Forall2_map_fst_snd _ _ _ H). Qed.
