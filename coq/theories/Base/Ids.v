(* Index sets and maps used by every model: AVL trees over N (numeric order,
   so [elements] is ascending, which is what join order needs). *)
From Coq Require Export List NArith ZArith Bool Lia.
From Coq Require Export MSetAVL MSetFacts MSetProperties FMapAVL FMapFacts OrdersEx OrderedTypeEx.
Export ListNotations.
Open Scope N_scope.

Module NM := FMapAVL.Make(N_as_OT).
Module NMF := FMapFacts.WFacts_fun N_as_OT NM.
Module NMP := FMapFacts.WProperties_fun N_as_OT NM.
Module NS := MSetAVL.Make(OrdersEx.N_as_OT).
Module NSF := MSetFacts.WFactsOn OrdersEx.N_as_OT NS.
Module NSP := MSetProperties.WPropertiesOn OrdersEx.N_as_OT NS.

Arguments N.add : simpl never.
Arguments N.sub : simpl never.
Arguments N.mul : simpl never.
Arguments N.eqb : simpl never.
Arguments N.ltb : simpl never.
Arguments N.leb : simpl never.
Arguments Z.add : simpl never.
Arguments Z.sub : simpl never.
Arguments Z.opp : simpl never.
Arguments Z.eqb : simpl never.
Arguments Z.ltb : simpl never.
Arguments Z.leb : simpl never.

(* An entity handle: index and generation. *)
Definition entity := (N * Z)%type.

Definition entity_eqb (a b : entity) : bool := N.eqb (fst a) (fst b) && Z.eqb (snd a) (snd b).

Lemma entity_eqb_eq a b : entity_eqb a b = true <-> a = b.
Proof.
  destruct a as [i g], b as [j k]; unfold entity_eqb; cbn [fst snd].
  rewrite andb_true_iff, N.eqb_eq, Z.eqb_eq. split.
  - intros [-> ->]; reflexivity.
  - intros H; inversion H; auto.
Qed.

Lemma entity_eq_dec (a b : entity) : {a = b} + {a <> b}.
Proof. decide equality; [apply Z.eq_dec | apply N.eq_dec]. Defined.

(* Rust [Vec<A>] : a length and a finite map from position.  Entries at or
   beyond the length are garbage; every read checks the length. *)
Record pvec (A : Type) := { vlen : N; vmap : NM.t A }.
Arguments vlen {A}. Arguments vmap {A}. Arguments Build_pvec {A}.

Definition pv_empty {A} : pvec A := {| vlen := 0; vmap := NM.empty A |}.
Definition pv_get {A} (v : pvec A) (k : N) : option A :=
  if N.ltb k (vlen v) then NM.find k (vmap v) else None.
Definition pv_push {A} (v : pvec A) (x : A) : pvec A :=
  {| vlen := vlen v + 1; vmap := NM.add (vlen v) x (vmap v) |}.
Definition pv_truncate {A} (v : pvec A) (n : N) : pvec A :=
  {| vlen := N.min n (vlen v); vmap := vmap v |}.
Definition pv_set {A} (v : pvec A) (k : N) (x : A) : pvec A :=
  {| vlen := vlen v; vmap := NM.add k x (vmap v) |}.
Definition pv_pop {A} (v : pvec A) : pvec A * option A :=
  if N.eqb (vlen v) 0 then (v, None)
  else ({| vlen := vlen v - 1; vmap := vmap v |}, NM.find (vlen v - 1) (vmap v)).
Fixpoint pv_extend {A} (v : pvec A) (l : list A) : pvec A :=
  match l with [] => v | x :: l' => pv_extend (pv_push v x) l' end.

(* positions 0 .. n-1 as a list; n is a small nat-sized quantity here (fuel
   comes from the length as a nat, never written as a literal) *)
Fixpoint pv_list_aux {A} (m : NM.t A) (k : N) (n : nat) : list (option A) :=
  match n with O => [] | S n' => NM.find k m :: pv_list_aux m (k + 1) n' end.
Definition pv_to_list {A} (v : pvec A) : list (option A) := pv_list_aux (vmap v) 0 (N.to_nat (vlen v)).

Lemma pv_get_push_eq {A} (v : pvec A) x : pv_get (pv_push v x) (vlen v) = Some x.
Proof.
  unfold pv_get, pv_push; cbn [vlen vmap].
  destruct (N.ltb_spec (vlen v) (vlen v + 1)); [|lia].
  apply NMF.add_eq_o; reflexivity.
Qed.

Lemma pv_get_push_lt {A} (v : pvec A) x k : (k < vlen v)%N -> pv_get (pv_push v x) k = pv_get v k.
Proof.
  intros Hk. unfold pv_get, pv_push; cbn [vlen vmap].
  destruct (N.ltb_spec k (vlen v + 1)); [|lia].
  destruct (N.ltb_spec k (vlen v)); [|lia].
  apply NMF.add_neq_o; lia.
Qed.

Lemma pv_extend_len {A} (l : list A) : forall v, vlen (pv_extend v l) = (vlen v + N.of_nat (length l))%N.
Proof.
  induction l as [|x l IH]; intros v; cbn [pv_extend length].
  - lia.
  - rewrite IH. unfold pv_push; cbn [vlen]. lia.
Qed.

Lemma pv_extend_get_lt {A} (l : list A) : forall v k, (k < vlen v)%N -> pv_get (pv_extend v l) k = pv_get v k.
Proof.
  induction l as [|x l IH]; intros v k Hk; cbn [pv_extend]; [reflexivity|].
  rewrite IH by (unfold pv_push; cbn [vlen]; lia).
  apply pv_get_push_lt; assumption.
Qed.

Lemma pv_extend_get_ge {A} (l : list A) : forall v k, (vlen v <= k)%N ->
  pv_get (pv_extend v l) k = nth_error l (N.to_nat (k - vlen v)).
Proof.
  induction l as [|x l IH]; intros v k Hk; cbn [pv_extend].
  - unfold pv_get. destruct (N.ltb_spec k (vlen v)); [lia|]. destruct (N.to_nat _); reflexivity.
  - destruct (N.eq_dec k (vlen v)) as [->|Hne].
    + rewrite pv_extend_get_lt by (unfold pv_push; cbn [vlen]; lia).
      rewrite pv_get_push_eq. replace (vlen v - vlen v)%N with 0%N by lia. reflexivity.
    + rewrite IH by (unfold pv_push; cbn [vlen]; lia).
      unfold pv_push; cbn [vlen].
      replace (N.to_nat (k - vlen v)) with (S (N.to_nat (k - (vlen v + 1)))) by lia.
      reflexivity.
Qed.

(* more Vec operations *)
Definition pv_last {A} (v : pvec A) : option A :=
  if N.eqb (vlen v) 0 then None else NM.find (vlen v - 1) (vmap v).

(* Vec::swap_remove(k): the last element takes position k; None = out of range (panic) *)
Definition pv_swap_remove {A} (v : pvec A) (k : N) : pvec A * option A :=
  match pv_get v k, pv_get v (vlen v - 1) with
  | Some x, Some l => ({| vlen := vlen v - 1; vmap := NM.add k l (vmap v) |}, Some x)
  | _, _ => (v, None)
  end.

Definition pv_clear {A} (v : pvec A) : pvec A := {| vlen := 0; vmap := vmap v |}.

(* the elements at positions 0 .. len-1 (missing entries skipped) *)
Fixpoint pv_elems_aux {A} (m : NM.t A) (k : N) (n : nat) : list A :=
  match n with
  | O => []
  | S n' => match NM.find k m with Some x => x :: pv_elems_aux m (k + 1) n' | None => pv_elems_aux m (k + 1) n' end
  end.
Definition pv_elems {A} (v : pvec A) : list A := pv_elems_aux (vmap v) 0 (N.to_nat (vlen v)).

(* tokens: component values with an identity.  uid 0 = the unit value of the
   null storage; uid [default_uid] = a value made by Default::default() *)
Definition tok := (N * Z)%type.
Definition default_uid : N := 1099511627776.      (* 2^40 *)
Definition default_tok : tok := (default_uid, 0%Z).
Definition unit_tok : tok := (0, 0%Z).

Lemma find_add {A} (m : NM.t A) i j v : NM.find j (NM.add i v m) = if N.eq_dec i j then Some v else NM.find j m.
Proof. destruct (N.eq_dec i j) as [->|H]; [apply NMF.add_eq_o; reflexivity | apply NMF.add_neq_o; assumption]. Qed.

Lemma find_remove {A} (m : NM.t A) i j : NM.find j (NM.remove i m) = if N.eq_dec i j then None else NM.find j m.
Proof. destruct (N.eq_dec i j) as [->|H]; [apply NMF.remove_eq_o; reflexivity | apply NMF.remove_neq_o; assumption]. Qed.

Lemma find_empty {A} j : NM.find j (NM.empty A) = None.
Proof. apply NMF.empty_o. Qed.
