(* small list lemmas *)
From Coq Require Import List Lia.
Import ListNotations.

Lemma NoDup_app_intro_single {A} (l : list A) (x : A) : NoDup l -> ~ In x l -> NoDup (l ++ [x]).
Proof.
  induction l as [|y l IH]; intros Hnd Hx; cbn.
  - constructor; [intros []|constructor].
  - inversion Hnd; subst. constructor.
    + intros H. apply in_app_or in H. destruct H as [H|[H|[]]]; [auto|]. subst. apply Hx. left; reflexivity.
    + apply IH; [assumption|]. intros H. apply Hx. right; assumption.
Qed.

Lemma NoDup_app_intro {A} (l1 l2 : list A) :
  NoDup l1 -> NoDup l2 -> (forall x, In x l1 -> In x l2 -> False) -> NoDup (l1 ++ l2).
Proof.
  induction l1 as [|y l IH]; intros H1 H2 Hd; cbn; [assumption|].
  inversion H1; subst. constructor.
  - intros H. apply in_app_or in H. destruct H; [auto|]. apply (Hd y); [left; reflexivity|assumption].
  - apply IH; auto. intros x Hx. apply Hd. right; assumption.
Qed.
