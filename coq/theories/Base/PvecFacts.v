(* lemmas about the Vec model *)
From SV Require Import Base.Ids.

Lemma pv_get_lt {A} (v : pvec A) k x : pv_get v k = Some x -> k < vlen v.
Proof. unfold pv_get. destruct (N.ltb_spec k (vlen v)); [auto|discriminate]. Qed.

Lemma pv_get_find {A} (v : pvec A) k : k < vlen v -> pv_get v k = NM.find k (vmap v).
Proof. intros H. unfold pv_get. destruct (N.ltb_spec k (vlen v)); [reflexivity|lia]. Qed.

Lemma pv_get_ge {A} (v : pvec A) k : vlen v <= k -> pv_get v k = None.
Proof. intros H. unfold pv_get. destruct (N.ltb_spec k (vlen v)); [lia|reflexivity]. Qed.

Lemma pv_get_set {A} (v : pvec A) i x k :
  pv_get (pv_set v i x) k = if N.ltb k (vlen v) then (if N.eq_dec i k then Some x else pv_get v k) else None.
Proof.
  unfold pv_get, pv_set; cbn [vlen vmap]. destruct (N.ltb_spec k (vlen v)); [|reflexivity].
  destruct (N.eq_dec i k) as [->|Hne]; [apply NMF.add_eq_o; reflexivity | apply NMF.add_neq_o; assumption].
Qed.

Lemma pv_get_push_all {A} (v : pvec A) x k :
  pv_get (pv_push v x) k = if N.eq_dec k (vlen v) then Some x else pv_get v k.
Proof.
  destruct (N.eq_dec k (vlen v)) as [->|Hne]; [apply pv_get_push_eq|].
  destruct (N.lt_ge_cases k (vlen v)) as [Hlt|Hge]; [apply pv_get_push_lt; assumption|].
  rewrite (pv_get_ge v) by assumption. apply pv_get_ge. unfold pv_push; cbn [vlen]. lia.
Qed.

Lemma pv_last_get {A} (v : pvec A) : pv_last v = if N.eqb (vlen v) 0 then None else pv_get v (vlen v - 1).
Proof.
  unfold pv_last. destruct (N.eqb_spec (vlen v) 0); [reflexivity|]. rewrite pv_get_find by lia. reflexivity.
Qed.

(* swap_remove of an in-range position with all positions defined *)
Lemma pv_swap_remove_spec {A} (v : pvec A) d x l :
  pv_get v d = Some x -> pv_get v (vlen v - 1) = Some l ->
  pv_swap_remove v d = ({| vlen := vlen v - 1; vmap := NM.add d l (vmap v) |}, Some x).
Proof. intros H1 H2. unfold pv_swap_remove. rewrite H1, H2. reflexivity. Qed.

Lemma pv_get_swap_removed {A} (v : pvec A) d l k :
  pv_get {| vlen := vlen v - 1; vmap := NM.add d l (vmap v) |} k =
  if N.ltb k (vlen v - 1) then (if N.eq_dec d k then Some l else pv_get v k) else None.
Proof.
  unfold pv_get; cbn [vlen vmap]. destruct (N.ltb_spec k (vlen v - 1)); [|reflexivity].
  destruct (N.ltb_spec k (vlen v)); [|lia].
  destruct (N.eq_dec d k) as [->|Hne]; [apply NMF.add_eq_o; reflexivity | apply NMF.add_neq_o; assumption].
Qed.

Lemma pv_elems_aux_ext {A} (m m' : NM.t A) n : forall k,
  (forall j, k <= j < k + N.of_nat n -> NM.find j m = NM.find j m') -> pv_elems_aux m k n = pv_elems_aux m' k n.
Proof.
  induction n as [|n IH]; intros k H; cbn [pv_elems_aux]; [reflexivity|].
  rewrite <- H by lia. rewrite (IH (k + 1)); [reflexivity|]. intros j Hj. apply H. lia.
Qed.

Lemma in_pv_elems_aux {A} (m : NM.t A) n x : forall k,
  In x (pv_elems_aux m k n) <-> exists j, k <= j < k + N.of_nat n /\ NM.find j m = Some x.
Proof.
  induction n as [|n IH]; intros k; cbn [pv_elems_aux].
  - split; [intros []|intros [j [Hj _]]; lia].
  - destruct (NM.find k m) as [y|] eqn:E.
    + cbn [In]. rewrite IH. split.
      * intros [->|[j [Hj Hf]]]; [exists k; split; [lia|assumption] | exists j; split; [lia|assumption]].
      * intros [j [Hj Hf]]. destruct (N.eq_dec j k) as [->|Hne]; [left; congruence|].
        right. exists j. split; [lia|assumption].
    + rewrite IH. split.
      * intros [j [Hj Hf]]. exists j. split; [lia|assumption].
      * intros [j [Hj Hf]]. destruct (N.eq_dec j k) as [->|Hne]; [congruence|]. exists j. split; [lia|assumption].
Qed.

Lemma in_pv_elems {A} (v : pvec A) x : In x (pv_elems v) <-> exists j, pv_get v j = Some x.
Proof.
  unfold pv_elems. rewrite in_pv_elems_aux. split.
  - intros [j [Hj Hf]]. exists j. rewrite pv_get_find by lia. assumption.
  - intros [j Hg]. pose proof (pv_get_lt _ _ _ Hg). exists j. split; [lia|]. rewrite <- pv_get_find by assumption. assumption.
Qed.
