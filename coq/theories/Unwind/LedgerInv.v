(* C19, world level: the ledger invariant.  A ghost map G gives every storage
   its abstract map; the invariant says that every storage satisfies MInvP,
   that the values owned anywhere in the world carry pairwise distinct uids
   (unit and default-made values aside), none of which is in the destruction
   ledger, and that the ledger holds no real uid twice.  One lemma (LJ_step)
   re-establishes it after any change of one storage that destroys a set of
   owned positions and possibly brings in one fresh value. *)
From SV Require Import Base.ListX Base.PvecFacts Store.Raw Store.RawRefine Store.Masked Store.StoreInv.
From SV Require Import Unwind.Fault Unwind.UWorld Unwind.RelP Unwind.FaultBasics Unwind.CleanProps Unwind.StoreProps.
From Coq Require Import Permutation.

(* uid 0 is the unit value of the null storage, 2^40 a Default::default() value:
   such values are made at will and carry no identity *)
Definition real (u : N) : bool := negb (N.eqb u 0) && negb (N.eqb u default_uid).

Lemma real_default : real (fst default_tok) = false.
Proof. reflexivity. Qed.
Lemma real_unit : real (fst unit_tok) = false.
Proof. reflexivity. Qed.

(* no real uid twice *)
Definition ndr (l : list N) : Prop := NoDup (filter real l).

Lemma filter_rev' {A} (g : A -> bool) l : filter g (rev l) = rev (filter g l).
Proof.
  induction l as [|x l IH]; cbn [rev filter]; [reflexivity|]. rewrite filter_app, IH. cbn [filter].
  destruct (g x); cbn [rev]; [reflexivity|]. rewrite app_nil_r. reflexivity.
Qed.

Lemma ndr_rev l : ndr l -> ndr (rev l).
Proof. unfold ndr. rewrite filter_rev'. apply NoDup_rev. Qed.

Lemma ndr_app a b : ndr a -> ndr b -> (forall u, In u a -> In u b -> real u = true -> False) -> ndr (a ++ b).
Proof.
  unfold ndr. intros Ha Hb Hd. rewrite filter_app. apply NoDup_app_intro; try assumption.
  intros u H1 H2. apply filter_In in H1, H2. destruct H1 as [H1 R], H2 as [H2 _]. exact (Hd u H1 H2 R).
Qed.

Lemma ndr_nil : ndr [].
Proof. constructor. Qed.

Lemma ndr_cons u l : ndr l -> (real u = true -> ~ In u l) -> ndr (u :: l).
Proof.
  unfold ndr. intros H Hn. cbn [filter]. destruct (real u) eqn:R; [|assumption]. constructor; [|assumption].
  intros Hin. apply filter_In in Hin. destruct Hin as [Hin _]. exact (Hn eq_refl Hin).
Qed.

Lemma ndr_positions (ds : list (N * tok)) : NoDup (map fst ds) ->
  (forall p q, In p ds -> In q ds -> real (uid_of p) = true -> uid_of p = uid_of q -> fst p = fst q) ->
  ndr (map uid_of ds).
Proof.
  induction ds as [|p ds IH]; intros Hnd Hinj; [constructor|]. cbn [map]. inversion Hnd as [|? ? Hni Hnd']; subst.
  apply ndr_cons.
  - apply IH; [assumption|]. intros a b Ha Hb. apply Hinj; right; assumption.
  - intros R Hin. apply in_map_iff in Hin. destruct Hin as [q [E Hq]]. apply Hni.
    rewrite (Hinj p q (or_introl eq_refl) (or_intror Hq) R (eq_sym E)). apply in_map. assumption.
Qed.

(* ------------------------------------------------------------------ *)

Section Ledger.
Variable P : tok -> Prop.
Hypothesis P_default : P default_tok.

Definition WJ (stores : NM.t mstore) (G : NM.t (NM.t tok)) : Prop :=
  forall sid, match NM.find sid stores, NM.find sid G with
              | Some ms, Some m => MInvP P ms m
              | None, None => True
              | _, _ => False
              end.

Definition wown (stores : NM.t mstore) (G : NM.t (NM.t tok)) (sid i : N) (t : tok) : Prop :=
  exists ms m, NM.find sid stores = Some ms /\ NM.find sid G = Some m /\ own ms m i t.

Record LJ (stores : NM.t mstore) (G : NM.t (NM.t tok)) (L used : list N) : Prop := {
  LJ_inv : WJ stores G;
  LJ_uniq : forall sid i t sid' i' t', wown stores G sid i t -> wown stores G sid' i' t' ->
            real (fst t) = true -> fst t = fst t' -> sid = sid' /\ i = i';
  LJ_live : forall sid i t, wown stores G sid i t -> real (fst t) = true -> ~ In (fst t) L;
  LJ_nodup : ndr L;
  LJ_used_own : forall sid i t, wown stores G sid i t -> real (fst t) = true -> In (fst t) used;
  LJ_used_led : forall u, In u L -> real u = true -> In u used }.

Lemma LJ_init : LJ (NM.empty mstore) (NM.empty (NM.t tok)) [] [].
Proof.
  assert (forall sid i t, ~ wown (NM.empty mstore) (NM.empty (NM.t tok)) sid i t) as Hn.
  { intros sid i t [ms [m [H _]]]. rewrite find_empty in H. discriminate. }
  split.
  - intros sid. rewrite !find_empty. exact I.
  - intros sid i t sid' i' t' H. destruct (Hn _ _ _ H).
  - intros sid i t H. destruct (Hn _ _ _ H).
  - apply ndr_nil.
  - intros sid i t H. destruct (Hn _ _ _ H).
  - intros u [].
Qed.

Lemma wown_add stores G sid ms' m' sid' i t :
  wown (NM.add sid ms' stores) (NM.add sid m' G) sid' i t <->
  (sid' = sid /\ own ms' m' i t) \/ (sid' <> sid /\ wown stores G sid' i t).
Proof.
  unfold wown. split.
  - intros [ms [m [H1 [H2 H3]]]]. rewrite find_add in H1. rewrite find_add in H2. destruct (N.eq_dec sid sid') as [<-|Hne].
    + left. inversion H1; inversion H2; subst. auto.
    + right. split; [congruence|]. exists ms, m. auto.
  - intros [[-> H]|[Hne [ms [m [H1 [H2 H3]]]]]].
    + exists ms', m'. rewrite !find_add. destruct (N.eq_dec sid sid); [auto|congruence].
    + exists ms, m. rewrite !find_add. destruct (N.eq_dec sid sid'); [congruence|auto].
Qed.

(* one storage changes: positions [ds] of it are destroyed, at most one fresh
   value comes in; a value that stays may change its payload, not its uid *)
Lemma LJ_step_gen stores G L used sid ms m ms' m' (ds : list (N * tok)) (newv : option (N * tok)) :
  LJ stores G L used ->
  NM.find sid stores = Some ms -> NM.find sid G = Some m ->
  MInvP P ms' m' ->
  NoDup (map fst ds) -> (forall i t, In (i, t) ds -> own ms m i t) ->
  (forall i t, own ms' m' i t ->
     (exists t0, own ms m i t0 /\ fst t0 = fst t /\ ~ In i (map fst ds)) \/ newv = Some (i, t) \/ real (fst t) = false) ->
  (forall i t, newv = Some (i, t) -> real (fst t) = true -> ~ In (fst t) used) ->
  LJ (NM.add sid ms' stores) (NM.add sid m' G) (rev (map uid_of ds) ++ L)
     (match newv with Some (_, t) => fst t :: used | None => used end).
Proof.
  intros [J1 J2 J3 J4 J5 J6] Hs Hg HM Hnd Hown Hkept Hfresh.
  assert (forall i t, own ms m i t -> wown stores G sid i t) as Hw.
  { intros i t H. exists ms, m. auto. }
  set (used' := match newv with Some (_, t) => fst t :: used | None => used end).
  assert (forall u, In u used -> In u used') as Hsub.
  { intros u H. unfold used'. destruct newv as [[? ?]|]; [right|]; assumption. }
  (* what a value owned afterwards is *)
  assert (forall sid' i t, wown (NM.add sid ms' stores) (NM.add sid m' G) sid' i t -> real (fst t) = true ->
            (exists t0, fst t0 = fst t /\ wown stores G sid' i t0 /\ (sid' = sid -> ~ In i (map fst ds))) \/
            (sid' = sid /\ newv = Some (i, t))) as Hcase.
  { intros sid' i t H R. apply wown_add in H. destruct H as [[-> H]|[Hne H]].
    - destruct (Hkept i t H) as [[t0 [A [E B]]]|[A|A]]; [left; exists t0; split; [assumption|split; [apply Hw; assumption|intros _; assumption]]|right; auto|congruence].
    - left. exists t. split; [reflexivity|]. split; [assumption|congruence]. }
  (* uids of the destroyed positions *)
  assert (forall p, In p ds -> wown stores G sid (fst p) (snd p)) as Hds.
  { intros [i t] H. apply Hw. apply Hown. assumption. }
  split.
  - intros sid'. rewrite !find_add. destruct (N.eq_dec sid sid'); [assumption|apply J1].
  - intros s1 i1 t1 s2 i2 t2 H1 H2 R E.
    assert (real (fst t2) = true) as R2 by (rewrite <- E; assumption).
    destruct (Hcase _ _ _ H1 R) as [[a1 [E1 [A1 _]]]|[-> N1]]; destruct (Hcase _ _ _ H2 R2) as [[a2 [E2 [A2 _]]]|[-> N2]].
    + apply (J2 _ _ _ _ _ _ A1 A2); [rewrite E1; assumption|congruence].
    + exfalso. apply (Hfresh _ _ N2 R2). rewrite <- E, <- E1. apply (J5 _ _ _ A1). rewrite E1. assumption.
    + exfalso. apply (Hfresh _ _ N1 R). rewrite E, <- E2. apply (J5 _ _ _ A2). rewrite E2. assumption.
    + rewrite N1 in N2. inversion N2. auto.
  - intros s i t H R Hin. apply in_app_or in Hin. destruct (Hcase _ _ _ H R) as [[a [Ea [A B]]]|[-> N1]].
    + assert (real (fst a) = true) as Ra by (rewrite Ea; assumption).
      destruct Hin as [Hin|Hin]; [|rewrite <- Ea in Hin; exact (J3 _ _ _ A Ra Hin)].
      apply in_rev in Hin. apply in_map_iff in Hin. destruct Hin as [p [E Hp]].
      destruct (J2 _ _ _ _ _ _ A (Hds p Hp) Ra) as [-> ->]; [unfold uid_of in E; congruence|]. apply (B eq_refl). apply in_map. assumption.
    + destruct Hin as [Hin|Hin].
      * apply in_rev in Hin. apply in_map_iff in Hin. destruct Hin as [p [E Hp]].
        apply (Hfresh _ _ N1 R). rewrite <- E. apply (J5 _ _ _ (Hds p Hp)). unfold uid_of in E. rewrite E. assumption.
      * apply (Hfresh _ _ N1 R). apply J6; assumption.
  - apply ndr_app; [apply ndr_rev; apply ndr_positions; [assumption|]|assumption|].
    + intros p q Hp Hq R E. destruct (J2 _ _ _ _ _ _ (Hds p Hp) (Hds q Hq) R E) as [_ ?]. assumption.
    + intros u Hin HL R. apply in_rev in Hin. apply in_map_iff in Hin. destruct Hin as [p [E Hp]]. subst u.
      exact (J3 _ _ _ (Hds p Hp) R HL).
  - intros s i t H R. destruct (Hcase _ _ _ H R) as [[a [Ea [A _]]]|[-> N1]].
    + apply Hsub. rewrite <- Ea. apply (J5 _ _ _ A). rewrite Ea. assumption.
    + unfold used'. rewrite N1. left. reflexivity.
  - intros u Hin R. apply in_app_or in Hin. apply Hsub. destruct Hin as [Hin|Hin]; [|apply J6; assumption].
    apply in_rev in Hin. apply in_map_iff in Hin. destruct Hin as [p [E Hp]]. subst u. apply (J5 _ _ _ (Hds p Hp) R).
Qed.

Lemma LJ_step stores G L used sid ms m ms' m' (ds : list (N * tok)) (newv : option (N * tok)) :
  LJ stores G L used ->
  NM.find sid stores = Some ms -> NM.find sid G = Some m ->
  MInvP P ms' m' ->
  NoDup (map fst ds) -> (forall i t, In (i, t) ds -> own ms m i t) ->
  (forall i t, own ms' m' i t ->
     (own ms m i t /\ ~ In i (map fst ds)) \/ newv = Some (i, t) \/ real (fst t) = false) ->
  (forall i t, newv = Some (i, t) -> real (fst t) = true -> ~ In (fst t) used) ->
  LJ (NM.add sid ms' stores) (NM.add sid m' G) (rev (map uid_of ds) ++ L)
     (match newv with Some (_, t) => fst t :: used | None => used end).
Proof.
  intros HJ Hs Hg HM Hnd Hown Hkept Hfresh. apply (LJ_step_gen stores G L used sid ms m); auto.
  intros i t Ho. destruct (Hkept i t Ho) as [[A B]|A]; [left; exists t; auto|right; assumption].
Qed.

(* a value that was never in the world is destroyed (a refused insert) *)
Lemma LJ_fresh_drop stores G L used u : LJ stores G L used -> (real u = true -> ~ In u used) ->
  LJ stores G (u :: L) (u :: used).
Proof.
  intros [J1 J2 J3 J4 J5 J6] Hf. split; try assumption.
  - intros s i t H R [E|Hin]; [|exact (J3 _ _ _ H R Hin)]. apply Hf; [rewrite E; assumption|]. rewrite E. apply (J5 _ _ _ H R).
  - apply ndr_cons; [assumption|]. intros R Hin. apply (Hf R). apply J6; assumption.
  - intros s i t H R. right. apply (J5 _ _ _ H R).
  - intros v [<-|Hin] R; [left; reflexivity|right; apply J6; assumption].
Qed.

Lemma LJ_more_used stores G L used used' : LJ stores G L used -> (forall u, In u used -> In u used') -> LJ stores G L used'.
Proof.
  intros [J1 J2 J3 J4 J5 J6] H. split; try assumption.
  - intros s i t Hw R. apply H. apply (J5 _ _ _ Hw R).
  - intros u Hin R. apply H. apply J6; assumption.
Qed.

(* only lookups matter *)
Lemma LJ_ext stores stores' G G' L used :
  (forall sid, NM.find sid stores' = NM.find sid stores) -> (forall sid, NM.find sid G' = NM.find sid G) ->
  LJ stores G L used -> LJ stores' G' L used.
Proof.
  intros Hs Hg [J1 J2 J3 J4 J5 J6].
  assert (forall sid i t, wown stores' G' sid i t -> wown stores G sid i t) as Hw.
  { intros sid i t [ms [m [A [B C]]]]. exists ms, m. rewrite <- Hs, <- Hg. auto. }
  split; try assumption.
  - intros sid. rewrite Hs, Hg. apply J1.
  - intros s i t s' i' t' A B. apply J2; apply Hw; assumption.
  - intros s i t A. apply J3 with (sid := s) (i := i). apply Hw. assumption.
  - intros s i t A. apply J5 with (sid := s) (i := i). apply Hw. assumption.
Qed.

(* a storage leaves the world (its values are no longer owned by anybody) *)
Lemma LJ_remove stores G L used sid : LJ stores G L used -> LJ (NM.remove sid stores) (NM.remove sid G) L used.
Proof.
  intros [J1 J2 J3 J4 J5 J6].
  assert (forall s i t, wown (NM.remove sid stores) (NM.remove sid G) s i t -> wown stores G s i t) as Hw.
  { intros s i t [ms [m [A [B C]]]]. rewrite find_remove in A. rewrite find_remove in B.
    destruct (N.eq_dec sid s); [discriminate|]. exists ms, m. auto. }
  split; try assumption.
  - intros s. rewrite !find_remove. destruct (N.eq_dec sid s); [exact I|apply J1].
  - intros s i t s' i' t' A B. apply J2; apply Hw; assumption.
  - intros s i t A. apply J3 with (sid := s) (i := i). apply Hw. assumption.
  - intros s i t A. apply J5 with (sid := s) (i := i). apply Hw. assumption.
Qed.

(* a new, empty storage is registered *)
Lemma LJ_register stores G L used sid ms : LJ stores G L used -> NM.find sid stores = None ->
  MInvP P ms (NM.empty tok) -> (forall i t, ~ own ms (NM.empty tok) i t) ->
  LJ (NM.add sid ms stores) (NM.add sid (NM.empty tok) G) L used.
Proof.
  intros [J1 J2 J3 J4 J5 J6] Hn HM Hno.
  assert (forall s i t, wown (NM.add sid ms stores) (NM.add sid (NM.empty tok) G) s i t -> wown stores G s i t) as Hw.
  { intros s i t H. apply wown_add in H. destruct H as [[_ H]|[_ H]]; [destruct (Hno _ _ H)|assumption]. }
  split; try assumption.
  - intros s. rewrite !find_add. destruct (N.eq_dec sid s); [assumption|apply J1].
  - intros s i t s' i' t' A B. apply J2; apply Hw; assumption.
  - intros s i t A. apply J3 with (sid := s) (i := i). apply Hw. assumption.
  - intros s i t A. apply J5 with (sid := s) (i := i). apply Hw. assumption.
Qed.

(* the world is gone *)
Lemma LJ_empty L used : ndr L -> (forall u, In u L -> real u = true -> In u used) ->
  LJ (NM.empty mstore) (NM.empty (NM.t tok)) L used.
Proof.
  intros H1 H2.
  assert (forall sid i t, ~ wown (NM.empty mstore) (NM.empty (NM.t tok)) sid i t) as Hn.
  { intros sid i t [ms [m [H _]]]. rewrite find_empty in H. discriminate. }
  split; try assumption.
  - intros sid. rewrite !find_empty. exact I.
  - intros sid i t sid' i' t' H. destruct (Hn _ _ _ H).
  - intros sid i t H. destruct (Hn _ _ _ H).
  - intros sid i t H. destruct (Hn _ _ _ H).
Qed.

End Ledger.
