(* C19 model, storage level: the destroying operations of src/storage/mod.rs and
   src/storage/storages.rs when a component destructor panics.

   The effects context carries a fault plan (the harness' comps::FAULT):
   [f_arm] = k > 0: the k-th destructor call from now panics; 0: none.  A
   destructor call first logs the value as destroyed, then (maybe) panics.
   [f_pan] = a panic is propagating: the operation UNWINDS.  What each piece of
   code does while unwinding is written out:
     - a plain loop is abandoned (VecStorage::clean, NullStorage::clean,
       AnyStorage::drop, delete_components, hashbrown's drop_elements: the
       remaining elements are leaked);
     - the drop glue of a slice (Vec::clear of DenseVecStorage.data and of
       DefaultVecStorage) and the drop guard of BTreeMap's IntoIter go on
       destroying the remaining elements (their destructors run, but the plan
       fires at most once: comps.rs refuses to panic while panicking);
     - MaskedStorage::clear has taken the mask before cleaning, MaskedStorage::drop
       has cleared the bit before destroying;
     - a value handed back to the caller (insert over an existing component,
       remove) is destroyed by the caller, after the storage call returned.
   With no fault armed every function coincides with its counterpart of
   Store/Raw.v / Store/Masked.v (FaultProps.v).  Definitions only. *)
From SV Require Export Store.Masked.

Record fctx := { fx : ctx; f_arm : nat; f_pan : bool }.

Definition f_of (c : ctx) (k : nat) : fctx := {| fx := c; f_arm := k; f_pan := false |}.
Definition f_with (f : fctx) (c : ctx) : fctx := {| fx := c; f_arm := f_arm f; f_pan := f_pan f |}.
Definition f_fail (f : fctx) : fctx := f_with f (cx_fail (fx f)).

(* one destructor call *)
Definition f_drop (f : fctx) (t : tok) : fctx :=
  let c := cx_drop (fx f) t in
  match f_arm f with
  | O => {| fx := c; f_arm := O; f_pan := f_pan f |}
  | S O => {| fx := c; f_arm := O; f_pan := true |}
  | S (S k) => {| fx := c; f_arm := S k; f_pan := f_pan f |}
  end.

(* drop glue of a slice, BTreeMap IntoIter's guard: every element, whatever happens *)
Fixpoint f_drop_all (f : fctx) (l : list tok) : fctx :=
  match l with [] => f | t :: l' => f_drop_all (f_drop f t) l' end.

(* a loop that is abandoned when a destructor panics *)
Fixpoint f_drop_stop (f : fctx) (l : list tok) : fctx :=
  match l with
  | [] => f
  | t :: l' => if f_pan f then f else f_drop_stop (f_drop f t) l'
  end.

(* VecStorage::clean *)
Fixpoint vec_clean_f (s : vec_st) (ids : list N) (f : fctx) : vec_st * fctx :=
  match ids with
  | [] => (s, f)
  | i :: ids' =>
      if f_pan f then (s, f)
      else if N.ltb i (v_len s) then
        match NM.find i (v_slots s) with
        | Some (SInit t) =>
            vec_clean_f {| v_len := v_len s; v_slots := NM.add i (SMoved t) (v_slots s) |} ids' (f_drop f t)
        | _ => vec_clean_f s ids' (f_fail f)
        end
      else vec_clean_f s ids' f
  end.

(* the iteration order of a hash table is unspecified: [ord] (a list of uids)
   chooses it - the elements whose uid is named come first, in that order, the
   others after them in ascending index order.  Whatever [ord], the result is
   a permutation of the table's elements. *)
Fixpoint extract_uid (u : N) (l : list (N * tok)) : option ((N * tok) * list (N * tok)) :=
  match l with
  | [] => None
  | x :: l' =>
      if N.eqb (fst (snd x)) u then Some (x, l')
      else match extract_uid u l' with Some (y, r) => Some (y, x :: r) | None => None end
  end.

Fixpoint pick_by_uid (ord : list N) (rest : list (N * tok)) : list (N * tok) :=
  match ord with
  | [] => rest
  | u :: ord' =>
      match extract_uid u rest with
      | Some (x, rest') => x :: pick_by_uid ord' rest'
      | None => pick_by_uid ord' rest
      end
  end.

(* UnprotectedStorage::clean(mask); [hord] = Some ord: the map is a HashMap
   iterated in the order [ord]; None: a BTreeMap *)
Definition u_clean_f (hord : option (list N)) (r : raw) (mask : list N) (f : fctx) : raw * fctx :=
  match r with
  | RVec s => let '(s', f') := vec_clean_f s mask f in (RVec s', f')
  | RDense s =>
      (* data_id.clear(); entity_id.clear(); data.clear() *)
      (RDense {| d_data := pv_clear (d_data s); d_eid := pv_clear (d_eid s); d_did := pv_clear (d_did s) |},
       f_drop_all f (pv_elems (d_data s)))
  | RDefault cells => (RDefault (pv_clear cells), f_drop_all f (pv_elems cells))
  | RMap m =>
      (RMap (NM.empty tok),
       match hord with
       | None => f_drop_all f (map snd (NM.elements m))
       | Some ord => f_drop_stop f (map snd (pick_by_uid ord (NM.elements m)))
       end)
  | RNull => (RNull, f_drop_stop f (map (fun _ => unit_tok) mask))
  end.

(* MaskedStorage::clear: mem::take(&mut self.mask), then clean *)
Definition m_clear_f (hord : option (list N)) (ms : mstore) (f : fctx) : mstore * fctx :=
  let '(r, f') := u_clean_f hord (ms_raw ms) (NS.elements (ms_mask ms)) f in (ms_set ms NS.empty r, f').

(* MaskedStorage::drop(id): the mask bit, then inner.drop(id) = remove and destroy *)
Definition m_drop_f (ms : mstore) (id : N) (f : fctx) : mstore * fctx :=
  if NS.mem id (ms_mask ms) then
    let '(ms1, t, c') := w_remove (ms_set ms (NS.remove id (ms_mask ms)) (ms_raw ms)) id (fx f) in
    (ms1, f_drop (f_with f c') t)
  else (ms, f).

(* AnyStorage::drop(&[Entity]) *)
Fixpoint m_drop_all_f (ms : mstore) (ids : list N) (f : fctx) : mstore * fctx :=
  match ids with
  | [] => (ms, f)
  | i :: ids' =>
      if f_pan f then (ms, f)
      else let '(ms1, f1) := m_drop_f ms i f in m_drop_all_f ms1 ids' f1
  end.

(* UnprotectedStorage::insert; the only destructor calls: DefaultVecStorage
   assigns over the default value of a vacant cell (`*cell = v`: the old value
   is destroyed, the new one is written even if that destructor panics), and
   a map would destroy a previous value *)
Definition u_insert_f (r : raw) (id : N) (v : tok) (f : fctx) : raw * fctx :=
  match r with
  | RDefault cells =>
      if N.leb (vlen cells) id then
        let '(cells', c') := fill_defaults cells (N.to_nat (id - vlen cells)) (fx f) in
        (RDefault (pv_push cells' v), f_with f c')
      else
        match pv_get cells id with
        | Some old => (RDefault (pv_set cells id v), f_drop f old)
        | None => (r, f_fail f)
        end
  | RMap m =>
      (RMap (NM.add id v m), match NM.find id m with Some old => f_drop f old | None => f end)
  | _ => let '(r', c') := u_insert r id v (fx f) in (r', f_with f c')
  end.

(* Storage::insert as the caller sees it: a replaced value is handed back and
   destroyed by the caller; a refused value is destroyed inside insert;
   not_present_insert sets the mask bit only if the inner insert returned *)
Definition st_insert_f (ms : mstore) (av : aview) (e : entity) (v0 : tok) (f : fctx) : mstore * ins_res * fctx :=
  let v := tnorm ms v0 in
  if av_alive av e then
    if NS.mem (fst e) (ms_mask ms) then
      let '(ms1, old, c') := w_access_mut ms (fst e) true (USwap v) (fx f) in
      (ms1, InsOld old, f_drop (f_with f c') old)
    else
      let ms1 := ms_event ms (EInserted (fst e)) in
      let '(r, f') := u_insert_f (ms_raw ms1) (fst e) v f in
      (ms_set ms1 (if f_pan f' then ms_mask ms1 else NS.add (fst e) (ms_mask ms1)) r, InsNew, f')
  else (ms, InsErr (av_cur_gen av (fst e)), f_drop f v).

(* Storage::remove as the caller sees it: the value is handed back and
   destroyed by the caller *)
Definition st_remove_f (ms : mstore) (av : aview) (e : entity) (f : fctx) : mstore * option tok * fctx :=
  let '(ms1, o, c') := st_remove ms av e (fx f) in
  (ms1, o, match o with Some t => f_drop (f_with f c') t | None => f_with f c' end).
