(* C19: the fault plan (f_drop, f_drop_all, f_drop_stop) characterised by the
   position k of the armed fault, and: with no fault armed every function of
   Unwind/Fault.v is its counterpart of Store/Raw.v / Store/Masked.v. *)
From SV Require Import Base.ListX Base.PvecFacts Store.Raw Store.RawRefine Store.Masked Store.StoreInv.
From SV Require Import Unwind.Fault.

(* does the k-th of n destructor calls exist (k = 0: no fault armed) *)
Definition fired (k n : nat) : bool := (1 <=? k)%nat && (k <=? n)%nat.
(* the elements a loop visits before it is abandoned at the k-th destructor call *)
Definition cut {A} (k : nat) (l : list A) : list A := match k with O => l | _ => firstn k l end.

Lemma in_firstn {A} (x : A) : forall k l, In x (firstn k l) -> In x l.
Proof.
  induction k as [|k IH]; intros l H; [destruct H|]. destruct l as [|y l]; [destruct H|].
  cbn [firstn In] in *. destruct H as [H|H]; [left; assumption | right; apply IH; assumption].
Qed.

Lemma cut_incl {A} k (l : list A) x : In x (cut k l) -> In x l.
Proof. destruct k; cbn [cut]; [auto|]. apply in_firstn. Qed.

Lemma fired_0 k : fired k 0 = false.
Proof. destruct k as [|k]; reflexivity. Qed.

Lemma fired_S k n : fired k (S n) = Nat.eqb k 1 || fired (k - 1) n.
Proof.
  unfold fired. destruct k as [|[|k]]; cbn [Nat.eqb Nat.sub Nat.leb andb orb]; try reflexivity.
Qed.

Lemma f_drop_fields f t :
  cx_drops (fx (f_drop f t)) = fst t :: cx_drops (fx f) /\
  cx_stuck (fx (f_drop f t)) = cx_stuck (fx f) /\ cx_mints (fx (f_drop f t)) = cx_mints (fx f) /\
  f_arm (f_drop f t) = (f_arm f - 1)%nat /\
  f_pan (f_drop f t) = f_pan f || Nat.eqb (f_arm f) 1.
Proof.
  unfold f_drop. destruct (f_arm f) as [|[|k]]; cbn [fx f_arm f_pan cx_drop cx_drops cx_stuck cx_mints Nat.sub Nat.eqb];
    repeat split; try reflexivity; try (rewrite orb_false_r; reflexivity); try (rewrite orb_true_r; reflexivity).
Qed.

Lemma f_with_fields f c : fx (f_with f c) = c /\ f_arm (f_with f c) = f_arm f /\ f_pan (f_with f c) = f_pan f.
Proof. repeat split. Qed.

Lemma f_drop_all_spec l : forall f,
  cx_drops (fx (f_drop_all f l)) = rev (map fst l) ++ cx_drops (fx f) /\
  cx_stuck (fx (f_drop_all f l)) = cx_stuck (fx f) /\ cx_mints (fx (f_drop_all f l)) = cx_mints (fx f) /\
  f_arm (f_drop_all f l) = (f_arm f - length l)%nat /\
  f_pan (f_drop_all f l) = f_pan f || fired (f_arm f) (length l).
Proof.
  induction l as [|t l IH]; intros f; cbn [f_drop_all map rev length].
  - rewrite fired_0, orb_false_r. repeat split; try reflexivity. lia.
  - destruct (IH (f_drop f t)) as [A [B [C [D E]]]]. destruct (f_drop_fields f t) as [A' [B' [C' [D' E']]]].
    rewrite A, B, C, D, E, A', B', C', D', E'. repeat split; try reflexivity.
    + rewrite <- app_assoc. reflexivity.
    + lia.
    + rewrite fired_S, orb_assoc. reflexivity.
Qed.

Lemma f_drop_stop_spec l : forall f, f_pan f = false ->
  cx_drops (fx (f_drop_stop f l)) = rev (map fst (cut (f_arm f) l)) ++ cx_drops (fx f) /\
  cx_stuck (fx (f_drop_stop f l)) = cx_stuck (fx f) /\ cx_mints (fx (f_drop_stop f l)) = cx_mints (fx f) /\
  f_arm (f_drop_stop f l) = (f_arm f - length l)%nat /\
  f_pan (f_drop_stop f l) = fired (f_arm f) (length l).
Proof.
  induction l as [|t l IH]; intros f Hp; cbn [f_drop_stop].
  - cbn [length]. rewrite fired_0. unfold cut.
    destruct (f_arm f); cbn [firstn map rev app]; repeat split; try reflexivity; try assumption; lia.
  - rewrite Hp. destruct (f_drop_fields f t) as [A' [B' [C' [D' E']]]]. rewrite Hp in E'. cbn [orb] in E'.
    destruct (f_arm f) as [|[|k]] eqn:Ek.
    + (* no fault: goes through *)
      destruct (IH (f_drop f t)) as [A [B [C [D E]]]]; [rewrite E'; reflexivity|].
      rewrite D' in *. cbn [Nat.sub] in *. rewrite A, B, C, D, E, A', B', C'. cbn [cut map rev length].
      repeat split; try reflexivity. rewrite <- app_assoc. reflexivity.
    + (* fires here *)
      cbn [Nat.eqb] in E'. assert (f_drop_stop (f_drop f t) l = f_drop f t) as ->.
      { destruct l; cbn [f_drop_stop]; [reflexivity|]. rewrite E'. reflexivity. }
      rewrite A', B', C', D', E'. cbn [cut firstn map rev app length Nat.sub]. unfold fired. cbn [Nat.leb andb].
      repeat split; reflexivity.
    + cbn [Nat.eqb] in E'. destruct (IH (f_drop f t)) as [A [B [C [D E]]]]; [assumption|].
      rewrite D' in *. cbn [Nat.sub] in *. rewrite A, B, C, D, E, A', B', C'.
      cbn [cut firstn map rev length]. repeat split; try reflexivity.
      rewrite <- app_assoc. reflexivity.
Qed.

(* ------------------------------------------------------------------ *)
(* no fault armed: the functions of Store/Raw.v and Store/Masked.v *)

Lemma f_drop_nofault c t : f_drop (f_of c O) t = f_of (cx_drop c t) O.
Proof. reflexivity. Qed.

Lemma f_drop_all_nofault l : forall c, f_drop_all (f_of c O) l = f_of (cx_drop_all c l) O.
Proof. induction l as [|t l IH]; intros c; cbn [f_drop_all cx_drop_all]; [reflexivity|]. rewrite f_drop_nofault. apply IH. Qed.

Lemma f_drop_stop_nofault l : forall c, f_drop_stop (f_of c O) l = f_of (cx_drop_all c l) O.
Proof. induction l as [|t l IH]; intros c; cbn [f_drop_stop cx_drop_all f_pan f_of]; [reflexivity|]. rewrite f_drop_nofault. apply IH. Qed.

Lemma null_clean_drop_all l : forall c, null_clean l c = cx_drop_all c (map (fun _ => unit_tok) l).
Proof. induction l as [|i l IH]; intros c; cbn [null_clean cx_drop_all map]; [reflexivity|]. apply IH. Qed.

Lemma vec_clean_f_nofault ids : forall s c,
  vec_clean_f s ids (f_of c O) = (fst (vec_clean s ids c), f_of (snd (vec_clean s ids c)) O).
Proof.
  induction ids as [|i ids IH]; intros s c; cbn [vec_clean_f vec_clean f_pan f_of fst snd]; [reflexivity|].
  destruct (N.ltb i (v_len s)); [|apply IH].
  destruct (NM.find i (v_slots s)) as [[t|t]|]; try apply (IH s (cx_fail c)).
  rewrite f_drop_nofault. apply IH.
Qed.

Lemma pick_by_uid_nil l : pick_by_uid [] l = l.
Proof. reflexivity. Qed.

(* [hord] = None (a BTreeMap) or the default iteration order *)
Lemma u_clean_f_nofault hord r mask c : hord = None \/ hord = Some [] ->
  u_clean_f hord r mask (f_of c O) = (fst (u_clean r mask c), f_of (snd (u_clean r mask c)) O).
Proof.
  intros Hh. destruct r as [s|s|cells|m|]; cbn [u_clean_f u_clean fst snd].
  - rewrite vec_clean_f_nofault. destruct (vec_clean s mask c). reflexivity.
  - rewrite f_drop_all_nofault. reflexivity.
  - rewrite f_drop_all_nofault. reflexivity.
  - destruct Hh as [-> | ->]; [rewrite f_drop_all_nofault | rewrite pick_by_uid_nil, f_drop_stop_nofault]; reflexivity.
  - rewrite f_drop_stop_nofault, null_clean_drop_all. reflexivity.
Qed.

Theorem m_clear_f_nofault hord ms c : hord = None \/ hord = Some [] ->
  m_clear_f hord ms (f_of c O) = (fst (m_clear ms c), f_of (snd (m_clear ms c)) O).
Proof.
  intros Hh. unfold m_clear_f, m_clear. rewrite (u_clean_f_nofault hord _ _ c Hh).
  destruct (u_clean (ms_raw ms) (NS.elements (ms_mask ms)) c). reflexivity.
Qed.

Theorem m_drop_f_nofault ms id c :
  m_drop_f ms id (f_of c O) = (fst (m_drop ms id c), f_of (snd (m_drop ms id c)) O).
Proof.
  unfold m_drop_f, m_drop. destruct (NS.mem id (ms_mask ms)); [|reflexivity].
  unfold w_drop. cbn [fx f_of]. destruct (w_remove _ id c) as [[ms1 t] c']. reflexivity.
Qed.

Theorem m_drop_all_f_nofault ids : forall ms c,
  m_drop_all_f ms ids (f_of c O) = (fst (m_drop_all ms ids c), f_of (snd (m_drop_all ms ids c)) O).
Proof.
  induction ids as [|i ids IH]; intros ms c; cbn [m_drop_all_f m_drop_all f_pan f_of fst snd]; [reflexivity|].
  rewrite m_drop_f_nofault. destruct (m_drop ms i c) as [ms1 c1]. cbn [fst snd]. apply IH.
Qed.

Lemma u_insert_f_nofault r id v c :
  u_insert_f r id v (f_of c O) = (fst (u_insert r id v c), f_of (snd (u_insert r id v c)) O).
Proof.
  destruct r as [s|s|cells|m|]; cbn [u_insert_f u_insert fst snd fx f_of]; try reflexivity.
  - destruct (N.leb (vlen cells) id).
    + destruct (fill_defaults cells _ c) as [cells' c']. reflexivity.
    + destruct (pv_get cells id); reflexivity.
  - destruct (NM.find id m); reflexivity.
Qed.

(* Storage::insert; the caller's destruction of the value handed back comes on top *)
Theorem st_insert_f_nofault ms av e v c :
  st_insert_f ms av e v (f_of c O) =
  let '(ms1, r, c1) := st_insert ms av e v c in
  (ms1, r, f_of (match r with InsOld old => cx_drop c1 old | _ => c1 end) O).
Proof.
  unfold st_insert_f, st_insert. destruct (av_alive av e); [|reflexivity].
  destruct (NS.mem (fst e) (ms_mask ms)).
  - cbn [fx f_of]. destruct (w_access_mut ms (fst e) true (USwap (tnorm ms v)) c) as [[ms1 old] c']. reflexivity.
  - unfold not_present_insert, w_insert. rewrite u_insert_f_nofault.
    destruct (u_insert (ms_raw (ms_event ms (EInserted (fst e)))) (fst e) (tnorm ms v) c) as [r c']. reflexivity.
Qed.

Theorem st_remove_f_nofault ms av e c :
  st_remove_f ms av e (f_of c O) =
  let '(ms1, o, c1) := st_remove ms av e c in
  (ms1, o, f_of (match o with Some t => cx_drop c1 t | None => c1 end) O).
Proof.
  unfold st_remove_f. cbn [fx f_of]. destruct (st_remove ms av e c) as [[ms1 o] c1]. destruct o; reflexivity.
Qed.
