(* C19 model, world level: a world (allocator of Alloc/AllocModel.v, one
   MaskedStorage per registered component type, the MetaTable) driven by
   histories in which a destructor fault can be armed before any destroying
   operation (src/world/world_ext.rs: delete_entity(ies), delete_all, maintain,
   delete_components; Storage::clear/insert/remove; Drop for MaskedStorage;
   dropping the World).  Each operation runs under catch_unwind: the state
   after a caught panic is the state the next operation sees.

   Two things are unspecified in the real code and are parameters here (an
   [oracle]; every theorem is for all oracles, the correspondence check reads
   them off the implementation's transcript): the iteration order of a
   HashMap and the order in which a dropped World destroys its resources.
   Definitions only. *)
From SV Require Export Unwind.Fault World.Env Alloc.AllocModel.

Record uworld := {
  uw_alloc : astate;
  uw_hs : pvec entity;           (* handles returned so far, by position *)
  uw_hl : list entity;           (* the same, most recent first *)
  uw_stores : NM.t mstore;       (* resources MaskedStorage<T>, by storage id *)
  uw_table : list N;             (* MetaTable<dyn AnyStorage>: registration order *)
  uw_arm : nat;                  (* the fault plan for the next operation *)
  uw_stuck : bool }.             (* a panic that is not the armed fault, or undefined behaviour *)

Definition uw_init : uworld :=
  {| uw_alloc := a_init; uw_hs := pv_empty; uw_hl := []; uw_stores := NM.empty mstore; uw_table := [];
     uw_arm := O; uw_stuck := false |}.

Inductive uop :=
| URegister (sid : N)
| UCreate (cs : comps)
| UArm (k : nat)
| UClear (sid : N)
| URemove (sid : N) (h : href)
| UInsert (sid : N) (h : href) (v : tok)
| UDelete (h : href)
| UDeleteMany (hs : list href)
| UDeleteAll
| UEDelete (h : href)
| UMaintain
| UDropStorage (sid : N)
| UDropWorld
| UMask (sid : N)
| UGet (sid : N) (h : href)
| UGetAll (sid : N)
| UJoin (sid : N)
| USlice (sid : N)
| UCount (sid : N)
| UProbeAll
| UBad.

Inductive uout :=
| XUnit | XSkip | XPanicked
| XHandle (e : entity)
| XIns (r : ins_res)
| XOptTok (o : option tok)
| XKill (r : option (nat * Z))
| XKillDef (r : option Z)
| XIdx (l : list N)
| XGets (l : list (option tok))
| XJoin (l : list (N * tok))
| XSlice (v : slice_view)
| XNat (n : N)
| XBools (l : list bool).

(* what is unspecified: the order of hash iteration (uids) and of resource destruction (storage ids) *)
Record oracle := { o_uids : list N; o_sids : list N }.
Definition orc0 : oracle := {| o_uids := []; o_sids := [] |}.

Definition is_destroying (o : uop) : bool :=
  match o with
  | UClear _ | URemove _ _ | UInsert _ _ _ | UDelete _ | UDeleteMany _ | UDeleteAll | UMaintain
  | UDropStorage _ | UDropWorld => true
  | _ => false
  end.

Definition ua_view (a : astate) : aview :=
  {| av_alive := a_is_alive a; av_cur_gen := cur_gen a; av_err_gen := err_gen a |}.

Definition uhget (hs : pvec entity) (h : href) : option entity := pv_get hs (N.of_nat h).
Fixpoint uhget_all (hs : pvec entity) (l : list href) : option (list entity) :=
  match l with
  | [] => Some []
  | h :: l' => match uhget hs h, uhget_all hs l' with
               | Some e, Some r => Some (e :: r)
               | _, _ => None
               end
  end.

Definition hord_of (sid : N) (orc : oracle) : option (list N) :=
  match kind_of sid with Some (KHash, _) => Some (o_uids orc) | _ => None end.

Definition uw_with (w : uworld) (a : astate) (stores : NM.t mstore) : uworld :=
  {| uw_alloc := a; uw_hs := uw_hs w; uw_hl := uw_hl w; uw_stores := stores; uw_table := uw_table w;
     uw_arm := uw_arm w; uw_stuck := uw_stuck w |}.
Definition uw_put (w : uworld) (sid : N) (ms : mstore) : uworld :=
  uw_with w (uw_alloc w) (NM.add sid ms (uw_stores w)).

(* World::register: entry().or_insert_with(..), MetaTable::register (idempotent) *)
Definition uw_register (w : uworld) (sid : N) : uworld :=
  match kind_of sid with
  | None => w
  | Some (k, wr) =>
      let stores := match NM.find sid (uw_stores w) with
                    | Some _ => uw_stores w
                    | None => NM.add sid (ms_new k wr (match k with KNull => true | _ => false end)) (uw_stores w)
                    end in
      let table := if existsb (N.eqb sid) (uw_table w) then uw_table w else uw_table w ++ [sid] in
      {| uw_alloc := uw_alloc w; uw_hs := uw_hs w; uw_hl := uw_hl w; uw_stores := stores; uw_table := table;
         uw_arm := uw_arm w; uw_stuck := uw_stuck w |}
  end.

(* builder.with(c): insert(entity, c).unwrap(); the Option handed back is destroyed by `with` *)
Fixpoint insert_comps_f (stores : NM.t mstore) (av : aview) (ent : entity) (cs : comps) (f : fctx)
  : NM.t mstore * fctx :=
  match cs with
  | [] => (stores, f)
  | (sid, v) :: cs' =>
      if f_pan f then (stores, f)
      else match NM.find sid stores with
           | None => (stores, f_fail f)
           | Some ms =>
               let '(ms1, r, f1) := st_insert_f ms av ent v f in
               let f2 := match r with InsErr _ => f_fail f1 | _ => f1 end in
               insert_comps_f (NM.add sid ms1 stores) av ent cs' f2
           end
  end.

(* WorldExt::delete_components: every storage of the MetaTable that is still a
   resource, in registration order; abandoned when a destructor panics *)
Fixpoint purge_tbl_f (stores : NM.t mstore) (tbl : list N) (ids : list N) (f : fctx) : NM.t mstore * fctx :=
  match tbl with
  | [] => (stores, f)
  | sid :: tbl' =>
      if f_pan f then (stores, f)
      else match NM.find sid stores with
           | Some ms => let '(ms1, f1) := m_drop_all_f ms ids f in purge_tbl_f (NM.add sid ms1 stores) tbl' ids f1
           | None => purge_tbl_f stores tbl' ids f
           end
  end.

(* drop(world): the resources one after the other (hashbrown's drop_elements:
   abandoned at a panic, the remaining resources are leaked); each
   MaskedStorage clears itself *)
Fixpoint drop_stores_f (orc : oracle) (l : list (N * mstore)) (f : fctx) : fctx :=
  match l with
  | [] => f
  | (sid, ms) :: l' =>
      if f_pan f then f
      else let '(_, f1) := m_clear_f (hord_of sid orc) ms f in drop_stores_f orc l' f1
  end.

(* the resources in the order chosen by the oracle: the named storage ids first, the others ascending *)
Fixpoint extract_sid (s : N) (l : list (N * mstore)) : option ((N * mstore) * list (N * mstore)) :=
  match l with
  | [] => None
  | x :: l' =>
      if N.eqb (fst x) s then Some (x, l')
      else match extract_sid s l' with Some (y, r) => Some (y, x :: r) | None => None end
  end.
Fixpoint pick_by_sid (ord : list N) (rest : list (N * mstore)) : list (N * mstore) :=
  match ord with
  | [] => rest
  | s :: ord' =>
      match extract_sid s rest with
      | Some (x, rest') => x :: pick_by_sid ord' rest'
      | None => pick_by_sid ord' rest
      end
  end.

Definition killed_prefix (es : list entity) (r : option (nat * Z)) : list entity :=
  match r with None => es | Some (pos, _) => firstn pos es end.

Fixpoint join_vals (r : raw) (ids : list N) (c : ctx) : list (N * tok) * ctx :=
  match ids with
  | [] => ([], c)
  | i :: ids' =>
      let '(t, c1) := u_get r i c in
      let '(l, c2) := join_vals r ids' c1 in ((i, t) :: l, c2)
  end.

Fixpoint get_all (ms : mstore) (av : aview) (es : list entity) (c : ctx) : list (option tok) * ctx :=
  match es with
  | [] => ([], c)
  | e :: es' =>
      let '(o, c1) := st_get ms av e c in
      let '(l, c2) := get_all ms av es' c1 in (o :: l, c2)
  end.

Definition out_unless_panic (f : fctx) (o : uout) : uout := if f_pan f then XPanicked else o.

(* one operation, executed under catch_unwind with the fault plan [uw_arm]
   (destroying operations only); result: the state after the (possibly
   caught) panic, the output, the effects *)
Definition ustep_core (orc : oracle) (w : uworld) (o : uop) (f : fctx) : uworld * uout * fctx :=
  let av := ua_view (uw_alloc w) in
  let on_store (sid : N) (k : mstore -> uworld * uout * fctx) : uworld * uout * fctx :=
    match NM.find sid (uw_stores w) with Some ms => k ms | None => (w, XSkip, f) end in
  let on_store_h (sid : N) (h : href) (k : mstore -> entity -> uworld * uout * fctx) : uworld * uout * fctx :=
    match NM.find sid (uw_stores w), uhget (uw_hs w) h with
    | Some ms, Some e => k ms e
    | _, _ => (w, XSkip, f)
    end in
  match o with
  | URegister sid => (match kind_of sid with Some _ => (uw_register w sid, XUnit, f) | None => (w, XSkip, f) end)
  | UCreate cs =>
      if forallb (fun c => match NM.find (fst c) (uw_stores w) with Some _ => true | None => false end) cs then
        let '(a', e) := a_alloc (uw_alloc w) in
        let '(stores, f1) := insert_comps_f (uw_stores w) (ua_view a') e cs f in
        ({| uw_alloc := a'; uw_hs := pv_push (uw_hs w) e; uw_hl := e :: uw_hl w; uw_stores := stores;
            uw_table := uw_table w; uw_arm := uw_arm w; uw_stuck := uw_stuck w |},
         out_unless_panic f1 (XHandle e), f1)
      else (w, XSkip, f)
  | UArm _ => (w, XUnit, f)
  | UClear sid =>
      on_store sid (fun ms =>
        let '(ms1, f1) := m_clear_f (hord_of sid orc) ms f in (uw_put w sid ms1, out_unless_panic f1 XUnit, f1))
  | URemove sid h =>
      on_store_h sid h (fun ms e =>
        let '(ms1, r, f1) := st_remove_f ms av e f in (uw_put w sid ms1, XOptTok r, f1))
  | UInsert sid h v =>
      on_store_h sid h (fun ms e =>
        let '(ms1, r, f1) := st_insert_f ms av e v f in
        (uw_put w sid ms1, match r with InsOld _ => XIns r | _ => out_unless_panic f1 (XIns r) end, f1))
  | UDelete h =>
      match uhget (uw_hs w) h with
      | Some e =>
          let '(a', r) := a_kill true (uw_alloc w) [e] in
          let '(stores, f1) := purge_tbl_f (uw_stores w) (uw_table w) (map fst (killed_prefix [e] r)) f in
          (uw_with w a' stores, out_unless_panic f1 (XKill r), f1)
      | None => (w, XSkip, f)
      end
  | UDeleteMany hs =>
      match uhget_all (uw_hs w) hs with
      | Some es =>
          let '(a', r) := a_kill true (uw_alloc w) es in
          let '(stores, f1) := purge_tbl_f (uw_stores w) (uw_table w) (map fst (killed_prefix es r)) f in
          (uw_with w a' stores, out_unless_panic f1 (XKill r), f1)
      | None => (w, XSkip, f)
      end
  | UDeleteAll =>
      let es := a_entities (uw_alloc w) in
      let '(a', r) := a_kill true (uw_alloc w) es in
      let '(stores, f1) := purge_tbl_f (uw_stores w) (uw_table w) (map fst (killed_prefix es r)) f in
      (* .expect("Bug: previously collected entities are not valid ..") *)
      let w1 := uw_with w a' stores in
      ((match r with
        | None => w1
        | Some _ => if f_pan f1 then w1
                    else {| uw_alloc := a'; uw_hs := uw_hs w; uw_hl := uw_hl w; uw_stores := stores;
                            uw_table := uw_table w; uw_arm := uw_arm w; uw_stuck := true |}
        end), out_unless_panic f1 XUnit, f1)
  | UEDelete h =>
      match uhget (uw_hs w) h with
      | Some e => let '(a', r) := a_kill_atomic (uw_alloc w) e in (uw_with w a' (uw_stores w), XKillDef r, f)
      | None => (w, XSkip, f)
      end
  | UMaintain =>
      let '(a', deleted) := a_merge (uw_alloc w) in
      let '(stores, f1) := match deleted with
                           | [] => (uw_stores w, f)
                           | _ => purge_tbl_f (uw_stores w) (uw_table w) (map fst deleted) f
                           end in
      (uw_with w a' stores, out_unless_panic f1 XUnit, f1)
  | UDropStorage sid =>
      on_store sid (fun ms =>
        let '(_, f1) := m_clear_f (hord_of sid orc) ms f in
        (uw_with w (uw_alloc w) (NM.remove sid (uw_stores w)), XUnit, f1))
  | UDropWorld =>
      let f1 := drop_stores_f orc (pick_by_sid (o_sids orc) (NM.elements (uw_stores w))) f in
      ({| uw_alloc := a_init; uw_hs := uw_hs w; uw_hl := uw_hl w; uw_stores := NM.empty mstore; uw_table := [];
          uw_arm := uw_arm w; uw_stuck := uw_stuck w |}, XUnit, f1)
  | UMask sid => on_store sid (fun ms => (w, XIdx (NS.elements (ms_mask ms)), f))
  | UGet sid h =>
      on_store_h sid h (fun ms e => let '(r, c1) := st_get ms av e (fx f) in (w, XOptTok r, f_with f c1))
  | UGetAll sid =>
      on_store sid (fun ms => let '(l, c1) := get_all ms av (rev (uw_hl w)) (fx f) in (w, XGets l, f_with f c1))
  | UJoin sid =>
      on_store sid (fun ms =>
        let '(l, c1) := join_vals (ms_raw ms) (NS.elements (ms_mask ms)) (fx f) in (w, XJoin l, f_with f c1))
  | USlice sid =>
      on_store sid (fun ms =>
        match ms_wrap ms with
        | WPlain => let '(v, c1) := u_slice (ms_raw ms) (NS.elements (ms_mask ms)) (fx f) in (w, XSlice v, f_with f c1)
        | _ => (w, XSlice SliceNone, f)
        end)
  | UCount sid => on_store sid (fun ms => (w, XNat (N.of_nat (NS.cardinal (ms_mask ms))), f))
  | UProbeAll => (w, XBools (rev (map (a_is_alive (uw_alloc w)) (uw_hl w))), f)
  | UBad => (w, XSkip, f)
  end.

Definition set_arm (w : uworld) (k : nat) (stuck : bool) : uworld :=
  {| uw_alloc := uw_alloc w; uw_hs := uw_hs w; uw_hl := uw_hl w; uw_stores := uw_stores w; uw_table := uw_table w;
     uw_arm := k; uw_stuck := stuck |}.

(* the plan applies to the next operation only, and only to a destroying one *)
Definition ustep (orc : oracle) (w : uworld) (o : uop) : uworld * uout * fctx :=
  match o with
  | UArm k => (set_arm w k (uw_stuck w), XUnit, f_of cx0 O)
  | _ =>
      let f := f_of cx0 (if is_destroying o then uw_arm w else O) in
      let '(w1, out, f1) := ustep_core orc w o f in
      (set_arm w1 O (uw_stuck w1 || cx_stuck (fx f1) || a_stuck (uw_alloc w1)), out, f1)
  end.

(* the destruction ledger: every uid destroyed so far, most recent first *)
Fixpoint urun (orcs : list oracle) (w : uworld) (ledger : list N) (os : list uop) : uworld * list N :=
  match os with
  | [] => (w, ledger)
  | o :: os' =>
      let orc := match orcs with x :: _ => x | [] => orc0 end in
      let '(w1, _, f1) := ustep orc w o in
      urun (tl orcs) w1 (cx_drops (fx f1) ++ ledger) os'
  end.

(* the final teardown: drop(world), no fault armed *)
Definition uw_teardown (orc : oracle) (w : uworld) : fctx :=
  drop_stores_f orc (pick_by_sid (o_sids orc) (NM.elements (uw_stores w))) (f_of cx0 O).

(* ------------------------------------------------------------------ *)
(* history decoding, transcript encoding *)

Definition dec_uop (code : Z) (p : list Z) : uop :=
  match code, p with
  | 50, [s] => URegister (Z.to_N s)
  | 2, [k] => UArm (Z.to_nat k)
  | 39, [s] => UClear (Z.to_N s)
  | 33, [s; h] => if Z.ltb h 0 then UBad else URemove (Z.to_N s) (Z.to_nat h)
  | 30, [s; h; u; v] => if Z.ltb h 0 then UBad else UInsert (Z.to_N s) (Z.to_nat h) (Z.to_N u, v)
  | 10, [h] => if Z.ltb h 0 then UBad else UDelete (Z.to_nat h)
  | 13, [] => UDeleteAll
  | 12, [h] => if Z.ltb h 0 then UBad else UEDelete (Z.to_nat h)
  | 14, [] => UMaintain
  | 60, [s] => UDropStorage (Z.to_N s)
  | 99, [] => UDropWorld
  | 37, [s] => UMask (Z.to_N s)
  | 31, [s; h] => if Z.ltb h 0 then UBad else UGet (Z.to_N s) (Z.to_nat h)
  | 32, [s] => UGetAll (Z.to_N s)
  | 80, [s] => UJoin (Z.to_N s)
  | 38, [s] => USlice (Z.to_N s)
  | 35, [s] => UCount (Z.to_N s)
  | 24, [] => UProbeAll
  | 1, _ => if Nat.eqb (Nat.modulo (length p) 3) 0 then UCreate (dec_comps p) else UBad
  | 11, _ => if existsb (fun h => Z.ltb h 0) p then UBad else UDeleteMany (map Z.to_nat p)
  | _, _ => UBad
  end%Z.

Fixpoint dec_uops (fuel : nat) (l : list Z) : list uop :=
  match fuel with
  | O => []
  | S fuel' =>
      match l with
      | code :: n :: l' =>
          match take_n (Z.to_nat n) l' with
          | Some (p, rest) => dec_uop code p :: dec_uops fuel' rest
          | None => [UBad]
          end
      | [] => []
      | _ => [UBad]
      end
  end.
Definition decode_uhistory (l : list Z) : list uop := dec_uops (length l) l.

Definition enc_otok (o : option tok) : list Z :=
  match o with Some t => 1%Z :: enc_tok t | None => [0%Z] end.

Definition enc_uout (o : uout) : list Z :=
  match o with
  | XUnit => [7%Z]
  | XSkip => [8%Z]
  | XPanicked => [29%Z]
  | XHandle e => 1%Z :: enc_ent e
  | XIns InsNew => [11%Z; 0%Z]
  | XIns (InsOld t) => 11%Z :: 1%Z :: enc_tok t
  | XIns (InsErr g) => [11%Z; 2%Z; g]
  | XOptTok o => 12%Z :: enc_otok o
  | XKill None => [2%Z; 0%Z]
  | XKill (Some (p, g)) => [2%Z; 1%Z; Z.of_nat p; g]
  | XKillDef None => [3%Z; 0%Z]
  | XKillDef (Some g) => [3%Z; 1%Z; g]
  | XIdx l => 14%Z :: Z.of_nat (length l) :: map Z.of_N l
  | XGets l => 22%Z :: Z.of_nat (length l) :: flat_map enc_otok l
  | XJoin l => 21%Z :: Z.of_nat (length l) :: flat_map (fun p => Z.of_N (fst p) :: enc_tok (snd p)) l
  | XSlice SliceNone => [17%Z; 0%Z]
  | XSlice (SliceVec len l) => 17%Z :: 1%Z :: Z.of_N len :: Z.of_nat (length l) :: flat_map enc_tok l
  | XSlice (SliceAll l) => 17%Z :: 2%Z :: Z.of_nat (length l) :: flat_map enc_tok l
  | XNat n => [13%Z; Z.of_N n]
  | XBools l => 5%Z :: Z.of_nat (length l) :: map enc_bool l
  end.

(* [10; panicked; n; uids in the order of destruction]; panicked: 1 = the armed fault, 2 = anything else *)
Definition enc_ueffects (tag : Z) (stuck : bool) (f : fctx) (d : list N) : list Z :=
  tag :: (if stuck then 2%Z else if f_pan f then 1%Z else 0%Z) :: Z.of_nat (length d) :: map Z.of_N d.

Fixpoint uins_sorted (x : N) (l : list N) : list N :=
  match l with
  | [] => [x]
  | y :: l' => if N.leb x y then x :: l else y :: uins_sorted x l'
  end.
Definition usort (l : list N) : list N := fold_right uins_sorted [] l.

(* model transcript: per operation its output and its effects; after the last
   operation (or after the world was dropped) the final teardown, whose drops
   are sorted (the order of resource destruction is unspecified); nothing
   after a stuck state *)
Definition utr_final (w : uworld) : list (list Z) :=
  let f := uw_teardown orc0 w in
  [enc_ueffects 90%Z (cx_stuck (fx f)) f (usort (cx_drops (fx f)))].

Fixpoint utr (orcs : list oracle) (w : uworld) (os : list uop) : list (list Z) :=
  match os with
  | [] => utr_final w
  | o :: os' =>
      let orc := match orcs with x :: _ => x | [] => orc0 end in
      let '(w1, out, f1) := ustep orc w o in
      enc_uout out :: enc_ueffects 10%Z (uw_stuck w1) f1 (rev (cx_drops (fx f1))) ::
        (if uw_stuck w1 then []
         else match o with
              | UDropWorld => utr_final w1
              | _ => utr (tl orcs) w1 os'
              end)
  end.
