(* C19: corollaries in the form the property asks for (what is destroyed,
   what is leaked, what the allocator says), and concrete runs. *)
From SV Require Import Base.ListX Base.PvecFacts Store.Raw Store.RawRefine Store.Masked Store.StoreInv.
From SV Require Import Unwind.Fault Unwind.UWorld Unwind.RelP Unwind.FaultBasics Unwind.CleanProps Unwind.StoreProps
  Unwind.LedgerInv Unwind.UWorldProps.

Definition leak_of {A} (k : nat) (l : list A) : list A := match k with O => [] | _ => skipn k l end.

Lemma cut_leak {A} k (l : list A) : cut k l ++ leak_of k l = l.
Proof. destruct k; cbn [cut leak_of]; [apply app_nil_r|apply firstn_skipn]. Qed.

(* MaskedStorage::clear under a fault, every kind: the owned values split into
   the destroyed ones and the leaked ones; nothing is owned afterwards.
   Dense / Default / BTree: nothing leaks, whatever panicked.
   Vec / Null / HashMap: exactly the values after the k-th visited one leak. *)
Theorem clear_leaks (P : tok -> Prop) hord ms m f : MInvP P ms m -> f_pan f = false ->
  exists dest leaked : list (N * tok),
    NoDup (map fst (dest ++ leaked)) /\
    (forall i t, In (i, t) (dest ++ leaked) <-> own ms m i t) /\
    cx_drops (fx (snd (m_clear_f hord ms f))) = rev (map uid_of dest) ++ cx_drops (fx f) /\
    (goes_on hord (ms_raw ms) = true -> leaked = []) /\
    (goes_on hord (ms_raw ms) = false ->
       dest = cut (f_arm f) (dest ++ leaked) /\ leaked = leak_of (f_arm f) (dest ++ leaked)) /\
    (f_pan (snd (m_clear_f hord ms f)) = false -> leaked = []) /\
    f_pan (snd (m_clear_f hord ms f)) = fired (f_arm f) (length (dest ++ leaked)) /\
    (forall i t, ~ own (fst (m_clear_f hord ms f)) (NM.empty tok) i t) /\
    MInv (fst (m_clear_f hord ms f)) (NM.empty tok).
Proof.
  intros HM Hp. destruct (m_clear_f_spec P hord ms m f HM Hp) as [cl X]. cbn zeta in X.
  destruct X as [C1 [C2 [C3 [C4 [C5 [C6 [C7 [C8 _]]]]]]]].
  destruct (goes_on hord (ms_raw ms)) eqn:Eg.
  - exists cl, []. rewrite app_nil_r. split; [assumption|]. split; [assumption|]. split; [assumption|].
    split; [reflexivity|]. split; [discriminate|]. split; [reflexivity|]. split; [assumption|]. split; assumption.
  - exists (cut (f_arm f) cl), (leak_of (f_arm f) cl). rewrite cut_leak.
    split; [assumption|]. split; [assumption|]. split; [assumption|]. split; [discriminate|]. split; [auto|].
    split; [|split; [assumption|split; assumption]].
    intros Hq. rewrite C4 in Hq. unfold leak_of, fired in *. destruct (f_arm f) as [|k]; [reflexivity|].
    change ((1 <=? S k)%nat) with true in Hq. cbn [andb] in Hq. apply Nat.leb_gt in Hq. apply skipn_all2. lia.
Qed.

(* the allocator runs before the purge: whatever panics later, the entities
   are dead exactly as Allocator::kill / merge left them *)
Theorem delete_kills_first orc w hs es : uhget_all (uw_hs w) hs = Some es ->
  uw_alloc (fst (fst (ustep orc w (UDeleteMany hs)))) = fst (a_kill true (uw_alloc w) es) /\
  uw_hs (fst (fst (ustep orc w (UDeleteMany hs)))) = uw_hs w.
Proof.
  intros H. unfold ustep, ustep_core. rewrite H. destruct (a_kill true (uw_alloc w) es) as [a' r].
  destruct (purge_tbl_f _ _ _ _) as [stores f1]. cbn [fst snd set_arm uw_with uw_alloc uw_hs]. auto.
Qed.

Theorem maintain_merges_first orc w :
  uw_alloc (fst (fst (ustep orc w UMaintain))) = fst (a_merge (uw_alloc w)).
Proof.
  unfold ustep, ustep_core. destruct (a_merge (uw_alloc w)) as [a' deleted].
  destruct deleted; [reflexivity|]. destruct (purge_tbl_f _ _ _ _) as [stores f1]. reflexivity.
Qed.

(* an operation aimed at one storage leaves every other storage as it was *)
Theorem other_storages_untouched orc w sid sid' :
  sid' <> sid ->
  NM.find sid' (uw_stores (fst (fst (ustep orc w (UClear sid))))) = NM.find sid' (uw_stores w) /\
  NM.find sid' (uw_stores (fst (fst (ustep orc w (UDropStorage sid))))) = NM.find sid' (uw_stores w) /\
  (forall h, NM.find sid' (uw_stores (fst (fst (ustep orc w (URemove sid h))))) = NM.find sid' (uw_stores w)) /\
  (forall h v, NM.find sid' (uw_stores (fst (fst (ustep orc w (UInsert sid h v))))) = NM.find sid' (uw_stores w)).
Proof.
  intros Hne. unfold ustep, ustep_core. repeat split; intros.
  - destruct (NM.find sid (uw_stores w)) as [ms|]; [|reflexivity]. destruct (m_clear_f _ ms _) as [ms1 f1].
    cbn [fst snd set_arm uw_put uw_with uw_stores]. rewrite find_add. destruct (N.eq_dec sid sid'); congruence.
  - destruct (NM.find sid (uw_stores w)) as [ms|]; [|reflexivity]. destruct (m_clear_f _ ms _) as [ms1 f1].
    cbn [fst snd set_arm uw_with uw_stores]. rewrite find_remove. destruct (N.eq_dec sid sid'); congruence.
  - destruct (NM.find sid (uw_stores w)) as [ms|]; [|reflexivity]. destruct (uhget (uw_hs w) h) as [e|]; [|reflexivity].
    destruct (st_remove_f ms _ e _) as [[ms1 r] f1].
    cbn [fst snd set_arm uw_put uw_with uw_stores]. rewrite find_add. destruct (N.eq_dec sid sid'); congruence.
  - destruct (NM.find sid (uw_stores w)) as [ms|]; [|reflexivity]. destruct (uhget (uw_hs w) h) as [e|]; [|reflexivity].
    destruct (st_insert_f ms _ e v _) as [[ms1 r] f1].
    cbn [fst snd set_arm uw_put uw_with uw_stores]. rewrite find_add. destruct (N.eq_dec sid sid'); congruence.
Qed.
