(* C19 model: specs::ChangeSet<T> (src/changeset.rs) holding values with a
   destructor, under an armed destructor fault.  A ChangeSet is a mask and a
   DenseVecStorage; [clear] takes the mask first and cleans with it, exactly
   as MaskedStorage::clear ([m_clear_f] on the dense kind); [add] either
   inserts or `+=`-es into the present value (the right-hand side is then
   destroyed: the harness' AddAssign adds the payloads and drops the
   argument); dropping a ChangeSet drops its Vec (drop glue: every element).
   A changeset history (first operation 81) has no world besides the entities
   it creates: entity k has index k.  Definitions only. *)
From SV Require Export Unwind.UWorld.

Record cs_st := { cs_ms : mstore; cs_nh : nat; cs_arm : nat; cs_stuck : bool }.

Definition cs_new : mstore := ms_new KDense WPlain false.
Definition cs_init : cs_st := {| cs_ms := cs_new; cs_nh := O; cs_arm := O; cs_stuck := false |}.

Inductive cop :=
| CNewEnt                      (* world.create_entity().build() *)
| CArm (k : nat)
| CAdd (h : nat) (v : tok)     (* ChangeSet::add(entity h, v) *)
| CClear                       (* ChangeSet::clear *)
| CDump                        (* (&entities, &changeset).join() *)
| CDrop                        (* drop(changeset); a new one takes its place *)
| CBad.

Definition cop_destroying (o : cop) : bool :=
  match o with CAdd _ _ | CClear | CDrop => true | _ => false end.

(* ChangeSet::add *)
Definition cs_add_f (ms : mstore) (id : N) (v : tok) (f : fctx) : mstore * fctx :=
  if NS.mem id (ms_mask ms) then
    (* *get_mut(id) += v : the payloads are added, then the argument is destroyed *)
    let '(old, c1) := u_get (ms_raw ms) id (fx f) in
    let '(r, c2) := u_write (ms_raw ms) id (fst old, (snd old + snd v)%Z) c1 in
    (ms_set ms (ms_mask ms) r, f_drop (f_with f c2) v)
  else
    let '(r, f') := u_insert_f (ms_raw ms) id v f in
    (ms_set ms (NS.add id (ms_mask ms)) r, f').

Definition cs_step_core (s : cs_st) (o : cop) (f : fctx) : cs_st * uout * fctx :=
  let put ms := {| cs_ms := ms; cs_nh := cs_nh s; cs_arm := cs_arm s; cs_stuck := cs_stuck s |} in
  match o with
  | CNewEnt =>
      ({| cs_ms := cs_ms s; cs_nh := S (cs_nh s); cs_arm := cs_arm s; cs_stuck := cs_stuck s |},
       XHandle (N.of_nat (cs_nh s), 1%Z), f)
  | CArm _ => (s, XUnit, f)
  | CAdd h v =>
      if Nat.ltb h (cs_nh s) then
        let '(ms1, f1) := cs_add_f (cs_ms s) (N.of_nat h) v f in (put ms1, out_unless_panic f1 XUnit, f1)
      else (s, XSkip, f)
  | CClear => let '(ms1, f1) := m_clear_f None (cs_ms s) f in (put ms1, out_unless_panic f1 XUnit, f1)
  | CDump =>
      let '(l, c1) := join_vals (ms_raw (cs_ms s)) (NS.elements (ms_mask (cs_ms s))) (fx f) in (s, XJoin l, f_with f c1)
  | CDrop => let '(_, f1) := m_clear_f None (cs_ms s) f in (put cs_new, XUnit, f1)
  | CBad => (s, XSkip, f)
  end.

Definition cs_step (s : cs_st) (o : cop) : cs_st * uout * fctx :=
  match o with
  | CArm k => ({| cs_ms := cs_ms s; cs_nh := cs_nh s; cs_arm := k; cs_stuck := cs_stuck s |}, XUnit, f_of cx0 O)
  | _ =>
      let f := f_of cx0 (if cop_destroying o then cs_arm s else O) in
      let '(s1, out, f1) := cs_step_core s o f in
      ({| cs_ms := cs_ms s1; cs_nh := cs_nh s1; cs_arm := O; cs_stuck := cs_stuck s1 || cx_stuck (fx f1) |}, out, f1)
  end.

Fixpoint cs_run (s : cs_st) (ledger : list N) (os : list cop) : cs_st * list N :=
  match os with
  | [] => (s, ledger)
  | o :: os' => let '(s1, _, f1) := cs_step s o in cs_run s1 (cx_drops (fx f1) ++ ledger) os'
  end.

(* leaving the history: the changeset is dropped, no fault armed *)
Definition cs_teardown (s : cs_st) : fctx := snd (m_clear_f None (cs_ms s) (f_of cx0 O)).

Definition dec_cop (code : Z) (p : list Z) : cop :=
  match code, p with
  | 1, [] => CNewEnt
  | 2, [k] => CArm (Z.to_nat k)
  | 82, [h; u; v] => if Z.ltb h 0 then CBad else CAdd (Z.to_nat h) (Z.to_N u, v)
  | 85, [] => CClear
  | 86, [] => CDump
  | 87, [] => CDrop
  | _, _ => CBad
  end%Z.

Fixpoint dec_cops (fuel : nat) (l : list Z) : list cop :=
  match fuel with
  | O => []
  | S fuel' =>
      match l with
      | code :: n :: l' =>
          match take_n (Z.to_nat n) l' with
          | Some (p, rest) => dec_cop code p :: dec_cops fuel' rest
          | None => [CBad]
          end
      | [] => []
      | _ => [CBad]
      end
  end.

Fixpoint cs_tr (s : cs_st) (os : list cop) : list (list Z) :=
  match os with
  | [] =>
      let f := cs_teardown s in
      [enc_ueffects 90%Z (cx_stuck (fx f)) f (usort (cx_drops (fx f)))]
  | o :: os' =>
      let '(s1, out, f1) := cs_step s o in
      enc_uout out :: enc_ueffects 10%Z (cs_stuck s1) f1 (rev (cx_drops (fx f1))) ::
        (if cs_stuck s1 then [] else cs_tr s1 os')
  end.

(* a history whose first operation is `81 0` is a changeset history *)
Definition is_cs_history (h : list Z) : bool :=
  match h with 81%Z :: 0%Z :: _ => true | _ => false end.

Definition cs_transcript (h : list Z) : list (list Z) :=
  match h with
  | _ :: _ :: rest => [7%Z] :: [10%Z; 0%Z; 0%Z] :: cs_tr cs_init (dec_cops (length rest) rest)
  | _ => []
  end.
