(* C19 for specs::ChangeSet: add / clear / drop under an armed destructor
   fault, for every content and fault position; the ledger of a whole
   changeset history holds no real uid twice and a join over the changeset
   never returns a destroyed value. *)
From SV Require Import Base.ListX Base.PvecFacts Store.Raw Store.RawRefine Store.Masked Store.StoreInv.
From SV Require Import Unwind.Fault Unwind.UWorld Unwind.ChangeSet Unwind.RelP Unwind.FaultBasics Unwind.CleanProps
  Unwind.StoreProps Unwind.LedgerInv Unwind.UWorldProps.

Definition csP : tok -> Prop := fun _ => True.

(* the storage of a changeset: never the unit type, never the null or the default kind *)
Definition cs_shape (ms : mstore) : Prop :=
  ms_unit ms = false /\ is_default (ms_raw ms) = false /\ ms_raw ms <> RNull.

Lemma cs_shape_new : cs_shape cs_new.
Proof. repeat split; discriminate. Qed.

Lemma val_ok_shape ms v : cs_shape ms -> val_ok (ms_raw ms) v.
Proof. intros [_ [_ H]]. unfold val_ok. destruct (ms_raw ms); auto. congruence. Qed.

(* ChangeSet::add *)
Theorem cs_add_f_spec ms m id v f : MInvP csP ms m -> cs_shape ms -> f_pan f = false ->
  let ms' := fst (cs_add_f ms id v f) in
  let f' := snd (cs_add_f ms id v f) in
  cs_shape ms' /\ cx_stuck (fx f') = cx_stuck (fx f) /\
  match NM.find id m with
  | Some old =>
      (* `+=`: the payload grows, the identity stays, the argument is destroyed *)
      MInvP csP ms' (NM.add id (fst old, (snd old + snd v)%Z) m) /\
      cx_drops (fx f') = fst v :: cx_drops (fx f) /\ f_pan f' = Nat.eqb (f_arm f) 1 /\
      (forall i t, own ms' (NM.add id (fst old, (snd old + snd v)%Z) m) i t ->
         (own ms m i t /\ i <> id) \/ (i = id /\ t = (fst old, (snd old + snd v)%Z)))
  | None =>
      MInvP csP ms' (NM.add id v m) /\ cx_drops (fx f') = cx_drops (fx f) /\ f_pan f' = false /\
      (forall i t, own ms' (NM.add id v m) i t -> (own ms m i t /\ i <> id) \/ (i = id /\ t = v))
  end.
Proof.
  intros HM Hsh Hp. cbn zeta. unfold cs_add_f. destruct Hsh as [Hu [Hd Hn]].
  destruct (NS.mem id (ms_mask ms)) eqn:Hmem.
  - destruct (keys_find_some _ _ _ (MP_keys _ _ _ HM) Hmem) as [old Hf]. rewrite Hf.
    rewrite (rrelP_get csP (ms_raw ms) m id old (fx f) (MP_rel _ _ _ HM) Hf).
    pose proof (rrelP_write csP (ms_raw ms) m id old (fst old, (snd old + snd v)%Z) (fx f) (MP_rel _ _ _ HM) Hf
                  (val_ok_shape ms _ (conj Hu (conj Hd Hn)))) as X.
    pose proof (u_write_kept csP (ms_raw ms) m id old (fst old, (snd old + snd v)%Z) (fx f) (MP_rel _ _ _ HM) Hf) as K.
    pose proof (u_write_is_default (ms_raw ms) id (fst old, (snd old + snd v)%Z) (fx f)) as Kd.
    pose proof (raw_null_stable_write (ms_raw ms) id (fst old, (snd old + snd v)%Z) (fx f)) as Kn.
    destruct (u_write (ms_raw ms) id (fst old, (snd old + snd v)%Z) (fx f)) as [r c2]. cbn [fst snd] in *.
    destruct X as [X1 X2]. subst c2.
    destruct (f_drop_fields (f_with f (fx f)) v) as [A [B [_ [D E]]]]. cbn [f_with fx f_arm f_pan] in *.
    rewrite Hp in E. cbn [orb] in E.
    split; [repeat split; cbn [ms_set ms_unit ms_raw]; [assumption|congruence|intros Hr; apply Hn; apply Kn; assumption]|].
    split; [assumption|]. split; [|split; [assumption|split; [assumption|exact K]]].
    split; cbn [ms_set ms_mask ms_raw ms_unit].
    + apply (keys_add_present _ _ _ _ old); [apply (MP_keys _ _ _ HM)|assumption].
    + assumption.
    + rewrite Hu. discriminate.
    + intros Hr. exfalso. apply Hn. apply Kn. assumption.
  - pose proof (keys_find_none _ _ _ (MP_keys _ _ _ HM) Hmem) as Hf. rewrite Hf.
    pose proof (u_insert_f_spec csP I (ms_raw ms) m id v f (MP_rel _ _ _ HM) Hf (val_ok_shape ms v (conj Hu (conj Hd Hn))) Hp) as X.
    pose proof (u_insert_f_is_default (ms_raw ms) id v f) as Kd. pose proof (u_insert_f_null (ms_raw ms) id v f) as Kn.
    destruct (u_insert_f (ms_raw ms) id v f) as [r f']. cbn [fst snd] in *.
    destruct X as [[ds [X1 [X2 [X3 _]]]] [X4 [X5 [X6 X7]]]].
    assert (ds = []) as ->.
    { destruct X1 as [->|[t0 [_ Ho]]]; [reflexivity|]. apply rown_nondefault in Ho; [congruence|assumption]. }
    cbn [map rev app length] in *. rewrite fired_0 in X3.
    split; [repeat split; cbn [ms_set ms_unit ms_raw]; [assumption|congruence|intros Hr; apply Hn; apply Kn; assumption]|].
    split; [assumption|]. split; [|split; [assumption|split; [assumption|]]].
    + split; cbn [ms_set ms_mask ms_raw ms_unit].
      * apply keys_add. apply (MP_keys _ _ _ HM).
      * apply X5. assumption.
      * rewrite Hu. discriminate.
      * intros Hr. exfalso. apply Hn. apply Kn. assumption.
    + intros i t Ho. unfold own in *. cbn [ms_set ms_raw] in Ho.
      apply rown_nondefault in Ho; [|congruence]. rewrite find_add in Ho.
      destruct (N.eq_dec id i) as [<-|Hne]; [right; split; congruence|left; split; [left; assumption|congruence]].
Qed.

(* ------------------------------------------------------------------ *)
(* whole changeset histories: the ledger invariant with one storage *)

Definition cs_stores (s : cs_st) : NM.t mstore := NM.add 0 (cs_ms s) (NM.empty mstore).
Definition cs_intro (o : cop) : list N := match o with CAdd _ v => [fst v] | _ => [] end.
Definition cs_hist_uids (os : list cop) : list N := flat_map cs_intro os.

Lemma cs_stores_find s j : NM.find j (cs_stores s) = if N.eq_dec 0 j then Some (cs_ms s) else None.
Proof. unfold cs_stores. rewrite find_add. destruct (N.eq_dec 0 j); [reflexivity|apply find_empty]. Qed.

Lemma u_clean_f_is_default hord r mask f : is_default (fst (u_clean_f hord r mask f)) = is_default r.
Proof.
  destruct r as [s|s|cells|m'|]; cbn [u_clean_f fst]; try reflexivity. destruct (vec_clean_f s mask f). reflexivity.
Qed.

Lemma cs_shape_clear hord ms f : cs_shape ms -> cs_shape (fst (m_clear_f hord ms f)).
Proof.
  intros [A [B C]]. unfold m_clear_f.
  pose proof (u_clean_f_is_default hord (ms_raw ms) (NS.elements (ms_mask ms)) f) as D.
  pose proof (u_clean_f_null hord (ms_raw ms) (NS.elements (ms_mask ms)) f) as E.
  destruct (u_clean_f hord (ms_raw ms) (NS.elements (ms_mask ms)) f) as [r f']. cbn [fst snd] in *.
  repeat split; cbn [ms_set ms_unit ms_raw]; [assumption|congruence|auto].
Qed.

Definition cs_plan (s : cs_st) (o : cop) : fctx := f_of cx0 (if cop_destroying o then cs_arm s else O).

Theorem cs_step_ok s o G L used :
  LJ csP (cs_stores s) G L used -> cs_shape (cs_ms s) -> fresh (cs_intro o) used ->
  (exists G', LJ csP (cs_stores (fst (fst (cs_step s o)))) G' (cx_drops (fx (snd (cs_step s o))) ++ L) (cs_intro o ++ used)) /\
  cs_shape (cs_ms (fst (fst (cs_step s o)))) /\
  cx_stuck (fx (snd (cs_step s o))) = false /\
  (forall t, In t (out_toks (snd (fst (cs_step s o)))) -> real (fst t) = true -> ~ In (fst t) L).
Proof.
  intros HJ Hsh Hfr.
  assert (NM.find 0 (cs_stores s) = Some (cs_ms s)) as Hs by (rewrite cs_stores_find; reflexivity).
  pose proof (LJ_inv csP _ _ _ _ HJ) as HW. destruct (WJ_lookup csP _ _ _ _ HW Hs) as [m [Hg HM]].
  assert (forall ms', forall j, NM.find j (NM.add 0 ms' (cs_stores s)) = NM.find j (NM.add 0 ms' (NM.empty mstore))) as Hext.
  { intros ms' j. unfold cs_stores. rewrite !find_add. destruct (N.eq_dec 0 j); reflexivity. }
  assert (forall used', (forall u, In u used -> In u used') -> exists G', LJ csP (cs_stores s) G' L used') as Hsame.
  { intros used' Hsub. exists G. eapply real_guard_used; [exact HJ|]. intros u _. apply Hsub. }
  destruct o; unfold cs_step.
  - (* new entity *)
    cbn [cs_step_core fst snd cs_ms cs_intro app out_toks cs_plan cop_destroying f_of fx cx0 cx_drops cx_stuck cs_stores].
    split; [exact (Hsame used (fun u H => H))|]. split; [assumption|]. split; [reflexivity|intros t []].
  - (* arm *)
    cbn [fst snd cs_ms cs_intro app out_toks f_of fx cx0 cx_drops cx_stuck cs_stores].
    split; [exact (Hsame used (fun u H => H))|]. split; [assumption|]. split; [reflexivity|intros t []].
  - (* add *)
    change (f_of cx0 (if cop_destroying (CAdd h v) then cs_arm s else 0%nat)) with (cs_plan s (CAdd h v)).
    cbn [cs_step_core]. destruct (Nat.ltb h (cs_nh s)).
    2:{ cbn [fst snd cs_ms cs_intro out_toks cs_plan cop_destroying f_of fx cx0 cx_drops cx_stuck cs_stores app].
        split; [apply Hsame; intros u H; right; assumption|]. split; [assumption|]. split; [reflexivity|intros t []]. }
    pose proof (cs_add_f_spec (cs_ms s) m (N.of_nat h) v (cs_plan s (CAdd h v)) HM Hsh eq_refl) as X. cbn zeta in X.
    destruct (cs_add_f (cs_ms s) (N.of_nat h) v (cs_plan s (CAdd h v))) as [ms1 f1]. cbn [fst snd cs_ms cs_intro] in *.
    destruct X as [X1 [X2 X3]]. cbn [cs_intro] in Hfr. destruct (fresh_cons _ _ _ Hfr) as [Hfv _].
    split; [|split; [assumption|split; [exact X2|unfold out_unless_panic; destruct (f_pan f1); intros t []]]].
    destruct (NM.find (N.of_nat h) m) as [old|] eqn:Hf.
    + destruct X3 as [Y1 [Y2 [Y3 Y4]]]. exists (NM.add 0 (NM.add (N.of_nat h) (fst old, (snd old + snd v)%Z) m) G).
      rewrite Y2. cbn [app cs_plan cop_destroying f_of fx cx0 cx_drops].
      apply LJ_fresh_drop; [|assumption].
      eapply (LJ_ext csP (NM.add 0 ms1 (cs_stores s))); [intros j; symmetry; apply Hext|intros j; reflexivity|].
      change L with (rev (map uid_of []) ++ L).
      apply (LJ_step_gen csP (cs_stores s) G L used 0 (cs_ms s) m ms1 _ [] None HJ Hs Hg Y1).
      * constructor.
      * intros i t [].
      * intros i t Ho. destruct (Y4 i t Ho) as [[A B]|[-> ->]]; [left; exists t; auto|].
        left. exists old. split; [left; assumption|]. split; [reflexivity|intros []].
      * intros i t E. discriminate.
    + destruct X3 as [Y1 [Y2 [Y3 Y4]]]. exists (NM.add 0 (NM.add (N.of_nat h) v m) G).
      rewrite Y2. cbn [app cs_plan cop_destroying f_of fx cx0 cx_drops].
      eapply (LJ_ext csP (NM.add 0 ms1 (cs_stores s))); [intros j; symmetry; apply Hext|intros j; reflexivity|].
      change L with (rev (map uid_of []) ++ L).
      apply (LJ_step_gen csP (cs_stores s) G L used 0 (cs_ms s) m ms1 _ [] (Some (N.of_nat h, v)) HJ Hs Hg Y1).
      * constructor.
      * intros i t [].
      * intros i t Ho. destruct (Y4 i t Ho) as [[A B]|[-> ->]]; [left; exists t; auto|right; left; reflexivity].
      * intros i t E R. inversion E; subst. auto.
  - (* clear *)
    change (f_of cx0 (if cop_destroying CClear then cs_arm s else 0%nat)) with (cs_plan s CClear).
    cbn [cs_step_core]. destruct (clear_LJ csP I None (cs_stores s) G (cs_plan s CClear) L used 0 (cs_ms s) HJ eq_refl Hs) as [A [B _]].
    pose proof (cs_shape_clear None (cs_ms s) (cs_plan s CClear) Hsh) as C.
    destruct (m_clear_f None (cs_ms s) (cs_plan s CClear)) as [ms1 f1]. cbn [fst snd cs_ms cs_intro app] in *.
    split; [|split; [assumption|split; [exact B|unfold out_unless_panic; destruct (f_pan f1); intros t []]]].
    exists (NM.add 0 (NM.empty tok) G).
    eapply (LJ_ext csP (NM.add 0 ms1 (cs_stores s))); [intros j; symmetry; apply Hext|intros j; reflexivity|exact A].
  - (* join *)
    change (f_of cx0 (if cop_destroying CDump then cs_arm s else 0%nat)) with (cs_plan s CDump).
    cbn [cs_step_core]. destruct (join_own csP (cs_ms s) m (fx (cs_plan s CDump)) HM) as [A B].
    destruct (join_vals (ms_raw (cs_ms s)) (NS.elements (ms_mask (cs_ms s))) (fx (cs_plan s CDump))) as [l c1].
    cbn [fst snd cs_ms cs_intro app out_toks f_with fx] in *. subst c1.
    split; [exact (Hsame used (fun u H => H))|]. split; [assumption|]. split; [reflexivity|].
    intros t Hin R. apply in_map_iff in Hin. destruct Hin as [[i t'] [E Hin]]. cbn [snd] in E. subst t'.
    apply (LJ_live _ _ _ _ _ HJ 0 i t); [|assumption]. exists (cs_ms s), m. split; [assumption|]. split; [assumption|]. left. apply B. assumption.
  - (* drop *)
    change (f_of cx0 (if cop_destroying CDrop then cs_arm s else 0%nat)) with (cs_plan s CDrop).
    cbn [cs_step_core]. destruct (clear_LJ csP I None (cs_stores s) G (cs_plan s CDrop) L used 0 (cs_ms s) HJ eq_refl Hs) as [A [B _]].
    destruct (m_clear_f None (cs_ms s) (cs_plan s CDrop)) as [ms1 f1]. cbn [fst snd cs_ms cs_intro app out_toks] in *.
    split; [|split; [apply cs_shape_new|split; [exact B|intros t []]]].
    exists (NM.add 0 (NM.empty tok) (NM.remove 0 (NM.add 0 (NM.empty tok) G))).
    apply (LJ_remove csP _ _ _ _ 0) in A.
    eapply (LJ_ext csP (NM.add 0 cs_new (NM.remove 0 (NM.add 0 ms1 (cs_stores s))))).
    + intros j. unfold cs_stores. rewrite !find_add. destruct (N.eq_dec 0 j); [reflexivity|].
      rewrite find_remove. destruct (N.eq_dec 0 j); [congruence|]. rewrite !find_add. destruct (N.eq_dec 0 j); [congruence|]. reflexivity.
    + intros j. reflexivity.
    + apply LJ_register; [exact A| |apply (MInvP_new csP); discriminate|apply own_new].
      rewrite find_remove. destruct (N.eq_dec 0 0); congruence.
  - (* bad *)
    cbn [cs_step_core fst snd cs_ms cs_intro app out_toks cs_plan cop_destroying f_of fx cx0 cx_drops cx_stuck cs_stores].
    split; [exact (Hsame used (fun u H => H))|]. split; [assumption|]. split; [reflexivity|intros t []].
Qed.

Theorem cs_run_ok os : forall s G L used,
  LJ csP (cs_stores s) G L used -> cs_shape (cs_ms s) -> fresh (cs_hist_uids os) used ->
  exists G' used', LJ csP (cs_stores (fst (cs_run s L os))) G' (snd (cs_run s L os)) used' /\
                   cs_shape (cs_ms (fst (cs_run s L os))) /\
                   (forall u, In u used' -> In u (cs_hist_uids os) \/ In u used).
Proof.
  induction os as [|o os IH]; intros s G L used HJ Hsh Hfr; cbn [cs_run cs_hist_uids flat_map] in *.
  - exists G, used. cbn [fst snd]. auto.
  - destruct (fresh_app _ _ _ Hfr) as [F1 F2].
    destruct (cs_step_ok s o G L used HJ Hsh F1) as [[G1 A] [B _]].
    destruct (cs_step s o) as [[s1 out] f1]. cbn [fst snd] in *.
    destruct (IH s1 G1 _ _ A B F2) as [G' [used' [C [D E]]]].
    exists G', used'. split; [assumption|]. split; [assumption|].
    intros u Hu. destruct (E u Hu) as [H|H]; [left; apply in_or_app; right; assumption|].
    apply in_app_or in H. destruct H as [H|H]; [left; apply in_or_app; left; assumption|right; assumption].
Qed.

Lemma LJ_cs_init : LJ csP (cs_stores cs_init) (NM.add 0 (NM.empty tok) (NM.empty (NM.t tok))) [] [].
Proof.
  apply LJ_register; [apply LJ_init|apply find_empty|apply (MInvP_new csP); discriminate|apply own_new].
Qed.

(* NO DOUBLE DROP over a changeset history, including the final drop of the changeset *)
Theorem cs_no_double_drop os : ndr (cs_hist_uids os) ->
  ndr (snd (cs_run cs_init [] os)) /\
  ndr (cx_drops (fx (cs_teardown (fst (cs_run cs_init [] os)))) ++ snd (cs_run cs_init [] os)).
Proof.
  intros H.
  destruct (cs_run_ok os cs_init _ [] [] LJ_cs_init cs_shape_new) as [G' [used' [A [B _]]]].
  { split; [assumption|intros u _ _ []]. }
  split; [apply (LJ_nodup _ _ _ _ _ A)|].
  unfold cs_teardown.
  assert (NM.find 0 (cs_stores (fst (cs_run cs_init [] os))) = Some (cs_ms (fst (cs_run cs_init [] os)))) as Hs
    by (rewrite cs_stores_find; reflexivity).
  destruct (clear_LJ csP I None _ G' (f_of cx0 O) (snd (cs_run cs_init [] os)) used' 0 _ A eq_refl Hs) as [C _].
  apply (LJ_nodup _ _ _ _ _ C).
Qed.

(* NO STALE READ: a join over the changeset returns no destroyed value; never stuck *)
Theorem cs_no_stale_read os o : ndr (cs_hist_uids (os ++ [o])) ->
  let s := fst (cs_run cs_init [] os) in
  let L := snd (cs_run cs_init [] os) in
  (forall t, In t (out_toks (snd (fst (cs_step s o)))) -> real (fst t) = true -> ~ In (fst t) L) /\
  cx_stuck (fx (snd (cs_step s o))) = false.
Proof.
  intros H. cbn zeta. unfold cs_hist_uids in H. rewrite flat_map_app in H. cbn [flat_map] in H. rewrite app_nil_r in H.
  assert (fresh (cs_hist_uids os ++ cs_intro o) []) as Hfr by (split; [assumption|intros u _ _ []]).
  destruct (fresh_app _ _ _ Hfr) as [F1 F2].
  destruct (cs_run_ok os cs_init _ [] [] LJ_cs_init cs_shape_new F1) as [G' [used' [A [B D]]]].
  assert (fresh (cs_intro o) used') as F3.
  { destruct F2 as [F2a F2b]. split; [assumption|]. intros u Hu R Hin. apply (F2b u Hu R).
    destruct (D u Hin) as [X|[]]. rewrite app_nil_r. assumption. }
  destruct (cs_step_ok _ o G' _ used' A B F3) as [_ [_ [C E]]]. split; assumption.
Qed.
