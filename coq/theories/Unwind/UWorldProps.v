(* C19, world level: every operation of the unwind world machine, with the
   fault armed at any position and for every oracle, preserves the ledger
   invariant; consequences for whole histories. *)
From SV Require Import Base.ListX Base.PvecFacts Store.Raw Store.RawRefine Store.Masked Store.StoreInv.
From SV Require Import Unwind.Fault Unwind.UWorld Unwind.RelP Unwind.FaultBasics Unwind.CleanProps Unwind.StoreProps
  Unwind.LedgerInv.
From Coq Require Import Permutation.

Lemma real_guard_used P stores G L used used' : LJ P stores G L used ->
  (forall u, real u = true -> In u used -> In u used') -> LJ P stores G L used'.
Proof.
  intros [J1 J2 J3 J4 J5 J6] H. split; try assumption.
  - intros s i t Hw R. apply H; [assumption|]. apply (J5 _ _ _ Hw R).
  - intros u Hin R. apply H; [assumption|]. apply J6; assumption.
Qed.

Section World.
Variable P : tok -> Prop.
Hypothesis P_default : P default_tok.

Lemma WJ_lookup stores G sid ms : WJ P stores G -> NM.find sid stores = Some ms ->
  exists m, NM.find sid G = Some m /\ MInvP P ms m.
Proof.
  intros H Hs. specialize (H sid). rewrite Hs in H. destruct (NM.find sid G) as [m|]; [eauto|contradiction].
Qed.

(* ------------------------------------------------------------------ *)
(* delete_components *)

Lemma purge_tbl_f_pan tbl stores ids f : f_pan f = true -> purge_tbl_f stores tbl ids f = (stores, f).
Proof. intros H. destruct tbl; cbn [purge_tbl_f]; [reflexivity|]. rewrite H. reflexivity. Qed.

Lemma purge_LJ ids tbl : forall stores G f L0 used,
  LJ P stores G (cx_drops (fx f) ++ L0) used -> f_pan f = false ->
  exists G', LJ P (fst (purge_tbl_f stores tbl ids f)) G' (cx_drops (fx (snd (purge_tbl_f stores tbl ids f))) ++ L0) used /\
             cx_stuck (fx (snd (purge_tbl_f stores tbl ids f))) = cx_stuck (fx f).
Proof.
  induction tbl as [|sid tbl IH]; intros stores G f L0 used HJ Hp; cbn [purge_tbl_f].
  - exists G. auto.
  - rewrite Hp. destruct (NM.find sid stores) as [ms|] eqn:Hs; [|apply (IH stores G); assumption].
    pose proof (LJ_inv P _ _ _ _ HJ) as HW. destruct (WJ_lookup _ _ _ _ HW Hs) as [m [Hg HM]].
    destruct (m_drop_all_f_spec P P_default ids ms m f HM Hp) as [m' [ds [I1 [I2 [I3 [I4 [I5 [I6 [I7 [I8 [I9 I10]]]]]]]]]]].
    destruct (m_drop_all_f ms ids f) as [ms1 f1]. cbn [fst snd] in *.
    assert (LJ P (NM.add sid ms1 stores) (NM.add sid m' G) (cx_drops (fx f1) ++ L0) used) as HJ1.
    { rewrite I5, <- app_assoc.
      apply (LJ_step P stores G _ used sid ms m ms1 m' ds None HJ Hs Hg I1 I2).
      - intros i t Hin. left. apply (I3 i t Hin).
      - intros i t Ho. destruct (I10 i t Ho) as [A|A]; [left; assumption|right; right; rewrite A; reflexivity].
      - intros i t E. discriminate. }
    destruct (f_pan f1) eqn:Hp1.
    + rewrite purge_tbl_f_pan by assumption. cbn [fst snd]. eauto.
    + destruct (IH _ _ f1 L0 used HJ1 Hp1) as [G' [A B]]. exists G'. split; [assumption|congruence].
Qed.

(* ------------------------------------------------------------------ *)
(* builder.with(..) of a fresh entity: no fault is armed *)

Definition comp_uids (cs : comps) : list N := map (fun c => fst (snd c)) cs.

Definition fresh (l used : list N) : Prop := ndr l /\ forall u, In u l -> real u = true -> ~ In u used.

Lemma fresh_cons u l used : fresh (u :: l) used ->
  (real u = true -> ~ In u used) /\ fresh l (u :: used).
Proof.
  intros [H1 H2]. split; [intros R; apply (H2 u (or_introl eq_refl) R)|]. split.
  - unfold ndr in *. cbn [filter] in H1. destruct (real u); [inversion H1; assumption|assumption].
  - intros v Hv R [E|Hin]; [|exact (H2 v (or_intror Hv) R Hin)]. subst v.
    unfold ndr in H1. cbn [filter] in H1. rewrite R in H1. inversion H1 as [|? ? Hn _]; subst. apply Hn. apply filter_In. auto.
Qed.

Lemma tnorm_cases ms v : tnorm ms v = v \/ tnorm ms v = unit_tok.
Proof. unfold tnorm. destruct (ms_unit ms); auto. Qed.

Lemma find_add_same {A} (m : NM.t A) k v : NM.find k m = Some v -> forall j, NM.find j (NM.add k v m) = NM.find j m.
Proof. intros H j. rewrite find_add. destruct (N.eq_dec k j); congruence. Qed.

(* Storage::insert with its value handed back destroyed by the caller *)
Lemma insert_LJ stores G f L0 used sid ms av e v :
  LJ P stores G (cx_drops (fx f) ++ L0) used -> f_pan f = false -> NM.find sid stores = Some ms ->
  (real (fst v) = true -> ~ In (fst v) used) ->
  (forall m, NM.find sid G = Some m -> av_alive av e = true -> NM.find (fst e) m = None ->
     f_pan (snd (st_insert_f ms av e v f)) = true -> P (tnorm ms v)) ->
  let ms1 := fst (fst (st_insert_f ms av e v f)) in
  let r := snd (fst (st_insert_f ms av e v f)) in
  let f1 := snd (st_insert_f ms av e v f) in
  (exists G', LJ P (NM.add sid ms1 stores) G' (cx_drops (fx f1) ++ L0) (fst v :: used)) /\
  cx_stuck (fx f1) = cx_stuck (fx f) /\
  (f_arm f = O -> f_arm f1 = O /\ f_pan f1 = false) /\
  (av_alive av e = true -> forall g, r <> InsErr g) /\
  (forall t, r = InsOld t -> real (fst t) = true -> ~ In (fst t) (cx_drops (fx f) ++ L0)).
Proof.
  intros HJ Hp Hs Hfv Horph. cbn zeta.
  pose proof (LJ_inv P _ _ _ _ HJ) as HW. destruct (WJ_lookup _ _ _ _ HW Hs) as [m [Hg HM]].
  pose proof (st_insert_f_spec P P_default ms m av e v f HM Hp) as X. cbn zeta in X.
  specialize (Horph m Hg).
  destruct (st_insert_f ms av e v f) as [[ms1 r] f1]. cbn [fst snd] in *.
  destruct X as [X1 [X2 [X0 X3]]].
  assert (forall i t, Some (fst e, tnorm ms v) = Some (i, t) -> real (fst t) = true -> ~ In (fst t) used) as Hnew.
  { intros i t E R. inversion E; subst. destruct (tnorm_cases ms v) as [Et|Et]; rewrite Et in *; [auto|discriminate]. }
  assert (forall u, real u = true -> In u (fst (tnorm ms v) :: used) -> In u (fst v :: used)) as Hused.
  { intros u R [E|H]; [|right; assumption]. destruct (tnorm_cases ms v) as [Et|Et]; rewrite Et in E; [left; assumption|].
    subst u. discriminate. }
  split; [|split; [assumption|split; [assumption|]]].
  - destruct (av_alive av e).
    + destruct (NM.find (fst e) m) as [old|] eqn:Hf.
      * destruct X3 as [-> [Y2 [Y3 [Y4 [Y5 Y6]]]]].
        exists (NM.add sid (NM.add (fst e) (tnorm ms v) m) G).
        rewrite Y3. change (fst old :: cx_drops (fx f) ++ L0) with (rev (map uid_of [(fst e, old)]) ++ cx_drops (fx f) ++ L0).
        eapply real_guard_used; [|exact Hused].
        apply (LJ_step P stores G _ used sid ms m ms1 _ [(fst e, old)] (Some (fst e, tnorm ms v)) HJ Hs Hg Y2).
        -- constructor; [intros []|constructor].
        -- intros i t [E|[]]. inversion E; subst. left. assumption.
        -- intros i t Ho. destruct (Y6 i t Ho) as [[A B]|[-> ->]]; [left|right; left; reflexivity].
           split; [assumption|]. intros [E|[]]. cbn [fst] in E. congruence.
        -- exact Hnew.
      * destruct X3 as [-> [[ds [Z1 [Z2 Z3]]] [Y2 [Y3 Y4]]]].
        assert (NoDup (map fst ds) /\ (forall i t, In (i, t) ds -> own ms m i t) /\ (forall i, In i (map fst ds) -> i = fst e)) as [D1 [D2 D3]].
        { destruct Z1 as [->|[t0 [-> Ho]]]; cbn [map fst In].
          - split; [constructor|]. split; intros ? ; [intros ? []|intros []].
          - split; [constructor; [intros []|constructor]|]. split; [intros i t [E|[]]; inversion E; subst; assumption|].
            intros i [E|[]]. auto. }
        destruct (f_pan f1) eqn:Hp1.
        -- destruct (Y3 eq_refl) as [A B]. exists (NM.add sid m G). rewrite Z2, <- app_assoc.
           eapply real_guard_used; [|exact Hused].
           apply (LJ_step P stores G _ used sid ms m ms1 m ds (Some (fst e, tnorm ms v)) HJ Hs Hg); auto.
           intros i t Ho. destruct (Y4 i t Ho) as [[C D]|[[-> ->]|C]];
             [left; split; [assumption|intros Hin; apply D; apply D3; assumption]|right; left; reflexivity|right; right; rewrite C; reflexivity].
        -- destruct (Y2 eq_refl) as [A B]. exists (NM.add sid (NM.add (fst e) (tnorm ms v) m) G). rewrite Z2, <- app_assoc.
           eapply real_guard_used; [|exact Hused].
           apply (LJ_step P stores G _ used sid ms m ms1 _ ds (Some (fst e, tnorm ms v)) HJ Hs Hg); auto.
           intros i t Ho. destruct (Y4 i t Ho) as [[C D]|[[-> ->]|C]];
             [left; split; [assumption|intros Hin; apply D; apply D3; assumption]|right; left; reflexivity|right; right; rewrite C; reflexivity].
    + destruct X3 as [-> [_ [Y3 _]]]. exists G. rewrite Y3. cbn [app].
      eapply real_guard_used; [|exact Hused].
      apply LJ_fresh_drop.
      * apply (LJ_ext P stores _ G G); [intros j; apply find_add_same; assumption|reflexivity|assumption].
      * intros R. destruct (tnorm_cases ms v) as [Et|Et]; rewrite Et in *; [auto|discriminate].
  - split.
    + intros Hal g E. rewrite Hal in X3. destruct (NM.find (fst e) m); destruct X3 as [X3 _]; congruence.
    + intros t E R. destruct (av_alive av e); [|destruct X3 as [_ [X3 _]]; congruence].
      destruct (NM.find (fst e) m) as [old|] eqn:Hf; [|destruct X3 as [X3 _]; congruence].
      destruct X3 as [X3 _]. rewrite X3 in E. inversion E; subst t.
      apply (LJ_live _ _ _ _ _ HJ sid (fst e) old); [|assumption]. exists ms, m. split; [assumption|]. split; [assumption|]. left. assumption.
Qed.

Lemma f_drop_noarm f t : f_arm f = O -> f_pan (f_drop f t) = f_pan f /\ f_arm (f_drop f t) = O.
Proof. intros H. unfold f_drop. rewrite H. auto. Qed.

Lemma st_insert_f_noarm ms av e v f : f_arm f = O -> f_pan f = false -> f_pan (snd (st_insert_f ms av e v f)) = false.
Proof.
  intros Ha Hp. unfold st_insert_f. destruct (av_alive av e).
  - destruct (NS.mem (fst e) (ms_mask ms)).
    + destruct (w_access_mut ms (fst e) true (USwap (tnorm ms v)) (fx f)) as [[ms1 old] c']. cbn [snd].
      destruct (f_drop_noarm (f_with f c') old Ha) as [A _]. rewrite A. assumption.
    + assert (f_pan (snd (u_insert_f (ms_raw (ms_event ms (EInserted (fst e)))) (fst e) (tnorm ms v) f)) = false) as X.
      { destruct (ms_raw (ms_event ms (EInserted (fst e)))) as [s|s|cells|m'|]; cbn [u_insert_f u_insert snd f_with f_pan]; try assumption.
        - destruct (N.leb (vlen cells) (fst e)).
          + destruct (fill_defaults cells _ (fx f)). cbn [snd f_with f_pan]. assumption.
          + destruct (pv_get cells (fst e)); cbn [snd]; [|assumption]. destruct (f_drop_noarm f t Ha) as [A _]. rewrite A. assumption.
        - destruct (NM.find (fst e) m'); [|assumption]. destruct (f_drop_noarm f t Ha) as [A _]. rewrite A. assumption. }
      destruct (u_insert_f _ (fst e) (tnorm ms v) f) as [r f']. cbn [snd] in *. assumption.
  - cbn [snd]. destruct (f_drop_noarm f (tnorm ms v) Ha) as [A _]. rewrite A. assumption.
Qed.

Lemma insert_comps_LJ av ent cs : forall stores G f L0 used,
  LJ P stores G (cx_drops (fx f) ++ L0) used -> f_pan f = false -> f_arm f = O ->
  fresh (comp_uids cs) used -> av_alive av ent = true ->
  (forall c, In c cs -> NM.find (fst c) stores <> None) ->
  exists G', LJ P (fst (insert_comps_f stores av ent cs f)) G'
                  (cx_drops (fx (snd (insert_comps_f stores av ent cs f))) ++ L0) (comp_uids cs ++ used) /\
             cx_stuck (fx (snd (insert_comps_f stores av ent cs f))) = cx_stuck (fx f) /\
             f_pan (snd (insert_comps_f stores av ent cs f)) = false.
Proof.
  induction cs as [|[sid v] cs IH]; intros stores G f L0 used HJ Hp Ha Hfr Hal Hreg; cbn [insert_comps_f comp_uids map app].
  - exists G. cbn [fst snd]. auto.
  - rewrite Hp. fold (comp_uids cs). cbn [fst snd] in Hfr. destruct (fresh_cons _ _ _ Hfr) as [Hfv Hfr'].
    destruct (NM.find sid stores) as [ms|] eqn:Hs; [|exfalso; apply (Hreg (sid, v) (or_introl eq_refl)); assumption].
    pose proof (insert_LJ stores G f L0 used sid ms av ent v HJ Hp Hs Hfv) as X. cbn zeta in X.
    pose proof (st_insert_f_noarm ms av ent v f Ha Hp) as Hno.
    destruct (st_insert_f ms av ent v f) as [[ms1 r] f1]. cbn [fst snd] in X, Hno.
    assert (forall m : NM.t tok, NM.find sid G = Some m -> av_alive av ent = true -> NM.find (fst ent) m = None ->
              f_pan f1 = true -> P (tnorm ms v)) as Horph by (intros; congruence).
    specialize (X Horph).
    destruct X as [[G1 X1] [X2 [X3 [X4 X5]]]].
    destruct (X3 Ha) as [Ha1 Hp1].
    assert (match r with InsErr _ => f_fail f1 | _ => f1 end = f1) as ->.
    { destruct r; try reflexivity. exfalso. apply (X4 Hal g). reflexivity. }
    destruct (IH _ _ f1 L0 (fst v :: used) X1 Hp1 Ha1 Hfr' Hal) as [G' [A [B C]]].
    { intros c Hc. rewrite find_add. destruct (N.eq_dec sid (fst c)); [discriminate|]. apply Hreg. right. assumption. }
    exists G'. split; [|split; [congruence|assumption]].
    eapply real_guard_used; [exact A|]. intros u _ Hin. apply in_app_or in Hin. destruct Hin as [Hin|[Hin|Hin]];
      [right; apply in_or_app; left; assumption|left; assumption|right; apply in_or_app; right; assumption].
Qed.

(* ------------------------------------------------------------------ *)
(* MaskedStorage::clear of one storage of the world *)

Lemma clear_LJ hord stores G f L0 used sid ms :
  LJ P stores G (cx_drops (fx f) ++ L0) used -> f_pan f = false -> NM.find sid stores = Some ms ->
  LJ P (NM.add sid (fst (m_clear_f hord ms f)) stores) (NM.add sid (NM.empty tok) G)
       (cx_drops (fx (snd (m_clear_f hord ms f))) ++ L0) used /\
  cx_stuck (fx (snd (m_clear_f hord ms f))) = cx_stuck (fx f) /\
  MInv (fst (m_clear_f hord ms f)) (NM.empty tok).
Proof.
  intros HJ Hp Hs. pose proof (LJ_inv P _ _ _ _ HJ) as HW. destruct (WJ_lookup _ _ _ _ HW Hs) as [m [Hg HM]].
  destruct (m_clear_f_spec P hord ms m f HM Hp) as [cl X]. cbn zeta in X.
  destruct (m_clear_f hord ms f) as [ms1 f1]. cbn [fst snd] in *.
  destruct X as [C1 [C2 [C3 [C4 [C5 [C6 [C7 [C8 _]]]]]]]].
  split; [|split; assumption].
  set (ds := if goes_on hord (ms_raw ms) then cl else cut (f_arm f) cl) in *.
  assert (NoDup (map fst ds) /\ forall i t, In (i, t) ds -> own ms m i t) as [D1 D2].
  { unfold ds. destruct (goes_on hord (ms_raw ms)).
    - split; [assumption|]. intros i t H. apply C2. assumption.
    - split; [rewrite <- cut_map; apply NoDup_cut; assumption|]. intros i t H. apply C2. eapply cut_incl. eassumption. }
  rewrite C3, <- app_assoc.
  apply (LJ_step P stores G _ used sid ms m ms1 (NM.empty tok) ds None HJ Hs Hg); auto.
  - apply MInvP_weaken; assumption.
  - intros i t Ho. destruct (C8 i t Ho).
  - intros i t E. discriminate.
Qed.

(* Storage::remove with its value destroyed by the caller *)
Lemma remove_LJ stores G f L0 used sid ms av e :
  LJ P stores G (cx_drops (fx f) ++ L0) used -> f_pan f = false -> NM.find sid stores = Some ms ->
  let ms1 := fst (fst (st_remove_f ms av e f)) in
  let o := snd (fst (st_remove_f ms av e f)) in
  let f1 := snd (st_remove_f ms av e f) in
  (exists G', LJ P (NM.add sid ms1 stores) G' (cx_drops (fx f1) ++ L0) used) /\
  cx_stuck (fx f1) = cx_stuck (fx f) /\
  (forall t, o = Some t -> real (fst t) = true -> ~ In (fst t) (cx_drops (fx f) ++ L0)).
Proof.
  intros HJ Hp Hs. cbn zeta. pose proof (LJ_inv P _ _ _ _ HJ) as HW. destruct (WJ_lookup _ _ _ _ HW Hs) as [m [Hg HM]].
  pose proof (st_remove_f_spec P P_default ms m av e f HM Hp) as X. cbn zeta in X.
  destruct (st_remove_f ms av e f) as [[ms1 o] f1]. cbn [fst snd] in *.
  destruct X as [X1 [X2 X3]]. split; [|split; [assumption|]].
  - destruct (av_alive av e); [destruct (NM.find (fst e) m) as [t|] eqn:Hf|].
    + destruct X3 as [-> [Y2 [Y3 [Y4 [Y5 Y6]]]]]. exists (NM.add sid (NM.remove (fst e) m) G).
      rewrite Y3. change (fst t :: cx_drops (fx f) ++ L0) with (rev (map uid_of [(fst e, t)]) ++ cx_drops (fx f) ++ L0).
      apply (LJ_step P stores G _ used sid ms m ms1 _ [(fst e, t)] None HJ Hs Hg Y2).
      * constructor; [intros []|constructor].
      * intros i u [E|[]]. inversion E; subst. left. assumption.
      * intros i u Ho. destruct (Y6 i u Ho) as [[A B]|A]; [left|right; right; rewrite A; reflexivity].
        split; [assumption|]. intros [E|[]]. cbn [fst] in E. congruence.
      * intros i u E. discriminate.
    + destruct X3 as [_ [-> ->]]. exists G.
      apply (LJ_ext P stores _ G G); [intros j; apply find_add_same; assumption|reflexivity|assumption].
    + destruct X3 as [_ [-> ->]]. exists G.
      apply (LJ_ext P stores _ G G); [intros j; apply find_add_same; assumption|reflexivity|assumption].
  - intros t E R. destruct (av_alive av e); [|destruct X3 as [X3 _]; congruence].
    destruct (NM.find (fst e) m) as [t'|] eqn:Hf; [|destruct X3 as [X3 _]; congruence].
    destruct X3 as [X3 _]. rewrite X3 in E. inversion E; subst t'.
    apply (LJ_live _ _ _ _ _ HJ sid (fst e) t); [|assumption]. exists ms, m. split; [assumption|]. split; [assumption|]. left. assumption.
Qed.

(* drop(world): the storages one after the other, abandoned at a panic *)
Lemma drop_stores_LJ orc l : forall stores G f L0 used,
  LJ P stores G (cx_drops (fx f) ++ L0) used -> f_pan f = false ->
  NoDup (map fst l) -> (forall sid ms, In (sid, ms) l -> NM.find sid stores = Some ms) ->
  let f' := drop_stores_f orc l f in
  ndr (cx_drops (fx f') ++ L0) /\ (forall u, In u (cx_drops (fx f') ++ L0) -> real u = true -> In u used) /\
  cx_stuck (fx f') = cx_stuck (fx f).
Proof.
  induction l as [|[sid ms] l IH]; intros stores G f L0 used HJ Hp Hnd Hin; cbn [drop_stores_f].
  - cbn zeta. split; [apply (LJ_nodup _ _ _ _ _ HJ)|]. split; [apply (LJ_used_led _ _ _ _ _ HJ)|reflexivity].
  - rewrite Hp. pose proof (Hin sid ms (or_introl eq_refl)) as Hs.
    destruct (clear_LJ (hord_of sid orc) stores G f L0 used sid ms HJ Hp Hs) as [A [B _]].
    destruct (m_clear_f (hord_of sid orc) ms f) as [ms1 f1]. cbn [fst snd] in *.
    inversion Hnd as [|? ? Hni Hnd']; subst.
    destruct (f_pan f1) eqn:Hp1.
    + assert (drop_stores_f orc l f1 = f1) as -> by (destruct l as [|[? ?] ?]; cbn [drop_stores_f]; [reflexivity|rewrite Hp1; reflexivity]).
      cbn zeta. split; [apply (LJ_nodup _ _ _ _ _ A)|]. split; [apply (LJ_used_led _ _ _ _ _ A)|assumption].
    + destruct (IH _ _ f1 L0 used A Hp1 Hnd') as [C [D E]].
      { intros s m' Hm. rewrite find_add. destruct (N.eq_dec sid s) as [<-|]; [|apply Hin; right; assumption].
        exfalso. apply Hni. apply (in_map fst) in Hm. assumption. }
      cbn zeta. split; [assumption|]. split; [assumption|congruence].
Qed.

(* ------------------------------------------------------------------ *)
(* one operation of the world machine *)

Definition intro_uids (o : uop) : list N :=
  match o with UCreate cs => comp_uids cs | UInsert _ _ v => [fst v] | _ => [] end.

Fixpoint somes {A} (l : list (option A)) : list A :=
  match l with [] => [] | Some x :: l' => x :: somes l' | None :: l' => somes l' end.

(* the component values an output hands to the caller *)
Definition out_toks (o : uout) : list tok :=
  match o with
  | XIns (InsOld t) => [t]
  | XOptTok (Some t) => [t]
  | XGets l => somes l
  | XJoin l => map snd l
  | XSlice v => slice_toks v
  | _ => []
  end.

(* the one case in which a vacant cell of a DefaultVecStorage ends up holding
   a value that is not the default: see RelP.v *)
Definition orphan_ok (w : uworld) (o : uop) (f : fctx) : Prop :=
  forall sid h v ms e, o = UInsert sid h v -> NM.find sid (uw_stores w) = Some ms -> uhget (uw_hs w) h = Some e ->
    av_alive (ua_view (uw_alloc w)) e = true -> NS.mem (fst e) (ms_mask ms) = false ->
    f_pan (snd (st_insert_f ms (ua_view (uw_alloc w)) e v f)) = true -> P (tnorm ms v).

Definition step_ok (f : fctx) (L0 used : list N) (o : uop) (res : uworld * uout * fctx) : Prop :=
  (exists G', LJ P (uw_stores (fst (fst res))) G' (cx_drops (fx (snd res)) ++ L0) (intro_uids o ++ used)) /\
  cx_stuck (fx (snd res)) = cx_stuck (fx f) /\
  (forall t, In t (out_toks (snd (fst res))) -> real (fst t) = true -> ~ In (fst t) (cx_drops (fx f) ++ L0)).

Lemma step_ok_same w G f L0 used o out : LJ P (uw_stores w) G (cx_drops (fx f) ++ L0) used ->
  (forall t, In t (out_toks out) -> real (fst t) = true -> ~ In (fst t) (cx_drops (fx f) ++ L0)) ->
  step_ok f L0 used o (w, out, f).
Proof.
  intros HJ Ho. unfold step_ok. cbn [fst snd]. split; [|auto]. exists G.
  eapply real_guard_used; [exact HJ|]. intros u _ Hin. apply in_or_app. right. assumption.
Qed.

Lemma own_new k wr u i t : ~ own (ms_new k wr u) (NM.empty tok) i t.
Proof.
  intros [H|[_ [cells [E Hg]]]]; [rewrite find_empty in H; discriminate|].
  cbn [ms_new ms_raw] in E. destruct k; cbn [raw_new] in E; try discriminate. inversion E; subst cells.
  unfold pv_get, pv_empty in Hg. cbn [vlen] in Hg. destruct (N.ltb_spec i 0); [lia|discriminate].
Qed.

Lemma a_alloc_alive a : a_is_alive (fst (a_alloc a)) (snd (a_alloc a)) = true.
Proof.
  assert (forall a2 id, a_is_alive (fst (raise_gen a2 id)) (id, snd (raise_gen a2 id)) = true) as H.
  { intros a2 id. unfold raise_gen, a_is_alive, cur_gen. cbn [fst snd].
    destruct (Z.ltb_spec 0 (gen_at a2 id)) as [Hpos|Hle]; cbn [fst snd].
    - replace (gen_at (set_stuck a2) id) with (gen_at a2 id) by reflexivity.
      destruct (Z.leb_spec (gen_at a2 id) 0); [lia|]. cbn [andb]. destruct (Z.eqb_spec (gen_at a2 id) 0); [lia|]. apply Z.eqb_refl.
    - assert (gen_at (set_gen a2 id (1 - gen_at a2 id)) id = 1 - gen_at a2 id)%Z as ->.
      { unfold gen_at, set_gen. cbn [gens]. rewrite NMF.add_eq_o by reflexivity. reflexivity. }
      destruct (Z.leb_spec (1 - gen_at a2 id) 0); [lia|]. cbn [andb]. destruct (Z.eqb_spec (1 - gen_at a2 id) 0); [lia|]. apply Z.eqb_refl. }
  unfold a_alloc. destruct (pv_pop (pv_truncate (cache a) (clen a))) as [c1 [id|]]; lazy beta iota zeta;
    match goal with |- context [raise_gen ?a2 ?i] => specialize (H a2 i); destruct (raise_gen a2 i) as [a3 g] end; exact H.
Qed.

Lemma extract_sid_perm u : forall l x r, extract_sid u l = Some (x, r) -> Permutation l (x :: r).
Proof.
  induction l as [|y l IH]; intros x r H; cbn [extract_sid] in H; [discriminate|].
  destruct (N.eqb (fst y) u).
  - inversion H; subst. apply Permutation_refl.
  - destruct (extract_sid u l) as [[z r']|] eqn:E; [|discriminate]. inversion H; subst.
    eapply perm_trans; [apply perm_skip; apply (IH _ _ eq_refl)|]. apply perm_swap.
Qed.

Lemma pick_by_sid_perm ord : forall l, Permutation (pick_by_sid ord l) l.
Proof.
  induction ord as [|u ord IH]; intros l; cbn [pick_by_sid]; [apply Permutation_refl|].
  destruct (extract_sid u l) as [[x r]|] eqn:E; [|apply IH].
  eapply perm_trans; [apply perm_skip; apply IH|]. apply Permutation_sym. apply (extract_sid_perm _ _ _ _ E).
Qed.

Lemma drop_world_LJ orc stores G f L0 used :
  LJ P stores G (cx_drops (fx f) ++ L0) used -> f_pan f = false ->
  let f' := drop_stores_f orc (pick_by_sid (o_sids orc) (NM.elements stores)) f in
  LJ P (NM.empty mstore) (NM.empty (NM.t tok)) (cx_drops (fx f') ++ L0) used /\ cx_stuck (fx f') = cx_stuck (fx f).
Proof.
  intros HJ Hp. cbn zeta. pose proof (pick_by_sid_perm (o_sids orc) (NM.elements stores)) as Hperm.
  destruct (drop_stores_LJ orc (pick_by_sid (o_sids orc) (NM.elements stores)) stores G f L0 used HJ Hp) as [A [B C]].
  - eapply Permutation_NoDup; [apply Permutation_map; apply Permutation_sym; exact Hperm|]. apply elements_keys_nodup.
  - intros sid ms Hin. apply in_elements_iff. eapply Permutation_in; eassumption.
  - split; [apply LJ_empty; assumption|assumption].
Qed.

Lemma somes_in {A} (l : list (option A)) x : In x (somes l) <-> In (Some x) l.
Proof.
  induction l as [|[y|] l IH]; cbn [somes In]; [tauto| |].
  - rewrite IH. split; intros [H|H]; auto; [left; congruence|inversion H; auto].
  - rewrite IH. split; [auto|intros [H|H]; [discriminate|assumption]].
Qed.

Theorem ustep_core_ok orc w o f G L0 used :
  LJ P (uw_stores w) G (cx_drops (fx f) ++ L0) used -> f_pan f = false ->
  (is_destroying o = false -> f_arm f = O) ->
  fresh (intro_uids o) used -> orphan_ok w o f ->
  step_ok f L0 used o (ustep_core orc w o f).
Proof.
  intros HJ Hp Harm Hfr Horph. pose proof (LJ_inv P _ _ _ _ HJ) as HW.
  assert (forall sid ms i t, NM.find sid (uw_stores w) = Some ms -> forall m, NM.find sid G = Some m -> own ms m i t ->
            real (fst t) = true -> ~ In (fst t) (cx_drops (fx f) ++ L0)) as Hlive.
  { intros sid ms i t Hs m Hg Ho. apply (LJ_live _ _ _ _ _ HJ sid i t). exists ms, m. auto. }
  unfold ustep_core. destruct o; cbv zeta beta.
  - (* register *)
    cbn [intro_uids] in *. destruct (kind_of sid) as [[k wr]|] eqn:Ek; [|apply (step_ok_same w G); [assumption|intros t []]].
    unfold step_ok, uw_register. rewrite Ek. cbn [fst snd uw_stores out_toks intro_uids app].
    split; [|split; [reflexivity|intros t []]].
    destruct (NM.find sid (uw_stores w)) eqn:Hs; [eauto|].
    exists (NM.add sid (NM.empty tok) G). apply LJ_register; [assumption|assumption| |apply own_new].
    apply MInvP_new. intros ->. reflexivity.
  - (* create *)
    match goal with |- context [forallb ?g cs] => destruct (forallb g cs) eqn:Hall end; [|apply (step_ok_same w G); [assumption|intros t []]].
    pose proof (a_alloc_alive (uw_alloc w)) as Hal. destruct (a_alloc (uw_alloc w)) as [a' e]. cbn [fst snd] in Hal.
    destruct (insert_comps_LJ (ua_view a') e cs (uw_stores w) G f L0 used HJ Hp (Harm eq_refl) Hfr Hal) as [G' [A [B C]]].
    { intros c Hc Hn. rewrite forallb_forall in Hall. specialize (Hall c Hc). cbv beta in Hall. change (@fst NM.key tok c) with (@fst N tok c) in Hall. rewrite Hn in Hall. discriminate. }
    destruct (insert_comps_f (uw_stores w) (ua_view a') e cs f) as [stores f1]. cbn [fst snd] in *.
    unfold step_ok. cbn [fst snd uw_stores intro_uids]. split; [eauto|]. split; [assumption|].
    unfold out_unless_panic. rewrite C. intros t [].
  - (* arm *) apply (step_ok_same w G); [assumption|intros t []].
  - (* clear *)
    destruct (NM.find sid (uw_stores w)) as [ms|] eqn:Hs; [|apply (step_ok_same w G); [assumption|intros t []]].
    destruct (clear_LJ (hord_of sid orc) _ G f L0 used sid ms HJ Hp Hs) as [A [B _]].
    destruct (m_clear_f (hord_of sid orc) ms f) as [ms1 f1]. cbn [fst snd] in *.
    unfold step_ok. cbn [fst snd uw_put uw_with uw_stores intro_uids app]. split; [eauto|]. split; [assumption|].
    unfold out_unless_panic. destruct (f_pan f1); intros t [].
  - (* remove *)
    destruct (NM.find sid (uw_stores w)) as [ms|] eqn:Hs; [|apply (step_ok_same w G); [assumption|intros t []]].
    destruct (uhget (uw_hs w) h) as [e|]; [|apply (step_ok_same w G); [assumption|intros t []]].
    pose proof (remove_LJ _ G f L0 used sid ms (ua_view (uw_alloc w)) e HJ Hp Hs) as X. cbn zeta in X.
    destruct (st_remove_f ms (ua_view (uw_alloc w)) e f) as [[ms1 r] f1]. cbn [fst snd] in *.
    destruct X as [X1 [X2 X3]]. unfold step_ok. cbn [fst snd uw_put uw_with uw_stores intro_uids app out_toks].
    split; [assumption|]. split; [assumption|]. destruct r as [t0|]; [|intros t []]. intros t [<-|[]]. apply X3. reflexivity.
  - (* insert *)
    destruct (NM.find sid (uw_stores w)) as [ms|] eqn:Hs; [|apply (step_ok_same w G); [assumption|intros t []]].
    destruct (uhget (uw_hs w) h) as [e|] eqn:He; [|apply (step_ok_same w G); [assumption|intros t []]].
    cbn [intro_uids] in Hfr. destruct (fresh_cons _ _ _ Hfr) as [Hfv _].
    pose proof (insert_LJ _ G f L0 used sid ms (ua_view (uw_alloc w)) e v HJ Hp Hs Hfv) as X. cbn zeta in X.
    assert (forall m, NM.find sid G = Some m -> av_alive (ua_view (uw_alloc w)) e = true -> NM.find (fst e) m = None ->
              f_pan (snd (st_insert_f ms (ua_view (uw_alloc w)) e v f)) = true -> P (tnorm ms v)) as Ho.
    { intros m Hg Hal Hf Hq. apply (Horph sid h v ms e eq_refl Hs He Hal); [|assumption].
      destruct (WJ_lookup _ _ _ _ HW Hs) as [m' [Hg' HM]]. rewrite Hg in Hg'. inversion Hg'; subst m'.
      rewrite (MP_keys _ _ _ HM), Hf. reflexivity. }
    specialize (X Ho). clear Ho.
    destruct (st_insert_f ms (ua_view (uw_alloc w)) e v f) as [[ms1 r] f1]. cbn [fst snd] in *.
    destruct X as [X1 [X2 [_ [_ X5]]]]. unfold step_ok. cbn [fst snd uw_put uw_with uw_stores intro_uids app].
    split; [assumption|]. split; [assumption|].
    destruct r as [|t0|g].
    + unfold out_unless_panic. destruct (f_pan f1); intros x [].
    + cbn [out_toks]. intros x [<-|[]]. apply X5. reflexivity.
    + unfold out_unless_panic. destruct (f_pan f1); intros x [].
  - (* delete_entity *)
    destruct (uhget (uw_hs w) h) as [e|]; [|apply (step_ok_same w G); [assumption|intros t []]].
    destruct (a_kill true (uw_alloc w) [e]) as [a' r].
    destruct (purge_LJ (map fst (killed_prefix [e] r)) (uw_table w) _ G f L0 used HJ Hp) as [G' [A B]].
    destruct (purge_tbl_f (uw_stores w) (uw_table w) (map fst (killed_prefix [e] r)) f) as [stores f1]. cbn [fst snd] in *.
    unfold step_ok. cbn [fst snd uw_with uw_stores intro_uids app]. split; [eauto|]. split; [assumption|].
    unfold out_unless_panic. destruct (f_pan f1); intros t [].
  - (* delete_entities *)
    destruct (uhget_all (uw_hs w) hs) as [es|]; [|apply (step_ok_same w G); [assumption|intros t []]].
    destruct (a_kill true (uw_alloc w) es) as [a' r].
    destruct (purge_LJ (map fst (killed_prefix es r)) (uw_table w) _ G f L0 used HJ Hp) as [G' [A B]].
    destruct (purge_tbl_f (uw_stores w) (uw_table w) (map fst (killed_prefix es r)) f) as [stores f1]. cbn [fst snd] in *.
    unfold step_ok. cbn [fst snd uw_with uw_stores intro_uids app]. split; [eauto|]. split; [assumption|].
    unfold out_unless_panic. destruct (f_pan f1); intros t [].
  - (* delete_all *)
    destruct (a_kill true (uw_alloc w) (a_entities (uw_alloc w))) as [a' r].
    destruct (purge_LJ (map fst (killed_prefix (a_entities (uw_alloc w)) r)) (uw_table w) _ G f L0 used HJ Hp) as [G' [A B]].
    destruct (purge_tbl_f (uw_stores w) (uw_table w) (map fst (killed_prefix (a_entities (uw_alloc w)) r)) f) as [stores f1].
    cbn [fst snd] in *. unfold step_ok. cbn [fst snd intro_uids app].
    split; [exists G'; destruct r; [destruct (f_pan f1)|]; exact A|]. split; [assumption|].
    unfold out_unless_panic. destruct (f_pan f1); intros t [].
  - (* entities.delete *)
    destruct (uhget (uw_hs w) h) as [e|]; [|apply (step_ok_same w G); [assumption|intros t []]].
    destruct (a_kill_atomic (uw_alloc w) e) as [a' r]. unfold step_ok. cbn [fst snd uw_with uw_stores intro_uids app out_toks].
    split; [eauto|]. split; [reflexivity|intros t []].
  - (* maintain *)
    destruct (a_merge (uw_alloc w)) as [a' deleted].
    assert (exists G', LJ P (fst (purge_tbl_f (uw_stores w) (uw_table w) (map fst deleted) f)) G'
                          (cx_drops (fx (snd (purge_tbl_f (uw_stores w) (uw_table w) (map fst deleted) f))) ++ L0) used /\
                       cx_stuck (fx (snd (purge_tbl_f (uw_stores w) (uw_table w) (map fst deleted) f))) = cx_stuck (fx f)) as X
      by (apply (purge_LJ _ _ _ G); assumption).
    destruct deleted as [|d deleted].
    + unfold step_ok. cbn [fst snd uw_with uw_stores intro_uids app]. split; [eauto|]. split; [reflexivity|].
      unfold out_unless_panic. rewrite Hp. intros t [].
    + destruct (purge_tbl_f (uw_stores w) (uw_table w) (map fst (d :: deleted)) f) as [stores f1]. cbn [fst snd] in *.
      destruct X as [G' [A B]]. unfold step_ok. cbn [fst snd uw_with uw_stores intro_uids app]. split; [eauto|]. split; [assumption|].
      unfold out_unless_panic. destruct (f_pan f1); intros t [].
  - (* drop of one storage *)
    destruct (NM.find sid (uw_stores w)) as [ms|] eqn:Hs; [|apply (step_ok_same w G); [assumption|intros t []]].
    destruct (clear_LJ (hord_of sid orc) _ G f L0 used sid ms HJ Hp Hs) as [A [B _]].
    destruct (m_clear_f (hord_of sid orc) ms f) as [ms1 f1]. cbn [fst snd] in *.
    unfold step_ok. cbn [fst snd uw_with uw_stores intro_uids app out_toks]. split; [|split; [assumption|intros t []]].
    exists (NM.remove sid G). apply (LJ_remove P _ _ _ _ sid) in A.
    eapply (LJ_ext P); [| |exact A].
    + intros j. rewrite !find_remove. destruct (N.eq_dec sid j); [reflexivity|]. rewrite find_add. destruct (N.eq_dec sid j); congruence.
    + intros j. rewrite !find_remove. destruct (N.eq_dec sid j); [reflexivity|]. rewrite find_add. destruct (N.eq_dec sid j); congruence.
  - (* drop of the world *)
    destruct (drop_world_LJ orc _ G f L0 used HJ Hp) as [A B]. unfold step_ok. cbn [fst snd uw_stores intro_uids app out_toks].
    split; [eauto|]. split; [assumption|intros t []].
  - (* mask *)
    destruct (NM.find sid (uw_stores w)) as [ms|] eqn:Hs; (apply (step_ok_same w G); [assumption|intros t []]).
  - (* get *)
    destruct (NM.find sid (uw_stores w)) as [ms|] eqn:Hs; [|apply (step_ok_same w G); [assumption|intros t []]].
    destruct (uhget (uw_hs w) h) as [e|]; [|apply (step_ok_same w G); [assumption|intros t []]].
    destruct (WJ_lookup _ _ _ _ HW Hs) as [m [Hg HM]].
    destruct (st_get_own P ms m (ua_view (uw_alloc w)) e (fx f) HM) as [A B].
    destruct (st_get ms (ua_view (uw_alloc w)) e (fx f)) as [r c1]. cbn [fst snd] in *. subst c1. rewrite f_with_self.
    apply (step_ok_same w G); [assumption|]. cbn [out_toks]. destruct r as [t0|]; [|intros t []]. intros t [<-|[]].
    destruct (B t0 eq_refl) as [Hf _]. apply (Hlive sid ms (fst e) t0 Hs m Hg). left. assumption.
  - (* get of every handle *)
    destruct (NM.find sid (uw_stores w)) as [ms|] eqn:Hs; [|apply (step_ok_same w G); [assumption|intros t []]].
    destruct (WJ_lookup _ _ _ _ HW Hs) as [m [Hg HM]].
    destruct (get_all_own P ms m (ua_view (uw_alloc w)) (rev (uw_hl w)) (fx f) HM) as [A B].
    destruct (get_all ms (ua_view (uw_alloc w)) (rev (uw_hl w)) (fx f)) as [l c1]. cbn [fst snd] in *. subst c1. rewrite f_with_self.
    apply (step_ok_same w G); [assumption|]. cbn [out_toks]. intros t Hin. apply somes_in in Hin.
    clear - B Hin Hlive Hs Hg. induction B as [|e o es l' Ho B IH]; [destruct Hin|].
    destruct Hin as [->|Hin]; [|apply IH; assumption]. destruct (Ho t eq_refl) as [Hf _].
    apply (Hlive sid ms (fst e) t Hs m Hg). left. assumption.
  - (* join *)
    destruct (NM.find sid (uw_stores w)) as [ms|] eqn:Hs; [|apply (step_ok_same w G); [assumption|intros t []]].
    destruct (WJ_lookup _ _ _ _ HW Hs) as [m [Hg HM]].
    destruct (join_own P ms m (fx f) HM) as [A B].
    destruct (join_vals (ms_raw ms) (NS.elements (ms_mask ms)) (fx f)) as [l c1]. cbn [fst snd] in *. subst c1. rewrite f_with_self.
    apply (step_ok_same w G); [assumption|]. cbn [out_toks]. intros t Hin. apply in_map_iff in Hin. destruct Hin as [[i t'] [E Hin]].
    cbn [snd] in E. subst t'. apply (Hlive sid ms i t Hs m Hg). left. apply B. assumption.
  - (* slice *)
    destruct (NM.find sid (uw_stores w)) as [ms|] eqn:Hs; [|apply (step_ok_same w G); [assumption|intros t []]].
    destruct (ms_wrap ms); [|apply (step_ok_same w G); [assumption|intros t []]|apply (step_ok_same w G); [assumption|intros t []]].
    destruct (WJ_lookup _ _ _ _ HW Hs) as [m [Hg HM]].
    destruct (slice_own P ms m (fx f) HM) as [A B].
    destruct (u_slice (ms_raw ms) (NS.elements (ms_mask ms)) (fx f)) as [v c1]. cbn [fst snd] in *. subst c1. rewrite f_with_self.
    apply (step_ok_same w G); [assumption|]. cbn [out_toks]. intros t Hin. destruct (B t Hin) as [i Ho].
    apply (Hlive sid ms i t Hs m Hg Ho).
  - (* count *)
    destruct (NM.find sid (uw_stores w)) as [ms|] eqn:Hs; (apply (step_ok_same w G); [assumption|intros t []]).
  - (* probe *) apply (step_ok_same w G); [assumption|intros t []].
  - (* bad *) apply (step_ok_same w G); [assumption|intros t []].
Qed.

(* the same for [ustep]: the fault plan is the world's *)
Definition plan (w : uworld) (o : uop) : fctx := f_of cx0 (if is_destroying o then uw_arm w else O).

Theorem ustep_ok orc w o G L used :
  LJ P (uw_stores w) G L used -> fresh (intro_uids o) used -> orphan_ok w o (plan w o) ->
  (exists G', LJ P (uw_stores (fst (fst (ustep orc w o)))) G' (cx_drops (fx (snd (ustep orc w o))) ++ L) (intro_uids o ++ used)) /\
  cx_stuck (fx (snd (ustep orc w o))) = false /\
  (forall t, In t (out_toks (snd (fst (ustep orc w o)))) -> real (fst t) = true -> ~ In (fst t) L).
Proof.
  intros HJ Hfr Horph.
  destruct o; try (
    pose proof (ustep_core_ok orc w _ (plan w _) G L used HJ eq_refl (fun H => ltac:(unfold plan; rewrite H; reflexivity)) Hfr Horph) as X;
    unfold ustep; fold (plan w); unfold step_ok in X;
    match goal with |- context [ustep_core orc w ?o ?f] => change f with (plan w o); destruct (ustep_core orc w o (plan w o)) as [[w1 out] f1] end;
    cbn [fst snd set_arm uw_stores] in *; exact X).
  (* arm *)
  cbn [ustep fst snd set_arm uw_stores f_of fx cx0 cx_drops cx_stuck app out_toks intro_uids].
  split; [eauto|]. split; [reflexivity|intros t []].
Qed.

(* ------------------------------------------------------------------ *)
(* whole histories *)

Definition hist_uids (os : list uop) : list N := flat_map intro_uids os.

Lemma fresh_app a b : forall used, fresh (a ++ b) used -> fresh a used /\ fresh b (a ++ used).
Proof.
  induction a as [|u a IH]; intros used H; cbn [app] in *.
  - split; [split; [apply ndr_nil|intros u []]|assumption].
  - destruct (fresh_cons _ _ _ H) as [Hu Hr]. destruct (IH _ Hr) as [[A1 A2] [B1 B2]]. split; [split|split].
    + apply ndr_cons; [assumption|]. intros R Hin. apply (A2 u Hin R). left. reflexivity.
    + intros v [<-|Hv] R; [auto|]. intros Hin. apply (A2 v Hv R). right. assumption.
    + assumption.
    + intros v Hv R Hin. apply (B2 v Hv R). apply in_or_app. destruct Hin as [E|Hin]; [right; left; assumption|].
      apply in_app_or in Hin. destruct Hin as [Hin|Hin]; [left; assumption|right; right; assumption].
Qed.

(* every step of a run satisfies the orphan side condition *)
Fixpoint orphan_run (orcs : list oracle) (w : uworld) (os : list uop) : Prop :=
  match os with
  | [] => True
  | o :: os' =>
      orphan_ok w o (plan w o) /\
      orphan_run (tl orcs) (fst (fst (ustep (match orcs with x :: _ => x | [] => orc0 end) w o))) os'
  end.

Theorem urun_ok os : forall orcs w G L used,
  LJ P (uw_stores w) G L used -> fresh (hist_uids os) used -> orphan_run orcs w os ->
  exists G' used', LJ P (uw_stores (fst (urun orcs w L os))) G' (snd (urun orcs w L os)) used' /\
                   (forall u, In u used' -> In u (hist_uids os) \/ In u used).
Proof.
  induction os as [|o os IH]; intros orcs w G L used HJ Hfr Ho; cbn [urun hist_uids flat_map] in *.
  - exists G, used. cbn [fst snd]. split; [assumption|auto].
  - destruct (fresh_app _ _ _ Hfr) as [F1 F2]. destruct Ho as [Ho1 Ho2].
    set (orc := match orcs with x :: _ => x | [] => orc0 end) in *.
    destruct (ustep_ok orc w o G L used HJ F1 Ho1) as [[G1 A] _].
    destruct (ustep orc w o) as [[w1 out] f1]. cbn [fst snd] in *.
    destruct (IH (tl orcs) w1 G1 _ _ A F2 Ho2) as [G' [used' [B C]]].
    exists G', used'. split; [assumption|].
    intros u Hu. destruct (C u Hu) as [H|H]; [left; apply in_or_app; right; assumption|].
    apply in_app_or in H. destruct H as [H|H]; [left; apply in_or_app; left; assumption|right; assumption].
Qed.

End World.

(* ------------------------------------------------------------------ *)
(* the weak instance: holds after every history, whatever panicked *)

Definition anyP : tok -> Prop := fun _ => True.

Lemma orphan_run_any orcs : forall os w, orphan_run anyP orcs w os.
Proof.
  intros os. revert orcs. induction os as [|o os IH]; intros orcs w; cbn [orphan_run]; [exact I|].
  split; [intros sid h v ms e _ _ _ _ _ _; exact I|apply IH].
Qed.

(* NO DOUBLE DROP, whole histories: whatever the history, the fault positions
   and the oracles, the destruction ledger holds no real uid twice - provided
   the history gives distinct uids to the values it creates *)
Theorem run_no_double_drop orcs os : ndr (hist_uids os) -> ndr (snd (urun orcs uw_init [] os)).
Proof.
  intros H.
  destruct (urun_ok anyP I os orcs uw_init (NM.empty (NM.t tok)) [] [] (LJ_init anyP)) as [G' [used' [A _]]].
  - split; [assumption|intros u _ _ []].
  - apply orphan_run_any.
  - apply (LJ_nodup _ _ _ _ _ A).
Qed.

(* ... and the final teardown (drop of the world, in any order of its resources) destroys nothing again *)
Theorem teardown_no_double_drop orcs orc os : ndr (hist_uids os) ->
  ndr (cx_drops (fx (uw_teardown orc (fst (urun orcs uw_init [] os)))) ++ snd (urun orcs uw_init [] os)).
Proof.
  intros H.
  destruct (urun_ok anyP I os orcs uw_init (NM.empty (NM.t tok)) [] [] (LJ_init anyP)) as [G' [used' [A _]]].
  - split; [assumption|intros u _ _ []].
  - apply orphan_run_any.
  - unfold uw_teardown.
    destruct (drop_world_LJ anyP I orc _ G' (f_of cx0 O) (snd (urun orcs uw_init [] os)) used' A eq_refl) as [B _].
    apply (LJ_nodup _ _ _ _ _ B).
Qed.

(* NO STALE READ: after any history, no output of the next operation - lookup,
   join, slice view, or a value handed back by insert / remove - carries a uid
   that the ledger says was destroyed; and the storage layer is not stuck
   (no out-of-bounds index, no uninitialised read, no unwrap of None) *)
Theorem run_no_stale_read orcs orc os o : ndr (hist_uids (os ++ [o])) ->
  let w := fst (urun orcs uw_init [] os) in
  let L := snd (urun orcs uw_init [] os) in
  (forall t, In t (out_toks (snd (fst (ustep orc w o)))) -> real (fst t) = true -> ~ In (fst t) L) /\
  cx_stuck (fx (snd (ustep orc w o))) = false.
Proof.
  intros H. cbn zeta. unfold hist_uids in H. rewrite flat_map_app in H. cbn [flat_map] in H. rewrite app_nil_r in H.
  assert (fresh (hist_uids os ++ intro_uids o) []) as Hfr by (split; [assumption|intros u _ _ []]).
  destruct (fresh_app _ _ _ Hfr) as [F1 F2].
  destruct (urun_ok anyP I os orcs uw_init (NM.empty (NM.t tok)) [] [] (LJ_init anyP) F1 (orphan_run_any _ _ _)) as [G' [used' [A D]]].
  assert (fresh (intro_uids o) used') as F3.
  { destruct F2 as [F2a F2b]. split; [assumption|]. intros u Hu R Hin. apply (F2b u Hu R).
    destruct (D u Hin) as [X|[]]. rewrite app_nil_r. assumption. }
  destruct (ustep_ok anyP I orc _ o G' _ used' A F3) as [_ [B C]].
  - intros sid h v ms e _ _ _ _ _ _. exact I.
  - split; assumption.
Qed.

(* after any history every storage satisfies the (weak) invariant *)
Theorem run_invariant orcs os : ndr (hist_uids os) ->
  exists G, WJ anyP (uw_stores (fst (urun orcs uw_init [] os))) G.
Proof.
  intros H.
  destruct (urun_ok anyP I os orcs uw_init (NM.empty (NM.t tok)) [] [] (LJ_init anyP)) as [G' [used' [A _]]].
  - split; [assumption|intros u _ _ []].
  - apply orphan_run_any.
  - exists G'. apply (LJ_inv _ _ _ _ _ A).
Qed.

(* ------------------------------------------------------------------ *)
(* what a faulting delete_components leaves behind *)

Section Purge.
Variable P : tok -> Prop.
Hypothesis P_default : P default_tok.

Definition mask_le (ids : list N) (ms ms' : mstore) : Prop :=
  (forall i, NS.mem i (ms_mask ms') = true -> NS.mem i (ms_mask ms) = true) /\
  (forall i, ~ In i ids -> NS.mem i (ms_mask ms') = NS.mem i (ms_mask ms)).

Lemma mask_le_refl ids ms : mask_le ids ms ms.
Proof. split; auto. Qed.

Lemma mask_le_trans ids a b c : mask_le ids a b -> mask_le ids b c -> mask_le ids a c.
Proof. intros [A1 A2] [B1 B2]. split; [auto|]. intros i Hi. rewrite B2, A2; auto. Qed.

(* components are only ever removed, only those of the deleted entities, only
   in storages of the table; if nothing panicked, all of them *)
Lemma purge_masks ids tbl : forall stores G f, WJ P stores G -> f_pan f = false ->
  let stores' := fst (purge_tbl_f stores tbl ids f) in
  let f' := snd (purge_tbl_f stores tbl ids f) in
  (exists G', WJ P stores' G') /\
  (forall sid, match NM.find sid stores, NM.find sid stores' with
               | Some ms, Some ms' => mask_le ids ms ms' /\ (~ In sid tbl -> ms' = ms)
               | None, None => True
               | _, _ => False
               end) /\
  (f_pan f' = false -> forall sid ms', In sid tbl -> NM.find sid stores' = Some ms' ->
     forall i, In i ids -> NS.mem i (ms_mask ms') = false).
Proof.
  induction tbl as [|sid tbl IH]; intros stores G f HW Hp; cbn [purge_tbl_f].
  - cbn [fst snd]. split; [eauto|]. split.
    + intros sid. destruct (NM.find sid stores); [split; [apply mask_le_refl|reflexivity]|exact I].
    + intros _ sid ms' [].
  - rewrite Hp. destruct (NM.find sid stores) as [ms|] eqn:Hs.
    + destruct (WJ_lookup P _ _ _ _ HW Hs) as [m [Hg HM]].
      destruct (m_drop_all_f_spec P P_default ids ms m f HM Hp) as [m' [ds [I1 [I2 [I3 [I4 [I5 [I6 [I7 [I8 [I9 I10]]]]]]]]]]].
      destruct (m_drop_all_f ms ids f) as [ms1 f1]. cbn [fst snd] in *.
      assert (mask_le ids ms ms1) as Hle.
      { split; intros i; rewrite (MP_keys _ _ _ I1), (MP_keys _ _ _ HM), I4.
        - destruct (in_dec N.eq_dec i (map fst ds)); [discriminate|auto].
        - intros Hn. destruct (in_dec N.eq_dec i (map fst ds)) as [Hin|]; [|reflexivity].
          exfalso. apply Hn. apply in_map_iff in Hin. destruct Hin as [[j t] [E Hin]]. cbn [fst] in E. subst j. apply (I3 i t Hin). }
      assert (WJ P (NM.add sid ms1 stores) (NM.add sid m' G)) as HW1.
      { intros s. rewrite !find_add. destruct (N.eq_dec sid s); [assumption|apply HW]. }
      destruct (f_pan f1) eqn:Hp1.
      * rewrite purge_tbl_f_pan by assumption. cbn [fst snd]. split; [eauto|]. split; [|rewrite Hp1; discriminate].
        intros s. rewrite find_add. destruct (N.eq_dec sid s) as [<-|Hne].
        -- rewrite Hs. split; [assumption|]. intros Hn. exfalso. apply Hn. left. reflexivity.
        -- destruct (NM.find s stores); [split; [apply mask_le_refl|reflexivity]|exact I].
      * destruct (IH _ _ f1 HW1 Hp1) as [A [B C]]. cbn zeta in *. split; [assumption|]. split.
        -- intros s. specialize (B s). rewrite find_add in B. destruct (N.eq_dec sid s) as [<-|Hne].
           ++ rewrite Hs. destruct (NM.find sid (fst (purge_tbl_f (NM.add sid ms1 stores) tbl ids f1))) as [ms2|]; [|contradiction].
              destruct B as [B1 B2]. split; [eapply mask_le_trans; eassumption|]. intros Hn. exfalso. apply Hn. left. reflexivity.
           ++ destruct (NM.find s stores); [|assumption].
              destruct (NM.find s (fst (purge_tbl_f (NM.add sid ms1 stores) tbl ids f1))); [|contradiction].
              destruct B as [B1 B2]. split; [assumption|]. intros Hn. apply B2. intros Hin. apply Hn. right. assumption.
        -- intros Hq s ms' [<-|Hin] Hf i Hi; [|apply (C Hq s ms' Hin Hf i Hi)].
           destruct (in_dec N.eq_dec sid tbl) as [Hin|Hn]; [apply (C Hq sid ms' Hin Hf i Hi)|].
           specialize (B sid). rewrite find_add in B. destruct (N.eq_dec sid sid); [|congruence]. rewrite Hf in B.
           destruct B as [_ B2]. rewrite (B2 Hn). rewrite (MP_keys _ _ _ I1).
           destruct (I6 eq_refl) as [I6a _]. rewrite (I6a i Hi). reflexivity.
    + destruct (IH _ _ f HW Hp) as [A [B C]]. cbn zeta in *. split; [assumption|]. split.
      * intros s. specialize (B s). destruct (NM.find s stores) eqn:E; [|assumption].
        destruct (NM.find s (fst (purge_tbl_f stores tbl ids f))); [|contradiction].
        destruct B as [B1 B2]. split; [assumption|]. intros Hn. apply B2. intros Hin. apply Hn. right. assumption.
      * intros Hq s ms' [<-|Hin] Hf i Hi; [|apply (C Hq s ms' Hin Hf i Hi)].
        specialize (B sid). rewrite Hs, Hf in B. contradiction.
Qed.

End Purge.
