(* C19: UnprotectedStorage::clean / MaskedStorage::clear under an armed
   destructor fault, for every raw kind, every content, every fault position:
   which values are visited, in which order, which are destroyed, which are
   leaked, and the invariant of the resulting storage. *)
From SV Require Import Base.ListX Base.PvecFacts Store.Raw Store.RawRefine Store.Masked Store.StoreInv.
From SV Require Import Unwind.Fault Unwind.RelP Unwind.FaultBasics.
From Coq Require Import Permutation SetoidList.

Definition goes_on (hord : option (list N)) (r : raw) : bool :=
  match r with
  | RDense _ | RDefault _ => true
  | RMap _ => match hord with None => true | Some _ => false end
  | _ => false
  end.

(* ------------------------------------------------------------------ *)
(* lists *)

Fixpoint idxs (k : N) (n : nat) : list N := match n with O => [] | S n' => k :: idxs (k + 1) n' end.

Lemma in_idxs n : forall k j, In j (idxs k n) <-> k <= j < k + N.of_nat n.
Proof.
  induction n as [|n IH]; intros k j; cbn [idxs In].
  - split; [intros []|lia].
  - rewrite IH. split; [intros [<-|H]; lia|]. intros H. destruct (N.eq_dec k j); [left; assumption|right; lia].
Qed.

Lemma NoDup_idxs n : forall k, NoDup (idxs k n).
Proof.
  induction n as [|n IH]; intros k; cbn [idxs]; constructor; [|apply IH]. rewrite in_idxs. lia.
Qed.

Lemma pv_elems_aux_all {A} (m : NM.t A) (g : N -> A) n : forall k,
  (forall j, k <= j < k + N.of_nat n -> NM.find j m = Some (g j)) -> pv_elems_aux m k n = map g (idxs k n).
Proof.
  induction n as [|n IH]; intros k H; cbn [pv_elems_aux idxs map]; [reflexivity|].
  rewrite (H k) by lia. f_equal. apply IH. intros j Hj. apply H. lia.
Qed.

Lemma pv_elems_all {A} (v : pvec A) (g : N -> A) :
  (forall j, j < vlen v -> pv_get v j = Some (g j)) -> pv_elems v = map g (idxs 0 (N.to_nat (vlen v))).
Proof.
  intros H. unfold pv_elems. apply pv_elems_aux_all. intros j Hj. rewrite <- pv_get_find by lia. apply H. lia.
Qed.

Lemma NoDup_map_inj {A B} (g : A -> B) l : NoDup l -> (forall a b, In a l -> In b l -> g a = g b -> a = b) -> NoDup (map g l).
Proof.
  induction 1 as [|x l Hx Hnd IH]; intros Hinj; cbn [map]; constructor.
  - intros H. apply in_map_iff in H. destruct H as [y [Hy Hin]].
    assert (y = x) by (apply Hinj; [right; assumption | left; reflexivity | assumption]). subst. contradiction.
  - apply IH. intros a b Ha Hb. apply Hinj; right; assumption.
Qed.

Lemma in_elements_iff {A} (m : NM.t A) i t : In (i, t) (NM.elements m) <-> NM.find i m = Some t.
Proof.
  rewrite <- NMF.find_mapsto_iff, NMF.elements_mapsto_iff, InA_alt. split.
  - intros H. exists (i, t). split; [split; reflexivity | assumption].
  - intros [[j d] [[Hk Hv] Hin]]. cbn in Hk, Hv. subst. assumption.
Qed.

Lemma elements_keys_nodup {A} (m : NM.t A) : NoDup (map fst (NM.elements m)).
Proof.
  pose proof (NM.elements_3w m) as H. induction H as [|[k v] l Hx Hnd IH]; cbn [map]; constructor; [|assumption].
  intros Hin. apply Hx. apply in_map_iff in Hin. destruct Hin as [[k' v'] [E Hin]]. cbn [fst] in E. subst k'.
  apply InA_alt. exists (k, v'). split; [reflexivity|assumption].
Qed.

Lemma extract_uid_perm u : forall l x r, extract_uid u l = Some (x, r) -> Permutation l (x :: r).
Proof.
  induction l as [|y l IH]; intros x r H; cbn [extract_uid] in H; [discriminate|].
  destruct (N.eqb (fst (snd y)) u).
  - inversion H; subst. apply Permutation_refl.
  - destruct (extract_uid u l) as [[z r']|] eqn:E; [|discriminate]. inversion H; subst.
    eapply perm_trans; [apply perm_skip; apply (IH _ _ eq_refl)|]. apply perm_swap.
Qed.

Lemma pick_by_uid_perm ord : forall l, Permutation (pick_by_uid ord l) l.
Proof.
  induction ord as [|u ord IH]; intros l; cbn [pick_by_uid]; [apply Permutation_refl|].
  destruct (extract_uid u l) as [[x r]|] eqn:E; [|apply IH].
  eapply perm_trans; [apply perm_skip; apply IH|]. apply Permutation_sym. apply (extract_uid_perm _ _ _ _ E).
Qed.

Lemma firstn_map {A B} (g : A -> B) k : forall l, firstn k (map g l) = map g (firstn k l).
Proof. induction k as [|k IH]; intros [|x l]; cbn [firstn map]; try reflexivity. f_equal. apply IH. Qed.

Lemma cut_map {A B} (g : A -> B) k l : cut k (map g l) = map g (cut k l).
Proof. destruct k; cbn [cut]; [reflexivity|apply firstn_map]. Qed.

Lemma NoDup_firstn {A} k : forall l : list A, NoDup l -> NoDup (firstn k l).
Proof.
  induction k as [|k IH]; intros [|x l] H; cbn [firstn]; try constructor.
  - inversion H; subst. intros Hin. apply in_firstn in Hin. contradiction.
  - inversion H; subst. apply IH. assumption.
Qed.

Lemma NoDup_cut {A} k (l : list A) : NoDup l -> NoDup (cut k l).
Proof. destruct k; cbn [cut]; [auto|apply NoDup_firstn]. Qed.

(* ------------------------------------------------------------------ *)
(* VecStorage::clean *)

Definition tok_at (m : NM.t tok) (i : N) : tok := match NM.find i m with Some t => t | None => unit_tok end.

Lemma vec_clean_f_spec m ids : forall s f, NoDup ids ->
  (forall i, In i ids -> i < v_len s /\ NM.find i (v_slots s) = Some (SInit (tok_at m i))) ->
  snd (vec_clean_f s ids f) = f_drop_stop f (map (tok_at m) ids).
Proof.
  induction ids as [|i ids IH]; intros s f Hnd H; cbn [vec_clean_f map f_drop_stop]; [reflexivity|].
  destruct (f_pan f); [reflexivity|].
  inversion Hnd as [|? ? Hni Hnd']; subst.
  destruct (H i (or_introl eq_refl)) as [Hlt Hs]. destruct (N.ltb_spec i (v_len s)); [|lia]. rewrite Hs.
  apply IH; [assumption|]. intros j Hj. cbn [v_len v_slots]. destruct (H j (or_intror Hj)) as [A B].
  split; [assumption|]. rewrite find_add. destruct (N.eq_dec i j) as [<-|]; [contradiction|assumption].
Qed.

(* ------------------------------------------------------------------ *)
(* the visit list of a clean, by kind *)

Section Clean.
Variable P : tok -> Prop.

Lemma u_clean_f_spec hord r m mask f :
  rrelP P r m -> NoDup mask -> (forall i, In i mask <-> NM.find i m <> None) -> f_pan f = false ->
  exists cl : list (N * tok),
    NoDup (map fst cl) /\
    (forall i t, In (i, t) cl <-> rown r m i t) /\
    snd (u_clean_f hord r mask f) = (if goes_on hord r then f_drop_all else f_drop_stop) f (map snd cl) /\
    (forall Q, rrelP Q (fst (u_clean_f hord r mask f)) (NM.empty tok)) /\
    (forall i t, ~ rown (fst (u_clean_f hord r mask f)) (NM.empty tok) i t) /\
    (match r with RVec _ | RNull => map fst cl = mask | _ => True end).
Proof.
  intros HR Hnd Hmask Hp.
  assert (forall i t, NM.find i (NM.empty tok) = Some t -> False) as He.
  { intros i t H. rewrite find_empty in H. discriminate. }
  assert (forall (r' : raw), (forall cells, r' = RDefault cells -> vlen cells = 0) ->
            forall i t, ~ rown r' (NM.empty tok) i t) as Hnone.
  { intros r' Hd i t [H|[_ [cells [-> Hg]]]]; [exact (He _ _ H)|].
    pose proof (pv_get_lt _ _ _ Hg) as Hlt. rewrite (Hd cells eq_refl) in Hlt. lia. }
  assert (forall i, In i mask -> NM.find i m = Some (tok_at m i)) as Hat.
  { intros i Hi. apply Hmask in Hi. unfold tok_at. destruct (NM.find i m); [reflexivity|congruence]. }
  assert (NoDup (map fst (map (fun i => (i, tok_at m i)) mask)) /\
          map fst (map (fun i => (i, tok_at m i)) mask) = mask) as [Hnd1 Hfst1].
  { rewrite map_map. cbn [fst]. rewrite map_id. split; [assumption|reflexivity]. }
  assert (forall (r0 : raw), (forall cells, r0 <> RDefault cells) ->
            forall i t, In (i, t) (map (fun i => (i, tok_at m i)) mask) <-> rown r0 m i t) as Hin1.
  { intros r0 Hr0 i t. rewrite in_map_iff. split.
    - intros [j [E Hj]]. inversion E; subst. left. apply Hat. assumption.
    - intros [H|[_ [cells [-> _]]]]; [|exfalso; apply (Hr0 cells); reflexivity].
      exists i. split; [|apply Hmask; congruence]. unfold tok_at. rewrite H. reflexivity. }
  destruct r as [s|s|cells|m'|]; cbn [rrelP rrel] in HR.
  - (* Vec *)
    exists (map (fun i => (i, tok_at m i)) mask). split; [assumption|]. split; [apply Hin1; discriminate|].
    cbn [u_clean_f goes_on]. pose proof (vec_clean_f_spec m mask s f Hnd) as X.
    destruct (vec_clean_f s mask f) as [s' f']. cbn [fst snd] in *. split.
    + rewrite map_map. cbn [snd]. apply X. intros i Hi. apply HR. apply Hat. assumption.
    + split; [intros Q i t H; destruct (He _ _ H)|]. split; [apply Hnone; discriminate|assumption].
  - (* Dense *)
    destruct HR as [H1 [H2 H3]].
    set (e := fun k => match pv_get (d_eid s) k with Some i => i | None => 0 end).
    set (d := fun k => match pv_get (d_data s) k with Some t => t | None => unit_tok end).
    set (pos := idxs 0 (N.to_nat (vlen (d_data s)))).
    assert (forall k, In k pos <-> k < vlen (d_data s)) as Hpos.
    { intros k. unfold pos. rewrite in_idxs. lia. }
    assert (forall k, k < vlen (d_data s) ->
              pv_get (d_eid s) k = Some (e k) /\ pv_get (d_data s) k = Some (d k) /\
              pv_get (d_did s) (e k) = Some k /\ NM.find (e k) m = Some (d k)) as Hk.
    { intros k Hlt. destruct (H2 k Hlt) as [i [t [A [B [C D]]]]]. unfold e, d. rewrite A, B. auto. }
    exists (map (fun k => (e k, d k)) pos). split; [|split; [|split; [|split; [|split; [|exact I]]]]].
    + rewrite map_map. cbn [fst]. apply NoDup_map_inj; [apply NoDup_idxs|].
      intros a b Ha Hb E. apply Hpos in Ha, Hb. destruct (Hk a Ha) as [_ [_ [Ca _]]]. destruct (Hk b Hb) as [_ [_ [Cb _]]].
      rewrite E in Ca. congruence.
    + intros i t. rewrite in_map_iff. split.
      * intros [k [E Hin]]. inversion E; subst. left. apply Hk. apply Hpos. assumption.
      * intros [H|[_ [cells [E _]]]]; [|discriminate].
        destruct (H3 i t H) as [k [A [B C]]]. pose proof (pv_get_lt _ _ _ C) as Hlt. exists k.
        split; [|apply Hpos; assumption]. destruct (Hk k Hlt) as [A' [C' _]]. congruence.
    + cbn [u_clean_f goes_on snd]. rewrite map_map. cbn [snd]. f_equal.
      apply pv_elems_all. intros j Hj. apply Hk. assumption.
    + intros Q. cbn [u_clean_f fst rrelP rrel d_data d_eid d_did]. split; [reflexivity|]. split.
      * intros k Hlt. unfold pv_clear in Hlt; cbn [vlen] in Hlt. lia.
      * intros i t H. destruct (He _ _ H).
    + apply Hnone. cbn [u_clean_f fst]. discriminate.
  - (* Default *)
    destruct HR as [H1 H2].
    set (c := fun k => match pv_get cells k with Some t => t | None => unit_tok end).
    set (pos := idxs 0 (N.to_nat (vlen cells))).
    assert (forall k, In k pos <-> k < vlen cells) as Hpos.
    { intros k. unfold pos. rewrite in_idxs. lia. }
    assert (forall k, k < vlen cells -> pv_get cells k = Some (c k)) as Hk.
    { intros k Hlt. unfold c. destruct (NM.find k m) as [t|] eqn:E.
      - rewrite (H1 k t E). reflexivity.
      - destruct (H2 k Hlt E) as [t [Ht _]]. rewrite Ht. reflexivity. }
    exists (map (fun k => (k, c k)) pos). split; [|split; [|split; [|split; [|split; [|exact I]]]]].
    + rewrite map_map. cbn [fst]. rewrite map_id. apply NoDup_idxs.
    + intros i t. rewrite in_map_iff. split.
      * intros [k [E Hin]]. inversion E; subst. apply Hpos in Hin. pose proof (Hk i Hin) as Hc.
        destruct (NM.find i m) as [t'|] eqn:Ef.
        -- left. rewrite (H1 i t' Ef) in Hc. congruence.
        -- right. split; [assumption|]. exists cells. auto.
      * intros [H|[_ [cells' [E Hg]]]].
        -- pose proof (H1 i t H) as Hg. pose proof (pv_get_lt _ _ _ Hg) as Hlt. exists i.
           split; [|apply Hpos; assumption]. rewrite (Hk i Hlt) in Hg. congruence.
        -- inversion E; subst cells'. pose proof (pv_get_lt _ _ _ Hg) as Hlt. exists i.
           split; [|apply Hpos; assumption]. rewrite (Hk i Hlt) in Hg. congruence.
    + cbn [u_clean_f goes_on snd]. rewrite map_map. cbn [snd]. f_equal. apply pv_elems_all. assumption.
    + intros Q. cbn [u_clean_f fst rrelP]. split.
      * intros i t H. destruct (He _ _ H).
      * intros k Hlt. unfold pv_clear in Hlt; cbn [vlen] in Hlt. lia.
    + apply Hnone. cbn [u_clean_f fst]. intros cells' E. inversion E. reflexivity.
  - (* HashMap / BTreeMap *)
    set (cl := match hord with None => NM.elements m' | Some ord => pick_by_uid ord (NM.elements m') end).
    assert (Permutation cl (NM.elements m')) as Hperm.
    { unfold cl. destruct hord; [apply pick_by_uid_perm|apply Permutation_refl]. }
    exists cl. split; [|split; [|split; [|split; [|split; [|exact I]]]]].
    + eapply Permutation_NoDup; [apply Permutation_map; apply Permutation_sym; exact Hperm|]. apply elements_keys_nodup.
    + intros i t. split.
      * intros H. left. rewrite <- HR. apply in_elements_iff. eapply Permutation_in; eassumption.
      * intros [H|[_ [cells [E _]]]]; [|discriminate]. rewrite <- HR in H. apply in_elements_iff in H.
        eapply Permutation_in; [apply Permutation_sym; exact Hperm|assumption].
    + cbn [u_clean_f goes_on snd]. unfold cl. destruct hord; reflexivity.
    + intros Q. cbn [u_clean_f fst rrelP rrel]. intros i. reflexivity.
    + apply Hnone. cbn [u_clean_f fst]. discriminate.
  - (* Null *)
    exists (map (fun i => (i, tok_at m i)) mask). split; [assumption|]. split; [apply Hin1; discriminate|].
    cbn [u_clean_f goes_on fst snd]. split.
    + rewrite map_map. cbn [snd]. f_equal. apply map_ext_in. intros i Hi. symmetry. apply (HR i). apply Hat. assumption.
    + split; [intros Q i t H; destruct (He _ _ H)|]. split; [apply Hnone; discriminate|assumption].
Qed.

End Clean.

Lemma u_clean_f_null hord r mask f : fst (u_clean_f hord r mask f) = RNull -> r = RNull.
Proof.
  destruct r as [s|s|cells|m'|]; cbn [u_clean_f fst]; auto; try discriminate.
  destruct (vec_clean_f s mask f). discriminate.
Qed.
