(* C19 at the MaskedStorage / Storage level: every destroying operation, with
   the fault armed at any position, for every raw kind and wrapper, every
   mask and content.  Each theorem says: which owned values are destroyed
   (pairwise distinct positions, all owned before), that none of them is
   owned afterwards, what is leaked, and that the resulting storage satisfies
   the invariant [MInvP P] (for the strong instance [P = eq default_tok] this
   is [MInv], so every theorem of Store/StoreInv.v applies to the state after
   the caught panic). *)
From SV Require Import Base.ListX Base.PvecFacts Store.Raw Store.RawRefine Store.Masked Store.StoreInv.
From SV Require Import Unwind.Fault Unwind.UWorld Unwind.RelP Unwind.FaultBasics Unwind.CleanProps.
From Coq Require Import Permutation.

Definition uid_of (p : N * tok) : N := fst (snd p).

Lemma map_uid_of (l : list (N * tok)) : map fst (map snd l) = map uid_of l.
Proof. rewrite map_map. reflexivity. Qed.

Lemma keys_mask_iff ms m i : keys_ok (ms_mask ms) m -> (In i (NS.elements (ms_mask ms)) <-> NM.find i m <> None).
Proof.
  intros Hk. rewrite RawRefine_in_elements, Hk. destruct (NM.find i m); split; congruence.
Qed.

(* ------------------------------------------------------------------ *)
(* MaskedStorage::clear *)

Section Store.
Variable P : tok -> Prop.
Hypothesis P_default : P default_tok.

Theorem m_clear_f_spec hord ms m f : MInvP P ms m -> f_pan f = false ->
  exists cl : list (N * tok),
    let ds := if goes_on hord (ms_raw ms) then cl else cut (f_arm f) cl in
    let ms' := fst (m_clear_f hord ms f) in
    let f' := snd (m_clear_f hord ms f) in
    NoDup (map fst cl) /\ (forall i t, In (i, t) cl <-> own ms m i t) /\
    cx_drops (fx f') = rev (map uid_of ds) ++ cx_drops (fx f) /\
    f_pan f' = fired (f_arm f) (length cl) /\ f_arm f' = (f_arm f - length cl)%nat /\
    cx_stuck (fx f') = cx_stuck (fx f) /\
    MInv ms' (NM.empty tok) /\ (forall i t, ~ own ms' (NM.empty tok) i t) /\
    ms_mask ms' = NS.empty /\ ms_chan ms' = ms_chan ms /\ same_shape ms ms' /\
    (match ms_raw ms with RVec _ | RNull => map fst cl = NS.elements (ms_mask ms) | _ => True end).
Proof.
  intros HM Hp. unfold m_clear_f.
  destruct (u_clean_f_spec P hord (ms_raw ms) m (NS.elements (ms_mask ms)) f (MP_rel _ _ _ HM)
              (RawRefine_nodup _) (fun i => keys_mask_iff ms m i (MP_keys _ _ _ HM)) Hp)
    as [cl [C1 [C2 [C3 [C4 [C5 C6]]]]]].
  pose proof (u_clean_f_null hord (ms_raw ms) (NS.elements (ms_mask ms)) f) as Hnull.
  destruct (u_clean_f hord (ms_raw ms) (NS.elements (ms_mask ms)) f) as [r f']. cbn [fst snd] in *.
  exists cl. cbn zeta. split; [assumption|]. split; [assumption|].
  assert (cx_drops (fx f') = rev (map uid_of (if goes_on hord (ms_raw ms) then cl else cut (f_arm f) cl)) ++ cx_drops (fx f) /\
          f_pan f' = fired (f_arm f) (length cl) /\ f_arm f' = (f_arm f - length cl)%nat /\
          cx_stuck (fx f') = cx_stuck (fx f)) as [D1 [D2 [D3 D4]]].
  { subst f'. destruct (goes_on hord (ms_raw ms)).
    - destruct (f_drop_all_spec (map snd cl) f) as [A [B [_ [D E]]]]. rewrite map_uid_of, map_length in *.
      rewrite Hp in E. auto.
    - destruct (f_drop_stop_spec (map snd cl) f Hp) as [A [B [_ [D E]]]]. rewrite cut_map, map_uid_of, map_length in *. auto. }
  repeat (split; [assumption|]).
  split; [|split; [exact C5|split; [reflexivity|split; [reflexivity|split; [repeat split; reflexivity|exact C6]]]]].
  split; cbn [ms_set ms_mask ms_raw ms_unit].
  - intros i. rewrite find_empty. apply NSF.empty_b.
  - apply rrelP_strong. apply C4.
  - intros _ i t H. rewrite find_empty in H. discriminate.
  - intros Hr. apply (MP_null _ _ _ HM). apply Hnull. assumption.
Qed.

(* ------------------------------------------------------------------ *)
(* MaskedStorage::drop(id) *)

Theorem m_drop_f_spec ms m id f : MInvP P ms m ->
  let ms' := fst (m_drop_f ms id f) in
  let f' := snd (m_drop_f ms id f) in
  match NM.find id m with
  | Some t =>
      MInvP P ms' (NM.remove id m) /\ cx_drops (fx f') = fst t :: cx_drops (fx f) /\
      f_pan f' = f_pan f || Nat.eqb (f_arm f) 1 /\ f_arm f' = (f_arm f - 1)%nat /\
      ms_mask ms' = NS.remove id (ms_mask ms) /\ ms_chan ms' = ms_chan (ms_event ms (ERemoved id)) /\
      (forall i t', own ms' (NM.remove id m) i t' -> (own ms m i t' /\ i <> id) \/ t' = default_tok)
  | None => ms' = ms /\ f' = f
  end /\ cx_stuck (fx f') = cx_stuck (fx f) /\ same_shape ms ms'.
Proof.
  intros HM. pose proof (m_remove_P P P_default ms m id (fx f) HM) as X.
  pose proof (m_remove_kept P ms m id (fx f) HM) as K. unfold m_drop_f, m_remove in *.
  destruct (NS.mem id (ms_mask ms)) eqn:Hmem.
  - destruct (w_remove (ms_set ms (NS.remove id (ms_mask ms)) (ms_raw ms)) id (fx f)) as [[ms1 t] c1].
    destruct X as [X1 [X2 [X3 [X4 [X5 [X6 X7]]]]]]. cbn [fst snd] in *. rewrite <- X1.
    destruct (f_drop_fields (f_with f c1) t) as [A [B [_ [D E]]]]. cbn [f_with fx f_arm f_pan] in *.
    rewrite A, B, D, E, X3, X4. specialize (K eq_refl). auto 12.
  - rewrite (keys_find_none _ _ _ (MP_keys _ _ _ HM) Hmem). cbn [fst snd]. repeat split; reflexivity.
Qed.

Lemma m_drop_all_f_pan ids ms f : f_pan f = true -> m_drop_all_f ms ids f = (ms, f).
Proof. intros H. destruct ids; cbn [m_drop_all_f]; [reflexivity|]. rewrite H. reflexivity. Qed.

Lemma same_shape_refl ms : same_shape ms ms.
Proof. repeat split. Qed.
Lemma same_shape_trans a b c : same_shape a b -> same_shape b c -> same_shape a c.
Proof. intros [A1 [A2 [A3 A4]]] [B1 [B2 [B3 B4]]]. unfold same_shape. rewrite B1, B2, B3, B4. auto. Qed.

(* AnyStorage::drop(&[Entity]): the loop over the entities is abandoned at the panic *)
Theorem m_drop_all_f_spec ids : forall ms m f, MInvP P ms m -> f_pan f = false ->
  let ms' := fst (m_drop_all_f ms ids f) in
  let f' := snd (m_drop_all_f ms ids f) in
  exists (m' : NM.t tok) (ds : list (N * tok)),
    MInvP P ms' m' /\
    NoDup (map fst ds) /\ (forall i t, In (i, t) ds -> NM.find i m = Some t /\ In i ids) /\
    (forall i, NM.find i m' = if in_dec N.eq_dec i (map fst ds) then None else NM.find i m) /\
    cx_drops (fx f') = rev (map uid_of ds) ++ cx_drops (fx f) /\
    (f_pan f' = false -> (forall i, In i ids -> NM.find i m' = None) /\ f_arm f' = (f_arm f - length ds)%nat /\
                          fired (f_arm f) (length ds) = false) /\
    (f_pan f' = true -> length ds = f_arm f /\ f_arm f' = O /\ (1 <= f_arm f)%nat) /\
    cx_stuck (fx f') = cx_stuck (fx f) /\ same_shape ms ms' /\
    (forall i t, own ms' m' i t -> (own ms m i t /\ ~ In i (map fst ds)) \/ t = default_tok).
Proof.
  induction ids as [|i ids IH]; intros ms m f HM Hp; cbn [m_drop_all_f].
  - cbn [fst snd]. exists m, []. cbn [map rev app length In]. rewrite Hp, fired_0.
    split; [assumption|]. split; [apply NoDup_nil|]. split; [intros j t []|].
    split; [intros j; destruct (in_dec N.eq_dec j []) as [[]|]; reflexivity|].
    split; [reflexivity|]. split; [intros _; split; [intros j []|split; [lia|reflexivity]]|].
    split; [discriminate|]. split; [reflexivity|]. split; [apply same_shape_refl|].
    intros j t H. left. split; [assumption|]. intros [].
  - rewrite Hp. pose proof (m_drop_f_spec ms m i f HM) as X. destruct (m_drop_f ms i f) as [ms1 f1]. cbn [fst snd] in X.
    destruct (NM.find i m) as [t|] eqn:Ef.
    + destruct X as [[X1 [X2 [X3 [X4 [X5 [X6 X7]]]]]] [X8 X9]]. rewrite Hp in X3. cbn [orb] in X3.
      destruct (f_pan f1) eqn:Hp1.
      * (* the destructor of this component panicked *)
        rewrite m_drop_all_f_pan by assumption. cbn [fst snd].
        symmetry in X3. apply Nat.eqb_eq in X3.
        exists (NM.remove i m), [(i, t)]. cbn [map fst rev app length uid_of snd].
        split; [assumption|]. split; [constructor; [intros []|constructor]|].
        split; [intros j u [E|[]]; inversion E; subst; split; [assumption|left; reflexivity]|].
        split. { intros j. rewrite find_remove. destruct (in_dec N.eq_dec j [i]) as [[E|[]]|Hn].
                 - subst j. destruct (N.eq_dec i i); congruence.
                 - destruct (N.eq_dec i j) as [E|]; [exfalso; apply Hn; left; assumption|reflexivity]. }
        split; [assumption|]. split; [rewrite Hp1; discriminate|]. split; [intros _; split; [congruence|split; lia]|].
        split; [assumption|]. split; [assumption|].
        intros j u Ho. destruct (X7 j u Ho) as [[A B]|A]; [left|right; assumption].
        split; [assumption|]. intros [E|[]]. congruence.
      * destruct (IH ms1 (NM.remove i m) f1 X1 Hp1) as [m' [ds [I1 [I2 [I3 [I4 [I5 [I6 [I7 [I8 [I9 I10]]]]]]]]]]].
        exists m', ((i, t) :: ds).
        assert (~ In i (map fst ds)) as Hni.
        { intros Hin. apply in_map_iff in Hin. destruct Hin as [[j u] [E Hin]]. cbn [fst] in E. subst j.
          destruct (I3 i u Hin) as [A _]. rewrite find_remove in A. destruct (N.eq_dec i i); congruence. }
        split; [assumption|]. cbn [map fst]. split; [constructor; assumption|].
        split. { intros j u [E|Hin]; [inversion E; subst; split; [assumption|left; reflexivity]|].
                 destruct (I3 j u Hin) as [A B]. rewrite find_remove in A. destruct (N.eq_dec i j); [discriminate|].
                 split; [assumption|right; assumption]. }
        split. { intros j. rewrite I4, find_remove. destruct (in_dec N.eq_dec j (map fst ds)) as [Hin|Hn];
                 destruct (in_dec N.eq_dec j (i :: map fst ds)) as [Hin'|Hn']; try reflexivity.
                 - exfalso. apply Hn'. right. assumption.
                 - destruct Hin' as [E|Hin']; [subst j; destruct (N.eq_dec i i); congruence|contradiction].
                 - destruct (N.eq_dec i j) as [E|]; [exfalso; apply Hn'; left; assumption|reflexivity]. }
        split. { rewrite I5, X2. cbn [map rev uid_of snd fst]. rewrite <- app_assoc. reflexivity. }
        assert (f_arm f <> 1%nat) as Hne by (intros E; rewrite E in X3; discriminate).
        split. { intros Hq. destruct (I6 Hq) as [A [B C]]. split; [|split].
                 - intros j [E|Hj]; [subst j|apply A; assumption]. rewrite I4. destruct (in_dec N.eq_dec i (map fst ds)); [reflexivity|].
                   rewrite find_remove. destruct (N.eq_dec i i); congruence.
                 - rewrite B, X4. cbn [length]. lia.
                 - cbn [length]. rewrite fired_S. rewrite X4 in C. rewrite C. destruct (Nat.eqb_spec (f_arm f) 1); [contradiction|reflexivity]. }
        split. { intros Hq. destruct (I7 Hq) as [A [B C]]. cbn [length]. split; [|split; [assumption|]]; lia. }
        split; [congruence|]. split; [eapply same_shape_trans; eassumption|].
        intros j u Ho. destruct (I10 j u Ho) as [[A B]|A]; [|right; assumption].
        destruct (X7 j u A) as [[C D]|C]; [left|right; assumption]. split; [assumption|].
        intros [E|Hin]; [congruence|contradiction].
    + destruct X as [[-> ->] _].
      destruct (IH ms m f HM Hp) as [m' [ds [I1 [I2 [I3 [I4 [I5 [I6 [I7 [I8 [I9 I10]]]]]]]]]]].
      exists m', ds. repeat (split; [assumption|]).
      split; [intros j u Hin; destruct (I3 j u Hin); split; [assumption|right; assumption]|].
      split; [assumption|]. split; [assumption|].
      split. { intros Hq. destruct (I6 Hq) as [A B]. split; [|assumption]. intros j [E|Hj]; [subst j|apply A; assumption].
               rewrite I4. destruct (in_dec N.eq_dec i (map fst ds)); [reflexivity|assumption]. }
      repeat (split; [assumption|]). assumption.
Qed.

(* ------------------------------------------------------------------ *)
(* UnprotectedStorage::insert of an absent id *)

Lemma u_insert_f_is_default r id v f : is_default (fst (u_insert_f r id v f)) = is_default r.
Proof.
  destruct r as [s|s|cells|m'|]; cbn [u_insert_f u_insert fst]; try reflexivity.
  destruct (N.leb (vlen cells) id).
  - destruct (fill_defaults cells _ (fx f)). reflexivity.
  - destruct (pv_get cells id); reflexivity.
Qed.

Lemma u_insert_f_null r id v f : fst (u_insert_f r id v f) = RNull -> r = RNull.
Proof.
  destruct r as [s|s|cells|m'|]; cbn [u_insert_f u_insert fst]; try discriminate; auto.
  destruct (N.leb (vlen cells) id).
  - destruct (fill_defaults cells _ (fx f)). discriminate.
  - destruct (pv_get cells id); discriminate.
Qed.

Lemma u_insert_f_spec r m id v f : rrelP P r m -> NM.find id m = None -> val_ok r v -> f_pan f = false ->
  let r' := fst (u_insert_f r id v f) in
  let f' := snd (u_insert_f r id v f) in
  (exists ds : list (N * tok),
     (ds = [] \/ exists t0, ds = [(id, t0)] /\ rown r m id t0) /\
     cx_drops (fx f') = rev (map uid_of ds) ++ cx_drops (fx f) /\
     f_pan f' = fired (f_arm f) (length ds) /\ f_arm f' = (f_arm f - length ds)%nat) /\
  cx_stuck (fx f') = cx_stuck (fx f) /\
  (f_pan f' = false -> rrelP P r' (NM.add id v m)) /\
  (f_pan f' = true -> P v -> rrelP P r' m) /\
  (forall i t, rown r' (if f_pan f' then m else NM.add id v m) i t ->
     (rown r m i t /\ i <> id) \/ (i = id /\ t = v) \/ t = default_tok).
Proof.
  intros HR Hf Hv Hp. destruct (is_default r) eqn:Ed.
  - destruct r as [s|s|cells|m'|]; try discriminate. cbn [rrelP u_insert_f] in *. destruct HR as [H1 H2].
    destruct (N.leb_spec (vlen cells) id) as [Hle|Hgt].
    + (* beyond the length: defaults are made, nothing is destroyed *)
      pose proof (fill_defaults_spec (N.to_nat (id - vlen cells)) cells (fx f)) as X.
      destruct (fill_defaults cells (N.to_nat (id - vlen cells)) (fx f)) as [cells' c']. cbn [fst snd] in *.
      destruct X as [X1 [X2 [X3 [X4 X5]]]]. cbn [f_with fx f_pan f_arm]. rewrite Hp.
      assert (vlen cells' = id) as Hlen by lia.
      split; [exists []; cbn [map rev app length]; rewrite fired_0; repeat split; [left; reflexivity|assumption|lia]|].
      split; [assumption|]. split; [|split; [discriminate|]].
      * intros _. split.
        -- intros j t Hj. rewrite find_add in Hj. rewrite pv_get_push_all, Hlen.
           destruct (N.eq_dec id j) as [<-|Hne]; [destruct (N.eq_dec id id); congruence|].
           destruct (N.eq_dec j id); [congruence|]. pose proof (pv_get_lt _ _ _ (H1 j t Hj)). rewrite X4 by assumption. auto.
        -- intros k Hk Hn. unfold pv_push in Hk; cbn [vlen] in Hk. rewrite find_add in Hn.
           destruct (N.eq_dec id k); [discriminate|]. rewrite pv_get_push_all, Hlen. destruct (N.eq_dec k id); [congruence|].
           destruct (N.lt_ge_cases k (vlen cells)); [rewrite X4 by assumption; auto|].
           exists default_tok. split; [apply X5; lia|assumption].
      * intros i t Ho. destruct (N.eq_dec id i) as [<-|Hne].
        -- right. left. split; [reflexivity|]. destruct Ho as [Ho|[Hn _]]; rewrite find_add in *; destruct (N.eq_dec id id); congruence.
        -- destruct Ho as [Ho|[Hn [cc [E Hg]]]]; rewrite find_add in *; destruct (N.eq_dec id i); try congruence.
           ++ left. split; [left; assumption|congruence].
           ++ inversion E; subst cc. rewrite pv_get_push_all, Hlen in Hg. destruct (N.eq_dec i id); [congruence|].
              destruct (N.lt_ge_cases i (vlen cells)) as [Hlt|Hge].
              ** rewrite X4 in Hg by assumption. left. split; [|congruence]. right. split; [assumption|]. eauto.
              ** pose proof (pv_get_lt _ _ _ Hg). rewrite X5 in Hg by lia. right. right. congruence.
    + (* a vacant cell below the length: its value is destroyed, the new one written in any case *)
      destruct (H2 id Hgt Hf) as [t0 [Ht0 Pt0]]. rewrite Ht0. cbn [fst snd].
      destruct (f_drop_fields f t0) as [A [B [_ [D E]]]]. rewrite Hp in E. cbn [orb] in E.
      split. { exists [(id, t0)]. cbn [map rev app length uid_of snd fst]. split; [right; exists t0; split; [reflexivity|]|].
               - right. split; [assumption|]. eauto.
               - rewrite A, D, E, fired_S, fired_0, orb_false_r. auto. }
      split; [assumption|].
      assert (forall mm, (forall i t, NM.find i mm = Some t -> i <> id -> NM.find i m = Some t) ->
                (forall i, i <> id -> NM.find i mm = None -> NM.find i m = None) ->
                (NM.find id mm = None -> P v) -> (forall t, NM.find id mm = Some t -> t = v) ->
                rrelP P (RDefault (pv_set cells id v)) mm) as Hrel.
      { intros mm M1 M2 M3 M4. cbn [rrelP]. split.
        - intros j t Hj. rewrite pv_get_set. destruct (N.eq_dec id j) as [<-|Hne].
          + destruct (N.ltb_spec id (vlen cells)); [|lia]. rewrite (M4 t Hj). reflexivity.
          + assert (j <> id) as Hne' by congruence. pose proof (H1 j t (M1 j t Hj Hne')) as Hg. pose proof (pv_get_lt _ _ _ Hg).
            destruct (N.ltb_spec j (vlen cells)); [assumption|lia].
        - intros k Hk Hn. unfold pv_set in Hk; cbn [vlen] in Hk. rewrite pv_get_set.
          destruct (N.ltb_spec k (vlen cells)); [|lia]. destruct (N.eq_dec id k) as [<-|Hne]; [eauto|].
          apply H2; [assumption|]. apply M2; [congruence|assumption]. }
      split; [|split].
      * intros _. apply Hrel.
        -- intros i t Hi Hne. rewrite find_add in Hi. destruct (N.eq_dec id i); congruence.
        -- intros i Hne Hi. rewrite find_add in Hi. destruct (N.eq_dec id i); congruence.
        -- rewrite find_add. destruct (N.eq_dec id id); congruence.
        -- intros t Ht. rewrite find_add in Ht. destruct (N.eq_dec id id); congruence.
      * intros _ Pv. apply Hrel; auto; congruence.
      * intros i t Ho. destruct (N.eq_dec id i) as [<-|Hne].
        -- right. left. split; [reflexivity|].
           destruct Ho as [Ho|[Hn [cc [Ec Hg]]]].
           ++ destruct (f_pan (f_drop f t0)); [congruence|]. rewrite find_add in Ho. destruct (N.eq_dec id id); congruence.
           ++ inversion Ec; subst cc. rewrite pv_get_set in Hg. destruct (N.ltb_spec id (vlen cells)); [|lia].
              destruct (N.eq_dec id id); congruence.
        -- left. split; [|congruence].
           assert (forall mm, (NM.find i mm = NM.find i m) -> rown (RDefault (pv_set cells id v)) mm i t -> rown (RDefault cells) m i t) as Hk.
           { intros mm Em [Ho'|[Hn [cc [Ec Hg]]]]; [left; congruence|]. inversion Ec; subst cc. rewrite pv_get_set in Hg.
             destruct (N.ltb i (vlen cells)); [|discriminate]. destruct (N.eq_dec id i); [congruence|].
             right. split; [congruence|]. eauto. }
           destruct (f_pan (f_drop f t0)); [apply (Hk m eq_refl Ho)|].
           apply (Hk (NM.add id v m)); [rewrite find_add; destruct (N.eq_dec id i); congruence|exact Ho].
  - (* every other kind: nothing is destroyed *)
    pose proof (u_insert_f_is_default r id v f) as Hd. rewrite Ed in Hd.
    assert (rrel r m) as HR' by (destruct r; try discriminate; exact HR).
    pose proof (u_insert_ref r m id v (fx f) HR' Hf Hv) as [X1 X2].
    assert (u_insert_f r id v f = (fst (u_insert r id v (fx f)), f_with f (snd (u_insert r id v (fx f))))) as Eq.
    { destruct r as [s|s|cells|m'|]; try discriminate; cbn [u_insert_f]; try (destruct (u_insert _ id v (fx f)); reflexivity).
      cbn [u_insert fst snd rrel] in *. rewrite HR', Hf. destruct f; reflexivity. }
    rewrite Eq in *. cbn [fst snd f_with fx f_pan f_arm] in *. rewrite Hp.
    split; [exists []; cbn [map rev app length]; rewrite fired_0; repeat split; [left; reflexivity| |lia]|].
    { destruct r as [s|s|cells|m'|]; try discriminate; cbn [u_insert snd]; try reflexivity.
      cbn [rrel] in HR'. rewrite HR', Hf. reflexivity. }
    split; [assumption|]. split; [intros _; apply rrelP_nondefault; [intros cells E; rewrite E in Hd; discriminate|assumption]|].
    split; [discriminate|].
    intros i t Ho. apply rown_nondefault in Ho; [|assumption]. rewrite find_add in Ho.
    destruct (N.eq_dec id i) as [<-|Hne]; [right; left; split; congruence|]. left. split; [left; assumption|congruence].
Qed.

(* ------------------------------------------------------------------ *)
(* Storage::insert and Storage::remove as the caller sees them *)

Lemma tnorm_idem ms v : tnorm ms (tnorm ms v) = tnorm ms v.
Proof. unfold tnorm. destruct (ms_unit ms); reflexivity. Qed.

Lemma f_with_self f : f_with f (fx f) = f.
Proof. destruct f; reflexivity. Qed.

Theorem st_insert_f_spec ms m av e v0 f : MInvP P ms m -> f_pan f = false ->
  let v := tnorm ms v0 in
  let id := fst e in
  let ms' := fst (fst (st_insert_f ms av e v0 f)) in
  let r := snd (fst (st_insert_f ms av e v0 f)) in
  let f' := snd (st_insert_f ms av e v0 f) in
  cx_stuck (fx f') = cx_stuck (fx f) /\ same_shape ms ms' /\
  (f_arm f = O -> f_arm f' = O /\ f_pan f' = false) /\
  if av_alive av e then
    match NM.find id m with
    | Some old =>
        r = InsOld old /\ MInvP P ms' (NM.add id v m) /\ cx_drops (fx f') = fst old :: cx_drops (fx f) /\
        f_pan f' = Nat.eqb (f_arm f) 1 /\ ms_mask ms' = ms_mask ms /\
        (forall i t, own ms' (NM.add id v m) i t -> (own ms m i t /\ i <> id) \/ (i = id /\ t = v))
    | None =>
        r = InsNew /\
        (exists ds : list (N * tok),
           (ds = [] \/ exists t0, ds = [(id, t0)] /\ own ms m id t0) /\
           cx_drops (fx f') = rev (map uid_of ds) ++ cx_drops (fx f) /\
           f_pan f' = fired (f_arm f) (length ds)) /\
        (f_pan f' = false -> MInvP P ms' (NM.add id v m) /\ ms_mask ms' = NS.add id (ms_mask ms)) /\
        (f_pan f' = true -> (P v -> MInvP P ms' m) /\ ms_mask ms' = ms_mask ms) /\
        (forall i t, own ms' (if f_pan f' then m else NM.add id v m) i t ->
           (own ms m i t /\ i <> id) \/ (i = id /\ t = v) \/ t = default_tok)
    end
  else ms' = ms /\ r = InsErr (av_cur_gen av id) /\ cx_drops (fx f') = fst v :: cx_drops (fx f) /\
       f_pan f' = Nat.eqb (f_arm f) 1.
Proof.
  intros HM Hp. cbn zeta. unfold st_insert_f. destruct (av_alive av e).
  - destruct (NS.mem (fst e) (ms_mask ms)) eqn:Hmem.
    + destruct (keys_find_some _ _ _ (MP_keys _ _ _ HM) Hmem) as [old Hf]. rewrite Hf.
      pose proof (w_access_mut_P P ms m (fst e) old true (USwap (tnorm ms v0)) (fx f) HM Hf (eq_sym (tnorm_idem ms v0))) as X.
      pose proof (w_access_mut_kept P ms m (fst e) old (tnorm ms v0) (fx f) HM Hf) as K.
      destruct (w_access_mut ms (fst e) true (USwap (tnorm ms v0)) (fx f)) as [[ms1 o] c1]. cbn [fst snd upd_map] in *.
      destruct X as [-> [X2 [-> [X4 [X5 X6]]]]].
      destruct (f_drop_fields (f_with f (fx f)) old) as [A [B [_ [D E]]]]. cbn [f_with fx f_arm f_pan] in *.
      rewrite Hp in E. cbn [orb] in E. rewrite A, B, E.
      split; [reflexivity|]. split; [assumption|]. split; [intros Ha; rewrite D, Ha; auto|]. auto 10.
    + pose proof (keys_find_none _ _ _ (MP_keys _ _ _ HM) Hmem) as Hf. rewrite Hf.
      destruct (ms_event_fields ms (EInserted (fst e))) as [E1 [E2 [E3 [E4 [E5 E6]]]]].
      set (ms1 := ms_event ms (EInserted (fst e))) in *. rewrite E2.
      pose proof (u_insert_f_spec (ms_raw ms) m (fst e) (tnorm ms v0) f (MP_rel _ _ _ HM) Hf (tnorm_okP P ms m v0 HM) Hp) as X.
      pose proof (u_insert_f_null (ms_raw ms) (fst e) (tnorm ms v0) f) as Hnull.
      destruct (u_insert_f (ms_raw ms) (fst e) (tnorm ms v0) f) as [r f']. cbn [fst snd] in *.
      destruct X as [[ds [X1 [X2 [X3 X3']]]] [X4 [X5 [X6 X7]]]].
      split; [assumption|]. split; [unfold same_shape; cbn [ms_set ms_wrap ms_emit ms_readers ms_unit]; auto|].
      split; [intros Ha; rewrite X3', X3, Ha; cbn [Nat.sub]; split; [reflexivity|destruct (length ds); reflexivity]|].
      split; [reflexivity|]. split; [exists ds; auto|].
      assert (forall mask mm, keys_ok mask mm -> rrelP P r mm ->
                (forall i t, NM.find i mm = Some t -> NM.find i m = Some t \/ t = tnorm ms v0) ->
                MInvP P (ms_set ms1 mask r) mm) as Hinv.
      { intros mask mm Hk Hr Hsub. split; cbn [ms_set ms_mask ms_raw ms_unit]; try assumption.
        - rewrite E6. intros Hu i t Hi. destruct (Hsub i t Hi) as [H| ->]; [apply (MP_unit _ _ _ HM Hu i t H)|apply tnorm_unit; assumption].
        - rewrite E6. intros Hr0. apply (MP_null _ _ _ HM). apply Hnull. assumption. }
      split; [|split].
      * intros Hq. rewrite Hq. cbn [ms_set ms_mask]. split; [|rewrite E1; reflexivity].
        apply Hinv; [rewrite E1; apply keys_add; apply (MP_keys _ _ _ HM)|apply X5; assumption|].
        intros i t Hi. rewrite find_add in Hi. destruct (N.eq_dec (fst e) i); [right; congruence|left; assumption].
      * intros Hq. rewrite Hq. cbn [ms_set ms_mask]. split; [|exact E1]. intros Pv.
        apply Hinv; [rewrite E1; apply (MP_keys _ _ _ HM)|apply X6; assumption|]. intros i t Hi. left. assumption.
      * unfold own. cbn [ms_set ms_raw]. exact X7.
  - cbn [fst snd]. destruct (f_drop_fields f (tnorm ms v0)) as [A [B [_ [D E]]]]. rewrite Hp in E. cbn [orb] in E.
    split; [assumption|]. split; [apply same_shape_refl|]. split; [intros Ha; rewrite D, E, Ha; auto|]. auto.
Qed.

Theorem st_remove_f_spec ms m av e f : MInvP P ms m -> f_pan f = false ->
  let id := fst e in
  let ms' := fst (fst (st_remove_f ms av e f)) in
  let o := snd (fst (st_remove_f ms av e f)) in
  let f' := snd (st_remove_f ms av e f) in
  cx_stuck (fx f') = cx_stuck (fx f) /\ same_shape ms ms' /\
  if av_alive av e then
    match NM.find id m with
    | Some t =>
        o = Some t /\ MInvP P ms' (NM.remove id m) /\ cx_drops (fx f') = fst t :: cx_drops (fx f) /\
        f_pan f' = Nat.eqb (f_arm f) 1 /\ ms_mask ms' = NS.remove id (ms_mask ms) /\
        (forall i t', own ms' (NM.remove id m) i t' -> (own ms m i t' /\ i <> id) \/ t' = default_tok)
    | None => o = None /\ ms' = ms /\ f' = f
    end
  else o = None /\ ms' = ms /\ f' = f.
Proof.
  intros HM Hp. cbn zeta. unfold st_remove_f, st_remove. destruct (av_alive av e).
  - destruct (NM.find (fst e) m) as [t|] eqn:Hf.
    + assert (NS.mem (fst e) (ms_mask ms) = true) as Hmem by (rewrite (MP_keys _ _ _ HM), Hf; reflexivity).
      pose proof (m_remove_P P P_default ms m (fst e) (fx f) HM) as X.
      pose proof (m_remove_kept P ms m (fst e) (fx f) HM Hmem) as K.
      destruct (m_remove ms (fst e) (fx f)) as [[ms1 o] c1]. cbn [fst snd] in *.
      destruct X as [-> [X2 [X3 [X4 [X5 [X6 X7]]]]]]. rewrite Hf, Hmem in *.
      destruct (f_drop_fields (f_with f c1) t) as [A [B [_ [D E]]]]. cbn [f_with fx f_arm f_pan] in *.
      rewrite Hp in E. cbn [orb] in E. rewrite A, B, E, X3, X4. auto 10.
    + assert (NS.mem (fst e) (ms_mask ms) = false) as Hmem by (rewrite (MP_keys _ _ _ HM), Hf; reflexivity).
      unfold m_remove. rewrite Hmem. cbn [fst snd]. rewrite f_with_self.
      split; [reflexivity|]. split; [apply same_shape_refl|]. auto.
  - cbn [fst snd]. rewrite f_with_self. split; [reflexivity|]. split; [apply same_shape_refl|]. auto.
Qed.

(* ------------------------------------------------------------------ *)
(* what lookups, joins and slice views return: owned values only *)

Theorem st_get_own ms m av e c : MInvP P ms m ->
  snd (st_get ms av e c) = c /\
  forall t, fst (st_get ms av e c) = Some t -> NM.find (fst e) m = Some t /\ av_alive av e = true.
Proof.
  intros HM. unfold st_get, present. destruct (NS.mem (fst e) (ms_mask ms)) eqn:Hmem; cbn [andb].
  - destruct (av_alive av e); [|cbn [fst snd]; split; [reflexivity|discriminate]].
    destruct (keys_find_some _ _ _ (MP_keys _ _ _ HM) Hmem) as [t Hf].
    rewrite (rrelP_get P (ms_raw ms) m (fst e) t c (MP_rel _ _ _ HM) Hf). cbn [fst snd].
    split; [reflexivity|]. intros t' E. inversion E; subst. auto.
  - cbn [fst snd]. split; [reflexivity|discriminate].
Qed.

Lemma get_all_own ms m av es : forall c, MInvP P ms m ->
  snd (get_all ms av es c) = c /\
  Forall2 (fun e o => forall t, o = Some t -> NM.find (fst e) m = Some t /\ av_alive av e = true) es (fst (get_all ms av es c)).
Proof.
  induction es as [|e es IH]; intros c HM; cbn [get_all fst snd]; [split; [reflexivity|constructor]|].
  destruct (st_get_own ms m av e c HM) as [A B]. destruct (st_get ms av e c) as [o c1]. cbn [fst snd] in *. subst c1.
  destruct (IH c HM) as [C D]. destruct (get_all ms av es c) as [l c2]. cbn [fst snd] in *. subst c2.
  split; [reflexivity|]. constructor; assumption.
Qed.

Lemma join_vals_own r m ids : forall c, rrelP P r m -> (forall i, In i ids -> NM.find i m <> None) ->
  join_vals r ids c = (map (fun i => (i, tok_at m i)) ids, c).
Proof.
  induction ids as [|i ids IH]; intros c HR Hin; cbn [join_vals map]; [reflexivity|].
  assert (NM.find i m = Some (tok_at m i)) as Hf.
  { unfold tok_at. destruct (NM.find i m) eqn:E; [reflexivity|]. exfalso. apply (Hin i (or_introl eq_refl)). assumption. }
  rewrite (rrelP_get P r m i _ c HR Hf). rewrite IH; [reflexivity|assumption|]. intros j Hj. apply Hin. right. assumption.
Qed.

Theorem join_own ms m c : MInvP P ms m ->
  snd (join_vals (ms_raw ms) (NS.elements (ms_mask ms)) c) = c /\
  forall i t, In (i, t) (fst (join_vals (ms_raw ms) (NS.elements (ms_mask ms)) c)) -> NM.find i m = Some t.
Proof.
  intros HM. rewrite (join_vals_own (ms_raw ms) m _ c (MP_rel _ _ _ HM)).
  - cbn [fst snd]. split; [reflexivity|]. intros i t Hin. apply in_map_iff in Hin. destruct Hin as [j [E Hj]].
    inversion E; subst i t. apply (keys_mask_iff ms m j (MP_keys _ _ _ HM)) in Hj. unfold tok_at.
    destruct (NM.find j m); [reflexivity|congruence].
  - intros i Hi. apply (keys_mask_iff ms m i (MP_keys _ _ _ HM)). assumption.
Qed.

Definition slice_toks (v : slice_view) : list tok :=
  match v with SliceNone => [] | SliceVec _ l => l | SliceAll l => l end.

Theorem slice_own ms m c : MInvP P ms m ->
  snd (u_slice (ms_raw ms) (NS.elements (ms_mask ms)) c) = c /\
  forall t, In t (slice_toks (fst (u_slice (ms_raw ms) (NS.elements (ms_mask ms)) c))) -> exists i, own ms m i t.
Proof.
  intros HM. pose proof (MP_rel _ _ _ HM) as HR. unfold own. destruct (ms_raw ms) as [s|s|cells|m'|]; cbn [u_slice rrelP] in *.
  - rewrite (vec_slice_ref s m (NS.elements (ms_mask ms)) c HR).
    + cbn [fst snd slice_toks]. split; [reflexivity|]. intros t Hin. apply in_map_iff in Hin. destruct Hin as [i [E Hi]].
      apply (keys_mask_iff ms m i (MP_keys _ _ _ HM)) in Hi. exists i. left. destruct (NM.find i m); congruence.
    + intros i Hi. apply (keys_mask_iff ms m i (MP_keys _ _ _ HM)). assumption.
  - cbn [fst snd slice_toks]. split; [reflexivity|]. intros t Hin. apply in_pv_elems in Hin. destruct Hin as [k Hk].
    destruct HR as [_ [H2 _]]. destruct (H2 k (pv_get_lt _ _ _ Hk)) as [i [t' [_ [B [_ D]]]]]. exists i. left. congruence.
  - cbn [fst snd slice_toks]. split; [reflexivity|]. intros t Hin. apply in_pv_elems in Hin. destruct Hin as [k Hk].
    exists k. destruct HR as [H1 _]. destruct (NM.find k m) as [t'|] eqn:E.
    + left. rewrite (H1 k t' E) in Hk. congruence.
    + right. split; [assumption|]. eauto.
  - cbn [fst snd slice_toks]. split; [reflexivity|]. intros t [].
  - cbn [fst snd slice_toks]. split; [reflexivity|]. intros t [].
Qed.

End Store.
