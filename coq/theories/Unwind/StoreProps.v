(* C19 at the MaskedStorage / Storage level: every destroying operation, with
   the fault armed at any position, for every raw kind and wrapper, every
   mask and content.  Each theorem says: which owned values are destroyed
   (pairwise distinct positions, all owned before), that none of them is
   owned afterwards, what is leaked, and that the resulting storage satisfies
   the invariant [MInvP P] (for the strong instance [P = eq default_tok] this
   is [MInv], so every theorem of Store/StoreInv.v applies to the state after
   the caught panic). *)
From SV Require Import Base.ListX Base.PvecFacts Store.Raw Store.RawRefine Store.Masked Store.StoreInv.
From SV Require Import Unwind.Fault Unwind.RelP Unwind.FaultBasics Unwind.CleanProps.
From Coq Require Import Permutation.

Definition uid_of (p : N * tok) : N := fst (snd p).

Lemma map_uid_of (l : list (N * tok)) : map fst (map snd l) = map uid_of l.
Proof. rewrite map_map. reflexivity. Qed.

Lemma keys_mask_iff ms m i : keys_ok (ms_mask ms) m -> (In i (NS.elements (ms_mask ms)) <-> NM.find i m <> None).
Proof.
  intros Hk. rewrite RawRefine_in_elements, Hk. destruct (NM.find i m); split; congruence.
Qed.

(* ------------------------------------------------------------------ *)
(* MaskedStorage::clear *)

Section Store.
Variable P : tok -> Prop.
Hypothesis P_default : P default_tok.

Theorem m_clear_f_spec hord ms m f : MInvP P ms m -> f_pan f = false ->
  exists cl : list (N * tok),
    let ds := if goes_on hord (ms_raw ms) then cl else cut (f_arm f) cl in
    let ms' := fst (m_clear_f hord ms f) in
    let f' := snd (m_clear_f hord ms f) in
    NoDup (map fst cl) /\ (forall i t, In (i, t) cl <-> own ms m i t) /\
    cx_drops (fx f') = rev (map uid_of ds) ++ cx_drops (fx f) /\
    f_pan f' = fired (f_arm f) (length cl) /\ f_arm f' = (f_arm f - length cl)%nat /\
    cx_stuck (fx f') = cx_stuck (fx f) /\
    MInv ms' (NM.empty tok) /\ (forall i t, ~ own ms' (NM.empty tok) i t) /\
    ms_mask ms' = NS.empty /\ ms_chan ms' = ms_chan ms /\ same_shape ms ms' /\
    (match ms_raw ms with RVec _ | RNull => map fst cl = NS.elements (ms_mask ms) | _ => True end).
Proof.
  intros HM Hp. unfold m_clear_f.
  destruct (u_clean_f_spec P hord (ms_raw ms) m (NS.elements (ms_mask ms)) f (MP_rel _ _ _ HM)
              (RawRefine_nodup _) (fun i => keys_mask_iff ms m i (MP_keys _ _ _ HM)) Hp)
    as [cl [C1 [C2 [C3 [C4 [C5 C6]]]]]].
  pose proof (u_clean_f_null hord (ms_raw ms) (NS.elements (ms_mask ms)) f) as Hnull.
  destruct (u_clean_f hord (ms_raw ms) (NS.elements (ms_mask ms)) f) as [r f']. cbn [fst snd] in *.
  exists cl. cbn zeta. split; [assumption|]. split; [assumption|].
  assert (cx_drops (fx f') = rev (map uid_of (if goes_on hord (ms_raw ms) then cl else cut (f_arm f) cl)) ++ cx_drops (fx f) /\
          f_pan f' = fired (f_arm f) (length cl) /\ f_arm f' = (f_arm f - length cl)%nat /\
          cx_stuck (fx f') = cx_stuck (fx f)) as [D1 [D2 [D3 D4]]].
  { subst f'. destruct (goes_on hord (ms_raw ms)).
    - destruct (f_drop_all_spec (map snd cl) f) as [A [B [_ [D E]]]]. rewrite map_uid_of, map_length in *.
      rewrite Hp in E. auto.
    - destruct (f_drop_stop_spec (map snd cl) f Hp) as [A [B [_ [D E]]]]. rewrite cut_map, map_uid_of, map_length in *. auto. }
  repeat (split; [assumption|]).
  split; [|split; [exact C5|split; [reflexivity|split; [reflexivity|split; [repeat split; reflexivity|exact C6]]]]].
  split; cbn [ms_set ms_mask ms_raw ms_unit].
  - intros i. rewrite find_empty. apply NSF.empty_b.
  - apply rrelP_strong. apply C4.
  - intros _ i t H. rewrite find_empty in H. discriminate.
  - intros Hr. apply (MP_null _ _ _ HM). apply Hnull. assumption.
Qed.

(* ------------------------------------------------------------------ *)
(* MaskedStorage::drop(id) *)

Theorem m_drop_f_spec ms m id f : MInvP P ms m ->
  let ms' := fst (m_drop_f ms id f) in
  let f' := snd (m_drop_f ms id f) in
  match NM.find id m with
  | Some t =>
      MInvP P ms' (NM.remove id m) /\ cx_drops (fx f') = fst t :: cx_drops (fx f) /\
      f_pan f' = f_pan f || Nat.eqb (f_arm f) 1 /\ f_arm f' = (f_arm f - 1)%nat /\
      ms_mask ms' = NS.remove id (ms_mask ms) /\ ms_chan ms' = ms_chan (ms_event ms (ERemoved id)) /\
      (forall i t', own ms' (NM.remove id m) i t' -> (own ms m i t' /\ i <> id) \/ t' = default_tok)
  | None => ms' = ms /\ f' = f
  end /\ cx_stuck (fx f') = cx_stuck (fx f) /\ same_shape ms ms'.
Proof.
  intros HM. pose proof (m_remove_P P P_default ms m id (fx f) HM) as X.
  pose proof (m_remove_kept P ms m id (fx f) HM) as K. unfold m_drop_f, m_remove in *.
  destruct (NS.mem id (ms_mask ms)) eqn:Hmem.
  - destruct (w_remove (ms_set ms (NS.remove id (ms_mask ms)) (ms_raw ms)) id (fx f)) as [[ms1 t] c1].
    destruct X as [X1 [X2 [X3 [X4 [X5 [X6 X7]]]]]]. cbn [fst snd] in *. rewrite <- X1.
    destruct (f_drop_fields (f_with f c1) t) as [A [B [_ [D E]]]]. cbn [f_with fx f_arm f_pan] in *.
    rewrite A, B, D, E, X3, X4. specialize (K eq_refl). auto 12.
  - rewrite (keys_find_none _ _ _ (MP_keys _ _ _ HM) Hmem). cbn [fst snd]. repeat split; reflexivity.
Qed.

Lemma m_drop_all_f_pan ids ms f : f_pan f = true -> m_drop_all_f ms ids f = (ms, f).
Proof. intros H. destruct ids; cbn [m_drop_all_f]; [reflexivity|]. rewrite H. reflexivity. Qed.

Lemma same_shape_refl ms : same_shape ms ms.
Proof. repeat split. Qed.
Lemma same_shape_trans a b c : same_shape a b -> same_shape b c -> same_shape a c.
Proof. intros [A1 [A2 [A3 A4]]] [B1 [B2 [B3 B4]]]. unfold same_shape. rewrite B1, B2, B3, B4. auto. Qed.

(* AnyStorage::drop(&[Entity]): the loop over the entities is abandoned at the panic *)
Theorem m_drop_all_f_spec ids : forall ms m f, MInvP P ms m -> f_pan f = false ->
  let ms' := fst (m_drop_all_f ms ids f) in
  let f' := snd (m_drop_all_f ms ids f) in
  exists (m' : NM.t tok) (ds : list (N * tok)),
    MInvP P ms' m' /\
    NoDup (map fst ds) /\ (forall i t, In (i, t) ds -> NM.find i m = Some t /\ In i ids) /\
    (forall i, NM.find i m' = if in_dec N.eq_dec i (map fst ds) then None else NM.find i m) /\
    cx_drops (fx f') = rev (map uid_of ds) ++ cx_drops (fx f) /\
    (f_pan f' = false -> (forall i, In i ids -> NM.find i m' = None) /\ f_arm f' = (f_arm f - length ds)%nat /\
                          fired (f_arm f) (length ds) = false) /\
    (f_pan f' = true -> length ds = f_arm f /\ f_arm f' = O /\ (1 <= f_arm f)%nat) /\
    cx_stuck (fx f') = cx_stuck (fx f) /\ same_shape ms ms' /\
    (forall i t, own ms' m' i t -> (own ms m i t /\ ~ In i (map fst ds)) \/ t = default_tok).
Proof.
  induction ids as [|i ids IH]; intros ms m f HM Hp; cbn [m_drop_all_f].
  - cbn [fst snd]. exists m, []. cbn [map rev app length In]. rewrite Hp, fired_0.
    split; [assumption|]. split; [apply NoDup_nil|]. split; [intros j t []|].
    split; [intros j; destruct (in_dec N.eq_dec j []) as [[]|]; reflexivity|].
    split; [reflexivity|]. split; [intros _; split; [intros j []|split; [lia|reflexivity]]|].
    split; [discriminate|]. split; [reflexivity|]. split; [apply same_shape_refl|].
    intros j t H. left. split; [assumption|]. intros [].
  - rewrite Hp. pose proof (m_drop_f_spec ms m i f HM) as X. destruct (m_drop_f ms i f) as [ms1 f1]. cbn [fst snd] in X.
    destruct (NM.find i m) as [t|] eqn:Ef.
    + destruct X as [[X1 [X2 [X3 [X4 [X5 [X6 X7]]]]]] [X8 X9]]. rewrite Hp in X3. cbn [orb] in X3.
      destruct (f_pan f1) eqn:Hp1.
      * (* the destructor of this component panicked *)
        rewrite m_drop_all_f_pan by assumption. cbn [fst snd].
        symmetry in X3. apply Nat.eqb_eq in X3.
        exists (NM.remove i m), [(i, t)]. cbn [map fst rev app length uid_of snd].
        split; [assumption|]. split; [constructor; [intros []|constructor]|].
        split; [intros j u [E|[]]; inversion E; subst; split; [assumption|left; reflexivity]|].
        split. { intros j. rewrite find_remove. destruct (in_dec N.eq_dec j [i]) as [[E|[]]|Hn].
                 - subst j. destruct (N.eq_dec i i); congruence.
                 - destruct (N.eq_dec i j) as [E|]; [exfalso; apply Hn; left; assumption|reflexivity]. }
        split; [assumption|]. split; [rewrite Hp1; discriminate|]. split; [intros _; split; [congruence|split; lia]|].
        split; [assumption|]. split; [assumption|].
        intros j u Ho. destruct (X7 j u Ho) as [[A B]|A]; [left|right; assumption].
        split; [assumption|]. intros [E|[]]. congruence.
      * destruct (IH ms1 (NM.remove i m) f1 X1 Hp1) as [m' [ds [I1 [I2 [I3 [I4 [I5 [I6 [I7 [I8 [I9 I10]]]]]]]]]]].
        exists m', ((i, t) :: ds).
        assert (~ In i (map fst ds)) as Hni.
        { intros Hin. apply in_map_iff in Hin. destruct Hin as [[j u] [E Hin]]. cbn [fst] in E. subst j.
          destruct (I3 i u Hin) as [A _]. rewrite find_remove in A. destruct (N.eq_dec i i); congruence. }
        split; [assumption|]. cbn [map fst]. split; [constructor; assumption|].
        split. { intros j u [E|Hin]; [inversion E; subst; split; [assumption|left; reflexivity]|].
                 destruct (I3 j u Hin) as [A B]. rewrite find_remove in A. destruct (N.eq_dec i j); [discriminate|].
                 split; [assumption|right; assumption]. }
        split. { intros j. rewrite I4, find_remove. destruct (in_dec N.eq_dec j (map fst ds)) as [Hin|Hn];
                 destruct (in_dec N.eq_dec j (i :: map fst ds)) as [Hin'|Hn']; try reflexivity.
                 - exfalso. apply Hn'. right. assumption.
                 - destruct Hin' as [E|Hin']; [subst j; destruct (N.eq_dec i i); congruence|contradiction].
                 - destruct (N.eq_dec i j) as [E|]; [exfalso; apply Hn'; left; assumption|reflexivity]. }
        split. { rewrite I5, X2. cbn [map rev uid_of snd fst]. rewrite <- app_assoc. reflexivity. }
        assert (f_arm f <> 1%nat) as Hne by (intros E; rewrite E in X3; discriminate).
        split. { intros Hq. destruct (I6 Hq) as [A [B C]]. split; [|split].
                 - intros j [E|Hj]; [subst j|apply A; assumption]. rewrite I4. destruct (in_dec N.eq_dec i (map fst ds)); [reflexivity|].
                   rewrite find_remove. destruct (N.eq_dec i i); congruence.
                 - rewrite B, X4. cbn [length]. lia.
                 - cbn [length]. rewrite fired_S. rewrite X4 in C. rewrite C. destruct (Nat.eqb_spec (f_arm f) 1); [contradiction|reflexivity]. }
        split. { intros Hq. destruct (I7 Hq) as [A [B C]]. cbn [length]. split; [|split; [assumption|]]; lia. }
        split; [congruence|]. split; [eapply same_shape_trans; eassumption|].
        intros j u Ho. destruct (I10 j u Ho) as [[A B]|A]; [|right; assumption].
        destruct (X7 j u A) as [[C D]|C]; [left|right; assumption]. split; [assumption|].
        intros [E|Hin]; [congruence|contradiction].
    + destruct X as [[-> ->] _].
      destruct (IH ms m f HM Hp) as [m' [ds [I1 [I2 [I3 [I4 [I5 [I6 [I7 [I8 [I9 I10]]]]]]]]]]].
      exists m', ds. repeat (split; [assumption|]).
      split; [intros j u Hin; destruct (I3 j u Hin); split; [assumption|right; assumption]|].
      split; [assumption|]. split; [assumption|].
      split. { intros Hq. destruct (I6 Hq) as [A B]. split; [|assumption]. intros j [E|Hj]; [subst j|apply A; assumption].
               rewrite I4. destruct (in_dec N.eq_dec i (map fst ds)); [reflexivity|assumption]. }
      repeat (split; [assumption|]). assumption.
Qed.

End Store.
