(* C19: the abstract-map invariant of Store/RawRefine.v / Store/StoreInv.v
   with one degree of freedom: what a vacant cell (below the length) of a
   DefaultVecStorage may hold.  [P = eq default_tok] is exactly [rrel]/[MInv]
   (rrelP_strong, MInvP_strong); [P = fun _ => True] is what survives EVERY
   caught panic: when the destructor of the default value of a vacant cell
   panics inside DefaultVecStorage::insert, the new value has already been
   written (`*cell = v`) but the mask bit is not set - the cell then holds a
   live value that no lookup returns, that the slice shows, and that the next
   clean destroys once.  For every other kind rrelP is rrel. *)
From SV Require Import Base.ListX Base.PvecFacts Store.Raw Store.RawRefine Store.Masked Store.StoreInv.

(* the values a storage owns, by index: its components, and for a
   DefaultVecStorage also what its vacant cells hold *)
Definition rown (r : raw) (m : NM.t tok) (i : N) (t : tok) : Prop :=
  NM.find i m = Some t \/
  (NM.find i m = None /\ exists cells, r = RDefault cells /\ pv_get cells i = Some t).
Definition own (ms : mstore) (m : NM.t tok) : N -> tok -> Prop := rown (ms_raw ms) m.

Definition is_default (r : raw) : bool := match r with RDefault _ => true | _ => false end.

Lemma rown_nondefault r m i t : is_default r = false -> (rown r m i t <-> NM.find i m = Some t).
Proof.
  intros H. split; [|intros; left; assumption]. intros [H1|[_ [cells [-> _]]]]; [assumption|discriminate].
Qed.

Lemma u_remove_is_default r i c : is_default (fst (fst (u_remove r i c))) = is_default r.
Proof.
  destruct r as [s|s|cells|m'|]; cbn [u_remove]; try reflexivity.
  - destruct (N.ltb i (v_len s)); [destruct (NM.find i (v_slots s)) as [[|]|]|]; reflexivity.
  - destruct (pv_get (d_did s) i) as [d|]; [|reflexivity]. destruct (pv_last (d_eid s)) as [l|]; [|reflexivity].
    destruct (N.ltb l (vlen (d_did s))); [|reflexivity].
    destruct (pv_swap_remove (d_eid s) d) as [e' [x|]]; destruct (pv_swap_remove (d_data s) d) as [d' [y|]]; reflexivity.
  - destruct (pv_get cells i); reflexivity.
  - destruct (NM.find i m'); reflexivity.
Qed.

Lemma u_write_is_default r i v c : is_default (fst (u_write r i v c)) = is_default r.
Proof.
  destruct r as [s|s|cells|m'|]; cbn [u_write]; try reflexivity.
  - destruct (N.ltb i (v_len s)); [destruct (NM.find i (v_slots s)) as [[|]|]|]; reflexivity.
  - destruct (pv_get (d_did s) i) as [d|]; [destruct (pv_get (d_data s) d)|]; reflexivity.
  - destruct (pv_get cells i); reflexivity.
  - destruct (NM.find i m'); reflexivity.
Qed.

Section RelP.
Variable P : tok -> Prop.
Hypothesis P_default : P default_tok.

Definition rrelP (r : raw) (m : NM.t tok) : Prop :=
  match r with
  | RDefault cells =>
      (forall i t, NM.find i m = Some t -> pv_get cells i = Some t) /\
      (forall k, k < vlen cells -> NM.find k m = None -> exists t, pv_get cells k = Some t /\ P t)
  | _ => rrel r m
  end.

Record MInvP (ms : mstore) (m : NM.t tok) : Prop := {
  MP_keys : keys_ok (ms_mask ms) m;
  MP_rel : rrelP (ms_raw ms) m;
  MP_unit : ms_unit ms = true -> forall i t, NM.find i m = Some t -> t = unit_tok;
  MP_null : ms_raw ms = RNull -> ms_unit ms = true }.

Lemma rrelP_new k : rrelP (raw_new k) (NM.empty tok).
Proof.
  pose proof (rrel_new k) as H. destruct k; cbn [raw_new rrelP] in *; try exact H.
  destruct H as [H1 H2]. split; [exact H1|]. intros j Hj. unfold pv_empty in Hj; cbn [vlen] in Hj. lia.
Qed.

Lemma MInvP_new k w u : (k = KNull -> u = true) -> MInvP (ms_new k w u) (NM.empty tok).
Proof.
  intros Hk. split; cbn [ms_new ms_mask ms_raw ms_unit].
  - intros i. rewrite find_empty. apply NSF.empty_b.
  - apply rrelP_new.
  - intros _ i t H. rewrite find_empty in H. discriminate.
  - destruct k; cbn; try discriminate. intros _. apply Hk. reflexivity.
Qed.

(* ---- raw level ---- *)

Lemma rrelP_get r m i t c : rrelP r m -> NM.find i m = Some t -> u_get r i c = (t, c).
Proof.
  intros HR Hf. destruct r as [s|s|cells|m'|]; try exact (u_get_ref _ m i t c HR Hf).
  cbn [rrelP u_get] in *. destruct HR as [H1 _]. rewrite (H1 i t Hf). reflexivity.
Qed.

Lemma rrelP_write r m i t v c : rrelP r m -> NM.find i m = Some t -> val_ok r v ->
  rrelP (fst (u_write r i v c)) (NM.add i v m) /\ snd (u_write r i v c) = c.
Proof.
  intros HR Hf Hv.
  destruct r as [s|s|cells|m'|].
  - pose proof (u_write_ref _ m i t v c HR Hf Hv) as X. cbn [u_write] in *.
    destruct (N.ltb i (v_len s)); [destruct (NM.find i (v_slots s)) as [[|]|]|]; exact X.
  - pose proof (u_write_ref _ m i t v c HR Hf Hv) as X. cbn [u_write] in *.
    destruct (pv_get (d_did s) i) as [d|]; [destruct (pv_get (d_data s) d)|]; exact X.
  - cbn [rrelP u_write] in *. destruct HR as [H1 H2]. rewrite (H1 i t Hf). cbn [fst snd rrelP]. split; [|reflexivity].
    pose proof (pv_get_lt _ _ _ (H1 i t Hf)) as Hi. split.
    + intros j u Hj. rewrite find_add in Hj. rewrite pv_get_set. destruct (N.eq_dec i j) as [<-|Hne].
      * destruct (N.ltb_spec i (vlen cells)); [assumption|lia].
      * pose proof (pv_get_lt _ _ _ (H1 j u Hj)). destruct (N.ltb_spec j (vlen cells)); [auto|lia].
    + intros k Hk Hn. unfold pv_set in Hk; cbn [vlen] in Hk. rewrite find_add in Hn.
      destruct (N.eq_dec i k) as [|Hik]; [discriminate|]. rewrite pv_get_set.
      destruct (N.ltb_spec k (vlen cells)); [|lia]. destruct (N.eq_dec i k); [congruence|auto].
  - pose proof (u_write_ref _ m i t v c HR Hf Hv) as X. cbn [u_write] in *. destruct (NM.find i m'); exact X.
  - exact (u_write_ref _ m i t v c HR Hf Hv).
Qed.

Lemma rrelP_nondefault r m : (forall cells, r <> RDefault cells) -> rrel r m -> rrelP r m.
Proof. destruct r; cbn [rrelP]; auto. intros H. exfalso. apply (H cells). reflexivity. Qed.

Lemma u_remove_keeps_default r i c cells' : fst (fst (u_remove r i c)) = RDefault cells' -> exists cells, r = RDefault cells.
Proof.
  destruct r as [s|s|cells|m'|]; cbn [u_remove]; eauto.
  - destruct (N.ltb i (v_len s)); [destruct (NM.find i (v_slots s)) as [[|]|]|]; discriminate.
  - destruct (pv_get (d_did s) i) as [d|]; [|discriminate]. destruct (pv_last (d_eid s)) as [l|]; [|discriminate].
    destruct (N.ltb l (vlen (d_did s))); [|discriminate].
    destruct (pv_swap_remove (d_eid s) d) as [e' [x|]]; destruct (pv_swap_remove (d_data s) d) as [d' [y|]]; discriminate.
  - destruct (NM.find i m'); discriminate.
Qed.

Lemma rrelP_remove r m i t c : rrelP r m -> NM.find i m = Some t ->
  let '(r', t', c') := u_remove r i c in
  t' = t /\ rrelP r' (NM.remove i m) /\ cx_stuck c' = cx_stuck c /\ cx_drops c' = cx_drops c.
Proof.
  intros HR Hf.
  destruct r as [s|s|cells|m'|].
  3: { cbn [rrelP u_remove] in *. destruct HR as [H1 H2]. rewrite (H1 i t Hf).
    pose proof (pv_get_lt _ _ _ (H1 i t Hf)) as Hi.
    split; [reflexivity|]. split; [|cbn; auto]. cbn [rrelP]. split.
    + intros j u Hj. rewrite find_remove in Hj. destruct (N.eq_dec i j) as [|Hij]; [discriminate|].
      rewrite pv_get_set. pose proof (pv_get_lt _ _ _ (H1 j u Hj)). destruct (N.ltb_spec j (vlen cells)); [|lia].
      destruct (N.eq_dec i j); [congruence|auto].
    + intros k Hk Hn. unfold pv_set in Hk; cbn [vlen] in Hk. rewrite find_remove in Hn. rewrite pv_get_set.
      destruct (N.ltb_spec k (vlen cells)); [|lia]. destruct (N.eq_dec i k); [eauto|auto]. }
  all: lazymatch goal with |- context [u_remove ?r _ _] =>
         pose proof (u_remove_ref r m i t c HR Hf) as X; pose proof (u_remove_keeps_default r i c) as Y;
         destruct (u_remove r i c) as [[r' t'] c']; cbn [fst] in Y end;
       destruct X as [X1 [X2 X3]]; (split; [assumption|]); (split; [|assumption]);
       apply rrelP_nondefault; [|assumption]; intros cells' ->; destruct (Y _ eq_refl) as [? ?]; discriminate.
Qed.

(* what is owned after a removal / a write: what was owned before, except at the index *)
Lemma u_remove_kept r m id t c : rrelP r m -> NM.find id m = Some t ->
  forall i t', rown (fst (fst (u_remove r id c))) (NM.remove id m) i t' ->
  (rown r m i t' /\ i <> id) \/ t' = default_tok.
Proof.
  intros HR Hf i t' Ho. destruct (is_default r) eqn:Ed.
  - destruct r as [s|s|cells|m'|]; try discriminate. cbn [rrelP u_remove] in *. destruct HR as [H1 H2].
    rewrite (H1 id t Hf) in Ho. cbn [fst] in Ho.
    destruct (N.eq_dec id i) as [<-|Hne].
    + right. destruct Ho as [Ho|[_ [cells' [E Hg]]]]; [rewrite find_remove in Ho; destruct (N.eq_dec id id); congruence|].
      inversion E; subst cells'. rewrite pv_get_set in Hg. pose proof (pv_get_lt _ _ _ (H1 id t Hf)).
      destruct (N.ltb_spec id (vlen cells)); [|lia]. destruct (N.eq_dec id id); congruence.
    + left. split; [|congruence]. destruct Ho as [Ho|[Hn [cells' [E Hg]]]]; rewrite find_remove in *;
        destruct (N.eq_dec id i); try congruence; [left; assumption|].
      inversion E; subst cells'. rewrite pv_get_set in Hg. destruct (N.ltb i (vlen cells)); [|discriminate].
      destruct (N.eq_dec id i); [congruence|]. right. split; [assumption|]. eauto.
  - left. apply rown_nondefault in Ho; [|rewrite u_remove_is_default; assumption]. rewrite find_remove in Ho.
    destruct (N.eq_dec id i); [discriminate|]. split; [left; assumption|congruence].
Qed.

Lemma u_write_kept r m id t v c : rrelP r m -> NM.find id m = Some t ->
  forall i t', rown (fst (u_write r id v c)) (NM.add id v m) i t' ->
  (rown r m i t' /\ i <> id) \/ (i = id /\ t' = v).
Proof.
  intros HR Hf i t' Ho. destruct (N.eq_dec id i) as [<-|Hne].
  - right. split; [reflexivity|]. destruct Ho as [Ho|[Hn _]]; rewrite find_add in *; destruct (N.eq_dec id id); congruence.
  - left. split; [|congruence]. destruct (is_default r) eqn:Ed.
    + destruct r as [s|s|cells|m'|]; try discriminate. cbn [rrelP u_write] in *. destruct HR as [H1 H2].
      rewrite (H1 id t Hf) in Ho. cbn [fst] in Ho.
      destruct Ho as [Ho|[Hn [cells' [E Hg]]]]; rewrite find_add in *; destruct (N.eq_dec id i); try congruence;
        [left; assumption|].
      inversion E; subst cells'. rewrite pv_get_set in Hg. destruct (N.ltb i (vlen cells)); [|discriminate].
      destruct (N.eq_dec id i); [congruence|]. right. split; [assumption|]. eauto.
    + apply rown_nondefault in Ho; [|rewrite u_write_is_default; assumption]. rewrite find_add in Ho.
      destruct (N.eq_dec id i); [congruence|]. left. assumption.
Qed.

(* ---- MaskedStorage level ---- *)

Lemma tnorm_okP ms m v : MInvP ms m -> val_ok (ms_raw ms) (tnorm ms v).
Proof.
  intros H. unfold val_ok, tnorm. destruct (ms_raw ms) eqn:E; auto. rewrite (MP_null _ _ H E). reflexivity.
Qed.

Lemma MInvP_event ms m e : MInvP ms m -> MInvP (ms_event ms e) m.
Proof.
  intros [H1 H2 H3 H4]. destruct (ms_event_fields ms e) as [E1 [E2 [_ [_ [_ E6]]]]].
  split; rewrite ?E1, ?E2, ?E6; assumption.
Qed.

Lemma w_access_mut_P ms m id t touch u c : MInvP ms m -> NM.find id m = Some t ->
  (match u with USwap v => v = tnorm ms v | _ => True end) ->
  let '(ms', old, c') := w_access_mut ms id touch u c in
  old = t /\ MInvP ms' (upd_map ms m id t u) /\ c' = c /\
  ms_mask ms' = ms_mask ms /\ ms_chan ms' = ms_chan (access_event ms id touch u) /\ same_shape ms ms'.
Proof.
  intros HM Hf Hv. unfold w_access_mut. fold (access_event ms id touch u).
  destruct (access_event_fields ms id touch u) as [E1 [E2 Esh]].
  set (ms1 := access_event ms id touch u) in *. rewrite E2.
  rewrite (rrelP_get (ms_raw ms) m id t c (MP_rel _ _ HM) Hf).
  assert (keys_ok (ms_mask ms) m) as Hk by apply (MP_keys _ _ HM).
  assert (forall v, val_ok (ms_raw ms) v -> (ms_unit ms = true -> v = unit_tok) ->
     let '(r, c2) := u_write (ms_raw ms) id v c in
     MInvP (ms_set ms1 (ms_mask ms1) r) (NM.add id v m) /\ c2 = c) as Hw.
  { intros v Hvo Hvu. pose proof (rrelP_write (ms_raw ms) m id t v c (MP_rel _ _ HM) Hf Hvo) as X.
    pose proof (raw_null_stable_write (ms_raw ms) id v c) as Hnull.
    destruct (u_write (ms_raw ms) id v c) as [r c2]. cbn [fst snd] in *. destruct X as [X1 X2]. split; [|assumption].
    destruct Esh as [_ [_ [_ Eu]]].
    split; cbn [ms_set ms_mask ms_raw ms_unit]; rewrite ?E1, ?Eu.
    - apply (keys_add_present _ _ _ _ t); assumption.
    - assumption.
    - intros Hu i x Hx. rewrite find_add in Hx. destruct (N.eq_dec id i); [inversion Hx; subst; auto | apply (MP_unit _ _ HM Hu i x Hx)].
    - intros Hr. apply (MP_null _ _ HM). apply Hnull. assumption. }
  destruct u as [|v|z]; cbn [upd_map].
  - split; [reflexivity|]. split; [|split; [reflexivity|split; [exact E1|split; [reflexivity|exact Esh]]]].
    destruct Esh as [_ [_ [_ Eu]]]. split.
    + rewrite E1. assumption.
    + rewrite E2. apply (MP_rel _ _ HM).
    + rewrite Eu. apply (MP_unit _ _ HM).
    + rewrite Eu, E2. apply (MP_null _ _ HM).
  - assert (tnorm ms v = v) as Hv' by (symmetry; exact Hv).
    pose proof (tnorm_okP ms m v HM) as Hvo. rewrite Hv' in Hvo.
    specialize (Hw v Hvo (fun Hu => eq_trans (eq_sym Hv') (tnorm_unit ms v Hu))).
    destruct (u_write (ms_raw ms) id v c) as [r c2]. destruct Hw as [W1 W2].
    split; [reflexivity|]. split; [exact W1|]. split; [assumption|].
    cbn [ms_set ms_mask ms_chan]. split; [exact E1|]. split; [reflexivity|].
    unfold same_shape. cbn [ms_set ms_wrap ms_emit ms_readers ms_unit]. exact Esh.
  - specialize (Hw (tnorm ms (fst t, z)) (tnorm_okP ms m _ HM) (fun Hu => tnorm_unit ms _ Hu)).
    destruct (u_write (ms_raw ms) id (tnorm ms (fst t, z)) c) as [r c2]. destruct Hw as [W1 W2].
    split; [reflexivity|]. split; [exact W1|]. split; [assumption|].
    cbn [ms_set ms_mask ms_chan]. split; [exact E1|]. split; [reflexivity|].
    unfold same_shape. cbn [ms_set ms_wrap ms_emit ms_readers ms_unit]. exact Esh.
Qed.

Lemma m_remove_P ms m id c : MInvP ms m ->
  let '(ms', o, c') := m_remove ms id c in
  o = NM.find id m /\
  MInvP ms' (if NS.mem id (ms_mask ms) then NM.remove id m else m) /\
  cx_stuck c' = cx_stuck c /\ cx_drops c' = cx_drops c /\
  ms_mask ms' = (if NS.mem id (ms_mask ms) then NS.remove id (ms_mask ms) else ms_mask ms) /\
  ms_chan ms' = (if NS.mem id (ms_mask ms) then ms_chan (ms_event ms (ERemoved id)) else ms_chan ms) /\
  same_shape ms ms'.
Proof.
  intros HM. unfold m_remove. destruct (NS.mem id (ms_mask ms)) eqn:Hmem.
  - destruct (keys_find_some _ _ _ (MP_keys _ _ HM) Hmem) as [t Hf].
    unfold w_remove.
    set (ms0 := ms_set ms (NS.remove id (ms_mask ms)) (ms_raw ms)).
    destruct (ms_event_fields ms0 (ERemoved id)) as [E1 [E2 [E3 [E4 [E5 E6]]]]].
    set (ms1 := ms_event ms0 (ERemoved id)) in *. rewrite E2. cbn [ms0 ms_set ms_raw].
    pose proof (rrelP_remove (ms_raw ms) m id t c (MP_rel _ _ HM) Hf) as X.
    pose proof (raw_null_stable_remove (ms_raw ms) id c) as Hnull.
    destruct (u_remove (ms_raw ms) id c) as [[r t'] c']. cbn [fst] in Hnull. destruct X as [-> [X2 [X3 X4]]].
    split; [symmetry; assumption|]. split; [|split; [assumption|split; [assumption|]]].
    + split; cbn [ms_set ms_mask ms_raw ms_unit]; rewrite ?E1, ?E6; cbn [ms0 ms_set ms_mask ms_unit].
      * apply keys_remove. apply (MP_keys _ _ HM).
      * assumption.
      * intros Hu i x Hx. rewrite find_remove in Hx. destruct (N.eq_dec id i); [discriminate|apply (MP_unit _ _ HM Hu i x Hx)].
      * intros Hr. apply (MP_null _ _ HM). apply Hnull. assumption.
    + cbn [ms_set ms_mask ms_chan]. split; [rewrite E1; reflexivity|]. split.
      * unfold ms1, ms0, ms_event, ms_set; cbn. destruct (ms_wrap ms); destruct (ms_emit ms); reflexivity.
      * unfold same_shape. cbn [ms_set ms_wrap ms_emit ms_readers ms_unit]. rewrite E3, E4, E5, E6. repeat split; reflexivity.
  - rewrite (keys_find_none _ _ _ (MP_keys _ _ HM) Hmem).
    split; [reflexivity|]. split; [assumption|]. repeat split; reflexivity.
Qed.

Lemma m_remove_kept ms m id c : MInvP ms m -> NS.mem id (ms_mask ms) = true ->
  forall i t', own (fst (fst (m_remove ms id c))) (NM.remove id m) i t' ->
  (own ms m i t' /\ i <> id) \/ t' = default_tok.
Proof.
  intros HM Hmem i t'. destruct (keys_find_some _ _ _ (MP_keys _ _ HM) Hmem) as [t Hf].
  unfold m_remove. rewrite Hmem. unfold w_remove.
  set (ms0 := ms_set ms (NS.remove id (ms_mask ms)) (ms_raw ms)).
  destruct (ms_event_fields ms0 (ERemoved id)) as [_ [E2 _]]. rewrite E2. cbn [ms0 ms_set ms_raw].
  pose proof (u_remove_kept (ms_raw ms) m id t c (MP_rel _ _ HM) Hf i t') as X.
  destruct (u_remove (ms_raw ms) id c) as [[r x] c']. cbn [fst] in *. unfold own. cbn [ms_set ms_raw]. exact X.
Qed.

Lemma w_access_mut_kept ms m id t v c : MInvP ms m -> NM.find id m = Some t ->
  forall i t', own (fst (fst (w_access_mut ms id true (USwap v) c))) (NM.add id v m) i t' ->
  (own ms m i t' /\ i <> id) \/ (i = id /\ t' = v).
Proof.
  intros HM Hf i t'. unfold w_access_mut. fold (access_event ms id true (USwap v)).
  destruct (access_event_fields ms id true (USwap v)) as [_ [E2 _]]. rewrite E2.
  rewrite (rrelP_get (ms_raw ms) m id t c (MP_rel _ _ HM) Hf).
  pose proof (u_write_kept (ms_raw ms) m id t v c (MP_rel _ _ HM) Hf i t') as X.
  destruct (u_write (ms_raw ms) id v c) as [r c2]. cbn [fst] in *. unfold own. cbn [ms_set ms_raw]. exact X.
Qed.

End RelP.

(* the strong instance is the existing invariant *)
Lemma rrelP_strong r m : rrelP (eq default_tok) r m <-> rrel r m.
Proof.
  destruct r as [s|s|cells|m'|]; cbn [rrelP rrel]; try tauto.
  split; intros [H1 H2]; (split; [exact H1|]); intros k Hk Hn.
  - destruct (H2 k Hk Hn) as [t [Ht <-]]. exact Ht.
  - exists default_tok. split; [apply H2; assumption|reflexivity].
Qed.

Lemma MInvP_strong ms m : MInvP (eq default_tok) ms m <-> MInv ms m.
Proof.
  split; intros [H1 H2 H3 H4]; split; try assumption; apply rrelP_strong; assumption.
Qed.

(* and it implies every other instance with P default_tok *)
Lemma rrelP_weaken (P : tok -> Prop) r m : P default_tok -> rrel r m -> rrelP P r m.
Proof.
  intros HP. destruct r as [s|s|cells|m'|]; cbn [rrelP rrel]; try tauto.
  intros [H1 H2]. split; [exact H1|]. intros k Hk Hn. exists default_tok. split; [apply H2; assumption|exact HP].
Qed.

Lemma MInvP_weaken (P : tok -> Prop) ms m : P default_tok -> MInv ms m -> MInvP P ms m.
Proof. intros HP [H1 H2 H3 H4]. split; try assumption. apply rrelP_weaken; assumption. Qed.
