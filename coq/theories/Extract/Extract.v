(* Extraction of the executable model and checkers to OCaml.
   Only the directives of ExtrOcamlBasic are used. *)
Require Extraction.
Require Import ExtrOcamlBasic.
From SV Require Import Checkers.Driver Checkers.HibitChk.
Cd "../ocaml".
Extraction "model.ml" model_transcript verdict zlists_eqb derive_line dispatch_model dispatch_verdict
  conc_transcript conc_verdict conc_enum saveload_transcript
  unwind_transcript unwind_verdict hibit_transcript.
Cd "../coq".
