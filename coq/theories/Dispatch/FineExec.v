(* Execution semantics at the granularity of single borrows: the fetch of a
   system takes its borrows one after the other, the drop of its data gives
   them back one after the other, and the groups of a stage interleave between
   any two of these steps.  Definitions only; proofs are in FineInv.v. *)
From SV Require Export Dispatch.Borrow.

Inductive fev :=
| FAcq (s : sys) (x : borrow)      (* one res.fetch() / res.fetch_mut() inside SystemData::fetch *)
| FRun (s : sys)                   (* System::run *)
| FRel (s : sys) (x : borrow).     (* drop of one Fetch / FetchMut *)

Definition fsys_trace (s : sys) : list fev :=
  map (FAcq s) (sys_borrows s) ++ FRun s :: map (FRel s) (sys_borrows s).
Definition fgroup_trace (g : group) : list fev := flat_map fsys_trace g.

Inductive fmerge : list (list fev) -> list fev -> Prop :=
| fmerge_done : forall ls, Forall (fun l => l = []) ls -> fmerge ls []
| fmerge_step : forall l1 e t l2 tr,
    fmerge (l1 ++ t :: l2) tr -> fmerge (l1 ++ (e :: t) :: l2) (e :: tr).

Inductive fstages_trace : list stage -> list fev -> Prop :=
| fst_nil : fstages_trace [] []
| fst_cons : forall st rest t1 t2,
    fmerge (map fgroup_trace st) t1 -> fstages_trace rest t2 -> fstages_trace (st :: rest) (t1 ++ t2).

(* the borrow flags along a trace; [None] = a borrow was refused (panic) or
   something not held was released *)
Definition f_step (b : option bstate) (e : fev) : option bstate :=
  match b with
  | None => None
  | Some b =>
      match e with
      | FAcq _ x => acquire b x
      | FRun _ => Some b
      | FRel _ x => release b x
      end
  end.

Definition f_run (b : option bstate) (t : list fev) : option bstate := fold_left f_step t b.
