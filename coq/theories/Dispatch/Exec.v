(* Execution semantics of a built dispatcher (shred: SendDispatcher::dispatch_par,
   Stage::execute): stages in sequence; the groups of a stage run concurrently
   ([par_iter_mut] over the groups: any interleaving rayon may choose, on any
   number of threads); the systems of a group run in order; a system is
   [fetch] (acquire its borrows), [run], drop of the data (release).
   Definitions only; proofs are in ExecInv.v.

   Granularity: one event for the whole fetch of a system and one for the
   whole drop; FineExec.v has the semantics with one event per borrow. *)
From SV Require Export Dispatch.Borrow.

Inductive ev := EStart (s : sys) | EEnd (s : sys).

Definition sys_trace (s : sys) : list ev := [EStart s; EEnd s].
Definition group_trace (g : group) : list ev := flat_map sys_trace g.

(* [merge ls t]: t is an interleaving of the lists ls (each keeps its order) *)
Inductive merge : list (list ev) -> list ev -> Prop :=
| merge_done : forall ls, Forall (fun l => l = []) ls -> merge ls []
| merge_step : forall l1 e t l2 tr,
    merge (l1 ++ t :: l2) tr -> merge (l1 ++ (e :: t) :: l2) (e :: tr).

Inductive stages_trace : list stage -> list ev -> Prop :=
| st_nil : stages_trace [] []
| st_cons : forall st rest t1 t2,
    merge (map group_trace st) t1 -> stages_trace rest t2 -> stages_trace (st :: rest) (t1 ++ t2).

(* ---- the machine that consumes a trace ----
   m_running: systems between their start and their end;
   m_done: ids of the systems that have ended;
   m_b: borrow flags; m_stuck: a borrow was refused (the panic of
   AtomicRefCell) or something not held was released *)
Record mstate := { m_running : list sys; m_done : list N; m_b : bstate; m_stuck : bool }.

Definition m_init : mstate := {| m_running := []; m_done := []; m_b := bs_init; m_stuck := false |}.

Fixpoint remove_sys (i : N) (l : list sys) : list sys :=
  match l with
  | [] => []
  | s :: l' => if N.eqb (s_id s) i then l' else s :: remove_sys i l'
  end.

Definition m_step (m : mstate) (e : ev) : mstate :=
  if m_stuck m then m else
  match e with
  | EStart s =>
      match acquire_all (m_b m) (sys_borrows s) with
      | Some b => {| m_running := s :: m_running m; m_done := m_done m; m_b := b; m_stuck := false |}
      | None => {| m_running := m_running m; m_done := m_done m; m_b := m_b m; m_stuck := true |}
      end
  | EEnd s =>
      match release_all (m_b m) (sys_borrows s) with
      | Some b => {| m_running := remove_sys (s_id s) (m_running m); m_done := s_id s :: m_done m;
                     m_b := b; m_stuck := false |}
      | None => {| m_running := m_running m; m_done := m_done m; m_b := m_b m; m_stuck := true |}
      end
  end.

Definition m_run (m : mstate) (t : list ev) : mstate := fold_left m_step t m.

(* what must hold when event e happens in state m:
   a starting system conflicts with no running system and all its
   dependencies have ended; an ending system is running; the borrow flags
   accept the step *)
Definition step_safe (m : mstate) (e : ev) : Prop :=
  m_stuck (m_step m e) = false /\
  match e with
  | EStart s => (forall s', In s' (m_running m) -> sys_conflict s s' = false) /\
                (forall d, In d (s_deps s) -> In d (m_done m))
  | EEnd s => In s (m_running m)
  end.

Fixpoint safe_run (m : mstate) (t : list ev) : Prop :=
  match t with
  | [] => True
  | e :: t' => step_safe m e /\ safe_run (m_step m e) t'
  end.

(* ---- trace predicates used by the theorems ---- *)
Definition starts (t : list ev) : list N :=
  flat_map (fun e => match e with EStart s => [s_id s] | _ => [] end) t.
Definition ends (t : list ev) : list N :=
  flat_map (fun e => match e with EEnd s => [s_id s] | _ => [] end) t.

(* systems started but not ended in a prefix *)
Fixpoint running_after (t : list ev) (acc : list sys) : list sys :=
  match t with
  | [] => acc
  | EStart s :: t' => running_after t' (s :: acc)
  | EEnd s :: t' => running_after t' (remove_sys (s_id s) acc)
  end.
