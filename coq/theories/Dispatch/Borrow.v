(* Borrow flags of shred's [World] (one AtomicRefCell per resource: a reader
   count and a writer flag) and what the specs storage handles declare and
   borrow.  Definitions only; proofs are in BorrowInv.v.

   Resource ids (canonical, independent of TypeId):
     0 = EntitiesRes, 1 = LazyUpdate, 10 + t = MaskedStorage<C_t>. *)
From SV Require Export Dispatch.Stage.

Definition R_ENT : N := 0.
Definition R_LAZY : N := 1.
Definition R_STORE (t : N) : N := 10 + t.

(* ---- the borrow machine ---- *)
Inductive mode := Sh | Ex.
Definition borrow := (N * mode)%type.

Record bstate := { readers : N -> nat; writer : N -> bool }.

Definition bs_init : bstate := {| readers := fun _ => O; writer := fun _ => false |}.

Definition upd {A} (f : N -> A) (k : N) (v : A) : N -> A := fun x => if N.eqb x k then v else f x.

(* AtomicRefCell::borrow / borrow_mut: [None] is the panic
   "already (mutably) borrowed" *)
Definition acquire (b : bstate) (x : borrow) : option bstate :=
  match x with
  | (r, Sh) => if writer b r then None
               else Some {| readers := upd (readers b) r (S (readers b r)); writer := writer b |}
  | (r, Ex) => if writer b r || negb (Nat.eqb (readers b r) 0) then None
               else Some {| readers := readers b; writer := upd (writer b) r true |}
  end.

(* drop of AtomicRef / AtomicRefMut; [None] = releasing what is not held
   (cannot happen in Rust; kept so that nothing is true by totalisation) *)
Definition release (b : bstate) (x : borrow) : option bstate :=
  match x with
  | (r, Sh) => match readers b r with
               | O => None
               | S n => Some {| readers := upd (readers b) r n; writer := writer b |}
               end
  | (r, Ex) => if writer b r then Some {| readers := readers b; writer := upd (writer b) r false |}
               else None
  end.

Fixpoint acquire_all (b : bstate) (xs : list borrow) : option bstate :=
  match xs with
  | [] => Some b
  | x :: xs' => match acquire b x with Some b1 => acquire_all b1 xs' | None => None end
  end.

Fixpoint release_all (b : bstate) (xs : list borrow) : option bstate :=
  match xs with
  | [] => Some b
  | x :: xs' => match release b x with Some b1 => release_all b1 xs' | None => None end
  end.

(* what a probe of resource r sees: 0 free, 1 shared, 2 exclusive *)
Definition probe (b : bstate) (r : N) : Z :=
  if writer b r then 2%Z else if Nat.eqb (readers b r) 0 then 0%Z else 1%Z.

(* the borrows a system takes when its declaration is what it fetches *)
Definition sys_borrows (s : sys) : list borrow :=
  map (fun r => (r, Sh)) (s_reads s) ++ map (fun r => (r, Ex)) (s_writes s).

(* a system whose own data cannot be fetched together panics on its own
   (e.g. ReadStorage<T> and WriteStorage<T> in one tuple) *)
Definition self_ok (s : sys) : Prop :=
  NoDup (s_writes s) /\ (forall r, In r (s_writes s) -> ~ In r (s_reads s)).
Definition self_okb (s : sys) : bool :=
  negb (chk (s_writes s) (s_reads s)) &&
  (fix nd (l : list N) := match l with [] => true | x :: l' => negb (existsb (N.eqb x) l') && nd l' end) (s_writes s).

(* ---- the specs handles (src/storage/data.rs, src/world/entity.rs) ---- *)
Inductive handle :=
| HEntities                (* Entities<'a> = Read<'a, EntitiesRes> *)
| HLazy                    (* Read<'a, LazyUpdate> *)
| HRead (t : N)            (* ReadStorage<'a, C_t> *)
| HWrite (t : N).          (* WriteStorage<'a, C_t> *)

(* reads() / writes() as written in the impls *)
Definition decl (h : handle) : list N * list N :=
  match h with
  | HEntities => ([R_ENT], [])
  | HLazy => ([R_LAZY], [])
  | HRead t => ([R_ENT; R_STORE t], [])
  | HWrite t => ([R_ENT], [R_STORE t])
  end.

(* fetch() as written in the impls, in evaluation order:
     ReadStorage:  Storage::new(res.fetch(), res.fetch())
     WriteStorage: Storage::new(res.fetch(), res.fetch_mut())
     Read<T>:      world.fetch::<T>() *)
Definition fetch_borrows (h : handle) : list borrow :=
  match h with
  | HEntities => [(R_ENT, Sh)]
  | HLazy => [(R_LAZY, Sh)]
  | HRead t => [(R_ENT, Sh); (R_STORE t, Sh)]
  | HWrite t => [(R_ENT, Sh); (R_STORE t, Ex)]
  end.

(* tuples of handles (shred's impl_data!): reads/writes are concatenated,
   fetch runs left to right *)
Definition decl_reads (hs : list handle) : list N := flat_map (fun h => fst (decl h)) hs.
Definition decl_writes (hs : list handle) : list N := flat_map (fun h => snd (decl h)) hs.
Definition fetch_all (hs : list handle) : list borrow := flat_map fetch_borrows hs.

Definition shared_of (xs : list borrow) : list N :=
  flat_map (fun x => match x with (r, Sh) => [r] | _ => [] end) xs.
Definition excl_of (xs : list borrow) : list N :=
  flat_map (fun x => match x with (r, Ex) => [r] | _ => [] end) xs.

(* a dispatcher op from handles *)
Definition dsys_of (hs : list handle) (deps : list N) (t : Z) : dop :=
  DSys (decl_reads hs) (decl_writes hs) deps t.
