(* Model of shred 0.16.1 [StagesBuilder] (src/dispatch/stage.rs) and of the part
   of [DispatcherBuilder] (src/dispatch/builder.rs) that feeds it.
   Definitions only; proofs are in StageInv.v.

   A system is what [StagesBuilder::insert] sees of it: its id, the resource
   ids returned by its accessor's [reads()] and [writes()], its dependency
   list (already translated from names to ids by [DispatcherBuilder::add]) and
   its [running_time()] (RunningTime as u8: 1..5).

   The builder keeps, per stage and per group, the id list, the accumulated
   reads, the accumulated writes and the summed running time; all four are
   extended together in [insert], so the model keeps one list of systems per
   group and derives the four from it.  ([insert] sorts and dedups the new
   reads before appending: that changes no intersection test.) *)
From SV Require Export Base.Ids.

Record sys := { s_id : N; s_reads : list N; s_writes : list N; s_deps : list N; s_time : Z }.

Definition group := list sys.
Definition stage := list group.

Record builder := { b_barrier : nat; b_stages : list stage }.

Definition b_init : builder := {| b_barrier := 0; b_stages := [] |}.

Definition g_ids (g : group) : list N := map s_id g.
Definition g_reads (g : group) : list N := flat_map s_reads g.
Definition g_writes (g : group) : list N := flat_map s_writes g.
Definition g_time (g : group) : Z := fold_right (fun s a => (s_time s + a)%Z) 0%Z g.
Definition stage_sys (st : stage) : list sys := concat st.
Definition stage_ids (st : stage) : list N := map s_id (stage_sys st).
Definition all_sys (sts : list stage) : list sys := flat_map stage_sys sts.
Definition all_ids (sts : list stage) : list N := map s_id (all_sys sts).

(* util.rs: check_intersection *)
Definition chk (a b : list N) : bool := existsb (fun x => existsb (N.eqb x) b) a.

(* write/read or write/write intersection between two systems *)
Definition sys_conflict (a b : sys) : bool :=
  chk (s_writes a) (s_writes b ++ s_reads b) || chk (s_reads a) (s_writes b).

Inductive conflict := CNone | CSingle (g : nat) | CMultiple.

(* Conflict::add *)
Definition conflict_add (c : conflict) (g : nat) : conflict :=
  match c with CNone => CSingle g | CSingle _ => CMultiple | CMultiple => CMultiple end.

(* the filter closure of find_conflict, for one group:
     inters = new_writes /\ (writes ++ reads) || new_reads /\ writes
     if inters {true} else if new_dep /\ ids {dep_conflict = true; true} else {false} *)
Definition group_inters (g : group) (r w : list N) : bool :=
  chk w (g_writes g ++ g_reads g) || chk r (g_writes g).
Definition group_hit (g : group) (r w dep : list N) : bool :=
  group_inters g r w || chk dep (g_ids g).
Definition group_depc (g : group) (r w dep : list N) : bool :=
  negb (group_inters g r w) && chk dep (g_ids g).

(* (0..num_groups).filter(..) *)
Fixpoint hit_indices (gs : list group) (idx : nat) (r w dep : list N) : list nat :=
  match gs with
  | [] => []
  | g :: gs' =>
      if group_hit g r w dep then idx :: hit_indices gs' (S idx) r w dep
      else hit_indices gs' (S idx) r w dep
  end.

Definition is_nil {A} (l : list A) : bool := match l with [] => true | _ => false end.

(* find_conflict *)
Definition find_conflict (st : stage) (r w dep : list N) : conflict :=
  let c := fold_left conflict_add (hit_indices st 0 r w dep) CNone in
  let dc := existsb (fun g => group_depc g r w dep) st in
  if (dc && Nat.ltb 1 (length dep)) || (negb dc && negb (is_nil dep)) then CMultiple else c.

(* remove_ids: for every id of the stage, remove its first position in the list *)
Fixpoint remove_first (x : N) (l : list N) : list N :=
  match l with
  | [] => []
  | y :: l' => if N.eqb y x then l' else y :: remove_first x l'
  end.
Definition remove_ids (st : stage) (dep : list N) : list N :=
  fold_left (fun d id => remove_first id d) (stage_ids st) dep.

(* improves_balance: u8/i8 arithmetic; a group tested here has fewer than 4
   systems of time at most 5 each, so nothing wraps and Z is exact *)
Definition stage_max_time (st : stage) : Z := fold_right (fun g a => Z.max (g_time g) a) 0%Z st.
Definition improves_balance (st : stage) (g : nat) (new_time : Z) : bool :=
  let mx := stage_max_time st in
  let old := g_time (nth g st []) in
  Z.ltb (Z.abs (mx - (old + new_time))) (Z.abs (mx - old)).

Definition MAX_SYSTEMS_PER_GROUP : nat := 5.

Inductive target := TStage (s : nat) | TGroup (s g : nat) | TNewStage.

(* insertion_target: the lazy map/find over stages barrier.. ; the dependency
   list shrinks by the ids of every stage visited *)
Fixpoint scan (idx : nat) (sts : list stage) (r w dep : list N) (t : Z) : target :=
  match sts with
  | [] => TNewStage
  | st :: rest =>
      match find_conflict st r w dep with
      | CNone => TStage idx
      | CSingle g =>
          if Nat.ltb (length (nth g st [])) (MAX_SYSTEMS_PER_GROUP - 1) && improves_balance st g t
          then TGroup idx g
          else scan (S idx) rest r w (remove_ids st dep) t
      | CMultiple => scan (S idx) rest r w (remove_ids st dep) t
      end
  end.

Definition insertion_target (b : builder) (s : sys) : target :=
  scan (b_barrier b) (skipn (b_barrier b) (b_stages b)) (s_reads s) (s_writes s) (s_deps s) (s_time s).

Fixpoint upd_nth {A} (n : nat) (f : A -> A) (l : list A) : list A :=
  match l, n with
  | [], _ => []
  | x :: l', O => f x :: l'
  | x :: l', S n' => x :: upd_nth n' f l'
  end.

(* insert *)
Definition sb_insert (b : builder) (s : sys) : builder :=
  match insertion_target b s with
  | TStage i => {| b_barrier := b_barrier b; b_stages := upd_nth i (fun st => st ++ [[s]]) (b_stages b) |}
  | TGroup i g =>
      {| b_barrier := b_barrier b;
         b_stages := upd_nth i (fun st => upd_nth g (fun gr => gr ++ [s]) st) (b_stages b) |}
  | TNewStage => {| b_barrier := b_barrier b; b_stages := b_stages b ++ [[[s]]] |}
  end.

(* add_barrier *)
Definition sb_barrier (b : builder) : builder :=
  {| b_barrier := length (b_stages b); b_stages := b_stages b |}.

(* ---- DispatcherBuilder::add / add_barrier ----
   ids are handed out from a counter; a dependency names an already registered
   system or [add] panics ("No such system registered"); the model sets the
   sticky [d_stuck] flag there.  (Systems are always named here, with distinct
   names, so the duplicate-name panic cannot happen.) *)
Record dbuilder := { d_next : N; d_sb : builder; d_stuck : bool }.

Definition d_init : dbuilder := {| d_next := 0; d_sb := b_init; d_stuck := false |}.

Inductive dop :=
| DSys (reads writes deps : list N) (time : Z)
| DBarrier.

Definition d_step (d : dbuilder) (o : dop) : dbuilder :=
  if d_stuck d then d else
  match o with
  | DSys r w deps t =>
      if forallb (fun x => N.ltb x (d_next d)) deps then
        {| d_next := d_next d + 1;
           d_sb := sb_insert (d_sb d) {| s_id := d_next d; s_reads := r; s_writes := w; s_deps := deps; s_time := t |};
           d_stuck := false |}
      else {| d_next := d_next d; d_sb := d_sb d; d_stuck := true |}
  | DBarrier => {| d_next := d_next d; d_sb := sb_barrier (d_sb d); d_stuck := false |}
  end.

Definition d_build (os : list dop) : dbuilder := fold_left d_step os d_init.

(* the systems the ops ask for, with the ids the builder gives them *)
Fixpoint d_systems (next : N) (os : list dop) : list sys :=
  match os with
  | [] => []
  | DSys r w deps t :: os' =>
      {| s_id := next; s_reads := r; s_writes := w; s_deps := deps; s_time := t |} :: d_systems (next + 1) os'
  | DBarrier :: os' => d_systems next os'
  end.
