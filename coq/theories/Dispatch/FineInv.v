(* The borrow flags never refuse a borrow, at the granularity of single
   borrows (FineExec.v): groups of a stage interleave between any two
   res.fetch()/fetch_mut() calls and any two drops. *)
From SV Require Import Dispatch.Stage Dispatch.Borrow Dispatch.FineExec Dispatch.StageInv Dispatch.BorrowInv
  Dispatch.ExecInv.
From Coq Require Import Permutation.
Local Open Scope nat_scope.

Inductive phase := PAcq (got rest : list borrow) | PRel (rest : list borrow).
Definition fcfg := (option (sys * phase) * list sys)%type.

Definition held (c : fcfg) : list borrow :=
  match fst c with
  | Some (_, PAcq got _) => got
  | Some (_, PRel rest) => rest
  | None => []
  end.

Definition ph_flat (s : sys) (ph : phase) : list fev :=
  match ph with
  | PAcq _ rest => map (FAcq s) rest ++ FRun s :: map (FRel s) (sys_borrows s)
  | PRel rest => map (FRel s) rest
  end.

Definition fflat (c : fcfg) : list fev :=
  (match fst c with Some (s, ph) => ph_flat s ph | None => [] end) ++ fgroup_trace (snd c).

Definition cfg_ok (c : fcfg) : Prop :=
  match fst c with
  | Some (s, PAcq got rest) => got ++ rest = sys_borrows s
  | Some (s, PRel rest) => exists pre, pre ++ rest = sys_borrows s
  | None => True
  end.

Definition c_sys (c : fcfg) : list sys :=
  (match fst c with Some (s, _) => [s] | None => [] end) ++ snd c.

Definition hsum (cs : list fcfg) (r : N) : nat := fold_right (fun c a => cnt_sh (held c) r + a) 0 cs.
Definition hany (cs : list fcfg) (r : N) : bool := existsb (fun c => has_ex (held c) r) cs.

Lemma hsum_app a b r : hsum (a ++ b) r = hsum a r + hsum b r.
Proof. unfold hsum. induction a as [|c a IH]; cbn [app fold_right]; [reflexivity|]. rewrite IH. lia. Qed.
Lemma hsum_cons c a r : hsum (c :: a) r = cnt_sh (held c) r + hsum a r.
Proof. reflexivity. Qed.
Lemma hany_app a b r : hany (a ++ b) r = hany a r || hany b r.
Proof. apply existsb_app. Qed.
Lemma hany_cons c a r : hany (c :: a) r = has_ex (held c) r || hany a r.
Proof. reflexivity. Qed.

Lemma cnt_sh_app a b r : cnt_sh (a ++ b) r = cnt_sh a r + cnt_sh b r.
Proof. unfold cnt_sh. rewrite shared_of_app. apply count_occ_app. Qed.
Lemma has_ex_app a b r : has_ex (a ++ b) r = has_ex a r || has_ex b r.
Proof. unfold has_ex. rewrite excl_of_app. apply existsb_app. Qed.

Lemma cnt_sh_cons_sh r xs r' : cnt_sh ((r, Sh) :: xs) r' = (if N.eq_dec r r' then 1 else 0) + cnt_sh xs r'.
Proof. unfold cnt_sh. cbn [shared_of flat_map app count_occ]. destruct (N.eq_dec r r'); reflexivity. Qed.
Lemma cnt_sh_cons_ex r xs r' : cnt_sh ((r, Ex) :: xs) r' = cnt_sh xs r'.
Proof. reflexivity. Qed.
Lemma has_ex_cons_sh r xs r' : has_ex ((r, Sh) :: xs) r' = has_ex xs r'.
Proof. reflexivity. Qed.
Lemma has_ex_cons_ex r xs r' : has_ex ((r, Ex) :: xs) r' = N.eqb r' r || has_ex xs r'.
Proof. reflexivity. Qed.

Lemma cnt_sh_zero xs r : ~ In (r, Sh) xs -> cnt_sh xs r = 0.
Proof. intros H. unfold cnt_sh. apply count_occ_not_In. rewrite in_shared_of. assumption. Qed.
Lemma cnt_sh_pos xs r : In (r, Sh) xs -> 1 <= cnt_sh xs r.
Proof.
  intros H. unfold cnt_sh. apply in_shared_of in H.
  apply (count_occ_In N.eq_dec) in H. lia.
Qed.
Lemma has_ex_false xs r : ~ In (r, Ex) xs -> has_ex xs r = false.
Proof. intros H. destruct (has_ex xs r) eqn:E; [|reflexivity]. apply has_ex_true in E. contradiction. Qed.

Lemma hsum_zero cs r : (forall c, In c cs -> ~ In (r, Sh) (held c)) -> hsum cs r = 0.
Proof.
  induction cs as [|c cs IH]; intros H; [reflexivity|]. rewrite hsum_cons, IH.
  - rewrite cnt_sh_zero; [reflexivity|]. apply H. left. reflexivity.
  - intros c' Hc. apply H. right. assumption.
Qed.
Lemma hany_false cs r : (forall c, In c cs -> ~ In (r, Ex) (held c)) -> hany cs r = false.
Proof.
  induction cs as [|c cs IH]; intros H; [reflexivity|]. rewrite hany_cons, IH.
  - rewrite has_ex_false; [reflexivity|]. apply H. left. reflexivity.
  - intros c' Hc. apply H. right. assumption.
Qed.

Lemma in_sys_borrows s r m : In (r, m) (sys_borrows s) <->
  match m with Sh => In r (s_reads s) | Ex => In r (s_writes s) end.
Proof.
  destruct m.
  - rewrite <- in_shared_of, shared_of_sys. reflexivity.
  - rewrite <- in_excl_of, excl_of_sys. reflexivity.
Qed.

Lemma held_owner c y : cfg_ok c -> In y (held c) -> exists s, In s (c_sys c) /\ In y (sys_borrows s).
Proof.
  destruct c as [[[s [got rest|rest]]|] todo]; unfold cfg_ok, held, c_sys; cbn [fst snd].
  - intros E H. exists s. split; [left; reflexivity|]. rewrite <- E. apply in_or_app. left. assumption.
  - intros [pre E] H. exists s. split; [left; reflexivity|]. rewrite <- E. apply in_or_app. right. assumption.
  - intros _ [].
Qed.

(* two borrows of systems that do not conflict are compatible *)
Lemma compat s s' r m y : sys_conflict s s' = false -> In (r, m) (sys_borrows s) -> In y (sys_borrows s') ->
  match m with Sh => y <> (r, Ex) | Ex => fst y <> r end.
Proof.
  intros Hc Hx Hy. apply sys_conflict_false_iff in Hc. destruct Hc as [H1 H2].
  apply in_sys_borrows in Hx. destruct m.
  - intros ->. apply in_sys_borrows in Hy. eapply H2; eauto.
  - destruct y as [r' m']. cbn. intros ->. apply in_sys_borrows in Hy. destruct (H1 r Hx). destruct m'; auto.
Qed.

Lemma Forall2_in_r {A B} (R : A -> B -> Prop) l1 l2 y :
  Forall2 R l1 l2 -> In y l2 -> exists x, In x l1 /\ R x y.
Proof.
  induction 1 as [|a b l1 l2 Hab _ IH]; intros Hy; [destruct Hy|]. destruct Hy as [<-|Hy].
  - exists a. split; [left; reflexivity|assumption].
  - destruct (IH Hy) as [x [Hx HR]]. exists x. split; [right; assumption|assumption].
Qed.

Lemma fflat_next_some s s1 todo :
  fflat (Some (s, PRel []), s1 :: todo) = fflat (Some (s1, PAcq [] (sys_borrows s1)), todo).
Proof. reflexivity. Qed.
Lemma fflat_next_none s1 todo : fflat (None, s1 :: todo) = fflat (Some (s1, PAcq [] (sys_borrows s1)), todo).
Proof. reflexivity. Qed.

Section OneStageFine.
  Variable st : stage.
  Hypothesis Hfree : stage_free st.
  Hypothesis Hself : forall s, In s (stage_sys st) -> self_ok s.

  Definition emb (g : group) (c : fcfg) : Prop := forall s, In s (c_sys c) -> In s g.

  Record finv (cs : list fcfg) (b : bstate) : Prop := {
    f_emb : Forall2 emb st cs;
    f_ok : Forall cfg_ok cs;
    f_b : forall r, readers b r = hsum cs r /\ writer b r = hany cs r
  }.

  (* what the invariant gives about the other groups while (c, s) acts *)
  Lemma others c1 c c2 b s :
    finv (c1 ++ c :: c2) b -> In s (c_sys c) ->
    self_ok s /\
    forall c' y, In c' (c1 ++ c2) -> In y (held c') ->
      exists s', sys_conflict s s' = false /\ In y (sys_borrows s').
  Proof.
    intros [He Ho _] Hs.
    apply Forall2_app_inv_r in He. destruct He as [g1s [gr [He1 [He2 Est]]]].
    inversion He2 as [|g ? g2s ? Hg He3]; subst.
    split.
    - apply Hself. unfold stage_sys. rewrite concat_app. apply in_or_app. right. cbn. apply in_or_app. left.
      apply Hg. assumption.
    - intros c' y Hc' Hy.
      assert (Hok' : cfg_ok c').
      { rewrite Forall_forall in Ho. apply Ho. apply in_app_or in Hc'. apply in_or_app.
        destruct Hc'; [left|right; right]; assumption. }
      destruct (held_owner c' y Hok' Hy) as [s' [Hs' Hys']]. exists s'. split; [|assumption].
      eapply free_split; [exact Hfree|apply Hg; assumption|].
      apply in_concat. apply in_app_or in Hc'. destruct Hc' as [Hc'|Hc'].
      + destruct (Forall2_in_r _ _ _ _ He1 Hc') as [g' [Hg' Hemb]]. exists g'. split; [apply in_or_app; left; assumption|].
        apply Hemb. assumption.
      + destruct (Forall2_in_r _ _ _ _ He3 Hc') as [g' [Hg' Hemb]]. exists g'. split; [apply in_or_app; right; assumption|].
        apply Hemb. assumption.
  Qed.

  (* replacing the acting configuration by one that holds [h'] and still sits
     inside its group keeps the first two parts of the invariant *)
  Lemma finv_replace c1 c c2 c' b b' :
    finv (c1 ++ c :: c2) b -> cfg_ok c' -> (forall s, In s (c_sys c') -> In s (c_sys c)) ->
    (forall r, readers b' r = hsum (c1 ++ c' :: c2) r /\ writer b' r = hany (c1 ++ c' :: c2) r) ->
    finv (c1 ++ c' :: c2) b'.
  Proof.
    intros [He Ho _] Hok Hsub Hb. constructor; [| |assumption].
    - apply Forall2_app_inv_r in He. destruct He as [g1s [gr [He1 [He2 ->]]]].
      inversion He2 as [|g ? g2s ? Hg He3]; subst. apply Forall2_app; [assumption|]. constructor; [|assumption].
      intros s Hs. apply Hg, Hsub, Hs.
    - apply Forall_app in Ho. destruct Ho as [Ho1 Ho2]. inversion Ho2; subst.
      apply Forall_app. split; [assumption|]. constructor; assumption.
  Qed.

  (* same held borrows: the flags need not change *)
  Lemma finv_same_held c1 c c2 c' b :
    finv (c1 ++ c :: c2) b -> cfg_ok c' -> (forall s, In s (c_sys c') -> In s (c_sys c)) -> held c' = held c ->
    finv (c1 ++ c' :: c2) b.
  Proof.
    intros Hi Hok Hsub Hh. eapply finv_replace; eauto. intros r. destruct (f_b _ _ Hi r) as [H1 H2].
    rewrite H1, H2, !hsum_app, !hany_app, !hsum_cons, !hany_cons, Hh. auto.
  Qed.

  Lemma acq_step c1 s got x rest todo c2 b :
    finv (c1 ++ (Some (s, PAcq got (x :: rest)), todo) :: c2) b ->
    exists b', acquire b x = Some b' /\ finv (c1 ++ (Some (s, PAcq (got ++ [x]) rest), todo) :: c2) b'.
  Proof.
    intros Hi. set (c := (Some (s, PAcq got (x :: rest)), todo) : fcfg).
    assert (Hs : In s (c_sys c)) by (left; reflexivity).
    destruct (others _ _ _ _ _ Hi Hs) as [[Hnd Hdis] Hoth].
    assert (Hokc : got ++ x :: rest = sys_borrows s).
    { pose proof (f_ok _ _ Hi) as Ho. apply Forall_app in Ho. destruct Ho as [_ Ho]. inversion Ho; subst. assumption. }
    assert (Hx : In x (sys_borrows s)) by (rewrite <- Hokc; apply in_or_app; right; left; reflexivity).
    destruct x as [r m].
    assert (Hothers : forall c', In c' (c1 ++ c2) ->
              match m with Sh => ~ In (r, Ex) (held c') | Ex => forall m', ~ In (r, m') (held c') end).
    { intros c' Hc'. destruct m.
      - intros Hy. destruct (Hoth c' _ Hc' Hy) as [s' [Hcf Hys']]. apply (compat _ _ _ _ _ Hcf Hx Hys'). reflexivity.
      - intros m' Hy. destruct (Hoth c' _ Hc' Hy) as [s' [Hcf Hys']]. apply (compat _ _ _ _ _ Hcf Hx Hys'). reflexivity. }
    assert (Hnd' : NoDup (excl_of (got ++ (r, m) :: rest))).
    { pose proof Hnd as H0. rewrite <- excl_of_sys, <- Hokc in H0. exact H0. }
    destruct (f_b _ _ Hi r) as [Hrd Hwr].
    rewrite hsum_app, hsum_cons in Hrd. rewrite hany_app, hany_cons in Hwr.
    unfold held in Hrd, Hwr; cbn [fst] in Hrd, Hwr.
    assert (Hh1 : forall cs, (forall c', In c' cs -> In c' (c1 ++ c2)) -> hany cs r = false).
    { intros cs Hsub. apply hany_false. intros c' Hc'. specialize (Hothers c' (Hsub c' Hc')). destruct m; auto. }
    rewrite (Hh1 c1), (Hh1 c2) in Hwr by (intros; apply in_or_app; auto).
    destruct m.
    - (* shared *)
      assert (Hown : has_ex got r = false).
      { apply has_ex_false. intros Hg. apply (Hdis r).
        - apply in_sys_borrows with (m := Ex). rewrite <- Hokc. apply in_or_app. left. assumption.
        - apply in_sys_borrows with (m := Sh). assumption. }
      rewrite Hown in Hwr. cbn in Hwr.
      cbn [acquire]. rewrite Hwr. eexists. split; [reflexivity|].
      eapply finv_replace; [exact Hi| | |].
      + unfold cfg_ok; cbn [fst]. rewrite <- app_assoc. exact Hokc.
      + intros s0 H. exact H.
      + intros r'. cbn [readers writer]. destruct (f_b _ _ Hi r') as [H1 H2].
        rewrite !hsum_app, !hsum_cons, !hany_app, !hany_cons in *. unfold held in *; cbn [fst] in *.
        rewrite cnt_sh_app, has_ex_app. unfold cnt_sh at 2, has_ex at 2. cbn [shared_of excl_of flat_map app count_occ existsb].
        rewrite orb_false_r. split; [|exact H2].
        destruct (N.eq_dec r r') as [->|Hne].
        * rewrite upd_eq, H1. lia.
        * rewrite upd_neq by congruence. rewrite H1. lia.
    - (* exclusive *)
      assert (Hown : has_ex got r = false).
      { apply has_ex_false. intros Hg. rewrite excl_of_app in Hnd'. cbn [excl_of flat_map app] in Hnd'.
        apply NoDup_remove_2 in Hnd'. apply Hnd'. apply in_or_app. left. apply in_excl_of. assumption. }
      assert (Hown2 : cnt_sh got r = 0).
      { apply cnt_sh_zero. intros Hg. apply (Hdis r).
        - apply in_sys_borrows with (m := Ex). assumption.
        - apply in_sys_borrows with (m := Sh). rewrite <- Hokc. apply in_or_app. left. assumption. }
      assert (Hz : forall cs, (forall c', In c' cs -> In c' (c1 ++ c2)) -> hsum cs r = 0).
      { intros cs Hsub. apply hsum_zero. intros c' Hc'. apply (Hothers c' (Hsub c' Hc')). }
      rewrite (Hz c1), (Hz c2), Hown2 in Hrd by (intros; apply in_or_app; auto).
      rewrite Hown in Hwr. cbn in Hwr, Hrd.
      cbn [acquire]. rewrite Hwr, Hrd. cbn [orb negb Nat.eqb]. eexists. split; [reflexivity|].
      eapply finv_replace; [exact Hi| | |].
      + unfold cfg_ok; cbn [fst]. rewrite <- app_assoc. exact Hokc.
      + intros s0 H. exact H.
      + intros r'. cbn [readers writer]. destruct (f_b _ _ Hi r') as [H1 H2].
        rewrite !hsum_app, !hsum_cons, !hany_app, !hany_cons in *. unfold held in *; cbn [fst] in *.
        rewrite cnt_sh_app, has_ex_app. unfold cnt_sh at 2, has_ex at 2. cbn [shared_of excl_of flat_map app count_occ existsb].
        rewrite orb_false_r. split; [rewrite H1; lia|].
        destruct (N.eqb_spec r' r) as [->|Hne].
        * rewrite upd_eq. rewrite Hown. cbn. destruct (hany c1 r); reflexivity.
        * rewrite upd_neq by assumption. rewrite H2. rewrite orb_false_r. reflexivity.
  Qed.

  Lemma rel_step c1 s x rest todo c2 b :
    finv (c1 ++ (Some (s, PRel (x :: rest)), todo) :: c2) b ->
    exists b', release b x = Some b' /\ finv (c1 ++ (Some (s, PRel rest), todo) :: c2) b'.
  Proof.
    intros Hi. set (c := (Some (s, PRel (x :: rest)), todo) : fcfg).
    assert (Hs : In s (c_sys c)) by (left; reflexivity).
    destruct (others _ _ _ _ _ Hi Hs) as [[Hnd Hdis] Hoth].
    assert (Hokc : exists pre, pre ++ x :: rest = sys_borrows s).
    { pose proof (f_ok _ _ Hi) as Ho. apply Forall_app in Ho. destruct Ho as [_ Ho]. inversion Ho; subst. assumption. }
    destruct Hokc as [pre Hokc].
    assert (Hx : In x (sys_borrows s)) by (rewrite <- Hokc; apply in_or_app; right; left; reflexivity).
    assert (Hok' : cfg_ok (Some (s, PRel rest), todo)).
    { unfold cfg_ok; cbn [fst]. exists (pre ++ [x]). rewrite <- app_assoc. exact Hokc. }
    destruct x as [r m].
    destruct (f_b _ _ Hi r) as [Hrd Hwr].
    rewrite hsum_app, hsum_cons in Hrd. rewrite hany_app, hany_cons in Hwr.
    unfold held in Hrd, Hwr; cbn [fst] in Hrd, Hwr.
    destruct m.
    - (* shared *)
      rewrite cnt_sh_cons_sh in Hrd. destruct (N.eq_dec r r) as [_|]; [|congruence].
      cbn [release]. destruct (readers b r) as [|n] eqn:En; [lia|]. eexists. split; [reflexivity|].
      eapply finv_replace; [exact Hi|exact Hok'|intros s0 H; exact H|].
      intros r'. cbn [readers writer]. destruct (f_b _ _ Hi r') as [H1 H2].
      rewrite !hsum_app, !hsum_cons, !hany_app, !hany_cons in *. unfold held in *; cbn [fst] in *.
      rewrite cnt_sh_cons_sh in H1. rewrite has_ex_cons_sh in H2. split; [|exact H2].
      destruct (N.eq_dec r r') as [->|Hne].
      + rewrite upd_eq. rewrite En in H1. lia.
      + rewrite upd_neq by congruence. rewrite H1. reflexivity.
    - (* exclusive *)
      rewrite has_ex_cons_ex, N.eqb_refl in Hwr.
      assert (Hw : writer b r = true).
      { rewrite Hwr. cbn. destruct (hany c1 r); reflexivity. }
      cbn [release]. rewrite Hw. eexists. split; [reflexivity|].
      eapply finv_replace; [exact Hi|exact Hok'|intros s0 H; exact H|].
      intros r'. cbn [readers writer]. destruct (f_b _ _ Hi r') as [H1 H2].
      rewrite !hsum_app, !hsum_cons, !hany_app, !hany_cons in *. unfold held in *; cbn [fst] in *.
      rewrite cnt_sh_cons_ex in H1. rewrite has_ex_cons_ex in H2. split; [exact H1|].
      destruct (N.eqb_spec r' r) as [->|Hne].
      + rewrite upd_eq. symmetry.
        assert (Hnd' : NoDup (excl_of (pre ++ (r, Ex) :: rest))).
        { pose proof Hnd as H0. rewrite <- excl_of_sys, <- Hokc in H0. exact H0. }
        rewrite excl_of_app in Hnd'. cbn [excl_of flat_map app] in Hnd'. apply NoDup_remove_2 in Hnd'.
        assert (Hown : has_ex rest r = false).
        { apply has_ex_false. intros Hg. apply Hnd'. apply in_or_app. right. apply in_excl_of. assumption. }
        assert (Hh1 : forall cs, (forall c', In c' cs -> In c' (c1 ++ c2)) -> hany cs r = false).
        { intros cs Hsub. apply hany_false. intros c' Hc' Hy.
          destruct (Hoth c' _ (Hsub c' Hc') Hy) as [s' [Hcf Hys']]. apply (compat _ _ _ _ _ Hcf Hx Hys'). reflexivity. }
        rewrite (Hh1 c1), (Hh1 c2), Hown by (intros; apply in_or_app; auto). reflexivity.
      + rewrite upd_neq by assumption. rewrite H2. reflexivity.
  Qed.

  (* the first event of a configuration and the configuration after it *)
  Lemma fine_step c1 c c2 b e t :
    finv (c1 ++ c :: c2) b -> fflat c = e :: t ->
    exists c' b', f_step (Some b) e = Some b' /\ fflat c' = t /\ finv (c1 ++ c' :: c2) b'.
  Proof.
    intros Hi Hf.
    (* bring c to an active form with the same events and the same held borrows *)
    assert (Hact : exists s ph todo, fflat (Some (s, ph), todo) = e :: t /\
                     finv (c1 ++ (Some (s, ph), todo) :: c2) b /\
                     match ph with PRel [] => False | _ => True end).
    { destruct c as [[[s ph]|] todo].
      - destruct ph as [got rest|[|x rest]].
        + exists s, (PAcq got rest), todo. auto.
        + (* all released: the next system of the group *)
          destruct todo as [|s1 todo]; [discriminate|]. rewrite fflat_next_some in Hf.
          exists s1, (PAcq [] (sys_borrows s1)), todo. split; [exact Hf|split; [|exact I]].
          eapply finv_same_held; [exact Hi| | |reflexivity].
          * unfold cfg_ok; cbn. reflexivity.
          * intros s0 H. right. exact H.
        + exists s, (PRel (x :: rest)), todo. auto.
      - destruct todo as [|s1 todo]; [discriminate|]. rewrite fflat_next_none in Hf.
        exists s1, (PAcq [] (sys_borrows s1)), todo. split; [exact Hf|split; [|exact I]].
        eapply finv_same_held; [exact Hi| | |reflexivity].
        + unfold cfg_ok; cbn. reflexivity.
        + intros s0 H. exact H. }
    destruct Hact as [s [ph [todo [Hf' [Hi' Hne]]]]]. clear Hi Hf c.
    unfold fflat in Hf'; cbn [fst snd] in Hf'.
    destruct ph as [got [|x rest]|[|x rest]]; cbn [ph_flat map app] in Hf'; try contradiction.
    - (* run *)
      inversion Hf'; subst. exists (Some (s, PRel (sys_borrows s)), todo), b. split; [reflexivity|]. split; [reflexivity|].
      eapply finv_same_held; [exact Hi'| | |].
      + unfold cfg_ok; cbn. exists []. reflexivity.
      + intros s0 H. exact H.
      + unfold held; cbn [fst]. pose proof (f_ok _ _ Hi') as Ho. apply Forall_app in Ho. destruct Ho as [_ Ho].
        inversion Ho as [|? ? Hc _]; subst. unfold cfg_ok in Hc; cbn [fst] in Hc. rewrite app_nil_r in Hc. auto.
    - inversion Hf'; subst. destruct (acq_step _ _ _ _ _ _ _ _ Hi') as [b' [Ha Hi'']].
      exists (Some (s, PAcq (got ++ [x]) rest), todo), b'. split; [exact Ha|]. split; [reflexivity|exact Hi''].
    - inversion Hf'; subst. destruct (rel_step _ _ _ _ _ _ _ Hi') as [b' [Ha Hi'']].
      exists (Some (s, PRel rest), todo), b'. split; [exact Ha|]. split; [reflexivity|exact Hi''].
  Qed.

  Lemma fine_stage_run : forall ls tr, fmerge ls tr -> forall cs b, ls = map fflat cs -> finv cs b ->
    exists b' cs', f_run (Some b) tr = Some b' /\ finv cs' b' /\ Forall (fun l => l = []) (map fflat cs').
  Proof.
    induction 1 as [ls Hd|l1 e t l2 tr Hm IH]; intros cs b Heq Hi.
    - exists b, cs. subst ls. auto.
    - symmetry in Heq. apply map_eq_app in Heq. destruct Heq as [c1 [cr [-> [E1 E2]]]].
      apply map_eq_cons in E2. destruct E2 as [c [c2 [-> [Ec E2]]]].
      destruct (fine_step _ _ _ _ _ _ Hi Ec) as [c' [b' [Hs [Hf Hi']]]].
      destruct (IH (c1 ++ c' :: c2) b') as [b'' [cs' [Hr Hrest]]].
      { rewrite map_app. cbn [map]. rewrite E1, E2, Hf. reflexivity. }
      { assumption. }
      exists b'', cs'. split; [|exact Hrest]. cbn [f_run fold_left]. rewrite Hs. exact Hr.
  Qed.

  Definition bs_free (b : bstate) : Prop := forall r, readers b r = 0 /\ writer b r = false.

  Lemma fine_stage_exec b tr :
    bs_free b -> fmerge (map fgroup_trace st) tr ->
    exists b', f_run (Some b) tr = Some b' /\ bs_free b'.
  Proof.
    intros Hb Hm. set (cs := map (fun g : group => (@None (sys * phase), g)) st).
    assert (Hflat : map fgroup_trace st = map fflat cs).
    { unfold cs. rewrite map_map. apply map_ext. intros g. reflexivity. }
    assert (Hheld : forall c, In c cs -> held c = []).
    { intros c Hc. unfold cs in Hc. apply in_map_iff in Hc. destruct Hc as [g [<- _]]. reflexivity. }
    assert (Hi : finv cs b).
    { constructor.
      - unfold cs. clear. induction st as [|g l IH]; cbn; constructor; [|exact IH]. intros s H. exact H.
      - apply Forall_forall. intros c Hc. unfold cs in Hc. apply in_map_iff in Hc. destruct Hc as [g [<- _]]. exact I.
      - intros r. destruct (Hb r) as [-> ->]. split; symmetry.
        + apply hsum_zero. intros c Hc. rewrite (Hheld c Hc). intros [].
        + apply hany_false. intros c Hc. rewrite (Hheld c Hc). intros []. }
    destruct (fine_stage_run _ _ Hm cs b Hflat Hi) as [b' [cs' [Hr [Hi' Hall]]]].
    exists b'. split; [exact Hr|].
    assert (Hheld' : forall c, In c cs' -> held c = []).
    { intros c Hc. rewrite Forall_forall in Hall. specialize (Hall (fflat c) (in_map _ _ _ Hc)).
      destruct c as [[[s [got rest|rest]]|] todo]; unfold fflat in Hall; cbn [fst snd ph_flat] in Hall.
      - apply app_eq_nil in Hall. destruct Hall as [Hall _]. apply app_eq_nil in Hall. destruct Hall as [_ Hall]. discriminate.
      - apply app_eq_nil in Hall. destruct Hall as [Hall _]. destruct rest; [reflexivity|discriminate].
      - reflexivity. }
    intros r. destruct (f_b _ _ Hi' r) as [-> ->]. split.
    - apply hsum_zero. intros c Hc. rewrite (Hheld' c Hc). intros [].
    - apply hany_false. intros c Hc. rewrite (Hheld' c Hc). intros [].
  Qed.
End OneStageFine.

Lemma f_run_app b t1 t2 : f_run b (t1 ++ t2) = f_run (f_run b t1) t2.
Proof. unfold f_run. apply fold_left_app. Qed.

Lemma f_run_none t : f_run None t = None.
Proof. induction t as [|e t IH]; cbn; [reflexivity|exact IH]. Qed.

Lemma fine_stages_exec sts : forall b tr,
  Forall stage_free sts -> all_self_ok sts -> bs_free b -> fstages_trace sts tr ->
  exists b', f_run (Some b) tr = Some b' /\ bs_free b'.
Proof.
  induction sts as [|st sts IH]; intros b tr Hf Hs Hb Ht; inversion Ht; subst.
  - exists b. auto.
  - inversion Hf as [|? ? Hf1 Hf2]; subst.
    assert (Hs1 : forall s, In s (stage_sys st) -> self_ok s).
    { intros s H. apply Hs. unfold all_sys. cbn [flat_map]. apply in_or_app. left. assumption. }
    assert (Hs2 : all_self_ok sts).
    { intros s H. apply Hs. unfold all_sys. cbn [flat_map]. apply in_or_app. right. assumption. }
    destruct (fine_stage_exec st Hf1 Hs1 b t1 Hb H1) as [b1 [Hr1 Hb1]].
    destruct (IH b1 t2 Hf2 Hs2 Hb1 H3) as [b2 [Hr2 Hb2]].
    exists b2. split; [|assumption]. rewrite f_run_app, Hr1. exact Hr2.
Qed.

(* every prefix of every fine-grained schedule of a built dispatcher leaves
   the borrow flags defined: no borrow is refused, nothing not held is released *)
Theorem fine_never_refused os :
  d_stuck (d_build os) = false -> (forall s, In s (d_systems 0 os) -> self_ok s) ->
  forall tr p q, fstages_trace (b_stages (d_sb (d_build os))) tr -> tr = p ++ q ->
  f_run (Some bs_init) p <> None.
Proof.
  intros Hok Hself tr p q Ht -> Hn.
  destruct (fine_stages_exec _ bs_init (p ++ q) (di_free _ (d_build_inv os)) (built_self_ok os Hok Hself)
              (fun r => conj eq_refl eq_refl) Ht) as [b' [Hr _]].
  rewrite f_run_app, Hn, f_run_none in Hr. discriminate.
Qed.
