(* Facts about the borrow machine (Borrow.v) and the specs handle table. *)
From SV Require Import Dispatch.Stage Dispatch.Borrow Dispatch.StageInv.
From Coq Require Import Permutation.
Local Open Scope nat_scope.

(* ------------------------------------------------------------------ decl = fetch *)

(* What a handle's [fetch] borrows is exactly what it declares: the shared
   borrows are its reads(), the exclusive borrows are its writes(), in order. *)
Lemma decl_matches_fetch h :
  shared_of (fetch_borrows h) = fst (decl h) /\ excl_of (fetch_borrows h) = snd (decl h).
Proof. destruct h; cbn; auto. Qed.

Lemma shared_of_app a b : shared_of (a ++ b) = shared_of a ++ shared_of b.
Proof. unfold shared_of. apply flat_map_app. Qed.
Lemma excl_of_app a b : excl_of (a ++ b) = excl_of a ++ excl_of b.
Proof. unfold excl_of. apply flat_map_app. Qed.

(* ... and so for tuples of handles (shred's impl_data!) *)
Lemma decl_matches_fetch_all hs :
  shared_of (fetch_all hs) = decl_reads hs /\ excl_of (fetch_all hs) = decl_writes hs.
Proof.
  induction hs as [|h hs [IH1 IH2]]; cbn; [auto|].
  unfold fetch_all, decl_reads, decl_writes in *. cbn [flat_map].
  rewrite shared_of_app, excl_of_app, IH1, IH2.
  destruct (decl_matches_fetch h) as [-> ->]. auto.
Qed.

(* ------------------------------------------------------------------ counting *)

Definition cnt_sh (xs : list borrow) (r : N) : nat := count_occ N.eq_dec (shared_of xs) r.
Definition has_ex (xs : list borrow) (r : N) : bool := existsb (N.eqb r) (excl_of xs).

Lemma in_shared_of xs r : In r (shared_of xs) <-> In (r, Sh) xs.
Proof.
  unfold shared_of. rewrite in_flat_map. split.
  - intros [[r' m] [Hx Hr]]. destruct m; cbn in Hr; [|contradiction]. destruct Hr as [<-|[]]. assumption.
  - intros H. exists (r, Sh). split; [assumption|left; reflexivity].
Qed.

Lemma in_excl_of xs r : In r (excl_of xs) <-> In (r, Ex) xs.
Proof.
  unfold excl_of. rewrite in_flat_map. split.
  - intros [[r' m] [Hx Hr]]. destruct m; cbn in Hr; [contradiction|]. destruct Hr as [<-|[]]. assumption.
  - intros H. exists (r, Ex). split; [assumption|left; reflexivity].
Qed.

Lemma has_ex_true xs r : has_ex xs r = true <-> In (r, Ex) xs.
Proof. unfold has_ex. rewrite existsb_eqb_In. apply in_excl_of. Qed.

Lemma upd_eq {A} (f : N -> A) k v : upd f k v k = v.
Proof. unfold upd. rewrite N.eqb_refl. reflexivity. Qed.
Lemma upd_neq {A} (f : N -> A) k v x : x <> k -> upd f k v x = f x.
Proof. unfold upd. intros H. destruct (N.eqb_spec x k); [contradiction|reflexivity]. Qed.

(* ------------------------------------------------------------------ acquire_all *)

(* the conditions under which a list of borrows can be taken on top of b *)
Definition can_take (b : bstate) (xs : list borrow) : Prop :=
  (forall r, In (r, Sh) xs -> writer b r = false) /\
  (forall r, In (r, Ex) xs -> writer b r = false /\ readers b r = 0) /\
  NoDup (excl_of xs) /\
  (forall r, In (r, Ex) xs -> ~ In (r, Sh) xs).

Lemma acquire_all_ok xs : forall b, can_take b xs ->
  exists b', acquire_all b xs = Some b' /\
    forall r, readers b' r = readers b r + cnt_sh xs r /\ writer b' r = writer b r || has_ex xs r.
Proof.
  induction xs as [|[r0 m] xs IH]; intros b (Hs & He & Hn & Hd).
  - exists b. split; [reflexivity|]. intros r. cbn. rewrite orb_false_r. auto.
  - destruct m.
    + (* shared *)
      assert (Hw : writer b r0 = false) by (apply Hs; left; reflexivity).
      cbn [acquire_all acquire]. rewrite Hw.
      set (b1 := {| readers := upd (readers b) r0 (S (readers b r0)); writer := writer b |}).
      destruct (IH b1) as [b' [Ha Hb]].
      { repeat split.
        - intros r Hr. cbn. apply Hs. right. assumption.
        - cbn. apply He. right. assumption.
        - cbn. assert (r <> r0). { intros ->. apply (Hd r0); [right; assumption|left; reflexivity]. }
          rewrite upd_neq by assumption. apply He. right. assumption.
        - exact Hn.
        - intros r Hr H. apply (Hd r); right; assumption. }
      exists b'. split; [exact Ha|]. intros r. destruct (Hb r) as [H1 H2]. rewrite H1, H2. cbn [b1 readers writer].
      unfold cnt_sh, has_ex. cbn [shared_of excl_of flat_map app]. fold (shared_of xs). fold (excl_of xs).
      split; [|reflexivity]. cbn [count_occ]. destruct (N.eq_dec r0 r) as [->|Hne].
      * rewrite upd_eq. lia.
      * rewrite upd_neq by congruence. lia.
    + (* exclusive *)
      destruct (He r0 (or_introl eq_refl)) as [Hw Hr0].
      cbn [acquire_all acquire]. rewrite Hw, Hr0. cbn [orb negb Nat.eqb].
      set (b1 := {| readers := readers b; writer := upd (writer b) r0 true |}).
      cbn [excl_of flat_map app] in Hn. fold (excl_of xs) in Hn. inversion Hn as [|? ? Hnotin Hn']; subst.
      destruct (IH b1) as [b' [Ha Hb]].
      { repeat split.
        - intros r Hr. cbn. assert (r <> r0). { intros ->. apply (Hd r0); [left; reflexivity|right; assumption]. }
          rewrite upd_neq by assumption. apply Hs. right. assumption.
        - cbn. assert (r <> r0). { intros ->. apply Hnotin. apply in_excl_of. assumption. }
          rewrite upd_neq by assumption. apply He. right. assumption.
        - cbn. apply He. right. assumption.
        - exact Hn'.
        - intros r Hr H. apply (Hd r); right; assumption. }
      exists b'. split; [exact Ha|]. intros r. destruct (Hb r) as [H1 H2]. rewrite H1, H2. cbn [b1 readers writer].
      unfold cnt_sh, has_ex. cbn [shared_of excl_of flat_map app]. fold (shared_of xs). fold (excl_of xs).
      split; [reflexivity|]. cbn [existsb]. destruct (N.eqb_spec r r0) as [->|Hne].
      * rewrite upd_eq, Hw. reflexivity.
      * rewrite upd_neq by assumption. reflexivity.
Qed.

(* conversely a refused borrow is a real incompatibility: used for the
   non-vacuity example only, so just the direction above is needed. *)

(* ------------------------------------------------------------------ release_all *)

Definition can_drop (b : bstate) (xs : list borrow) : Prop :=
  (forall r, cnt_sh xs r <= readers b r) /\
  (forall r, In (r, Ex) xs -> writer b r = true) /\
  NoDup (excl_of xs).

Lemma release_all_ok xs : forall b, can_drop b xs ->
  exists b', release_all b xs = Some b' /\
    forall r, readers b' r = readers b r - cnt_sh xs r /\ writer b' r = writer b r && negb (has_ex xs r).
Proof.
  induction xs as [|[r0 m] xs IH]; intros b (Hc & He & Hn).
  - exists b. split; [reflexivity|]. intros r. cbn. rewrite andb_true_r. split; [lia|reflexivity].
  - destruct m.
    + assert (Hr0 : 1 <= readers b r0).
      { specialize (Hc r0). unfold cnt_sh in Hc. cbn [shared_of flat_map app count_occ] in Hc.
        destruct (N.eq_dec r0 r0); [lia|congruence]. }
      cbn [release_all release]. destruct (readers b r0) as [|n] eqn:En; [lia|].
      set (b1 := {| readers := upd (readers b) r0 n; writer := writer b |}).
      destruct (IH b1) as [b' [Ha Hb]].
      { repeat split.
        - intros r. specialize (Hc r). unfold cnt_sh in *. cbn [shared_of flat_map app count_occ] in Hc.
          fold (shared_of xs) in Hc. cbn [b1 readers]. destruct (N.eq_dec r0 r) as [->|Hne].
          + rewrite upd_eq. lia.
          + rewrite upd_neq by congruence. assumption.
        - intros r Hr. cbn. apply He. right. assumption.
        - exact Hn. }
      exists b'. split; [exact Ha|]. intros r. destruct (Hb r) as [H1 H2]. rewrite H1, H2. cbn [b1 readers writer].
      unfold cnt_sh, has_ex. cbn [shared_of excl_of flat_map app]. fold (shared_of xs). fold (excl_of xs).
      split; [|reflexivity]. cbn [count_occ]. destruct (N.eq_dec r0 r) as [->|Hne].
      * rewrite upd_eq. lia.
      * rewrite upd_neq by congruence. lia.
    + assert (Hw : writer b r0 = true) by (apply He; left; reflexivity).
      cbn [release_all release]. rewrite Hw.
      set (b1 := {| readers := readers b; writer := upd (writer b) r0 false |}).
      cbn [excl_of flat_map app] in Hn. fold (excl_of xs) in Hn. inversion Hn as [|? ? Hnotin Hn']; subst.
      destruct (IH b1) as [b' [Ha Hb]].
      { repeat split.
        - intros r. specialize (Hc r). unfold cnt_sh in *. cbn [shared_of flat_map app] in Hc. exact Hc.
        - intros r Hr. cbn. assert (r <> r0). { intros ->. apply Hnotin. apply in_excl_of. assumption. }
          rewrite upd_neq by assumption. apply He. right. assumption.
        - exact Hn'. }
      exists b'. split; [exact Ha|]. intros r. destruct (Hb r) as [H1 H2]. rewrite H1, H2. cbn [b1 readers writer].
      unfold cnt_sh, has_ex. cbn [shared_of excl_of flat_map app]. fold (shared_of xs). fold (excl_of xs).
      split; [reflexivity|]. cbn [existsb]. destruct (N.eqb_spec r r0) as [->|Hne].
      * rewrite upd_eq. cbn. rewrite andb_false_r. reflexivity.
      * rewrite upd_neq by assumption. reflexivity.
Qed.

(* ------------------------------------------------------------------ a system's own borrows *)

Lemma shared_of_sys s : shared_of (sys_borrows s) = s_reads s.
Proof.
  unfold sys_borrows. rewrite shared_of_app.
  assert (forall l, shared_of (map (fun r => (r, Sh)) l) = l) as H1.
  { induction l as [|x l IH]; cbn; [reflexivity|]. f_equal. exact IH. }
  assert (forall l, shared_of (map (fun r => (r, Ex)) l) = []) as H2.
  { induction l as [|x l IH]; cbn; [reflexivity|exact IH]. }
  rewrite H1, H2. apply app_nil_r.
Qed.

Lemma excl_of_sys s : excl_of (sys_borrows s) = s_writes s.
Proof.
  unfold sys_borrows. rewrite excl_of_app.
  assert (forall l, excl_of (map (fun r => (r, Ex)) l) = l) as H1.
  { induction l as [|x l IH]; cbn; [reflexivity|]. f_equal. exact IH. }
  assert (forall l, excl_of (map (fun r => (r, Sh)) l) = []) as H2.
  { induction l as [|x l IH]; cbn; [reflexivity|exact IH]. }
  rewrite H1, H2. reflexivity.
Qed.

(* the fetch order of the handles and the declared order take the same
   borrows: whenever the flags allow the declared list they allow the fetch
   list, and the resulting flags agree on every resource *)
Lemma fetch_order_irrelevant hs id deps t b :
  let s := {| s_id := id; s_reads := decl_reads hs; s_writes := decl_writes hs; s_deps := deps; s_time := t |} in
  can_take b (sys_borrows s) ->
  exists b1 b2, acquire_all b (sys_borrows s) = Some b1 /\ acquire_all b (fetch_all hs) = Some b2 /\
    forall r, readers b1 r = readers b2 r /\ writer b1 r = writer b2 r.
Proof.
  intros s Hc.
  assert (Hc2 : can_take b (fetch_all hs)).
  { destruct Hc as (H1 & H2 & H3 & H4). destruct (decl_matches_fetch_all hs) as [Es Ee].
    rewrite excl_of_sys in H3. cbn [s s_writes] in H3.
    assert (Hsh : forall r, In (r, Sh) (fetch_all hs) <-> In (r, Sh) (sys_borrows s)).
    { intros r. rewrite <- !in_shared_of, Es, shared_of_sys. reflexivity. }
    assert (Hex : forall r, In (r, Ex) (fetch_all hs) <-> In (r, Ex) (sys_borrows s)).
    { intros r. rewrite <- !in_excl_of, Ee, excl_of_sys. reflexivity. }
    repeat split.
    - intros r Hr. apply H1, Hsh, Hr.
    - apply H2, Hex. assumption.
    - apply H2, Hex. assumption.
    - rewrite Ee. exact H3.
    - intros r Hr Hr2. apply (H4 r); [apply Hex|apply Hsh]; assumption. }
  destruct (acquire_all_ok _ _ Hc) as [b1 [Ha1 Hb1]].
  destruct (acquire_all_ok _ _ Hc2) as [b2 [Ha2 Hb2]].
  exists b1, b2. split; [assumption|]. split; [assumption|].
  intros r. destruct (Hb1 r) as [-> ->]. destruct (Hb2 r) as [-> ->].
  destruct (decl_matches_fetch_all hs) as [Es Ee].
  unfold cnt_sh, has_ex. rewrite Es, Ee, shared_of_sys, excl_of_sys. auto.
Qed.

(* after fetching a handle from a world where nothing is borrowed, a probe of
   any resource sees: exclusive on its writes(), shared on its reads(), free
   elsewhere *)
Lemma store_ne_ent t : N.eqb (R_STORE t) R_ENT = false.
Proof. apply N.eqb_neq. unfold R_STORE, R_ENT. lia. Qed.

Lemma fetch_then_probe h :
  exists b, acquire_all bs_init (fetch_borrows h) = Some b /\
    forall r, probe b r =
      if existsb (N.eqb r) (snd (decl h)) then 2%Z
      else if existsb (N.eqb r) (fst (decl h)) then 1%Z else 0%Z.
Proof.
  destruct h as [| |t|t]; unfold fetch_borrows, acquire_all, acquire, bs_init; cbn [writer readers];
    unfold upd at 1; rewrite ?store_ne_ent; cbn [orb negb Nat.eqb];
    (eexists; split; [reflexivity|]); intros r; unfold probe, decl; cbn [writer readers fst snd existsb orb];
    unfold upd.
  - destruct (N.eqb r R_ENT); reflexivity.
  - destruct (N.eqb r R_LAZY); reflexivity.
  - destruct (N.eqb_spec r (R_STORE t)) as [->|H2].
    + rewrite store_ne_ent. reflexivity.
    + destruct (N.eqb r R_ENT); reflexivity.
  - destruct (N.eqb_spec r (R_STORE t)) as [->|H2]; [reflexivity|].
    destruct (N.eqb r R_ENT); reflexivity.
Qed.

(* ------------------------------------------------------------------ tuples that can be fetched at all *)

Definition h_comp (h : handle) : list N := match h with HRead t | HWrite t => [t] | _ => [] end.
(* every component type is named by at most one storage handle of the tuple *)
Definition handles_ok (hs : list handle) : Prop := NoDup (flat_map h_comp hs).

Lemma in_decl_writes hs r : In r (decl_writes hs) <-> exists t, r = R_STORE t /\ In (HWrite t) hs.
Proof.
  unfold decl_writes. rewrite in_flat_map. split.
  - intros [h [Hh Hr]]. destruct h; cbn in Hr; try contradiction. destruct Hr as [<-|[]]. eauto.
  - intros [t [-> Hh]]. exists (HWrite t). split; [assumption|left; reflexivity].
Qed.

Lemma in_decl_reads hs r : In r (decl_reads hs) ->
  r = R_ENT \/ r = R_LAZY \/ exists t, r = R_STORE t /\ In (HRead t) hs.
Proof.
  unfold decl_reads. rewrite in_flat_map. intros [h [Hh Hr]]. destruct h; cbn in Hr.
  - destruct Hr as [<-|[]]. auto.
  - destruct Hr as [<-|[]]. auto.
  - destruct Hr as [<-|[<-|[]]]; [auto|]. right. right. eauto.
  - destruct Hr as [<-|[]]. auto.
Qed.

Lemma flat_map_nodup_disjoint {A B} (f : A -> list B) l :
  NoDup (flat_map f l) -> forall a b x, In a l -> In b l -> a <> b -> In x (f a) -> In x (f b) -> False.
Proof.
  induction l as [|y l IH]; cbn [flat_map]; intros Hn a b x Ha Hb Hne Hxa Hxb; [destruct Ha|].
  assert (Hn2 : NoDup (flat_map f l)).
  { clear -Hn. induction (f y) as [|z fy IHf]; cbn in Hn; [assumption|]. inversion Hn; auto. }
  assert (Hd : forall z, In z (f y) -> In z (flat_map f l) -> False).
  { clear -Hn. induction (f y) as [|z0 fy IHf]; cbn in Hn; intros z Hz Hz2; [destruct Hz|].
    inversion Hn as [|? ? Hni Hn']; subst. destruct Hz as [->|Hz].
    - apply Hni. apply in_or_app. right. assumption.
    - eapply IHf; eauto. }
  destruct Ha as [->|Ha], Hb as [->|Hb].
  - congruence.
  - apply (Hd x Hxa). apply in_flat_map. eauto.
  - apply (Hd x Hxb). apply in_flat_map. eauto.
  - eapply IH; eauto.
Qed.

Lemma handles_self_ok hs id deps t : handles_ok hs ->
  self_ok {| s_id := id; s_reads := decl_reads hs; s_writes := decl_writes hs; s_deps := deps; s_time := t |}.
Proof.
  intros Hok. unfold self_ok. cbn [s_reads s_writes]. split.
  - unfold handles_ok in Hok. induction hs as [|h hs IH]; [constructor|].
    assert (Hok' : NoDup (flat_map h_comp hs)).
    { cbn [flat_map] in Hok. destruct h; cbn in Hok; try assumption; inversion Hok; assumption. }
    unfold decl_writes. cbn [flat_map]. fold (decl_writes hs).
    destruct h; cbn [decl snd app]; try (apply IH; assumption).
    constructor; [|apply IH; assumption].
    intros Hin. apply in_decl_writes in Hin. destruct Hin as [t' [E Hin]].
    assert (t0 = t') by (unfold R_STORE in E; lia). subst t'.
    cbn in Hok. inversion Hok as [|? ? Hni _]; subst. apply Hni. apply in_flat_map.
    exists (HWrite t0). split; [assumption|left; reflexivity].
  - intros r Hw Hr. apply in_decl_writes in Hw. destruct Hw as [tw [-> Hw]].
    apply in_decl_reads in Hr. destruct Hr as [E|[E|[tr [E Hr]]]]; try (unfold R_STORE, R_ENT, R_LAZY in E; lia).
    assert (tw = tr) by (unfold R_STORE in E; lia). subst tr.
    apply (flat_map_nodup_disjoint h_comp hs Hok (HWrite tw) (HRead tw) tw); auto; try discriminate; left; reflexivity.
Qed.
