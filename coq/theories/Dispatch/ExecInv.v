(* Execution theorems: in every interleaving the scheduler may choose, every
   system runs exactly once, dependencies have ended before a dependant
   starts, no two overlapping executions conflict, and the borrow flags never
   refuse a borrow.

   Granularity: a system's fetch is one event here and the drop of its data
   another.  FineExec.v / FineInv.v prove "no borrow is ever refused" again on
   traces where every single borrow and every single drop is its own event. *)
From SV Require Import Dispatch.Stage Dispatch.Borrow Dispatch.Exec Dispatch.StageInv Dispatch.BorrowInv.
From Coq Require Import Permutation.
Local Open Scope nat_scope.

(* ------------------------------------------------------------------ lists *)

Lemma NoDup_app_inv {A} (l1 l2 : list A) :
  NoDup (l1 ++ l2) -> NoDup l1 /\ NoDup l2 /\ (forall x, In x l1 -> In x l2 -> False).
Proof.
  induction l1 as [|a l1 IH]; cbn; intros H.
  - split; [constructor|]. split; [assumption|]. intros x [].
  - inversion H as [|? ? Hn Hd]; subst. destruct (IH Hd) as [H1 [H2 H3]]. split.
    + constructor; [|assumption]. intros Hin. apply Hn. apply in_or_app. left. assumption.
    + split; [assumption|]. intros x [<-|Hx] Hx2.
      * apply Hn. apply in_or_app. right. assumption.
      * eapply H3; eauto.
Qed.

Lemma merge_perm ls tr : merge ls tr -> Permutation tr (concat ls).
Proof.
  induction 1 as [ls H|l1 e t l2 tr H IH].
  - induction H as [|l ls Hl _ IH]; cbn; [constructor|]. subst l. exact IH.
  - rewrite concat_app in *. cbn [concat] in *. cbn [app].
    eapply Permutation_trans; [apply perm_skip; exact IH|]. apply Permutation_middle.
Qed.

(* ------------------------------------------------------------------ sums over the running set *)

Definition rd_sum (R : list sys) (r : N) : nat :=
  fold_right (fun s a => count_occ N.eq_dec (s_reads s) r + a) 0 R.
Definition wr_any (R : list sys) (r : N) : bool :=
  existsb (fun s => existsb (N.eqb r) (s_writes s)) R.
Definition b_inv (b : bstate) (R : list sys) : Prop :=
  forall r, readers b r = rd_sum R r /\ writer b r = wr_any R r.

Lemma rd_sum_cons s R r : rd_sum (s :: R) r = count_occ N.eq_dec (s_reads s) r + rd_sum R r.
Proof. reflexivity. Qed.
Lemma wr_any_cons s R r : wr_any (s :: R) r = existsb (N.eqb r) (s_writes s) || wr_any R r.
Proof. reflexivity. Qed.

Lemma rd_sum_app R1 R2 r : rd_sum (R1 ++ R2) r = rd_sum R1 r + rd_sum R2 r.
Proof. unfold rd_sum. induction R1 as [|s R1 IH]; cbn [app fold_right]; [reflexivity|]. rewrite IH. lia. Qed.
Lemma wr_any_app R1 R2 r : wr_any (R1 ++ R2) r = wr_any R1 r || wr_any R2 r.
Proof. unfold wr_any. apply existsb_app. Qed.

Lemma rd_sum_zero R r : (forall s, In s R -> ~ In r (s_reads s)) -> rd_sum R r = 0.
Proof.
  induction R as [|s R IH]; intros H; [reflexivity|].
  change (rd_sum (s :: R) r) with (count_occ N.eq_dec (s_reads s) r + rd_sum R r).
  rewrite IH by (intros; apply H; right; assumption).
  assert (count_occ N.eq_dec (s_reads s) r = 0) by (apply count_occ_not_In, H; left; reflexivity). lia.
Qed.
Lemma wr_any_false R r : (forall s, In s R -> ~ In r (s_writes s)) -> wr_any R r = false.
Proof.
  intros H. unfold wr_any. destruct (existsb _ R) eqn:E; [|reflexivity].
  apply existsb_exists in E. destruct E as [s [Hs Hr]]. apply existsb_eqb_In in Hr. exfalso. eapply H; eauto.
Qed.

Lemma b_inv_init : b_inv bs_init [].
Proof. intros r. cbn. auto. Qed.

Lemma remove_sys_split R : forall s, NoDup (map s_id R) -> In s R ->
  exists R1 R2, R = R1 ++ s :: R2 /\ remove_sys (s_id s) R = R1 ++ R2.
Proof.
  induction R as [|x R IH]; intros s Hn Hin; [destruct Hin|]. cbn [remove_sys].
  inversion Hn as [|? ? Hx Hn']; subst. destruct Hin as [->|Hin].
  - rewrite N.eqb_refl. exists [], R. auto.
  - destruct (N.eqb_spec (s_id x) (s_id s)) as [E|E].
    + exfalso. apply Hx. rewrite E. apply in_map. assumption.
    + destruct (IH s Hn' Hin) as [R1 [R2 [-> ->]]]. exists (x :: R1), R2. auto.
Qed.

(* ------------------------------------------------------------------ one stage *)

Definition cfg := (list sys * option sys * list sys)%type.
Definition c_group (c : cfg) : group :=
  let '(d, cur, todo) := c in d ++ (match cur with Some s => [s] | None => [] end) ++ todo.
Definition c_flat (c : cfg) : list ev :=
  let '(d, cur, todo) := c in (match cur with Some s => [EEnd s] | None => [] end) ++ group_trace todo.
Definition c_cur (c : cfg) : list sys := let '(d, cur, todo) := c in match cur with Some s => [s] | None => [] end.
Definition c_done (c : cfg) : list sys := let '(d, cur, todo) := c in d.
Definition currents (cs : list cfg) : list sys := flat_map c_cur cs.

Lemma currents_app a b : currents (a ++ b) = currents a ++ currents b.
Proof. apply flat_map_app. Qed.

Lemma c_cur_in_group c s : In s (c_cur c) -> In s (c_group c).
Proof.
  destruct c as [[d [x|]] todo]; cbn; [|tauto]. intros [<-|[]]. apply in_or_app. right. left. reflexivity.
Qed.

Lemma currents_in cs s : In s (currents cs) -> In s (concat (map c_group cs)).
Proof.
  unfold currents. rewrite in_flat_map. intros [c [Hc Hs]]. apply in_concat.
  exists (c_group c). split; [apply in_map; assumption|apply c_cur_in_group; assumption].
Qed.

Lemma free_split g1s g g2s a b :
  stage_free (g1s ++ g :: g2s) -> In a g -> In b (concat (g1s ++ g2s)) -> sys_conflict a b = false.
Proof.
  intros Hf Ha Hb. apply in_concat in Hb. destruct Hb as [g' [Hg' Hb]].
  assert (Hi : nth_error (g1s ++ g :: g2s) (length g1s) = Some g).
  { rewrite nth_error_app2 by lia. replace (length g1s - length g1s) with 0 by lia. reflexivity. }
  apply in_app_or in Hg'. destruct Hg' as [Hg'|Hg']; apply In_nth_error in Hg'; destruct Hg' as [j Hj].
  - assert (j < length g1s) by (apply nth_error_Some; congruence).
    apply (Hf (length g1s) j g g'); auto; [lia|]. rewrite nth_error_app1 by assumption. assumption.
  - apply (Hf (length g1s) (length g1s + S j) g g'); auto; [lia|].
    rewrite nth_error_app2 by lia. replace (length g1s + S j - length g1s) with (S j) by lia. assumption.
Qed.

Lemma ids_split g1s g g2s a b :
  NoDup (stage_ids (g1s ++ g :: g2s)) -> In a g -> In b (concat (g1s ++ g2s)) -> s_id a <> s_id b.
Proof.
  unfold stage_ids, stage_sys. rewrite !concat_app. cbn [concat]. rewrite !map_app.
  intros Hn Ha Hb E. apply in_app_or in Hb.
  apply NoDup_app_inv in Hn. destruct Hn as [_ [Hn H1]].
  apply NoDup_app_inv in Hn. destruct Hn as [_ [_ H2]].
  destruct Hb as [Hb|Hb].
  - apply (H1 (s_id b)); [apply in_map; assumption|]. apply in_or_app. left. rewrite <- E. apply in_map. assumption.
  - apply (H2 (s_id a)); [apply in_map; assumption|]. rewrite E. apply in_map. assumption.
Qed.

Lemma deps_group_mid g1 : forall a s g2,
  deps_group a (g1 ++ s :: g2) -> forall d, In d (s_deps s) -> In d (g_ids g1) \/ In d a.
Proof.
  induction g1 as [|x g1 IH]; intros a s g2 H d Hd; cbn in H.
  - right. apply (proj1 H). assumption.
  - destruct H as [_ H]. destruct (IH _ _ _ H d Hd) as [H1|[<-|H1]].
    + left. right. assumption.
    + left. left. reflexivity.
    + right. assumption.
Qed.

Section OneStage.
  Variable st : stage.
  Variable avail : list N.
  Hypothesis Hfree : stage_free st.
  Hypothesis Hnd : NoDup (stage_ids st).
  Hypothesis Hself : forall s, In s (stage_sys st) -> self_ok s.
  Hypothesis Hdeps : Forall (deps_group avail) st.

  Record inv (cs : list cfg) (m : mstate) : Prop := {
    i_emb : map c_group cs = st;
    i_stuck : m_stuck m = false;
    i_run : forall s, In s (m_running m) <-> In s (currents cs);
    i_nd : NoDup (map s_id (m_running m));
    i_b : b_inv (m_b m) (m_running m);
    i_done : forall x, (In x avail \/ exists c, In c cs /\ In x (g_ids (c_done c))) -> In x (m_done m)
  }.

  (* a system of group c conflicts with no current system of another group *)
  Lemma other_currents c1 c c2 a s' :
    map c_group (c1 ++ c :: c2) = st -> In a (c_group c) -> In s' (currents (c1 ++ c2)) ->
    sys_conflict a s' = false /\ s_id a <> s_id s'.
  Proof.
    intros He Ha Hs. apply currents_in in Hs. rewrite map_app in Hs.
    rewrite map_app in He. cbn [map] in He. rewrite <- He in Hfree, Hnd.
    split; [eapply free_split|eapply ids_split]; eauto.
  Qed.

  Lemma in_stage c1 c c2 a : map c_group (c1 ++ c :: c2) = st -> In a (c_group c) -> In a (stage_sys st).
  Proof.
    intros He Ha. rewrite <- He. unfold stage_sys. apply in_concat. exists (c_group c). split; [|assumption].
    apply in_map. apply in_or_app. right. left. reflexivity.
  Qed.

  Lemma start_step c1 d s todo c2 m :
    inv (c1 ++ (d, None, s :: todo) :: c2) m ->
    inv (c1 ++ (d, Some s, todo) :: c2) (m_step m (EStart s)) /\ step_safe m (EStart s).
  Proof.
    intros [He Hst Hrun Hn Hb Hdone].
    assert (Hin : In s (c_group (d, None, s :: todo))) by (cbn; apply in_or_app; right; left; reflexivity).
    assert (Hoth : forall s', In s' (m_running m) -> sys_conflict s s' = false /\ s_id s <> s_id s').
    { intros s' Hs'. apply Hrun in Hs'. rewrite currents_app in Hs'. cbn [currents flat_map c_cur app] in Hs'.
      fold (currents c2) in Hs'. rewrite <- currents_app in Hs'. eapply other_currents; eauto. }
    assert (Hso : self_ok s) by (eapply Hself, in_stage; eauto).
    destruct Hso as [Hsn Hsd].
    assert (Hc : can_take (m_b m) (sys_borrows s)).
    { repeat split.
      - intros r Hr. apply in_shared_of in Hr. rewrite shared_of_sys in Hr.
        rewrite (proj2 (Hb r)). apply wr_any_false. intros s' Hs' Hw.
        destruct (Hoth s' Hs') as [Hc _]. apply sys_conflict_false_iff in Hc. apply (proj2 Hc r Hr Hw).
      - apply in_excl_of in H. rewrite excl_of_sys in H.
        rewrite (proj2 (Hb r)). apply wr_any_false. intros s' Hs' Hw.
        destruct (Hoth s' Hs') as [Hc _]. apply sys_conflict_false_iff in Hc. apply (proj1 (proj1 Hc r H) Hw).
      - apply in_excl_of in H. rewrite excl_of_sys in H.
        rewrite (proj1 (Hb r)). apply rd_sum_zero. intros s' Hs' Hw.
        destruct (Hoth s' Hs') as [Hc _]. apply sys_conflict_false_iff in Hc. apply (proj2 (proj1 Hc r H) Hw).
      - rewrite excl_of_sys. assumption.
      - intros r Hr Hr2. apply in_excl_of in Hr. apply in_shared_of in Hr2.
        rewrite excl_of_sys in Hr. rewrite shared_of_sys in Hr2. eapply Hsd; eauto. }
    destruct (acquire_all_ok _ _ Hc) as [b' [Ha Hb']].
    assert (Hstep : m_step m (EStart s) =
      {| m_running := s :: m_running m; m_done := m_done m; m_b := b'; m_stuck := false |}).
    { unfold m_step. rewrite Hst, Ha. reflexivity. }
    split.
    - rewrite Hstep. constructor; cbn [m_running m_done m_b m_stuck].
      + rewrite <- He. rewrite !map_app. cbn. reflexivity.
      + reflexivity.
      + intros s'. rewrite currents_app. cbn [currents flat_map c_cur app]. fold (currents c2).
        rewrite in_app_iff. cbn [In]. rewrite Hrun, currents_app. cbn [currents flat_map c_cur app].
        fold (currents c2). rewrite in_app_iff. tauto.
      + cbn [map]. constructor; [|assumption]. intros Hi. apply in_map_iff in Hi.
        destruct Hi as [s' [E Hs']]. destruct (Hoth s' Hs') as [_ Hne]. congruence.
      + intros r. destruct (Hb' r) as [H1 H2]. destruct (Hb r) as [H3 H4]. split.
        * rewrite H1, H3. rewrite ?rd_sum_cons. unfold cnt_sh. rewrite shared_of_sys. lia.
        * rewrite H2, H4. rewrite ?wr_any_cons. unfold has_ex. rewrite excl_of_sys. apply orb_comm.
      + intros x [Hx|[c [Hc' Hx]]]; apply Hdone; [left; assumption|].
        right. apply in_app_or in Hc'. destruct Hc' as [Hc'|[<-|Hc']].
        * exists c. split; [apply in_or_app; left; assumption|assumption].
        * exists (d, None, s :: todo). split; [apply in_or_app; right; left; reflexivity|assumption].
        * exists c. split; [apply in_or_app; right; right; assumption|assumption].
    - split; [rewrite Hstep; reflexivity|]. split.
      + intros s' Hs'. apply (Hoth s' Hs').
      + intros x Hx. apply Hdone.
        assert (Hg : In (c_group (d, None, s :: todo)) st).
        { rewrite <- He. apply in_map. apply in_or_app. right. left. reflexivity. }
        rewrite Forall_forall in Hdeps. specialize (Hdeps _ Hg). cbn [c_group app] in Hdeps.
        destruct (deps_group_mid _ _ _ _ Hdeps x Hx) as [H|H]; [|left; assumption].
        right. exists (d, None, s :: todo). split; [apply in_or_app; right; left; reflexivity|assumption].
  Qed.

  Lemma end_step c1 d s todo c2 m :
    inv (c1 ++ (d, Some s, todo) :: c2) m ->
    inv (c1 ++ (d ++ [s], None, todo) :: c2) (m_step m (EEnd s)) /\ step_safe m (EEnd s).
  Proof.
    intros [He Hst Hrun Hn Hb Hdone].
    assert (Hin : In s (c_group (d, Some s, todo))) by (cbn; apply in_or_app; right; left; reflexivity).
    assert (HsR : In s (m_running m)).
    { apply Hrun. rewrite currents_app. apply in_or_app. right. left. reflexivity. }
    destruct (remove_sys_split _ s Hn HsR) as [R1 [R2 [ER Erm]]].
    assert (Hoth : forall s', In s' (R1 ++ R2) -> sys_conflict s s' = false /\ In s' (currents (c1 ++ c2))).
    { intros s' Hs'.
      assert (Hne : s_id s' <> s_id s).
      { rewrite ER, map_app in Hn. cbn [map] in Hn. apply NoDup_remove_2 in Hn. intros E. apply Hn.
        rewrite <- E, <- map_app. apply in_map. assumption. }
      assert (HsR' : In s' (m_running m)).
      { rewrite ER. apply in_app_or in Hs'. apply in_or_app. destruct Hs'; [left|right; right]; assumption. }
      apply Hrun in HsR'. rewrite currents_app in HsR'. cbn [currents flat_map c_cur app] in HsR'.
      fold (currents c2) in HsR'. apply in_app_or in HsR'.
      assert (Hc : In s' (currents (c1 ++ c2))).
      { rewrite currents_app. apply in_or_app. destruct HsR' as [H|[H|H]]; [left; assumption| |right; assumption].
        subst s'. congruence. }
      split; [|assumption]. eapply other_currents; eauto. }
    assert (Hso : self_ok s) by (eapply Hself, in_stage; eauto).
    destruct Hso as [Hsn Hsd].
    assert (Hc : can_drop (m_b m) (sys_borrows s)).
    { repeat split.
      - intros r. unfold cnt_sh. rewrite shared_of_sys, (proj1 (Hb r)), ER, rd_sum_app. rewrite ?rd_sum_cons. lia.
      - intros r Hr. apply in_excl_of in Hr. rewrite excl_of_sys in Hr.
        rewrite (proj2 (Hb r)), ER, wr_any_app. rewrite ?wr_any_cons.
        assert (existsb (N.eqb r) (s_writes s) = true) as -> by (apply existsb_eqb_In; assumption).
        cbn. apply orb_true_r.
      - rewrite excl_of_sys. assumption. }
    destruct (release_all_ok _ _ Hc) as [b' [Ha Hb']].
    assert (Hstep : m_step m (EEnd s) =
      {| m_running := R1 ++ R2; m_done := s_id s :: m_done m; m_b := b'; m_stuck := false |}).
    { unfold m_step. rewrite Hst, Ha, Erm. reflexivity. }
    split.
    - rewrite Hstep. constructor; cbn [m_running m_done m_b m_stuck].
      + rewrite <- He. rewrite !map_app. cbn. rewrite <- !app_assoc. reflexivity.
      + reflexivity.
      + intros s'. rewrite currents_app. cbn [currents flat_map c_cur app]. fold (currents c2).
        rewrite <- currents_app. split.
        * intros Hs'. apply (Hoth s' Hs').
        * intros Hs'.
          assert (HsR' : In s' (m_running m)).
          { apply Hrun. rewrite currents_app in *. cbn [currents flat_map c_cur app]. fold (currents c2).
            apply in_app_or in Hs'. apply in_or_app. destruct Hs'; [left|right; right]; assumption. }
          rewrite ER in HsR'. apply in_app_or in HsR'. apply in_or_app.
          destruct HsR' as [H|[H|H]]; [left; assumption| |right; assumption].
          subst s'. exfalso. destruct (other_currents _ _ _ s s He Hin Hs') as [_ Hne]. congruence.
      + rewrite ER, map_app in Hn. cbn [map] in Hn. apply NoDup_remove_1 in Hn. rewrite map_app. assumption.
      + intros r. destruct (Hb' r) as [H1 H2]. destruct (Hb r) as [H3 H4]. split.
        * rewrite H1, H3, ER, !rd_sum_app. rewrite ?rd_sum_cons. unfold cnt_sh. rewrite shared_of_sys. lia.
        * rewrite H2, H4, ER, !wr_any_app. rewrite ?wr_any_cons. unfold has_ex. rewrite excl_of_sys.
          destruct (existsb (N.eqb r) (s_writes s)) eqn:Ew.
          -- cbn. rewrite andb_false_r. symmetry. rewrite <- wr_any_app. apply wr_any_false.
             intros s' Hs' Hw. destruct (Hoth s' Hs') as [Hcf _]. apply sys_conflict_false_iff in Hcf.
             apply existsb_eqb_In in Ew. apply (proj1 (proj1 Hcf r Ew) Hw).
          -- cbn. rewrite andb_true_r. reflexivity.
      + intros x [Hx|[c [Hc' Hx]]].
        * right. apply Hdone. left. assumption.
        * apply in_app_or in Hc'. destruct Hc' as [Hc'|[<-|Hc']].
          -- right. apply Hdone. right. exists c. split; [apply in_or_app; left; assumption|assumption].
          -- cbn [c_done] in Hx. unfold g_ids in Hx. rewrite map_app in Hx. apply in_app_or in Hx.
             destruct Hx as [Hx|[<-|[]]]; [|left; reflexivity].
             right. apply Hdone. right. exists (d, Some s, todo).
             split; [apply in_or_app; right; left; reflexivity|assumption].
          -- right. apply Hdone. right. exists c. split; [apply in_or_app; right; right; assumption|assumption].
    - split; [rewrite Hstep; reflexivity|]. exact HsR.
  Qed.

  Lemma c_flat_cons c e t :
    c_flat c = e :: t ->
    (exists d s todo, c = (d, Some s, todo) /\ e = EEnd s /\ t = c_flat (d ++ [s], None, todo)) \/
    (exists d s todo, c = (d, None, s :: todo) /\ e = EStart s /\ t = c_flat (d, Some s, todo)).
  Proof.
    destruct c as [[d [s|]] todo]; cbn.
    - intros H. inversion H; subst. left. exists d, s, todo. auto.
    - destruct todo as [|s todo]; cbn; [discriminate|]. intros H. inversion H; subst.
      right. exists d, s, todo. auto.
  Qed.

  Lemma stage_run : forall ls tr, merge ls tr -> forall cs m, ls = map c_flat cs -> inv cs m ->
    safe_run m tr /\ exists cs', inv cs' (m_run m tr) /\ Forall (fun l => l = []) (map c_flat cs').
  Proof.
    induction 1 as [ls Hd|l1 e t l2 tr Hm IH]; intros cs m Heq Hi.
    - split; [exact I|]. exists cs. subst ls. split; assumption.
    - symmetry in Heq. apply map_eq_app in Heq. destruct Heq as [c1 [cr [-> [E1 E2]]]].
      apply map_eq_cons in E2. destruct E2 as [c [c2 [-> [Ec E2]]]].
      destruct (c_flat_cons _ _ _ Ec) as [[d [s [todo [-> [-> ->]]]]]|[d [s [todo [-> [-> ->]]]]]].
      + destruct (end_step _ _ _ _ _ _ Hi) as [Hi' Hs].
        destruct (IH (c1 ++ (d ++ [s], None, todo) :: c2) (m_step m (EEnd s))) as [Hsafe Hex].
        { rewrite map_app. cbn [map]. rewrite E1, E2. reflexivity. }
        { assumption. }
        split; [split; assumption|exact Hex].
      + destruct (start_step _ _ _ _ _ _ Hi) as [Hi' Hs].
        destruct (IH (c1 ++ (d, Some s, todo) :: c2) (m_step m (EStart s))) as [Hsafe Hex].
        { rewrite map_app. cbn [map]. rewrite E1, E2. reflexivity. }
        { assumption. }
        split; [split; assumption|exact Hex].
  Qed.

  Lemma stage_exec m tr :
    m_stuck m = false -> m_running m = [] -> b_inv (m_b m) [] ->
    (forall x, In x avail -> In x (m_done m)) ->
    merge (map group_trace st) tr ->
    safe_run m tr /\
    m_stuck (m_run m tr) = false /\ m_running (m_run m tr) = [] /\ b_inv (m_b (m_run m tr)) [] /\
    (forall x, In x (stage_ids st ++ avail) -> In x (m_done (m_run m tr))).
  Proof.
    intros Hst Hr Hb Hd Hm.
    set (cs := map (fun g : group => (@nil sys, @None sys, g)) st).
    assert (Hflat : map group_trace st = map c_flat cs).
    { unfold cs. rewrite map_map. apply map_ext. intros g. reflexivity. }
    assert (Hi : inv cs m).
    { constructor.
      - unfold cs. rewrite map_map. rewrite <- (map_id st) at 2. apply map_ext. intros g. reflexivity.
      - assumption.
      - intros s. rewrite Hr. split; [intros []|]. unfold currents, cs. rewrite in_flat_map.
        intros [c [Hc Hs]]. apply in_map_iff in Hc. destruct Hc as [g [<- _]]. destruct Hs.
      - rewrite Hr. constructor.
      - rewrite Hr. assumption.
      - intros x [Hx|[c [Hc Hx]]]; [apply Hd; assumption|].
        unfold cs in Hc. apply in_map_iff in Hc. destruct Hc as [g [<- _]]. destruct Hx. }
    destruct (stage_run _ _ Hm cs m Hflat Hi) as [Hsafe [cs' [[He' Hs' Hrun' Hn' Hb' Hd'] Hall]]].
    split; [assumption|]. split; [assumption|].
    assert (Hcur : currents cs' = []).
    { clear -Hall. induction cs' as [|c cs' IH]; [reflexivity|]. cbn [map] in Hall. inversion Hall; subst.
      unfold currents. cbn [flat_map]. fold (currents cs'). rewrite IH by assumption.
      destruct c as [[d [s|]] todo]; cbn in *; [discriminate|reflexivity]. }
    assert (HR : m_running (m_run m tr) = []).
    { destruct (m_running (m_run m tr)) as [|s R]; [reflexivity|]. exfalso.
      assert (In s (currents cs')) by (apply Hrun'; left; reflexivity). rewrite Hcur in *. assumption. }
    split; [assumption|]. split; [rewrite <- HR; assumption|].
    intros x Hx. apply Hd'. apply in_app_or in Hx. destruct Hx as [Hx|Hx]; [|left; assumption].
    right. unfold stage_ids, stage_sys in Hx. rewrite <- He' in Hx. apply in_map_iff in Hx.
    destruct Hx as [s [<- Hs]]. apply in_concat in Hs. destruct Hs as [g [Hg Hs]].
    apply in_map_iff in Hg. destruct Hg as [c [<- Hc]]. exists c. split; [assumption|].
    assert (c_flat c = []) as Hf.
    { rewrite Forall_forall in Hall. apply Hall. apply in_map. assumption. }
    destruct c as [[d [s0|]] todo]; cbn in Hf; [discriminate|].
    destruct todo as [|s1 todo]; [|discriminate]. cbn in Hs. rewrite app_nil_r in Hs.
    cbn. apply in_map. assumption.
  Qed.
End OneStage.

(* ------------------------------------------------------------------ all stages *)

Lemma safe_run_app t1 : forall m t2, safe_run m (t1 ++ t2) <-> safe_run m t1 /\ safe_run (m_run m t1) t2.
Proof.
  induction t1 as [|e t1 IH]; intros m t2; cbn [app safe_run m_run fold_left].
  - tauto.
  - fold (m_run (m_step m e) t1). rewrite IH. tauto.
Qed.

Lemma m_run_app m t1 t2 : m_run m (t1 ++ t2) = m_run (m_run m t1) t2.
Proof. unfold m_run. apply fold_left_app. Qed.

Definition all_self_ok (sts : list stage) : Prop := forall s, In s (all_sys sts) -> self_ok s.

Lemma stages_exec sts : forall avail m tr,
  Forall stage_free sts -> NoDup (all_ids sts) -> all_self_ok sts -> deps_stages avail sts ->
  m_stuck m = false -> m_running m = [] -> b_inv (m_b m) [] ->
  (forall x, In x avail -> In x (m_done m)) ->
  stages_trace sts tr ->
  safe_run m tr /\ m_stuck (m_run m tr) = false /\ m_running (m_run m tr) = [] /\ b_inv (m_b (m_run m tr)) [].
Proof.
  induction sts as [|st sts IH]; intros avail m tr Hf Hn Hs Hd Hst Hr Hb Hdn Ht; inversion Ht; subst.
  - cbn. auto.
  - inversion Hf as [|? ? Hf1 Hf2]; subst. rewrite all_ids_cons in Hn. apply NoDup_app_inv in Hn.
    destruct Hn as [Hn1 [Hn2 _]]. destruct Hd as [Hd1 Hd2].
    assert (Hs1 : forall s, In s (stage_sys st) -> self_ok s).
    { intros s H. apply Hs. unfold all_sys. cbn [flat_map]. apply in_or_app. left. assumption. }
    assert (Hs2 : all_self_ok sts).
    { intros s H. apply Hs. unfold all_sys. cbn [flat_map]. apply in_or_app. right. assumption. }
    destruct (stage_exec st avail Hf1 Hn1 Hs1 Hd1 m t1 Hst Hr Hb Hdn H1) as [Sa [Sb [Sc [Sd Se]]]].
    destruct (IH (stage_ids st ++ avail) (m_run m t1) t2 Hf2 Hn2 Hs2 Hd2 Sb Sc Sd Se H3) as [Ta [Tb [Tc Td]]].
    rewrite m_run_app. split; [|auto]. apply safe_run_app. auto.
Qed.

Lemma stages_trace_perm sts : forall tr, stages_trace sts tr -> Permutation tr (flat_map sys_trace (all_sys sts)).
Proof.
  induction sts as [|st sts IH]; intros tr Ht; inversion Ht; subst; [constructor|].
  unfold all_sys. cbn [flat_map]. rewrite flat_map_app. apply Permutation_app.
  - eapply Permutation_trans; [apply merge_perm; eassumption|].
    unfold stage_sys. clear. induction st as [|g st IH]; cbn; [constructor|].
    rewrite flat_map_app. apply Permutation_app; [reflexivity|exact IH].
  - apply IH. assumption.
Qed.

(* ------------------------------------------------------------------ the machine's view = the trace's view *)

Lemma safe_run_state p : forall m, m_stuck m = false -> safe_run m p ->
  m_stuck (m_run m p) = false /\
  m_running (m_run m p) = running_after p (m_running m) /\
  (forall x, In x (m_done (m_run m p)) <-> In x (ends p) \/ In x (m_done m)).
Proof.
  induction p as [|e p IH]; intros m Hst Hs; cbn [m_run fold_left running_after ends flat_map].
  - cbn. split; [assumption|]. split; [reflexivity|]. tauto.
  - destruct Hs as [[Hns Hc] Hs]. fold (m_run (m_step m e) p). destruct (IH _ Hns Hs) as [H1 [H2 H3]].
    split; [assumption|]. unfold m_step in *. rewrite Hst in *. destruct e as [s|s].
    + destruct (acquire_all (m_b m) (sys_borrows s)); [|discriminate]. cbn [m_running m_done] in *.
      split; [assumption|]. intros x. rewrite H3. cbn. tauto.
    + destruct (release_all (m_b m) (sys_borrows s)); [|discriminate]. cbn [m_running m_done] in *.
      split; [assumption|]. intros x. rewrite H3. cbn. tauto.
Qed.

Lemma safe_run_at m p e q : m_stuck m = false -> safe_run m (p ++ e :: q) -> step_safe (m_run m p) e.
Proof. intros Hst H. apply safe_run_app in H. destruct H as [_ [H _]]. exact H. Qed.

(* ------------------------------------------------------------------ the theorems on built dispatchers *)

Section Built.
  Variable os : list dop.
  Hypothesis Hok : d_stuck (d_build os) = false.
  Hypothesis Hself : forall s, In s (d_systems 0 os) -> self_ok s.
  Let sts := b_stages (d_sb (d_build os)).

  Lemma built_self_ok : all_self_ok sts.
  Proof.
    intros s H. apply Hself. eapply Permutation_in; [apply d_build_exactly_once; assumption|exact H].
  Qed.

  Theorem dispatch_safe tr : stages_trace sts tr ->
    safe_run m_init tr /\ m_stuck (m_run m_init tr) = false /\ m_running (m_run m_init tr) = [].
  Proof.
    intros Ht. destruct (d_build_inv os) as [Hf Hd _ _ Hn].
    destruct (stages_exec sts [] m_init tr Hf Hn built_self_ok Hd eq_refl eq_refl b_inv_init
                (fun x (H : In x []) => match H with end) Ht) as [H1 [H2 [H3 _]]].
    auto.
  Qed.

  (* every system exactly once: one start and one end each, nothing else *)
  Theorem dispatch_exactly_once tr : stages_trace sts tr ->
    Permutation tr (flat_map sys_trace (d_systems 0 os)).
  Proof.
    intros Ht. eapply Permutation_trans; [apply stages_trace_perm; exact Ht|].
    apply Permutation_flat_map. apply d_build_exactly_once. assumption.
  Qed.

  (* the borrow flags never refuse: no prefix of any trace gets the machine stuck *)
  Theorem dispatch_never_refused tr p q : stages_trace sts tr -> tr = p ++ q -> m_stuck (m_run m_init p) = false.
  Proof.
    intros Ht ->. destruct (dispatch_safe _ Ht) as [Hs _]. apply safe_run_app in Hs. destruct Hs as [Hs _].
    apply (safe_run_state p m_init eq_refl Hs).
  Qed.

  (* when a system starts, no system it conflicts with is running *)
  Theorem dispatch_no_overlap tr p s q : stages_trace sts tr -> tr = p ++ EStart s :: q ->
    forall s', In s' (running_after p []) -> sys_conflict s s' = false.
  Proof.
    intros Ht -> s' Hs'. destruct (dispatch_safe _ Ht) as [Hs _].
    pose proof (safe_run_at m_init p (EStart s) q eq_refl Hs) as [_ [Hc _]].
    apply safe_run_app in Hs. destruct Hs as [Hs _].
    destruct (safe_run_state p m_init eq_refl Hs) as [_ [Hr _]]. apply Hc. rewrite Hr. exact Hs'.
  Qed.

  (* when a system starts, all its dependencies have ended *)
  Theorem dispatch_deps_first tr p s q : stages_trace sts tr -> tr = p ++ EStart s :: q ->
    forall d, In d (s_deps s) -> In d (ends p).
  Proof.
    intros Ht -> d Hd. destruct (dispatch_safe _ Ht) as [Hs _].
    pose proof (safe_run_at m_init p (EStart s) q eq_refl Hs) as [_ [_ Hc]].
    apply safe_run_app in Hs. destruct Hs as [Hs _].
    destruct (safe_run_state p m_init eq_refl Hs) as [_ [_ Hdn]].
    specialize (Hc d Hd). apply Hdn in Hc. destruct Hc as [Hc|[]]. exact Hc.
  Qed.
End Built.
