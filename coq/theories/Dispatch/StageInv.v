(* Invariant of the stage list maintained by every insertion of the model of
   shred's StagesBuilder (Stage.v): groups of one stage are pairwise
   conflict-free; every dependency of a system sits in an earlier stage or
   earlier in its own group; every inserted system occurs exactly once. *)
From SV Require Import Dispatch.Stage.
From Coq Require Import Permutation.
Local Open Scope nat_scope.

(* ------------------------------------------------------------------ chk *)

Lemma existsb_eqb_In x l : existsb (N.eqb x) l = true <-> In x l.
Proof.
  rewrite existsb_exists. split.
  - intros [y [Hy He]]. apply N.eqb_eq in He. subst. assumption.
  - intros H. exists x. split; [assumption|apply N.eqb_refl].
Qed.

Lemma chk_true_iff a b : chk a b = true <-> exists x, In x a /\ In x b.
Proof.
  unfold chk. rewrite existsb_exists. split.
  - intros [x [Hx H]]. exists x. split; [assumption|]. apply existsb_eqb_In. assumption.
  - intros [x [Hx H]]. exists x. split; [assumption|]. apply existsb_eqb_In. assumption.
Qed.

Lemma chk_false_iff a b : chk a b = false <-> forall x, In x a -> ~ In x b.
Proof.
  split.
  - intros H x Ha Hb. assert (chk a b = true) by (apply chk_true_iff; eauto). congruence.
  - intros H. destruct (chk a b) eqn:E; [|reflexivity].
    apply chk_true_iff in E. destruct E as [x [Ha Hb]]. exfalso. eapply H; eauto.
Qed.

Lemma sys_conflict_false_iff a b :
  sys_conflict a b = false <->
  (forall r, In r (s_writes a) -> ~ In r (s_writes b) /\ ~ In r (s_reads b)) /\
  (forall r, In r (s_reads a) -> ~ In r (s_writes b)).
Proof.
  unfold sys_conflict. rewrite orb_false_iff, !chk_false_iff. split.
  - intros [H1 H2]. split; [|assumption]. intros r Hr. specialize (H1 r Hr).
    split; intros H; apply H1; apply in_or_app; auto.
  - intros [H1 H2]. split; [|assumption]. intros r Hr H. apply in_app_or in H.
    destruct (H1 r Hr). tauto.
Qed.

Lemma sys_conflict_sym a b : sys_conflict a b = sys_conflict b a.
Proof.
  destruct (sys_conflict a b) eqn:E1, (sys_conflict b a) eqn:E2; try reflexivity; exfalso.
  - apply sys_conflict_false_iff in E2. destruct E2 as [H1 H2].
    unfold sys_conflict in E1. apply orb_true_iff in E1.
    destruct E1 as [E|E]; apply chk_true_iff in E; destruct E as [x [Hx Hy]].
    + apply in_app_or in Hy. destruct Hy as [Hy|Hy].
      * destruct (H1 x Hy). auto.
      * apply (H2 x Hy). assumption.
    + destruct (H1 x Hy). auto.
  - apply sys_conflict_false_iff in E1. destruct E1 as [H1 H2].
    unfold sys_conflict in E2. apply orb_true_iff in E2.
    destruct E2 as [E|E]; apply chk_true_iff in E; destruct E as [x [Hx Hy]].
    + apply in_app_or in Hy. destruct Hy as [Hy|Hy].
      * destruct (H1 x Hy). auto.
      * apply (H2 x Hy). assumption.
    + destruct (H1 x Hy). auto.
Qed.

(* ------------------------------------------------------------------ groups *)

Definition groups_free (g1 g2 : group) : Prop :=
  forall a b, In a g1 -> In b g2 -> sys_conflict a b = false.

Lemma groups_free_sym g1 g2 : groups_free g1 g2 -> groups_free g2 g1.
Proof. intros H a b Ha Hb. rewrite sys_conflict_sym. apply H; assumption. Qed.

Definition stage_free (st : stage) : Prop :=
  forall i j g1 g2, i <> j -> nth_error st i = Some g1 -> nth_error st j = Some g2 -> groups_free g1 g2.

Lemma in_g_reads g x : In x (g_reads g) <-> exists s, In s g /\ In x (s_reads s).
Proof. unfold g_reads. rewrite in_flat_map. reflexivity. Qed.
Lemma in_g_writes g x : In x (g_writes g) <-> exists s, In s g /\ In x (s_writes s).
Proof. unfold g_writes. rewrite in_flat_map. reflexivity. Qed.

(* no resource intersection with the group's accumulated sets = no conflict
   with any member *)
Lemma group_inters_false g s :
  group_inters g (s_reads s) (s_writes s) = false -> forall b, In b g -> sys_conflict s b = false.
Proof.
  unfold group_inters. rewrite orb_false_iff, !chk_false_iff. intros [H1 H2] b Hb.
  apply sys_conflict_false_iff. split.
  - intros r Hr. specialize (H1 r Hr). split; intros H; apply H1; apply in_or_app.
    + left. apply in_g_writes. eauto.
    + right. apply in_g_reads. eauto.
  - intros r Hr H. apply (H2 r Hr). apply in_g_writes. eauto.
Qed.

(* ------------------------------------------------------------------ find_conflict *)

Lemma fold_conflict_multiple l : fold_left conflict_add l CMultiple = CMultiple.
Proof. induction l; cbn; auto. Qed.

Lemma fold_conflict_none l : fold_left conflict_add l CNone = CNone -> l = [].
Proof.
  destruct l as [|a [|b l]]; cbn; auto; try discriminate.
  rewrite fold_conflict_multiple. discriminate.
Qed.

Lemma fold_conflict_single l g : fold_left conflict_add l CNone = CSingle g -> l = [g].
Proof.
  destruct l as [|a [|b l]]; cbn; try discriminate.
  - intros H; inversion H; reflexivity.
  - rewrite fold_conflict_multiple. discriminate.
Qed.

Lemma hit_indices_spec gs : forall idx r w dep i,
  In i (hit_indices gs idx r w dep) <->
  exists g, idx <= i /\ nth_error gs (i - idx) = Some g /\ group_hit g r w dep = true.
Proof.
  induction gs as [|g gs IH]; intros idx r w dep i; cbn [hit_indices].
  - split; [intros []|]. intros [g [_ [H _]]]. destruct (i - idx)%nat; discriminate.
  - destruct (group_hit g r w dep) eqn:E.
    + cbn [In]. rewrite IH. split.
      * intros [->|[g' [Hle [Hn Hh]]]].
        -- exists g. split; [lia|]. replace (i - i)%nat with O by lia. auto.
        -- exists g'. split; [lia|]. replace (i - idx)%nat with (S (i - S idx)) by lia. auto.
      * intros [g' [Hle [Hn Hh]]]. destruct (Nat.eq_dec idx i) as [->|Hne]; [left; reflexivity|].
        right. exists g'. split; [lia|]. replace (i - idx)%nat with (S (i - S idx)) in Hn by lia. auto.
    + rewrite IH. split.
      * intros [g' [Hle [Hn Hh]]]. exists g'. split; [lia|].
        replace (i - idx)%nat with (S (i - S idx)) by lia. auto.
      * intros [g' [Hle [Hn Hh]]]. destruct (Nat.eq_dec idx i) as [->|Hne].
        -- replace (i - i)%nat with O in Hn by lia. cbn in Hn. inversion Hn; subst. congruence.
        -- exists g'. split; [lia|]. replace (i - idx)%nat with (S (i - S idx)) in Hn by lia. auto.
Qed.

Lemma hit0_spec st r w dep i :
  In i (hit_indices st 0 r w dep) <-> exists g, nth_error st i = Some g /\ group_hit g r w dep = true.
Proof.
  rewrite hit_indices_spec. replace (i - 0)%nat with i by lia. split.
  - intros [g [_ H]]. eauto.
  - intros [g H]. exists g. split; [lia|assumption].
Qed.

Lemma group_depc_hit g r w dep : group_depc g r w dep = true -> group_hit g r w dep = true.
Proof.
  unfold group_depc, group_hit. rewrite andb_true_iff, orb_true_iff. tauto.
Qed.

(* Conflict::None: no group is hit and the dependency list is exhausted *)
Lemma find_conflict_none st r w dep :
  find_conflict st r w dep = CNone ->
  dep = [] /\ forall g, In g st -> group_inters g r w = false.
Proof.
  unfold find_conflict.
  destruct ((existsb (fun g => group_depc g r w dep) st && Nat.ltb 1 (length dep))
            || (negb (existsb (fun g => group_depc g r w dep) st) && negb (is_nil dep))) eqn:E;
    [discriminate|].
  intros H. apply fold_conflict_none in H.
  assert (Hnh : forall g, In g st -> group_hit g r w dep = false).
  { intros g Hg. destruct (group_hit g r w dep) eqn:Eh; [|reflexivity].
    apply In_nth_error in Hg. destruct Hg as [i Hi].
    assert (In i (hit_indices st 0 r w dep)) by (apply hit0_spec; eauto).
    rewrite H in *. contradiction. }
  assert (Hdc : existsb (fun g => group_depc g r w dep) st = false).
  { destruct (existsb _ st) eqn:Ed; [|reflexivity]. apply existsb_exists in Ed.
    destruct Ed as [g [Hg Hd]]. apply group_depc_hit in Hd. rewrite Hnh in Hd by assumption. discriminate. }
  rewrite Hdc in E. cbn in E. split.
  - destruct dep; [reflexivity|discriminate].
  - intros g Hg. specialize (Hnh g Hg). unfold group_hit in Hnh. apply orb_false_iff in Hnh. tauto.
Qed.

(* Conflict::Single(g): g is the only group hit, and what is left of the
   dependency list is empty or one id that lives in group g *)
Lemma find_conflict_single st r w dep g :
  find_conflict st r w dep = CSingle g ->
  exists grp, nth_error st g = Some grp /\
    (forall j g', j <> g -> nth_error st j = Some g' -> group_inters g' r w = false) /\
    (dep = [] \/ exists d, dep = [d] /\ In d (g_ids grp)).
Proof.
  unfold find_conflict.
  destruct ((existsb (fun g => group_depc g r w dep) st && Nat.ltb 1 (length dep))
            || (negb (existsb (fun g => group_depc g r w dep) st) && negb (is_nil dep))) eqn:E;
    [discriminate|].
  intros H. apply fold_conflict_single in H.
  assert (Hg : In g (hit_indices st 0 r w dep)) by (rewrite H; left; reflexivity).
  apply hit0_spec in Hg. destruct Hg as [grp [Hn Hh]]. exists grp. split; [assumption|].
  assert (Honly : forall j g', nth_error st j = Some g' -> group_hit g' r w dep = true -> j = g).
  { intros j g' Hj Hh'. assert (In j (hit_indices st 0 r w dep)) by (apply hit0_spec; eauto).
    rewrite H in *. cbn in *. intuition. }
  split.
  - intros j g' Hne Hj. destruct (group_hit g' r w dep) eqn:Eh.
    + exfalso. apply Hne. eapply Honly; eauto.
    + unfold group_hit in Eh. apply orb_false_iff in Eh. tauto.
  - apply orb_false_iff in E. destruct E as [E1 E2].
    destruct (existsb (fun g0 => group_depc g0 r w dep) st) eqn:Ed.
    + cbn in E1. right. destruct dep as [|d [|d2 dep]]; cbn in E1; try discriminate.
      * apply existsb_exists in Ed. destruct Ed as [g' [_ Hd]]. unfold group_depc in Hd.
        apply andb_true_iff in Hd. destruct Hd as [_ Hd]. apply chk_true_iff in Hd.
        destruct Hd as [x [[] _]].
      * exists d. split; [reflexivity|].
        apply existsb_exists in Ed. destruct Ed as [g' [Hg' Hd]].
        apply In_nth_error in Hg'. destruct Hg' as [j Hj].
        assert (j = g) by (eapply Honly; eauto using group_depc_hit). subst j.
        rewrite Hn in Hj. inversion Hj; subst g'.
        unfold group_depc in Hd. apply andb_true_iff in Hd. destruct Hd as [_ Hd].
        apply chk_true_iff in Hd. destruct Hd as [x [[<-|[]] Hx]]. assumption.
    + cbn in E2. left. destruct dep; [reflexivity|discriminate].
Qed.

(* ------------------------------------------------------------------ remove_ids *)

Lemma remove_first_keeps x d l : In d l -> d = x \/ In d (remove_first x l).
Proof.
  induction l as [|y l IH]; cbn; [tauto|]. intros [->|H].
  - destruct (N.eqb_spec d x); [left; assumption|right; left; reflexivity].
  - destruct (N.eqb_spec y x); [right; assumption|]. destruct (IH H); [left; assumption|right; right; assumption].
Qed.

Lemma remove_ids_keeps st d dep : In d dep -> In d (stage_ids st) \/ In d (remove_ids st dep).
Proof.
  unfold remove_ids. generalize (stage_ids st). intros ids. revert dep.
  induction ids as [|x ids IH]; intros dep H; cbn; [right; assumption|].
  destruct (remove_first_keeps x d dep H) as [->|H'].
  - left; left; reflexivity.
  - destruct (IH _ H'); [left; right; assumption|right; assumption].
Qed.

Definition deps_after (sts : list stage) (dep : list N) : list N :=
  fold_left (fun d st => remove_ids st d) sts dep.

Lemma deps_after_keeps sts : forall d dep, In d dep -> In d (all_ids sts) \/ In d (deps_after sts dep).
Proof.
  induction sts as [|st sts IH]; intros d dep H; cbn; [right; assumption|].
  unfold all_ids, all_sys. cbn [flat_map]. rewrite map_app.
  destruct (remove_ids_keeps st d dep H) as [H'|H'].
  - left. apply in_or_app. left. assumption.
  - destruct (IH _ _ H') as [H2|H2]; [|right; assumption].
    left. apply in_or_app. right. assumption.
Qed.

(* ------------------------------------------------------------------ scan *)

Lemma deps_after_snoc sts st dep : deps_after (sts ++ [st]) dep = remove_ids st (deps_after sts dep).
Proof. unfold deps_after. rewrite fold_left_app. reflexivity. Qed.

Lemma scan_spec sts : forall idx r w dep t,
  match scan idx sts r w dep t with
  | TStage i => exists k st, i = (idx + k)%nat /\ nth_error sts k = Some st /\
                  find_conflict st r w (deps_after (firstn k sts) dep) = CNone
  | TGroup i g => exists k st, i = (idx + k)%nat /\ nth_error sts k = Some st /\
                  find_conflict st r w (deps_after (firstn k sts) dep) = CSingle g /\
                  (length (nth g st []) < MAX_SYSTEMS_PER_GROUP - 1)%nat
  | TNewStage => True
  end.
Proof.
  induction sts as [|st sts IH]; intros idx r w dep t; cbn [scan]; [exact I|].
  assert (Hrec : match scan (S idx) sts r w (remove_ids st dep) t with
    | TStage i => exists k st0, i = (idx + k)%nat /\ nth_error (st :: sts) k = Some st0 /\
                  find_conflict st0 r w (deps_after (firstn k (st :: sts)) dep) = CNone
    | TGroup i g => exists k st0, i = (idx + k)%nat /\ nth_error (st :: sts) k = Some st0 /\
                  find_conflict st0 r w (deps_after (firstn k (st :: sts)) dep) = CSingle g /\
                  (length (nth g st0 []) < MAX_SYSTEMS_PER_GROUP - 1)%nat
    | TNewStage => True end).
  { specialize (IH (S idx) r w (remove_ids st dep) t).
    destruct (scan (S idx) sts r w (remove_ids st dep) t); [| |exact I].
    - destruct IH as [k [st0 [-> [Hn Hf]]]]. exists (S k), st0. split; [lia|]. split; [exact Hn|]. exact Hf.
    - destruct IH as [k [st0 [-> [Hn [Hf Hl]]]]]. exists (S k), st0. split; [lia|]. split; [exact Hn|].
      split; [exact Hf|exact Hl]. }
  destruct (find_conflict st r w dep) eqn:E.
  - exists O, st. split; [lia|]. split; [reflexivity|]. exact E.
  - destruct (Nat.ltb (length (nth g st [])) (MAX_SYSTEMS_PER_GROUP - 1) && improves_balance st g t) eqn:Eb.
    + exists O, st. split; [lia|]. split; [reflexivity|]. split; [exact E|].
      apply andb_true_iff in Eb. destruct Eb as [Eb _]. apply Nat.ltb_lt in Eb. exact Eb.
    + exact Hrec.
  - exact Hrec.
Qed.

(* ------------------------------------------------------------------ upd_nth *)

Lemma nth_error_upd_nth {A} (f : A -> A) : forall (l : list A) n m,
  nth_error (upd_nth n f l) m = if Nat.eqb m n then option_map f (nth_error l n) else nth_error l m.
Proof.
  induction l as [|x l IH]; intros n m; cbn [upd_nth].
  - destruct (Nat.eqb m n); destruct n, m; reflexivity.
  - destruct n as [|n]; destruct m as [|m]; cbn; try reflexivity. apply IH.
Qed.

Lemma upd_nth_split {A} (f : A -> A) : forall (l : list A) n x,
  nth_error l n = Some x -> exists l1 l2, l = l1 ++ x :: l2 /\ length l1 = n /\ upd_nth n f l = l1 ++ f x :: l2.
Proof.
  induction l as [|y l IH]; intros n x H; destruct n as [|n]; cbn in H; try discriminate.
  - inversion H; subst. exists [], l. auto.
  - destruct (IH _ _ H) as [l1 [l2 [-> [Hl Hu]]]]. exists (y :: l1), l2. cbn. rewrite Hu, Hl. auto.
Qed.

Lemma nth_nth_error {A} (l : list A) n x d : nth_error l n = Some x -> nth n l d = x.
Proof. intros H. apply nth_error_nth. assumption. Qed.

(* ------------------------------------------------------------------ the dependency invariant *)

Fixpoint deps_group (avail : list N) (g : group) : Prop :=
  match g with
  | [] => True
  | s :: g' => (forall d, In d (s_deps s) -> In d avail) /\ deps_group (s_id s :: avail) g'
  end.

Fixpoint deps_stages (avail : list N) (sts : list stage) : Prop :=
  match sts with
  | [] => True
  | st :: rest => Forall (deps_group avail) st /\ deps_stages (stage_ids st ++ avail) rest
  end.

Lemma deps_group_mono g : forall a a', (forall x, In x a -> In x a') -> deps_group a g -> deps_group a' g.
Proof.
  induction g as [|s g IH]; intros a a' Hs; cbn; [auto|]. intros [H1 H2]. split.
  - intros d Hd. apply Hs, H1, Hd.
  - eapply IH; [|exact H2]. intros x [->|Hx]; [left; reflexivity|right; apply Hs, Hx].
Qed.

Lemma deps_group_snoc g : forall a s,
  deps_group a g -> (forall d, In d (s_deps s) -> In d (g_ids g) \/ In d a) -> deps_group a (g ++ [s]).
Proof.
  induction g as [|x g IH]; intros a s Hg Hs; cbn.
  - split; [|exact I]. intros d Hd. destruct (Hs d Hd) as [[]|H]; assumption.
  - destruct Hg as [H1 H2]. split; [assumption|]. apply IH; [assumption|].
    intros d Hd. destruct (Hs d Hd) as [[<-|H]|H].
    + right; left; reflexivity.
    + left; assumption.
    + right; right; assumption.
Qed.

Lemma deps_stages_mono sts : forall a a', (forall x, In x a -> In x a') -> deps_stages a sts -> deps_stages a' sts.
Proof.
  induction sts as [|st sts IH]; intros a a' Hs; cbn; [auto|]. intros [H1 H2]. split.
  - eapply Forall_impl; [|exact H1]. intros g. apply deps_group_mono, Hs.
  - eapply IH; [|exact H2]. intros x Hx. apply in_app_or in Hx. apply in_or_app. destruct Hx; auto.
Qed.

Lemma all_ids_cons st sts : all_ids (st :: sts) = stage_ids st ++ all_ids sts.
Proof. unfold all_ids, all_sys, stage_ids. cbn [flat_map]. apply map_app. Qed.

Lemma all_ids_app s1 s2 : all_ids (s1 ++ s2) = all_ids s1 ++ all_ids s2.
Proof. unfold all_ids, all_sys. rewrite flat_map_app, map_app. reflexivity. Qed.

Lemma deps_stages_new sts : forall a s,
  deps_stages a sts -> (forall d, In d (s_deps s) -> In d (all_ids sts) \/ In d a) ->
  deps_stages a (sts ++ [[[s]]]).
Proof.
  induction sts as [|st sts IH]; intros a s H Hs; cbn.
  - split; [|exact I]. constructor; [|constructor]. cbn. split; [|exact I].
    intros d Hd. destruct (Hs d Hd) as [[]|]; assumption.
  - destruct H as [H1 H2]. split; [assumption|]. apply IH; [assumption|].
    intros d Hd. destruct (Hs d Hd) as [H|H].
    + rewrite all_ids_cons in H. apply in_app_or in H. destruct H; [right; apply in_or_app; left|left]; assumption.
    + right. apply in_or_app. right. assumption.
Qed.

(* replace stage i by a stage with at least the same ids whose groups are fine
   w.r.t. everything before stage i *)
Lemma deps_stages_upd (f : stage -> stage) sts : forall a i st,
  deps_stages a sts -> nth_error sts i = Some st ->
  (forall x, In x (stage_ids st) -> In x (stage_ids (f st))) ->
  (forall av, (forall x, In x (all_ids (firstn i sts)) \/ In x a -> In x av) ->
              Forall (deps_group av) st -> Forall (deps_group av) (f st)) ->
  deps_stages a (upd_nth i f sts).
Proof.
  induction sts as [|s0 sts IH]; intros a i st H Hn Hids Hf; destruct i as [|i]; cbn in Hn; try discriminate.
  - inversion Hn; subst s0. cbn [upd_nth deps_stages]. destruct H as [H1 H2]. split.
    + apply Hf; [|assumption]. cbn. intros x [[]|Hx]. assumption.
    + eapply deps_stages_mono; [|exact H2]. intros x Hx. apply in_app_or in Hx. apply in_or_app.
      destruct Hx; auto.
  - cbn [upd_nth deps_stages]. destruct H as [H1 H2]. split; [assumption|].
    eapply IH; eauto. intros av Hav. apply Hf. intros x [Hx|Hx].
    + cbn [firstn] in Hx. rewrite all_ids_cons in Hx. apply in_app_or in Hx. apply Hav.
      destruct Hx; [right; apply in_or_app; left|left]; assumption.
    + apply Hav. right. apply in_or_app. right. assumption.
Qed.

Lemma stage_ids_app st g : stage_ids (st ++ [g]) = stage_ids st ++ g_ids g.
Proof. unfold stage_ids, stage_sys. rewrite concat_app, map_app. cbn. rewrite app_nil_r. reflexivity. Qed.

Lemma stage_ids_split l1 g l2 : stage_ids (l1 ++ g :: l2) = stage_ids l1 ++ g_ids g ++ stage_ids l2.
Proof. unfold stage_ids, stage_sys. rewrite concat_app, map_app. cbn. rewrite map_app. reflexivity. Qed.

Lemma firstn_skipn_ids b k (sts : list stage) x :
  In x (all_ids (firstn k (skipn b sts))) -> In x (all_ids (firstn (b + k) sts)).
Proof.
  revert sts. induction b as [|b IH]; intros sts; cbn [skipn Nat.add]; [auto|].
  destruct sts as [|st sts]; cbn [skipn firstn].
  - destruct k; cbn; auto.
  - intros H. rewrite all_ids_cons. apply in_or_app. right. apply IH. assumption.
Qed.

Lemma nth_error_skipn {A} b : forall (l : list A) k, nth_error (skipn b l) k = nth_error l (b + k).
Proof.
  induction b as [|b IH]; intros l k; cbn [skipn Nat.add]; [reflexivity|].
  destruct l as [|x l]; cbn; [destruct k; reflexivity|apply IH].
Qed.

(* what the chosen target guarantees, in absolute stage numbers *)
Lemma target_stage b s i :
  insertion_target b s = TStage i ->
  exists st, nth_error (b_stages b) i = Some st /\
    (forall g, In g st -> group_inters g (s_reads s) (s_writes s) = false) /\
    (forall d, In d (s_deps s) -> In d (all_ids (firstn i (b_stages b)))).
Proof.
  unfold insertion_target. intros H.
  pose proof (scan_spec (skipn (b_barrier b) (b_stages b)) (b_barrier b) (s_reads s) (s_writes s) (s_deps s) (s_time s)) as Hs.
  rewrite H in Hs. destruct Hs as [k [st [-> [Hn Hf]]]].
  rewrite nth_error_skipn in Hn. exists st. split; [assumption|].
  apply find_conflict_none in Hf. destruct Hf as [Hd Hg]. split; [assumption|].
  intros d Hin. destruct (deps_after_keeps (firstn k (skipn (b_barrier b) (b_stages b))) d _ Hin) as [H1|H1].
  - apply firstn_skipn_ids. assumption.
  - rewrite Hd in H1. destruct H1.
Qed.

Lemma target_group b s i g :
  insertion_target b s = TGroup i g ->
  exists st grp, nth_error (b_stages b) i = Some st /\ nth_error st g = Some grp /\
    (length grp < MAX_SYSTEMS_PER_GROUP - 1)%nat /\
    (forall j g', j <> g -> nth_error st j = Some g' -> group_inters g' (s_reads s) (s_writes s) = false) /\
    (forall d, In d (s_deps s) -> In d (all_ids (firstn i (b_stages b))) \/ In d (g_ids grp)).
Proof.
  unfold insertion_target. intros H.
  pose proof (scan_spec (skipn (b_barrier b) (b_stages b)) (b_barrier b) (s_reads s) (s_writes s) (s_deps s) (s_time s)) as Hs.
  rewrite H in Hs. destruct Hs as [k [st [-> [Hn [Hf Hl]]]]].
  rewrite nth_error_skipn in Hn. apply find_conflict_single in Hf.
  destruct Hf as [grp [Hg [Hothers Hdep]]]. exists st, grp. split; [assumption|]. split; [assumption|].
  rewrite (nth_nth_error _ _ _ _ Hg) in Hl. split; [assumption|]. split; [assumption|].
  intros d Hin. destruct (deps_after_keeps (firstn k (skipn (b_barrier b) (b_stages b))) d _ Hin) as [H1|H1].
  - left. apply firstn_skipn_ids. assumption.
  - destruct Hdep as [Hd|[d' [Hd Hin']]]; rewrite Hd in H1.
    + destruct H1.
    + destruct H1 as [<-|[]]. right. assumption.
Qed.

(* ------------------------------------------------------------------ insertion preserves the invariants *)

Lemma Forall_app_intro {A} (P : A -> Prop) l1 l2 : Forall P l1 -> Forall P l2 -> Forall P (l1 ++ l2).
Proof. intros. apply Forall_app. auto. Qed.

Theorem insert_keeps_deps b s :
  deps_stages [] (b_stages b) ->
  (forall d, In d (s_deps s) -> In d (all_ids (b_stages b))) ->
  deps_stages [] (b_stages (sb_insert b s)).
Proof.
  intros Hinv Hreg. unfold sb_insert. destruct (insertion_target b s) as [i|i g|] eqn:E; cbn [b_stages].
  - apply target_stage in E. destruct E as [st [Hn [_ Hd]]].
    eapply deps_stages_upd; eauto.
    + intros x Hx. rewrite stage_ids_app. apply in_or_app. left. assumption.
    + intros av Hav HF. apply Forall_app_intro; [assumption|]. constructor; [|constructor].
      cbn. split; [|exact I]. intros d Hin. apply Hav. left. apply Hd. assumption.
  - apply target_group in E. destruct E as [st [grp [Hn [Hg [_ [_ Hd]]]]]].
    eapply deps_stages_upd; eauto.
    + intros x Hx. destruct (upd_nth_split (fun gr => gr ++ [s]) st g grp Hg) as [l1 [l2 [-> [_ ->]]]].
      rewrite stage_ids_split in *. apply in_app_or in Hx. apply in_or_app. destruct Hx as [Hx|Hx]; [left; assumption|].
      right. apply in_app_or in Hx. apply in_or_app. destruct Hx as [Hx|Hx]; [|right; assumption].
      left. unfold g_ids. rewrite map_app. apply in_or_app. left. assumption.
    + intros av Hav HF. destruct (upd_nth_split (fun gr => gr ++ [s]) st g grp Hg) as [l1 [l2 [-> [_ ->]]]].
      apply Forall_app in HF. destruct HF as [HF1 HF2]. inversion HF2; subst.
      apply Forall_app_intro; [assumption|]. constructor; [|assumption].
      apply deps_group_snoc; [assumption|]. intros d Hin. destruct (Hd d Hin) as [H|H].
      * right. apply Hav. left. assumption.
      * left. assumption.
  - apply deps_stages_new; [assumption|]. intros d Hin. left. apply Hreg. assumption.
Qed.

Lemma nth_error_single {A} (x y : A) k : nth_error [x] k = Some y -> k = 0 /\ y = x.
Proof. destruct k as [|[|k]]; cbn; intros H; inversion H; auto. Qed.

Theorem insert_keeps_free b s :
  Forall stage_free (b_stages b) -> Forall stage_free (b_stages (sb_insert b s)).
Proof.
  intros Hinv. unfold sb_insert. destruct (insertion_target b s) as [i|i g|] eqn:E; cbn [b_stages].
  - apply target_stage in E. destruct E as [st [Hn [Hfree _]]].
    destruct (upd_nth_split (fun st => st ++ [[s]]) _ _ _ Hn) as [l1 [l2 [Heq [_ ->]]]].
    rewrite Heq in Hinv. apply Forall_app in Hinv. destruct Hinv as [H1 H2]. inversion H2; subst.
    apply Forall_app_intro; [assumption|]. constructor; [|assumption].
    assert (Hnew : forall g, In g st -> groups_free g [s]).
    { intros g Hg a b0 Ha [<-|[]]. rewrite sys_conflict_sym. eapply group_inters_false; eauto. }
    intros x y g1 g2 Hne Hx Hy.
    destruct (Nat.lt_ge_cases x (length st)) as [Lx|Lx]; destruct (Nat.lt_ge_cases y (length st)) as [Ly|Ly].
    + rewrite nth_error_app1 in Hx, Hy by assumption. eapply H3; eauto.
    + rewrite nth_error_app1 in Hx by assumption. rewrite nth_error_app2 in Hy by assumption.
      apply nth_error_single in Hy. destruct Hy as [_ ->].
      apply Hnew. eapply nth_error_In; eauto.
    + rewrite nth_error_app1 in Hy by assumption. rewrite nth_error_app2 in Hx by assumption.
      apply nth_error_single in Hx. destruct Hx as [_ ->].
      apply groups_free_sym, Hnew. eapply nth_error_In; eauto.
    + rewrite nth_error_app2 in Hx, Hy by assumption.
      apply nth_error_single in Hx, Hy. destruct Hx as [Hx _], Hy as [Hy _]. exfalso. unfold stage, group in *. lia.
  - apply target_group in E. destruct E as [st [grp [Hn [Hg [_ [Hfree _]]]]]].
    destruct (upd_nth_split (fun st => upd_nth g (fun gr => gr ++ [s]) st) _ _ _ Hn) as [l1 [l2 [Heq [_ ->]]]].
    rewrite Heq in Hinv. apply Forall_app in Hinv. destruct Hinv as [H1 H2]. inversion H2; subst.
    apply Forall_app_intro; [assumption|]. constructor; [|assumption].
    intros x y g1 g2 Hne Hx Hy. rewrite nth_error_upd_nth in Hx, Hy.
    assert (Hnew : forall j g', j <> g -> nth_error st j = Some g' -> groups_free (grp ++ [s]) g').
    { intros j g' Hj Hg' a b0 Ha Hb. apply in_app_or in Ha. destruct Ha as [Ha|[<-|[]]].
      - eapply (H3 g j); eauto.
      - eapply group_inters_false; eauto. }
    destruct (Nat.eqb_spec x g) as [->|Nx]; destruct (Nat.eqb_spec y g) as [->|Ny].
    + congruence.
    + rewrite Hg in Hx. cbn in Hx. inversion Hx; subst. eapply Hnew; eauto.
    + rewrite Hg in Hy. cbn in Hy. inversion Hy; subst. apply groups_free_sym. eapply Hnew; eauto.
    + exact (H3 x y g1 g2 Hne Hx Hy).
  - apply Forall_app_intro; [assumption|]. constructor; [|constructor].
    intros x y g1 g2 Hne Hx Hy. apply nth_error_single in Hx, Hy. destruct Hx as [Hx _], Hy as [Hy _]. exfalso. unfold stage, group in *. lia.
Qed.

(* every system exactly once: the new stage list holds the old systems plus s *)
Lemma all_sys_app s1 s2 : all_sys (s1 ++ s2) = all_sys s1 ++ all_sys s2.
Proof. unfold all_sys. apply flat_map_app. Qed.

Lemma perm_mid {A} (X Y : list A) s : Permutation (X ++ s :: Y) (s :: X ++ Y).
Proof. apply Permutation_sym. apply Permutation_middle. Qed.

Theorem insert_adds_one b s : Permutation (all_sys (b_stages (sb_insert b s))) (s :: all_sys (b_stages b)).
Proof.
  unfold sb_insert. destruct (insertion_target b s) as [i|i g|] eqn:E; cbn [b_stages].
  - apply target_stage in E. destruct E as [st [Hn _]].
    destruct (upd_nth_split (fun st => st ++ [[s]]) _ _ _ Hn) as [l1 [l2 [-> [_ ->]]]].
    rewrite !all_sys_app. unfold all_sys at 2 4. cbn [flat_map]. unfold stage_sys at 1.
    rewrite concat_app. cbn [concat]. rewrite app_nil_r. fold (stage_sys st).
    fold (all_sys l2).
    replace (all_sys l1 ++ ((stage_sys st ++ [s]) ++ all_sys l2))
      with ((all_sys l1 ++ stage_sys st) ++ s :: all_sys l2) by (rewrite <- !app_assoc; reflexivity).
    replace (all_sys l1 ++ stage_sys st ++ all_sys l2)
      with ((all_sys l1 ++ stage_sys st) ++ all_sys l2) by (rewrite <- !app_assoc; reflexivity).
    apply perm_mid.
  - apply target_group in E. destruct E as [st [grp [Hn [Hg _]]]].
    destruct (upd_nth_split (fun st => upd_nth g (fun gr => gr ++ [s]) st) _ _ _ Hn) as [l1 [l2 [-> [_ ->]]]].
    destruct (upd_nth_split (fun gr => gr ++ [s]) _ _ _ Hg) as [m1 [m2 [-> [_ ->]]]].
    rewrite !all_sys_app. unfold all_sys at 2 4. cbn [flat_map]. unfold stage_sys at 1 3.
    rewrite !concat_app. cbn [concat]. fold (all_sys l2).
    replace (all_sys l1 ++ (concat m1 ++ (grp ++ [s]) ++ concat m2) ++ all_sys l2)
      with ((all_sys l1 ++ concat m1 ++ grp) ++ s :: (concat m2 ++ all_sys l2)) by (rewrite <- !app_assoc; reflexivity).
    replace (all_sys l1 ++ (concat m1 ++ grp ++ concat m2) ++ all_sys l2)
      with ((all_sys l1 ++ concat m1 ++ grp) ++ (concat m2 ++ all_sys l2)) by (rewrite <- !app_assoc; reflexivity).
    apply perm_mid.
  - rewrite all_sys_app. unfold all_sys at 2. cbn. apply Permutation_sym. apply Permutation_cons_append.
Qed.

(* the group size limit of the real ArrayVec (capacity 5) is never exceeded:
   a group only grows while it has fewer than 4 systems *)
Definition sizes_ok (sts : list stage) : Prop :=
  Forall (fun st => Forall (fun g : group => (length g <= MAX_SYSTEMS_PER_GROUP - 1)%nat) st) sts.

Theorem insert_keeps_sizes b s : sizes_ok (b_stages b) -> sizes_ok (b_stages (sb_insert b s)).
Proof.
  unfold sizes_ok. intros Hinv. unfold sb_insert. destruct (insertion_target b s) as [i|i g|] eqn:E; cbn [b_stages].
  - apply target_stage in E. destruct E as [st [Hn _]].
    destruct (upd_nth_split (fun st => st ++ [[s]]) _ _ _ Hn) as [l1 [l2 [Heq [_ ->]]]].
    rewrite Heq in Hinv. apply Forall_app in Hinv. destruct Hinv as [H1 H2]. inversion H2; subst.
    apply Forall_app_intro; [assumption|]. constructor; [|assumption].
    apply Forall_app_intro; [assumption|]. constructor; [cbn; lia|constructor].
  - apply target_group in E. destruct E as [st [grp [Hn [Hg [Hl _]]]]].
    destruct (upd_nth_split (fun st => upd_nth g (fun gr => gr ++ [s]) st) _ _ _ Hn) as [l1 [l2 [Heq [_ ->]]]].
    rewrite Heq in Hinv. apply Forall_app in Hinv. destruct Hinv as [H1 H2]. inversion H2; subst.
    apply Forall_app_intro; [assumption|]. constructor; [|assumption].
    destruct (upd_nth_split (fun gr => gr ++ [s]) _ _ _ Hg) as [m1 [m2 [-> [_ ->]]]].
    apply Forall_app in H3. destruct H3 as [H3 H5]. inversion H5; subst.
    apply Forall_app_intro; [assumption|]. constructor; [|assumption].
    rewrite app_length. cbn. unfold MAX_SYSTEMS_PER_GROUP in *. lia.
  - apply Forall_app_intro; [assumption|]. constructor; [|constructor].
    constructor; [cbn; lia|constructor].
Qed.

(* ------------------------------------------------------------------ the dispatcher builder, all op lists *)

Record d_inv (d : dbuilder) : Prop := {
  di_free : Forall stage_free (b_stages (d_sb d));
  di_deps : deps_stages [] (b_stages (d_sb d));
  di_sizes : sizes_ok (b_stages (d_sb d));
  di_ids : forall x, In x (all_ids (b_stages (d_sb d))) <-> (x < d_next d)%N;
  di_nodup : NoDup (all_ids (b_stages (d_sb d)))
}.

Lemma d_inv_init : d_inv d_init.
Proof.
  constructor; cbn.
  - constructor.
  - exact I.
  - constructor.
  - intros x. split; [intros []|lia].
  - constructor.
Qed.

Lemma d_step_inv d o : d_inv d -> d_inv (d_step d o).
Proof.
  intros [Hf Hd Hs Hi Hn]. unfold d_step. destruct (d_stuck d); [constructor; assumption|].
  destruct o as [r w deps t|].
  - destruct (forallb (fun x => N.ltb x (d_next d)) deps) eqn:E; [|constructor; assumption].
    set (s := {| s_id := d_next d; s_reads := r; s_writes := w; s_deps := deps; s_time := t |}).
    assert (Hp := insert_adds_one (d_sb d) s).
    assert (Hpi : Permutation (all_ids (b_stages (sb_insert (d_sb d) s))) (d_next d :: all_ids (b_stages (d_sb d)))).
    { unfold all_ids. change (d_next d) with (s_id s). rewrite <- map_cons. apply Permutation_map. exact Hp. }
    constructor; cbn [d_sb d_next].
    + apply insert_keeps_free. assumption.
    + apply insert_keeps_deps; [assumption|]. intros x Hx. cbn in Hx. apply Hi.
      rewrite forallb_forall in E. apply N.ltb_lt. apply E. assumption.
    + apply insert_keeps_sizes. assumption.
    + intros x. split.
      * intros Hx. eapply Permutation_in in Hx; [|exact Hpi]. destruct Hx as [<-|Hx]; [lia|].
        apply Hi in Hx. lia.
      * intros Hx. eapply Permutation_in; [apply Permutation_sym; exact Hpi|].
        destruct (N.eq_dec x (d_next d)) as [->|Hne]; [left; reflexivity|right; apply Hi; lia].
    + eapply Permutation_NoDup; [apply Permutation_sym; exact Hpi|]. constructor; [|assumption].
      intros Hx. apply Hi in Hx. lia.
  - constructor; assumption.
Qed.

Theorem d_build_inv os : d_inv (d_build os).
Proof.
  unfold d_build. generalize d_inv_init. generalize d_init.
  induction os as [|o os IH]; intros d H; cbn; [assumption|]. apply IH, d_step_inv, H.
Qed.

(* exactly once: the built stages hold exactly the requested systems *)
Lemma d_step_systems d o :
  d_stuck (d_step d o) = false ->
  Permutation (all_sys (b_stages (d_sb (d_step d o))))
              (d_systems (d_next d) [o] ++ all_sys (b_stages (d_sb d))) /\
  d_stuck d = false /\
  d_next (d_step d o) = (match o with DSys _ _ _ _ => d_next d + 1 | DBarrier => d_next d end)%N.
Proof.
  unfold d_step. destruct (d_stuck d) eqn:Es.
  - intros H. congruence.
  - destruct o as [r w deps t|]; cbn.
    + destruct (forallb (fun x => N.ltb x (d_next d)) deps); cbn; [|discriminate]. intros _.
      split; [|auto]. apply insert_adds_one.
    + intros _. split; [|auto]. reflexivity.
Qed.

Lemma d_systems_app os1 : forall n os2,
  d_systems n (os1 ++ os2) =
  d_systems n os1 ++ d_systems (n + N.of_nat (length (d_systems n os1))) os2.
Proof.
  induction os1 as [|o os1 IH]; intros n os2; cbn [app d_systems].
  - cbn. replace (n + 0)%N with n by lia. reflexivity.
  - destruct o as [r w deps t|].
    + cbn [app length]. rewrite IH. do 3 f_equal. lia.
    + apply IH.
Qed.

Theorem d_build_exactly_once_gen os : forall d,
  d_stuck (fold_left d_step os d) = false ->
  Permutation (all_sys (b_stages (d_sb (fold_left d_step os d))))
              (d_systems (d_next d) os ++ all_sys (b_stages (d_sb d))).
Proof.
  induction os as [|o os IH]; intros d H; cbn [fold_left d_systems]; [reflexivity|].
  cbn [fold_left] in H.
  assert (Hs : d_stuck (d_step d o) = false).
  { destruct (d_stuck (d_step d o)) eqn:E; [|reflexivity].
    assert (forall os d', d_stuck d' = true -> d_stuck (fold_left d_step os d') = true) as Hst.
    { clear. induction os as [|o os IH]; intros d' H; cbn; [assumption|]. apply IH. unfold d_step. rewrite H. assumption. }
    rewrite (Hst _ _ E) in H. discriminate. }
  destruct (d_step_systems d o Hs) as [Hp [_ Hn]].
  eapply Permutation_trans; [apply IH; assumption|]. rewrite Hn.
  destruct o as [r w deps t|]; cbn [d_systems] in *.
  - eapply Permutation_trans; [apply Permutation_app_head; exact Hp|].
    cbn [app]. apply Permutation_sym. apply Permutation_cons_app. reflexivity.
  - eapply Permutation_trans; [apply Permutation_app_head; exact Hp|]. reflexivity.
Qed.

Theorem d_build_exactly_once os :
  d_stuck (d_build os) = false ->
  Permutation (all_sys (b_stages (d_sb (d_build os)))) (d_systems 0 os).
Proof.
  intros H. pose proof (d_build_exactly_once_gen os d_init H) as P. cbn in P. rewrite app_nil_r in P. exact P.
Qed.

(* the builder panics only on a dependency that names no registered system *)
Theorem d_build_stuck_iff os :
  d_stuck (d_build os) = true <->
  exists os1 r w deps t os2 d, os = os1 ++ DSys r w deps t :: os2 /\ In d deps /\
     (N.of_nat (length (d_systems 0 os1)) <= d)%N.
Proof.
  assert (Hst : forall os d', d_stuck d' = true -> d_stuck (fold_left d_step os d') = true).
  { clear. induction os as [|o os IH]; intros d' H; cbn; [assumption|]. apply IH. unfold d_step. rewrite H. assumption. }
  assert (Hgen : forall os d, d_stuck d = false ->
    (d_stuck (fold_left d_step os d) = true <->
     exists os1 r w deps t os2 x, os = os1 ++ DSys r w deps t :: os2 /\ In x deps /\
       (d_next d + N.of_nat (length (d_systems (d_next d) os1)) <= x)%N)).
  { clear os. induction os as [|o os IH]; intros d Hd; cbn [fold_left].
    - split; [congruence|]. intros [os1 [r [w [deps [t [os2 [x [H _]]]]]]]]. destruct os1; discriminate.
    - destruct (d_stuck (d_step d o)) eqn:E.
      + rewrite (Hst _ _ E). split; [intros _|auto].
        unfold d_step in E. rewrite Hd in E. destruct o as [r w deps t|]; cbn in E; [|discriminate].
        destruct (forallb (fun x => N.ltb x (d_next d)) deps) eqn:Ef; cbn in E; [discriminate|].
        assert (exists x, In x deps /\ (d_next d <= x)%N) as [x [Hx Hle]].
        { clear -Ef. induction deps as [|y deps IH]; cbn in Ef; [discriminate|].
          apply andb_false_iff in Ef. destruct Ef as [Ef|Ef].
          - exists y. split; [left; reflexivity|]. apply N.ltb_ge. assumption.
          - destruct (IH Ef) as [x [Hx Hle]]. exists x. split; [right; assumption|assumption]. }
        exists [], r, w, deps, t, os, x. cbn. split; [reflexivity|]. split; [assumption|lia].
      + rewrite (IH _ E). destruct (d_step_systems d o E) as [_ [_ Hn]]. rewrite Hn.
        split.
        * intros [os1 [r [w [deps [t [os2 [x [-> [Hx Hle]]]]]]]]].
          exists (o :: os1), r, w, deps, t, os2, x. split; [reflexivity|]. split; [assumption|].
          destruct o; cbn [d_systems length]; lia.
        * intros [os1 [r [w [deps [t [os2 [x [Heq [Hx Hle]]]]]]]]].
          destruct os1 as [|o1 os1]; cbn [app] in Heq; inversion Heq; subst.
          -- exfalso. cbn in Hle. unfold d_step in E. rewrite Hd in E. cbn in E.
             destruct (forallb (fun x => N.ltb x (d_next d)) deps) eqn:Ef; cbn in E; [|discriminate].
             rewrite forallb_forall in Ef. specialize (Ef x Hx). apply N.ltb_lt in Ef. lia.
          -- exists os1, r, w, deps, t, os2, x. split; [reflexivity|]. split; [assumption|].
             destruct o1; cbn [d_systems length] in Hle; lia. }
  unfold d_build. rewrite (Hgen os d_init eq_refl). cbn [d_next d_init].
  split; intros [os1 [r [w [deps [t [os2 [x [H1 [H2 H3]]]]]]]]]; exists os1, r, w, deps, t, os2, x;
    (split; [assumption|split; [assumption|]]).
  - assert (forall n m, length (d_systems n os1) = length (d_systems m os1)) as Hl.
    { clear. induction os1 as [|o os1 IH]; intros n m; cbn; [reflexivity|]. destruct o; cbn; [f_equal|]; apply IH. }
    lia.
  - lia.
Qed.
