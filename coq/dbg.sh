#!/bin/bash
# usage: dbg.sh file.v LINE  -- shows goals just before LINE (1-based) of file
f=$1; n=$2
head -n $((n-1)) $f > /tmp/dbg_tmp.v
echo "Show. " >> /tmp/dbg_tmp.v
cd /verif/coq && coqc -Q theories SV /tmp/dbg_tmp.v 2>&1 | tail -${3:-40}
