(* Hand-written glue around the extracted model (unverified, see DESIGN.md
   section 8): reads integer lists, converts them to Coq's Z, calls the
   extracted functions, prints integer lists.

   world output per history:  model transcript line, then a verdict line
     "V <eq> <complete> <acc_pos> <acc_code> <c01d> <c02d>"
   (usage: see the end of the file)                                     *)
open Model

let rec pos_of_int (n : int) : positive =
  if n = 1 then XH
  else if n land 1 = 1 then XI (pos_of_int (n lsr 1))
  else XO (pos_of_int (n lsr 1))

let z_of_int (n : int) : z =
  if n = 0 then Z0 else if n > 0 then Zpos (pos_of_int n) else Zneg (pos_of_int (- n))

let rec int_of_pos (p : positive) : int =
  match p with XH -> 1 | XO q -> 2 * int_of_pos q | XI q -> 2 * int_of_pos q + 1

let int_of_z (x : z) : int =
  match x with Z0 -> 0 | Zpos p -> int_of_pos p | Zneg p -> - (int_of_pos p)

let ints_of_line (s : string) : int list =
  String.split_on_char ' ' s |> List.filter (fun t -> t <> "") |> List.map int_of_string

let transcript_of_line (s : string) : z list list =
  if String.trim s = "" then []
  else
    String.split_on_char '|' s
    |> List.map (fun part -> List.map z_of_int (ints_of_line part))

let line_of_transcript (t : z list list) : string =
  String.concat " | "
    (List.map (fun o -> String.concat " " (List.map (fun x -> string_of_int (int_of_z x)) o)) t)

(* usage: driver derive <cases>      (C18; one case per line, see SaveLoad/DeriveCodec.v)
   output per case: the parts of [derive_line], separated by " | " *)
let run_derive () =
  let f = open_in Sys.argv.(2) in
  (try
     while true do
       let l = List.map z_of_int (ints_of_line (input_line f)) in
       print_string (line_of_transcript (derive_line l));
       print_newline ()
     done
   with End_of_file -> ());
  close_in f

let print_zs prefix (v : z list) =
  print_string (prefix ^ String.concat " " (List.map (fun x -> string_of_int (int_of_z x)) v));
  print_newline ()

(* usage: driver world <fixed:0|1> <histories> <impl-transcripts>
          driver dispatch <histories> <impl-transcripts>
   dispatch output per history: model transcript line, then
     "V <tree_eq> <decl_eq> <probe_eq> <panic_eq> <nlogs> <nbad> <first_bad_code> <counter_violations> <panics>" *)
let run_world () =
  let fixed = Sys.argv.(2) <> "0" in
  let hf = open_in Sys.argv.(3) in
  let tf = open_in Sys.argv.(4) in
  (try
     while true do
       let h = List.map z_of_int (ints_of_line (input_line hf)) in
       let t = transcript_of_line (input_line tf) in
       let m = model_transcript fixed h in
       let eq = zlists_eqb m t in
       let v = verdict h t in
       print_string (line_of_transcript m);
       print_newline ();
       print_zs ("V " ^ (if eq then "1" else "0") ^ " ") v
     done
   with End_of_file -> ());
  close_in hf; close_in tf

let run_dispatch () =
  let hf = open_in Sys.argv.(2) in
  let tf = open_in Sys.argv.(3) in
  (try
     while true do
       let h = List.map z_of_int (ints_of_line (input_line hf)) in
       let t = transcript_of_line (input_line tf) in
       print_string (line_of_transcript (dispatch_model h));
       print_newline ();
       print_zs "V " (dispatch_verdict h t)
     done
   with End_of_file -> ());
  close_in hf; close_in tf

let ints_line (l : z list) : string =
  String.concat " " (List.map (fun x -> string_of_int (int_of_z x)) l)

(* driver conc <cases> <impl-transcripts>
   per case: the model transcript, then "V <decoded> <eq> <c10_ok>" *)
let main_conc () =
  let hf = open_in Sys.argv.(2) in
  let tf = open_in Sys.argv.(3) in
  (try
     while true do
       let h = List.map z_of_int (ints_of_line (input_line hf)) in
       let t = transcript_of_line (input_line tf) in
       let m = conc_transcript h in
       let eq = zlists_eqb m t in
       let v = conc_verdict h t eq in
       print_string (line_of_transcript m);
       print_newline ();
       print_string ("V " ^ ints_line v);
       print_newline ()
     done
   with End_of_file -> ());
  close_in hf; close_in tf

(* driver conc-enum <cases>: per case one line, its schedules separated by " | " *)
let main_conc_enum () =
  let hf = open_in Sys.argv.(2) in
  (try
     while true do
       let h = List.map z_of_int (ints_of_line (input_line hf)) in
       print_string (line_of_transcript (conc_enum h));
       print_newline ()
     done
   with End_of_file -> ());
  close_in hf

(* usage: driver saveload <uuid:0|1> <histories> <impl-transcripts>
   output per history: model transcript line, then "V <eq>" *)
let run_saveload () =
  let uuid = Sys.argv.(2) <> "0" in
  let hf = open_in Sys.argv.(3) in
  let tf = open_in Sys.argv.(4) in
  (try
     while true do
       let h = List.map z_of_int (ints_of_line (input_line hf)) in
       let t = transcript_of_line (input_line tf) in
       let m = saveload_transcript uuid h in
       let eq = zlists_eqb m t in
       print_string (line_of_transcript m);
       print_newline ();
       print_string ("V " ^ (if eq then "1" else "0"));
       print_newline ()
     done
   with End_of_file -> ());
  close_in hf; close_in tf

(* usage: driver unwind <histories> <impl-transcripts>      (C19)
   output per history: the model's transcript run with the oracle read off the implementation's
   transcript, then "V <equal> <length> <first differing entry or -1>";
          driver unwind-model <histories>: the model's transcript with the default oracle *)
let run_unwind () =
  let hf = open_in Sys.argv.(2) in
  let tf = open_in Sys.argv.(3) in
  (try
     while true do
       let h = List.map z_of_int (ints_of_line (input_line hf)) in
       let t = transcript_of_line (input_line tf) in
       (match unwind_verdict h t with
        | v :: m ->
          print_string (line_of_transcript m);
          print_newline ();
          print_zs "V " v
        | [] -> failwith "unwind_verdict: empty")
     done
   with End_of_file -> ());
  close_in hf; close_in tf

let run_unwind_model () =
  let hf = open_in Sys.argv.(2) in
  (try
     while true do
       let h = List.map z_of_int (ints_of_line (input_line hf)) in
       print_string (line_of_transcript (unwind_transcript h));
       print_newline ()
     done
   with End_of_file -> ());
  close_in hf

(* usage: driver hibit <cases>: the model's transcript per case *)
let run_hibit () =
  let hf = open_in Sys.argv.(2) in
  (try
     while true do
       let h = List.map z_of_int (ints_of_line (input_line hf)) in
       print_string (line_of_transcript (hibit_transcript h));
       print_newline ()
     done
   with End_of_file -> ());
  close_in hf

let () =
  match Sys.argv.(1) with
  | "world" -> run_world ()
  | "dispatch" -> run_dispatch ()
  | "derive" -> run_derive ()
  | "conc" -> main_conc ()
  | "conc-enum" -> main_conc_enum ()
  | "saveload" -> run_saveload ()
  | "unwind" -> run_unwind ()
  | "unwind-model" -> run_unwind_model ()
  | "hibit" -> run_hibit ()
  | d -> failwith ("unknown domain " ^ d)
