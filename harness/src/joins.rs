//! Joins, restricted storages and change sets (ops 80..86, see JOINS_SPEC.md).
//!
//! Member kinds and storage ids are chosen by the history at run time, while the tuple joins of
//! `specs` are statically typed.  Every member is therefore wrapped into a type-erased join
//! (`DynJoin` / `DynLend` / `DynPar`) whose `open` calls the *real* `open` of the concrete member
//! and whose `get` calls the real `get`, acts on the yielded item the way user code would and
//! returns a printable `Item`.  Tuples of 1..=8 erased members then run through the real
//! macro-generated tuple impls of `Join` / `LendJoin` / `ParJoin` (with the real `BitAnd` tree over
//! `DynMask`, which delegates every `BitSetLike` method to the real mask of the member), and
//! `.maybe()` is the real `MaybeJoin` around an erased member.
//!
//! No `unsafe` is used to stretch lifetimes: the storages are fetched into `Holders`, restricted
//! views are built into `Srcs` (which has no drop glue, so that `&'h mut Srcs<'h, _>` is
//! accepted), and members borrow from there.  The only `unsafe` blocks are the calls of the
//! `unsafe fn open/get` of the join traits, made under the contract the real iterators pass on.
use crate::by_sid;
use crate::comps::*;
use crate::world_exec::{ret, Out, St};
use specs::changeset::ChangeSet;
use specs::hibitset::{BitSetAnd, BitSetLike, BitSetNot, BitSetOr, BitSetXor};
#[nougat::gat(Type)]
use specs::join::LendJoin;
use specs::join::{Join, LendJoinType, MaybeJoin, ParJoin, RepeatableLendGet};
use specs::prelude::{BitSet, Component, Entities, Entity, ParallelIterator, ReadStorage, World, WorldExt, WriteStorage};
use specs::storage::{
    AccessMut, DistinctStorage, PairedStorageRead, PairedStorageWriteExclusive, PairedStorageWriteShared,
    RestrictedStorage, SharedGetMutStorage,
};
use specs::world::Index;
use std::marker::PhantomData;
use std::ops::AddAssign;
use std::sync::Mutex;

/// JOINS_SPEC member 1: "if touch=1 call deref_mut(); if write=1 set val through DerefMut" is read
/// literally, i.e. touch=1 together with write=1 makes two separate `deref_mut` calls (two
/// Modified events on a DerefFlagged storage).  Set to `false` to get the behaviour of op 32
/// (GetMut), which makes a single `access_mut` call when either flag is set.
const TOUCH_AND_WRITE_ARE_SEPARATE_ACCESSES: bool = false;

// ---------------------------------------------------------------------------------------------
// change-set amounts

/// the amounts of the change-set slots: `a += b` is the non-commutative `a := 3*a + b`
/// every amount made and every amount destroyed is counted (C16 / C08: each accumulated amount is handed out or
/// destroyed exactly once, none is leaked and none destroyed twice)
#[derive(Debug, PartialEq, Eq)]
pub struct Amt(pub i64);

thread_local! {
    static AMT_MADE: std::cell::Cell<i64> = std::cell::Cell::new(0);
    static AMT_GONE: std::cell::Cell<i64> = std::cell::Cell::new(0);
}

impl Amt {
    pub fn new(v: i64) -> Amt {
        AMT_MADE.with(|c| c.set(c.get() + 1));
        Amt(v)
    }
}

impl Drop for Amt {
    fn drop(&mut self) {
        AMT_GONE.with(|c| c.set(c.get() + 1));
    }
}

/// (amounts made, amounts destroyed) since the last call
pub fn take_amounts() -> (i64, i64) {
    (AMT_MADE.with(|c| c.replace(0)), AMT_GONE.with(|c| c.replace(0)))
}

impl AddAssign for Amt {
    fn add_assign(&mut self, b: Amt) {
        self.0 = self.0.checked_mul(3).and_then(|x| x.checked_add(b.0)).expect("Amt overflow");
    }
}

pub type CsSlots = [ChangeSet<Amt>; 4];

// ---------------------------------------------------------------------------------------------
// erased masks

/// the mask of any member kind, whatever type the implementation gives it; every `BitSetLike`
/// method is delegated (so a change of a member's mask type is observed, not a build failure)
pub struct DynMask<'a>(Box<dyn BitSetLike + Send + Sync + 'a>);

impl<'a> DynMask<'a> {
    pub fn of<T: BitSetLike + Send + Sync + 'a>(t: T) -> Self {
        DynMask(Box::new(t))
    }
}

impl<'a> BitSetLike for DynMask<'a> {
    fn get_from_layer(&self, layer: usize, idx: usize) -> usize {
        self.0.get_from_layer(layer, idx)
    }
    fn is_empty(&self) -> bool {
        self.0.is_empty()
    }
    fn layer3(&self) -> usize {
        self.0.layer3()
    }
    fn layer2(&self, i: usize) -> usize {
        self.0.layer2(i)
    }
    fn layer1(&self, i: usize) -> usize {
        self.0.layer1(i)
    }
    fn layer0(&self, i: usize) -> usize {
        self.0.layer0(i)
    }
    fn contains(&self, i: Index) -> bool {
        self.0.contains(i)
    }
}

// ---------------------------------------------------------------------------------------------
// erased members

/// what one member yielded for one index: the index its `get` was called with and the encoded item
pub struct Item {
    pub idx: Index,
    pub enc: Vec<i64>,
}

type SeqGet<'a> = Box<dyn FnMut(Index) -> Item + 'a>;
type ParGet<'a> = Box<dyn Fn(Index) -> Item + Send + Sync + 'a>;

/// a member of a `.join()` tuple
pub struct DynJoin<'a>(Box<dyn FnOnce() -> (DynMask<'a>, SeqGet<'a>) + 'a>);

/// marker: every member behind this erased join is `RepeatableLendGet` (checked where it is built)
pub struct Rep;
/// marker: no such promise
pub struct NoRep;

/// a member of a `.lend_join()` tuple
pub struct DynLend<'a, R>(Box<dyn FnOnce() -> (DynMask<'a>, SeqGet<'a>) + 'a>, PhantomData<R>);
type DynLendN<'a> = DynLend<'a, NoRep>;
type DynLendR<'a> = DynLend<'a, Rep>;

/// a member of a `.par_join()` tuple
pub struct DynPar<'a>(Box<dyn FnOnce() -> (DynMask<'a>, ParGet<'a>) + Send + 'a>);

// SAFETY: mask and value come from one call of the real `open` of the wrapped member; `get`
// forwards to the real `get` under the same contract.
unsafe impl<'a> Join for DynJoin<'a> {
    type Mask = DynMask<'a>;
    type Type = Item;
    type Value = SeqGet<'a>;

    unsafe fn open(self) -> (Self::Mask, Self::Value) {
        (self.0)()
    }

    unsafe fn get(v: &mut Self::Value, id: Index) -> Item {
        v(id)
    }
}

// SAFETY: as above.
#[nougat::gat]
unsafe impl<'a, R> LendJoin for DynLend<'a, R> {
    type Mask = DynMask<'a>;
    type Type<'next> = Item;
    type Value = SeqGet<'a>;

    unsafe fn open(self) -> (Self::Mask, Self::Value) {
        (self.0)()
    }

    unsafe fn get<'next>(v: &'next mut Self::Value, id: Index) -> Self::Type<'next> {
        v(id)
    }
}

/// a lending member that reports itself unconstrained, as the real `MaybeJoin` does (the erased member hides that
/// static answer): used when every member of a looked-up tuple is optional
pub struct UncLend<'a>(DynLend<'a, Rep>);

// SAFETY: forwards to the erased member.
#[nougat::gat]
unsafe impl<'a> LendJoin for UncLend<'a> {
    type Mask = DynMask<'a>;
    type Type<'next> = Item;
    type Value = SeqGet<'a>;

    unsafe fn open(self) -> (Self::Mask, Self::Value) {
        ((self.0).0)()
    }

    unsafe fn get<'next>(v: &'next mut Self::Value, id: Index) -> Self::Type<'next> {
        v(id)
    }

    fn is_unconstrained() -> bool {
        true
    }
}

// SAFETY: wraps a `DynLend<_, Rep>`.
unsafe impl<'a> RepeatableLendGet for UncLend<'a> {}

// SAFETY: a `DynLend<_, Rep>` is only built by the `LR` arm of `erase!`, which requires the wrapped
// member to be `RepeatableLendGet` itself.
unsafe impl<'a> RepeatableLendGet for DynLend<'a, Rep> {}

// SAFETY: as above; the value is only built from members that are `ParJoin`, whose `get` may be
// called from several threads, and the closure is `Fn + Send + Sync`.
unsafe impl<'a> ParJoin for DynPar<'a> {
    type Mask = DynMask<'a>;
    type Type = Item;
    type Value = ParGet<'a>;

    unsafe fn open(self) -> (Self::Mask, Self::Value) {
        (self.0)()
    }

    unsafe fn get(v: &Self::Value, id: Index) -> Item {
        v(id)
    }
}

/// names the (often unnameable) type of a concrete member so that its trait functions can be called
struct Tok<J>(PhantomData<fn() -> J>);
impl<J> Clone for Tok<J> {
    fn clone(&self) -> Self {
        Tok(PhantomData)
    }
}
impl<J> Copy for Tok<J> {}
fn tok_of<J>(_: &J) -> Tok<J> {
    Tok(PhantomData)
}

impl<J> Tok<J> {
    fn j_open(self, j: J) -> (<J as Join>::Mask, <J as Join>::Value)
    where
        J: Join,
    {
        // SAFETY: mask and value stay together inside one erased member
        unsafe { Join::open(j) }
    }
    unsafe fn j_get(self, v: &mut <J as Join>::Value, i: Index) -> <J as Join>::Type
    where
        J: Join,
    {
        unsafe { <J as Join>::get(v, i) }
    }
    fn l_open(self, j: J) -> (<J as LendJoin>::Mask, <J as LendJoin>::Value)
    where
        J: LendJoin,
    {
        // SAFETY: as above
        unsafe { LendJoin::open(j) }
    }
    fn lr_open(self, j: J) -> (<J as LendJoin>::Mask, <J as LendJoin>::Value)
    where
        J: RepeatableLendGet,
    {
        // SAFETY: as above
        unsafe { LendJoin::open(j) }
    }
    unsafe fn l_get<'n>(self, v: &'n mut <J as LendJoin>::Value, i: Index) -> LendJoinType<'n, J>
    where
        J: LendJoin,
    {
        unsafe { <J as LendJoin>::get(v, i) }
    }
    fn p_open(self, j: J) -> (<J as ParJoin>::Mask, <J as ParJoin>::Value)
    where
        J: ParJoin,
    {
        // SAFETY: as above
        unsafe { ParJoin::open(j) }
    }
    unsafe fn p_get(self, v: &<J as ParJoin>::Value, i: Index) -> <J as ParJoin>::Type
    where
        J: ParJoin,
    {
        unsafe { <J as ParJoin>::get(v, i) }
    }
}

/// erase!(flavour, member, |idx, item| encoded-item): wrap a concrete member.
/// SAFETY of the inner `get` calls: the erased `get` is only called by the real iterators (through
/// the real tuple / `MaybeJoin` impls), which uphold the contract of the trait.
macro_rules! erase {
    (J, $j:expr, |$i:ident, $it:ident| $body:expr) => {{
        let j = $j;
        let tok = tok_of(&j);
        DynJoin(Box::new(move || {
            let (m, mut v) = tok.j_open(j);
            let g: SeqGet<'_> = Box::new(move |$i: Index| {
                let mut $it = unsafe { tok.j_get(&mut v, $i) };
                Item { idx: $i, enc: $body }
            });
            (DynMask::of(m), g)
        }))
    }};
    (L, $j:expr, |$i:ident, $it:ident| $body:expr) => {{
        let j = $j;
        let tok = tok_of(&j);
        DynLend(
            Box::new(move || {
                let (m, mut v) = tok.l_open(j);
                let g: SeqGet<'_> = Box::new(move |$i: Index| {
                    let mut $it = unsafe { tok.l_get(&mut v, $i) };
                    Item { idx: $i, enc: $body }
                });
                (DynMask::of(m), g)
            }),
            PhantomData::<NoRep>,
        )
    }};
    (LR, $j:expr, |$i:ident, $it:ident| $body:expr) => {{
        let j = $j;
        let tok = tok_of(&j);
        DynLend(
            Box::new(move || {
                let (m, mut v) = tok.lr_open(j);
                let g: SeqGet<'_> = Box::new(move |$i: Index| {
                    let mut $it = unsafe { tok.l_get(&mut v, $i) };
                    Item { idx: $i, enc: $body }
                });
                (DynMask::of(m), g)
            }),
            PhantomData::<Rep>,
        )
    }};
    (P, $j:expr, |$i:ident, $it:ident| $body:expr) => {{
        let j = $j;
        let tok = tok_of(&j);
        DynPar(Box::new(move || {
            let (m, v) = tok.p_open(j);
            let g: ParGet<'_> = Box::new(move |$i: Index| {
                let mut $it = unsafe { tok.p_get(&v, $i) };
                Item { idx: $i, enc: $body }
            });
            (DynMask::of(m), g)
        }))
    }};
}

// ---------------------------------------------------------------------------------------------
// what user code does with the yielded items

fn enc_tok<T: Tokish>(t: &T) -> Vec<i64> {
    vec![1, t.uid() as i64, t.val()]
}

fn enc_ent(e: Entity) -> Vec<i64> {
    vec![2, e.id() as i64, e.gen().id() as i64]
}

fn enc_maybe(i: Index, o: Option<Item>) -> Vec<i64> {
    match o {
        Some(it) => {
            assert_eq!(it.idx, i, "MaybeJoin forwarded another index");
            let mut v = vec![4];
            v.extend(it.enc);
            v
        }
        None => vec![5],
    }
}

/// member 1: read through `Deref`, then touch / write through `DerefMut`
fn act_write<T: Tokish, A: AccessMut<Target = T>>(a: &mut A, touch: bool, write: bool, delta: i64) -> Vec<i64> {
    let (u, v) = (a.uid(), a.val());
    if TOUCH_AND_WRITE_ARE_SEPARATE_ACCESSES {
        if touch {
            let _ = a.access_mut();
        }
        if write {
            a.access_mut().set_val(v + delta);
        }
    } else if touch || write {
        let r = a.access_mut();
        if write {
            r.set_val(v + delta);
        }
    }
    vec![1, u as i64, v]
}

#[derive(Clone)]
struct RestrCfg {
    selmod: i64,
    selrem: i64,
    delta: i64,
    others: Vec<Entity>,
}

impl RestrCfg {
    fn selected(&self, i: Index) -> bool {
        (i as i64) % self.selmod == self.selrem
    }
}

fn push_opt(o: &mut Vec<i64>, t: Option<(u64, i64)>) {
    match t {
        Some((u, v)) => o.extend([1, u as i64, v]),
        None => o.push(0),
    }
}

fn act_paired_read<T: Tokish>(it: &PairedStorageRead<'_, T>, cfg: &RestrCfg) -> Vec<i64> {
    let c = it.get();
    let mut o = vec![6, 1, c.uid() as i64, c.val(), cfg.others.len() as i64];
    for e in &cfg.others {
        push_opt(&mut o, it.get_other(*e).map(|t| (t.uid(), t.val())));
    }
    o
}

fn act_paired_shared<T: Tokish>(it: &mut PairedStorageWriteShared<'_, T>, i: Index, cfg: &RestrCfg) -> Vec<i64>
where
    T::Storage: SharedGetMutStorage<T>,
{
    let (u, v) = {
        let c = it.get();
        (c.uid(), c.val())
    };
    if cfg.selected(i) {
        let mut a = it.get_mut();
        a.access_mut().set_val(v + cfg.delta);
    }
    vec![6, 1, u as i64, v, 0]
}

fn act_paired_excl<T: Tokish>(it: &mut PairedStorageWriteExclusive<'_, T>, i: Index, cfg: &RestrCfg) -> Vec<i64> {
    let (u, v) = {
        let c = it.get();
        (c.uid(), c.val())
    };
    if cfg.selected(i) {
        let mut a = it.get_mut();
        a.access_mut().set_val(v + cfg.delta);
    }
    let mut o = vec![6, 1, u as i64, v, cfg.others.len() as i64];
    for e in &cfg.others {
        if cfg.delta % 2 != 0 {
            // a mutable fetch of the other component; nothing is written through it
            let r = it.get_other_mut(*e).map(|a| (a.uid(), a.val()));
            push_opt(&mut o, r);
        } else {
            push_opt(&mut o, it.get_other(*e).map(|t| (t.uid(), t.val())));
        }
    }
    o
}

// ---------------------------------------------------------------------------------------------
// compile-time facts about the component types (which impls exist)

pub trait JoinComp: Tokish {
    /// `T::Storage: SharedGetMutStorage<T>`: `&mut storage` / `&mut restrict_mut()` have `Join`
    const J_MUT: bool;
    /// additionally `DistinctStorage`: they have `ParJoin`
    const P_MUT: bool;
    fn j_write<'h, 'w>(st: &'h mut WriteStorage<'w, Self>, f: (bool, bool, i64)) -> Option<DynJoin<'h>>;
    fn p_write<'h, 'w>(st: &'h mut WriteStorage<'w, Self>, f: (bool, bool, i64)) -> Option<DynPar<'h>>;
    fn j_restr<'h>(r: &'h mut RestrW<'h, Self>, cfg: RestrCfg) -> Option<DynJoin<'h>>;
    fn p_restr<'h>(r: &'h mut RestrW<'h, Self>, cfg: RestrCfg) -> Option<DynPar<'h>>;
}

type RestrR<'h, T> = RestrictedStorage<'h, T, &'h <T as Component>::Storage>;
type RestrW<'h, T> = RestrictedStorage<'h, T, &'h mut <T as Component>::Storage>;

fn j_write_impl<'h, 'w, T: Tokish>(st: &'h mut WriteStorage<'w, T>, (touch, write, delta): (bool, bool, i64)) -> DynJoin<'h>
where
    T::Storage: SharedGetMutStorage<T>,
{
    erase!(J, st, |i, it| act_write(&mut it, touch, write, delta))
}

fn p_write_impl<'h, 'w, T: Tokish>(st: &'h mut WriteStorage<'w, T>, (touch, write, delta): (bool, bool, i64)) -> DynPar<'h>
where
    T::Storage: Sync + SharedGetMutStorage<T> + DistinctStorage,
{
    erase!(P, st, |i, it| act_write(&mut it, touch, write, delta))
}

fn j_restr_impl<'h, T: Tokish>(r: &'h mut RestrW<'h, T>, cfg: RestrCfg) -> DynJoin<'h>
where
    T::Storage: SharedGetMutStorage<T>,
{
    erase!(J, r, |i, it| act_paired_shared(&mut it, i, &cfg))
}

fn p_restr_impl<'h, T: Tokish>(r: &'h mut RestrW<'h, T>, cfg: RestrCfg) -> DynPar<'h>
where
    T::Storage: Sync + SharedGetMutStorage<T> + DistinctStorage,
{
    erase!(P, r, |i, it| act_paired_shared(&mut it, i, &cfg))
}

macro_rules! join_comp {
    (plain: $($T:ident)*) => {$(
        impl JoinComp for $T {
            const J_MUT: bool = true;
            const P_MUT: bool = true;
            fn j_write<'h, 'w>(st: &'h mut WriteStorage<'w, Self>, f: (bool, bool, i64)) -> Option<DynJoin<'h>> { Some(j_write_impl(st, f)) }
            fn p_write<'h, 'w>(st: &'h mut WriteStorage<'w, Self>, f: (bool, bool, i64)) -> Option<DynPar<'h>> { Some(p_write_impl(st, f)) }
            fn j_restr<'h>(r: &'h mut RestrW<'h, Self>, cfg: RestrCfg) -> Option<DynJoin<'h>> { Some(j_restr_impl(r, cfg)) }
            fn p_restr<'h>(r: &'h mut RestrW<'h, Self>, cfg: RestrCfg) -> Option<DynPar<'h>> { Some(p_restr_impl(r, cfg)) }
        }
    )*};
    (shared_get_mut_only: $($T:ident)*) => {$(
        impl JoinComp for $T {
            const J_MUT: bool = true;
            const P_MUT: bool = false;
            fn j_write<'h, 'w>(st: &'h mut WriteStorage<'w, Self>, f: (bool, bool, i64)) -> Option<DynJoin<'h>> { Some(j_write_impl(st, f)) }
            fn p_write<'h, 'w>(_: &'h mut WriteStorage<'w, Self>, _: (bool, bool, i64)) -> Option<DynPar<'h>> { None }
            fn j_restr<'h>(r: &'h mut RestrW<'h, Self>, cfg: RestrCfg) -> Option<DynJoin<'h>> { Some(j_restr_impl(r, cfg)) }
            fn p_restr<'h>(_: &'h mut RestrW<'h, Self>, _: RestrCfg) -> Option<DynPar<'h>> { None }
        }
    )*};
    (lend_only: $($T:ident)*) => {$(
        impl JoinComp for $T {
            const J_MUT: bool = false;
            const P_MUT: bool = false;
            fn j_write<'h, 'w>(_: &'h mut WriteStorage<'w, Self>, _: (bool, bool, i64)) -> Option<DynJoin<'h>> { None }
            fn p_write<'h, 'w>(_: &'h mut WriteStorage<'w, Self>, _: (bool, bool, i64)) -> Option<DynPar<'h>> { None }
            fn j_restr<'h>(_: &'h mut RestrW<'h, Self>, _: RestrCfg) -> Option<DynJoin<'h>> { None }
            fn p_restr<'h>(_: &'h mut RestrW<'h, Self>, _: RestrCfg) -> Option<DynPar<'h>> { None }
        }
    )*};
}

// the rows that do not compile when moved up are exactly the missing impls of specs
join_comp!(plain: CV CD CT CH CB CZ);
join_comp!(shared_get_mut_only: FV FD FT FH FB FZ);
join_comp!(lend_only: GV GD GT GH GB GZ);

fn caps<T: JoinComp>() -> (bool, bool) {
    (T::J_MUT, T::P_MUT)
}

// ---------------------------------------------------------------------------------------------
// the decoded operation

#[derive(Clone, Debug)]
enum Mem {
    Read(i64),
    Write { sid: i64, touch: bool, write: bool, delta: i64 },
    Ents,
    Bits(Vec<u32>),
    Anti(i64),
    Maybe(Box<Mem>),
    Restr { sid: i64, mode: i64, selmod: i64, selrem: i64, delta: i64, others: Vec<Entity> },
    Cs { cs: usize, mode: i64, delta: i64 },
    Drain(i64),
    /// `&a & &b`, `&a | &b`, `&a ^ &b`, `!&a` of two explicit bit sets (op 0..3)
    BitOp(i64, Vec<u32>, Vec<u32>),
}

/// fetching (and dropping) an item of this member changes nothing and emits nothing
fn fetch_is_pure(m: &Mem) -> bool {
    match m {
        Mem::Read(_) | Mem::Ents | Mem::Bits(_) | Mem::Anti(_) | Mem::BitOp(..) => true,
        // (the erased member reads, and for the mutable view writes, while it builds the item)
        Mem::Restr { mode, .. } => *mode != 1,
        Mem::Cs { mode, .. } => *mode == 0,
        Mem::Maybe(inner) => fetch_is_pure(inner),
        Mem::Write { .. } | Mem::Drain(_) => false,
    }
}

#[derive(Clone, Copy, PartialEq, Eq, Debug)]
enum Flavour {
    /// `.join()`
    J,
    /// `.lend_join()`, iterated
    L,
    /// `.lend_join()`, `get` / `get_unchecked`
    LR,
    /// `.par_join()`
    P,
}

fn take1(p: &[i64], pos: &mut usize) -> Option<i64> {
    let x = *p.get(*pos)?;
    *pos += 1;
    Some(x)
}

fn sid_ok(s: i64) -> Option<i64> {
    if (0..18).contains(&s) {
        Some(s)
    } else {
        None
    }
}

fn parse_member(p: &[i64], pos: &mut usize, hs: &[Entity], depth: usize) -> Option<Mem> {
    if depth > 8 {
        return None;
    }
    let code = take1(p, pos)?;
    Some(match code {
        0 => Mem::Read(sid_ok(take1(p, pos)?)?),
        1 => {
            let sid = sid_ok(take1(p, pos)?)?;
            let touch = take1(p, pos)? != 0;
            let write = take1(p, pos)? != 0;
            let delta = take1(p, pos)?;
            Mem::Write { sid, touch, write, delta }
        }
        2 => Mem::Ents,
        3 => {
            let n = take1(p, pos)?;
            if n < 0 {
                return None;
            }
            let mut xs = Vec::new();
            for _ in 0..n {
                let x = take1(p, pos)?;
                // hibitset holds indices below 64^4
                if !(0..(1 << 24)).contains(&x) {
                    return None;
                }
                xs.push(x as u32);
            }
            Mem::Bits(xs)
        }
        4 => Mem::Anti(sid_ok(take1(p, pos)?)?),
        5 => Mem::Maybe(Box::new(parse_member(p, pos, hs, depth + 1)?)),
        6 => {
            let sid = sid_ok(take1(p, pos)?)?;
            let mode = take1(p, pos)?;
            let selmod = take1(p, pos)?;
            let selrem = take1(p, pos)?;
            let delta = take1(p, pos)?;
            let no = take1(p, pos)?;
            if !(0..=2).contains(&mode) || selmod < 1 || no < 0 {
                return None;
            }
            let mut others = Vec::new();
            for _ in 0..no {
                let h = take1(p, pos)?;
                if h < 0 {
                    return None;
                }
                others.push(*hs.get(h as usize)?);
            }
            Mem::Restr { sid, mode, selmod, selrem, delta, others }
        }
        7 => {
            let cs = take1(p, pos)?;
            let mode = take1(p, pos)?;
            let delta = take1(p, pos)?;
            if !(0..4).contains(&cs) || !(0..=2).contains(&mode) {
                return None;
            }
            Mem::Cs { cs: cs as usize, mode, delta }
        }
        8 => Mem::Drain(sid_ok(take1(p, pos)?)?),
        9 => {
            let op = take1(p, pos)?;
            if !(0..=3).contains(&op) {
                return None;
            }
            let mut sets: [Vec<u32>; 2] = [Vec::new(), Vec::new()];
            for k in 0..2 {
                let n = take1(p, pos)?;
                if n < 0 {
                    return None;
                }
                for _ in 0..n {
                    let x = take1(p, pos)?;
                    if !(0..(1 << 24)).contains(&x) {
                        return None;
                    }
                    sets[k].push(x as u32);
                }
            }
            let [a, b] = sets;
            Mem::BitOp(op, a, b)
        }
        _ => return None,
    })
}

/// how a join uses one storage
#[derive(Clone, Copy, Default, Debug)]
struct Need {
    shared: u32,
    excl: u32,
    /// a restricted view is wanted (shared: `restrict()`, exclusive: `restrict_mut()`)
    restr: bool,
}

#[derive(Default)]
struct Plan {
    st: [Need; 18],
    cs_shared: [u32; 4],
    cs_excl: [u32; 4],
    nbits: usize,
}

/// does the member exist for this flavour (a compile-time fact of specs), and what does it borrow
fn plan_member(m: &Mem, fl: Flavour, plan: &mut Plan) -> bool {
    match m {
        Mem::Read(sid) | Mem::Anti(sid) => {
            plan.st[*sid as usize].shared += 1;
            true
        }
        Mem::Ents => true,
        Mem::Bits(_) => {
            plan.nbits += 1;
            true
        }
        Mem::BitOp(..) => {
            plan.nbits += 2;
            true
        }
        Mem::Maybe(inner) => plan_member(inner, fl, plan),
        Mem::Write { sid, .. } => {
            plan.st[*sid as usize].excl += 1;
            let (j, p) = by_sid!(*sid, caps,);
            match fl {
                Flavour::J => j,
                Flavour::P => p,
                Flavour::L | Flavour::LR => true,
            }
        }
        Mem::Restr { sid, mode, .. } => {
            let n = &mut plan.st[*sid as usize];
            n.restr = true;
            if *mode == 0 {
                n.shared += 1;
                true
            } else {
                n.excl += 1;
                let (j, p) = by_sid!(*sid, caps,);
                match (*mode, fl) {
                    (1, Flavour::J) => j,
                    (1, Flavour::P) => p,
                    _ => true,
                }
            }
        }
        Mem::Cs { cs, mode, .. } => {
            if *mode == 0 {
                plan.cs_shared[*cs] += 1;
            } else {
                plan.cs_excl[*cs] += 1;
            }
            match fl {
                // no ParJoin for change sets
                Flavour::P => false,
                // the by-value change set is the one join that is not RepeatableLendGet
                Flavour::LR => *mode != 2,
                Flavour::J | Flavour::L => true,
            }
        }
        Mem::Drain(sid) => {
            plan.st[*sid as usize].excl += 1;
            // Drain has Join and LendJoin (and is RepeatableLendGet), no ParJoin
            fl != Flavour::P
        }
    }
}

// ---------------------------------------------------------------------------------------------
// holders: fetched storages, restricted views, borrow table

enum Hold<'w, T: Component> {
    None,
    R(ReadStorage<'w, T>),
    W(WriteStorage<'w, T>),
}

/// no drop glue in here (references and restricted views only)
enum Src<'h, 'w, T: Component> {
    None,
    Shared { st: &'h ReadStorage<'w, T>, restr: Option<RestrR<'h, T>> },
    W(Option<&'h mut WriteStorage<'w, T>>),
    RestrW(RestrW<'h, T>),
}

enum Ref<'h, X> {
    Gone,
    Excl(&'h mut X),
    Shared(&'h X),
}

impl<'h, X> Ref<'h, X> {
    fn shared(&self) -> &'h X {
        match self {
            Ref::Shared(x) => *x,
            _ => panic!("joins: borrow plan violated (shared)"),
        }
    }
    fn excl(&mut self) -> &'h mut X {
        match std::mem::replace(self, Ref::Gone) {
            Ref::Excl(x) => x,
            _ => panic!("joins: borrow plan violated (exclusive)"),
        }
    }
}

fn fetch<'w, T: Tokish>(world: &'w World, n: Need) -> Hold<'w, T> {
    if n.excl > 0 {
        Hold::W(world.write_storage::<T>())
    } else if n.shared > 0 {
        Hold::R(world.read_storage::<T>())
    } else {
        Hold::None
    }
}

fn mk_src<'h, 'w, T: Tokish>(h: &'h mut Hold<'w, T>, n: Need) -> Src<'h, 'w, T> {
    match h {
        Hold::None => Src::None,
        Hold::R(st) => {
            let st: &'h ReadStorage<'w, T> = st;
            Src::Shared { st, restr: if n.restr { Some(st.restrict()) } else { None } }
        }
        Hold::W(st) => {
            if n.restr {
                Src::RestrW(st.restrict_mut())
            } else {
                Src::W(Some(st))
            }
        }
    }
}

fn mk_ref<'h, X>(x: &'h mut X, n: Need) -> Ref<'h, X> {
    if n.excl > 0 {
        Ref::Excl(x)
    } else if n.shared > 0 {
        Ref::Shared(x)
    } else {
        Ref::Gone
    }
}

impl<'h, 'w, T: Tokish> Ref<'h, Src<'h, 'w, T>> {
    fn read(&self) -> &'h ReadStorage<'w, T> {
        match self.shared() {
            Src::Shared { st, .. } => *st,
            _ => panic!("joins: not fetched for reading"),
        }
    }
    fn restr_read(&self) -> &'h RestrR<'h, T> {
        match self.shared() {
            Src::Shared { restr: Some(r), .. } => r,
            _ => panic!("joins: no shared restriction"),
        }
    }
    fn write(&mut self) -> &'h mut WriteStorage<'w, T> {
        match self.excl() {
            Src::W(o) => o.take().expect("joins: write storage taken twice"),
            _ => panic!("joins: not fetched for writing"),
        }
    }
    fn restr_write(&mut self) -> &'h mut RestrW<'h, T> {
        match self.excl() {
            Src::RestrW(r) => r,
            _ => panic!("joins: no mutable restriction"),
        }
    }
}

macro_rules! def_tables {
    ($(($n:expr, $T:ident, $f:ident))*) => {
        struct Holders<'w> { $($f: Hold<'w, $T>,)* }
        struct Srcs<'h, 'w> { $($f: Src<'h, 'w, $T>,)* }
        struct Refs<'h, 'w> { $($f: Ref<'h, Src<'h, 'w, $T>>,)* }

        fn fetch_all<'w>(world: &'w World, needs: &[Need; 18]) -> Holders<'w> {
            Holders { $($f: fetch::<$T>(world, needs[$n]),)* }
        }
        fn mk_srcs<'h, 'w>(h: &'h mut Holders<'w>, needs: &[Need; 18]) -> Srcs<'h, 'w> {
            Srcs { $($f: mk_src(&mut h.$f, needs[$n]),)* }
        }
        fn mk_refs<'h, 'w>(s: &'h mut Srcs<'h, 'w>, needs: &[Need; 18]) -> Refs<'h, 'w> {
            Refs { $($f: mk_ref(&mut s.$f, needs[$n]),)* }
        }
    };
}

def_tables! {
    (0, CV, f0) (1, CD, f1) (2, CT, f2) (3, CH, f3) (4, CB, f4) (5, CZ, f5)
    (6, FV, f6) (7, FD, f7) (8, FT, f8) (9, FH, f9) (10, FB, f10)
    (11, GV, f11) (12, GD, f12) (13, GT, f13) (14, GH, f14) (15, GB, f15)
    (16, FZ, f16) (17, GZ, f17)
}

/// with_ref!(refs, sid, |r| expr): evaluate `expr` with `r` the (typed) table entry of the storage
macro_rules! with_ref {
    ($refs:expr, $sid:expr, |$r:ident| $body:expr) => {
        match $sid {
            0 => { let $r = &mut $refs.f0; $body }
            1 => { let $r = &mut $refs.f1; $body }
            2 => { let $r = &mut $refs.f2; $body }
            3 => { let $r = &mut $refs.f3; $body }
            4 => { let $r = &mut $refs.f4; $body }
            5 => { let $r = &mut $refs.f5; $body }
            6 => { let $r = &mut $refs.f6; $body }
            7 => { let $r = &mut $refs.f7; $body }
            8 => { let $r = &mut $refs.f8; $body }
            9 => { let $r = &mut $refs.f9; $body }
            10 => { let $r = &mut $refs.f10; $body }
            11 => { let $r = &mut $refs.f11; $body }
            12 => { let $r = &mut $refs.f12; $body }
            13 => { let $r = &mut $refs.f13; $body }
            14 => { let $r = &mut $refs.f14; $body }
            15 => { let $r = &mut $refs.f15; $body }
            16 => { let $r = &mut $refs.f16; $body }
            17 => { let $r = &mut $refs.f17; $body }
            _ => panic!("bad storage id"),
        }
    };
}

/// everything the members of one join borrow from
struct Cx<'h, 'w> {
    refs: Refs<'h, 'w>,
    ents: &'h Entities<'w>,
    bitsets: &'h [BitSet],
    next_bits: usize,
    cs: [Ref<'h, ChangeSet<Amt>>; 4],
}

// ---------------------------------------------------------------------------------------------
// building the erased members, one function per flavour

fn w_write_j<'h, 'w, T: JoinComp>(st: &'h mut WriteStorage<'w, T>, f: (bool, bool, i64)) -> DynJoin<'h> {
    T::j_write(st, f).expect("joins: planned without SharedGetMutStorage")
}
fn w_write_p<'h, 'w, T: JoinComp>(st: &'h mut WriteStorage<'w, T>, f: (bool, bool, i64)) -> DynPar<'h> {
    T::p_write(st, f).expect("joins: planned without DistinctStorage")
}
fn w_write_l<'h, 'w, T: JoinComp>(st: &'h mut WriteStorage<'w, T>, (touch, write, delta): (bool, bool, i64)) -> DynLendN<'h> {
    erase!(L, st, |i, it| act_write(&mut it, touch, write, delta))
}
fn w_write_lr<'h, 'w, T: JoinComp>(st: &'h mut WriteStorage<'w, T>, (touch, write, delta): (bool, bool, i64)) -> DynLendR<'h> {
    erase!(LR, st, |i, it| act_write(&mut it, touch, write, delta))
}

fn w_restr_j<'h, T: JoinComp>(r: &'h mut RestrW<'h, T>, cfg: RestrCfg) -> DynJoin<'h> {
    T::j_restr(r, cfg).expect("joins: planned without SharedGetMutStorage")
}
fn w_restr_p<'h, T: JoinComp>(r: &'h mut RestrW<'h, T>, cfg: RestrCfg) -> DynPar<'h> {
    T::p_restr(r, cfg).expect("joins: planned without DistinctStorage")
}
fn w_restr_l<'h, T: JoinComp>(r: &'h mut RestrW<'h, T>, cfg: RestrCfg) -> DynLendN<'h> {
    erase!(L, r, |i, it| act_paired_excl(&mut it, i, &cfg))
}
fn w_restr_lr<'h, T: JoinComp>(r: &'h mut RestrW<'h, T>, cfg: RestrCfg) -> DynLendR<'h> {
    erase!(LR, r, |i, it| act_paired_excl(&mut it, i, &cfg))
}

fn drain_j<'h, 'w, T: JoinComp>(st: &'h mut WriteStorage<'w, T>) -> DynJoin<'h> {
    erase!(J, st.drain(), |i, it| {
        let (u, v) = ret(it);
        vec![1, u as i64, v]
    })
}
fn drain_l<'h, 'w, T: JoinComp>(st: &'h mut WriteStorage<'w, T>) -> DynLendN<'h> {
    erase!(L, st.drain(), |i, it| {
        let (u, v) = ret(it);
        vec![1, u as i64, v]
    })
}
fn drain_lr<'h, 'w, T: JoinComp>(st: &'h mut WriteStorage<'w, T>) -> DynLendR<'h> {
    erase!(LR, st.drain(), |i, it| {
        let (u, v) = ret(it);
        vec![1, u as i64, v]
    })
}
fn drain_p<'h, 'w, T: JoinComp>(_: &'h mut WriteStorage<'w, T>) -> DynPar<'h> {
    unreachable!("joins: Drain has no ParJoin")
}

fn cs_mut_j<'h>(c: &'h mut ChangeSet<Amt>, delta: i64) -> DynJoin<'h> {
    erase!(J, c, |i, it| {
        let old = it.0;
        *it += Amt::new(delta);
        vec![7, old]
    })
}
fn cs_mut_l<'h>(c: &'h mut ChangeSet<Amt>, delta: i64) -> DynLendN<'h> {
    erase!(L, c, |i, it| {
        let old = it.0;
        *it += Amt::new(delta);
        vec![7, old]
    })
}
fn cs_mut_lr<'h>(c: &'h mut ChangeSet<Amt>, delta: i64) -> DynLendR<'h> {
    erase!(LR, c, |i, it| {
        let old = it.0;
        *it += Amt::new(delta);
        vec![7, old]
    })
}
fn cs_val_j<'h>(c: ChangeSet<Amt>) -> DynJoin<'h> {
    erase!(J, c, |i, it| vec![7, it.0])
}
fn cs_val_l<'h>(c: ChangeSet<Amt>) -> DynLendN<'h> {
    erase!(L, c, |i, it| vec![7, it.0])
}
fn cs_ref_j<'h>(c: &'h ChangeSet<Amt>) -> DynJoin<'h> {
    erase!(J, c, |i, it| vec![7, it.0])
}
fn cs_ref_l<'h>(c: &'h ChangeSet<Amt>) -> DynLendN<'h> {
    erase!(L, c, |i, it| vec![7, it.0])
}
fn cs_ref_lr<'h>(c: &'h ChangeSet<Amt>) -> DynLendR<'h> {
    erase!(LR, c, |i, it| vec![7, it.0])
}

macro_rules! def_build {
    ($name:ident, $Dyn:ident, $fl:ident, $write:ident, $restr:ident, $drain:ident,
     cs_ref: $cs_ref:ident, cs_mut: $cs_mut:ident, cs_val: $cs_val:ident, maybe: $maybe:ident) => {
        fn $name<'h, 'w>(m: &Mem, cx: &mut Cx<'h, 'w>) -> $Dyn<'h> {
            match m {
                Mem::Read(sid) => with_ref!(cx.refs, *sid, |r| {
                    let st = r.read();
                    erase!($fl, st, |i, it| enc_tok(it))
                }),
                Mem::Write { sid, touch, write, delta } => {
                    let f = (*touch, *write, *delta);
                    with_ref!(cx.refs, *sid, |r| $write(r.write(), f))
                }
                Mem::Ents => {
                    let e: &'h Entities<'w> = cx.ents;
                    erase!($fl, e, |i, it| enc_ent(it))
                }
                Mem::Bits(_) => {
                    let b: &'h BitSet = &cx.bitsets[cx.next_bits];
                    cx.next_bits += 1;
                    erase!($fl, b, |i, it| {
                        assert_eq!(it, i, "bit set join yielded another index");
                        vec![3]
                    })
                }
                Mem::BitOp(op, _, _) => {
                    let a: &'h BitSet = &cx.bitsets[cx.next_bits];
                    let b: &'h BitSet = &cx.bitsets[cx.next_bits + 1];
                    cx.next_bits += 2;
                    match *op {
                        0 => erase!($fl, BitSetAnd(a, b), |i, it| {
                            assert_eq!(it, i, "bit set join yielded another index");
                            vec![3]
                        }),
                        1 => erase!($fl, BitSetOr(a, b), |i, it| {
                            assert_eq!(it, i, "bit set join yielded another index");
                            vec![3]
                        }),
                        2 => erase!($fl, BitSetXor(a, b), |i, it| {
                            assert_eq!(it, i, "bit set join yielded another index");
                            vec![3]
                        }),
                        _ => erase!($fl, BitSetNot(a), |i, it| {
                            assert_eq!(it, i, "bit set join yielded another index");
                            vec![3]
                        }),
                    }
                }
                Mem::Anti(sid) => with_ref!(cx.refs, *sid, |r| {
                    let st = r.read();
                    erase!($fl, !st, |i, it| vec![3])
                }),
                Mem::Maybe(inner) => {
                    let d = $name(inner, cx);
                    let mj = $maybe(d);
                    erase!($fl, mj, |i, it| enc_maybe(i, it))
                }
                Mem::Restr { sid, mode, selmod, selrem, delta, others } => {
                    let cfg = RestrCfg { selmod: *selmod, selrem: *selrem, delta: *delta, others: others.clone() };
                    match *mode {
                        0 => with_ref!(cx.refs, *sid, |r| {
                            let rs = r.restr_read();
                            erase!($fl, rs, |i, it| act_paired_read(&it, &cfg))
                        }),
                        1 => with_ref!(cx.refs, *sid, |r| $restr(r.restr_write(), cfg)),
                        _ => with_ref!(cx.refs, *sid, |r| {
                            // a shared reference to the mutable restriction
                            let rs = &*r.restr_write();
                            erase!($fl, rs, |i, it| act_paired_read(&it, &cfg))
                        }),
                    }
                }
                Mem::Cs { cs, mode, delta } => match *mode {
                    0 => $cs_ref(cx.cs[*cs].shared()),
                    1 => $cs_mut(cx.cs[*cs].excl(), *delta),
                    _ => $cs_val(std::mem::take(cx.cs[*cs].excl())),
                },
                Mem::Drain(sid) => with_ref!(cx.refs, *sid, |r| $drain(r.write())),
            }
        }
    };
}

fn no_cs_ref_p<'h>(_: &'h ChangeSet<Amt>) -> DynPar<'h> {
    unreachable!("joins: no ParJoin for change sets")
}
fn no_cs_mut_p<'h>(_: &'h mut ChangeSet<Amt>, _: i64) -> DynPar<'h> {
    unreachable!("joins: no ParJoin for change sets")
}
fn no_cs_val_p<'h>(_: ChangeSet<Amt>) -> DynPar<'h> {
    unreachable!("joins: no ParJoin for change sets")
}
fn no_cs_val_lr<'h>(_: ChangeSet<Amt>) -> DynLendR<'h> {
    unreachable!("joins: the by-value change set is not RepeatableLendGet")
}

// `.maybe()` is a method of `LendJoin`; for the other two traits the same `MaybeJoin` is built
// through its public field
fn maybe_j(d: DynJoin<'_>) -> MaybeJoin<DynJoin<'_>> {
    MaybeJoin(d)
}
fn maybe_l<R>(d: DynLend<'_, R>) -> MaybeJoin<DynLend<'_, R>> {
    d.maybe()
}
fn maybe_p(d: DynPar<'_>) -> MaybeJoin<DynPar<'_>> {
    MaybeJoin(d)
}
def_build!(build_j, DynJoin, J, w_write_j, w_restr_j, drain_j,
    cs_ref: cs_ref_j, cs_mut: cs_mut_j, cs_val: cs_val_j, maybe: maybe_j);
def_build!(build_l, DynLendN, L, w_write_l, w_restr_l, drain_l,
    cs_ref: cs_ref_l, cs_mut: cs_mut_l, cs_val: cs_val_l, maybe: maybe_l);
def_build!(build_lr, DynLendR, LR, w_write_lr, w_restr_lr, drain_lr,
    cs_ref: cs_ref_lr, cs_mut: cs_mut_lr, cs_val: no_cs_val_lr, maybe: maybe_l);
def_build!(build_p, DynPar, P, w_write_p, w_restr_p, drain_p,
    cs_ref: no_cs_ref_p, cs_mut: no_cs_mut_p, cs_val: no_cs_val_p, maybe: maybe_p);

// ---------------------------------------------------------------------------------------------
// running the tuples

trait IntoItems {
    fn into_items(self) -> Vec<Item>;
}

macro_rules! into_items {
    ($($x:ident)*) => {
        impl IntoItems for ($(into_items!(@ty $x),)*) {
            #[allow(non_snake_case)]
            fn into_items(self) -> Vec<Item> {
                let ($($x,)*) = self;
                vec![$($x),*]
            }
        }
    };
    (@ty $x:ident) => { Item };
}
into_items!(A);
into_items!(A B);
into_items!(A B C);
into_items!(A B C D);
into_items!(A B C D E);
into_items!(A B C D E F);
into_items!(A B C D E F G);
into_items!(A B C D E F G H);

/// with_tuple!(vec, t => expr): evaluate `expr` with `t` the tuple of the 1..=8 elements of `vec`
macro_rules! with_tuple {
    ($vec:expr, $t:ident => $body:expr) => {{
        let mut it = $vec.into_iter();
        macro_rules! nx {
            () => {
                it.next().unwrap()
            };
        }
        match it.len() {
            1 => { let $t = (nx!(),); $body }
            2 => { let $t = (nx!(), nx!()); $body }
            3 => { let $t = (nx!(), nx!(), nx!()); $body }
            4 => { let $t = (nx!(), nx!(), nx!(), nx!()); $body }
            5 => { let $t = (nx!(), nx!(), nx!(), nx!(), nx!()); $body }
            6 => { let $t = (nx!(), nx!(), nx!(), nx!(), nx!(), nx!()); $body }
            7 => { let $t = (nx!(), nx!(), nx!(), nx!(), nx!(), nx!(), nx!()); $body }
            8 => { let $t = (nx!(), nx!(), nx!(), nx!(), nx!(), nx!(), nx!(), nx!()); $body }
            n => panic!("joins: tuple arity {}", n),
        }
    }};
}

/// `idx item_1 .. item_nm`; all members must have been asked for the same index
fn enc_row(o: &mut Out, row: Vec<Item>) {
    let idx = row[0].idx;
    o.push(idx as i64);
    for it in row {
        assert_eq!(it.idx, idx, "members of one tuple were asked for different indices");
        o.extend(it.enc);
    }
}

fn enc_rows(rows: Vec<Vec<Item>>) -> Out {
    let mut o = vec![21, rows.len() as i64];
    for r in rows {
        enc_row(&mut o, r);
    }
    o
}

fn enc_lookup(r: Option<Vec<Item>>) -> Out {
    match r {
        None => vec![22, 0],
        Some(row) => {
            let mut o = vec![22, 1];
            enc_row(&mut o, row);
            o
        }
    }
}

fn run_join(ms: Vec<DynJoin<'_>>, arg: i64) -> Out {
    let rows: Vec<Vec<Item>> = with_tuple!(ms, t => {
        if arg < 0 {
            let mut rows = Vec::new();
            for x in t.join() {
                rows.push(x.into_items());
            }
            rows
        } else {
            // the iterator is dropped after `arg` items
            t.join().take(arg as usize).map(|x| x.into_items()).collect()
        }
    });
    enc_rows(rows)
}

fn run_lend(ms: Vec<DynLendN<'_>>, arg: i64) -> Out {
    let rows: Vec<Vec<Item>> = with_tuple!(ms, t => {
        let mut rows = Vec::new();
        if arg == -2 {
            t.lend_join().for_each(|x| rows.push(x.into_items()));
        } else if arg < 0 {
            let mut it = t.lend_join();
            while let Some(x) = it.next() {
                rows.push(x.into_items());
            }
        } else {
            let mut it = t.lend_join();
            for _ in 0..arg {
                match it.next() {
                    Some(x) => rows.push(x.into_items()),
                    None => break,
                }
            }
            drop(it);
        }
        rows
    });
    enc_rows(rows)
}

fn run_par(ms: Vec<DynPar<'_>>, arg: usize) -> Out {
    // arg >= 1024: the consumer of every item itself runs a (read-only) parallel join on the same pool
    let nested = arg >= 1024;
    let threads = if nested { arg - 1024 } else { arg };
    let pool = specs::rayon::ThreadPoolBuilder::new().num_threads(threads).build().expect("thread pool");
    let rows: Mutex<Vec<Vec<Item>>> = Mutex::new(Vec::new());
    let mut probe = specs::hibitset::BitSet::new();
    for i in 0..300u32 {
        probe.add(i * 7);
    }
    with_tuple!(ms, t => {
        pool.install(|| {
            t.par_join().for_each(|x| {
                let items = x.into_items();
                if nested {
                    let n = (&probe).par_join().count();
                    std::hint::black_box(n);
                }
                rows.lock().unwrap().push(items);
            });
        })
    });
    drop(pool);
    let mut rows = rows.into_inner().unwrap();
    rows.sort_by_key(|r| r[0].idx);
    enc_rows(rows)
}

fn run_get(ms: Vec<DynLendR<'_>>, e: Entity, ents: &Entities<'_>, all_optional: bool, decoys: &[Index]) -> Out {
    let r: Option<Vec<Item>> = if all_optional {
        let ms: Vec<UncLend<'_>> = ms.into_iter().map(UncLend).collect();
        with_tuple!(ms, t => {
            let mut it = t.lend_join();
            // the same iterator is asked for other (mostly higher) indices first: what it answers afterwards must
            // not depend on what it was asked before
            for &d in decoys {
                let _ = it.get_unchecked(d);
            }
            let r = it.get(e, ents).map(|x| x.into_items());
            r
        })
    } else {
        with_tuple!(ms, t => {
            let mut it = t.lend_join();
            // the same iterator is asked for other (mostly higher) indices first: what it answers afterwards must
            // not depend on what it was asked before
            for &d in decoys {
                let _ = it.get_unchecked(d);
            }
            let r = it.get(e, ents).map(|x| x.into_items());
            r
        })
    };
    enc_lookup(r)
}

fn run_get_unchecked(ms: Vec<DynLendR<'_>>, idx: Index, all_optional: bool, decoys: &[Index]) -> Out {
    let r: Option<Vec<Item>> = if all_optional {
        let ms: Vec<UncLend<'_>> = ms.into_iter().map(UncLend).collect();
        with_tuple!(ms, t => {
            let mut it = t.lend_join();
            for &d in decoys {
                let _ = it.get_unchecked(d);
            }
            let r = it.get_unchecked(idx).map(|x| x.into_items());
            r
        })
    } else {
        with_tuple!(ms, t => {
            let mut it = t.lend_join();
            for &d in decoys {
                let _ = it.get_unchecked(d);
            }
            let r = it.get_unchecked(idx).map(|x| x.into_items());
            r
        })
    };
    enc_lookup(r)
}

// ---------------------------------------------------------------------------------------------
// op 80

pub fn op_join(world: &mut World, xs: &mut St, p: &[i64]) -> Out {
    // decode; anything malformed or not expressible with the real API is a skip without effects
    if p.len() < 3 {
        return vec![8];
    }
    let (kind, arg, nm) = (p[0], p[1], p[2]);
    if !(1..=8).contains(&nm) {
        return vec![8];
    }
    let fl = match kind {
        0 => Flavour::J,
        1 => Flavour::L,
        2 => Flavour::P,
        3 | 4 => Flavour::LR,
        _ => return vec![8],
    };
    let arg_ok = match kind {
        0 => arg >= -1,
        1 => arg >= -2,
        2 => (0..=640).contains(&arg) || (1024..=1024 + 64).contains(&arg),
        3 => arg >= 0 && (arg as usize) < xs.hs.len(),
        _ => (0..=u32::MAX as i64).contains(&arg),
    };
    if !arg_ok {
        return vec![8];
    }
    let mut pos = 3;
    let mut mems = Vec::new();
    for _ in 0..nm {
        match parse_member(p, &mut pos, &xs.hs, 0) {
            Some(m) => mems.push(m),
            None => return vec![8],
        }
    }
    if pos != p.len() {
        return vec![8];
    }
    let mut plan = Plan::default();
    for m in &mems {
        if !plan_member(m, fl, &mut plan) {
            return vec![8];
        }
    }
    // a storage / change set borrowed mutably cannot be borrowed a second time in the same tuple
    if plan.st.iter().any(|n| n.excl > 0 && n.excl + n.shared > 1) {
        return vec![8];
    }
    if (0..4).any(|k| plan.cs_excl[k] > 0 && plan.cs_excl[k] + plan.cs_shared[k] > 1) {
        return vec![8];
    }
    let lookup_entity = if kind == 3 { Some(xs.hs[arg as usize]) } else { None };

    // the explicit bit sets of the members `3`
    let mut bitsets: Vec<BitSet> = Vec::new();
    fn collect_bits(m: &Mem, out: &mut Vec<BitSet>) {
        match m {
            Mem::Bits(xs) => {
                let mut b = BitSet::new();
                for &x in xs {
                    b.add(x);
                }
                out.push(b);
            }
            Mem::BitOp(_, xa, xb) => {
                for xs in [xa, xb] {
                    let mut b = BitSet::new();
                    for &x in xs {
                        b.add(x);
                    }
                    out.push(b);
                }
            }
            Mem::Maybe(inner) => collect_bits(inner, out),
            _ => {}
        }
    }
    for m in &mems {
        collect_bits(m, &mut bitsets);
    }

    // every distinct storage is fetched once, mutably iff some member needs it mutably
    let world: &World = &*world;
    let ents: Entities<'_> = world.entities();
    let mut holders = fetch_all(world, &plan.st);
    let mut srcs = mk_srcs(&mut holders, &plan.st);
    let refs = mk_refs(&mut srcs, &plan.st);
    let mut cs_refs: [Ref<'_, ChangeSet<Amt>>; 4] = [Ref::Gone, Ref::Gone, Ref::Gone, Ref::Gone];
    for (k, c) in xs.cs.iter_mut().enumerate() {
        cs_refs[k] = if plan.cs_excl[k] > 0 {
            Ref::Excl(c)
        } else if plan.cs_shared[k] > 0 {
            Ref::Shared(c)
        } else {
            Ref::Gone
        };
    }
    let mut cx = Cx { refs, ents: &ents, bitsets: &bitsets, next_bits: 0, cs: cs_refs };

    match fl {
        Flavour::J => {
            let ms: Vec<DynJoin<'_>> = mems.iter().map(|m| build_j(m, &mut cx)).collect();
            run_join(ms, arg)
        }
        Flavour::L => {
            let ms: Vec<DynLendN<'_>> = mems.iter().map(|m| build_l(m, &mut cx)).collect();
            run_lend(ms, arg)
        }
        Flavour::P => {
            let ms: Vec<DynPar<'_>> = mems.iter().map(|m| build_p(m, &mut cx)).collect();
            run_par(ms, arg as usize)
        }
        Flavour::LR => {
            let all_optional = mems.iter().all(|m| matches!(m, Mem::Maybe(_)));
            // decoy lookups on the same iterator before the real one (only when fetching an item is free of effects):
            // the highest indices known, and two beyond the target
            let target = lookup_entity.map(|e| e.id()).unwrap_or(arg as Index);
            let decoys: Vec<Index> = if mems.iter().all(fetch_is_pure) && (target as u64 + arg as u64) % 3 != 0 {
                let mut ids: Vec<Index> = xs.hs.iter().map(|e| e.id()).filter(|&i| i > target).collect();
                ids.sort();
                ids.dedup();
                let mut d: Vec<Index> = ids.iter().rev().take(2).cloned().collect();
                d.push(target.saturating_add(1));
                d.push(target.saturating_add(4097).min((1 << 24) - 1));
                d
            } else {
                Vec::new()
            };
            let ms: Vec<DynLendR<'_>> = mems.iter().map(|m| build_lr(m, &mut cx)).collect();
            match lookup_entity {
                Some(e) => run_get(ms, e, &ents, all_optional, &decoys),
                None => run_get_unchecked(ms, arg as Index, all_optional, &decoys),
            }
        }
    }
}

// ---------------------------------------------------------------------------------------------
// ops 81..86

pub fn op_changeset(xs: &mut St, code: i64, p: &[i64]) -> Out {
    let cs = match p.first() {
        Some(&c) if (0..4).contains(&c) => c as usize,
        _ => return vec![8],
    };
    let handle = |xs: &St, h: i64| -> Option<Entity> {
        if h < 0 {
            None
        } else {
            xs.hs.get(h as usize).copied()
        }
    };
    // (entity, amount) pairs of ops 83 / 84
    let pairs = |xs: &St| -> Option<Vec<(Entity, Amt)>> {
        if p.len() < 2 || p[1] < 0 || p.len() != 2 + 2 * p[1] as usize {
            return None;
        }
        p[2..].chunks(2).map(|c| handle(xs, c[0]).map(|e| (e, Amt::new(c[1])))).collect()
    };
    match (code, p.len()) {
        (81, 1) => {
            xs.cs[cs] = ChangeSet::new();
            vec![7]
        }
        (82, 3) => match handle(xs, p[1]) {
            Some(e) => {
                xs.cs[cs].add(e, Amt::new(p[2]));
                vec![7]
            }
            None => vec![8],
        },
        (83, _) => match pairs(xs) {
            Some(l) => {
                xs.cs[cs] = l.into_iter().collect::<ChangeSet<Amt>>();
                vec![7]
            }
            None => vec![8],
        },
        (84, _) => match pairs(xs) {
            Some(l) => {
                xs.cs[cs].extend(l);
                vec![7]
            }
            None => vec![8],
        },
        (85, 1) => {
            xs.cs[cs].clear();
            vec![7]
        }
        (86, 1) => {
            // `(&slot).join()`, not wrapped into a tuple
            let d = cs_ref_j(&xs.cs[cs]);
            let mut o = vec![21, 0];
            let mut n = 0;
            for it in d.join() {
                n += 1;
                o.push(it.idx as i64);
                o.extend(it.enc);
            }
            o[1] = n;
            o
        }
        _ => vec![8],
    }
}
