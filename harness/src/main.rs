//! Correspondence harness: executes histories on the real `specs` built from
//! /repo's working tree and prints canonical transcripts.
//!
//! usage: specs-harness world <histories-file>      (one history per line, integers)
//!        specs-harness dispatch <graphs-file>     (property C11, see dispatch.rs)
//!        specs-harness conc <cases-file>           (lock-step interleavings, see conc.rs)
//!        specs-harness conc-stress <file>          (real threads, predicate only)
//!        specs-harness saveload <histories-file>        (specs::saveload, SimpleMarker)
//!        specs-harness saveload-uuid <histories-file>   (specs::saveload, UuidMarker)
//!        specs-harness unwind <histories-file>          (property C19: panicking destructors, see unwind.rs)
//! output: one line per history, the outputs of the ops separated by " | ".
mod comps;
#[cfg(has_verif_sched)]
mod conc;
mod dispatch;
mod saveload;
mod joins;
mod unwind;
mod hibit;
mod world_exec;

use std::io::{BufRead, Write};

/// C20, run E ("other surroundings"): SV_AMBIENT=1 installs a logger that listens at every level (and throws the
/// records away) and makes every lazy closure take 9 ms; the transcripts must not change
pub fn slow_closures() -> bool {
    static ON: std::sync::OnceLock<bool> = std::sync::OnceLock::new();
    *ON.get_or_init(|| std::env::var_os("SV_AMBIENT").is_some())
}

struct NullLogger;
impl log::Log for NullLogger {
    fn enabled(&self, _: &log::Metadata) -> bool {
        true
    }
    fn log(&self, _: &log::Record) {}
    fn flush(&self) {}
}
static NULL_LOGGER: NullLogger = NullLogger;

fn main() {
    if slow_closures() {
        let _ = log::set_logger(&NULL_LOGGER);
        log::set_max_level(log::LevelFilter::Trace);
    }
    let args: Vec<String> = std::env::args().collect();
    if args.len() < 3 {
        eprintln!("usage: specs-harness <domain> <file>");
        std::process::exit(2);
    }
    // panics are expected (caught) in some histories: keep stderr quiet
    if std::env::var_os("SV_PANIC_MESSAGES").is_none() {
        std::panic::set_hook(Box::new(|_| {}));
    }
    // a case that never returns (a lock taken twice, a loop that spins) must not stall the check for hours: when no
    // case has finished for SV_WATCHDOG_SECS seconds (default 300) the process ends with status 98; the checker then
    // re-runs the cases one at a time and the one that hangs is reported as not having produced its output
    static DONE: std::sync::atomic::AtomicU64 = std::sync::atomic::AtomicU64::new(0);
    let limit: u64 = std::env::var("SV_WATCHDOG_SECS").ok().and_then(|s| s.parse().ok()).unwrap_or(300);
    std::thread::spawn(move || {
        let (mut last, mut idle) = (0u64, 0u64);
        loop {
            std::thread::sleep(std::time::Duration::from_secs(1));
            let now = DONE.load(std::sync::atomic::Ordering::Relaxed);
            if now != last {
                last = now;
                idle = 0;
            } else {
                idle += 1;
                if idle >= limit {
                    eprintln!("harness watchdog: no case finished for {} s", limit);
                    std::process::exit(98);
                }
            }
        }
    });
    let file = std::fs::File::open(&args[2]).expect("open histories");
    let out = std::io::stdout();
    let mut out = std::io::BufWriter::new(out.lock());
    for line in std::io::BufReader::new(file).lines() {
        let line = line.unwrap();
        let ints: Vec<i64> = line
            .split_whitespace()
            .map(|t| t.parse::<i64>().expect("integer"))
            .collect();
        let tr = match args[1].as_str() {
            "world" => world_exec::run_history(&ints),
            "dispatch" => dispatch::run_history(&ints),
            #[cfg(has_verif_sched)]
            "conc" => conc::run_case(&ints),
            #[cfg(has_verif_sched)]
            "conc-stress" => conc::run_stress(&ints),
            #[cfg(not(has_verif_sched))]
            "conc" | "conc-stress" => {
                eprintln!("the specs sources lack the C10 yield hook (apply hooks/c10_yield.patch)");
                std::process::exit(3);
            }
            "saveload" => saveload::run_history::<saveload::Simple>(&ints),
            "saveload-uuid" => saveload::run_history::<saveload::Uuid>(&ints),
            "unwind" => unwind::run_history(&ints),
            "hibit" => hibit::run_case(&ints),
            // the same history driven from a destructor while a panic raised by the caller unwinds (C20: nothing
            // observable depends on ambient thread state); only for histories known not to panic
            "world-unwinding" => {
                struct CallerPanic;
                struct Guard<'a>(&'a [i64], &'a mut Vec<Vec<i64>>);
                impl<'a> Drop for Guard<'a> {
                    fn drop(&mut self) {
                        *self.1 = world_exec::run_history(self.0);
                    }
                }
                let mut tr = Vec::new();
                let _ = std::panic::catch_unwind(std::panic::AssertUnwindSafe(|| {
                    let _g = Guard(&ints, &mut tr);
                    std::panic::panic_any(CallerPanic);
                }));
                tr
            }
            d => panic!("unknown domain {}", d),
        };
        let parts: Vec<String> = tr
            .iter()
            .map(|o| o.iter().map(|x| x.to_string()).collect::<Vec<_>>().join(" "))
            .collect();
        writeln!(out, "{}", parts.join(" | ")).unwrap();
        DONE.fetch_add(1, std::sync::atomic::Ordering::Relaxed);
        if args[1] == "unwind" {
            // a history may abort the process (a second panic while unwinding): keep what was printed
            out.flush().unwrap();
        }
    }
}
