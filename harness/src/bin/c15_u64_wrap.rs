//! C15, outside the machine bound "marker ids < 2^64-1": data mentioning the
//! marker id u64::MAX makes `SimpleMarkerAllocator::allocate` compute
//! `self.index = id + 1`.  A build with overflow checks (debug) panics; a
//! build without them (release) wraps the counter to 0, and the next `mark`
//! hands out an id that a live entity already carries.
//!
//! prints one line:  `panic`  or  `returned first=<id of e0> next=<id of the new entity> index=<counter>`
use specs::prelude::*;
use specs::saveload::*;
use std::convert::Infallible;

#[derive(Clone, Debug, serde::Serialize, serde::Deserialize)]
struct A(i32);
impl Component for A {
    type Storage = VecStorage<Self>;
}
struct Tag;
type M = SimpleMarker<Tag>;

fn main() {
    std::panic::set_hook(Box::new(|_| {}));
    let mut world = World::new();
    world.register::<A>();
    world.register::<M>();
    world.insert(SimpleMarkerAllocator::<Tag>::new());
    let e0 = world.create_entity().with(A(1)).marked::<M>().build();
    let text = format!("[{{\"marker\":[{}],\"components\":[7]}}]", u64::MAX);
    let r = std::panic::catch_unwind(std::panic::AssertUnwindSafe(|| {
        world.exec(
            |(ents, a, mut markers, mut alloc): (
                Entities,
                WriteStorage<A>,
                WriteStorage<M>,
                Write<SimpleMarkerAllocator<Tag>>,
            )| {
                let mut de = serde_json::Deserializer::from_str(&text);
                DeserializeComponents::<Infallible, M>::deserialize(&mut (a,), &ents, &mut markers, &mut alloc, &mut de)
                    .unwrap();
            },
        );
    }));
    if r.is_err() {
        println!("panic");
        std::mem::forget(world);
        return;
    }
    let e2 = world.create_entity().with(A(3)).marked::<M>().build();
    let markers = world.read_storage::<M>();
    let dbg = format!("{:?}", *world.read_resource::<SimpleMarkerAllocator<Tag>>());
    let index = dbg
        .split("index: ")
        .nth(1)
        .and_then(|s| s.split(',').next())
        .unwrap_or("?")
        .to_string();
    println!(
        "returned first={} next={} index={}",
        markers.get(e0).unwrap().id(),
        markers.get(e2).unwrap().id(),
        index
    );
}
