//! The `unwind` domain (property C19): destroying operations executed while a component
//! destructor is armed to panic (comps::FAULT), each under `catch_unwind`, followed by
//! observations of what the world still hands out and by the destruction ledger.
//!
//! history: `code n x1..xn ...` (integers).  Every operation yields two transcript entries:
//! its output and `[10, panicked, n, uid1..uidn]` = what it destroyed, in order
//! (panicked: 0 no, 1 the armed destructor fault, 2 any other panic).
//!
//!  50 1 sid            register storage `sid` (0..15, see comps.rs)                    -> [7]
//!   1 3m (sid uid val)* create_entity().with(..)*.build()                              -> [1 id gen]
//!   2 1 k              arm: the k-th destructor call of the NEXT operation panics (0 = none) -> [7]
//!  39 1 sid            WriteStorage::clear                                             -> [7]
//!  33 2 sid h          WriteStorage::remove(h); the value handed back is destroyed by the caller
//!                                                                                      -> [12 0] | [12 1 uid val]
//!  30 4 sid h uid val  WriteStorage::insert(h, tok); a replaced value is destroyed by the caller
//!                                                         -> [11 0] | [11 1 uid val] | [11 2 gen]
//!  10 1 h              World::delete_entity                                            -> [2 0] | [2 1 0 gen]
//!  11 n h*             World::delete_entities                                          -> [2 0] | [2 1 pos gen]
//!  13 0                World::delete_all                                               -> [7]
//!  12 1 h              Entities::delete (deferred)                                     -> [3 0] | [3 1 gen]
//!  14 0                World::maintain                                                 -> [7]
//!  60 1 sid            World::remove::<MaskedStorage<T>>() and drop it (Drop for MaskedStorage) -> [7]
//!  99 0                drop(world); ends the history                                   -> [7]
//!  37 1 sid            mask                                                            -> [14 n id*]
//!  31 2 sid h          ReadStorage::get(h)                                             -> [12 0] | [12 1 uid val]
//!  32 1 sid            ReadStorage::get of every handle so far                         -> [22 nh (0 | 1 uid val)*]
//!  80 1 sid            (mask, &storage).join()                                         -> [21 n (id uid val)*]
//!  38 1 sid            slice view (plain Vec / Dense / Default storages)               -> [17 ..] as in the world domain
//!  35 1 sid            count                                                           -> [13 n]
//!  24 0                Entities::is_alive of every handle                              -> [5 n b*]
//! an operation that cannot be performed (unknown handle, unregistered storage): [8], nothing done.
//! an operation interrupted by a panic before its result was known: [29].
//! after the last operation: drop(world) with no fault armed -> [90 n uid*] (sorted: the order in
//! which a World destroys its resources is unspecified).
//!
//! A history that starts with `81 0` is a CHANGESET history (specs::ChangeSet<Amt>, Amt = a value with
//! a logged destructor whose `+=` adds the payloads and destroys its argument):
//!  81 0               (first) a new ChangeSet                                           -> [7]
//!   1 0               create_entity().build()                                           -> [1 id gen]
//!   2 1 k             arm, as above
//!  82 3 h uid val     ChangeSet::add(entity h, Amt(uid, val))                            -> [7]
//!  85 0               ChangeSet::clear                                                  -> [7]
//!  86 0               (&entities, &changeset).join()                                    -> [21 n (id uid val)*]
//!  87 0               drop(changeset); a new one takes its place                        -> [7]
//! after the last operation the changeset is dropped, no fault armed -> [90 ..].
use crate::by_sid;
use crate::comps::*;
use specs::hibitset::BitSetLike;
use specs::prelude::*;
use specs::storage::MaskedStorage;
use std::panic::{catch_unwind, AssertUnwindSafe};

pub type Out = Vec<i64>;

struct Ux {
    world: World,
    hs: Vec<Entity>,
    /// one event reader per tracked storage, registered right after the storage (operation 91 reads it)
    readers: std::collections::HashMap<i64, specs::shrev::ReaderId<specs::storage::ComponentEvent>>,
}

fn reg_reader<T: Tokish>(x: &mut Ux, sid: i64)
where
    T::Storage: specs::storage::Tracked,
{
    let r = x.world.write_storage::<T>().register_reader();
    x.readers.insert(sid, r);
}

/// `[91, nmask, idx.., nev, (kind idx)..]`: the mask now and the events since the registration / the last read
fn dump_events<T: Tokish>(x: &mut Ux, sid: i64) -> Out
where
    T::Storage: specs::storage::Tracked,
{
    use specs::storage::ComponentEvent;
    let st = x.world.read_storage::<T>();
    let ids: Vec<u32> = st.mask().iter().collect();
    let mut o = vec![91, ids.len() as i64];
    o.extend(ids.iter().map(|&i| i as i64));
    match x.readers.get_mut(&sid) {
        Some(r) => {
            let evs: Vec<ComponentEvent> = st.channel().read(r).copied().collect();
            o.push(evs.len() as i64);
            for ev in evs {
                match ev {
                    ComponentEvent::Inserted(i) => o.extend([0, i as i64]),
                    ComponentEvent::Modified(i) => o.extend([1, i as i64]),
                    ComponentEvent::Removed(i) => o.extend([2, i as i64]),
                }
            }
        }
        None => o.push(-1),
    }
    o
}

macro_rules! by_tracked_usid {
    ($sid:expr, $f:ident, $($a:expr),*) => {
        match $sid {
            6 => $f::<FV>($($a),*), 7 => $f::<FD>($($a),*), 8 => $f::<FT>($($a),*),
            9 => $f::<FH>($($a),*), 10 => $f::<FB>($($a),*),
            11 => $f::<GV>($($a),*), 12 => $f::<GD>($($a),*), 13 => $f::<GT>($($a),*),
            14 => $f::<GH>($($a),*), 15 => $f::<GB>($($a),*),
            _ => unreachable!(),
        }
    };
}

fn registered<T: Tokish>(world: &World) -> bool {
    world.has_value::<MaskedStorage<T>>()
}
fn is_reg(world: &World, sid: i64) -> bool {
    if !(0..=15).contains(&sid) {
        return false;
    }
    by_sid!(sid, registered, world)
}

fn reg<T: Tokish>(world: &mut World)
where
    T::Storage: Default,
{
    world.register::<T>();
}

fn opt_tok(tag: i64, o: Option<(u64, i64)>) -> Out {
    match o {
        Some((u, v)) => vec![tag, 1, u as i64, v],
        None => vec![tag, 0],
    }
}

fn clear_op<T: Tokish>(world: &mut World, out: &mut Out) {
    world.write_storage::<T>().clear();
    *out = vec![7];
}

fn remove_op<T: Tokish>(world: &mut World, e: Entity, out: &mut Out) {
    let old = world.write_storage::<T>().remove(e);
    // the storage has handed the value over; the caller destroys it
    *out = opt_tok(12, old.as_ref().map(|t| (t.uid(), t.val())));
    drop(old);
}

fn insert_op<T: Tokish>(world: &mut World, e: Entity, u: u64, v: i64, out: &mut Out) {
    let r = world.write_storage::<T>().insert(e, T::mk(u, v));
    match r {
        Ok(None) => *out = vec![11, 0],
        Ok(Some(old)) => {
            *out = vec![11, 1, old.uid() as i64, old.val()];
            drop(old);
        }
        Err(specs::error::Error::WrongGeneration(w)) => *out = vec![11, 2, w.actual_gen.id() as i64],
        Err(_) => *out = vec![11, 3],
    }
}

/// deferred removal / insertion (performed by the next maintain); used only by the implementation-only scenarios
/// "deferred work queued after a caught destructor panic is still performed"
fn lazy_remove_op<T: Tokish>(world: &mut World, e: Entity) {
    world.read_resource::<LazyUpdate>().remove::<T>(e);
}

fn lazy_insert_op<T: Tokish>(world: &mut World, e: Entity, u: u64, v: i64) {
    world.read_resource::<LazyUpdate>().insert(e, T::mk(u, v));
}

fn drop_storage_op<T: Tokish>(world: &mut World, out: &mut Out) {
    let st = world.remove::<MaskedStorage<T>>();
    *out = vec![7];
    drop(st);
}

fn mask_op<T: Tokish>(world: &World) -> Out {
    let st = world.read_storage::<T>();
    let ids: Vec<u32> = st.mask().iter().collect();
    let mut o = vec![14, ids.len() as i64];
    o.extend(ids.iter().map(|&i| i as i64));
    o
}

fn get_op<T: Tokish>(world: &World, e: Entity) -> Out {
    let st = world.read_storage::<T>();
    opt_tok(12, st.get(e).map(|t| (t.uid(), t.val())))
}

fn get_all_op<T: Tokish>(world: &World, hs: &[Entity]) -> Out {
    let st = world.read_storage::<T>();
    let mut o = vec![22, hs.len() as i64];
    for e in hs {
        match st.get(*e) {
            Some(t) => o.extend([1, t.uid() as i64, t.val()]),
            None => o.push(0),
        }
    }
    o
}

fn join_op<T: Tokish>(world: &World) -> Out {
    let st = world.read_storage::<T>();
    let mask = st.mask().clone();
    let l: Vec<(u32, u64, i64)> = (&mask, &st).join().map(|(i, t)| (i, t.uid(), t.val())).collect();
    let mut o = vec![21, l.len() as i64];
    for (i, u, v) in l {
        o.extend([i as i64, u as i64, v]);
    }
    o
}

fn count_op<T: Tokish>(world: &World) -> Out {
    vec![13, world.read_storage::<T>().count() as i64]
}

fn slice_op(world: &World, sid: i64) -> Out {
    match sid {
        0 => {
            let st = world.read_storage::<CV>();
            let s = st.as_slice();
            let ids: Vec<u32> = st.mask().iter().collect();
            let mut o = vec![17, 1, s.len() as i64, ids.len() as i64];
            for i in ids {
                // SAFETY: the mask says the slot is initialised
                let t = unsafe { s[i as usize].assume_init_ref() };
                o.push(t.uid as i64);
                o.push(t.val);
            }
            o
        }
        1 => {
            let st = world.read_storage::<CD>();
            let s = st.as_slice();
            let mut o = vec![17, 2, s.len() as i64];
            for t in s {
                o.push(t.uid as i64);
                o.push(t.val);
            }
            o
        }
        2 => {
            let st = world.read_storage::<CT>();
            let s = st.as_slice();
            let mut o = vec![17, 2, s.len() as i64];
            for t in s {
                o.push(t.uid as i64);
                o.push(t.val);
            }
            o
        }
        _ => vec![17, 0],
    }
}

fn hget(x: &Ux, k: i64) -> Option<Entity> {
    if k < 0 {
        return None;
    }
    x.hs.get(k as usize).copied()
}

/// operations that may run an armed destructor fault
fn is_destroying(code: i64) -> bool {
    matches!(code, 39 | 33 | 30 | 10 | 11 | 13 | 14 | 60 | 99)
}

/// one operation; `out` keeps what was known when a panic interrupted it
fn exec(x: &mut Ux, code: i64, p: &[i64], out: &mut Out) {
    *out = vec![29];
    let skip = vec![8];
    match (code, p.len()) {
        (50, 1) => {
            if (0..=15).contains(&p[0]) {
                by_sid!(p[0], reg, &mut x.world);
                if (6..=15).contains(&p[0]) && !x.readers.contains_key(&p[0]) {
                    by_tracked_usid!(p[0], reg_reader, x, p[0]);
                }
                *out = vec![7];
            } else {
                *out = skip;
            }
        }
        (91, 1) => {
            if (6..=15).contains(&p[0]) && is_reg(&x.world, p[0]) {
                *out = by_tracked_usid!(p[0], dump_events, x, p[0]);
            } else {
                *out = skip;
            }
        }
        (1, n) if n % 3 == 0 => {
            let cs: Vec<(i64, u64, i64)> = p.chunks(3).map(|c| (c[0], c[1] as u64, c[2])).collect();
            if cs.iter().any(|c| !is_reg(&x.world, c.0)) {
                *out = skip;
                return;
            }
            let e = {
                let mut b = x.world.create_entity();
                for &(sid, u, v) in &cs {
                    fn w<'a, T: Tokish>(b: EntityBuilder<'a>, u: u64, v: i64) -> EntityBuilder<'a> {
                        b.with(T::mk(u, v))
                    }
                    b = by_sid!(sid, w, b, u, v);
                }
                b.build()
            };
            x.hs.push(e);
            *out = vec![1, e.id() as i64, e.gen().id() as i64];
        }
        (39, 1) | (60, 1) | (37, 1) | (32, 1) | (80, 1) | (38, 1) | (35, 1) => {
            let sid = p[0];
            if !is_reg(&x.world, sid) {
                *out = skip;
                return;
            }
            match code {
                39 => by_sid!(sid, clear_op, &mut x.world, out),
                60 => {
                    x.readers.remove(&sid);
                    by_sid!(sid, drop_storage_op, &mut x.world, out)
                }
                37 => *out = by_sid!(sid, mask_op, &x.world),
                32 => *out = by_sid!(sid, get_all_op, &x.world, &x.hs),
                80 => *out = by_sid!(sid, join_op, &x.world),
                38 => *out = slice_op(&x.world, sid),
                _ => *out = by_sid!(sid, count_op, &x.world),
            }
        }
        (33, 2) | (31, 2) | (30, 4) => {
            let sid = p[0];
            let e = match hget(x, p[1]) {
                Some(e) if is_reg(&x.world, sid) => e,
                _ => {
                    *out = skip;
                    return;
                }
            };
            match code {
                33 => by_sid!(sid, remove_op, &mut x.world, e, out),
                31 => *out = by_sid!(sid, get_op, &x.world, e),
                _ => by_sid!(sid, insert_op, &mut x.world, e, p[2] as u64, p[3], out),
            }
        }
        (92, 2) | (93, 4) => {
            let sid = p[0];
            let e = match hget(x, p[1]) {
                Some(e) if is_reg(&x.world, sid) => e,
                _ => {
                    *out = skip;
                    return;
                }
            };
            if code == 92 {
                by_sid!(sid, lazy_remove_op, &mut x.world, e);
            } else {
                by_sid!(sid, lazy_insert_op, &mut x.world, e, p[2] as u64, p[3]);
            }
            *out = vec![7];
        }
        (10, 1) => match hget(x, p[0]) {
            Some(e) => {
                let r = x.world.delete_entity(e);
                *out = match r {
                    Ok(()) => vec![2, 0],
                    Err(w) => vec![2, 1, 0, w.actual_gen.id() as i64],
                };
            }
            None => *out = skip,
        },
        (11, _) => {
            let es: Option<Vec<Entity>> = p.iter().map(|&h| hget(x, h)).collect();
            match es {
                Some(es) => {
                    let r = x.world.delete_entities(&es);
                    *out = match r {
                        Ok(()) => vec![2, 0],
                        Err((w, pos)) => vec![2, 1, pos as i64, w.actual_gen.id() as i64],
                    };
                }
                None => *out = skip,
            }
        }
        (13, 0) => {
            x.world.delete_all();
            *out = vec![7];
        }
        (12, 1) => match hget(x, p[0]) {
            Some(e) => {
                *out = match x.world.entities().delete(e) {
                    Ok(()) => vec![3, 0],
                    Err(w) => vec![3, 1, w.actual_gen.id() as i64],
                };
            }
            None => *out = skip,
        },
        (14, 0) => {
            x.world.maintain();
            *out = vec![7];
        }
        (24, 0) => {
            let ents = x.world.entities();
            let mut o = vec![5, x.hs.len() as i64];
            for e in &x.hs {
                o.push(ents.is_alive(*e) as i64);
            }
            drop(ents);
            *out = o;
        }
        (99, 0) => {
            x.readers.clear();
            let old = std::mem::replace(&mut x.world, World::new());
            *out = vec![7];
            drop(old);
        }
        _ => *out = skip,
    }
}

fn effects(panicked: i64, sorted: bool) -> Out {
    let (_, mut d) = take_effects();
    if sorted {
        d.sort();
    }
    let mut o = vec![10, panicked, d.len() as i64];
    o.extend(d.iter().map(|&u| u as i64));
    o
}

/// the value type of the changeset: `+=` adds the payloads, the argument is destroyed
pub struct Amt {
    uid: u64,
    val: i64,
}
impl Drop for Amt {
    fn drop(&mut self) {
        log_drop(self.uid);
    }
}
impl std::ops::AddAssign for Amt {
    fn add_assign(&mut self, rhs: Amt) {
        self.val += rhs.val;
    }
}

struct Cx {
    world: World,
    hs: Vec<Entity>,
    cs: specs::changeset::ChangeSet<Amt>,
}

fn is_cs_destroying(code: i64) -> bool {
    matches!(code, 82 | 85 | 87)
}

fn cs_exec(x: &mut Cx, code: i64, p: &[i64], out: &mut Out) {
    *out = vec![29];
    match (code, p.len()) {
        (1, 0) => {
            let e = x.world.create_entity().build();
            x.hs.push(e);
            *out = vec![1, e.id() as i64, e.gen().id() as i64];
        }
        (82, 3) => {
            if p[0] < 0 || p[0] as usize >= x.hs.len() {
                *out = vec![8];
                return;
            }
            let e = x.hs[p[0] as usize];
            x.cs.add(e, Amt { uid: p[1] as u64, val: p[2] });
            *out = vec![7];
        }
        (85, 0) => {
            x.cs.clear();
            *out = vec![7];
        }
        (86, 0) => {
            let ents = x.world.entities();
            let l: Vec<(u32, u64, i64)> = (&ents, &x.cs).join().map(|(e, a)| (e.id(), a.uid, a.val)).collect();
            let mut o = vec![21, l.len() as i64];
            for (i, u, v) in l {
                o.extend([i as i64, u as i64, v]);
            }
            drop(ents);
            *out = o;
        }
        (87, 0) => {
            let old = std::mem::replace(&mut x.cs, specs::changeset::ChangeSet::new());
            *out = vec![7];
            drop(old);
        }
        _ => *out = vec![8],
    }
}

fn run_cs_history(ints: &[i64]) -> Vec<Out> {
    let mut x = Cx { world: World::new(), hs: Vec::new(), cs: specs::changeset::ChangeSet::new() };
    let mut tr = vec![vec![7], vec![10, 0, 0]];
    let mut i = 2;
    let mut armed: u64 = 0;
    while i < ints.len() {
        if i + 1 >= ints.len() {
            tr.push(vec![8]);
            break;
        }
        let code = ints[i];
        let n = ints[i + 1].max(0) as usize;
        if i + 2 + n > ints.len() {
            tr.push(vec![8]);
            break;
        }
        let p = &ints[i + 2..i + 2 + n];
        i += 2 + n;
        if code == 2 && n == 1 {
            armed = p[0].max(0) as u64;
            tr.push(vec![7]);
            tr.push(vec![10, 0, 0]);
            continue;
        }
        FAULT.with(|f| f.set(if is_cs_destroying(code) { armed } else { 0 }));
        armed = 0;
        let mut out: Out = vec![29];
        let r = catch_unwind(AssertUnwindSafe(|| cs_exec(&mut x, code, p, &mut out)));
        FAULT.with(|f| f.set(0));
        let panicked = match r {
            Ok(()) => 0,
            Err(pl) => {
                if pl.downcast_ref::<&str>().map_or(false, |s| *s == "armed destructor fault") {
                    1
                } else {
                    2
                }
            }
        };
        tr.push(out);
        tr.push(effects(panicked, false));
    }
    let Cx { world, hs: _, cs } = x;
    let r = catch_unwind(AssertUnwindSafe(move || drop(cs)));
    let mut fin = effects(if r.is_ok() { 0 } else { 2 }, true);
    fin[0] = 90;
    tr.push(fin);
    drop(world);
    let _ = take_effects();
    tr
}

pub fn run_history(ints: &[i64]) -> Vec<Out> {
    let _ = take_effects();
    FAULT.with(|f| f.set(0));
    if ints.len() >= 2 && ints[0] == 81 && ints[1] == 0 {
        return run_cs_history(ints);
    }
    let mut x = Ux { world: World::new(), hs: Vec::new(), readers: Default::default() };
    let mut tr = Vec::new();
    let mut i = 0;
    let mut armed: u64 = 0;
    while i < ints.len() {
        if i + 1 >= ints.len() {
            tr.push(vec![8]);
            break;
        }
        let code = ints[i];
        let n = ints[i + 1].max(0) as usize;
        if i + 2 + n > ints.len() {
            tr.push(vec![8]);
            break;
        }
        let p = &ints[i + 2..i + 2 + n];
        i += 2 + n;
        if code == 2 && n == 1 {
            armed = p[0].max(0) as u64;
            tr.push(vec![7]);
            tr.push(vec![10, 0, 0]);
            continue;
        }
        // the plan applies to the next operation only, and only to a destroying one
        FAULT.with(|f| f.set(if is_destroying(code) { armed } else { 0 }));
        armed = 0;
        let mut out: Out = vec![29];
        let r = catch_unwind(AssertUnwindSafe(|| exec(&mut x, code, p, &mut out)));
        FAULT.with(|f| f.set(0));
        let panicked = match r {
            Ok(()) => 0,
            Err(pl) => {
                let armed_fault = pl.downcast_ref::<&str>().map_or(false, |s| *s == "armed destructor fault");
                if armed_fault {
                    1
                } else {
                    2
                }
            }
        };
        tr.push(out);
        tr.push(effects(panicked, false));
        if code == 99 && n == 0 {
            break;
        }
    }
    // final teardown, no fault armed
    // (for every other history, by a checksum of its numbers, the world is dropped while a panic raised by the caller
    // unwinds through the frame that owns it: exactly the same values must be destroyed)
    struct CallerPanic;
    let unwinding = ints.iter().fold(0i64, |a, &b| a.wrapping_add(b)) & 1 == 1;
    let r = catch_unwind(AssertUnwindSafe(move || {
        let owner = x;
        if unwinding {
            std::panic::panic_any(CallerPanic);
        }
        drop(owner)
    }));
    let ok = match &r {
        Ok(()) => true,
        Err(pl) => pl.is::<CallerPanic>(),
    };
    let mut fin = effects(if ok { 0 } else { 2 }, true);
    fin[0] = 90;
    tr.push(fin);
    tr
}
