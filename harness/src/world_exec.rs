//! The `world` domain: entity lifecycle through the public API.
use specs::prelude::*;
use specs::world::EntitiesRes;
use std::panic::{catch_unwind, AssertUnwindSafe};

pub type Out = Vec<i64>;

fn enc_ents(tag: i64, l: &[Entity]) -> Out {
    let mut o = vec![tag, l.len() as i64];
    for e in l {
        o.push(e.id() as i64);
        o.push(e.gen().id() as i64);
    }
    o
}

pub struct Exec {
    pub world: World,
    pub hs: Vec<Entity>,
}

impl Exec {
    pub fn new() -> Self {
        Exec { world: World::new(), hs: Vec::new() }
    }

    fn h(&self, k: i64) -> Option<Entity> {
        if k < 0 { return None; }
        self.hs.get(k as usize).copied()
    }

    pub fn step(&mut self, code: i64, p: &[i64]) -> Out {
        match (code, p.len()) {
            (1, _) => {
                let e = self.world.create_entity().build();
                self.hs.push(e);
                enc_ents(1, &[e])
            }
            (2, _) => {
                let e = {
                    let b = self.world.create_entity();
                    let e = b.entity;
                    drop(b);
                    e
                };
                self.hs.push(e);
                enc_ents(1, &[e])
            }
            (3, 1) => {
                let n = p[0].max(0) as usize;
                let l: Vec<Entity> = self.world.create_iter().take(n).collect();
                self.hs.extend(l.iter().copied());
                enc_ents(1, &l)
            }
            (4, 0) => {
                let e = self.world.entities().create();
                self.hs.push(e);
                enc_ents(1, &[e])
            }
            (5, 1) => {
                let n = p[0].max(0) as usize;
                let l: Vec<Entity> = self.world.entities().create_iter().take(n).collect();
                self.hs.extend(l.iter().copied());
                enc_ents(1, &l)
            }
            (6, n) if n >= 1 => {
                let built = p[0] != 0;
                let e = {
                    let ents = self.world.entities();
                    let b = ents.build_entity();
                    let e = b.entity;
                    if built { b.build() } else { drop(b); e }
                };
                self.hs.push(e);
                enc_ents(1, &[e])
            }
            (7, _) => {
                let e = {
                    let lazy = self.world.read_resource::<LazyUpdate>();
                    let ents = self.world.entities();
                    lazy.create_entity(&ents).build()
                };
                self.hs.push(e);
                enc_ents(1, &[e])
            }
            (10, 1) => match self.h(p[0]) {
                Some(e) => match self.world.delete_entity(e) {
                    Ok(()) => vec![2, 0],
                    Err(w) => vec![2, 1, 0, w.actual_gen.id() as i64],
                },
                None => vec![8],
            },
            (11, _) => {
                let es: Option<Vec<Entity>> = p.iter().map(|&k| self.h(k)).collect();
                match es {
                    Some(es) => match self.world.delete_entities(&es) {
                        Ok(()) => vec![2, 0],
                        Err((w, pos)) => vec![2, 1, pos as i64, w.actual_gen.id() as i64],
                    },
                    None => vec![8],
                }
            }
            (12, 1) => match self.h(p[0]) {
                Some(e) => match self.world.entities().delete(e) {
                    Ok(()) => vec![3, 0],
                    Err(w) => vec![3, 1, w.actual_gen.id() as i64],
                },
                None => vec![8],
            },
            (13, 0) => {
                let es: Vec<Entity> = (&self.world.entities()).join().collect();
                self.world.delete_all();
                enc_ents(6, &es)
            }
            (14, 0) => {
                self.world.maintain();
                vec![7]
            }
            (20, 1) => match self.h(p[0]) {
                Some(e) => vec![4, self.world.entities().is_alive(e) as i64],
                None => vec![8],
            },
            (21, 1) => match self.h(p[0]) {
                Some(e) => vec![4, self.world.is_alive(e) as i64],
                None => vec![8],
            },
            (22, 0) => {
                let es: Vec<Entity> = (&self.world.entities()).join().collect();
                enc_ents(6, &es)
            }
            (23, 1) => match self.h(p[0]) {
                Some(e) => {
                    let ents: specs::shred::Fetch<EntitiesRes> = self.world.fetch();
                    enc_ents(1, &[ents.entity(e.id())])
                }
                None => vec![8],
            },
            (24, 0) => {
                let ents = self.world.entities();
                let mut o = vec![5, self.hs.len() as i64];
                for e in &self.hs {
                    o.push(ents.is_alive(*e) as i64);
                }
                o
            }
            _ => vec![8],
        }
    }
}

pub fn run_history(ints: &[i64]) -> Vec<Out> {
    let mut ex = Exec::new();
    let mut tr = Vec::new();
    let mut i = 0;
    while i < ints.len() {
        if i + 1 >= ints.len() {
            tr.push(vec![8]);
            break;
        }
        let code = ints[i];
        let n = ints[i + 1].max(0) as usize;
        if i + 2 + n > ints.len() {
            tr.push(vec![8]);
            break;
        }
        let p = &ints[i + 2..i + 2 + n];
        i += 2 + n;
        let r = catch_unwind(AssertUnwindSafe(|| ex.step(code, p)));
        match r {
            Ok(o) => tr.push(o),
            Err(_) => {
                tr.push(vec![9]);
                // the world may be in an arbitrary state: stop here
                std::mem::forget(ex);
                return tr;
            }
        }
    }
    tr
}
