//! The `world` domain: entity lifecycle and component storages through the public API.
use crate::by_sid;
use crate::comps::*;
use specs::prelude::*;
use specs::hibitset::BitSetLike;
use specs::shrev::ReaderId;
use specs::storage::{AccessMut, ComponentEvent, GenericReadStorage, GenericWriteStorage, StorageEntry, Tracked};
use specs::world::{EntitiesRes, LazyBuilder};
use std::collections::HashMap;
use std::panic::{catch_unwind, AssertUnwindSafe};

pub type Out = Vec<i64>;

fn enc_ents(tag: i64, l: &[Entity]) -> Out {
    let mut o = vec![tag, l.len() as i64];
    for e in l {
        o.push(e.id() as i64);
        o.push(e.gen().id() as i64);
    }
    o
}

/// everything the executor needs besides the world itself
pub struct St {
    pub hs: Vec<Entity>,
    /// the change-set slots of ops 80..86
    pub cs: crate::joins::CsSlots,
    readers: HashMap<i64, Vec<ReaderId<ComponentEvent>>>,
    /// what happened inside lazy closures during the current maintain, in order
    log: Vec<LogItem>,
}

enum LogItem {
    /// effects accumulated since the previous boundary (they belong to the preceding entry)
    Eff(u64, Vec<u64>),
    /// a nested operation run by a lazy closure: (code, payload, output)
    Op(i64, Vec<i64>, Out),
}

pub struct Exec {
    pub world: World,
    pub st: St,
}

/// pointer to the executor state handed to lazy closures (they run synchronously inside
/// `World::maintain` on this thread, while nothing else touches the state)
struct StPtr(*mut St);
unsafe impl Send for StPtr {}
unsafe impl Sync for StPtr {}

// ---------------------------------------------------------------- generic storage ops

fn reg<T: Tokish>(world: &mut World)
where
    T::Storage: Default,
{
    world.register::<T>();
}
fn reg_with<T: Tokish>(world: &mut World)
where
    T::Storage: Default,
{
    world.register_with_storage::<_, T>(Default::default);
}
fn reg_setup_read<T: Tokish>(world: &mut World) {
    <ReadStorage<T> as SystemData>::setup(world);
}
fn reg_setup_write<T: Tokish>(world: &mut World) {
    <WriteStorage<T> as SystemData>::setup(world);
}

fn opt_tok(tag: i64, o: Option<(u64, i64)>) -> Out {
    match o {
        Some((u, v)) => vec![tag, 1, u as i64, v],
        None => vec![tag, 0],
    }
}

/// take ownership of a returned value: record it and forget it (it is not destroyed by the world)
pub(crate) fn ret<T: Tokish>(t: T) -> (u64, i64) {
    let r = (t.uid(), t.val());
    crate::comps::note_ret(r.0);
    std::mem::forget(t);
    r
}

/// a storage put into the world as a plain resource (not registered), then made known by setup
fn reg_raw_then_setup<T: Tokish>(world: &mut World, write: bool)
where
    T::Storage: Default,
{
    use specs::storage::MaskedStorage;
    if !world.has_value::<MaskedStorage<T>>() {
        world.insert(MaskedStorage::<T>::new(Default::default()));
    }
    if write {
        <WriteStorage<T> as SystemData>::setup(world);
    } else {
        <ReadStorage<T> as SystemData>::setup(world);
    }
}

fn st_op<T: Tokish>(world: &mut World, xs: &mut St, code: i64, p: &[i64]) -> Out {
    let e = if matches!(code, 30 | 31 | 32 | 33 | 34 | 41 | 42) {
        match xs.hs.get(p[1].max(0) as usize).copied() {
            Some(e) if p[1] >= 0 => Some(e),
            _ => return vec![8],
        }
    } else {
        None
    };
    match code {
        30 => {
            let mut st = world.write_storage::<T>();
            let v = T::mk(p[2] as u64, p[3]);
            let r = match p[1] % 3 {
                0 => st.insert(e.unwrap(), v),
                1 => GenericWriteStorage::insert(&mut st, e.unwrap(), v),
                _ => {
                    let mut r = &mut st;
                    GenericWriteStorage::insert(&mut r, e.unwrap(), v)
                }
            };
            match r {
                Ok(None) => vec![11, 0],
                Ok(Some(old)) => {
                    let (u, v) = ret(old);
                    vec![11, 1, u as i64, v]
                }
                Err(specs::error::Error::WrongGeneration(w)) => vec![11, 2, w.actual_gen.id() as i64],
                Err(_) => vec![11, 3],
            }
        }
        31 => {
            let st = world.read_storage::<T>();
            let by_ref = &st;
            let r = match p[1] % 3 {
                0 => st.get(e.unwrap()),
                1 => GenericReadStorage::get(&st, e.unwrap()),
                _ => GenericReadStorage::get(&by_ref, e.unwrap()),
            };
            opt_tok(12, r.map(|t| (t.uid(), t.val())))
        }
        32 => {
            let mut st = world.write_storage::<T>();
            let touch = p[2] != 0;
            let write = p[3] != 0;
            let r = match st.get_mut(e.unwrap()) {
                Some(mut a) => {
                    let old = (a.uid(), a.val());
                    if touch || write {
                        let r = a.access_mut();
                        if write {
                            r.set_val(p[4]);
                        }
                    }
                    Some(old)
                }
                None => None,
            };
            opt_tok(12, r)
        }
        33 => {
            let mut st = world.write_storage::<T>();
            let e = e.unwrap();
            match p[1] % 3 {
                0 => opt_tok(12, st.remove(e).map(ret)),
                k => {
                    // through the generic traits (by value / by reference), whose `remove` destroys the value itself:
                    // it is looked up first and its destruction is taken out of the effects again, so that the
                    // operation reads like `remove` handing the value back
                    let old = GenericReadStorage::get(&st, e).map(|t| (t.uid(), t.val()));
                    if k == 1 {
                        GenericWriteStorage::remove(&mut st, e);
                    } else {
                        let mut r = &mut st;
                        GenericWriteStorage::remove(&mut r, e);
                    }
                    if let Some((u, _)) = old {
                        if crate::comps::unlog_drop(u) {
                            crate::comps::note_ret(u);
                        }
                    }
                    opt_tok(12, old)
                }
            }
        }
        34 => {
            let st = world.read_storage::<T>();
            vec![4, st.contains(e.unwrap()) as i64]
        }
        35 => vec![13, world.read_storage::<T>().count() as i64],
        36 => vec![4, world.read_storage::<T>().is_empty() as i64],
        37 => {
            let st = world.read_storage::<T>();
            let ids: Vec<u32> = st.mask().iter().collect();
            let mut o = vec![14, ids.len() as i64];
            o.extend(ids.iter().map(|&i| i as i64));
            o
        }
        39 => {
            world.write_storage::<T>().clear();
            vec![7]
        }
        40 => {
            let mut st = world.write_storage::<T>();
            // optionally the iterator is dropped after p[1] items
            let l: Vec<(u64, i64)> = if p.len() >= 2 {
                st.drain().join().take(p[1].max(0) as usize).map(ret).collect()
            } else {
                st.drain().join().map(ret).collect()
            };
            let mut o = vec![15, l.len() as i64];
            for (u, v) in l {
                o.push(u as i64);
                o.push(v);
            }
            o
        }
        41 => {
            let mut st = world.write_storage::<T>();
            let sub = p[2];
            let (u, v) = (p[3] as u64, p[4]);
            // the value offered to the entry is constructed before the call, as user code would
            let offered = if sub == 1 || sub == 2 { Some(T::mk(u, v)) } else { None };
            match st.entry(e.unwrap()) {
                Err(w) => {
                    drop(offered);
                    vec![16, 2, w.actual_gen.id() as i64]
                }
                Ok(entry) => match sub {
                    0 => match entry {
                        StorageEntry::Occupied(o) => {
                            let t = o.get();
                            vec![16, 1, t.uid() as i64, t.val()]
                        }
                        StorageEntry::Vacant(_) => vec![16, 0],
                    },
                    1 => {
                        let a = entry.or_insert(offered.unwrap());
                        vec![16, 1, a.uid() as i64, a.val()]
                    }
                    2 => match entry.replace(offered.unwrap()) {
                        Some(old) => {
                            let (u, v) = ret(old);
                            vec![16, 1, u as i64, v]
                        }
                        None => vec![16, 0],
                    },
                    3 => match entry {
                        StorageEntry::Occupied(o) => {
                            let (u, v) = ret(o.remove());
                            vec![16, 1, u as i64, v]
                        }
                        StorageEntry::Vacant(_) => vec![16, 0],
                    },
                    _ => match entry {
                        StorageEntry::Occupied(mut o) => {
                            let mut a = o.get_mut();
                            let old = (a.uid(), a.val());
                            a.access_mut().set_val(v);
                            vec![16, 1, old.0 as i64, old.1]
                        }
                        StorageEntry::Vacant(_) => vec![16, 0],
                    },
                },
            }
        }
        42 => {
            let mut st = world.write_storage::<T>();
            let e = e.unwrap();
            // both textual copies of get_mut_or_default
            let r = if p[1] % 2 == 0 {
                GenericWriteStorage::get_mut_or_default(&mut st, e).map(|a| (a.uid(), a.val()))
            } else {
                let mut r = &mut st;
                GenericWriteStorage::get_mut_or_default(&mut r, e).map(|a| (a.uid(), a.val()))
            };
            opt_tok(12, r)
        }
        50 => {
            unreachable!()
        }
        _ => vec![8],
    }
}

fn slice_op(world: &mut World, sid: i64) -> Out {
    match sid {
        0 => {
            let st = world.read_storage::<CV>();
            let s = st.as_slice();
            let ids: Vec<u32> = st.mask().iter().collect();
            let mut o = vec![17, 1, s.len() as i64, ids.len() as i64];
            for i in ids {
                // SAFETY: the mask says the slot is initialised
                let t = unsafe { s[i as usize].assume_init_ref() };
                o.push(t.uid as i64);
                o.push(t.val);
            }
            o
        }
        1 => {
            let st = world.read_storage::<CD>();
            let s = st.as_slice();
            let mut o = vec![17, 2, s.len() as i64];
            for t in s {
                o.push(t.uid as i64);
                o.push(t.val);
            }
            o
        }
        2 => {
            let st = world.read_storage::<CT>();
            let s = st.as_slice();
            let mut o = vec![17, 2, s.len() as i64];
            for t in s {
                o.push(t.uid as i64);
                o.push(t.val);
            }
            o
        }
        _ => {
            // the wrappers have no slice access; the storage must still be registered
            fn touch<T: Tokish>(world: &mut World) {
                let _ = world.read_storage::<T>();
            }
            by_sid!(sid, touch, world);
            vec![17, 0]
        }
    }
}

fn tracked_op<T: Tokish>(world: &mut World, xs: &mut St, sid: i64, code: i64, p: &[i64]) -> Out
where
    T::Storage: Tracked,
{
    match code {
        70 => {
            let r = world.write_storage::<T>().register_reader();
            let v = xs.readers.entry(sid).or_default();
            v.push(r);
            vec![19, (v.len() - 1) as i64]
        }
        71 => {
            let st = world.read_storage::<T>();
            let k = p[1];
            match xs.readers.get_mut(&sid).and_then(|v| if k >= 0 { v.get_mut(k as usize) } else { None }) {
                Some(r) => {
                    let evs: Vec<ComponentEvent> = st.channel().read(r).copied().collect();
                    let mut o = vec![18, evs.len() as i64];
                    for ev in evs {
                        match ev {
                            ComponentEvent::Inserted(i) => o.extend([0, i as i64]),
                            ComponentEvent::Modified(i) => o.extend([1, i as i64]),
                            ComponentEvent::Removed(i) => o.extend([2, i as i64]),
                        }
                    }
                    o
                }
                None => vec![8],
            }
        }
        72 => {
            world.write_storage::<T>().set_event_emission(p[1] != 0);
            vec![7]
        }
        _ => vec![8],
    }
}

macro_rules! by_tracked_sid {
    ($sid:expr, $f:ident, $($a:expr),*) => {
        match $sid {
            6 => $f::<FV>($($a),*), 7 => $f::<FD>($($a),*), 8 => $f::<FT>($($a),*),
            9 => $f::<FH>($($a),*), 10 => $f::<FB>($($a),*),
            11 => $f::<GV>($($a),*), 12 => $f::<GD>($($a),*), 13 => $f::<GT>($($a),*),
            14 => $f::<GH>($($a),*), 15 => $f::<GB>($($a),*),
            16 => $f::<FZ>($($a),*), 17 => $f::<GZ>($($a),*),
            _ => panic!("not a tracked storage"),
        }
    };
}

impl Exec {
    pub fn new() -> Self {
        Exec { world: World::new(), st: St { hs: Vec::new(), cs: Default::default(), readers: HashMap::new(), log: Vec::new() } }
    }

    pub fn step(&mut self, code: i64, p: &[i64]) -> Out {
        exec(&mut self.world, &mut self.st, code, p)
    }
}

fn hget(xs: &St, k: i64) -> Option<Entity> {
    if k < 0 {
        return None;
    }
    xs.hs.get(k as usize).copied()
}

/// (sid, uid, val) triples attached by a builder
fn comps(p: &[i64]) -> Vec<(i64, u64, i64)> {
    p.chunks(3).filter(|c| c.len() == 3).map(|c| (c[0], c[1] as u64, c[2])).collect()
}

/// split an encoded op list into (code, payload) pairs
fn parse_ops(ints: &[i64]) -> Vec<(i64, Vec<i64>)> {
    let mut v = Vec::new();
    let mut i = 0;
    while i + 1 < ints.len() {
        let code = ints[i];
        let n = ints[i + 1].max(0) as usize;
        if i + 2 + n > ints.len() {
            break;
        }
        v.push((code, ints[i + 2..i + 2 + n].to_vec()));
        i += 2 + n;
    }
    v
}

/// the body of a lazy closure queued by op 63: run the nested operations on the world it is given
fn run_prog(world: &mut World, sp: &StPtr, prog: &[(i64, Vec<i64>)]) {
    // C20, run E: a closure that takes its time (nothing observable may depend on how long deferred work takes)
    if crate::slow_closures() {
        std::thread::sleep(std::time::Duration::from_millis(9));
    }
    // SAFETY: see StPtr
    let xs: &mut St = unsafe { &mut *sp.0 };
    for (code, p) in prog {
        let (m, d) = take_effects();
        xs.log.push(LogItem::Eff(m, d));
        let out = if *code == 14 || *code == 99 { vec![8] } else { exec(world, xs, *code, p) };
        xs.log.push(LogItem::Op(*code, p.clone(), out));
    }
}

pub fn exec(world: &mut World, xs: &mut St, code: i64, p: &[i64]) -> Out {
    {
        match code {
            1 => {
                // world.create_entity().with(..).build(): `with` fetches a WriteStorage and inserts
                let cs = comps(p);
                let e = {
                    let mut b = world.create_entity();
                    for &(sid, u, v) in &cs {
                        fn w<'a, T: Tokish>(b: EntityBuilder<'a>, u: u64, v: i64) -> EntityBuilder<'a> {
                            b.with(T::mk(u, v))
                        }
                        b = by_sid!(sid, w, b, u, v);
                    }
                    b.build()
                };
                xs.hs.push(e);
                return enc_ents(1, &[e]);
            }
            _ => {}
        }
    }
    {
        match (code, p.len()) {
            (2, _) => {
                let cs = comps(p);
                let e = {
                    let mut b = world.create_entity();
                    let e = b.entity;
                    for &(sid, u, v) in &cs {
                        fn w<'a, T: Tokish>(b: EntityBuilder<'a>, u: u64, v: i64) -> EntityBuilder<'a> {
                            b.with(T::mk(u, v))
                        }
                        b = by_sid!(sid, w, b, u, v);
                    }
                    drop(b);
                    e
                };
                xs.hs.push(e);
                enc_ents(1, &[e])
            }
            (3, 1) => {
                let n = p[0].max(0) as usize;
                let l: Vec<Entity> = world.create_iter().take(n).collect();
                xs.hs.extend(l.iter().copied());
                enc_ents(1, &l)
            }
            (4, 0) => {
                let e = world.entities().create();
                xs.hs.push(e);
                enc_ents(1, &[e])
            }
            (5, 1) => {
                let n = p[0].max(0) as usize;
                // every third entity is created directly while the iterator is alive (n atomic creations either way)
                let ents = world.entities();
                let mut it = ents.create_iter();
                let l: Vec<Entity> = (0..n).map(|k| if k % 3 == 1 { ents.create() } else { it.next().unwrap() }).collect();
                drop(it);
                drop(ents);
                xs.hs.extend(l.iter().copied());
                enc_ents(1, &l)
            }
            (6, n) if n >= 1 => {
                let built = p[0] != 0;
                let cs = comps(&p[1..]);
                let e = {
                    let ents = world.entities();
                    let b = ents.build_entity();
                    let e = b.entity;
                    // EntityResBuilder::with(c, &mut storage) is storage.insert(entity, c).unwrap()
                    for &(sid, u, v) in &cs {
                        fn w<T: Tokish>(world: &World, e: Entity, u: u64, v: i64) {
                            let mut st = world.write_storage::<T>();
                            st.insert(e, T::mk(u, v)).unwrap();
                        }
                        by_sid!(sid, w, &*world, e, u, v);
                    }
                    if built {
                        b.build()
                    } else {
                        drop(b);
                        e
                    }
                };
                xs.hs.push(e);
                enc_ents(1, &[e])
            }
            (7, _) => {
                // lazy.create_entity(&entities).with(..).build(): `with` queues a lazy insertion
                let cs = comps(p);
                let e = {
                    let lazy = world.read_resource::<LazyUpdate>();
                    let ents = world.entities();
                    let mut b = lazy.create_entity(&ents);
                    for &(sid, u, v) in &cs {
                        fn w<'a, T: Tokish>(b: LazyBuilder<'a>, u: u64, v: i64) -> LazyBuilder<'a> {
                            b.with(T::mk(u, v))
                        }
                        b = by_sid!(sid, w, b, u, v);
                    }
                    b.build()
                };
                xs.hs.push(e);
                enc_ents(1, &[e])
            }
            (10, 1) => match hget(xs, p[0]) {
                Some(e) => match world.delete_entity(e) {
                    Ok(()) => vec![2, 0],
                    Err(w) => vec![2, 1, 0, w.actual_gen.id() as i64],
                },
                None => vec![8],
            },
            (11, _) => {
                let es: Option<Vec<Entity>> = p.iter().map(|&k| hget(xs, k)).collect();
                match es {
                    Some(es) => match world.delete_entities(&es) {
                        Ok(()) => vec![2, 0],
                        Err((w, pos)) => vec![2, 1, pos as i64, w.actual_gen.id() as i64],
                    },
                    None => vec![8],
                }
            }
            (12, 1) => match hget(xs, p[0]) {
                Some(e) => match world.entities().delete(e) {
                    Ok(()) => vec![3, 0],
                    Err(w) => vec![3, 1, w.actual_gen.id() as i64],
                },
                None => vec![8],
            },
            (13, 0) => {
                let es: Vec<Entity> = (&world.entities()).join().collect();
                world.delete_all();
                enc_ents(6, &es)
            }
            (14, 0) => {
                xs.log.clear();
                world.maintain();
                vec![7]
            }
            (60, 4) => match hget(xs, p[1]) {
                // LazyUpdate::insert
                Some(e) => {
                    fn li<T: Tokish>(world: &World, e: Entity, u: u64, v: i64) {
                        world.read_resource::<LazyUpdate>().insert(e, T::mk(u, v));
                    }
                    by_sid!(p[0], li, &*world, e, p[2] as u64, p[3]);
                    vec![7]
                }
                None => vec![8],
            },
            (61, n) if n >= 1 => {
                // LazyUpdate::insert_all
                let trip: Vec<(i64, u64, i64)> = p[1..].chunks(3).filter(|c| c.len() == 3).map(|c| (c[0], c[1] as u64, c[2])).collect();
                let es: Option<Vec<(Entity, u64, i64)>> =
                    trip.iter().map(|&(h, u, v)| hget(xs, h).map(|e| (e, u, v))).collect();
                match es {
                    Some(es) => {
                        fn lia<T: Tokish>(world: &World, es: Vec<(Entity, u64, i64)>) {
                            let items: Vec<(Entity, T)> = es.into_iter().map(|(e, u, v)| (e, T::mk(u, v))).collect();
                            world.read_resource::<LazyUpdate>().insert_all(items);
                        }
                        by_sid!(p[0], lia, &*world, es);
                        vec![7]
                    }
                    None => vec![8],
                }
            }
            (62, 2) => match hget(xs, p[1]) {
                // LazyUpdate::remove
                Some(e) => {
                    fn lr<T: Tokish>(world: &World, e: Entity) {
                        world.read_resource::<LazyUpdate>().remove::<T>(e);
                    }
                    by_sid!(p[0], lr, &*world, e);
                    vec![7]
                }
                None => vec![8],
            },
            (63, _) => {
                // LazyUpdate::exec / exec_mut with a closure that runs the nested operations
                let prog = parse_ops(p);
                let sp = StPtr(xs as *mut St);
                let lazy = world.read_resource::<LazyUpdate>();
                if prog.len() % 2 == 0 {
                    lazy.exec(move |w| run_prog(w, &sp, &prog));
                } else {
                    lazy.exec_mut(move |w| run_prog(w, &sp, &prog));
                }
                vec![7]
            }
            (20, 1) => match hget(xs, p[0]) {
                Some(e) => vec![4, world.entities().is_alive(e) as i64],
                None => vec![8],
            },
            (21, 1) => match hget(xs, p[0]) {
                Some(e) => vec![4, world.is_alive(e) as i64],
                None => vec![8],
            },
            (22, 0) => {
                let es: Vec<Entity> = (&world.entities()).join().collect();
                enc_ents(6, &es)
            }
            (23, 1) => match hget(xs, p[0]) {
                Some(e) => {
                    let ents: specs::shred::Fetch<EntitiesRes> = world.fetch();
                    enc_ents(1, &[ents.entity(e.id())])
                }
                None => vec![8],
            },
            (24, 0) => {
                let ents = world.entities();
                let mut o = vec![5, xs.hs.len() as i64];
                for e in &xs.hs {
                    o.push(ents.is_alive(*e) as i64);
                }
                o
            }
            (38, 1) => slice_op(world, p[0]),
            (50, 1) | (50, 2) => {
                // the registration path: given explicitly, else chosen by the storage id so that all are exercised
                let sid = p[0];
                let path = if p.len() == 2 { p[1] } else { sid % 4 };
                match path {
                    0 => by_sid!(sid, reg, world),
                    1 => by_sid!(sid, reg_with, world),
                    2 => by_sid!(sid, reg_setup_read, world),
                    3 => by_sid!(sid, reg_setup_write, world),
                    4 => by_sid!(sid, reg_raw_then_setup, world, false),
                    _ => by_sid!(sid, reg_raw_then_setup, world, true),
                }
                vec![7]
            }
            (70, 1) | (71, 2) | (72, 2) => {
                let sid = p[0];
                if !is_tracked_sid(sid) {
                    // the storage must exist (fetch panics otherwise), but it has no channel
                    fn touch<T: Tokish>(world: &mut World) {
                        let _ = world.read_storage::<T>();
                    }
                    by_sid!(sid, touch, world);
                    return vec![8];
                }
                by_tracked_sid!(sid, tracked_op, world, xs, sid, code, p)
            }
            (30, 4) | (31, 2) | (32, 5) | (33, 2) | (34, 2) | (35, 1) | (36, 1) | (37, 1) | (39, 1) | (40, 1) | (40, 2)
            | (41, 5) | (42, 2) => {
                let sid = p[0];
                by_sid!(sid, st_op, world, xs, code, p)
            }
            (80, _) => crate::joins::op_join(world, xs, p),
            (81..=86, _) => crate::joins::op_changeset(xs, code, p),
            (99, 0) => {
                xs.readers.clear();
                let old = std::mem::replace(world, World::new());
                if xs.hs.len() % 2 == 1 && !std::thread::panicking() {
                    // (for worlds with an odd number of handles) the world dies while a panic raised by the caller
                    // unwinds through the frame that owns it: exactly the same values must be destroyed
                    struct CallerPanic;
                    let _ = catch_unwind(AssertUnwindSafe(move || {
                        let _owner = old;
                        std::panic::panic_any(CallerPanic);
                    }));
                } else {
                    drop(old);
                }
                vec![7]
            }
            _ => vec![8],
        }
    }
}

fn effects_entry(code: i64, p: &[i64]) -> Out {
    let (m, d) = take_effects();
    fmt_effects(code, p, m, d)
}

fn fmt_effects(code: i64, p: &[i64], m: u64, mut d: Vec<u64>) -> Out {
    // canonical order where the real order is unspecified (hash map iteration, resource drop order)
    if code == 99 || (code == 39 && p.len() == 1 && is_hash_sid(p[0])) {
        d.sort();
    }
    let mut o = vec![10, m as i64, d.len() as i64];
    o.extend(d.iter().map(|&u| u as i64));
    o
}

pub fn run_history(ints: &[i64]) -> Vec<Out> {
    let _ = take_effects();
    let _ = take_ledger();
    let _ = crate::joins::take_amounts();
    FAULT.with(|f| f.set(0));
    let mut ex = Exec::new();
    let mut tr = Vec::new();
    let mut i = 0;
    while i < ints.len() {
        if i + 1 >= ints.len() {
            tr.push(vec![8]);
            break;
        }
        let code = ints[i];
        let n = ints[i + 1].max(0) as usize;
        if i + 2 + n > ints.len() {
            tr.push(vec![8]);
            break;
        }
        let p = &ints[i + 2..i + 2 + n];
        i += 2 + n;
        let r = catch_unwind(AssertUnwindSafe(|| ex.step(code, p)));
        match r {
            Ok(o) => {
                tr.push(o);
                if code == 14 {
                    // the operations run by lazy closures during this maintain follow, each with its effects;
                    // effects seen at the start of a nested operation belong to the entry before it
                    let log = std::mem::take(&mut ex.st.log);
                    let mut prev: (i64, Vec<i64>) = (14, Vec::new());
                    for item in log {
                        match item {
                            LogItem::Eff(m, d) => tr.push(fmt_effects(prev.0, &prev.1, m, d)),
                            LogItem::Op(c, pp, out) => {
                                tr.push(out);
                                prev = (c, pp);
                            }
                        }
                    }
                    tr.push(effects_entry(prev.0, &prev.1));
                } else {
                    tr.push(effects_entry(code, p));
                }
            }
            Err(_) => {
                tr.push(vec![9]);
                // the world may be in an arbitrary state: stop here
                std::mem::forget(ex);
                let _ = take_effects();
                // ledger entry (C08), marked incomplete: values still inside the forgotten world are unaccounted
                let mut l = take_ledger();
                l.push(-1);
                tr.push(l);
                return tr;
            }
        }
        if code == 99 {
            break;
        }
    }
    // leaving the history: whatever is still in the world is destroyed now, unobserved - for every other history
    // (by a checksum of its numbers) while a panic raised by the caller unwinds through the frame that owns the world,
    // which must destroy exactly the same values
    if ints.iter().fold(0i64, |a, &b| a.wrapping_add(b)) & 1 == 1 && !std::thread::panicking() {
        struct CallerPanic;
        let _ = catch_unwind(AssertUnwindSafe(move || {
            let _owner = ex;
            std::panic::panic_any(CallerPanic);
        }));
    } else {
        drop(ex);
    }
    let (_, d) = take_effects();
    // ledger entry (C08): [98, exposed, nC, C.., nR, R.., nD, D..] with D = what the teardown destroyed
    let mut l = take_ledger();
    l.push(d.len() as i64);
    l.extend(d.iter().map(|&u| u as i64));
    // change-set amounts made / destroyed over the whole history (the slots died with `ex`)
    let (made, gone) = crate::joins::take_amounts();
    l.push(made);
    l.push(gone);
    tr.push(l);
    tr
}
