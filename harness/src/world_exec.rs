//! The `world` domain: entity lifecycle and component storages through the public API.
use crate::by_sid;
use crate::comps::*;
use specs::prelude::*;
use specs::hibitset::BitSetLike;
use specs::shrev::ReaderId;
use specs::storage::{AccessMut, ComponentEvent, GenericWriteStorage, StorageEntry, Tracked};
use specs::world::EntitiesRes;
use std::collections::HashMap;
use std::panic::{catch_unwind, AssertUnwindSafe};

pub type Out = Vec<i64>;

fn enc_ents(tag: i64, l: &[Entity]) -> Out {
    let mut o = vec![tag, l.len() as i64];
    for e in l {
        o.push(e.id() as i64);
        o.push(e.gen().id() as i64);
    }
    o
}

pub struct Exec {
    pub world: World,
    pub hs: Vec<Entity>,
    readers: HashMap<i64, Vec<ReaderId<ComponentEvent>>>,
}

// ---------------------------------------------------------------- generic storage ops

fn reg<T: Tokish>(ex: &mut Exec)
where
    T::Storage: Default,
{
    ex.world.register::<T>();
}
fn reg_with<T: Tokish>(ex: &mut Exec)
where
    T::Storage: Default,
{
    ex.world.register_with_storage::<_, T>(Default::default);
}
fn reg_setup_read<T: Tokish>(ex: &mut Exec) {
    <ReadStorage<T> as SystemData>::setup(&mut ex.world);
}
fn reg_setup_write<T: Tokish>(ex: &mut Exec) {
    <WriteStorage<T> as SystemData>::setup(&mut ex.world);
}

fn opt_tok(tag: i64, o: Option<(u64, i64)>) -> Out {
    match o {
        Some((u, v)) => vec![tag, 1, u as i64, v],
        None => vec![tag, 0],
    }
}

/// take ownership of a returned value: record it and forget it (it is not destroyed by the world)
fn ret<T: Tokish>(t: T) -> (u64, i64) {
    let r = (t.uid(), t.val());
    std::mem::forget(t);
    r
}

fn with_comp<T: Tokish>(ex: &mut Exec, e: Entity, uid: u64, val: i64, lazy: bool) {
    if lazy {
        let lz = ex.world.read_resource::<LazyUpdate>();
        lz.insert(e, T::mk(uid, val));
    } else {
        let mut st = ex.world.write_storage::<T>();
        st.insert(e, T::mk(uid, val)).unwrap();
    }
}

fn st_op<T: Tokish>(ex: &mut Exec, code: i64, p: &[i64]) -> Out {
    let e = if matches!(code, 30 | 31 | 32 | 33 | 34 | 41 | 42) {
        match ex.hs.get(p[1].max(0) as usize).copied() {
            Some(e) if p[1] >= 0 => Some(e),
            _ => return vec![8],
        }
    } else {
        None
    };
    match code {
        30 => {
            let mut st = ex.world.write_storage::<T>();
            match st.insert(e.unwrap(), T::mk(p[2] as u64, p[3])) {
                Ok(None) => vec![11, 0],
                Ok(Some(old)) => {
                    let (u, v) = ret(old);
                    vec![11, 1, u as i64, v]
                }
                Err(specs::error::Error::WrongGeneration(w)) => vec![11, 2, w.actual_gen.id() as i64],
                Err(_) => vec![11, 3],
            }
        }
        31 => {
            let st = ex.world.read_storage::<T>();
            opt_tok(12, st.get(e.unwrap()).map(|t| (t.uid(), t.val())))
        }
        32 => {
            let mut st = ex.world.write_storage::<T>();
            let touch = p[2] != 0;
            let write = p[3] != 0;
            let r = match st.get_mut(e.unwrap()) {
                Some(mut a) => {
                    let old = (a.uid(), a.val());
                    if touch || write {
                        let r = a.access_mut();
                        if write {
                            r.set_val(p[4]);
                        }
                    }
                    Some(old)
                }
                None => None,
            };
            opt_tok(12, r)
        }
        33 => {
            let mut st = ex.world.write_storage::<T>();
            opt_tok(12, st.remove(e.unwrap()).map(ret))
        }
        34 => {
            let st = ex.world.read_storage::<T>();
            vec![4, st.contains(e.unwrap()) as i64]
        }
        35 => vec![13, ex.world.read_storage::<T>().count() as i64],
        36 => vec![4, ex.world.read_storage::<T>().is_empty() as i64],
        37 => {
            let st = ex.world.read_storage::<T>();
            let ids: Vec<u32> = st.mask().iter().collect();
            let mut o = vec![14, ids.len() as i64];
            o.extend(ids.iter().map(|&i| i as i64));
            o
        }
        39 => {
            ex.world.write_storage::<T>().clear();
            vec![7]
        }
        40 => {
            let mut st = ex.world.write_storage::<T>();
            // optionally the iterator is dropped after p[1] items
            let l: Vec<(u64, i64)> = if p.len() >= 2 {
                st.drain().join().take(p[1].max(0) as usize).map(ret).collect()
            } else {
                st.drain().join().map(ret).collect()
            };
            let mut o = vec![15, l.len() as i64];
            for (u, v) in l {
                o.push(u as i64);
                o.push(v);
            }
            o
        }
        41 => {
            let mut st = ex.world.write_storage::<T>();
            let sub = p[2];
            let (u, v) = (p[3] as u64, p[4]);
            // the value offered to the entry is constructed before the call, as user code would
            let offered = if sub == 1 || sub == 2 { Some(T::mk(u, v)) } else { None };
            match st.entry(e.unwrap()) {
                Err(w) => {
                    drop(offered);
                    vec![16, 2, w.actual_gen.id() as i64]
                }
                Ok(entry) => match sub {
                    0 => match entry {
                        StorageEntry::Occupied(o) => {
                            let t = o.get();
                            vec![16, 1, t.uid() as i64, t.val()]
                        }
                        StorageEntry::Vacant(_) => vec![16, 0],
                    },
                    1 => {
                        let a = entry.or_insert(offered.unwrap());
                        vec![16, 1, a.uid() as i64, a.val()]
                    }
                    2 => match entry.replace(offered.unwrap()) {
                        Some(old) => {
                            let (u, v) = ret(old);
                            vec![16, 1, u as i64, v]
                        }
                        None => vec![16, 0],
                    },
                    3 => match entry {
                        StorageEntry::Occupied(o) => {
                            let (u, v) = ret(o.remove());
                            vec![16, 1, u as i64, v]
                        }
                        StorageEntry::Vacant(_) => vec![16, 0],
                    },
                    _ => match entry {
                        StorageEntry::Occupied(mut o) => {
                            let mut a = o.get_mut();
                            let old = (a.uid(), a.val());
                            a.access_mut().set_val(v);
                            vec![16, 1, old.0 as i64, old.1]
                        }
                        StorageEntry::Vacant(_) => vec![16, 0],
                    },
                },
            }
        }
        42 => {
            let mut st = ex.world.write_storage::<T>();
            let e = e.unwrap();
            // both textual copies of get_mut_or_default
            let r = if p[1] % 2 == 0 {
                GenericWriteStorage::get_mut_or_default(&mut st, e).map(|a| (a.uid(), a.val()))
            } else {
                let mut r = &mut st;
                GenericWriteStorage::get_mut_or_default(&mut r, e).map(|a| (a.uid(), a.val()))
            };
            opt_tok(12, r)
        }
        50 => {
            unreachable!()
        }
        _ => vec![8],
    }
}

fn slice_op(ex: &mut Exec, sid: i64) -> Out {
    match sid {
        0 => {
            let st = ex.world.read_storage::<CV>();
            let s = st.as_slice();
            let ids: Vec<u32> = st.mask().iter().collect();
            let mut o = vec![17, 1, s.len() as i64, ids.len() as i64];
            for i in ids {
                // SAFETY: the mask says the slot is initialised
                let t = unsafe { s[i as usize].assume_init_ref() };
                o.push(t.uid as i64);
                o.push(t.val);
            }
            o
        }
        1 => {
            let st = ex.world.read_storage::<CD>();
            let s = st.as_slice();
            let mut o = vec![17, 2, s.len() as i64];
            for t in s {
                o.push(t.uid as i64);
                o.push(t.val);
            }
            o
        }
        2 => {
            let st = ex.world.read_storage::<CT>();
            let s = st.as_slice();
            let mut o = vec![17, 2, s.len() as i64];
            for t in s {
                o.push(t.uid as i64);
                o.push(t.val);
            }
            o
        }
        _ => {
            // the wrappers have no slice access; the storage must still be registered
            fn touch<T: Tokish>(ex: &mut Exec) {
                let _ = ex.world.read_storage::<T>();
            }
            by_sid!(sid, touch, ex);
            vec![17, 0]
        }
    }
}

fn tracked_op<T: Tokish>(ex: &mut Exec, sid: i64, code: i64, p: &[i64]) -> Out
where
    T::Storage: Tracked,
{
    match code {
        70 => {
            let r = ex.world.write_storage::<T>().register_reader();
            let v = ex.readers.entry(sid).or_default();
            v.push(r);
            vec![19, (v.len() - 1) as i64]
        }
        71 => {
            let st = ex.world.read_storage::<T>();
            let k = p[1];
            match ex.readers.get_mut(&sid).and_then(|v| if k >= 0 { v.get_mut(k as usize) } else { None }) {
                Some(r) => {
                    let evs: Vec<ComponentEvent> = st.channel().read(r).copied().collect();
                    let mut o = vec![18, evs.len() as i64];
                    for ev in evs {
                        match ev {
                            ComponentEvent::Inserted(i) => o.extend([0, i as i64]),
                            ComponentEvent::Modified(i) => o.extend([1, i as i64]),
                            ComponentEvent::Removed(i) => o.extend([2, i as i64]),
                        }
                    }
                    o
                }
                None => vec![8],
            }
        }
        72 => {
            ex.world.write_storage::<T>().set_event_emission(p[1] != 0);
            vec![7]
        }
        _ => vec![8],
    }
}

macro_rules! by_tracked_sid {
    ($sid:expr, $f:ident, $($a:expr),*) => {
        match $sid {
            6 => $f::<FV>($($a),*), 7 => $f::<FD>($($a),*), 8 => $f::<FT>($($a),*),
            9 => $f::<FH>($($a),*), 10 => $f::<FB>($($a),*),
            11 => $f::<GV>($($a),*), 12 => $f::<GD>($($a),*), 13 => $f::<GT>($($a),*),
            14 => $f::<GH>($($a),*), 15 => $f::<GB>($($a),*),
            _ => panic!("not a tracked storage"),
        }
    };
}

impl Exec {
    pub fn new() -> Self {
        Exec { world: World::new(), hs: Vec::new(), readers: HashMap::new() }
    }

    fn h(&self, k: i64) -> Option<Entity> {
        if k < 0 {
            return None;
        }
        self.hs.get(k as usize).copied()
    }

    /// (sid, uid, val) triples attached by a builder
    fn comps(p: &[i64]) -> Vec<(i64, u64, i64)> {
        p.chunks(3).filter(|c| c.len() == 3).map(|c| (c[0], c[1] as u64, c[2])).collect()
    }

    fn attach(&mut self, e: Entity, cs: &[(i64, u64, i64)], lazy: bool) {
        for &(sid, u, v) in cs {
            by_sid!(sid, with_comp, self, e, u, v, lazy);
        }
    }

    pub fn step(&mut self, code: i64, p: &[i64]) -> Out {
        match code {
            1 => {
                // world.create_entity().with(..).build(): `with` fetches a WriteStorage and inserts
                let cs = Self::comps(p);
                let e = {
                    let mut b = self.world.create_entity();
                    for &(sid, u, v) in &cs {
                        fn w<'a, T: Tokish>(b: EntityBuilder<'a>, u: u64, v: i64) -> EntityBuilder<'a> {
                            b.with(T::mk(u, v))
                        }
                        b = by_sid!(sid, w, b, u, v);
                    }
                    b.build()
                };
                self.hs.push(e);
                enc_ents(1, &[e])
            }
            _ => self.step2(code, p),
        }
    }

    fn step2(&mut self, code: i64, p: &[i64]) -> Out {
        match (code, p.len()) {
            (2, _) => {
                let cs = Self::comps(p);
                let e = {
                    let mut b = self.world.create_entity();
                    let e = b.entity;
                    for &(sid, u, v) in &cs {
                        fn w<'a, T: Tokish>(b: EntityBuilder<'a>, u: u64, v: i64) -> EntityBuilder<'a> {
                            b.with(T::mk(u, v))
                        }
                        b = by_sid!(sid, w, b, u, v);
                    }
                    drop(b);
                    e
                };
                self.hs.push(e);
                enc_ents(1, &[e])
            }
            (3, 1) => {
                let n = p[0].max(0) as usize;
                let l: Vec<Entity> = self.world.create_iter().take(n).collect();
                self.hs.extend(l.iter().copied());
                enc_ents(1, &l)
            }
            (4, 0) => {
                let e = self.world.entities().create();
                self.hs.push(e);
                enc_ents(1, &[e])
            }
            (5, 1) => {
                let n = p[0].max(0) as usize;
                let l: Vec<Entity> = self.world.entities().create_iter().take(n).collect();
                self.hs.extend(l.iter().copied());
                enc_ents(1, &l)
            }
            (6, n) if n >= 1 => {
                let built = p[0] != 0;
                let cs = Self::comps(&p[1..]);
                let e = {
                    let ents = self.world.entities();
                    let b = ents.build_entity();
                    let e = b.entity;
                    // EntityResBuilder::with(c, &mut storage) is storage.insert(entity, c).unwrap()
                    for &(sid, u, v) in &cs {
                        fn w<T: Tokish>(world: &World, e: Entity, u: u64, v: i64) {
                            let mut st = world.write_storage::<T>();
                            st.insert(e, T::mk(u, v)).unwrap();
                        }
                        by_sid!(sid, w, &self.world, e, u, v);
                    }
                    if built {
                        b.build()
                    } else {
                        drop(b);
                        e
                    }
                };
                self.hs.push(e);
                enc_ents(1, &[e])
            }
            (7, _) => {
                let cs = Self::comps(p);
                let e = {
                    let lazy = self.world.read_resource::<LazyUpdate>();
                    let ents = self.world.entities();
                    lazy.create_entity(&ents).build()
                };
                self.attach(e, &cs, true);
                self.hs.push(e);
                enc_ents(1, &[e])
            }
            (10, 1) => match self.h(p[0]) {
                Some(e) => match self.world.delete_entity(e) {
                    Ok(()) => vec![2, 0],
                    Err(w) => vec![2, 1, 0, w.actual_gen.id() as i64],
                },
                None => vec![8],
            },
            (11, _) => {
                let es: Option<Vec<Entity>> = p.iter().map(|&k| self.h(k)).collect();
                match es {
                    Some(es) => match self.world.delete_entities(&es) {
                        Ok(()) => vec![2, 0],
                        Err((w, pos)) => vec![2, 1, pos as i64, w.actual_gen.id() as i64],
                    },
                    None => vec![8],
                }
            }
            (12, 1) => match self.h(p[0]) {
                Some(e) => match self.world.entities().delete(e) {
                    Ok(()) => vec![3, 0],
                    Err(w) => vec![3, 1, w.actual_gen.id() as i64],
                },
                None => vec![8],
            },
            (13, 0) => {
                let es: Vec<Entity> = (&self.world.entities()).join().collect();
                self.world.delete_all();
                enc_ents(6, &es)
            }
            (14, 0) => {
                self.world.maintain();
                vec![7]
            }
            (20, 1) => match self.h(p[0]) {
                Some(e) => vec![4, self.world.entities().is_alive(e) as i64],
                None => vec![8],
            },
            (21, 1) => match self.h(p[0]) {
                Some(e) => vec![4, self.world.is_alive(e) as i64],
                None => vec![8],
            },
            (22, 0) => {
                let es: Vec<Entity> = (&self.world.entities()).join().collect();
                enc_ents(6, &es)
            }
            (23, 1) => match self.h(p[0]) {
                Some(e) => {
                    let ents: specs::shred::Fetch<EntitiesRes> = self.world.fetch();
                    enc_ents(1, &[ents.entity(e.id())])
                }
                None => vec![8],
            },
            (24, 0) => {
                let ents = self.world.entities();
                let mut o = vec![5, self.hs.len() as i64];
                for e in &self.hs {
                    o.push(ents.is_alive(*e) as i64);
                }
                o
            }
            (38, 1) => slice_op(self, p[0]),
            (50, 1) => {
                // the registration path is chosen by the storage id so that all four are exercised
                let sid = p[0];
                match sid % 4 {
                    0 => by_sid!(sid, reg, self),
                    1 => by_sid!(sid, reg_with, self),
                    2 => by_sid!(sid, reg_setup_read, self),
                    _ => by_sid!(sid, reg_setup_write, self),
                }
                vec![7]
            }
            (70, 1) | (71, 2) | (72, 2) => {
                let sid = p[0];
                if !is_tracked_sid(sid) {
                    // the storage must exist (fetch panics otherwise), but it has no channel
                    fn touch<T: Tokish>(ex: &mut Exec) {
                        let _ = ex.world.read_storage::<T>();
                    }
                    by_sid!(sid, touch, self);
                    return vec![8];
                }
                by_tracked_sid!(sid, tracked_op, self, sid, code, p)
            }
            (30, 4) | (31, 2) | (32, 5) | (33, 2) | (34, 2) | (35, 1) | (36, 1) | (37, 1) | (39, 1) | (40, 1) | (40, 2)
            | (41, 5) | (42, 2) => {
                let sid = p[0];
                by_sid!(sid, st_op, self, code, p)
            }
            (99, 0) => {
                self.readers.clear();
                let old = std::mem::replace(&mut self.world, World::new());
                drop(old);
                vec![7]
            }
            _ => vec![8],
        }
    }
}

fn effects_entry(code: i64, p: &[i64]) -> Out {
    let (m, mut d) = take_effects();
    // canonical order where the real order is unspecified (hash map iteration, resource drop order)
    if code == 99 || (code == 39 && p.len() == 1 && is_hash_sid(p[0])) {
        d.sort();
    }
    let mut o = vec![10, m as i64, d.len() as i64];
    o.extend(d.iter().map(|&u| u as i64));
    o
}

pub fn run_history(ints: &[i64]) -> Vec<Out> {
    let _ = take_effects();
    FAULT.with(|f| f.set(0));
    let mut ex = Exec::new();
    let mut tr = Vec::new();
    let mut i = 0;
    while i < ints.len() {
        if i + 1 >= ints.len() {
            tr.push(vec![8]);
            break;
        }
        let code = ints[i];
        let n = ints[i + 1].max(0) as usize;
        if i + 2 + n > ints.len() {
            tr.push(vec![8]);
            break;
        }
        let p = &ints[i + 2..i + 2 + n];
        i += 2 + n;
        let r = catch_unwind(AssertUnwindSafe(|| ex.step(code, p)));
        match r {
            Ok(o) => {
                tr.push(o);
                tr.push(effects_entry(code, p));
            }
            Err(_) => {
                tr.push(vec![9]);
                // the world may be in an arbitrary state: stop here
                std::mem::forget(ex);
                let _ = take_effects();
                return tr;
            }
        }
        if code == 99 {
            break;
        }
    }
    // leaving the history: whatever is still in the world is destroyed now, unobserved
    drop(ex);
    let _ = take_effects();
    tr
}
