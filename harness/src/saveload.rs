//! The `saveload` domain: `specs::saveload` through its public API.
//!
//! Executes the histories of coq/theories/SaveLoad/SLOps.v (`dop`) on two real
//! `specs::World`s ("current" and "other") and prints, per operation, the
//! output followed by a dump of the current world (`enc_sout ++ enc_dump`).
//! Two variants: `SimpleMarker` (`saveload`) and `UuidMarker` (`saveload-uuid`).
use std::convert::Infallible;
use std::marker::PhantomData;
use std::panic::{catch_unwind, AssertUnwindSafe};

use serde::{de::DeserializeOwned, Deserialize, Serialize};
use specs::prelude::*;
use specs::saveload::{
    ConvertSaveload, DeserializeComponents, EntityData, Marker, MarkerAllocator,
    SerializeComponents, SimpleMarker, SimpleMarkerAllocator, UuidMarker, UuidMarkerAllocator,
};

pub type Out = Vec<i64>;

// ---------------------------------------------------------------------------
// components: one generic type, three tags, three different storages

/// A component value: plain data, or a field holding an entity.
/// (No Clone / Serialize / Deserialize: `ConvertSaveload` is implemented by hand
/// and must not collide with the blanket impl of specs.)
pub enum Comp<T> {
    P(i64),
    R(Entity),
    #[allow(dead_code)]
    _Tag(Infallible, PhantomData<fn() -> T>),
}

pub struct T0;
pub struct T1;
pub struct T2;

impl Component for Comp<T0> {
    type Storage = VecStorage<Self>;
}
impl Component for Comp<T1> {
    type Storage = DenseVecStorage<Self>;
}
impl Component for Comp<T2> {
    type Storage = HashMapStorage<Self>;
}

/// `ConvertSaveload::Data` of `Comp`: the entity replaced by its marker.
#[derive(Serialize, Deserialize)]
#[serde(bound = "M: Serialize + DeserializeOwned")]
pub enum CompData<M> {
    P(i64),
    R(M),
}

impl<T, M> ConvertSaveload<M> for Comp<T>
where
    M: Serialize + DeserializeOwned,
{
    type Data = CompData<M>;
    type Error = Infallible;

    fn convert_into<F>(&self, mut ids: F) -> Result<Self::Data, Self::Error>
    where
        F: FnMut(Entity) -> Option<M>,
    {
        match self {
            Comp::P(z) => Ok(CompData::P(*z)),
            // through specs' own impl for Entity: `ids(e).unwrap()`
            Comp::R(e) => Ok(CompData::R(<Entity as ConvertSaveload<M>>::convert_into(
                e, &mut ids,
            )?)),
            Comp::_Tag(x, _) => match *x {},
        }
    }

    fn convert_from<F>(data: Self::Data, mut ids: F) -> Result<Self, Self::Error>
    where
        F: FnMut(M) -> Option<Entity>,
    {
        match data {
            CompData::P(z) => Ok(Comp::P(z)),
            CompData::R(m) => Ok(Comp::R(<Entity as ConvertSaveload<M>>::convert_from(
                m, &mut ids,
            )?)),
        }
    }
}

/// untagged component value
#[derive(Clone, Copy)]
enum CVal {
    P(i64),
    R(Entity),
}

impl CVal {
    fn tag<T>(self) -> Comp<T> {
        match self {
            CVal::P(z) => Comp::P(z),
            CVal::R(e) => Comp::R(e),
        }
    }
}

// ---------------------------------------------------------------------------
// canonical saved data

#[derive(Clone, Copy, Debug, PartialEq)]
enum Slot {
    P(i64),
    R(u64),
}
type Rec = (u64, [Option<Slot>; 3]);
type Data = Vec<Rec>;

type TComps<M> = (Option<CompData<M>>, Option<CompData<M>>, Option<CompData<M>>);
type Typed<M> = Vec<EntityData<M, TComps<M>>>;

fn push_slot(o: &mut Out, s: &Option<Slot>) {
    match s {
        None => o.push(0),
        Some(Slot::P(z)) => {
            o.push(1);
            o.push(*z);
        }
        Some(Slot::R(m)) => {
            o.push(2);
            o.push(*m as i64);
        }
    }
}

// ---------------------------------------------------------------------------
// the two marker variants

type Al<V> = <<V as Variant>::M as Marker>::Allocator;

pub trait Variant: 'static {
    type M: Marker;
    const UUID: bool;
    /// register the marker component and insert a fresh allocator
    fn setup(world: &mut World);
    fn ident(id: u64) -> <Self::M as Marker>::Identifier;
    fn id_of(m: &Self::M) -> u64;
    fn marker_with_id(id: u64) -> Self::M;
    /// (index or -1, mapping sorted by id as (id, entity index, generation))
    fn dump_alloc(world: &World) -> (i64, Vec<(u64, i64, i64)>);
}

/// Scanner for the `Debug` output of the allocators (their fields are private):
/// `Name { [index: N,] mapping: {key: Entity(i, Generation(g)), ...}[, ...] }`.
/// Returns the index (if printed) and the raw (key text, index, generation) entries.
fn scan_alloc_debug(s: &str) -> (Option<u64>, Vec<(String, i64, i64)>) {
    let b = s.as_bytes();
    fn num(b: &[u8], pos: &mut usize) -> i64 {
        let start = *pos;
        if *pos < b.len() && b[*pos] == b'-' {
            *pos += 1;
        }
        while *pos < b.len() && b[*pos].is_ascii_digit() {
            *pos += 1;
        }
        assert!(*pos > start, "number expected");
        std::str::from_utf8(&b[start..*pos]).unwrap().parse::<i64>().expect("number")
    }
    fn expect(b: &[u8], pos: &mut usize, lit: &str) {
        assert!(b[*pos..].starts_with(lit.as_bytes()), "expected {:?}", lit);
        *pos += lit.len();
    }
    let brace = s.find('{').expect("struct brace");
    let map_at = s.find("mapping: {").expect("mapping field");
    let index = match s[brace..map_at].find("index: ") {
        Some(i) => {
            let mut pos = brace + i + "index: ".len();
            let start = pos;
            while pos < b.len() && b[pos].is_ascii_digit() {
                pos += 1;
            }
            Some(s[start..pos].parse::<u64>().expect("index"))
        }
        None => None,
    };
    let mut pos = map_at + "mapping: {".len();
    let mut v = Vec::new();
    loop {
        while b[pos] == b' ' || b[pos] == b',' {
            pos += 1;
        }
        if b[pos] == b'}' {
            break;
        }
        let start = pos;
        while b[pos] != b':' {
            pos += 1;
        }
        let key = s[start..pos].to_string();
        expect(b, &mut pos, ": Entity(");
        let i = num(b, &mut pos);
        expect(b, &mut pos, ", Generation(");
        let g = num(b, &mut pos);
        expect(b, &mut pos, "))");
        v.push((key, i, g));
    }
    (index, v)
}

pub struct SLTag;
pub struct Simple;

impl Variant for Simple {
    type M = SimpleMarker<SLTag>;
    const UUID: bool = false;

    fn setup(world: &mut World) {
        world.register::<SimpleMarker<SLTag>>();
        world.insert(SimpleMarkerAllocator::<SLTag>::new());
    }
    fn ident(id: u64) -> u64 {
        id
    }
    fn id_of(m: &Self::M) -> u64 {
        m.id()
    }
    fn marker_with_id(id: u64) -> Self::M {
        // the fields are private: go through serde (a one element tuple struct)
        // (checked: a marker obtained from `mark` serialises as `[id]` / RON `(id)`)
        let m: SimpleMarker<SLTag> =
            serde_json::from_str(&format!("[{}]", id)).expect("SimpleMarker from json");
        assert_eq!(m.id(), id);
        m
    }
    fn dump_alloc(world: &World) -> (i64, Vec<(u64, i64, i64)>) {
        let a = world.read_resource::<SimpleMarkerAllocator<SLTag>>();
        let (index, raw) = scan_alloc_debug(&format!("{:?}", *a));
        let mut v: Vec<(u64, i64, i64)> = raw
            .into_iter()
            .map(|(k, i, g)| (k.trim().parse::<u64>().expect("u64 key"), i, g))
            .collect();
        v.sort();
        (index.expect("index field") as i64, v)
    }
}

pub struct Uuid;

impl Variant for Uuid {
    type M = UuidMarker;
    const UUID: bool = true;

    fn setup(world: &mut World) {
        world.register::<UuidMarker>();
        world.insert(UuidMarkerAllocator::new());
    }
    fn ident(id: u64) -> uuid::Uuid {
        uuid::Uuid::from_u128(id as u128)
    }
    fn id_of(m: &Self::M) -> u64 {
        let x = m.uuid().as_u128();
        assert!(x <= u64::MAX as u128, "uuid out of the u64 range");
        x as u64
    }
    fn marker_with_id(id: u64) -> Self::M {
        UuidMarker::new(Self::ident(id))
    }
    fn dump_alloc(world: &World) -> (i64, Vec<(u64, i64, i64)>) {
        let a = world.read_resource::<UuidMarkerAllocator>();
        let (_, raw) = scan_alloc_debug(&format!("{:?}", *a));
        let mut v: Vec<(u64, i64, i64)> = raw
            .into_iter()
            .map(|(k, i, g)| {
                let x = uuid::Uuid::parse_str(k.trim()).expect("uuid key").as_u128();
                assert!(x <= u64::MAX as u128, "uuid out of the u64 range");
                (x as u64, i, g)
            })
            .collect();
        v.sort();
        (-1, v)
    }
}

// ---------------------------------------------------------------------------
// executor

struct Side {
    world: World,
    /// every handle seen so far in this world, in order of appearance
    hs: Vec<Entity>,
}

fn new_side<V: Variant>() -> Side {
    let mut world = World::new();
    world.register::<Comp<T0>>();
    world.register::<Comp<T1>>();
    world.register::<Comp<T2>>();
    V::setup(&mut world);
    Side { world, hs: Vec::new() }
}

struct Exec<V: Variant> {
    cur: Side,
    oth: Side,
    saved: Vec<Data>,
    _v: PhantomData<V>,
}

/// Z.to_nat / Z.to_N
fn nat(x: i64) -> u64 {
    if x < 0 {
        0
    } else {
        x as u64
    }
}

/// `dec_data`: records `id slot slot slot` until the payload ends
fn dec_data(mut l: &[i64]) -> Option<Data> {
    let mut d = Vec::new();
    while let [m, rest @ ..] = l {
        let mut r = rest;
        let mut cs: [Option<Slot>; 3] = [None, None, None];
        for c in cs.iter_mut() {
            match r {
                [0, t @ ..] => {
                    *c = None;
                    r = t;
                }
                [1, z, t @ ..] => {
                    *c = Some(Slot::P(*z));
                    r = t;
                }
                [2, m, t @ ..] => {
                    *c = Some(Slot::R(nat(*m)));
                    r = t;
                }
                _ => return None,
            }
        }
        d.push((nat(*m), cs));
        l = r;
    }
    Some(d)
}

fn ron_pretty() -> ron::ser::PrettyConfig {
    // like src/saveload/tests.rs
    let mut config = ron::ser::PrettyConfig::default();
    config.struct_names = true;
    config
}

impl<V: Variant> Exec<V> {
    fn new() -> Self {
        Exec { cur: new_side::<V>(), oth: new_side::<V>(), saved: Vec::new(), _v: PhantomData }
    }

    fn h(&self, x: i64) -> Option<Entity> {
        let hs = &self.cur.hs;
        if hs.is_empty() {
            None
        } else {
            Some(hs[(nat(x) % hs.len() as u64) as usize])
        }
    }

    /// `hs_update`
    fn update_hs(&mut self) {
        let side = &mut self.cur;
        let ents = side.world.entities();
        for e in (&ents).join() {
            if !side.hs.contains(&e) {
                side.hs.push(e);
            }
        }
    }

    /// `enc_dump`
    fn dump(&self) -> Out {
        let w = &self.cur.world;
        let mut o = Vec::new();
        let (index, mp) = V::dump_alloc(w);
        o.push(index);
        o.push(mp.len() as i64);
        for (id, i, g) in mp {
            o.push(id as i64);
            o.push(i);
            o.push(g);
        }
        let ents = w.entities();
        let markers = w.read_storage::<V::M>();
        let c0 = w.read_storage::<Comp<T0>>();
        let c1 = w.read_storage::<Comp<T1>>();
        let c2 = w.read_storage::<Comp<T2>>();
        let es: Vec<Entity> = (&ents).join().collect();
        o.push(es.len() as i64);
        fn slot<T>(o: &mut Out, c: Option<&Comp<T>>) {
            match c {
                None => o.push(0),
                Some(Comp::P(z)) => {
                    o.push(1);
                    o.push(*z);
                }
                Some(Comp::R(e)) => {
                    o.push(2);
                    o.push(e.id() as i64);
                    o.push(e.gen().id() as i64);
                }
                Some(Comp::_Tag(x, _)) => match *x {},
            }
        }
        for e in es {
            o.push(e.id() as i64);
            o.push(e.gen().id() as i64);
            o.push(markers.get(e).map(|m| V::id_of(m) as i64).unwrap_or(-1));
            slot(&mut o, c0.get(e));
            slot(&mut o, c1.get(e));
            slot(&mut o, c2.get(e));
        }
        o
    }

    fn insert(&mut self, e: Entity, k: u64, v: CVal) {
        let w = &self.cur.world;
        match k {
            0 => {
                let _ = w.write_storage::<Comp<T0>>().insert(e, v.tag());
            }
            1 => {
                let _ = w.write_storage::<Comp<T1>>().insert(e, v.tag());
            }
            2 => {
                let _ = w.write_storage::<Comp<T2>>().insert(e, v.tag());
            }
            // the model has a storage for every k, but only 0..2 are ever observed
            // (dump and serialisation): nothing to do
            _ => {}
        }
    }

    fn remove(&mut self, e: Entity, k: u64) {
        let w = &self.cur.world;
        match k {
            0 => {
                w.write_storage::<Comp<T0>>().remove(e);
            }
            1 => {
                w.write_storage::<Comp<T1>>().remove(e);
            }
            2 => {
                w.write_storage::<Comp<T2>>().remove(e);
            }
            _ => {}
        }
    }

    /// runs serialize / serialize_recursive with the given serde serializer
    fn ser_with<S: serde::Serializer>(&self, rec: bool, ser: S) {
        let w = &self.cur.world;
        let ents = w.entities();
        let c0 = w.read_storage::<Comp<T0>>();
        let c1 = w.read_storage::<Comp<T1>>();
        let c2 = w.read_storage::<Comp<T2>>();
        if rec {
            let mut markers = w.write_storage::<V::M>();
            let mut alloc = w.write_resource::<Al<V>>();
            SerializeComponents::<Infallible, V::M>::serialize_recursive(
                &(&c0, &c1, &c2),
                &ents,
                &mut markers,
                &mut alloc,
                ser,
            )
            .map(|_| ())
            .map_err(|e| e.to_string())
            .expect("serialize_recursive");
        } else {
            let markers = w.read_storage::<V::M>();
            SerializeComponents::<Infallible, V::M>::serialize(
                &(&c0, &c1, &c2),
                &ents,
                &markers,
                ser,
            )
            .map(|_| ())
            .map_err(|e| e.to_string())
            .expect("serialize");
        }
    }

    fn canon(typed: Typed<V::M>) -> Data {
        fn slot<V: Variant>(c: Option<CompData<V::M>>) -> Option<Slot> {
            match c {
                None => None,
                Some(CompData::P(z)) => Some(Slot::P(z)),
                Some(CompData::R(m)) => Some(Slot::R(V::id_of(&m))),
            }
        }
        typed
            .into_iter()
            .map(|ed| {
                let (a, b, c) = ed.components;
                (V::id_of(&ed.marker), [slot::<V>(a), slot::<V>(b), slot::<V>(c)])
            })
            .collect()
    }

    fn typed(d: &Data) -> Typed<V::M> {
        fn slot<V: Variant>(s: &Option<Slot>) -> Option<CompData<V::M>> {
            match s {
                None => None,
                Some(Slot::P(z)) => Some(CompData::P(*z)),
                Some(Slot::R(m)) => Some(CompData::R(V::marker_with_id(*m))),
            }
        }
        d.iter()
            .map(|(id, cs)| EntityData {
                marker: V::marker_with_id(*id),
                components: (slot::<V>(&cs[0]), slot::<V>(&cs[1]), slot::<V>(&cs[2])),
            })
            .collect()
    }

    /// ops 10 / 11.  fmt 0: serde_json; 2: RON pretty with struct names (as in
    /// src/saveload/tests.rs); anything else: plain RON.
    fn serialize(&mut self, fmt: i64, rec: bool) -> Out {
        let mut buf: Vec<u8> = Vec::new();
        let typed: Typed<V::M> = if fmt == 0 {
            {
                let mut ser = serde_json::Serializer::new(&mut buf);
                self.ser_with(rec, &mut ser);
            }
            serde_json::from_slice(&buf).expect("parse the json just written")
        } else {
            {
                let cfg = if fmt == 2 { Some(ron_pretty()) } else { None };
                let mut ser =
                    ron::ser::Serializer::with_options(&mut buf, cfg, Default::default())
                        .expect("ron serializer");
                self.ser_with(rec, &mut ser);
            }
            ron::de::from_bytes(&buf).expect("parse the ron just written")
        };
        let d = Self::canon(typed);
        let mut o = vec![5, d.len() as i64];
        for (id, cs) in &d {
            o.push(*id as i64);
            for c in cs {
                push_slot(&mut o, c);
            }
        }
        self.saved.push(d);
        o
    }

    /// ops 12 / 13
    fn deserialize(&mut self, fmt: i64, d: &Data) {
        let typed = Self::typed(d);
        let text: String = if fmt == 0 {
            serde_json::to_string(&typed).expect("to json")
        } else if fmt == 2 {
            ron::ser::to_string_pretty(&typed, ron_pretty()).expect("to ron")
        } else {
            ron::ser::to_string(&typed).expect("to ron")
        };
        let w = &self.cur.world;
        let ents = w.entities();
        let mut markers = w.write_storage::<V::M>();
        let mut alloc = w.write_resource::<Al<V>>();
        let mut st = (
            w.write_storage::<Comp<T0>>(),
            w.write_storage::<Comp<T1>>(),
            w.write_storage::<Comp<T2>>(),
        );
        if fmt == 0 {
            let mut de = serde_json::Deserializer::from_str(&text);
            DeserializeComponents::<Infallible, V::M>::deserialize(
                &mut st,
                &ents,
                &mut markers,
                &mut alloc,
                &mut de,
            )
            .map_err(|e| e.to_string())
            .expect("deserialize json");
        } else {
            let mut de = ron::de::Deserializer::from_str(&text).expect("ron deserializer");
            DeserializeComponents::<Infallible, V::M>::deserialize(
                &mut st,
                &ents,
                &mut markers,
                &mut alloc,
                &mut de,
            )
            .map_err(|e| e.to_string())
            .expect("deserialize ron");
        }
    }

    /// the op-specific output, or None for a skipped op
    fn op(&mut self, code: i64, p: &[i64]) -> Option<Out> {
        match (code, p) {
            (1, [b]) => {
                let e = if *b == 0 {
                    self.cur.world.create_entity().build()
                } else {
                    self.cur.world.entities().create()
                };
                Some(vec![1, e.id() as i64, e.gen().id() as i64])
            }
            (2, [h, k, t, x]) if *t == 1 || *t == 2 => {
                let e = self.h(*h)?;
                let v = if *t == 1 { CVal::P(*x) } else { CVal::R(self.h(*x)?) };
                let alive = self.cur.world.entities().is_alive(e);
                self.insert(e, nat(*k), v);
                Some(vec![2, alive as i64])
            }
            (3, [h, k]) => {
                let e = self.h(*h)?;
                let alive = self.cur.world.entities().is_alive(e);
                self.remove(e, nat(*k));
                Some(vec![2, alive as i64])
            }
            (4, [h]) => {
                if V::UUID {
                    return None;
                }
                let e = self.h(*h)?;
                let w = &self.cur.world;
                let mut markers = w.write_storage::<V::M>();
                let mut alloc = w.write_resource::<Al<V>>();
                Some(match alloc.mark(e, &mut markers) {
                    None => vec![3, 0],
                    Some((m, added)) => vec![3, 1, V::id_of(m) as i64, added as i64],
                })
            }
            (5, [h, id]) => {
                let e = self.h(*h)?;
                let id = nat(*id);
                let w = &self.cur.world;
                let ents = w.entities();
                let mut markers = w.write_storage::<V::M>();
                let mut alloc = w.write_resource::<Al<V>>();
                if !ents.is_alive(e) {
                    return Some(vec![3, 0]);
                }
                if let Some(m) = markers.get(e) {
                    return Some(vec![3, 1, V::id_of(m) as i64, 0]);
                }
                let m = alloc.allocate(e, Some(V::ident(id)));
                let mid = V::id_of(&m);
                markers.insert(e, m).expect("insert marker");
                Some(vec![3, 1, mid as i64, 1])
            }
            (6, [h]) => {
                let e = self.h(*h)?;
                Some(vec![2, self.cur.world.delete_entity(e).is_ok() as i64])
            }
            (7, [h]) => {
                let e = self.h(*h)?;
                Some(vec![2, self.cur.world.entities().delete(e).is_ok() as i64])
            }
            (15, hs) => {
                let mut es = Vec::new();
                for h in hs {
                    es.push(self.h(*h)?);
                }
                Some(vec![2, self.cur.world.delete_entities(&es).is_ok() as i64])
            }
            (8, []) => {
                self.cur.world.maintain();
                Some(vec![4])
            }
            (9, []) => {
                let w = &self.cur.world;
                let ents = w.entities();
                let markers = w.read_storage::<V::M>();
                let mut alloc = w.write_resource::<Al<V>>();
                alloc.maintain(&ents, &markers);
                Some(vec![4])
            }
            (10, [f]) => Some(self.serialize(*f, false)),
            (11, [f]) => {
                if V::UUID {
                    return None;
                }
                Some(self.serialize(*f, true))
            }
            (12, [f, r @ ..]) => {
                let d = dec_data(r)?;
                self.deserialize(*f, &d);
                Some(vec![4])
            }
            (13, [f, k]) => {
                if self.saved.is_empty() {
                    return None;
                }
                let d = self.saved[(nat(*k) % self.saved.len() as u64) as usize].clone();
                self.deserialize(*f, &d);
                Some(vec![4])
            }
            _ => None,
        }
    }

    fn step(&mut self, code: i64, p: &[i64]) -> Out {
        if code == 14 && p.is_empty() {
            std::mem::swap(&mut self.cur, &mut self.oth);
            let mut o = vec![4];
            o.extend(self.dump());
            return o;
        }
        match self.op(code, p) {
            None => vec![8],
            Some(mut o) => {
                self.update_hs();
                o.extend(self.dump());
                o
            }
        }
    }
}

pub fn run_history<V: Variant>(ints: &[i64]) -> Vec<Out> {
    let mut ex = Exec::<V>::new();
    let mut tr = Vec::new();
    let mut i = 0;
    while i < ints.len() {
        if i + 1 >= ints.len() {
            tr.push(vec![8]);
            break;
        }
        let code = ints[i];
        let n = ints[i + 1].max(0) as usize;
        if n > ints.len() || i + 2 + n > ints.len() {
            tr.push(vec![8]);
            break;
        }
        let p = &ints[i + 2..i + 2 + n];
        i += 2 + n;
        let r = catch_unwind(AssertUnwindSafe(|| ex.step(code, p)));
        match r {
            Ok(o) => tr.push(o),
            Err(_) => {
                tr.push(vec![9]);
                // the worlds may be in an arbitrary state: stop here
                std::mem::forget(ex);
                return tr;
            }
        }
    }
    tr
}
