//! Component types of the harness: one per storage kind and wrapper/inner pair.
//! Every value carries a uid and a payload; destruction is logged.
use specs::prelude::*;
use specs::storage::{
    BTreeStorage, DefaultVecStorage, DenseVecStorage, DerefFlaggedStorage, FlaggedStorage, HashMapStorage,
    NullStorage, VecStorage,
};
use std::cell::{Cell, RefCell};

pub const DEFAULT_UID: u64 = 1 << 40;

thread_local! {
    pub static DROPS: RefCell<Vec<u64>> = RefCell::new(Vec::new());
    pub static MINTS: Cell<u64> = Cell::new(0);
    /// fault plan: the k-th destructor call from now panics (0 = disarmed)
    pub static FAULT: Cell<u64> = Cell::new(0);
    /// construction / hand-back ledger of the current history (property C08): uids constructed by `mk`,
    /// uids handed back to the caller, uids that are gone (destroyed or handed back), and the number of
    /// times a value that was already gone was looked at
    pub static CONSTRUCTED: RefCell<Vec<u64>> = RefCell::new(Vec::new());
    pub static RETURNED: RefCell<Vec<u64>> = RefCell::new(Vec::new());
    pub static GONE: RefCell<std::collections::HashSet<u64>> = RefCell::new(std::collections::HashSet::new());
    pub static EXPOSED: Cell<u64> = Cell::new(0);
}

fn tracked(uid: u64) -> bool {
    uid != 0 && uid != DEFAULT_UID
}
pub fn note_mk(uid: u64) {
    CONSTRUCTED.with(|c| c.borrow_mut().push(uid));
}
pub fn note_ret(uid: u64) {
    RETURNED.with(|c| c.borrow_mut().push(uid));
    if tracked(uid) {
        GONE.with(|g| g.borrow_mut().insert(uid));
    }
}
/// the most recent destruction of `uid` is taken out of the effects again (the caller reports the value as handed
/// back instead: `GenericWriteStorage::remove` destroys what `Storage::remove` returns)
pub fn unlog_drop(uid: u64) -> bool {
    DROPS.with(|d| {
        let mut d = d.borrow_mut();
        match d.iter().rposition(|&x| x == uid) {
            Some(k) => {
                d.remove(k);
                true
            }
            None => false,
        }
    })
}
/// a value is being looked at: it must not be one that was destroyed or handed back already
pub fn note_seen(uid: u64) {
    if tracked(uid) && GONE.with(|g| g.borrow().contains(&uid)) {
        EXPOSED.with(|e| e.set(e.get() + 1));
    }
}
/// [98, exposed, nC, C.., nR, R..] and reset
pub fn take_ledger() -> Vec<i64> {
    let c = CONSTRUCTED.with(|c| std::mem::take(&mut *c.borrow_mut()));
    let r = RETURNED.with(|c| std::mem::take(&mut *c.borrow_mut()));
    GONE.with(|g| g.borrow_mut().clear());
    let e = EXPOSED.with(|e| e.replace(0));
    let mut o = vec![98, e as i64, c.len() as i64];
    o.extend(c.iter().map(|&u| u as i64));
    o.push(r.len() as i64);
    o.extend(r.iter().map(|&u| u as i64));
    o
}

pub fn log_drop(uid: u64) {
    DROPS.with(|d| d.borrow_mut().push(uid));
    if tracked(uid) {
        GONE.with(|g| g.borrow_mut().insert(uid));
    }
    let k = FAULT.with(|f| f.get());
    if k > 0 {
        FAULT.with(|f| f.set(k - 1));
        if k == 1 && !std::thread::panicking() {
            panic!("armed destructor fault");
        }
    }
}

pub fn take_effects() -> (u64, Vec<u64>) {
    let d = DROPS.with(|d| std::mem::take(&mut *d.borrow_mut()));
    let m = MINTS.with(|m| m.replace(0));
    (m, d)
}

pub trait Tokish: Component + Default + Send + Sync + 'static {
    fn mk(uid: u64, val: i64) -> Self;
    fn uid(&self) -> u64;
    fn val(&self) -> i64;
    fn set_val(&mut self, v: i64);
}

macro_rules! comp {
    ($name:ident, $storage:ty) => {
        comp!($name, $storage, 0);
    };
    // `$pad` extra bytes: components of different sizes (a few are larger than 128 bytes)
    ($name:ident, $storage:ty, $pad:expr) => {
        pub struct $name {
            pub uid: u64,
            pub val: i64,
            pub pad: [u8; $pad],
        }
        impl Drop for $name {
            fn drop(&mut self) {
                log_drop(self.uid);
            }
        }
        impl Default for $name {
            fn default() -> Self {
                MINTS.with(|m| m.set(m.get() + 1));
                $name { uid: DEFAULT_UID, val: 0, pad: [0; $pad] }
            }
        }
        impl Component for $name {
            type Storage = $storage;
        }
        impl Tokish for $name {
            fn mk(uid: u64, val: i64) -> Self {
                note_mk(uid);
                $name { uid, val, pad: [0; $pad] }
            }
            fn uid(&self) -> u64 {
                note_seen(self.uid);
                self.uid
            }
            fn val(&self) -> i64 {
                self.val
            }
            fn set_val(&mut self, v: i64) {
                self.val = v;
            }
        }
    };
}

comp!(CV, VecStorage<Self>);
comp!(CD, DenseVecStorage<Self>);
comp!(CT, DefaultVecStorage<Self>);
comp!(CH, HashMapStorage<Self>, 168);
comp!(CB, BTreeStorage<Self>, 8);
comp!(FV, FlaggedStorage<Self, VecStorage<Self>>);
comp!(FD, FlaggedStorage<Self, DenseVecStorage<Self>>, 136);
comp!(FT, FlaggedStorage<Self, DefaultVecStorage<Self>>);
comp!(FH, FlaggedStorage<Self, HashMapStorage<Self>>);
comp!(FB, FlaggedStorage<Self, BTreeStorage<Self>>, 200);
comp!(GV, DerefFlaggedStorage<Self, VecStorage<Self>>);
comp!(GD, DerefFlaggedStorage<Self, DenseVecStorage<Self>>);
comp!(GT, DerefFlaggedStorage<Self, DefaultVecStorage<Self>>, 144);
comp!(GH, DerefFlaggedStorage<Self, HashMapStorage<Self>>);
comp!(GB, DerefFlaggedStorage<Self, BTreeStorage<Self>>);

/// the zero-sized component of the null storage: uid 0, payload 0
pub struct CZ;
impl Drop for CZ {
    fn drop(&mut self) {
        log_drop(0);
    }
}
impl Default for CZ {
    fn default() -> Self {
        MINTS.with(|m| m.set(m.get() + 1));
        CZ
    }
}
impl Component for CZ {
    type Storage = NullStorage<Self>;
}
impl Tokish for CZ {
    fn mk(_: u64, _: i64) -> Self {
        note_mk(0);
        CZ
    }
    fn uid(&self) -> u64 {
        0
    }
    fn val(&self) -> i64 {
        0
    }
    fn set_val(&mut self, _: i64) {}
}

/// dispatch on the storage id: $f::<T>($($a),*)
#[macro_export]
/// a zero-sized component on a change-tracking storage (FlaggedStorage over NullStorage)
pub struct FZ;
impl Drop for FZ {
    fn drop(&mut self) {
        log_drop(0);
    }
}
impl Default for FZ {
    fn default() -> Self {
        MINTS.with(|m| m.set(m.get() + 1));
        FZ
    }
}
impl Component for FZ {
    type Storage = FlaggedStorage<Self, NullStorage<Self>>;
}
impl Tokish for FZ {
    fn mk(_: u64, _: i64) -> Self {
        note_mk(0);
        FZ
    }
    fn uid(&self) -> u64 {
        0
    }
    fn val(&self) -> i64 {
        0
    }
    fn set_val(&mut self, _: i64) {}
}

/// dispatch on the storage id: $f::<T>($($a),*)
#[macro_export]
/// a zero-sized component on the deferred change-tracking storage
pub struct GZ;
impl Drop for GZ {
    fn drop(&mut self) {
        log_drop(0);
    }
}
impl Default for GZ {
    fn default() -> Self {
        MINTS.with(|m| m.set(m.get() + 1));
        GZ
    }
}
impl Component for GZ {
    type Storage = DerefFlaggedStorage<Self, NullStorage<Self>>;
}
impl Tokish for GZ {
    fn mk(_: u64, _: i64) -> Self {
        note_mk(0);
        GZ
    }
    fn uid(&self) -> u64 {
        0
    }
    fn val(&self) -> i64 {
        0
    }
    fn set_val(&mut self, _: i64) {}
}

/// dispatch on the storage id: $f::<T>($($a),*)
#[macro_export]
macro_rules! by_sid {
    ($sid:expr, $f:ident, $($a:expr),*) => {
        match $sid {
            0 => $f::<$crate::comps::CV>($($a),*),
            1 => $f::<$crate::comps::CD>($($a),*),
            2 => $f::<$crate::comps::CT>($($a),*),
            3 => $f::<$crate::comps::CH>($($a),*),
            4 => $f::<$crate::comps::CB>($($a),*),
            5 => $f::<$crate::comps::CZ>($($a),*),
            6 => $f::<$crate::comps::FV>($($a),*),
            7 => $f::<$crate::comps::FD>($($a),*),
            8 => $f::<$crate::comps::FT>($($a),*),
            9 => $f::<$crate::comps::FH>($($a),*),
            10 => $f::<$crate::comps::FB>($($a),*),
            11 => $f::<$crate::comps::GV>($($a),*),
            12 => $f::<$crate::comps::GD>($($a),*),
            13 => $f::<$crate::comps::GT>($($a),*),
            14 => $f::<$crate::comps::GH>($($a),*),
            15 => $f::<$crate::comps::GB>($($a),*),
            16 => $f::<$crate::comps::FZ>($($a),*),
            17 => $f::<$crate::comps::GZ>($($a),*),
            _ => panic!("bad storage id"),
        }
    };
}

pub fn is_hash_sid(sid: i64) -> bool {
    sid == 3 || sid == 9 || sid == 14
}
pub fn is_tracked_sid(sid: i64) -> bool {
    (6..=17).contains(&sid)
}
