//! The `conc` domain (property C10): the shared-access (`&self`) paths of the
//! allocator and the lazy queue, run by several OS threads.
//!
//! Lock-step mode (`specs-harness conc <cases>`): a deterministic scheduler is
//! installed through the yield hook of /repo (`specs::verif_sched`, compiled
//! with `--cfg specs_verif`).  Every worker blocks at each yield point until
//! the schedule of the case selects it, so exactly one worker runs at a time
//! and the real code executes the interleaving the Coq model
//! (coq/theories/Conc/AtomicLTS.v) executes: one schedule entry = the code
//! between two consecutive yield points = one `tstep` of the model.
//!
//! Case (one line of integers, decoded on the model side by
//! Checkers/ConcChk.v `dec_case`):
//!     nc nd nm  T  n_1 (code arg)*n_1 ... n_T (code arg)*n_T  S s_1 .. s_S
//! op codes: 1 _ create | 2 k delete(initial k) | 3 k delete(own k)
//!           4 k is_alive(initial k) | 5 k is_alive(own k) | 6 q lazy push q
//!
//! Stress mode (`specs-harness conc-stress <file>`, lines
//! `threads ops rounds nfree seed`): no scheduler, real contention; only the
//! property predicate is checked.  Output `1` or `0 <reason>`.
use crate::world_exec::{Exec, Out};
use specs::prelude::*;
use specs::world::EntitiesRes;
use std::cell::Cell;
use std::panic::{catch_unwind, AssertUnwindSafe};
use std::sync::atomic::{AtomicBool, AtomicU8, Ordering};
use std::sync::{Arc, Mutex};

const RUNNING: u8 = 0;
const PARKED: u8 = 1;
const FINISHED: u8 = 2;

thread_local! {
    static TID: Cell<usize> = Cell::new(usize::MAX);
}

struct Sched {
    state: Vec<AtomicU8>,
}

fn spin_until(mut cond: impl FnMut() -> bool) {
    let mut n = 0u32;
    while !cond() {
        n = n.wrapping_add(1);
        if n < 2000 {
            std::hint::spin_loop();
        } else {
            std::thread::yield_now();
        }
    }
}

impl Sched {
    fn new(n: usize) -> Self {
        Sched { state: (0..n).map(|_| AtomicU8::new(RUNNING)).collect() }
    }

    /// worker side: stop here until the controller selects this thread
    fn park(&self, t: usize) {
        self.state[t].store(PARKED, Ordering::Release);
        spin_until(|| self.state[t].load(Ordering::Acquire) == RUNNING);
    }

    /// controller side: let thread `t` run to its next yield point (or to its end)
    fn step(&self, t: usize) {
        self.state[t].store(RUNNING, Ordering::Release);
        spin_until(|| self.state[t].load(Ordering::Acquire) != RUNNING);
    }

    fn get(&self, t: usize) -> u8 {
        self.state[t].load(Ordering::Acquire)
    }
}

/// marks the worker finished even if it unwinds
struct FinishGuard<'a>(&'a Sched, usize);
impl<'a> Drop for FinishGuard<'a> {
    fn drop(&mut self) {
        self.0.state[self.1].store(FINISHED, Ordering::Release);
    }
}

#[derive(Clone, Copy)]
enum Href {
    Init(usize),
    Own(usize),
}

#[derive(Clone, Copy)]
enum Cop {
    Create,
    Delete(Href),
    IsAlive(Href),
    Push(i64),
}

struct Case {
    nc: i64,
    nd: i64,
    nm: i64,
    progs: Vec<Vec<Cop>>,
    sched: Vec<usize>,
}

fn parse_case(x: &[i64]) -> Option<Case> {
    let mut i = 0;
    let mut next = |i: &mut usize| -> Option<i64> {
        let v = x.get(*i).copied();
        *i += 1;
        v
    };
    let nc = next(&mut i)?;
    let nd = next(&mut i)?;
    let nm = next(&mut i)?;
    let t = next(&mut i)?.max(0) as usize;
    let mut progs = Vec::new();
    for _ in 0..t {
        let n = next(&mut i)?.max(0) as usize;
        let mut p = Vec::new();
        for _ in 0..n {
            let code = next(&mut i)?;
            let arg = next(&mut i)?;
            let k = arg.max(0) as usize;
            p.push(match code {
                1 => Cop::Create,
                2 => Cop::Delete(Href::Init(k)),
                3 => Cop::Delete(Href::Own(k)),
                4 => Cop::IsAlive(Href::Init(k)),
                5 => Cop::IsAlive(Href::Own(k)),
                6 => Cop::Push(arg.max(0)),
                _ => return None,
            });
        }
        progs.push(p);
    }
    let s = next(&mut i)?.max(0) as usize;
    if x.len() != i + s {
        return None;
    }
    let sched = x[i..].iter().map(|&v| v.max(0) as usize).collect();
    Some(Case { nc, nd, nm, progs, sched })
}

fn resolve(h: Href, inits: &[Entity], own: &[Entity]) -> Option<Entity> {
    match h {
        Href::Init(k) => inits.get(k).copied(),
        Href::Own(k) => own.get(k).copied(),
    }
}

/// harness-level yield point: the start of an operation that does not begin
/// with a hooked yield (delete, is_alive, push)
fn op_start(sched: Option<&Sched>, t: usize) {
    if let Some(s) = sched {
        s.park(t);
    }
}

/// one worker: returns its flattened outputs and the handles it created
fn run_prog(
    t: usize,
    prog: &[Cop],
    ents: &EntitiesRes,
    lazy: &LazyUpdate,
    inits: &[Entity],
    sched: Option<&Sched>,
    log: &Arc<Mutex<Vec<i64>>>,
) -> (Vec<i64>, Vec<Entity>) {
    let mut out: Vec<i64> = Vec::new();
    let mut own: Vec<Entity> = Vec::new();
    for &op in prog {
        match op {
            Cop::Create => match catch_unwind(AssertUnwindSafe(|| ents.create())) {
                Ok(e) => {
                    own.push(e);
                    out.extend_from_slice(&[1, e.id() as i64, e.gen().id() as i64]);
                }
                Err(_) => out.push(9),
            },
            Cop::Delete(h) => {
                op_start(sched, t);
                match resolve(h, inits, &own) {
                    None => out.push(8),
                    Some(e) => match catch_unwind(AssertUnwindSafe(|| ents.delete(e))) {
                        Ok(Ok(())) => out.extend_from_slice(&[2, e.id() as i64, e.gen().id() as i64, 0]),
                        Ok(Err(w)) => out.extend_from_slice(&[
                            2,
                            e.id() as i64,
                            e.gen().id() as i64,
                            1,
                            w.actual_gen.id() as i64,
                        ]),
                        Err(_) => out.push(9),
                    },
                }
            }
            Cop::IsAlive(h) => {
                op_start(sched, t);
                match resolve(h, inits, &own) {
                    None => out.push(8),
                    Some(e) => match catch_unwind(AssertUnwindSafe(|| ents.is_alive(e))) {
                        Ok(b) => out.extend_from_slice(&[3, e.id() as i64, e.gen().id() as i64, b as i64]),
                        Err(_) => out.push(9),
                    },
                }
            }
            Cop::Push(q) => {
                op_start(sched, t);
                let log = log.clone();
                lazy.exec(move |_w| log.lock().unwrap().push(q));
                out.extend_from_slice(&[4, q]);
            }
        }
    }
    (out, own)
}

fn dump(base: i64, ents: &EntitiesRes, tr: &mut Vec<Out>) {
    let d = ents.verif_dump();
    let mut g: Vec<i64> = d.generations.iter().map(|&x| x as i64).collect();
    while g.last() == Some(&0) {
        g.pop();
    }
    let mut l = vec![base];
    l.extend(g);
    tr.push(l);
    for (k, set) in [&d.alive, &d.raised, &d.killed, &d.cache].iter().enumerate() {
        let mut l = vec![base + 1 + k as i64];
        l.extend(set.iter().map(|&x| x as i64));
        tr.push(l);
    }
    tr.push(vec![base + 5, d.len as i64, d.max_id as i64]);
}

fn ent_list(tag: i64, l: &[Entity]) -> Out {
    let mut o = vec![tag];
    for e in l {
        o.push(e.id() as i64);
        o.push(e.gen().id() as i64);
    }
    o
}

/// the sequential prefix: nc creations, nd deletion requests, nm maintains
fn setup(nc: i64, nd: i64, nm: i64) -> Exec {
    let mut ex = Exec::new();
    ex.step(3, &[nc]);
    for k in 0..nd.max(0) {
        ex.step(12, &[k]);
    }
    for _ in 0..nm.max(0) {
        ex.step(14, &[]);
    }
    ex
}

// ---- persistent workers: spawning a thread per case is far more expensive
// than the case itself, so worker k of the pool runs program k of every case

struct Ptr<T>(*const T);
// the controller keeps the pointee alive until every worker of the case has finished
unsafe impl<T> Send for Ptr<T> {}

struct Job {
    prog: Vec<Cop>,
    ents: Ptr<EntitiesRes>,
    lazy: Ptr<LazyUpdate>,
    inits: Arc<Vec<Entity>>,
    sched: Arc<Sched>,
    log: Arc<Mutex<Vec<i64>>>,
}

struct PoolWorker {
    job: Mutex<Option<Job>>,
    has_job: AtomicBool,
    result: Mutex<Option<(Vec<i64>, Vec<Entity>)>>,
    thread: Mutex<Option<std::thread::Thread>>,
}

static POOL: Mutex<Vec<Arc<PoolWorker>>> = Mutex::new(Vec::new());

fn pool_worker(t: usize) -> Arc<PoolWorker> {
    let mut pool = POOL.lock().unwrap();
    while pool.len() <= t {
        let k = pool.len();
        let w = Arc::new(PoolWorker {
            job: Mutex::new(None),
            has_job: AtomicBool::new(false),
            result: Mutex::new(None),
            thread: Mutex::new(None),
        });
        let w2 = w.clone();
        let h = std::thread::spawn(move || {
            TID.with(|c| c.set(k));
            loop {
                while !w2.has_job.swap(false, Ordering::AcqRel) {
                    std::thread::park();
                }
                let job = w2.job.lock().unwrap().take().expect("job");
                let sched = job.sched.clone();
                let _g = FinishGuard(&sched, k);
                // SAFETY: see `Ptr`
                let (ents, lazy) = unsafe { (&*job.ents.0, &*job.lazy.0) };
                let r = catch_unwind(AssertUnwindSafe(|| {
                    run_prog(k, &job.prog, ents, lazy, &job.inits, Some(&*sched), &job.log)
                }))
                .unwrap_or_else(|_| (vec![9], Vec::new()));
                *w2.result.lock().unwrap() = Some(r);
            }
        });
        *w.thread.lock().unwrap() = Some(h.thread().clone());
        pool.push(w);
    }
    pool[t].clone()
}

pub fn run_case(ints: &[i64]) -> Vec<Out> {
    let case = match parse_case(ints) {
        Some(c) => c,
        None => return vec![vec![99]],
    };
    let mut ex = setup(case.nc, case.nd, case.nm);
    let inits: Arc<Vec<Entity>> = Arc::new(ex.st.hs.clone());
    let n = case.progs.len();
    let sched = Arc::new(Sched::new(n));
    let log: Arc<Mutex<Vec<i64>>> = Arc::new(Mutex::new(Vec::new()));
    let mut tr: Vec<Out> = Vec::new();
    let mut results: Vec<(Vec<i64>, Vec<Entity>)> = Vec::new();
    {
        let ents = ex.world.entities();
        let lazy = ex.world.read_resource::<LazyUpdate>();
        let ents: &EntitiesRes = &ents;
        let lazy: &LazyUpdate = &lazy;
        let cb_sched = sched.clone();
        specs::verif_sched::install(Arc::new(move |point: u32| {
            let t = TID.with(|c| c.get());
            if t == usize::MAX {
                return; // not a worker (setup, maintain)
            }
            // two hooked yield points with no shared access between them and
            // the next one are passed through: the load of max_id follows
            // DEC_AFTER_CAS directly, raised.add follows INC_AFTER_CAS directly
            if point == specs::verif_sched::INC_BEFORE_LOAD || point == specs::verif_sched::INC_AFTER_CAS {
                return;
            }
            cb_sched.park(t);
        }));
        let workers: Vec<Arc<PoolWorker>> = (0..n).map(pool_worker).collect();
        for (t, prog) in case.progs.iter().enumerate() {
            *workers[t].job.lock().unwrap() = Some(Job {
                prog: prog.clone(),
                ents: Ptr(ents as *const EntitiesRes),
                lazy: Ptr(lazy as *const LazyUpdate),
                inits: inits.clone(),
                sched: sched.clone(),
                log: log.clone(),
            });
            workers[t].has_job.store(true, Ordering::Release);
            if let Some(th) = workers[t].thread.lock().unwrap().as_ref() {
                th.unpark();
            }
        }
        // every worker stops at its first yield point (or has nothing to do)
        for t in 0..n {
            spin_until(|| sched.get(t) != RUNNING);
        }
        for &t in &case.sched {
            if t < n && sched.get(t) == PARKED {
                sched.step(t);
            }
        }
        // run the unfinished workers to completion, lowest index first
        while let Some(t) = (0..n).find(|&t| sched.get(t) != FINISHED) {
            sched.step(t);
        }
        for w in &workers {
            results.push(w.result.lock().unwrap().take().unwrap_or_else(|| (vec![9], Vec::new())));
        }
        specs::verif_sched::uninstall();
        for (t, (out, _)) in results.iter().enumerate() {
            let mut l = vec![20, t as i64];
            l.extend(out.iter().copied());
            tr.push(l);
        }
        tr.push(vec![21, 1, 0]);
        dump(30, ents, &mut tr);
    }
    let maintained = catch_unwind(AssertUnwindSafe(|| ex.world.maintain()));
    if maintained.is_err() {
        tr.push(vec![9]);
        std::mem::forget(ex);
        return tr;
    }
    let ents = ex.world.entities();
    dump(40, &ents, &mut tr);
    let joined: Vec<Entity> = (&ents).join().collect();
    tr.push(ent_list(46, &joined));
    let mut l = vec![47];
    l.extend(log.lock().unwrap().iter().copied());
    tr.push(l);
    let mut l = vec![48];
    for e in inits.iter().chain(results.iter().flat_map(|r| r.1.iter())) {
        l.push(ents.is_alive(*e) as i64);
    }
    tr.push(l);
    tr.push(vec![49, 0]);
    tr
}

// ------------------------------------------------------------------ stress

struct Rng(u64);
impl Rng {
    fn next(&mut self) -> u64 {
        // xorshift64*
        self.0 ^= self.0 >> 12;
        self.0 ^= self.0 << 25;
        self.0 ^= self.0 >> 27;
        self.0.wrapping_mul(0x2545F4914F6CDD1D)
    }
    fn below(&mut self, n: u64) -> u64 {
        (self.next() >> 33) % n.max(1)
    }
}

/// `threads ops rounds nfree seed`: in every round each thread runs `ops`
/// random operations on real threads (creations, deletion requests and
/// is_alive for its own handles and for handles alive at the start of the
/// round, lazy pushes); after the round's maintain the C10 predicate is
/// evaluated.
pub fn run_stress(ints: &[i64]) -> Vec<Out> {
    if ints.len() < 5 {
        return vec![vec![99]];
    }
    let (nthreads, nops, rounds, nfree, seed) =
        (ints[0].max(1) as usize, ints[1].max(0) as usize, ints[2].max(1) as usize, ints[3].max(0), ints[4]);
    let mut ex = setup(nfree, nfree, 1);
    let mut fail: Option<i64> = None;
    let mut total_ops: i64 = 0;
    let mut total_created: i64 = 0;
    let mut reused: i64 = 0;
    let log: Arc<Mutex<Vec<i64>>> = Arc::new(Mutex::new(Vec::new()));
    for round in 0..rounds {
        let alive0: Vec<Entity> = (&ex.world.entities()).join().collect();
        log.lock().unwrap().clear();
        // programs: thread t may delete the initial handles  k = t mod nthreads
        let mut progs: Vec<Vec<Cop>> = Vec::new();
        for t in 0..nthreads {
            let mut rng = Rng((seed as u64) ^ ((round as u64) << 32) ^ ((t as u64 + 1) * 0x9E3779B97F4A7C15));
            let mut p = Vec::new();
            let mut created = 0usize;
            let mut pushes = 0i64;
            let mine0: Vec<usize> = (0..alive0.len()).filter(|k| k % nthreads == t).collect();
            for _ in 0..nops {
                let r = rng.below(100);
                if r < 50 || (created == 0 && r < 70) {
                    p.push(Cop::Create);
                    created += 1;
                } else if r < 65 && created > 0 {
                    p.push(Cop::Delete(Href::Own(rng.below(created as u64) as usize)));
                } else if r < 75 && !mine0.is_empty() {
                    p.push(Cop::Delete(Href::Init(mine0[rng.below(mine0.len() as u64) as usize])));
                } else if r < 85 && created > 0 {
                    p.push(Cop::IsAlive(Href::Own(rng.below(created as u64) as usize)));
                } else if r < 90 && !mine0.is_empty() {
                    p.push(Cop::IsAlive(Href::Init(mine0[rng.below(mine0.len() as u64) as usize])));
                } else {
                    p.push(Cop::Push((t as i64) * 1_000_000_000 + pushes));
                    pushes += 1;
                }
            }
            progs.push(p);
        }
        let mut results: Vec<(Vec<i64>, Vec<Entity>)> = Vec::new();
        {
            let ents = ex.world.entities();
            let lazy = ex.world.read_resource::<LazyUpdate>();
            let ents: &EntitiesRes = &ents;
            let lazy: &LazyUpdate = &lazy;
            let barrier = std::sync::Barrier::new(nthreads);
            std::thread::scope(|scope| {
                let mut handles = Vec::new();
                for (t, prog) in progs.iter().enumerate() {
                    let alive0 = &alive0;
                    let log = &log;
                    let barrier = &barrier;
                    handles.push(scope.spawn(move || {
                        barrier.wait();
                        run_prog(t, prog, ents, lazy, alive0, None, log)
                    }));
                }
                for h in handles {
                    results.push(h.join().unwrap_or_else(|_| (vec![9], Vec::new())));
                }
            });
        }
        if catch_unwind(AssertUnwindSafe(|| ex.world.maintain())).is_err() {
            std::mem::forget(ex);
            return vec![vec![0, 1, round as i64]];
        }
        // ---- the predicate
        use std::collections::HashSet;
        let key = |e: &Entity| (e.id(), e.gen().id());
        let alive0_set: HashSet<(u32, i32)> = alive0.iter().map(key).collect();
        let mut created: HashSet<(u32, i32)> = HashSet::new();
        let mut requested: HashSet<(u32, i32)> = HashSet::new();
        let mut pushes_all: Vec<Vec<i64>> = Vec::new();
        for (out, own) in &results {
            let own_set: HashSet<(u32, i32)> = own.iter().map(key).collect();
            total_created += own.len() as i64;
            for e in own {
                if e.gen().id() > 1 {
                    reused += 1;
                }
                if !created.insert(key(e)) || alive0_set.contains(&key(e)) {
                    fail.get_or_insert(2); // a handle was returned twice
                }
            }
            let mut pushes = Vec::new();
            let mut i = 0;
            while i < out.len() {
                total_ops += 1;
                match out[i] {
                    1 => i += 3,
                    2 => {
                        let e = (out[i + 1] as u32, out[i + 2] as i32);
                        let live = own_set.contains(&e) || alive0_set.contains(&e);
                        if out[i + 3] == 0 {
                            requested.insert(e);
                            i += 4;
                        } else {
                            if live {
                                fail.get_or_insert(3); // deletion of a live handle failed
                            }
                            i += 5;
                        }
                    }
                    3 => {
                        let e = (out[i + 1] as u32, out[i + 2] as i32);
                        if (own_set.contains(&e) || alive0_set.contains(&e)) && out[i + 3] == 0 {
                            fail.get_or_insert(4); // a live handle reported dead
                        }
                        i += 4;
                    }
                    4 => {
                        pushes.push(out[i + 1]);
                        i += 2;
                    }
                    8 => i += 1,
                    _ => {
                        fail.get_or_insert(5); // panic
                        break;
                    }
                }
            }
            pushes_all.push(pushes);
        }
        let after: HashSet<(u32, i32)> = (&ex.world.entities()).join().map(|e| key(&e)).collect();
        let expect: HashSet<(u32, i32)> =
            alive0_set.union(&created).filter(|e| !requested.contains(e)).copied().collect();
        if after != expect {
            fail.get_or_insert(6); // alive set after maintain
        }
        let ran = log.lock().unwrap().clone();
        let npush: usize = pushes_all.iter().map(|p| p.len()).sum();
        if ran.len() != npush {
            fail.get_or_insert(7);
        }
        for (t, p) in pushes_all.iter().enumerate() {
            let mine: Vec<i64> = ran.iter().copied().filter(|q| q / 1_000_000_000 == t as i64).collect();
            if &mine != p {
                fail.get_or_insert(7); // a queued action lost, duplicated or reordered
            }
        }
        if fail.is_some() {
            return vec![vec![0, fail.unwrap(), round as i64]];
        }
    }
    vec![vec![1, total_ops, total_created, reused]]
}
