//! The `dispatch` domain (property C11): what the storage handles declare and
//! borrow, how shred's `DispatcherBuilder` stages a system graph, and what a
//! real parallel dispatch does.
//!
//! history ops (code n x1..xn), see coq/theories/Checkers/DispatchChk.v:
//!   1 system:  time nh h1..hnh d1..dnd     2 barrier
//!   3 run:     threads rounds              4 probe: h
//! handle codes: 0 Entities, 1 Read<LazyUpdate>, 10+t ReadStorage<C_t>, 20+t WriteStorage<C_t>
//! resource codes: 0 EntitiesRes, 1 LazyUpdate, 10+t MaskedStorage<C_t>, 99 anything else
//!
//! The systems are instances of one struct with a *dynamic* accessor
//! (shred's `Accessor` / `DynamicSystemData`): its `reads()`/`writes()` are the
//! concatenation of the real `SystemData::reads()/writes()` of its handles and
//! its `fetch` calls the real `SystemData::fetch` of each handle in order,
//! exactly as shred's tuple impls do for a statically typed tuple.
use specs::prelude::*;
use specs::shred::{Accessor, AccessorCow, DynamicSystemData, Resource, ResourceId, RunningTime};
use specs::storage::MaskedStorage;
use specs::world::EntitiesRes;
use std::collections::HashMap;
use std::panic::{catch_unwind, AssertUnwindSafe};
use std::sync::atomic::{AtomicI64, Ordering};
use std::sync::{Arc, Mutex};

pub type Out = Vec<i64>;

#[derive(Default, Clone, Copy)]
pub struct C0(pub u32);
#[derive(Default, Clone, Copy)]
pub struct C1(pub u32);
#[derive(Default, Clone, Copy)]
pub struct C2(pub u32);
#[derive(Default, Clone, Copy)]
pub struct C3(pub u32);
/// zero-sized: a marker component in a `NullStorage` (its readers and writers must be staged like any other)
#[derive(Default, Clone, Copy)]
pub struct C4;
#[derive(Default, Clone, Copy)]
pub struct C5(pub u32);
impl Component for C0 { type Storage = VecStorage<Self>; }
impl Component for C1 { type Storage = DenseVecStorage<Self>; }
impl Component for C2 { type Storage = HashMapStorage<Self>; }
impl Component for C3 { type Storage = DefaultVecStorage<Self>; }
impl Component for C4 { type Storage = NullStorage<Self>; }
impl Component for C5 { type Storage = specs::storage::BTreeStorage<Self>; }
/// tracked storages: reading one (also reading its events) is a read, and is staged as a read
#[derive(Default, Clone, Copy)]
pub struct C6(pub u32);
#[derive(Default, Clone, Copy)]
pub struct C7(pub u32);
impl Component for C6 { type Storage = specs::storage::FlaggedStorage<Self, VecStorage<Self>>; }
impl Component for C7 { type Storage = specs::storage::DerefFlaggedStorage<Self, DenseVecStorage<Self>>; }

trait Val {
    fn val(&self) -> u64;
    fn bump(&mut self);
}
macro_rules! val_u32 {
    ($($t:ident),*) => {$(
        impl Val for $t {
            fn val(&self) -> u64 { self.0 as u64 }
            fn bump(&mut self) { self.0 = self.0.wrapping_add(1); }
        }
    )*};
}
val_u32!(C0, C1, C2, C3, C5, C6, C7);
impl Val for C4 {
    fn val(&self) -> u64 { 1 }
    fn bump(&mut self) {}
}

const NCOMP: usize = 8;

#[derive(Clone, Copy, Debug, PartialEq)]
enum H {
    Ent,
    Lazy,
    R(u8),
    W(u8),
}

fn dec_handle(c: i64) -> Option<H> {
    match c {
        0 => Some(H::Ent),
        1 => Some(H::Lazy),
        10..=17 => Some(H::R((c - 10) as u8)),
        20..=27 => Some(H::W((c - 20) as u8)),
        _ => None,
    }
}

fn enc_handle(h: H) -> i64 {
    match h {
        H::Ent => 0,
        H::Lazy => 1,
        H::R(t) => 10 + t as i64,
        H::W(t) => 20 + t as i64,
    }
}

macro_rules! with_comp {
    ($t:expr, $C:ident => $body:expr) => {
        match $t {
            0 => { type $C = C0; $body }
            1 => { type $C = C1; $body }
            2 => { type $C = C2; $body }
            3 => { type $C = C3; $body }
            4 => { type $C = C4; $body }
            5 => { type $C = C5; $body }
            6 => { type $C = C6; $body }
            7 => { type $C = C7; $body }
            _ => unreachable!(),
        }
    };
}

/// canonical, TypeId-independent name of a resource id
fn res_code(id: &ResourceId) -> i64 {
    if *id == ResourceId::new::<EntitiesRes>() {
        return 0;
    }
    if *id == ResourceId::new::<LazyUpdate>() {
        return 1;
    }
    for t in 0..NCOMP {
        let r = with_comp!(t, C => ResourceId::new::<MaskedStorage<C>>());
        if *id == r {
            return 10 + t as i64;
        }
    }
    99
}

/// the real `SystemData::reads()` / `writes()` of a handle
fn real_reads(h: H) -> Vec<ResourceId> {
    match h {
        H::Ent => <Entities as SystemData>::reads(),
        H::Lazy => <Read<LazyUpdate> as SystemData>::reads(),
        H::R(t) => with_comp!(t, C => <ReadStorage<C> as SystemData>::reads()),
        H::W(t) => with_comp!(t, C => <WriteStorage<C> as SystemData>::reads()),
    }
}

fn real_writes(h: H) -> Vec<ResourceId> {
    match h {
        H::Ent => <Entities as SystemData>::writes(),
        H::Lazy => <Read<LazyUpdate> as SystemData>::writes(),
        H::R(t) => with_comp!(t, C => <ReadStorage<C> as SystemData>::writes()),
        H::W(t) => with_comp!(t, C => <WriteStorage<C> as SystemData>::writes()),
    }
}

fn real_setup(h: H, world: &mut World) {
    match h {
        H::Ent => <Entities as SystemData>::setup(world),
        H::Lazy => <Read<LazyUpdate> as SystemData>::setup(world),
        H::R(t) => with_comp!(t, C => <ReadStorage<C> as SystemData>::setup(world)),
        H::W(t) => with_comp!(t, C => <WriteStorage<C> as SystemData>::setup(world)),
    }
}

enum Item<'a> {
    Ent(Entities<'a>),
    Lazy(Read<'a, LazyUpdate>),
    R0(ReadStorage<'a, C0>),
    R1(ReadStorage<'a, C1>),
    R2(ReadStorage<'a, C2>),
    R3(ReadStorage<'a, C3>),
    R4(ReadStorage<'a, C4>),
    R5(ReadStorage<'a, C5>),
    R6(ReadStorage<'a, C6>),
    R7(ReadStorage<'a, C7>),
    W0(WriteStorage<'a, C0>),
    W1(WriteStorage<'a, C1>),
    W2(WriteStorage<'a, C2>),
    W3(WriteStorage<'a, C3>),
    W4(WriteStorage<'a, C4>),
    W5(WriteStorage<'a, C5>),
    W6(WriteStorage<'a, C6>),
    W7(WriteStorage<'a, C7>),
}

/// the real `SystemData::fetch` of a handle
fn real_fetch<'a>(h: H, w: &'a World) -> Item<'a> {
    match h {
        H::Ent => Item::Ent(SystemData::fetch(w)),
        H::Lazy => Item::Lazy(SystemData::fetch(w)),
        H::R(0) => Item::R0(SystemData::fetch(w)),
        H::R(1) => Item::R1(SystemData::fetch(w)),
        H::R(2) => Item::R2(SystemData::fetch(w)),
        H::R(3) => Item::R3(SystemData::fetch(w)),
        H::R(4) => Item::R4(SystemData::fetch(w)),
        H::R(5) => Item::R5(SystemData::fetch(w)),
        H::R(6) => Item::R6(SystemData::fetch(w)),
        H::R(7) => Item::R7(SystemData::fetch(w)),
        H::W(0) => Item::W0(SystemData::fetch(w)),
        H::W(1) => Item::W1(SystemData::fetch(w)),
        H::W(2) => Item::W2(SystemData::fetch(w)),
        H::W(3) => Item::W3(SystemData::fetch(w)),
        H::W(4) => Item::W4(SystemData::fetch(w)),
        H::W(5) => Item::W5(SystemData::fetch(w)),
        H::W(6) => Item::W6(SystemData::fetch(w)),
        H::W(7) => Item::W7(SystemData::fetch(w)),
        _ => unreachable!(),
    }
}

macro_rules! touch_read {
    ($s:expr) => {{
        let mut acc = 0u64;
        for c in ($s).join() {
            acc = acc.wrapping_add(c.val());
        }
        acc
    }};
}
macro_rules! touch_write {
    ($s:expr) => {{
        let mut acc = 0u64;
        for c in ($s).join() {
            c.bump();
            acc = acc.wrapping_add(c.val());
        }
        acc
    }};
}
/// a storage that only lends its mutable items (DerefFlaggedStorage: the item writes to the channel on deref_mut)
macro_rules! touch_write_lend {
    ($s:expr) => {{
        let mut acc = 0u64;
        let mut j = ($s).lend_join();
        while let Some(mut c) = j.next() {
            c.bump();
            acc = acc.wrapping_add(c.val());
        }
        acc
    }};
}

impl<'a> Item<'a> {
    /// really use the handle: read every component / bump every component
    fn touch(&mut self) -> u64 {
        match self {
            // really use the shared handles, as systems do: creations and deletion requests through the entities
            // resource (the free list is not empty, see `populate`), and queued lazy updates
            Item::Ent(e) => {
                let n = (&**e).join().count() as u64;
                for _ in 0..8 {
                    let x = e.create();
                    let _ = e.delete(x);
                }
                // bulk creation, with a direct creation while the iterator is alive
                let mut it = e.create_iter();
                let a = it.next().unwrap();
                let b = e.create();
                let c = it.next().unwrap();
                drop(it);
                for x in [a, b, c] {
                    let _ = e.delete(x);
                }
                n
            }
            Item::Lazy(l) => {
                for _ in 0..24 {
                    l.exec(|_| {});
                }
                0
            }
            Item::R0(s) => touch_read!(&*s),
            Item::R1(s) => touch_read!(&*s),
            Item::R2(s) => touch_read!(&*s),
            Item::R3(s) => touch_read!(&*s),
            Item::R4(s) => touch_read!(&*s),
            Item::R5(s) => touch_read!(&*s),
            Item::R6(s) => touch_read!(&*s),
            Item::R7(s) => touch_read!(&*s),
            Item::W0(s) => touch_write!(&mut *s),
            Item::W1(s) => touch_write!(&mut *s),
            Item::W2(s) => touch_write!(&mut *s),
            Item::W3(s) => touch_write!(&mut *s),
            Item::W4(s) => touch_write!(&mut *s),
            Item::W5(s) => touch_write!(&mut *s),
            Item::W6(s) => touch_write!(&mut *s),
            Item::W7(s) => touch_write_lend!(&mut *s),
        }
    }
}

// ------------------------------------------------------------------ the dynamic system

struct DynAcc {
    hs: Vec<H>,
}

impl Accessor for DynAcc {
    fn try_new() -> Option<Self> {
        None
    }
    // as shred's impl_data!: the concatenation over the tuple's members
    fn reads(&self) -> Vec<ResourceId> {
        let mut r = Vec::new();
        for h in &self.hs {
            r.append(&mut real_reads(*h));
        }
        r
    }
    fn writes(&self) -> Vec<ResourceId> {
        let mut r = Vec::new();
        for h in &self.hs {
            r.append(&mut real_writes(*h));
        }
        r
    }
}

struct DynData<'a> {
    items: Vec<Item<'a>>,
}

impl<'a> DynamicSystemData<'a> for DynData<'a> {
    type Accessor = DynAcc;

    fn setup(acc: &DynAcc, world: &mut World) {
        for h in &acc.hs {
            real_setup(*h, world);
        }
    }

    fn fetch(acc: &DynAcc, world: &'a World) -> Self {
        let mut items = Vec::with_capacity(acc.hs.len());
        for h in &acc.hs {
            items.push(real_fetch(*h, world));
        }
        DynData { items }
    }
}

/// index into the counters: 0 EntitiesRes, 1 LazyUpdate, 2+t storage t
const NRES: usize = 2 + NCOMP;

struct Shared {
    readers: [AtomicI64; NRES],
    writers: [AtomicI64; NRES],
    violations: AtomicI64,
    log: Mutex<Vec<i64>>,
}

impl Shared {
    fn new() -> Self {
        Shared {
            readers: Default::default(),
            writers: Default::default(),
            violations: AtomicI64::new(0),
            log: Mutex::new(Vec::new()),
        }
    }
}

/// what a handle really holds while it is alive (by its kind, not by what it declares)
fn held(h: H) -> Vec<(usize, bool)> {
    match h {
        H::Ent => vec![(0, false)],
        H::Lazy => vec![(1, false)],
        H::R(t) => vec![(0, false), (2 + t as usize, false)],
        H::W(t) => vec![(0, false), (2 + t as usize, true)],
    }
}

struct Sys {
    id: usize,
    acc: DynAcc,
    time: u8,
    shared: Arc<Shared>,
}

impl<'a> System<'a> for Sys {
    type SystemData = DynData<'a>;

    fn run(&mut self, mut data: DynData<'a>) {
        let sh = &*self.shared;
        let mut bad = 0;
        for h in &self.acc.hs {
            for (i, w) in held(*h) {
                if w {
                    let prev = sh.writers[i].fetch_add(1, Ordering::SeqCst);
                    if prev != 0 || sh.readers[i].load(Ordering::SeqCst) != 0 {
                        bad += 1;
                    }
                } else {
                    sh.readers[i].fetch_add(1, Ordering::SeqCst);
                    if sh.writers[i].load(Ordering::SeqCst) != 0 {
                        bad += 1;
                    }
                }
            }
        }
        sh.log.lock().unwrap().push(self.id as i64 + 1);
        let mut acc = 0u64;
        for it in data.items.iter_mut() {
            acc = acc.wrapping_add(it.touch());
        }
        // stay inside for a while so that groups really overlap
        for _ in 0..(self.time as usize * 3) {
            std::thread::yield_now();
        }
        std::hint::black_box(acc);
        sh.log.lock().unwrap().push(-(self.id as i64 + 1));
        for h in &self.acc.hs {
            for (i, w) in held(*h) {
                if w {
                    sh.writers[i].fetch_sub(1, Ordering::SeqCst);
                } else {
                    sh.readers[i].fetch_sub(1, Ordering::SeqCst);
                }
            }
        }
        if bad != 0 {
            sh.violations.fetch_add(bad, Ordering::SeqCst);
        }
        // `data` (the real storages) is dropped here, after the bookkeeping
    }

    fn running_time(&self) -> RunningTime {
        match self.time {
            1 => RunningTime::VeryShort,
            2 => RunningTime::Short,
            3 => RunningTime::Average,
            4 => RunningTime::Long,
            _ => RunningTime::VeryLong,
        }
    }

    fn accessor<'b>(&'b self) -> AccessorCow<'a, 'b, Self> {
        AccessorCow::Ref(&self.acc)
    }
}

// ------------------------------------------------------------------ ops

enum Op {
    Sys { time: u8, hs: Vec<H>, deps: Vec<i64> },
    Barrier,
    Run { threads: usize, rounds: usize },
    Probe(H),
    Bad,
}

fn decode(ints: &[i64]) -> Vec<Op> {
    let mut ops = Vec::new();
    let mut i = 0;
    while i < ints.len() {
        if i + 1 >= ints.len() {
            ops.push(Op::Bad);
            break;
        }
        let code = ints[i];
        let n = ints[i + 1].max(0) as usize;
        if i + 2 + n > ints.len() {
            ops.push(Op::Bad);
            break;
        }
        let p = &ints[i + 2..i + 2 + n];
        i += 2 + n;
        ops.push(match (code, p.len()) {
            (1, k) if k >= 2 => {
                let nh = p[1].max(0) as usize;
                if 2 + nh > p.len() {
                    Op::Bad
                } else {
                    let hs: Option<Vec<H>> = p[2..2 + nh].iter().map(|c| dec_handle(*c)).collect();
                    match hs {
                        Some(hs) => Op::Sys { time: p[0].clamp(1, 5) as u8, hs, deps: p[2 + nh..].to_vec() },
                        None => Op::Bad,
                    }
                }
            }
            (2, 0) => Op::Barrier,
            (3, 2) => Op::Run { threads: p[0].clamp(1, 64) as usize, rounds: p[1].clamp(0, 1000) as usize },
            (4, 1) => match dec_handle(p[0]) {
                Some(h) => Op::Probe(h),
                None => Op::Bad,
            },
            _ => Op::Bad,
        });
    }
    ops
}

/// canonical codes, sorted: the order of reads()/writes() means nothing
fn codes(ids: &[ResourceId]) -> Vec<i64> {
    let mut v: Vec<i64> = ids.iter().map(res_code).collect();
    v.sort();
    v
}

fn new_world() -> World {
    let mut world = World::new();
    for t in 0..NCOMP {
        real_setup(H::R(t as u8), &mut world);
    }
    world
}

fn populate(world: &mut World) {
    // some indices on the free list from the start
    let spare: Vec<Entity> = (0..12).map(|_| world.create_entity().build()).collect();
    for k in 0..24u32 {
        let mut b = world.create_entity();
        if k % 2 == 0 { b = b.with(C0(k)); }
        if k % 3 == 0 { b = b.with(C1(k)); }
        if k % 4 == 1 { b = b.with(C2(k)); }
        if k % 5 != 0 { b = b.with(C3(k)); }
        if k % 2 == 1 { b = b.with(C4); }
        if k % 7 < 3 { b = b.with(C5(k)); }
        if k % 3 != 1 { b = b.with(C6(k)); }
        if k % 4 != 2 { b = b.with(C7(k)); }
        b.build();
    }
    world.delete_entities(&spare).unwrap();
    world.maintain();
}

fn probe_res<T: Resource>(w: &World) -> i64 {
    if catch_unwind(AssertUnwindSafe(|| {
        let _g = w.fetch_mut::<T>();
    }))
    .is_ok()
    {
        0
    } else if catch_unwind(AssertUnwindSafe(|| {
        let _g = w.fetch::<T>();
    }))
    .is_ok()
    {
        1
    } else {
        2
    }
}

/// declaration of a handle + the borrow flags actually set while it is alive
fn probe(h: H) -> Out {
    let r = catch_unwind(|| {
        let world = new_world();
        let mut o = vec![6, enc_handle(h)];
        let reads = codes(&real_reads(h));
        let writes = codes(&real_writes(h));
        o.push(reads.len() as i64);
        o.extend(reads);
        o.push(writes.len() as i64);
        o.extend(writes);
        let data = real_fetch(h, &world);
        o.extend([0, probe_res::<EntitiesRes>(&world)]);
        o.extend([1, probe_res::<LazyUpdate>(&world)]);
        for t in 0..NCOMP {
            let s = with_comp!(t, C => probe_res::<MaskedStorage<C>>(&world));
            o.extend([10 + t as i64, s]);
        }
        // a handle declares nothing about the table of storages, so it must not hold it either
        let meta = probe_res::<specs::shred::MetaTable<dyn specs::storage::AnyStorage>>(&world);
        drop(data);
        // nothing may stay borrowed once the handle is gone
        let mut left = 0;
        left += probe_res::<EntitiesRes>(&world);
        left += probe_res::<LazyUpdate>(&world);
        for t in 0..NCOMP {
            left += with_comp!(t, C => probe_res::<MaskedStorage<C>>(&world));
        }
        if left != 0 {
            o.push(-1);
        }
        if meta != 0 {
            o.push(-2);
        }
        // ... not even for an instant: fetching while someone else holds the table exclusively must work
        {
            let g = world.fetch_mut::<specs::shred::MetaTable<dyn specs::storage::AnyStorage>>();
            let ok = catch_unwind(AssertUnwindSafe(|| {
                let d = real_fetch(h, &world);
                drop(d);
            }))
            .is_ok();
            drop(g);
            if !ok {
                o.push(-3);
            }
        }
        o
    });
    r.unwrap_or_else(|_| vec![9])
}

struct Graph {
    items: Vec<GItem>,
}
enum GItem {
    Sys { id: usize, time: u8, hs: Vec<H>, deps: Vec<i64> },
    Barrier,
}

fn builder_of<'a>(g: &Graph, shared: &Arc<Shared>) -> DispatcherBuilder<'a, 'a> {
    let mut b = DispatcherBuilder::new();
    for it in &g.items {
        match it {
            GItem::Sys { id, time, hs, deps } => {
                let names: Vec<String> = deps.iter().map(|d| format!("s{}", d)).collect();
                let refs: Vec<&str> = names.iter().map(|s| s.as_str()).collect();
                b.add(
                    Sys { id: *id, acc: DynAcc { hs: hs.clone() }, time: *time, shared: shared.clone() },
                    &format!("s{}", id),
                    &refs,
                );
            }
            GItem::Barrier => b.add_barrier(),
        }
    }
    b
}

/// parse the `Debug` output of DispatcherBuilder (seq![ par![ seq![ name, .. ], .. ], .. ])
fn parse_tree(txt: &str) -> Option<Vec<Vec<Vec<i64>>>> {
    let mut stages: Vec<Vec<Vec<i64>>> = Vec::new();
    let mut depth = 0;
    for line in txt.lines() {
        let t = line.trim();
        if t.is_empty() {
            continue;
        }
        match (t, depth) {
            ("seq![", 0) => depth = 1,
            ("par![", 1) => {
                stages.push(Vec::new());
                depth = 2;
            }
            ("seq![", 2) => {
                stages.last_mut()?.push(Vec::new());
                depth = 3;
            }
            ("],", 3) => depth = 2,
            ("],", 2) => depth = 1,
            ("]", 1) => depth = 0,
            (name, 3) => {
                let n = name.trim_end_matches(',').strip_prefix('s')?.parse::<i64>().ok()?;
                stages.last_mut()?.last_mut()?.push(n);
            }
            _ => return None,
        }
    }
    if depth == 0 { Some(stages) } else { None }
}

fn pool(threads: usize) -> Arc<specs::rayon::ThreadPool> {
    thread_local! {
        static POOLS: std::cell::RefCell<HashMap<usize, Arc<specs::rayon::ThreadPool>>> =
            std::cell::RefCell::new(HashMap::new());
    }
    POOLS.with(|p| {
        p.borrow_mut()
            .entry(threads)
            .or_insert_with(|| {
                Arc::new(specs::rayon::ThreadPoolBuilder::new().num_threads(threads).build().expect("pool"))
            })
            .clone()
    })
}

pub fn run_history(ints: &[i64]) -> Vec<Out> {
    let ops = decode(ints);
    let mut out: Vec<Out> = Vec::new();
    if ops.iter().any(|o| matches!(o, Op::Bad)) {
        return vec![vec![9]];
    }
    let mut g = Graph { items: Vec::new() };
    let mut runs: Vec<(usize, usize)> = Vec::new();
    let mut next = 0usize;
    for o in ops {
        match o {
            Op::Probe(h) => out.push(probe(h)),
            Op::Sys { time, hs, deps } => {
                g.items.push(GItem::Sys { id: next, time, hs, deps });
                next += 1;
            }
            Op::Barrier => g.items.push(GItem::Barrier),
            Op::Run { threads, rounds } => runs.push((threads, rounds)),
            Op::Bad => {}
        }
    }
    if g.items.is_empty() {
        return out;
    }
    // (b) the stage/group tree and the accessor declarations
    let shared = Arc::new(Shared::new());
    let built = catch_unwind(AssertUnwindSafe(|| {
        let b = builder_of(&g, &shared);
        format!("{:?}", b)
    }));
    let txt = match built {
        Ok(t) => t,
        Err(_) => {
            out.push(vec![9]);
            return out;
        }
    };
    match parse_tree(&txt) {
        Some(stages) => {
            let mut o = vec![1, stages.len() as i64];
            for st in &stages {
                o.push(st.len() as i64);
                for grp in st {
                    o.push(grp.len() as i64);
                    o.extend(grp.iter().copied());
                }
            }
            out.push(o);
        }
        None => out.push(vec![1, -1]),
    }
    for it in &g.items {
        if let GItem::Sys { id, hs, .. } = it {
            let acc = DynAcc { hs: hs.clone() };
            let r = codes(&acc.reads());
            let w = codes(&acc.writes());
            let mut o = vec![2, *id as i64, r.len() as i64];
            o.extend(r);
            o.push(w.len() as i64);
            o.extend(w);
            out.push(o);
        }
    }
    // (c) real dispatches
    let mut dispatches = 0i64;
    let mut panics = 0i64;
    let mut violations = 0i64;
    for (threads, rounds) in runs {
        let shared = Arc::new(Shared::new());
        let res = catch_unwind(AssertUnwindSafe(|| {
            let mut world = World::new();
            let mut d = builder_of(&g, &shared).with_pool(pool(threads)).build();
            // the dispatcher's own setup registers what its systems name ...
            d.setup(&mut world);
            // ... the remaining component types are registered only to fill the world
            for t in 0..NCOMP {
                real_setup(H::R(t as u8), &mut world);
            }
            populate(&mut world);
            let mut logs = Vec::new();
            let mut local_panics = 0;
            for round in 0..rounds {
                shared.log.lock().unwrap().clear();
                let r = catch_unwind(AssertUnwindSafe(|| d.dispatch(&world)));
                let log = match shared.log.lock() {
                    Ok(l) => l.clone(),
                    Err(p) => p.into_inner().clone(),
                };
                let mut o = vec![4, threads as i64, round as i64, log.len() as i64];
                o.extend(log);
                logs.push(o);
                if r.is_err() {
                    local_panics += 1;
                    break;
                }
                world.maintain();
            }
            (logs, local_panics)
        }));
        match res {
            Ok((logs, p)) => {
                dispatches += logs.len() as i64;
                panics += p;
                out.extend(logs);
            }
            Err(_) => panics += 1,
        }
        violations += shared.violations.load(Ordering::SeqCst);
    }
    out.push(vec![5, dispatches, violations, panics]);
    if panics > 0 {
        out.push(vec![9]);
    }
    out
}
