//! The hierarchical bit set the masks are made of (crate hibitset, as specs re-exports it): the layers
//! after a sequence of `add` / `remove`, membership, sequential iteration of a (combined) set, and the
//! leaves of a tree of `BitProducer::split`s (what `par_join` hands to rayon).
//!
//! case: `[combo, na, a-ops.., nb, b-ops.., nt, tree..]`; an op `z > 0` adds `z - 1`, `z < 0` removes
//! `-z - 1`, `z = 0` clears the set; combo 0 = a, 1 = a & b, 2 = a | b, 3 = a ^ b, 4 = a & !b, 5 = a kept in an
//! `AtomicBitSet` (adds through `add_atomic`), 6 = b | a with a atomic (the mask of the entities resource:
//! alive | created this frame); the tree in preorder, 1 = split.
use specs::hibitset::{AtomicBitSet, BitProducer, BitSet, BitSetAnd, BitSetLike, BitSetNot, BitSetOr, BitSetXor};
use specs::rayon::iter::plumbing::UnindexedProducer;

enum Tree {
    Leaf,
    Node(Box<Tree>, Box<Tree>),
}

fn dec_tree(l: &[i64], pos: &mut usize) -> Tree {
    if *pos >= l.len() {
        return Tree::Leaf;
    }
    let x = l[*pos];
    *pos += 1;
    if x == 1 {
        let a = dec_tree(l, pos);
        let b = dec_tree(l, pos);
        Tree::Node(Box::new(a), Box::new(b))
    } else {
        Tree::Leaf
    }
}

fn op_index(z: i64) -> u32 {
    (if z > 0 { z - 1 } else { -z - 1 }) as u32
}

fn apply(s: &mut BitSet, ops: &[i64]) {
    for &z in ops {
        if z > 0 {
            s.add(op_index(z));
        } else if z < 0 {
            s.remove(op_index(z));
        } else {
            s.clear();
        }
    }
}

fn apply_atomic(s: &mut AtomicBitSet, ops: &[i64]) {
    for (k, &z) in ops.iter().enumerate() {
        if z > 0 {
            if k % 3 == 2 {
                s.add(op_index(z));
            } else {
                s.add_atomic(op_index(z));
            }
        } else if z < 0 {
            s.remove(op_index(z));
        } else {
            s.clear();
        }
    }
}

fn bits(w: usize) -> Vec<i64> {
    (0..64).filter(|b| w >> b & 1 == 1).map(|b| b as i64).collect()
}

fn dump<S: BitSetLike>(s: &S, ops: &[i64], base: i64, out: &mut Vec<Vec<i64>>) {
    let mut e = vec![base + 3];
    e.extend(bits(s.layer3()));
    out.push(e);
    for i in 0..64usize {
        let w = s.layer2(i);
        if w != 0 {
            let mut e = vec![base + 2, i as i64];
            e.extend(bits(w));
            out.push(e);
        }
    }
    for i in 0..4096usize {
        let w = s.layer1(i);
        if w != 0 {
            let mut e = vec![base + 1, i as i64];
            e.extend(bits(w));
            out.push(e);
        }
    }
    // the bottom layer: every word an operation of this case addressed, and its neighbours
    let mut idx: Vec<usize> = ops
        .iter()
        .filter(|&&z| z != 0)
        .flat_map(|&z| {
            let p = (op_index(z) >> 6) as usize;
            vec![p.saturating_sub(1), p, (p + 1).min((1 << 18) - 1)]
        })
        .collect();
    idx.sort();
    idx.dedup();
    for i in idx {
        let w = s.layer0(i);
        if w != 0 {
            let mut e = vec![base, i as i64];
            e.extend(bits(w));
            out.push(e);
        }
    }
}

fn walk<'a, T: BitSetLike + Send + Sync>(p: BitProducer<'a, T>, t: &Tree, out: &mut Vec<Vec<i64>>) {
    match t {
        Tree::Leaf => leaf(p, out),
        Tree::Node(l, r) => {
            let (a, ob) = p.split();
            match ob {
                Some(b) => {
                    walk(a, l, out);
                    walk(b, r, out);
                }
                None => leaf(a, out),
            }
        }
    }
}

fn leaf<'a, T: BitSetLike + Send + Sync>(p: BitProducer<'a, T>, out: &mut Vec<Vec<i64>>) {
    let mut e = vec![11];
    e.extend(p.0.map(|i| i as i64));
    out.push(e);
}

fn run<T: BitSetLike + Send + Sync>(m: &T, probes: &[i64], tree: &Tree, out: &mut Vec<Vec<i64>>) {
    let mut e = vec![12];
    e.extend(probes.iter().map(|&z| m.contains(op_index(z)) as i64));
    out.push(e);
    let mut e = vec![10];
    e.extend(m.iter().map(|i| i as i64));
    out.push(e);
    walk(BitProducer(m.iter(), 3), tree, out);
}

pub fn run_case(h: &[i64]) -> Vec<Vec<i64>> {
    let mut p = 0usize;
    let mut take = |p: &mut usize| -> Vec<i64> {
        let n = h[*p] as usize;
        *p += 1;
        let v = h[*p..*p + n].to_vec();
        *p += n;
        v
    };
    let combo = h[p];
    p += 1;
    let aops = take(&mut p);
    let bops = take(&mut p);
    let tr = take(&mut p);
    let mut pos = 0;
    let tree = dec_tree(&tr, &mut pos);
    let mut a = BitSet::new();
    let mut b = BitSet::new();
    let mut at = AtomicBitSet::new();
    apply(&mut b, &bops);
    let mut out = Vec::new();
    if combo == 5 || combo == 6 {
        apply_atomic(&mut at, &aops);
        dump(&at, &aops, 20, &mut out);
    } else {
        apply(&mut a, &aops);
        dump(&a, &aops, 20, &mut out);
    }
    dump(&b, &bops, 30, &mut out);
    let probes: Vec<i64> = aops.iter().chain(bops.iter()).cloned().filter(|&z| z != 0).collect();
    match combo {
        5 => run(&at, &probes, &tree, &mut out),
        6 => run(&BitSetOr(&b, &at), &probes, &tree, &mut out),
        1 => run(&BitSetAnd(&a, &b), &probes, &tree, &mut out),
        2 => run(&BitSetOr(&a, &b), &probes, &tree, &mut out),
        3 => run(&BitSetXor(&a, &b), &probes, &tree, &mut out),
        4 => run(&BitSetAnd(&a, BitSetNot(&b)), &probes, &tree, &mut out),
        _ => run(&a, &probes, &tree, &mut out),
    }
    out
}
